import MpsProofs.Order
import Mps.System
/-
  Multi-party composition for C07: in a session of n handlers that all follow the script, under EVERY causal
  schedule the messages the peers emit for a party form an `Honest` set for that party. Core-only.

  Part 1 (namespace Mps.Handler): what a handler that was only given honest messages has emitted so far.
  Part 2: the closed form of a session's messages (`gEcho`, `IdealOut`) and the static fact that a set of such
          messages that is closed under "earlier broadcasts are there" is `Honest`.
  Part 3 (namespace Mps.System): the system invariant `Inv`, by induction over the schedule; theorems (a) `emitted_honest`,
          `tables_agree`, (b) `no_honest_abort`, (c) `schedule_feq`.
  Part 4: progress of one handler (`run_stuck`: a handler that has not ended waits for an undelivered message).
  Part 5: (d) `all_terminal`, `complete_schedule_completes` for schedules that are fair to the end.
  Part 6: the closed-form value of a completed session (`run_value`, `sessionValue`, `complete_value`).
-/
namespace Mps.Handler
open Mps

/-! ## Part 1: the emissions of a handler fed with honest messages -/

/-- the message the scripted `Finalize` builds for recipient `to` (`[]`: broadcast) and round `r` -/
def mkMsg (sc : Script) (to : Bytes) (r : Nat) (b : Bool) (bv : Option Bytes) : Msg :=
  { ssid := some sc.ssid, frm := sc.self, to := to, proto := sc.proto, rnd := r,
    data := some (cborContent ⟨honestV sc sc.self to r, 0⟩), bcast := b, bv := bv,
    dec := some ⟨honestV sc sc.self to r, 0⟩ }

/-- `emitFor` with the echo stamp made explicit -/
def emitW (sc : Script) (nx : RoundSpec) (bv : Option Bytes) : List Msg :=
  (if nx.recvB then [mkMsg sc [] nx.num true bv] else []) ++
  (if nx.recvP then (others sc).map fun id => mkMsg sc id nx.num false bv else [])

theorem emitFor_eq (s : State) (nx : RoundSpec) : emitFor s nx = emitW s.sc nx (bhLookup s.bh (nx.num - 1)) := rfl

theorem ownB_eq (sc : Script) (r : Nat) (bv : Option Bytes) : ownB sc r bv = mkMsg sc [] r true bv := rfl

theorem mem_emitW (sc : Script) (nx : RoundSpec) (bv : Option Bytes) (m : Msg) :
    m ∈ emitW sc nx bv ↔
      (nx.recvB = true ∧ m = mkMsg sc [] nx.num true bv) ∨
      (nx.recvP = true ∧ ∃ id ∈ others sc, m = mkMsg sc id nx.num false bv) := by
  unfold emitW
  rw [List.mem_append]
  constructor
  · rintro (h | h)
    · split at h
      · next hb => exact Or.inl ⟨hb, by simpa using h⟩
      · simp at h
    · split at h
      · next hp =>
        obtain ⟨id, hid, rfl⟩ := List.mem_map.mp h
        exact Or.inr ⟨hp, id, hid, rfl⟩
      · simp at h
  · rintro (⟨hb, rfl⟩ | ⟨hp, id, hid, rfl⟩)
    · left; simp [hb]
    · right; simp only [hp, if_true]; exact List.mem_map.mpr ⟨id, hid, rfl⟩

/-- what the handler sends on entering the round at index `i` of the script, in a session where the peers'
    messages to it are `M` -/
def emitAt (H : Bytes → Bytes) (sc : Script) (M : List Msg) (i : Nat) : List Msg :=
  match sc.rounds[i]? with
  | some nx => emitW sc nx (expBh H sc M (nx.num - 1))
  | none => []

/-- everything sent up to (and including) the entry into the round at index `k` -/
def emitsUpTo (H : Bytes → Bytes) (sc : Script) (M : List Msg) : Nat → List Msg
  | 0 => []
  | k + 1 => emitsUpTo H sc M k ++ emitAt H sc M (k + 1)

theorem mem_emitsUpTo (H : Bytes → Bytes) (sc : Script) (M : List Msg) (k : Nat) (m : Msg) :
    m ∈ emitsUpTo H sc M k ↔ ∃ i, 1 ≤ i ∧ i ≤ k ∧ m ∈ emitAt H sc M i := by
  induction k with
  | zero => simp only [emitsUpTo, List.not_mem_nil, false_iff]; rintro ⟨i, h1, h2, _⟩; omega
  | succ k ih =>
    simp only [emitsUpTo, List.mem_append, ih]
    constructor
    · rintro (⟨i, h1, h2, h3⟩ | h)
      · exact ⟨i, h1, by omega, h3⟩
      · exact ⟨k + 1, by omega, Nat.le_refl _, h⟩
    · rintro ⟨i, h1, h2, h3⟩
      rcases Nat.lt_or_eq_of_le h2 with h | rfl
      · exact Or.inl ⟨i, h1, by omega, h3⟩
      · exact Or.inr h3

/-- the emissions of a handler: exactly the scripted messages of the rounds it has entered, each stamped with the
    session's echo hash; the echo hash of every completed broadcast round is in its table; no error -/
structure EInv (H : Bytes → Bytes) (sc : Script) (M : List Msg) (s : State) : Prop where
  out : s.out = emitsUpTo H sc M s.idx
  filled : ∀ j sp, j < s.idx → sc.rounds[j]? = some sp → (sp.recvB && hasSlot sc sp.num) = true →
    (bhLookup s.bh sp.num).isSome = true
  noerr : s.err = none
  final : s.result.isSome = true → sc.rounds[s.idx + 1]? = none

section
variable {H : Bytes → Bytes} {sc : Script} {M : List Msg}

theorem sendAll_bh (s : State) (ems : List Msg) : (sendAll s ems).bh = s.bh := by
  unfold sendAll; exact foldStore_bh _ _

theorem EInv.fill {s : State} (e : EInv H sc M s) : EInv H sc M (fillBh H s) := by
  refine ⟨?_, ?_, ?_, ?_⟩
  · rw [fillBh_idx, fillBh_eq' H s]; exact e.out
  · intro j sp hj hsp hc
    rw [fillBh_idx] at hj
    obtain ⟨x, hx⟩ := Option.isSome_iff_exists.mp (e.filled j sp hj hsp hc)
    rw [bhLookup_mono_fill H s _ x hx]; rfl
  · rw [fillBh_eq' H s]; exact e.noerr
  · rw [fillBh_idx, fillBh_eq' H s]; exact e.final

theorem EInv.preReplay {s : State} (hM : Honest H sc M) (inv : HInv H sc M s) (e : EInv H sc M s) (nx : RoundSpec)
    (hn : sc.rounds[s.idx + 1]? = some nx) (hr : receivedAllB H s = true) (v : Nat) :
    EInv H sc M (addAcc (Handler.preReplay H s nx) v) := by
  have inv4 := inv.preReplay hM nx hn hr
  have hbh : (addAcc (Handler.preReplay H s nx) v).bh = (fillBh H s).bh := by
    show (sendAll (fillBh H s) (emitFor (fillBh H s) nx)).bh = _
    exact sendAll_bh _ _
  have hidx : (addAcc (Handler.preReplay H s nx) v).idx = s.idx + 1 := rfl
  refine ⟨?_, ?_, inv4.live.2.1, fun h => by rw [show (addAcc (Handler.preReplay H s nx) v).result = none from inv4.live.2.2] at h; cases h⟩
  · rw [hidx]
    show (sendAll (fillBh H s) (emitFor (fillBh H s) nx)).out = _
    rw [(sendAll_frame _ _).2.2.2.2, emitFor_eq, inv.bv_exact hM nx hn hr, (inv.fill hM).scEq]
    have : (fillBh H s).out = s.out := by rw [fillBh_eq' H s]; rfl
    rw [this, e.out]
    simp only [emitsUpTo, emitAt, hn]
  · intro j sp hj hsp hc
    rw [hidx] at hj
    rw [hbh]
    rcases Nat.lt_or_eq_of_le (Nat.le_of_lt_succ hj) with hj' | rfl
    · exact (e.fill).filled j sp (by rw [fillBh_idx]; exact hj') hsp hc
    · have hcs := inv.curSpec_eq
      rw [hcs.1] at hsp
      have hsp' : curSpec s = sp := Option.some.inj hsp
      subst hsp'
      rw [hcs.2, ← inv.scEq] at hc
      rw [hcs.2]
      exact fillBh_filled H s hc hr

/-- `finalize` keeps the description of the emissions (own `Finalize` never fails: `finErrAt = 0`) -/
theorem finalize_einv (hM : Honest H sc M) (h0 : sc.finErrAt = 0) (fuel : Nat) (s : State) (inv : HInv H sc M s)
    (e : EInv H sc M s) : EInv H sc M (finalize H fuel s) := by
  induction fuel generalizing s with
  | zero => exact e
  | succ fuel ih =>
    have e1 := e.fill (H := H)
    unfold finalize
    rw [finalizeStep_honest hM inv]
    cases hrv : receivedAllB H s with
    | false => simp only [Bool.not_false, if_true]; exact e1
    | true =>
      have hfe : (sc.finErrAt != 0 && sc.finErrAt == s.cur) = false := by simp [h0]
      simp only [Bool.not_true, Bool.false_eq_true, if_false, hfe]
      cases hn : sc.rounds[s.idx + 1]? with
      | none =>
        simp only
        exact ⟨e1.out, e1.filled, e1.noerr, fun _ => by
          show sc.rounds[(fillBh H s).idx + 1]? = none
          rw [fillBh_idx]; exact hn⟩
      | some nx => simp only; exact ih _ ((inv.preReplay hM nx hn hrv).addAcc _) (e.preReplay hM inv nx hn hrv _)

theorem preload_einv (hM : Honest H sc M) (l : List Msg) : EInv H sc M (preload sc l) := by
  have hf := (foldl_store_feq l (state0 sc)).fields
  have hc := preload_cur hM l
  refine ⟨?_, ?_, ?_, ?_⟩
  · rw [hc.2]; exact hf.2.2.2.2.2.2.2.1
  · intro j sp hj; rw [hc.2] at hj; omega
  · exact hf.2.2.2.2.2.1
  · intro h
    have hr : (preload sc l).result = none := hf.2.2.2.2.2.2.1
    rw [hr] at h; cases h

/-- the emissions of a handler after any sequence of deliveries of honest messages -/
theorem run_einv (hM : Honest H sc M) (h0 : sc.finErrAt = 0) (l : List Msg) (hl : ∀ m ∈ l, m ∈ M) :
    EInv H sc M (run H sc (l.map Call.accept)) := by
  have hc : EInv H sc M (canon H sc l) := finalize_einv hM h0 _ _ (preload_hinv hM l hl) (preload_einv hM l)
  obtain ⟨_, e2, _, _, e5, e6, e7, e8, _⟩ := (run_canon hM l hl).feq.fields
  exact ⟨by rw [e8, e2]; exact hc.out, by rw [e2, e5]; exact hc.filled, by rw [e6]; exact hc.noerr,
    by rw [e7, e2]; exact hc.final⟩

end

end Mps.Handler

/-! ## Part 2: the closed form of a session's messages -/

namespace Mps.System
open Mps Mps.Handler

theorem scriptFor_self (base : Script) (p : Bytes) : (scriptFor base p).self = p := rfl
theorem scriptFor_ids (base : Script) (p : Bytes) : (scriptFor base p).ids = base.ids := rfl
theorem scriptFor_rounds (base : Script) (p : Bytes) : (scriptFor base p).rounds = base.rounds := rfl

/-- the side conditions on the common script of a session:
    * `script`: distinct party ids, first round number 1, increasing round numbers (as for one handler);
    * `noEmptyId`: no party is called `""` — `To = ""` means broadcast (`Message.IsFor`), a p2p message to such a
      party would be taken by everybody;
    * `inRange`: no round number exceeds `FinalRoundNumber` — the handler has no queue for such a round and
      `CanAccept` refuses its messages;
    * `twoParties`: at least two parties;
    * `noFinErr`: no party's own `Finalize` fails (the scripted failure switch is off) -/
structure SessionOk (base : Script) : Prop where
  script : ScriptOk base
  noEmptyId : [] ∉ base.ids
  inRange : ∀ sp ∈ base.rounds, sp.num ≤ base.final
  twoParties : 2 ≤ base.ids.length
  noFinErr : base.finErrAt = 0

instance (base : Script) : Decidable (SessionOk base) :=
  decidable_of_iff (ScriptOk base ∧ [] ∉ base.ids ∧ (∀ sp ∈ base.rounds, sp.num ≤ base.final) ∧ 2 ≤ base.ids.length ∧
      base.finErrAt = 0)
    ⟨fun h => ⟨h.1, h.2.1, h.2.2.1, h.2.2.2.1, h.2.2.2.2⟩, fun h => ⟨h.1, h.2, h.3, h.4, h.5⟩⟩

theorem scriptOk_for {base : Script} (ok : ScriptOk base) (p : Bytes) : ScriptOk (scriptFor base p) :=
  ⟨ok.ids_nodup, ok.first, ok.incr⟩

theorem round_ge_two {base : Script} (ok : ScriptOk base) (i : Nat) (nx : RoundSpec) (hi : 1 ≤ i)
    (h : base.rounds[i]? = some nx) : 2 ≤ nx.num := by
  obtain ⟨hlt, e⟩ := List.getElem?_eq_some_iff.mp h
  have h0 : 0 < base.rounds.length := by omega
  have hf := ok.first
  rw [List.getElem?_eq_getElem h0] at hf
  simp only [Option.map_some, Option.some.injEq] at hf
  have := List.pairwise_iff_getElem.mp ok.incr 0 i h0 hlt (by omega)
  rw [e, hf] at this
  omega

theorem index_of_spec {base : Script} (ok : ScriptOk base) (r : Nat) (sp : RoundSpec) (h : specOf base r = some sp)
    (hr : 2 ≤ r) : ∃ j, 1 ≤ j ∧ base.rounds[j]? = some sp ∧ sp.num = r := by
  obtain ⟨j, hj⟩ := specOf_getElem base r sp h
  have hn := specOf_num base r sp h
  refine ⟨j, ?_, hj, hn⟩
  rcases Nat.eq_zero_or_pos j with rfl | hpos
  · have hf := ok.first
    rw [hj] at hf
    simp only [Option.map_some, Option.some.injEq] at hf
    omega
  · exact hpos

theorem hasSlot_round {base : Script} (ok : SessionOk base) (i : Nat) (nx : RoundSpec) (hi : 1 ≤ i)
    (h : base.rounds[i]? = some nx) : hasSlot base nx.num = true := by
  have h2 := round_ge_two ok.script i nx hi h
  have h3 := ok.inRange nx (List.mem_of_getElem? h)
  simp [hasSlot, h2, h3]

theorem exists_other {base : Script} (ok : SessionOk base) (p : Bytes) : ∃ t ∈ base.ids, t ≠ p := by
  have hn := ok.script.ids_nodup
  have hl := ok.twoParties
  match hids : base.ids with
  | [] => rw [hids] at hl; simp at hl
  | [_] => rw [hids] at hl; simp at hl
  | a :: b :: rest =>
    rw [hids] at hn
    have hab : a ≠ b := by
      intro e; subst e
      simp at hn
    by_cases ha : a = p
    · exact ⟨b, by simp, fun e => hab (ha.trans e.symm)⟩
    · exact ⟨a, by simp, ha⟩

/-- the broadcasts of round `r` of all parties, as a queue -/
def idealBc (base : Script) (r : Nat) (bv : Option Bytes) : List (Nat × Bytes × Msg) :=
  base.ids.map fun id => (r, id, mkMsg (scriptFor base id) [] r true bv)

/-- THE echo hash of round `r` of the session: the hash over all parties' scripted broadcasts of that round, each
    of which carries the echo hash of round `r - 1` (`none` when `r` is not a broadcast round with a queue).
    A closed form: it depends on the script only. -/
def gEcho (H : Bytes → Bytes) (base : Script) : Nat → Option Bytes
  | 0 => none
  | r + 1 =>
    match specOf base (r + 1) with
    | some sp =>
      if sp.recvB && hasSlot base (r + 1) then echoHash H base (idealBc base (r + 1) (gEcho H base r)) (r + 1) else none
    | none => none

theorem gEcho_succ (H : Bytes → Bytes) (base : Script) (r : Nat) :
    gEcho H base (r + 1) = match specOf base (r + 1) with
      | some sp =>
        if sp.recvB && hasSlot base (r + 1) then echoHash H base (idealBc base (r + 1) (gEcho H base r)) (r + 1) else none
      | none => none := rfl

theorem expBh_succ (H : Bytes → Bytes) (base : Script) (p : Bytes) (M : List Msg) (r : Nat) :
    expBh H (scriptFor base p) M (r + 1) = match specOf base (r + 1) with
      | some sp =>
        if sp.recvB && hasSlot base (r + 1) then
          echoHash H base ((r + 1, p, mkMsg (scriptFor base p) [] (r + 1) true (expBh H (scriptFor base p) M r)) :: bcOf M) (r + 1)
        else none
      | none => none := rfl

/-- `m` is one of the messages party `q` sends in the session (on entering some round after the first) -/
def IdealOut (H : Bytes → Bytes) (base : Script) (q : Bytes) (m : Msg) : Prop :=
  ∃ i nx, 1 ≤ i ∧ base.rounds[i]? = some nx ∧ m ∈ emitW (scriptFor base q) nx (gEcho H base (nx.num - 1))

/-- a set of session messages addressed to `p` that, with a message of some round, contains the other parties'
    broadcasts of all earlier broadcast rounds -/
structure IdealClosed (H : Bytes → Bytes) (base : Script) (p : Bytes) (S : List Msg) : Prop where
  ideal : ∀ m ∈ S, isFor m p = true ∧ ∃ q ∈ base.ids, IdealOut H base q m
  closed : ∀ m ∈ S, ∀ j sp, 1 ≤ j → base.rounds[j]? = some sp → sp.num < m.rnd → sp.recvB = true →
    ∀ t ∈ base.ids, t ≠ p → mkMsg (scriptFor base t) [] sp.num true (gEcho H base (sp.num - 1)) ∈ S

theorem IdealOut.shape {H : Bytes → Bytes} {base : Script} {q : Bytes} {m : Msg} (h : IdealOut H base q m) :
    ∃ i nx to b, 1 ≤ i ∧ base.rounds[i]? = some nx ∧
      m = mkMsg (scriptFor base q) to nx.num b (gEcho H base (nx.num - 1)) ∧
      ((b = true ∧ nx.recvB = true ∧ to = []) ∨ (b = false ∧ nx.recvP = true ∧ to ∈ others (scriptFor base q))) := by
  obtain ⟨i, nx, hi, hnx, hm⟩ := h
  rcases (mem_emitW _ _ _ _).mp hm with ⟨hb, rfl⟩ | ⟨hp, id, hid, rfl⟩
  · exact ⟨i, nx, [], true, hi, hnx, rfl, Or.inl ⟨rfl, hb, rfl⟩⟩
  · exact ⟨i, nx, id, false, hi, hnx, rfl, Or.inr ⟨rfl, hp, hid⟩⟩

theorem IdealOut.frm {H : Bytes → Bytes} {base : Script} {q : Bytes} {m : Msg} (h : IdealOut H base q m) : m.frm = q := by
  obtain ⟨i, nx, to, b, _, _, rfl, _⟩ := h.shape
  rfl

theorem mem_others {sc : Script} {id : Bytes} : id ∈ others sc ↔ id ∈ sc.ids ∧ id ≠ sc.self := by
  unfold others
  simp [List.mem_filter]

theorem isFor_mkMsg (sc : Script) (to : Bytes) (r : Nat) (b : Bool) (bv : Option Bytes) (p : Bytes) :
    isFor (mkMsg sc to r b bv) p = true ↔ sc.self ≠ p ∧ (to = [] ∨ to = p) := by
  unfold isFor mkMsg
  simp only
  by_cases h : sc.self = p
  · simp [h]
  · simp [h]

theorem mem_bcOf (S : List Msg) (e : Nat × Bytes × Msg) :
    e ∈ bcOf S ↔ ∃ m ∈ S, m.bcast = true ∧ e = (m.rnd, m.frm, m) := by
  unfold bcOf
  simp only [List.mem_map, List.mem_filter]
  constructor
  · rintro ⟨m, ⟨h1, h2⟩, rfl⟩; exact ⟨m, h1, h2, rfl⟩
  · rintro ⟨m, h1, h2, rfl⟩; exact ⟨m, ⟨h1, h2⟩, rfl⟩

/-- a hit in the queue of the broadcasts among `S` -/
theorem lookup_bcOf_some (S : List Msg) (r : Nat) (id : Bytes) (y : Msg) (h : lookup (bcOf S) r id = some y) :
    y ∈ S ∧ y.bcast = true ∧ y.rnd = r ∧ y.frm = id := by
  obtain ⟨e, he, rfl, h1, h2⟩ := lookup_keys _ _ _ _ h
  obtain ⟨m, hm, hb, rfl⟩ := (mem_bcOf S e).mp he
  exact ⟨hm, hb, h1, h2⟩

theorem lookup_bcOf_uniq (S : List Msg)
    (uniq : ∀ m ∈ S, ∀ m' ∈ S, m.rnd = m'.rnd → m.frm = m'.frm → m.bcast = m'.bcast → m = m')
    (x : Msg) (hx : x ∈ S) (hb : x.bcast = true) : lookup (bcOf S) x.rnd x.frm = some x := by
  have hmem : (x.rnd, x.frm, x) ∈ bcOf S := (mem_bcOf S _).mpr ⟨x, hx, hb, rfl⟩
  cases hl : lookup (bcOf S) x.rnd x.frm with
  | none =>
    unfold lookup at hl
    simp only [Option.map_eq_none_iff] at hl
    have := List.find?_eq_none.mp hl _ hmem
    simp at this
  | some y =>
    obtain ⟨hy, hyb, h1, h2⟩ := lookup_bcOf_some S _ _ y hl
    rw [uniq y hy x hx h1 h2 (hyb.trans hb.symm)]

theorem lookup_idealBc (base : Script) (r : Nat) (bv : Option Bytes) (id : Bytes) (hid : id ∈ base.ids) :
    lookup (idealBc base r bv) r id = some (mkMsg (scriptFor base id) [] r true bv) := by
  unfold idealBc
  generalize base.ids = l at hid
  induction l with
  | nil => cases hid
  | cons x xs ih =>
    rw [List.map_cons]
    by_cases hx : x = id
    · subst hx; exact lookup_cons_eq _ _ _ _
    · rw [lookup_cons_ne _ _ _ _ (by simp only [not_and]; intro _ h2; exact hx h2)]
      rcases List.mem_cons.mp hid with e | e
      · exact absurd e.symm hx
      · exact ih e

theorem echoHash_congr_ids (H : Bytes → Bytes) (sc : Script) (bc bc' : List (Nat × Bytes × Msg)) (r : Nat)
    (hl : ∀ id ∈ sc.ids, lookup bc r id = lookup bc' r id) : echoHash H sc bc r = echoHash H sc bc' r := by
  have : (sc.ids.map fun id => lookup bc r id) = (sc.ids.map fun id => lookup bc' r id) := List.map_congr_left hl
  unfold echoHash
  simp only [this]

theorem echoHash_isSome (H : Bytes → Bytes) (sc : Script) (bc : List (Nat × Bytes × Msg)) (r : Nat)
    (h : ∀ id ∈ sc.ids, (lookup bc r id).isSome = true) : (echoHash H sc bc r).isSome = true := by
  unfold echoHash
  simp only
  have : ((sc.ids.map fun id => lookup bc r id).all Option.isSome) = true := by
    simp only [List.all_map, List.all_eq_true]
    exact h
  rw [if_pos this]; rfl

/-- the guard of `gEcho` decides whether it is defined -/
theorem gEcho_isSome (H : Bytes → Bytes) (base : Script) (r : Nat) (sp : RoundSpec) (hs : specOf base (r + 1) = some sp)
    (hc : (sp.recvB && hasSlot base (r + 1)) = true) : (gEcho H base (r + 1)).isSome = true := by
  rw [gEcho_succ, hs]
  simp only [hc, if_true]
  apply echoHash_isSome
  intro id hid
  rw [lookup_idealBc base (r + 1) _ id hid]; rfl

theorem gEcho_guard (H : Bytes → Bytes) (base : Script) (r : Nat) (g : Bytes) (h : gEcho H base r = some g) :
    ∃ k sp, r = k + 1 ∧ specOf base (k + 1) = some sp ∧ (sp.recvB && hasSlot base (k + 1)) = true := by
  cases r with
  | zero => simp [gEcho] at h
  | succ k =>
    rw [gEcho_succ] at h
    cases hs : specOf base (k + 1) with
    | none => simp [hs] at h
    | some sp =>
      simp only [hs] at h
      by_cases hc : (sp.recvB && hasSlot base (k + 1)) = true
      · exact ⟨k, sp, rfl, hs, hc⟩
      · simp [hc] at h

/-- where the session has no echo hash, no party expects one -/
theorem expBh_none_of_gEcho (H : Bytes → Bytes) (base : Script) (p : Bytes) (S : List Msg) (r : Nat)
    (h : gEcho H base r = none) : expBh H (scriptFor base p) S r = none := by
  cases r with
  | zero => rfl
  | succ k =>
    rw [expBh_succ]
    cases hs : specOf base (k + 1) with
    | none => rfl
    | some sp =>
      simp only
      by_cases hc : (sp.recvB && hasSlot base (k + 1)) = true
      · have := gEcho_isSome H base k sp hs hc
        rw [h] at this; cases this
      · simp [hc]

end Mps.System

namespace Mps.System
open Mps Mps.Handler

section
variable {H : Bytes → Bytes} {base : Script} {p : Bytes} {S : List Msg}

/-- two rounds of the script with the same number are the same round -/
theorem round_unique (ok : ScriptOk base) (i j : Nat) (a b : RoundSpec) (ha : base.rounds[i]? = some a)
    (hb : base.rounds[j]? = some b) (h : a.num = b.num) : a = b := by
  have h1 := specOf_of_getElem base ok i a ha
  have h2 := specOf_of_getElem base ok j b hb
  rw [h, h2] at h1
  exact (Option.some.inj h1).symm

/-- a broadcast of the set is the scripted broadcast of its sender -/
theorem IdealClosed.bcast_eq (_ok : SessionOk base) (hS : IdealClosed H base p S) (x : Msg) (hx : x ∈ S)
    (hb : x.bcast = true) : x = mkMsg (scriptFor base x.frm) [] x.rnd true (gEcho H base (x.rnd - 1)) := by
  obtain ⟨_, q, _, hq⟩ := hS.ideal x hx
  obtain ⟨i, nx, to, b, _, _, rfl, hk⟩ := hq.shape
  rcases hk with ⟨rfl, _, rfl⟩ | ⟨rfl, _, _⟩
  · rfl
  · cases hb

/-- no two different messages for one (round, sender, kind) -/
theorem IdealClosed.uniq (ok : SessionOk base) (hS : IdealClosed H base p S) :
    ∀ m ∈ S, ∀ m' ∈ S, m.rnd = m'.rnd → m.frm = m'.frm → m.bcast = m'.bcast → m = m' := by
  intro m hm m' hm' hr hf hb
  obtain ⟨hfor, q, hq, hI⟩ := hS.ideal m hm
  obtain ⟨hfor', q', hq', hI'⟩ := hS.ideal m' hm'
  obtain ⟨i, nx, to, b, hi, hnx, rfl, hk⟩ := hI.shape
  obtain ⟨i', nx', to', b', hi', hnx', rfl, hk'⟩ := hI'.shape
  have e1 : q = q' := hf
  subst e1
  have e2 : nx = nx' := round_unique ok.script i i' nx nx' hnx hnx' hr
  subst e2
  have e3 : b = b' := hb
  subst e3
  have hne : ∀ t, t ∈ others (scriptFor base q) → t ≠ [] := by
    intro t ht e
    exact ok.noEmptyId (e ▸ (mem_others.mp ht).1)
  have e4 : to = to' := by
    rcases hk with ⟨hbt, _, rfl⟩ | ⟨hbf, _, hto⟩
    · rcases hk' with ⟨_, _, rfl⟩ | ⟨hbf', _, _⟩
      · rfl
      · rw [hbt] at hbf'; cases hbf'
    · rcases hk' with ⟨hbt, _, _⟩ | ⟨_, _, hto'⟩
      · rw [hbt] at hbf; cases hbf
      · have a1 := ((isFor_mkMsg _ _ _ _ _ _).mp hfor).2
        have a2 := ((isFor_mkMsg _ _ _ _ _ _).mp hfor').2
        rcases a1 with a1 | a1
        · exact absurd a1 (hne _ hto)
        · rcases a2 with a2 | a2
          · exact absurd a2 (hne _ hto')
          · rw [a1, a2]
  rw [e4]

/-- for every round number below a message of the set, the party's expected echo hash is the session's -/
theorem IdealClosed.expBh_eq (ok : SessionOk base) (hp : p ∈ base.ids) (hS : IdealClosed H base p S) :
    ∀ r, (∃ x ∈ S, r < x.rnd) → expBh H (scriptFor base p) S r = gEcho H base r := by
  intro r
  induction r with
  | zero => intro _; rfl
  | succ r ih =>
    rintro ⟨x, hx, hlt⟩
    rw [expBh_succ, gEcho_succ, ih ⟨x, hx, by omega⟩]
    cases hs : specOf base (r + 1) with
    | none => rfl
    | some sp =>
      simp only
      by_cases hc : (sp.recvB && hasSlot base (r + 1)) = true
      · simp only [hc, if_true]
        have hB : sp.recvB = true := by simp only [Bool.and_eq_true] at hc; exact hc.1
        have h2 : 2 ≤ r + 1 := by
          simp only [Bool.and_eq_true, hasSlot, decide_eq_true_eq] at hc; exact hc.2.1
        obtain ⟨j, hj, hjr, hnum⟩ := index_of_spec ok.script (r + 1) sp hs h2
        apply echoHash_congr_ids
        intro id hid
        rw [lookup_idealBc base (r + 1) _ id hid]
        by_cases hidp : id = p
        · subst hidp; exact lookup_cons_eq _ _ _ _
        · rw [lookup_cons_ne _ _ _ _ (by simp only [not_and]; intro _ h2; exact hidp h2.symm)]
          have hmem := hS.closed x hx j sp hj hjr (by omega) hB id hid hidp
          rw [hnum] at hmem
          have := lookup_bcOf_uniq S (hS.uniq ok) _ hmem rfl
          exact this
      · simp [hc]

/-- whatever echo hash the party expects is the session's -/
theorem IdealClosed.expBh_some (ok : SessionOk base) (hp : p ∈ base.ids) (hS : IdealClosed H base p S) (r : Nat)
    (h : Bytes) (he : expBh H (scriptFor base p) S r = some h) : gEcho H base r = some h := by
  cases r with
  | zero => simp [expBh] at he
  | succ r =>
    rw [expBh_succ] at he
    rw [gEcho_succ]
    cases hs : specOf base (r + 1) with
    | none => simp [hs] at he
    | some sp =>
      simp only [hs] at he ⊢
      by_cases hc : (sp.recvB && hasSlot base (r + 1)) = true
      · simp only [hc, if_true] at he ⊢
        obtain ⟨t, ht, htp⟩ := exists_other ok p
        have hall := (echoHash_some H base _ (r + 1) h he).1
        -- some other party's broadcast of this round is in the set
        have hsome := hall t ht
        rw [lookup_cons_ne _ _ _ _ (by simp only [not_and]; intro _ h2; exact htp h2.symm)] at hsome
        obtain ⟨y, hy⟩ := Option.isSome_iff_exists.mp hsome
        obtain ⟨hyS, _, hyr, _⟩ := lookup_bcOf_some S _ _ y hy
        have heq := hS.expBh_eq ok hp r ⟨y, hyS, by omega⟩
        rw [heq] at he
        apply echoHash_congr H base _ _ (r + 1) h he
        intro id hid
        rw [lookup_idealBc base (r + 1) _ id hid]
        by_cases hidp : id = p
        · subst hidp; exact (lookup_cons_eq _ _ _ _).symm
        · rw [lookup_cons_ne _ _ _ _ (by simp only [not_and]; intro _ h2; exact hidp h2.symm)]
          have hsome' := hall id hid
          rw [lookup_cons_ne _ _ _ _ (by simp only [not_and]; intro _ h2; exact hidp h2.symm)] at hsome'
          obtain ⟨z, hz⟩ := Option.isSome_iff_exists.mp hsome'
          obtain ⟨hzS, hzb, hzr, hzf⟩ := lookup_bcOf_some S _ _ z hz
          have := hS.bcast_eq ok z hzS hzb
          rw [hzr, hzf] at this
          rw [hz, this]; rfl
      · simp [hc] at he

/-- STATIC COMPOSITION LEMMA: a closed set of session messages addressed to `p` is an honest message set for `p` -/
theorem honest_of_idealClosed (ok : SessionOk base) (hp : p ∈ base.ids) (hS : IdealClosed H base p S) :
    Honest H (scriptFor base p) S := by
  refine ⟨scriptOk_for ok.script p, ?_, hS.uniq ok⟩
  intro m hm
  obtain ⟨hfor, q, hq, hI⟩ := hS.ideal m hm
  obtain ⟨i, nx, to, b, hi, hnx, hmk, hk⟩ := hI.shape
  have hfor' := hfor
  rw [hmk] at hfor'
  have hf := (isFor_mkMsg _ _ _ _ _ _).mp hfor'
  have h2 := round_ge_two ok.script i nx hi hnx
  have hspec : specOf (scriptFor base p) nx.num = some nx := specOf_of_getElem base ok.script i nx hnx
  have hecho := hS.expBh_eq ok hp (nx.num - 1) ⟨m, hm, by rw [hmk]; show nx.num - 1 < nx.num; omega⟩
  subst hmk
  refine ⟨hf.1, hf.2, rfl, rfl, hq, rfl, hasSlot_round ok i nx hi hnx, ?_, rfl, ?_⟩
  · show (specOf (scriptFor base p) nx.num).map _ = some true
    rw [hspec]
    rcases hk with ⟨rfl, hB, _⟩ | ⟨rfl, hP, _⟩
    · simpa [mkMsg] using hB
    · simpa [mkMsg] using hP
  · intro h hh
    show (gEcho H base (nx.num - 1)).getD [] = h
    have hh' : h ∈ expBh H (scriptFor base p) S (nx.num - 1) := hh
    rw [hecho] at hh'
    rw [Option.mem_def.mp hh']; rfl

end

end Mps.System

/-! ## Part 3: the system invariant -/

namespace Mps.System
open Mps Mps.Handler

section
variable {H : Bytes → Bytes} {base : Script} {p : Bytes} {S : List Msg}

theorem expBh_some_others (he : ∃ h, expBh H (scriptFor base p) S r = some h) :
    ∀ id ∈ base.ids, id ≠ p → ∃ y ∈ S, y.bcast = true ∧ y.rnd = r ∧ y.frm = id := by
  obtain ⟨h, he⟩ := he
  intro id hid hidp
  cases r with
  | zero => simp [expBh] at he
  | succ r =>
    rw [expBh_succ] at he
    cases hs : specOf base (r + 1) with
    | none => simp [hs] at he
    | some sp =>
      simp only [hs] at he
      by_cases hc : (sp.recvB && hasSlot base (r + 1)) = true
      · simp only [hc, if_true] at he
        have hsome := (echoHash_some H base _ (r + 1) h he).1 id hid
        rw [lookup_cons_ne _ _ _ _ (by simp only [not_and]; intro _ h2; exact hidp h2.symm)] at hsome
        obtain ⟨y, hy⟩ := Option.isSome_iff_exists.mp hsome
        obtain ⟨h1, h2, h3, h4⟩ := lookup_bcOf_some S _ _ y hy
        exact ⟨y, h1, h2, h3, h4⟩
      · simp [hc] at he

theorem mem_emitAt (i : Nat) (m : Msg) :
    m ∈ emitAt H (scriptFor base p) S i ↔
      ∃ nx, base.rounds[i]? = some nx ∧ m ∈ emitW (scriptFor base p) nx (expBh H (scriptFor base p) S (nx.num - 1)) := by
  unfold emitAt
  show m ∈ (match base.rounds[i]? with
    | some nx => emitW (scriptFor base p) nx (expBh H (scriptFor base p) S (nx.num - 1))
    | none => []) ↔ _
  cases base.rounds[i]? <;> simp

theorem emitW_rnd {sc : Script} {nx : RoundSpec} {bv : Option Bytes} {m : Msg} (h : m ∈ emitW sc nx bv) :
    m.rnd = nx.num := by
  rcases (mem_emitW _ _ _ _).mp h with ⟨_, rfl⟩ | ⟨_, id, _, rfl⟩ <;> rfl

/-- what party `q` sends on entering the round at index `i`, in closed form -/
def idealAt (H : Bytes → Bytes) (base : Script) (q : Bytes) (i : Nat) : List Msg :=
  match base.rounds[i]? with
  | some nx => emitW (scriptFor base q) nx (gEcho H base (nx.num - 1))
  | none => []

/-- everything party `q` sends up to the entry into the round at index `k`, in order, in closed form -/
def idealEmits (H : Bytes → Bytes) (base : Script) (q : Bytes) : Nat → List Msg
  | 0 => []
  | k + 1 => idealEmits H base q k ++ idealAt H base q (k + 1)

/-- all messages party `q` sends in a complete session, in order -/
def idealOut (H : Bytes → Bytes) (base : Script) (q : Bytes) : List Msg :=
  idealEmits H base q (base.rounds.length - 1)

/-- all messages addressed to `p` in a complete session (sender by sender, each sender's in round order) -/
def idealFor (H : Bytes → Bytes) (base : Script) (p : Bytes) : List Msg :=
  base.ids.flatMap fun q => (idealOut H base q).filter fun m => isFor m p

theorem idealEmits_stable (H : Bytes → Bytes) (base : Script) (q : Bytes) (k : Nat) (h : base.rounds.length ≤ k + 1) :
    idealEmits H base q k = idealOut H base q := by
  unfold idealOut
  obtain ⟨d, rfl⟩ : ∃ d, k = base.rounds.length - 1 + d := ⟨k - (base.rounds.length - 1), by omega⟩
  clear h
  induction d with
  | zero => rfl
  | succ d ih =>
    show idealEmits H base q (base.rounds.length - 1 + d) ++ idealAt H base q (base.rounds.length - 1 + d + 1) = _
    have : base.rounds[base.rounds.length - 1 + d + 1]? = none := List.getElem?_eq_none (by omega)
    rw [ih]
    simp [idealAt, this]

/-- what a party that was given messages of a closed set of session messages has emitted -/
structure PartyOut (H : Bytes → Bytes) (base : Script) (p : Bytes) (S : List Msg) (s : State) : Prop where
  noerr : s.err = none
  ideal : ∀ m ∈ s.out, IdealOut H base p m
  own : ∀ m ∈ s.out, ∀ j sp, 1 ≤ j → base.rounds[j]? = some sp → sp.num < m.rnd → sp.recvB = true →
    mkMsg (scriptFor base p) [] sp.num true (gEcho H base (sp.num - 1)) ∈ s.out
  others : ∀ m ∈ s.out, ∀ j sp, 1 ≤ j → base.rounds[j]? = some sp → sp.num < m.rnd → sp.recvB = true →
    ∀ t ∈ base.ids, t ≠ p → mkMsg (scriptFor base t) [] sp.num true (gEcho H base (sp.num - 1)) ∈ S
  outEq : s.out = idealEmits H base p s.idx
  final : s.result.isSome = true → base.rounds[s.idx + 1]? = none

theorem party_out (ok : SessionOk base) (hp : p ∈ base.ids) (hS : IdealClosed H base p S) (l : List Msg)
    (hl : ∀ m ∈ l, m ∈ S) : PartyOut H base p S (Handler.run H (scriptFor base p) (l.map Call.accept)) := by
  have hM := honest_of_idealClosed ok hp hS
  have e := run_einv hM ok.noFinErr l hl
  have c := run_clean hM l hl
  generalize Handler.run H (scriptFor base p) (l.map Call.accept) = s at e c
  -- the echo hash of a completed broadcast round is known and is the session's
  have known : ∀ j sp, 1 ≤ j → j < s.idx → base.rounds[j]? = some sp → sp.recvB = true →
      ∃ h, expBh H (scriptFor base p) S sp.num = some h ∧ gEcho H base sp.num = some h := by
    intro j sp hj hlt hjr hB
    have hsl := hasSlot_round ok j sp hj hjr
    have hf := e.filled j sp hlt hjr (by rw [hB]; exact hsl)
    obtain ⟨h, hh⟩ := Option.isSome_iff_exists.mp hf
    have := c.1 _ _ hh
    exact ⟨h, this, hS.expBh_some ok hp _ h this⟩
  -- every stamp used so far is the session's echo hash
  have bvEq : ∀ i nx, 1 ≤ i → i ≤ s.idx → base.rounds[i]? = some nx →
      expBh H (scriptFor base p) S (nx.num - 1) = gEcho H base (nx.num - 1) := by
    intro i nx hi hle hnx
    cases hg : gEcho H base (nx.num - 1) with
    | none => exact expBh_none_of_gEcho H base p S _ hg
    | some g =>
      obtain ⟨k, sp, hk, hs, hc⟩ := gEcho_guard H base _ g hg
      have hB : sp.recvB = true := by simp only [Bool.and_eq_true] at hc; exact hc.1
      have h2 : 2 ≤ k + 1 := by
        simp only [Bool.and_eq_true, hasSlot, decide_eq_true_eq] at hc; exact hc.2.1
      obtain ⟨j, hj, hjr, hnum⟩ := index_of_spec ok.script (k + 1) sp hs h2
      have hji : j < i := idx_lt_of_num_lt base ok.script j i sp nx hjr hnx (by omega)
      obtain ⟨h, h1, h2⟩ := known j sp hj (by omega) hjr hB
      rw [hnum, ← hk] at h1 h2
      rw [h1, ← hg, h2]
  have memOut : ∀ m, m ∈ s.out ↔ ∃ i nx, 1 ≤ i ∧ i ≤ s.idx ∧ base.rounds[i]? = some nx ∧
      m ∈ emitW (scriptFor base p) nx (gEcho H base (nx.num - 1)) := by
    intro m
    rw [e.out, mem_emitsUpTo]
    constructor
    · rintro ⟨i, hi, hle, hmi⟩
      obtain ⟨nx, hnx, hm⟩ := (mem_emitAt i m).mp hmi
      rw [bvEq i nx hi hle hnx] at hm
      exact ⟨i, nx, hi, hle, hnx, hm⟩
    · rintro ⟨i, nx, hi, hle, hnx, hm⟩
      refine ⟨i, hi, hle, (mem_emitAt i m).mpr ⟨nx, hnx, ?_⟩⟩
      rw [bvEq i nx hi hle hnx]; exact hm
  have outEq : ∀ k, k ≤ s.idx → emitsUpTo H (scriptFor base p) S k = idealEmits H base p k := by
    intro k
    induction k with
    | zero => intro _; rfl
    | succ k ih =>
      intro hk
      show emitsUpTo H (scriptFor base p) S k ++ emitAt H (scriptFor base p) S (k + 1) =
        idealEmits H base p k ++ idealAt H base p (k + 1)
      rw [ih (by omega)]
      congr 1
      unfold emitAt idealAt
      show (match base.rounds[k + 1]? with
        | some nx => emitW (scriptFor base p) nx (expBh H (scriptFor base p) S (nx.num - 1))
        | none => []) = _
      cases hnx : base.rounds[k + 1]? with
      | none => rfl
      | some nx => simp only; rw [bvEq (k + 1) nx (by omega) hk hnx]
  refine ⟨e.noerr, ?_, ?_, ?_, by rw [e.out]; exact outEq _ (Nat.le_refl _), e.final⟩
  · intro m hm
    obtain ⟨i, nx, hi, _, hnx, hmi⟩ := (memOut m).mp hm
    exact ⟨i, nx, hi, hnx, hmi⟩
  · intro m hm j sp hj hjr hlt hB
    obtain ⟨i, nx, hi, hle, hnx, hmi⟩ := (memOut m).mp hm
    rw [emitW_rnd hmi] at hlt
    have hji : j < i := idx_lt_of_num_lt base ok.script j i sp nx hjr hnx hlt
    exact (memOut _).mpr ⟨j, sp, hj, by omega, hjr, (mem_emitW _ _ _ _).mpr (Or.inl ⟨hB, rfl⟩)⟩
  · intro m hm j sp hj hjr hlt hB t ht htp
    obtain ⟨i, nx, hi, hle, hnx, hmi⟩ := (memOut m).mp hm
    rw [emitW_rnd hmi] at hlt
    have hji : j < i := idx_lt_of_num_lt base ok.script j i sp nx hjr hnx hlt
    obtain ⟨h, h1, _⟩ := known j sp hj (by omega) hjr hB
    obtain ⟨y, hy, hyb, hyr, hyf⟩ := expBh_some_others ⟨h, h1⟩ t ht htp
    have := hS.bcast_eq ok y hy hyb
    rw [hyr, hyf] at this
    rw [← this]; exact hy

end

theorem mem_emittedFor (base : Script) (σ : Sys) (p : Bytes) (m : Msg) :
    m ∈ σ.emittedFor base p ↔ ∃ q ∈ base.ids, m ∈ (σ q).out ∧ isFor m p = true := by
  unfold Sys.emittedFor
  simp only [List.mem_flatMap, List.mem_filter]

/-- `Accept` only ever appends to the emitted messages -/
theorem accept_out (H : Bytes → Bytes) (s : State) (m : Msg) : ∃ ext, (accept H s m).out = s.out ++ ext := by
  have hp : Preserved H (fun t => ∃ ext, t.out = s.out ++ ext) :=
    preserved_of_sameLife H _
      (fun h ⟨ext, e⟩ => ⟨ext, h.2.2.2.2 ▸ e⟩)
      (fun t e ⟨ext, h⟩ => by
        cases e with
        | none => exact ⟨ext, h⟩
        | some k => exact ⟨_, by simp only [abort, h, List.append_assoc]; rfl⟩)
      (fun t nx ⟨ext, h⟩ => ⟨ext ++ emitFor t nx, by rw [(sendAll_frame t _).2.2.2.2, h, List.append_assoc]⟩)
      (fun t v h => h)
  exact accept_pres hp s m ⟨[], by simp⟩

theorem deliver_self (H : Bytes → Bytes) (σ : Sys) (p : Bytes) (m : Msg) : (σ.deliver H p m) p = accept H (σ p) m := by
  simp [Sys.deliver]

theorem deliver_other (H : Bytes → Bytes) (σ : Sys) (p q : Bytes) (m : Msg) (h : q ≠ p) : (σ.deliver H p m) q = σ q := by
  simp [Sys.deliver, h]

theorem deliver_out_mono (H : Bytes → Bytes) (σ : Sys) (p q : Bytes) (m x : Msg) (h : x ∈ (σ q).out) :
    x ∈ ((σ.deliver H p m) q).out := by
  by_cases hq : q = p
  · subst hq
    rw [deliver_self]
    obtain ⟨ext, e⟩ := accept_out H (σ q) m
    rw [e]; exact List.mem_append_left _ h
  · rw [deliver_other H σ p q m hq]; exact h

theorem deliver_emitted_mono (H : Bytes → Bytes) (base : Script) (σ : Sys) (p q : Bytes) (m x : Msg)
    (h : x ∈ σ.emittedFor base q) : x ∈ (σ.deliver H p m).emittedFor base q := by
  obtain ⟨t, ht, hx, hf⟩ := (mem_emittedFor base σ q x).mp h
  exact (mem_emittedFor base _ q x).mpr ⟨t, ht, deliver_out_mono H σ p t m x hx, hf⟩

theorem canDeliver_iff (base : Script) (σ : Sys) (p : Bytes) (m : Msg) :
    σ.canDeliver base p m = true ↔ p ∈ base.ids ∧ m.frm ∈ base.ids ∧ isFor m p = true ∧ m ∈ (σ m.frm).out := by
  unfold Sys.canDeliver
  simp only [Bool.and_eq_true, List.contains_iff_mem, and_assoc]

/-- THE SYSTEM INVARIANT.
    `runs`: every party's state is its handler run on some sequence of messages that were emitted for it;
    `ideal`: every emitted message is a message of the session's closed form (in particular it carries the session's
             echo hash `gEcho` of the preceding round number — all parties' tables agree with this one function);
    `closed`: when a message of some round has been emitted, all parties' broadcasts of all earlier broadcast
             rounds have been emitted -/
structure Inv (H : Bytes → Bytes) (base : Script) (σ : Sys) : Prop where
  runs : ∀ p ∈ base.ids, ∃ l : List Msg, σ p = Handler.run H (scriptFor base p) (l.map Call.accept) ∧
    ∀ m ∈ l, m ∈ σ.emittedFor base p
  ideal : ∀ q ∈ base.ids, ∀ m ∈ (σ q).out, IdealOut H base q m
  closed : ∀ q ∈ base.ids, ∀ m ∈ (σ q).out, ∀ j sp, 1 ≤ j → base.rounds[j]? = some sp → sp.num < m.rnd →
    sp.recvB = true → ∀ t ∈ base.ids, mkMsg (scriptFor base t) [] sp.num true (gEcho H base (sp.num - 1)) ∈ (σ t).out

section
variable {H : Bytes → Bytes} {base : Script}

theorem Inv.idealClosed {σ : Sys} (inv : Inv H base σ) (p : Bytes) : IdealClosed H base p (σ.emittedFor base p) := by
  constructor
  · intro m hm
    obtain ⟨q, hq, hmq, hf⟩ := (mem_emittedFor base σ p m).mp hm
    exact ⟨hf, q, hq, inv.ideal q hq m hmq⟩
  · intro m hm j sp hj hjr hlt hB t ht htp
    obtain ⟨q, hq, hmq, _⟩ := (mem_emittedFor base σ p m).mp hm
    have := inv.closed q hq m hmq j sp hj hjr hlt hB t ht
    exact (mem_emittedFor base σ p _).mpr ⟨t, ht, this, (isFor_mkMsg _ _ _ _ _ _).mpr ⟨htp, Or.inl rfl⟩⟩

/-- the messages emitted for a party form an honest message set for it -/
theorem Inv.honest {σ : Sys} (ok : SessionOk base) (inv : Inv H base σ) (p : Bytes) (hp : p ∈ base.ids) :
    Honest H (scriptFor base p) (σ.emittedFor base p) :=
  honest_of_idealClosed ok hp (inv.idealClosed p)

theorem init_inv (ok : SessionOk base) : Inv H base (Sys.init H base) := by
  have hnil : ∀ p, IdealClosed H base p [] := fun p => ⟨fun m hm => (nomatch hm), fun m hm => (nomatch hm)⟩
  have hpo : ∀ p ∈ base.ids, PartyOut H base p [] (Sys.init H base p) := fun p hp =>
    party_out ok hp (hnil p) [] (fun m hm => nomatch hm)
  refine ⟨fun p _ => ⟨[], rfl, fun m hm => (nomatch hm)⟩, fun q hq => (hpo q hq).ideal, ?_⟩
  intro q hq m hm j sp hj hjr hlt hB t ht
  by_cases htq : t = q
  · subst htq; exact (hpo t hq).own m hm j sp hj hjr hlt hB
  · exact nomatch (hpo q hq).others m hm j sp hj hjr hlt hB t ht htq

theorem Inv.deliver {σ : Sys} (ok : SessionOk base) (inv : Inv H base σ) (p : Bytes) (m : Msg)
    (hc : σ.canDeliver base p m = true) : Inv H base (σ.deliver H p m) := by
  obtain ⟨hp, hfrm, hfor, hmem⟩ := (canDeliver_iff base σ p m).mp hc
  obtain ⟨l, hl, hsub⟩ := inv.runs p hp
  have hmS : m ∈ σ.emittedFor base p := (mem_emittedFor base σ p m).mpr ⟨m.frm, hfrm, hmem, hfor⟩
  have hrun : (σ.deliver H p m) p = Handler.run H (scriptFor base p) ((l ++ [m]).map Call.accept) := by
    rw [deliver_self, hl, run_snoc]
  have hsub' : ∀ x ∈ l ++ [m], x ∈ σ.emittedFor base p := by
    intro x hx
    rcases List.mem_append.mp hx with h | h
    · exact hsub x h
    · rw [List.mem_singleton.mp h]; exact hmS
  have hpo : PartyOut H base p (σ.emittedFor base p) ((σ.deliver H p m) p) := by
    rw [hrun]; exact party_out ok hp (inv.idealClosed p) (l ++ [m]) hsub'
  refine ⟨?_, ?_, ?_⟩
  · intro q hq
    by_cases hqp : q = p
    · subst hqp
      exact ⟨l ++ [m], hrun, fun x hx => deliver_emitted_mono H base σ q q m x (hsub' x hx)⟩
    · obtain ⟨lq, h1, h2⟩ := inv.runs q hq
      exact ⟨lq, by rw [deliver_other H σ p q m hqp]; exact h1,
        fun x hx => deliver_emitted_mono H base σ p q m x (h2 x hx)⟩
  · intro q hq x hx
    by_cases hqp : q = p
    · subst hqp; exact hpo.ideal x hx
    · rw [deliver_other H σ p q m hqp] at hx; exact inv.ideal q hq x hx
  · intro q hq x hx j sp hj hjr hlt hB t ht
    by_cases hqp : q = p
    · subst hqp
      by_cases htq : t = q
      · subst htq; exact hpo.own x hx j sp hj hjr hlt hB
      · have hy := hpo.others x hx j sp hj hjr hlt hB t ht htq
        obtain ⟨t', ht', hy', _⟩ := (mem_emittedFor base σ q _).mp hy
        have e : t = t' := (inv.ideal t' ht' _ hy').frm
        subst e
        exact deliver_out_mono H σ q t m _ hy'
    · rw [deliver_other H σ p q m hqp] at hx
      exact deliver_out_mono H σ p t m _ (inv.closed q hq x hx j sp hj hjr hlt hB t ht)

theorem runFrom_inv (ok : SessionOk base) (sched : Sched) :
    ∀ σ : Sys, Inv H base σ → causalFrom H base σ sched = true → Inv H base (σ.runFrom H sched) := by
  induction sched with
  | nil => intro σ inv _; exact inv
  | cons e rest ih =>
    intro σ inv hc
    simp only [causalFrom, Bool.and_eq_true] at hc
    exact ih _ (inv.deliver ok e.1 e.2 hc.1) hc.2

/-- the invariant holds after every causal schedule -/
theorem run_inv (ok : SessionOk base) (sched : Sched) (hc : Causal H base sched = true) :
    Inv H base (Sys.run H base sched) :=
  runFrom_inv ok sched _ (init_inv ok) hc

end

end Mps.System

/-! ### the state of one party under a schedule -/

namespace Mps.System
open Mps Mps.Handler

theorem delivered_cons (e : Bytes × Msg) (rest : Sched) (p : Bytes) :
    delivered (e :: rest) p = if e.1 = p then e.2 :: delivered rest p else delivered rest p := by
  unfold delivered
  by_cases h : e.1 = p
  · simp [h]
  · simp [h]

theorem runFrom_apply (H : Bytes → Bytes) (sched : Sched) (p : Bytes) :
    ∀ σ : Sys, (σ.runFrom H sched) p = (delivered sched p).foldl (accept H) (σ p) := by
  induction sched with
  | nil => intro σ; rfl
  | cons e rest ih =>
    intro σ
    have : Sys.runFrom H σ (e :: rest) = Sys.runFrom H (σ.deliver H e.1 e.2) rest := rfl
    rw [this, ih, delivered_cons]
    by_cases h : e.1 = p
    · subst h; rw [if_pos rfl, deliver_self]; rfl
    · rw [if_neg h, deliver_other H σ e.1 p e.2 (fun e' => h e'.symm)]

/-- a party's state in the session is its handler run on the messages delivered to it -/
theorem run_apply (H : Bytes → Bytes) (base : Script) (sched : Sched) (p : Bytes) :
    (Sys.run H base sched) p = Handler.run H (scriptFor base p) ((delivered sched p).map Call.accept) := by
  unfold Sys.run Handler.run
  rw [runFrom_apply, List.foldl_map]
  rfl

theorem runFrom_out_mono (H : Bytes → Bytes) (sched : Sched) (q : Bytes) (x : Msg) :
    ∀ σ : Sys, x ∈ (σ q).out → x ∈ ((σ.runFrom H sched) q).out := by
  induction sched with
  | nil => intro σ h; exact h
  | cons e rest ih => intro σ h; exact ih _ (deliver_out_mono H σ e.1 q e.2 x h)

/-- what a causal schedule delivers to a party was emitted for it -/
theorem delivered_emitted (H : Bytes → Bytes) (base : Script) (sched : Sched) (p : Bytes) :
    ∀ σ : Sys, causalFrom H base σ sched = true →
      ∀ m ∈ delivered sched p, m ∈ (σ.runFrom H sched).emittedFor base p := by
  induction sched with
  | nil => intro σ _ m hm; cases hm
  | cons e rest ih =>
    intro σ hc m hm
    simp only [causalFrom, Bool.and_eq_true] at hc
    rw [delivered_cons] at hm
    have hrest : ∀ x ∈ delivered rest p, x ∈ (Sys.runFrom H σ (e :: rest)).emittedFor base p := ih _ hc.2
    by_cases h : e.1 = p
    · rw [if_pos h] at hm
      rcases List.mem_cons.mp hm with rfl | hm
      · obtain ⟨_, hfrm, hfor, hmem⟩ := (canDeliver_iff base σ e.1 e.2).mp hc.1
        rw [h] at hfor
        exact (mem_emittedFor base _ p e.2).mpr ⟨e.2.frm, hfrm, runFrom_out_mono H (e :: rest) _ _ σ hmem, hfor⟩
      · exact hrest m hm
    · rw [if_neg h] at hm; exact hrest m hm

section
variable {H : Bytes → Bytes} {base : Script}

/-- (a) MULTI-PARTY COMPOSITION: after every causal schedule, the messages the parties have emitted for `p`
    form an honest message set for `p` -/
theorem emitted_honest (ok : SessionOk base) (sched : Sched) (hc : Causal H base sched = true) (p : Bytes)
    (hp : p ∈ base.ids) : Honest H (scriptFor base p) ((Sys.run H base sched).emittedFor base p) :=
  (run_inv ok sched hc).honest ok p hp

/-- every emitted message carries the session's echo hash of the preceding round number -/
theorem emitted_stamp (ok : SessionOk base) (sched : Sched) (hc : Causal H base sched = true) (q : Bytes)
    (hq : q ∈ base.ids) (m : Msg) (hm : m ∈ ((Sys.run H base sched) q).out) : m.bv = gEcho H base (m.rnd - 1) := by
  obtain ⟨i, nx, to, b, _, _, rfl, _⟩ := ((run_inv ok sched hc).ideal q hq m hm).shape
  rfl

/-- every party's echo-hash table agrees with the one global function `gEcho`, and with the value `expBh` that
    `Honest` refers to -/
theorem tables_agree (ok : SessionOk base) (sched : Sched) (hc : Causal H base sched = true) (p : Bytes)
    (hp : p ∈ base.ids) (r : Nat) (h : Bytes) (hb : bhLookup ((Sys.run H base sched) p).bh r = some h) :
    gEcho H base r = some h ∧
    expBh H (scriptFor base p) ((Sys.run H base sched).emittedFor base p) r = some h := by
  have inv := run_inv ok sched hc
  have hM := inv.honest ok p hp
  have hsub := delivered_emitted H base sched p _ hc
  rw [run_apply] at hb
  have := (run_clean hM (delivered sched p) hsub).1 r h hb
  exact ⟨(inv.idealClosed p).expBh_some ok hp r h this, this⟩

/-- (b) in every reachable state of the session no party has an error of any kind -/
theorem no_honest_abort (ok : SessionOk base) (sched : Sched) (hc : Causal H base sched = true) (p : Bytes)
    (hp : p ∈ base.ids) : ((Sys.run H base sched) p).err = none := by
  have inv := run_inv ok sched hc
  have hsub := delivered_emitted H base sched p _ hc
  rw [run_apply]
  exact (party_out ok hp (inv.idealClosed p) (delivered sched p) hsub).noerr

/-- (c) SCHEDULE INDEPENDENCE (state form): two schedules that have delivered the same set of messages to `p`
    leave `p` in states that agree in every field except the two internal queues. Only one of them has to be causal:
    the deliveries of the other one to `p` are then, as a set, causal deliveries as well, and what it does at the
    other parties does not touch `p`. -/
theorem schedule_feq (ok : SessionOk base) (s1 s2 : Sched) (c1 : Causal H base s1 = true)
    (p : Bytes) (hp : p ∈ base.ids) (hsame : ∀ m, m ∈ delivered s1 p ↔ m ∈ delivered s2 p) :
    FEq ((Sys.run H base s1) p) ((Sys.run H base s2) p) := by
  have hM := emitted_honest ok s1 c1 p hp
  have h1 := delivered_emitted H base s1 p _ c1
  rw [run_apply, run_apply]
  exact run_feq hM _ _ h1 (fun m hm => h1 m ((hsame m).mpr hm)) hsame

end

end Mps.System

/-! ## Part 4: progress — a handler that has not ended is waiting for a message that was not delivered -/

namespace Mps.Handler
open Mps

/-- the handler has stored its own broadcast of the current round -/
def OwnStored (s : State) : Prop :=
  ((curSpec s).recvB && hasSlot s.sc s.cur) = true → (lookup s.bc s.cur s.sc.self).isSome = true

section
variable {H : Bytes → Bytes} {sc : Script} {M : List Msg}

theorem OwnStored.preReplay {s : State} (inv : HInv H sc M s) (nx : RoundSpec)
    (hn : sc.rounds[s.idx + 1]? = some nx) (v : Nat) : OwnStored (addAcc (Handler.preReplay H s nx) v) := by
  intro hc
  have hsc : (fillBh H s).sc = sc := by rw [fillBh_eq' H s]; exact inv.scEq
  have hcs : curSpec (addAcc (Handler.preReplay H s nx) v) = nx := by
    show (sendAll (fillBh H s) (emitFor (fillBh H s) nx)).sc.rounds.getD (s.idx + 1) default = nx
    rw [(sendAll_frame _ _).2.2.2.1, hsc]
    simp [List.getD, hn]
  have hsc' : (addAcc (Handler.preReplay H s nx) v).sc = sc := by
    show (sendAll (fillBh H s) (emitFor (fillBh H s) nx)).sc = sc
    rw [(sendAll_frame _ _).2.2.2.1, hsc]
  have hcur : (addAcc (Handler.preReplay H s nx) v).cur = nx.num := rfl
  rw [hcs, hsc', hcur] at hc
  simp only [Bool.and_eq_true] at hc
  show (lookup (sendAll (fillBh H s) (emitFor (fillBh H s) nx)).bc nx.num
    (sendAll (fillBh H s) (emitFor (fillBh H s) nx)).sc.self).isSome = true
  rw [(sendAll_frame _ _).2.2.2.1, sendAll_eq]
  simp only [hc.1, if_true]
  rw [lookup_store_bc', hsc]
  have e1 : (ownB sc nx.num (bhLookup (fillBh H s).bh (nx.num - 1))).rnd = nx.num := rfl
  have e2 : (ownB sc nx.num (bhLookup (fillBh H s).bh (nx.num - 1))).bcast = true := rfl
  have e3 : (ownB sc nx.num (bhLookup (fillBh H s).bh (nx.num - 1))).frm = sc.self := rfl
  rw [e1, e2, e3, hc.2]
  simp

/-- `finalize` stops in an ended handler or in a round that is not complete -/
theorem finalize_stuck (hM : Honest H sc M) (fuel : Nat) (s : State) (inv : HInv H sc M s) (o : OwnStored s)
    (hf : sc.rounds.length ≤ fuel + s.idx) :
    terminal (finalize H fuel s) = true ∨
    (HInv H sc M (finalize H fuel s) ∧ OwnStored (finalize H fuel s) ∧ receivedAllB H (finalize H fuel s) = false) := by
  induction fuel generalizing s with
  | zero => have := inv.idx_lt; omega
  | succ fuel ih =>
    unfold finalize
    rw [finalizeStep_honest hM inv]
    cases hrv : receivedAllB H s with
    | false =>
      simp only [Bool.not_false, if_true]
      right
      refine ⟨inv.fill hM, ?_, ?_⟩
      · rw [fillBh_eq' H s]; exact o
      · rw [fillBh_eq' H s]; exact hrv
    | true =>
      simp only [Bool.not_true, Bool.false_eq_true, if_false]
      by_cases hfe : (sc.finErrAt != 0 && sc.finErrAt == s.cur) = true
      · simp only [hfe, if_true]; left; simp [terminal, abort]
      · simp only [hfe, if_false, Bool.false_eq_true]
        cases hn : sc.rounds[s.idx + 1]? with
        | none => simp only; left; simp [terminal, abort]
        | some nx =>
          simp only
          exact ih _ ((inv.preReplay hM nx hn hrv).addAcc _) (OwnStored.preReplay inv nx hn _)
            (by show sc.rounds.length ≤ fuel + (s.idx + 1); omega)

/-- an incomplete round misses a message of another party -/
theorem missing_of_incomplete (hM : Honest H sc M) {s : State} (inv : HInv H sc M s) (o : OwnStored s)
    (hr : receivedAllB H s = false) :
    1 ≤ s.idx ∧ ∃ q ∈ sc.ids, q ≠ sc.self ∧ ∃ b : Bool, (if b then (curSpec s).recvB else (curSpec s).recvP) = true ∧
      (if b then lookup s.bc s.cur q else lookup s.msgs s.cur q) = none := by
  have hp2p : p2pAll s = false → hasSlot s.sc s.cur = true ∧ ∃ q ∈ sc.ids, q ≠ sc.self ∧ (curSpec s).recvP = true ∧
      lookup s.msgs s.cur q = none := by
    intro h
    unfold p2pAll at h
    split at h
    · next hP =>
      split at h
      · cases h
      · next hs =>
        rw [List.all_eq_false] at h
        obtain ⟨q, hq, hl⟩ := h
        rw [inv.scEq] at hq
        have := Mps.System.mem_others.mp hq
        refine ⟨by simpa using hs, q, this.1, this.2, hP, by simpa using hl⟩
    · cases h
  have hidx : hasSlot s.sc s.cur = true → 1 ≤ s.idx := by
    intro hs
    rcases Nat.eq_zero_or_pos s.idx with h0 | h0
    · exfalso
      obtain ⟨spec, h1, h2⟩ := inv.idx
      have hf := hM.script.first
      rw [h0] at h1
      rw [h1] at hf
      simp only [Option.map_some, Option.some.injEq] at hf
      simp only [hasSlot, Bool.and_eq_true, decide_eq_true_eq] at hs
      omega
    · exact h0
  unfold receivedAllB at hr
  split at hr
  · next hB =>
    split at hr
    · cases hr
    · next hs =>
      have hs' : hasSlot s.sc s.cur = true := by simpa using hs
      refine ⟨hidx hs', ?_⟩
      split at hr
      · next hE =>
        -- some broadcast is missing; it is not the own one
        have hE' : echoHash H s.sc s.bc s.cur = none := by simpa using hE
        have : ¬ ∀ id ∈ s.sc.ids, (lookup s.bc s.cur id).isSome = true := by
          intro hall
          have := Mps.System.echoHash_isSome H s.sc s.bc s.cur hall
          rw [hE'] at this; cases this
        have hex : ∃ id ∈ s.sc.ids, lookup s.bc s.cur id = none := by
          apply Classical.byContradiction
          intro hne
          apply this
          intro id hid
          cases hl : lookup s.bc s.cur id with
          | none => exact absurd ⟨id, hid, hl⟩ hne
          | some _ => rfl
        obtain ⟨q, hq, hl⟩ := hex
        rw [inv.scEq] at hq
        refine ⟨q, hq, ?_, true, by simpa using hB, by simpa using hl⟩
        intro e
        have := o (by rw [hB, hs']; rfl)
        rw [inv.scEq, ← e, hl] at this
        cases this
      · obtain ⟨_, q, hq, hne, hP, hl⟩ := hp2p hr
        exact ⟨q, hq, hne, false, by simpa using hP, by simpa using hl⟩
  · obtain ⟨hs, q, hq, hne, hP, hl⟩ := hp2p hr
    exact ⟨hidx hs, q, hq, hne, false, by simpa using hP, by simpa using hl⟩

theorem store_hasKey_new (s : State) (m : Msg) (hs : hasSlot s.sc m.rnd = true) : HasKey m (store s m) := by
  unfold HasKey
  rw [lookup_store_bc', lookup_store_msgs']
  cases hb : m.bcast with
  | true =>
    simp only [hs, if_true, beq_self_eq_true, Bool.and_self]
    cases lookup s.bc m.rnd m.frm <;> rfl
  | false =>
    simp only [hs, Bool.false_eq_true, if_false, Bool.not_false, beq_self_eq_true, Bool.and_self, if_true]
    cases lookup s.msgs m.rnd m.frm <;> rfl

theorem foldl_store_hasKey (m : Msg) (l : List Msg) (s : State) (h : HasKey m s) : HasKey m (l.foldl store s) := by
  induction l generalizing s with
  | nil => exact h
  | cons x xs ih => exact ih _ (store_hasKey m s x h)

theorem foldl_store_sc (l : List Msg) (s : State) : (l.foldl store s).sc = s.sc := by
  induction l generalizing s with
  | nil => rfl
  | cons x xs ih => rw [List.foldl_cons, ih, store_sc]

/-- every preloaded message has its key in the queues -/
theorem preload_hasKey (hM : Honest H sc M) (l : List Msg) (hl : ∀ m ∈ l, m ∈ M) (m : Msg) (hm : m ∈ l) :
    HasKey m (preload sc l) := by
  unfold preload
  suffices h : ∀ s : State, s.sc = sc → HasKey m (l.foldl store s) from h _ rfl
  induction l with
  | nil => cases hm
  | cons x xs ih =>
    intro s hs
    rw [List.foldl_cons]
    rcases List.mem_cons.mp hm with rfl | hm'
    · exact foldl_store_hasKey m xs _ (store_hasKey_new s m (by rw [hs]; exact (hM.msgs m (hl m (by simp))).slot))
    · exact ih (fun y hy => hl y (by simp [hy])) hm' _ (by rw [store_sc]; exact hs)

/-- PROGRESS (one party): a handler that was given honest messages and has not ended is in a round (not the
    first) whose script expects a message — a broadcast (`b = true`) or a p2p message — of some other party `q`
    that is not among the delivered ones -/
theorem run_stuck (hM : Honest H sc M) (l : List Msg) (hl : ∀ m ∈ l, m ∈ M)
    (hnt : terminal (run H sc (l.map Call.accept)) = false) :
    1 ≤ (run H sc (l.map Call.accept)).idx ∧ ∃ q ∈ sc.ids, q ≠ sc.self ∧ ∃ (b : Bool) (sp : RoundSpec),
      sc.rounds[(run H sc (l.map Call.accept)).idx]? = some sp ∧ (if b then sp.recvB else sp.recvP) = true ∧
      ∀ m ∈ l, ¬ (m.rnd = sp.num ∧ m.frm = q ∧ m.bcast = b) := by
  have hfe := (run_canon hM l hl).feq
  obtain ⟨_, e2, _⟩ := hfe.fields
  have ht : terminal (canon H sc l) = false := by rw [← terminal_feq hfe]; exact hnt
  have hinv0 := preload_hinv hM l hl
  have hc0 := preload_cur hM l
  have ho0 : OwnStored (preload sc l) := by
    intro hc
    simp only [Bool.and_eq_true, hasSlot, decide_eq_true_eq] at hc
    have := hc0.1
    omega
  rcases finalize_stuck hM (sc.rounds.length + 1) (preload sc l) hinv0 ho0 (by omega) with h | ⟨inv, o, hr⟩
  · unfold canon at ht; rw [ht] at h; cases h
  · have hcan : finalize H (sc.rounds.length + 1) (preload sc l) = canon H sc l := rfl
    rw [hcan] at inv o hr
    obtain ⟨hi, q, hq, hne, b, hflag, hmiss⟩ := missing_of_incomplete hM inv o hr
    rw [e2]
    refine ⟨hi, q, hq, hne, b, curSpec (canon H sc l), inv.curSpec_eq.1, hflag, ?_⟩
    intro m hm ⟨h1, h2, h3⟩
    have hk : HasKey m (canon H sc l) := finalize_pres (hasKey_preserved H m) _ _ (preload_hasKey hM l hl m hm)
    unfold HasKey at hk
    rw [h1, h2, h3, inv.curSpec_eq.2, hmiss] at hk
    cases hk

end

end Mps.Handler

/-! ## Part 5: a schedule that is fair to the end completes the session -/

namespace Mps.System
open Mps Mps.Handler

theorem flatMap_congr_mem {α β : Type} (l : List α) (f g : α → List β) (h : ∀ a ∈ l, f a = g a) :
    l.flatMap f = l.flatMap g := by
  induction l with
  | nil => rfl
  | cons x xs ih =>
    rw [List.flatMap_cons, List.flatMap_cons, h x (by simp), ih (fun a ha => h a (by simp [ha]))]

theorem complete_iff (base : Script) (σ : Sys) (sched : Sched) :
    Complete base σ sched = true ↔ ∀ p ∈ base.ids, ∀ m ∈ σ.emittedFor base p, m ∈ delivered sched p := by
  unfold Complete
  simp only [List.all_eq_true, List.contains_iff_mem]

section
variable {H : Bytes → Bytes} {base : Script}

/-- PROGRESS (session): under a causal schedule that has delivered everything that was emitted, every party has ended -/
theorem all_terminal (ok : SessionOk base) (sched : Sched) (hc : Causal H base sched = true)
    (hfair : Complete base (Sys.run H base sched) sched = true) :
    ∀ p ∈ base.ids, terminal ((Sys.run H base sched) p) = true := by
  have inv := run_inv ok sched hc
  have hfair' := (complete_iff base _ sched).mp hfair
  suffices h : ∀ n, ∀ p ∈ base.ids, ((Sys.run H base sched) p).idx = n → terminal ((Sys.run H base sched) p) = true from
    fun p hp => h _ p hp rfl
  intro n
  induction n using Nat.strongRecOn with
  | _ n ih =>
    intro p hp hn
    cases ht : terminal ((Sys.run H base sched) p) with
    | true => rfl
    | false =>
      exfalso
      have hMp := inv.honest ok p hp
      have hsubp := delivered_emitted H base sched p _ hc
      rw [run_apply] at ht hn
      obtain ⟨hi, q, hq, hqp, b, sp, hsp, hflag, hmiss⟩ := run_stuck hMp (delivered sched p) hsubp ht
      rw [hn] at hi hsp
      have hqp' : q ≠ p := hqp
      have hMq := inv.honest ok q hq
      have hsubq := delivered_emitted H base sched q _ hc
      have eq := run_einv hMq ok.noFinErr (delivered sched q) hsubq
      rw [← run_apply] at eq
      rcases Nat.lt_or_ge ((Sys.run H base sched) q).idx n with hlt | hge
      · -- `q` is behind: it has ended (induction), so it is in the last round — but `p` is in a later one
        have htq := ih _ hlt q hq rfl
        have hres : ((Sys.run H base sched) q).result.isSome = true := by
          simpa [terminal, eq.noerr] using htq
        have hnone := eq.final hres
        have hlen : n < base.rounds.length := (List.getElem?_eq_some_iff.mp hsp).1
        have : base.rounds.length ≤ ((Sys.run H base sched) q).idx + 1 := by
          rcases Nat.lt_or_ge (((Sys.run H base sched) q).idx + 1) base.rounds.length with h | h
          · have : (base.rounds[((Sys.run H base sched) q).idx + 1]?).isSome = true := by
              rw [List.getElem?_eq_getElem h]; rfl
            rw [show base.rounds[((Sys.run H base sched) q).idx + 1]? = none from hnone] at this
            cases this
          · exact h
        omega
      · -- `q` has entered the round `p` is in: it has emitted the message `p` is waiting for
        have key : ∀ x : Msg, x ∈ emitW (scriptFor base q) sp
            (expBh H (scriptFor base q) ((Sys.run H base sched).emittedFor base q) (sp.num - 1)) →
            isFor x p = true → x.rnd = sp.num ∧ x.frm = q ∧ x.bcast = b → False := by
          intro x hx hfor hk
          have hxo : x ∈ ((Sys.run H base sched) q).out := by
            rw [eq.out, mem_emitsUpTo]
            exact ⟨n, hi, hge, (mem_emitAt n x).mpr ⟨sp, hsp, hx⟩⟩
          have hxe : x ∈ (Sys.run H base sched).emittedFor base p := (mem_emittedFor base _ p x).mpr ⟨q, hq, hxo, hfor⟩
          exact hmiss x (hfair' p hp x hxe) hk
        cases b with
        | true =>
          simp only [if_true] at hflag
          exact key _ ((mem_emitW _ _ _ _).mpr (Or.inl ⟨hflag, rfl⟩))
            ((isFor_mkMsg _ _ _ _ _ _).mpr ⟨hqp', Or.inl rfl⟩) ⟨rfl, rfl, rfl⟩
        | false =>
          simp only [Bool.false_eq_true, if_false] at hflag
          exact key _ ((mem_emitW _ _ _ _).mpr (Or.inr ⟨hflag, p, mem_others.mpr ⟨hp, fun e => hqp' e.symm⟩, rfl⟩))
            ((isFor_mkMsg _ _ _ _ _ _).mpr ⟨hqp', Or.inr rfl⟩) ⟨rfl, rfl, rfl⟩

/-- (d) COMPLETION. A causal schedule that is fair to the end (everything emitted for a party has been delivered
    to it) leaves every party ended without error and with a result; its emitted messages are, in order, the
    closed-form list `idealOut`; and its whole state agrees — in every field except the two internal queues — with
    the single-handler run on the closed-form list `idealFor` of all session messages addressed to it (the in-order
    reference run). -/
theorem complete_schedule_completes (ok : SessionOk base) (sched : Sched) (hc : Causal H base sched = true)
    (hfair : Complete base (Sys.run H base sched) sched = true) (p : Bytes) (hp : p ∈ base.ids) :
    ((Sys.run H base sched) p).err = none ∧ ((Sys.run H base sched) p).result.isSome = true ∧
    ((Sys.run H base sched) p).out = idealOut H base p ∧
    (Sys.run H base sched).emittedFor base p = idealFor H base p ∧
    FEq ((Sys.run H base sched) p) (Handler.run H (scriptFor base p) ((idealFor H base p).map Call.accept)) := by
  have inv := run_inv ok sched hc
  have hfair' := (complete_iff base _ sched).mp hfair
  have hterm := all_terminal ok sched hc hfair
  have hpo : ∀ q ∈ base.ids, PartyOut H base q ((Sys.run H base sched).emittedFor base q) ((Sys.run H base sched) q) := by
    intro q hq
    rw [run_apply]
    exact party_out ok hq (inv.idealClosed q) (delivered sched q) (delivered_emitted H base sched q _ hc)
  have hres : ∀ q ∈ base.ids, ((Sys.run H base sched) q).result.isSome = true := by
    intro q hq
    simpa [terminal, (hpo q hq).noerr] using hterm q hq
  have hout : ∀ q ∈ base.ids, ((Sys.run H base sched) q).out = idealOut H base q := by
    intro q hq
    have hnone := (hpo q hq).final (hres q hq)
    have hlen : base.rounds.length ≤ ((Sys.run H base sched) q).idx + 1 := by
      rcases Nat.lt_or_ge (((Sys.run H base sched) q).idx + 1) base.rounds.length with h | h
      · have : (base.rounds[((Sys.run H base sched) q).idx + 1]?).isSome = true := by
          rw [List.getElem?_eq_getElem h]; rfl
        rw [hnone] at this
        cases this
      · exact h
    rw [(hpo q hq).outEq, idealEmits_stable H base q _ hlen]
  have hem : (Sys.run H base sched).emittedFor base p = idealFor H base p := by
    unfold Sys.emittedFor idealFor
    apply flatMap_congr_mem
    intro q hq
    rw [hout q hq]
  refine ⟨(hpo p hp).noerr, hres p hp, hout p hp, hem, ?_⟩
  have hM := inv.honest ok p hp
  have hsub := delivered_emitted H base sched p _ hc
  rw [run_apply, ← hem]
  exact run_feq hM _ _ hsub (fun m hm => hm) (fun m => ⟨hsub m, hfair' p hp m⟩)

end

end Mps.System

/-! ## Part 6: the value of a completed session, in closed form -/

namespace Mps.Handler
open Mps

/-- what the messages of round `sp` contribute to the protocol state of the party running `sc`: the scripted
    values of the other parties' broadcasts and p2p messages -/
def roundValue (sc : Script) (sp : RoundSpec) : Nat :=
  ((others sc).map fun q =>
    (if sp.recvB then honestV sc q [] sp.num else 0) + (if sp.recvP then honestV sc q sc.self sp.num else 0)).sum

/-- one sender's share of `roundValue` -/
def shareOf (sc : Script) (sp : RoundSpec) (q : Bytes) : Nat :=
  if q == sc.self then 0
  else (if sp.recvB then honestV sc q [] sp.num else 0) + (if sp.recvP then honestV sc q sc.self sp.num else 0)

theorem sum_shareOf (sc : Script) (sp : RoundSpec) : (sc.ids.map (shareOf sc sp)).sum = roundValue sc sp := by
  unfold roundValue others
  generalize sc.ids = l
  induction l with
  | nil => rfl
  | cons x xs ih =>
    rw [List.map_cons, List.sum_cons, ih, List.filter_cons]
    by_cases hx : (x == sc.self) = true
    · have : (x != sc.self) = false := by simp [bne, hx]
      simp [shareOf, hx, this]
    · have : (x != sc.self) = true := by simp [bne, hx]
      simp [shareOf, hx, this]

section
variable {H : Bytes → Bytes} {sc : Script} {M : List Msg}

/-- a delivered honest message is what the lookup of its key finds -/
theorem lookup_of_hasKey (hM : Honest H sc M) {s : State} (inv : HInv H sc M s) (m : Msg) (hm : m ∈ M) (hk : HasKey m s) :
    (if m.bcast then lookup s.bc m.rnd m.frm else lookup s.msgs m.rnd m.frm) = some m := by
  unfold HasKey at hk
  have hh := hM.msgs m hm
  cases hb : m.bcast with
  | true =>
    simp only [hb, if_true] at hk ⊢
    obtain ⟨y, hy⟩ := Option.isSome_iff_exists.mp hk
    obtain ⟨h1, h2, h3, h4⟩ := inv.bc_other m.rnd m.frm y hy hh.notSelf
    rw [hy, hM.uniq y h1 m hm h2 h3 (h4.trans hb.symm)]
  | false =>
    simp only [hb, Bool.false_eq_true, if_false] at hk ⊢
    obtain ⟨y, hy⟩ := Option.isSome_iff_exists.mp hk
    obtain ⟨h1, h2, h3, h4⟩ := inv.msgs_mem m.rnd m.frm y hy
    rw [hy, hM.uniq y h1 m hm h2 h3 (h4.trans hb.symm)]

theorem sendAll_acc (s : State) (ems : List Msg) : (sendAll s ems).acc = s.acc := by
  unfold sendAll
  simp only
  induction ems generalizing s with
  | nil => rfl
  | cons m ms ih =>
    rw [List.foldl_cons]
    split
    · rw [ih, store_acc]
    · exact ih _

/-- all messages the script expects from the other parties are among `l`, with the scripted values -/
def Full (sc : Script) (l : List Msg) : Prop :=
  ∀ i nx, 1 ≤ i → sc.rounds[i]? = some nx → ∀ q ∈ sc.ids, q ≠ sc.self →
    (nx.recvB = true → ∃ m ∈ l, m.rnd = nx.num ∧ m.frm = q ∧ m.bcast = true ∧ val m = honestV sc q [] nx.num) ∧
    (nx.recvP = true → ∃ m ∈ l, m.rnd = nx.num ∧ m.frm = q ∧ m.bcast = false ∧ val m = honestV sc q sc.self nx.num)

/-- what the replay of the queue adds on entering a round, when everything expected is queued -/
theorem rsum_full (hM : Honest H sc M) (l : List Msg) (hl : ∀ m ∈ l, m ∈ M) (full : Full sc l) {t : State}
    (inv : HInv H sc M t) (hk : ∀ m ∈ l, HasKey m t) (hi : 1 ≤ t.idx) : rsum t = roundValue sc (curSpec t) := by
  rw [← sum_shareOf]
  unfold rsum
  rw [inv.scEq]
  apply congrArg List.sum
  apply List.map_congr_left
  intro q hq
  obtain ⟨hrd, hnum⟩ := inv.curSpec_eq
  have hspec := inv.specOf_cur hM
  -- a queued p2p / broadcast message of the current round makes its kind expected
  have hP : ∀ y, lookup t.msgs t.cur q = some y → (curSpec t).recvP = true := by
    intro y hy
    obtain ⟨h1, h2, _, h4⟩ := inv.msgs_mem t.cur q y hy
    have := (hM.msgs y h1).recv (curSpec t) (by rw [h2]; exact hspec)
    simpa [h4] using this
  unfold contrib shareOf
  rw [inv.scEq]
  by_cases hself : (q == sc.self) = true
  · simp only [hself, if_true]
    split
    · rfl
    · cases hlk : lookup t.msgs t.cur q with
      | none => rfl
      | some y =>
        exfalso
        obtain ⟨h1, _, h3, _⟩ := inv.msgs_mem t.cur q y hlk
        exact (hM.msgs y h1).notSelf (by rw [h3]; simpa using hself)
  · have hne : q ≠ sc.self := by simpa using hself
    simp only [hself, Bool.false_eq_true, if_false]
    obtain ⟨fB, fP⟩ := full t.idx (curSpec t) hi hrd q hq hne
    have getP : (curSpec t).recvP = true →
        ∃ m, lookup t.msgs t.cur q = some m ∧ val m = honestV sc q sc.self (curSpec t).num := by
      intro hp
      obtain ⟨m, hm, h1, h2, h3, h4⟩ := fP hp
      have := lookup_of_hasKey hM inv m (hl m hm) (hk m hm)
      rw [h3, h1, h2, hnum] at this
      simp only [Bool.false_eq_true, if_false] at this
      exact ⟨m, this, h4⟩
    have noP : (curSpec t).recvP = false → lookup t.msgs t.cur q = none := by
      intro hp
      cases hlk : lookup t.msgs t.cur q with
      | none => rfl
      | some y => rw [hP y hlk] at hp; cases hp
    cases hB : (curSpec t).recvB with
    | true =>
      simp only [if_true]
      obtain ⟨m, hm, h1, h2, h3, h4⟩ := fB hB
      have := lookup_of_hasKey hM inv m (hl m hm) (hk m hm)
      rw [h3, h1, h2, hnum] at this
      simp only [if_true] at this
      rw [this]
      simp only
      rw [h4]
      cases hp : (curSpec t).recvP with
      | true =>
        obtain ⟨m', hm1, hm2⟩ := getP hp
        simp only [if_true]; rw [hm1]; simp only; rw [hm2]
      | false => simp
    | false =>
      simp only [Bool.false_eq_true, if_false, Nat.zero_add]
      cases hp : (curSpec t).recvP with
      | true =>
        obtain ⟨m', hm1, hm2⟩ := getP hp
        simp only [if_true]; rw [hm1]; simp only; rw [hm2]
      | false => rw [noP hp]; rfl

/-- the result of `finalize`, when it produces one, is the value accumulated so far plus the closed-form values of
    the rounds still to come -/
theorem finalize_value (hM : Honest H sc M) (l : List Msg) (hl : ∀ m ∈ l, m ∈ M) (full : Full sc l) (fuel : Nat)
    (s : State) (inv : HInv H sc M s) (hk : ∀ m ∈ l, HasKey m s) (v : Nat)
    (hres : (finalize H fuel s).result = some v) :
    v = s.acc + ((sc.rounds.drop (s.idx + 1)).map (roundValue sc)).sum := by
  induction fuel generalizing s with
  | zero => simp only [finalize] at hres; rw [inv.live.2.2] at hres; cases hres
  | succ fuel ih =>
    have inv1 := inv.fill hM
    unfold finalize at hres
    rw [finalizeStep_honest hM inv] at hres
    cases hrv : receivedAllB H s with
    | false =>
      simp only [hrv, Bool.not_false, if_true] at hres
      rw [inv1.live.2.2] at hres; cases hres
    | true =>
      simp only [hrv, Bool.not_true, Bool.false_eq_true, if_false] at hres
      by_cases hfe : (sc.finErrAt != 0 && sc.finErrAt == s.cur) = true
      · simp only [hfe, if_true] at hres
        have : (abort (fillBh H s) (some ErrKind.finalizeErr)).result = (fillBh H s).result := rfl
        rw [this, inv1.live.2.2] at hres; cases hres
      · simp only [hfe, if_false, Bool.false_eq_true] at hres
        cases hn : sc.rounds[s.idx + 1]? with
        | none =>
          simp only [hn] at hres
          have : (abort { enter0 (fillBh H s) with result := some s.acc } none).result = some s.acc := rfl
          rw [this] at hres
          have hlen : sc.rounds.length ≤ s.idx + 1 := by
            rcases Nat.lt_or_ge (s.idx + 1) sc.rounds.length with h | h
            · rw [List.getElem?_eq_getElem h] at hn; cases hn
            · exact h
          rw [List.drop_eq_nil_of_le hlen]
          simp only [List.map_nil, List.sum_nil, Nat.add_zero]
          exact (Option.some.inj hres).symm
        | some nx =>
          simp only [hn] at hres
          have invp := inv.preReplay hM nx hn hrv
          have hkp : ∀ m ∈ l, HasKey m (preReplay H s nx) := by
            intro m hm
            exact (hasKey_preserved H m).onSend _ nx ((hasKey_preserved H m).onFill s (hk m hm))
          have hcs : curSpec (preReplay H s nx) = nx := by
            have := invp.curSpec_eq.1
            have hi : (preReplay H s nx).idx = s.idx + 1 := rfl
            rw [hi, hn] at this
            exact (Option.some.inj this).symm
          have hrs := rsum_full hM l hl full invp hkp (by show 1 ≤ s.idx + 1; omega)
          rw [hcs] at hrs
          have := ih _ (invp.addAcc _) hkp hres
          rw [this]
          have hacc : (addAcc (preReplay H s nx) (rsum (preReplay H s nx))).acc = s.acc + roundValue sc nx := by
            show (sendAll (fillBh H s) (emitFor (fillBh H s) nx)).acc + rsum (preReplay H s nx) = _
            rw [sendAll_acc, fillBh_acc, hrs]
          have hidx : (addAcc (preReplay H s nx) (rsum (preReplay H s nx))).idx = s.idx + 1 := rfl
          have hlt : s.idx + 1 < sc.rounds.length := (List.getElem?_eq_some_iff.mp hn).1
          have hget : sc.rounds[s.idx + 1] = nx := (List.getElem?_eq_some_iff.mp hn).2
          rw [hacc, hidx, List.drop_eq_getElem_cons hlt, hget]
          simp only [List.map_cons, List.sum_cons]
          omega

/-- the result of a handler that was given all the messages the script expects, in any order -/
theorem run_value (hM : Honest H sc M) (l : List Msg) (hl : ∀ m ∈ l, m ∈ M) (full : Full sc l) (v : Nat)
    (hres : (run H sc (l.map Call.accept)).result = some v) :
    v = ((sc.rounds.drop 1).map (roundValue sc)).sum := by
  obtain ⟨_, _, _, _, _, _, e7, _⟩ := (run_canon hM l hl).feq.fields
  rw [e7] at hres
  have hf := (foldl_store_feq l (state0 sc)).fields
  have hacc : (preload sc l).acc = 0 := hf.2.2.2.2.2.2.2.2.2.1
  have := finalize_value hM l hl full _ (preload sc l) (preload_hinv hM l hl) (preload_hasKey hM l hl) v hres
  rw [hacc, (preload_cur hM l).2] at this
  simpa using this

end

end Mps.Handler

namespace Mps.System
open Mps Mps.Handler

/-- THE value of the session for party `p`, in closed form: the sum, over the rounds after the first and over the
    other parties `q`, of the scripted values `honestV` of `q`'s broadcast and of `q`'s p2p message to `p` -/
def sessionValue (base : Script) (p : Bytes) : Nat := ((base.rounds.drop 1).map (roundValue (scriptFor base p))).sum

theorem mem_idealEmits (H : Bytes → Bytes) (base : Script) (q : Bytes) (k : Nat) (m : Msg) :
    m ∈ idealEmits H base q k ↔ ∃ i, 1 ≤ i ∧ i ≤ k ∧ m ∈ idealAt H base q i := by
  induction k with
  | zero => simp only [idealEmits, List.not_mem_nil, false_iff]; rintro ⟨i, h1, h2, _⟩; omega
  | succ k ih =>
    simp only [idealEmits, List.mem_append, ih]
    constructor
    · rintro (⟨i, h1, h2, h3⟩ | h)
      · exact ⟨i, h1, by omega, h3⟩
      · exact ⟨k + 1, by omega, Nat.le_refl _, h⟩
    · rintro ⟨i, h1, h2, h3⟩
      rcases Nat.lt_or_eq_of_le h2 with h | rfl
      · exact Or.inl ⟨i, h1, by omega, h3⟩
      · exact Or.inr h3

section
variable {H : Bytes → Bytes} {base : Script}

theorem mem_idealFor (p : Bytes) (q : Bytes) (hq : q ∈ base.ids) (i : Nat) (nx : RoundSpec) (hi : 1 ≤ i)
    (hnx : base.rounds[i]? = some nx) (m : Msg) (hm : m ∈ emitW (scriptFor base q) nx (gEcho H base (nx.num - 1)))
    (hfor : isFor m p = true) : m ∈ idealFor H base p := by
  unfold idealFor
  rw [List.mem_flatMap]
  refine ⟨q, hq, List.mem_filter.mpr ⟨?_, hfor⟩⟩
  unfold idealOut
  rw [mem_idealEmits]
  have hlt : i < base.rounds.length := (List.getElem?_eq_some_iff.mp hnx).1
  refine ⟨i, hi, by omega, ?_⟩
  unfold idealAt
  rw [hnx]
  exact hm

/-- the closed-form list of the messages addressed to `p` holds everything `p`'s script expects -/
theorem idealFor_full (p : Bytes) (hp : p ∈ base.ids) : Full (scriptFor base p) (idealFor H base p) := by
  intro i nx hi hnx q hq hqp
  have hqp' : q ≠ p := hqp
  have hq : q ∈ base.ids := hq
  have hnx : base.rounds[i]? = some nx := hnx
  constructor
  · intro hB
    refine ⟨mkMsg (scriptFor base q) [] nx.num true (gEcho H base (nx.num - 1)), ?_, rfl, rfl, rfl, rfl⟩
    exact mem_idealFor (H := H) (base := base) p q hq i nx hi hnx _ ((mem_emitW _ _ _ _).mpr (Or.inl ⟨hB, rfl⟩))
      ((isFor_mkMsg _ _ _ _ _ _).mpr ⟨hqp', Or.inl rfl⟩)
  · intro hP
    refine ⟨mkMsg (scriptFor base q) p nx.num false (gEcho H base (nx.num - 1)), ?_, rfl, rfl, rfl, rfl⟩
    exact mem_idealFor (H := H) (base := base) p q hq i nx hi hnx _
      ((mem_emitW _ _ _ _).mpr (Or.inr ⟨hP, p, mem_others.mpr ⟨hp, fun e => hqp' e.symm⟩, rfl⟩))
      ((isFor_mkMsg _ _ _ _ _ _).mpr ⟨hqp', Or.inr rfl⟩)

/-- (d, value) in a completed session every party's result is the closed-form value of the session -/
theorem complete_value (ok : SessionOk base) (sched : Sched) (hc : Causal H base sched = true)
    (hfair : Complete base (Sys.run H base sched) sched = true) (p : Bytes) (hp : p ∈ base.ids) :
    ((Sys.run H base sched) p).result = some (sessionValue base p) := by
  obtain ⟨_, hres, _, hem, hfe⟩ := complete_schedule_completes ok sched hc hfair p hp
  have hM := emitted_honest ok sched hc p hp
  rw [hem] at hM
  obtain ⟨v, hv⟩ := Option.isSome_iff_exists.mp hres
  have hr := hfe.fields.2.2.2.2.2.2.1
  rw [hv]
  rw [hv] at hr
  rw [run_value hM (idealFor H base p) (fun m hm => hm) (idealFor_full p hp) v hr.symm]
  rfl

end

end Mps.System

/-! ### the sender of a message is the party whose handler emitted it -/

namespace Mps.System
open Mps Mps.Handler

theorem run_frm (H : Bytes → Bytes) (base : Script) (sched : Sched) (q : Bytes) (m : Msg)
    (hm : m ∈ ((Sys.run H base sched) q).out) : m.frm = q := by
  rw [run_apply] at hm
  have := run_outOk H (scriptFor base q) _ m hm
  rw [run_sc] at this
  exact this.2.2

/-- a delivery is possible exactly when the recipient is a party and the message is among those emitted for it
    (by whichever party): naming the sender by the `From` field of the message loses nothing -/
theorem canDeliver_iff_emitted (H : Bytes → Bytes) (base : Script) (sched : Sched) (p : Bytes) (m : Msg) :
    (Sys.run H base sched).canDeliver base p m = true ↔
      p ∈ base.ids ∧ m ∈ (Sys.run H base sched).emittedFor base p := by
  rw [canDeliver_iff, mem_emittedFor]
  constructor
  · rintro ⟨hp, hf, hfor, hm⟩
    exact ⟨hp, m.frm, hf, hm, hfor⟩
  · rintro ⟨hp, q, hq, hm, hfor⟩
    have := run_frm H base sched q m hm
    subst this
    exact ⟨hp, hq, hfor, hm⟩

end Mps.System
