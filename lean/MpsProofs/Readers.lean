import Mps.Readers
/- Lemmas about the reader models (core-only). -/
namespace Mps.Readers

theorem readFull_eq_take {α : Type} (chunks : List Nat) :
    ∀ (s : List α) (want : Nat), (∀ c ∈ chunks, 0 < c) → want ≤ chunks.length → want ≤ s.length →
      readFull s want chunks = s.take want := by
  induction chunks with
  | nil =>
    intro s want _ hl _
    have : want = 0 := by simpa using hl
    subst this; simp [readFull]
  | cons c cs ih =>
    intro s want hpos hl hs
    cases want with
    | zero => simp [readFull]
    | succ w =>
      have hc : 0 < c := hpos c (by simp)
      have hk : 0 < min c (w + 1) := by omega
      simp only [readFull]
      rw [ih (s.drop (min c (w + 1))) (w + 1 - min c (w + 1)) (fun x hx => hpos x (by simp [hx]))
        (by simp at hl; omega) (by simp; omega)]
      have h2 : w + 1 = min c (w + 1) + (w + 1 - min c (w + 1)) := by omega
      conv => rhs; rw [h2, List.take_add]

theorem serve_length {α : Type} (n k : Nat) : ∀ (s : List α), (serve s n k).length = k := by
  induction k with
  | zero => intro s; rfl
  | succ k ih => intro s; simp [serve, ih]

theorem serve_getElem? {α : Type} (n : Nat) : ∀ (k : Nat) (s : List α) (i : Nat), i < k →
    (serve s n k)[i]? = some ((s.drop (n * i)).take n) := by
  intro k
  induction k with
  | zero => intro s i h; omega
  | succ k ih =>
    intro s i h
    cases i with
    | zero => simp [serve]
    | succ i =>
      simp only [serve, List.getElem?_cons_succ]
      rw [ih (s.drop n) i (by omega), List.drop_drop]
      congr 3
      rw [Nat.mul_succ]; omega

theorem serve_flatten {α : Type} (n : Nat) : ∀ (k : Nat) (s : List α), (serve s n k).flatten = s.take (n * k) := by
  intro k
  induction k with
  | zero => intro s; simp [serve]
  | succ k ih =>
    intro s
    simp only [serve, List.flatten_cons, ih]
    rw [Nat.mul_succ, Nat.add_comm (n * k) n, List.take_add]

end Mps.Readers
