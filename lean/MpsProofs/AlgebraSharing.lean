import MpsProofs.Algebra
/-
  M2 lemmas, part 2: interpolation at 0 with the code's coefficients on duplicate-free id lists,
  linearity, keygen / refresh / derive final computations.
-/
namespace Mps.Alg
open Polynomial

section
variable {F G : Type} [Field F] [AddCommGroup G] [Module F G] (g : G) {ι : Type} [DecidableEq ι]

/-- what the library requires of a set of participants used for interpolation: ids without repetition
    whose scalar images (`ID.Scalar`) are pairwise different and non-zero -/
structure Nodes (l : List ι) (x : ι → F) : Prop where
  nodup : l.Nodup
  inj : ∀ i ∈ l, ∀ j ∈ l, x i = x j → i = j
  nz : ∀ i ∈ l, x i ≠ 0

variable {l : List ι} {x : ι → F}

theorem Nodes.injOn (h : Nodes l x) : Set.InjOn x (l.toFinset : Set ι) := by
  intro i hi j hj e
  exact h.inj i (by simpa using hi) j (by simpa using hj) e

theorem Nodes.nz' (h : Nodes l x) : ∀ i ∈ l.toFinset, x i ≠ 0 := fun i hi => h.nz i (by simpa using hi)

theorem Nodes.card (h : Nodes l x) : l.toFinset.card = l.length := List.toFinset_card_of_nodup h.nodup

theorem reconstruct_lawful (hl : l.Nodup) (v : ι → F) :
    reconstruct (lawful g : Ops F G) l x v = ∑ j ∈ l.toFinset, lagCoeff l.toFinset x j * v j := by
  unfold reconstruct
  rw [sumF_lawful, list_sum_map_eq l hl]
  refine Finset.sum_congr rfl fun j hj => ?_
  rw [lawful_mul, lagrangeCoeff_lawful g l hl x j (List.mem_toFinset.mp hj)]

theorem reconstructG_lawful (hl : l.Nodup) (V : ι → G) :
    reconstructG (lawful g : Ops F G) l x V = ∑ j ∈ l.toFinset, lagCoeff l.toFinset x j • V j := by
  unfold reconstructG
  rw [sumG_lawful, list_sum_map_eq l hl]
  refine Finset.sum_congr rfl fun j hj => ?_
  rw [lawful_smul, lagrangeCoeff_lawful g l hl x j (List.mem_toFinset.mp hj)]

/-! ### linearity -/

theorem reconstruct_add (hl : l.Nodup) (v w : ι → F) :
    reconstruct (lawful g : Ops F G) l x (fun i => v i + w i) =
      reconstruct (lawful g : Ops F G) l x v + reconstruct (lawful g : Ops F G) l x w := by
  simp only [reconstruct_lawful g hl, mul_add, Finset.sum_add_distrib]

theorem reconstructG_add (hl : l.Nodup) (V W : ι → G) :
    reconstructG (lawful g : Ops F G) l x (fun i => V i + W i) =
      reconstructG (lawful g : Ops F G) l x V + reconstructG (lawful g : Ops F G) l x W := by
  simp only [reconstructG_lawful g hl, smul_add, Finset.sum_add_distrib]

theorem reconstructG_smul_base (hl : l.Nodup) (v : ι → F) :
    reconstructG (lawful g : Ops F G) l x (fun i => v i • g) = reconstruct (lawful g : Ops F G) l x v • g := by
  simp only [reconstructG_lawful g hl, reconstruct_lawful g hl, Finset.sum_smul, mul_smul]

theorem reconstruct_list_sum (hl : l.Nodup) {κ : Type} (js : List κ) (v : κ → ι → F) :
    reconstruct (lawful g : Ops F G) l x (fun i => (js.map fun j => v j i).sum) =
      (js.map fun j => reconstruct (lawful g : Ops F G) l x (v j)).sum := by
  induction js with
  | nil => simp [reconstruct_lawful g hl]
  | cons j js ih =>
    simp only [List.map_cons, List.sum_cons]
    rw [reconstruct_add g hl, ih]

theorem reconstructG_list_sum (hl : l.Nodup) {κ : Type} (js : List κ) (V : κ → ι → G) :
    reconstructG (lawful g : Ops F G) l x (fun i => (js.map fun j => V j i).sum) =
      (js.map fun j => reconstructG (lawful g : Ops F G) l x (V j)).sum := by
  induction js with
  | nil => simp [reconstructG_lawful g hl]
  | cons j js ih =>
    simp only [List.map_cons, List.sum_cons]
    rw [reconstructG_add g hl, ih]

/-! ### interpolation at 0 -/

theorem reconstruct_poly' (hN : Nodes l x) (f : F[X]) (hdeg : f.degree < l.length) :
    reconstruct (lawful g : Ops F G) l x (fun j => f.eval (x j)) = f.eval 0 := by
  rw [reconstruct_lawful g hN.nodup]
  exact lagCoeff_at_zero _ x hN.injOn hN.nz' f (by rw [hN.card]; exact hdeg)

theorem reconstruct_const (hN : Nodes l x) (hne : l ≠ []) (a : F) :
    reconstruct (lawful g : Ops F G) l x (fun _ => a) = a := by
  rw [reconstruct_lawful g hN.nodup, ← Finset.sum_mul,
    lagCoeff_sum_one _ x hN.injOn hN.nz' (by
      rcases List.exists_mem_of_ne_nil l hne with ⟨i, hi⟩
      exact ⟨i, List.mem_toFinset.mpr hi⟩), one_mul]

theorem reconstructG_const (hN : Nodes l x) (hne : l ≠ []) (A : G) :
    reconstructG (lawful g : Ops F G) l x (fun _ => A) = A := by
  rw [reconstructG_lawful g hN.nodup, ← Finset.sum_smul,
    lagCoeff_sum_one _ x hN.injOn hN.nz' (by
      rcases List.exists_mem_of_ne_nil l hne with ⟨i, hi⟩
      exact ⟨i, List.mem_toFinset.mpr hi⟩), one_smul]

/-- shares that are the values of a coefficient list with at most |l| coefficients interpolate to
    its constant coefficient -/
theorem reconstruct_poly (hN : Nodes l x) (cs : List F) (hlen : cs.length ≤ l.length) :
    reconstruct (lawful g : Ops F G) l x (fun j => evalPoly (lawful g : Ops F G) cs (x j)) = cs.headD 0 := by
  simp only [horner_eq_eval]
  rw [reconstruct_poly' g hN, polyOf_eval_zero]
  exact lt_of_lt_of_le (polyOf_degree_lt cs) (by exact_mod_cast hlen)

/-- **lagrange in the exponent**: the values of an exponent polynomial of degree < |l| interpolate to
    its constant coefficient (both representations) -/
theorem reconstructG_exp (hN : Nodes l x) (e : Exponent G) (hdeg : expDegree e < (l.length : Int)) :
    reconstructG (lawful g : Ops F G) l x (fun j => evalExp (lawful g : Ops F G) e (x j)) =
      expConstant (lawful g : Ops F G) e := by
  rw [reconstructG_lawful g hN.nodup]
  have hpow := fun k hk => lagCoeff_pow l.toFinset x hN.injOn hN.nz' k hk
  unfold expDegree at hdeg
  simp only [evalExp_lawful]
  cases hb : e.isConstant
  · simp only [hb, Bool.false_eq_true, if_false] at hdeg ⊢
    have := weighted_hornerG (G := G) l.toFinset (lagCoeff l.toFinset x) x hpow e.coeffs 0
      (by rw [hN.card]; omega)
    simp only [pow_zero, one_smul, if_true] at this
    rw [this]
    unfold expConstant expConstant?
    simp [hb]
  · simp only [hb, if_true] at hdeg ⊢
    have := weighted_hornerG (G := G) l.toFinset (lagCoeff l.toFinset x) x hpow e.coeffs 1
      (by rw [hN.card]; omega)
    simp only [pow_one, one_ne_zero, if_false] at this
    rw [this]
    unfold expConstant expConstant?
    simp [hb]

/-! ### final computations of keygen / refresh -/

theorem finalShare_lawful (prev : F) (rs : List F) : finalShare (lawful g : Ops F G) prev rs = prev + rs.sum := by
  unfold finalShare; exact foldl_add_eq rs prev

omit [DecidableEq ι] in
theorem dealtShare_lawful (dealers : List ι) (cs : ι → List F) (x : ι → F) (prev : F) (i : ι) :
    dealtShare (lawful g : Ops F G) dealers cs x prev i =
      prev + (dealers.map fun j => evalPoly (lawful g : Ops F G) (cs j) (x i)).sum := by
  unfold dealtShare dealShare; rw [finalShare_lawful]

theorem frostGroupKey_lawful (prev : G) (phis : List (Exponent G)) :
    frostGroupKey (lawful g : Ops F G) prev phis = prev + (phis.map fun e => expConstant (lawful g : Ops F G) e).sum := by
  unfold frostGroupKey
  rw [← foldl_gadd_eq, List.foldl_map]
  rfl

theorem cmpPublicPoint_eq (ids : List ι) (x : ι → F) (X : ι → G) :
    cmpPublicPoint (lawful g : Ops F G) ids x X = reconstructG (lawful g : Ops F G) ids x X := by
  unfold cmpPublicPoint reconstructG sumG
  rw [List.foldl_map]

theorem deriveSharePath_lawful (s : F) (path : List F) :
    deriveSharePath (lawful g : Ops F G) s path = s + path.sum := by
  unfold deriveSharePath deriveShare; exact foldl_add_eq path s

theorem derivePublicPath_lawful (P : G) (path : List F) :
    derivePublicPath (lawful g : Ops F G) P path = P + path.sum • g := by
  unfold derivePublicPath derivePublic
  have : path.sum • g = (path.map fun a => a • g).sum := by
    induction path with
    | nil => simp
    | cons a as ih => simp [add_smul, ih]
  rw [this, ← foldl_gadd_eq, List.foldl_map]
  rfl

end
end Mps.Alg

namespace Mps.Alg
section
variable {F G : Type} [Field F] [AddCommGroup G] [Module F G] (g : G) {ι : Type}

/-! ### refresh operations (vocabulary of the C08 theorems) -/

/-- one refresh: who dealt, and with which coefficient lists -/
structure RefreshOp (ι F : Type) where
  dealers : List ι
  cs : ι → List F

/-- what cmp keygen round 3 / frost keygen round 2 check of a refresh polynomial:
    constant coefficient zero, at most t+1 coefficients -/
def RefreshOp.Valid (t : ℕ) (op : RefreshOp ι F) : Prop :=
  ∀ j ∈ op.dealers, (op.cs j).headD 0 = 0 ∧ (op.cs j).length ≤ t + 1

/-- every party's share after the refresh (the code's final computation, previous share added) -/
def applyRefresh (x : ι → F) (sh : ι → F) (op : RefreshOp ι F) : ι → F :=
  fun i => dealtShare (lawful g : Ops F G) op.dealers op.cs x (sh i) i

/-- the total refresh polynomial evaluated at party i: r(xᵢ) = Σⱼ rⱼ(xᵢ) -/
def refreshDelta (x : ι → F) (op : RefreshOp ι F) (i : ι) : F :=
  (op.dealers.map fun j => evalPoly (lawful g : Ops F G) (op.cs j) (x i)).sum

theorem applyRefresh_eq (x : ι → F) (sh : ι → F) (op : RefreshOp ι F) (i : ι) :
    applyRefresh g x sh op i = sh i + refreshDelta g x op i := by
  unfold applyRefresh refreshDelta; rw [dealtShare_lawful]

end
end Mps.Alg

namespace Mps.Alg
section
variable {F G : Type} [Field F] [AddCommGroup G] [Module F G]

/-- a vector space over a field has no zero divisors for the action -/
theorem smul_eq_zero_field {a : F} {v : G} (h : a • v = 0) : a = 0 ∨ v = 0 := by
  by_cases ha : a = 0
  · exact Or.inl ha
  · right
    have := congrArg (fun w => a⁻¹ • w) h
    simpa [inv_smul_smul₀ ha] using this

theorem smul_left_injective_field {v : G} (hv : v ≠ 0) {a b : F} (h : a • v = b • v) : a = b := by
  have : (a - b) • v = 0 := by rw [sub_smul, h, sub_self]
  rcases smul_eq_zero_field this with h0 | h0
  · exact sub_eq_zero.mp h0
  · exact absurd h0 hv

end
end Mps.Alg

namespace Mps.Alg

/-! ### chain keys (core-only facts) -/

theorem ridXor_right_comm (z x y : Bytes) : ridXor (ridXor z x) y = ridXor (ridXor z y) x := by
  unfold ridXor
  induction z generalizing x y with
  | nil => simp
  | cons a z ih =>
    cases x with
    | nil => cases y <;> simp
    | cons b x =>
      cases y with
      | nil => simp
      | cons c y =>
        simp only [List.zipWith_cons_cons, List.cons.injEq]
        exact ⟨by rw [UInt8.xor_assoc, UInt8.xor_comm b c, ← UInt8.xor_assoc], ih x y⟩

theorem chainKeyOf_perm (cs ds : List Bytes) (h : cs.Perm ds) : chainKeyOf cs = chainKeyOf ds := by
  unfold chainKeyOf
  exact List.Perm.foldl_eq' h (fun x _ y _ z => ridXor_right_comm z x y) _

theorem chainKeyOf_length (cs : List Bytes) (h : ∀ c ∈ cs, c.length = 32) : (chainKeyOf cs).length = 32 := by
  unfold chainKeyOf
  suffices ∀ (acc : Bytes), acc.length = 32 → (cs.foldl ridXor acc).length = 32 from this _ (by simp)
  induction cs with
  | nil => intro acc ha; simpa using ha
  | cons c cs ih =>
    intro acc ha
    rw [List.foldl_cons]
    refine ih (fun d hd => h d (by simp [hd])) _ ?_
    simp [ridXor, ha, h c (by simp)]

end Mps.Alg
