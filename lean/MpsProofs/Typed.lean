import MpsProofs.Frame
import Mps.Typed
import Mps.Commit
/-
  Lemmas for M1 (typed-value encoders). Core-only.
-/
namespace Mps

theorem beN_inj (k a b : Nat) (ha : a < 256 ^ k) (hb : b < 256 ^ k) (h : beN k a = beN k b) : a = b := by
  have := congrArg unbe h
  rw [unbe_beN, unbe_beN, Nat.mod_eq_of_lt ha, Nat.mod_eq_of_lt hb] at this
  exact this

theorem unbe_natBytes (n : Nat) : unbe (natBytes n) = n := by
  induction n using Nat.strongRecOn with
  | _ n ih =>
    rw [natBytes]
    split
    · next h => subst h; rfl
    · next h =>
      rw [unbe_append_single, ih (n / 256) (by omega)]
      have : (UInt8.ofNat (n % 256)).toNat = n % 256 := by simp [UInt8.toNat_ofNat']
      rw [this]; omega

theorem natBytes_inj (a b : Nat) (h : natBytes a = natBytes b) : a = b := by
  have := congrArg unbe h
  rwa [unbe_natBytes, unbe_natBytes] at this

theorem be64_inj (a b : Nat) (ha : a < 2 ^ 64) (hb : b < 2 ^ 64) (h : be64 a = be64 b) : a = b :=
  beN_inj 8 a b (by simpa using ha) (by simpa using hb) h

/-- splitting `x ++ y = x' ++ y'` when the left parts have equal length -/
theorem append_inj_len {α} {x x' y y' : List α} (h : x ++ y = x' ++ y') (hl : x.length = x'.length) :
    x = x' ∧ y = y' := List.append_inj h hl

theorem idsBody_inj (l l' : List Bytes) (hl : ∀ i ∈ l, i.length < 2 ^ 64) (hl' : ∀ i ∈ l', i.length < 2 ^ 64)
    (hlen : l.length = l'.length) (h : idsBody l = idsBody l') : l = l' := by
  induction l generalizing l' with
  | nil =>
    cases l' with
    | nil => rfl
    | cons _ _ => simp at hlen
  | cons i is ih =>
    cases l' with
    | nil => simp at hlen
    | cons j js =>
      simp only [idsBody, List.append_assoc] at h
      have h1 := append_inj_len h (by simp [be64_length])
      have hij : i.length = j.length :=
        be64_inj _ _ (hl i (by simp)) (hl' j (by simp)) h1.1
      have h2 := append_inj_len h1.2 hij
      have := ih js (fun x hx => hl x (by simp [hx])) (fun x hx => hl' x (by simp [hx]))
        (by simpa using hlen) h2.2
      rw [h2.1, this]

theorem idsData_inj (l l' : List Bytes) (hn : l.length < 2 ^ 64) (hn' : l'.length < 2 ^ 64)
    (hl : ∀ i ∈ l, i.length < 2 ^ 64) (hl' : ∀ i ∈ l', i.length < 2 ^ 64)
    (h : idsData l = idsData l') : l = l' := by
  unfold idsData at h
  have h1 := append_inj_len h (by simp [be64_length])
  exact idsBody_inj l l' hl hl' (be64_inj _ _ hn hn' h1.1) h1.2

/-- the shipped encoder was not injective: the witness of the repaired defect -/
theorem idsDataOld_collision :
    idsDataOld [str "ab", str "c"] = idsDataOld [str "a", str "bc"] ∧ [str "ab", str "c"] ≠ [str "a", str "bc"] := by
  decide

theorem gobBigInt_inj (n n' : Bool) (a a' : Nat) (h : gobBigInt n a = gobBigInt n' a') : n = n' ∧ a = a' := by
  unfold gobBigInt at h
  injection h with h1 h2
  refine ⟨?_, natBytes_inj _ _ h2⟩
  cases n <;> cases n' <;> simp_all <;> exact absurd h1 (by decide)

end Mps
