import Mathlib.Algebra.BigOperators.Intervals
import Mathlib.Algebra.BigOperators.Ring.Finset
import Mathlib.Tactic.Ring
import Mathlib.Tactic.LinearCombination
import Mps.OT.Multiply
import MpsProofs.OTBits
import MpsProofs.OTExtend
/-
  The algebraic chain of C13 over an arbitrary commutative ring / field:
     additive_sum  →  gadget_encode_sum  →  multiply shares sum to α·β, check completeness,
  and the single-alteration analysis of the sender's message.
-/
namespace Mps.OT
open Finset
set_option linter.unusedSectionVars false

variable {F : Type}

/-- the lawful scalar operations: the ring operations of `F`; `repr` is the marshalling
    representative (`ZMod.val` for the real scalar field) -/
def lawful (F : Type) [CommRing F] [DecidableEq F] (repr : F → Nat) : FieldOps F where
  zero := 0
  one := 1
  add := (· + ·)
  sub := (· - ·)
  neg := Neg.neg
  mul := (· * ·)
  eq a b := decide (a = b)
  repr := repr
  ofNat := Nat.cast

section ring
variable [CommRing F] [DecidableEq F] (repr : F → Nat)

@[simp] theorem lawful_zero : (lawful F repr).zero = 0 := rfl
@[simp] theorem lawful_one : (lawful F repr).one = 1 := rfl
@[simp] theorem lawful_add (a b : F) : (lawful F repr).add a b = a + b := rfl
@[simp] theorem lawful_sub (a b : F) : (lawful F repr).sub a b = a - b := rfl
@[simp] theorem lawful_neg (a : F) : (lawful F repr).neg a = -a := rfl
@[simp] theorem lawful_mul (a b : F) : (lawful F repr).mul a b = a * b := rfl
@[simp] theorem lawful_eq (a b : F) : (lawful F repr).eq a b = decide (a = b) := rfl
@[simp] theorem lawful_repr (a : F) : (lawful F repr).repr a = repr a := rfl
@[simp] theorem lawful_ofBit (b : Bool) : (lawful F repr).ofBit b = if b then 1 else 0 := rfl

/-! ### sums over `List.range` -/

theorem list_sum_map_range (f : Nat → F) (n : Nat) :
    ((List.range n).map f).sum = ∑ i ∈ range n, f i := by
  induction n with
  | zero => simp
  | succ n ih => rw [List.range_succ, List.map_append, List.sum_append, ih, sum_range_succ]; simp

theorem dotFrom_map (is : List Nat) (f g : Nat → F) (acc : F) :
    (lawful F repr).dotFrom acc (is.map f) (is.map g) = acc + (is.map fun i => f i * g i).sum := by
  induction is generalizing acc with
  | nil => simp [FieldOps.dotFrom]
  | cons i is ih => simp [FieldOps.dotFrom, ih, add_assoc]

theorem dot_map_range (n : Nat) (f g : Nat → F) :
    (lawful F repr).dot ((List.range n).map f) ((List.range n).map g) = ∑ i ∈ range n, f i * g i := by
  unfold FieldOps.dot
  rw [dotFrom_map, list_sum_map_range]; simp

theorem list_eq_map_range {α : Type} (l : List α) (d : α) :
    l = (List.range l.length).map fun i => l.getD i d := by
  apply List.ext_getElem
  · simp
  · intro i h1 h2
    simp [List.getD_eq_getElem?_getD, h1]

/-- a dot product against an arbitrary list of the right length -/
theorem dot_map_range_list (n : Nat) (f : Nat → F) (g : List F) (hg : g.length = n) :
    (lawful F repr).dot ((List.range n).map f) g = ∑ i ∈ range n, f i * g.getD i 0 := by
  conv_lhs => rw [list_eq_map_range g 0, hg]
  exact dot_map_range repr n f _

/-! ### additive OT -/

/-- **additive_sum**: if the receiver's pad block is the sender's block for its choice bit (what
    `ext_ot_choice` establishes), then for every index the receiver's and the sender's results
    add up to `choice_i · α`, in both components. -/
theorem additive_sum (h : OTHash F) (V0 V1 VC : List Nat) (l : Nat) (choices : Nat) (alpha : F × F)
    (hvc : ∀ i, i < l → VC.getD i 0 = if choices.testBit i then V1.getD i 0 else V0.getD i 0)
    (i : Nat) (hi : i < l) :
    let sr := additiveSend (lawful F repr) h V0 V1 l alpha
    let recv := additiveRecv (lawful F repr) h VC l choices sr.1
    (recv.getD i (0, 0)).1 + (sr.2.getD i (0, 0)).1 = (if choices.testBit i then alpha.1 else 0) ∧
    (recv.getD i (0, 0)).2 + (sr.2.getD i (0, 0)).2 = (if choices.testBit i then alpha.2 else 0) := by
  simp only [additiveSend, additiveRecv, getD_map_range _ _ _ _ hi, hvc i hi, bitAt, lawful_add,
    lawful_sub, lawful_neg, lawful_zero]
  by_cases hc : choices.testBit i <;> simp [hc] <;> constructor <;> ring

/-! ### the gadget vector and the encoding -/

theorem pow2_eq (k : Nat) : pow2 (lawful F repr) k = (2 : F) ^ k := by
  induction k with
  | zero => simp [pow2]
  | succ k ih => simp only [pow2, lawful_add, ih, pow_succ]; ring

theorem encodeAcc_eq (beta : F) (noise : List F) (gamma : Nat) :
    encodeAcc (lawful F repr) beta noise gamma =
      beta - ∑ i ∈ range noise.length, (if gamma.testBit i then 1 else 0) * noise.getD i 0 := by
  unfold encodeAcc
  generalize noise.length = n
  induction n with
  | zero => simp [forRange]
  | succ n ih =>
    rw [forRange_succ, ih, sum_range_succ]
    simp only [lawful_sub, lawful_mul, lawful_ofBit, bitAt, lawful_zero]
    ring

/-- Σ_{k<n} bit_k(v)·2^k = v mod 2^n, in any ring -/
theorem sum_bits (v n : Nat) :
    (∑ k ∈ range n, (if v.testBit k then (1 : F) else 0) * (2 : F) ^ k) = ((v % 2 ^ n : Nat) : F) := by
  induction n with
  | zero => simp [Nat.mod_one]
  | succ n ih =>
    rw [sum_range_succ, ih]
    have h : v % 2 ^ (n + 1) = v % 2 ^ n + 2 ^ n * (v.testBit n).toNat := by
      rw [Nat.toNat_testBit, Nat.pow_succ, Nat.mod_mul]
    rw [h]
    cases v.testBit n <;> simp

/-- the power-of-two part: in the code's index order (`8·i + j` ↦ exponent `8·(31−i) + j`) the
    bits of the marshalled value against the gadget entries sum to the value -/
theorem sum_gadget_pow (v : Nat) (hv : v < 2 ^ 256) :
    (∑ idx ∈ range 256, (if (scalarChoiceBits v).testBit idx then (1 : F) else 0) * (2 : F) ^ gadgetExp idx)
      = (v : F) := by
  have hterm : ∀ idx ∈ range 256,
      (if (scalarChoiceBits v).testBit idx then (1 : F) else 0) * (2 : F) ^ gadgetExp idx
        = (fun k => (if v.testBit k then (1 : F) else 0) * (2 : F) ^ k) (gadgetExp idx) := by
    intro idx hidx
    have hlt : idx < 256 := mem_range.mp hidx
    have e : idx = 8 * (idx / 8) + idx % 8 := by omega
    have : (scalarChoiceBits v).testBit idx = v.testBit (gadgetExp idx) := by
      unfold scalarChoiceBits gadgetExp
      conv_lhs => rw [e]
      exact scalarBits_testBit v (idx / 8) (idx % 8) (by omega) (Nat.mod_lt _ (by decide))
    simp only [this]
  rw [sum_congr rfl hterm]
  have hbij : ∑ idx ∈ range 256, (fun k => (if v.testBit k then (1 : F) else 0) * (2 : F) ^ k) (gadgetExp idx)
      = ∑ k ∈ range 256, (if v.testBit k then (1 : F) else 0) * (2 : F) ^ k := by
    apply sum_nbij' gadgetExp gadgetExp
    · intro a ha; have := mem_range.mp ha; apply mem_range.mpr; unfold gadgetExp; omega
    · intro a ha; have := mem_range.mp ha; apply mem_range.mpr; unfold gadgetExp; omega
    · intro a ha; have := mem_range.mp ha; unfold gadgetExp; omega
    · intro a ha; have := mem_range.mp ha; unfold gadgetExp; omega
    · intro a _; rfl
  rw [hbij, sum_bits, Nat.mod_eq_of_lt hv]

/-- requirements on the marshalling representative: it is a 256-bit number that casts back to
    the scalar (true of `ZMod.val` for a 256-bit modulus) -/
structure ReprOK (repr : F → Nat) : Prop where
  cast : ∀ x : F, ((repr x : Nat) : F) = x
  lt : ∀ x : F, repr x < 2 ^ 256

theorem encode_testBit_low (beta : F) (noise : List F) (gamma : Nat) (idx : Nat) (h : idx < 256) :
    (encode (lawful F repr) beta noise gamma).testBit idx
      = (scalarChoiceBits (repr (encodeAcc (lawful F repr) beta noise gamma))).testBit idx := by
  unfold encode scalarBits
  rw [Nat.testBit_or, Nat.testBit_shiftLeft]
  have : ¬ (idx ≥ 256) := by omega
  simp [this]

theorem encode_testBit_high (beta : F) (noise : List F) (gamma : Nat) (k : Nat) (h : k < noise.length) :
    (encode (lawful F repr) beta noise gamma).testBit (256 + k) = gamma.testBit k := by
  unfold encode scalarBits
  rw [Nat.testBit_or, Nat.testBit_shiftLeft, Nat.testBit_mod_two_pow]
  have h1 : (scalarChoiceBits (repr (encodeAcc (lawful F repr) beta noise gamma))).testBit (256 + k) = false := by
    apply Nat.testBit_lt_two_pow
    exact Nat.lt_of_lt_of_le (scalarBits_lt _) (Nat.pow_le_pow_right (by decide) (by omega))
  simp [h1, h]

theorem makeGadget_getD_low (h : OTHash F) (idx : Nat) (hi : idx < 256) :
    (makeGadget (lawful F repr) h).getD idx 0 = (2 : F) ^ gadgetExp idx := by
  unfold makeGadget scalarBits
  rw [List.getD_eq_getElem?_getD, List.getElem?_append_left (by simpa using hi)]
  simp [hi, pow2_eq]

theorem makeGadget_getD_high (h : OTHash F) (k : Nat) :
    (makeGadget (lawful F repr) h).getD (256 + k) 0 = (h.noise noiseLen).getD k 0 := by
  unfold makeGadget scalarBits
  rw [List.getD_eq_getElem?_getD, List.getElem?_append_right (by simp)]
  simp [List.getD_eq_getElem?_getD]

theorem makeGadget_length (h : OTHash F) (hn : (h.noise noiseLen).length = noiseLen) :
    (makeGadget (lawful F repr) h).length = gadgetLen := by
  simp [makeGadget, hn, gadgetLen]

theorem makeGadget_drop (h : OTHash F) :
    (makeGadget (lawful F repr) h).drop scalarBits = h.noise noiseLen := by
  unfold makeGadget
  rw [List.drop_append_of_le_length (by simp)]
  simp

/-- **gadget_encode_sum**: the choice bits produced by `encode(β, noise)` (for ANY sampled γ),
    taken against the gadget vector in the code's bit order, sum to β:   Σᵢ cᵢ·gᵢ = β. -/
theorem gadget_encode_sum (hr : ReprOK repr) (h : OTHash F) (hn : (h.noise noiseLen).length = noiseLen)
    (beta : F) (gamma : Nat) :
    let gadget := makeGadget (lawful F repr) h
    let choices := encode (lawful F repr) beta (gadget.drop scalarBits) gamma
    (∑ i ∈ range gadgetLen, (if choices.testBit i then (1 : F) else 0) * gadget.getD i 0) = beta := by
  intro gadget choices
  have hdrop : gadget.drop scalarBits = h.noise noiseLen := makeGadget_drop repr h
  have hsplit : gadgetLen = 256 + noiseLen := rfl
  rw [hsplit, sum_range_add]
  have hlow : ∑ x ∈ range 256, (if choices.testBit x then (1 : F) else 0) * gadget.getD x 0
      = encodeAcc (lawful F repr) beta (h.noise noiseLen) gamma := by
    have : ∀ x ∈ range 256, (if choices.testBit x then (1 : F) else 0) * gadget.getD x 0
        = (if (scalarChoiceBits (repr (encodeAcc (lawful F repr) beta (h.noise noiseLen) gamma))).testBit x
            then (1 : F) else 0) * (2 : F) ^ gadgetExp x := by
      intro x hx
      have hx' := mem_range.mp hx
      show (if (encode (lawful F repr) beta (gadget.drop scalarBits) gamma).testBit x then (1 : F) else 0) * _ = _
      rw [hdrop, encode_testBit_low repr _ _ _ _ hx', makeGadget_getD_low repr h x hx']
    rw [sum_congr rfl this, sum_gadget_pow _ (hr.lt _), hr.cast]
  have hhigh : ∑ x ∈ range noiseLen, (if choices.testBit (256 + x) then (1 : F) else 0) * gadget.getD (256 + x) 0
      = ∑ x ∈ range noiseLen, (if gamma.testBit x then (1 : F) else 0) * (h.noise noiseLen).getD x 0 := by
    apply sum_congr rfl
    intro x hx
    have hx' := mem_range.mp hx
    show (if (encode (lawful F repr) beta (gadget.drop scalarBits) gamma).testBit (256 + x) then (1 : F) else 0) * _ = _
    rw [hdrop, encode_testBit_high repr _ _ _ _ (by rw [hn]; exact hx'), makeGadget_getD_high repr h x]
  rw [hlow, hhigh, encodeAcc_eq, hn]
  ring


/-! ### the multiplication: shares and integrity check -/

theorem mulCheckAt_iff (chi : F × F) (choices : Nat) (rCheck : List F) (uCheck : F) (i : Nat) (r : F × F) :
    mulCheckAt (lawful F repr) chi choices rCheck uCheck i r = true ↔
      r.1 * chi.1 + r.2 * chi.2 = (if choices.testBit i then 1 else 0) * uCheck - rCheck.getD i 0 := by
  simp [mulCheckAt, bitAt]

/-- what `mulRecvFinish` can return: nothing, or the dot product of the first components with
    the gadget — the share never depends on `rCheck`, `uCheck` or the second components -/
theorem mulRecvFinish_cases (chi : F × F) (gadget : List F) (choices : Nat) (rCheck : List F) (uCheck : F)
    (result : List (F × F)) :
    mulRecvFinish (lawful F repr) chi gadget choices rCheck uCheck result = none ∨
    mulRecvFinish (lawful F repr) chi gadget choices rCheck uCheck result
      = some ((lawful F repr).dot (result.map (·.1)) gadget) := by
  unfold mulRecvFinish
  split
  · right; rfl
  · left; rfl

theorem mulRecvFinish_some_iff (chi : F × F) (gadget : List F) (choices : Nat) (rCheck : List F) (uCheck : F)
    (result : List (F × F)) :
    mulRecvFinish (lawful F repr) chi gadget choices rCheck uCheck result
      = some ((lawful F repr).dot (result.map (·.1)) gadget) ↔
    ∀ i, i < result.length →
      mulCheckAt (lawful F repr) chi choices rCheck uCheck i (result.getD i (0, 0)) = true := by
  unfold mulRecvFinish
  simp only [List.all_eq_true, List.mem_range, lawful_zero]
  constructor
  · intro h
    split at h
    · next hh => exact hh
    · simp at h
  · intro h
    rw [if_pos h]

/-- **multiply check completeness and share sum**, given the additive-OT relation
    recvᵢ + sendᵢ = cᵢ·α in both components: the receiver's integrity check passes at every index
    and the two shares add up to α · Σᵢ cᵢ·gᵢ. -/
theorem mul_finish_correct (chi alpha : F × F) (gadget : List F) (n : Nat) (hg : gadget.length = n)
    (choices : Nat) (s r : Nat → F × F)
    (h1 : ∀ i, i < n → (r i).1 + (s i).1 = if choices.testBit i then alpha.1 else 0)
    (h2 : ∀ i, i < n → (r i).2 + (s i).2 = if choices.testBit i then alpha.2 else 0) :
    let out := mulSendFinish (lawful F repr) chi gadget alpha ((List.range n).map s)
    ∃ shareR, mulRecvFinish (lawful F repr) chi gadget choices out.1 out.2.1 ((List.range n).map r) = some shareR ∧
      out.2.2 + shareR = alpha.1 * ∑ i ∈ range n, (if choices.testBit i then (1 : F) else 0) * gadget.getD i 0 := by
  intro out
  refine ⟨_, (mulRecvFinish_some_iff repr chi gadget choices out.1 out.2.1 _).mpr ?_, ?_⟩
  · intro i hi
    rw [List.length_map, List.length_range] at hi
    rw [mulCheckAt_iff, getD_map_range _ _ _ _ hi]
    have e1 : out.1.getD i 0 = (s i).1 * chi.1 + (s i).2 * chi.2 := by
      show ((List.map _ ((List.range n).map s))).getD i 0 = _
      rw [List.map_map, getD_map_range _ _ _ _ hi]
      simp
    have e2 : out.2.1 = alpha.1 * chi.1 + alpha.2 * chi.2 := by
      show (lawful F repr).add ((lawful F repr).add (lawful F repr).zero _) _ = _
      simp
    rw [e1, e2]
    have a1 := h1 i hi
    have a2 := h2 i hi
    by_cases hc : choices.testBit i
    · simp only [hc, if_true] at a1 a2 ⊢
      linear_combination chi.1 * a1 + chi.2 * a2
    · simp only [hc, Bool.false_eq_true, if_false] at a1 a2 ⊢
      linear_combination chi.1 * a1 + chi.2 * a2
  · show (lawful F repr).dot (((List.range n).map s).map (·.1)) gadget
        + (lawful F repr).dot (((List.range n).map r).map (·.1)) gadget = _
    rw [List.map_map, List.map_map, dot_map_range_list repr n _ gadget hg,
      dot_map_range_list repr n _ gadget hg, ← sum_add_distrib, mul_sum]
    apply sum_congr rfl
    intro i hi
    have a1 := h1 i (mem_range.mp hi)
    simp only [Function.comp]
    by_cases hc : choices.testBit i
    · simp only [hc, if_true] at a1 ⊢
      linear_combination gadget.getD i 0 * a1
    · simp only [hc, Bool.false_eq_true, if_false] at a1 ⊢
      linear_combination gadget.getD i 0 * a1


/-! ### the whole multiplication on a correct setup -/

/-- the receiver's additive-OT result at index `i`, as a function of the index -/
def recvAt (h : OTHash F) (VC : List Nat) (choices : Nat) (combined : List (F × F)) (i : Nat) : F × F :=
  ((-(h.sc2 (VC.getD i 0)).1) + (if bitAt i choices then (combined.getD i (0, 0)).1 else 0),
   (-(h.sc2 (VC.getD i 0)).2) + (if bitAt i choices then (combined.getD i (0, 0)).2 else 0))

theorem additiveRecv_eq (h : OTHash F) (VC : List Nat) (l choices : Nat) (combined : List (F × F)) :
    additiveRecv (lawful F repr) h VC l choices combined = (List.range l).map (recvAt h VC choices combined) := rfl

theorem additiveSend_result (h : OTHash F) (V0 V1 : List Nat) (l : Nat) (alpha : F × F) :
    (additiveSend (lawful F repr) h V0 V1 l alpha).2 = (List.range l).map fun i => h.sc2 (V0.getD i 0) := rfl

/-- **multiply_correct** on any setup satisfying the correlated-OT setup relation: for all inputs
    α, β, every encoding randomness γ, all extra choice bits, the sender's second pad scalar α₁ and
    ANY hash / PRG outputs, the honest run aborts nowhere (the KOS-style check of the extended OT
    and the receiver's integrity check both pass) and the two output shares add up to α·β. -/
theorem multiply_correct_of_setup (hr : ReprOK repr) (h : OTHash F) (hchi : ChiOK h)
    (hn : (h.noise noiseLen).length = noiseLen) (ss : CorreSendSetup) (rs : CorreRecvSetup)
    (hrel : SetupRel ss rs) (alpha alpha1 beta : F) (gamma extra : Nat) :
    ∃ shareS shareR, multiplyRun (lawful F repr) h ss rs alpha alpha1 beta gamma extra = some (shareS, shareR) ∧
      shareS + shareR = alpha * beta := by
  have hglen : (makeGadget (lawful F repr) h).length = gadgetLen := makeGadget_length repr h hn
  have hkos := kos_check_complete h hchi ss rs hrel (makeGadget (lawful F repr) h).length
    (encode (lawful F repr) beta ((makeGadget (lawful F repr) h).drop scalarBits) gamma) extra
  have hvc := fun i hi => ext_ot_choice h ss rs hrel (makeGadget (lawful F repr) h).length
    (encode (lawful F repr) beta ((makeGadget (lawful F repr) h).drop scalarBits) gamma) extra i hi
  generalize hch : encode (lawful F repr) beta ((makeGadget (lawful F repr) h).drop scalarBits) gamma = choices
    at hkos hvc
  generalize hrr : extReceive h rs (makeGadget (lawful F repr) h).length choices extra = r at hkos hvc
  simp only at hkos hvc
  obtain ⟨sp, hsp⟩ : ∃ sp, senderPads h ss (makeGadget (lawful F repr) h).length r.1.U = sp := ⟨_, rfl⟩
  simp only [hsp] at hkos hvc
  have hadd := additive_sum repr h sp.1 sp.2 r.2 (makeGadget (lawful F repr) h).length choices (alpha, alpha1) hvc
  simp only [additiveRecv_eq, additiveSend_result] at hadd
  obtain ⟨shareR, hR, hsum⟩ := mul_finish_correct repr (h.mchi r.1.U) (alpha, alpha1)
    (makeGadget (lawful F repr) h) (makeGadget (lawful F repr) h).length rfl choices
    (fun i => h.sc2 (sp.1.getD i 0))
    (recvAt h r.2 choices (additiveSend (lawful F repr) h sp.1 sp.2 (makeGadget (lawful F repr) h).length (alpha, alpha1)).1)
    (fun i hi => by
      have := (hadd i hi).1
      rwa [getD_map_range _ _ _ _ hi, getD_map_range _ _ _ _ hi] at this)
    (fun i hi => by
      have := (hadd i hi).2
      rwa [getD_map_range _ _ _ _ hi, getD_map_range _ _ _ _ hi] at this)
  refine ⟨(mulSendFinish (lawful F repr) (h.mchi r.1.U) (makeGadget (lawful F repr) h) (alpha, alpha1)
    ((List.range (makeGadget (lawful F repr) h).length).map fun i => h.sc2 (sp.1.getD i 0))).2.2, shareR, ?_, ?_⟩
  · unfold multiplyRun mulReceiverRound1 mulSenderRound1 mulReceiverRound2
    simp only [hch, hrr, hkos]
    -- the shape checks of the receiver's second round pass on the honest message
    rw [if_neg (by simp [mulSendFinish, additiveSend]), if_neg (by simp [additiveSend])]
    rw [additiveRecv_eq, additiveSend_result, hR]
  · rw [hsum, hglen, ← hch]
    have := gadget_encode_sum repr hr h hn beta gamma
    simp only at this
    rw [this]


/-! ### single-field alterations of the sender's message -/

/-- (value changes) `m'` differs from `m` in exactly one field: one component of one combined pad, one entry of
    `RCheck`, or `UCheck` (the new value is arbitrary) -/
inductive FieldAlt (m m' : MulSendMsg F) : Prop
  | comb0 (i : Nat) (x : F)
      (h : m' = { m with combined := m.combined.set i (x, (m.combined.getD i (0, 0)).2) })
  | comb1 (i : Nat) (x : F)
      (h : m' = { m with combined := m.combined.set i ((m.combined.getD i (0, 0)).1, x) })
  | rcheck (i : Nat) (x : F) (h : m' = { m with rCheck := m.rCheck.set i x })
  | ucheck (x : F) (h : m' = { m with uCheck := x })

/-- a single-field alteration of the sender's message: the value of one field changed
    (`FieldAlt`), or the LENGTH of one of its two vectors changed (truncated, extended, replaced by a
    vector of another length) -/
inductive SingleAlt (m m' : MulSendMsg F) : Prop
  | field (h : FieldAlt m m')
  | combLen (l' : List (F × F)) (hl : l'.length ≠ m.combined.length) (h : m' = { m with combined := l' })
  | rcLen (l' : List F) (hl : l'.length ≠ m.rCheck.length) (h : m' = { m with rCheck := l' })

theorem FieldAlt.lengths {m m' : MulSendMsg F} (h : FieldAlt m m') :
    m'.combined.length = m.combined.length ∧ m'.rCheck.length = m.rCheck.length := by
  cases h with
  | comb0 i x hm => subst hm; simp
  | comb1 i x hm => subst hm; simp
  | rcheck i x hm => subst hm; simp
  | ucheck x hm => subst hm; simp

theorem getD_set {α : Type} (l : List α) (i j : Nat) (a d : α) :
    (l.set i a).getD j d = if i = j ∧ i < l.length then a else l.getD j d := by
  rw [List.getD_eq_getElem?_getD, List.getElem?_set, List.getD_eq_getElem?_getD]
  by_cases e : i = j
  · subst e
    by_cases hl : i < l.length
    · rw [if_pos rfl, if_pos hl, if_pos ⟨rfl, hl⟩]; rfl
    · rw [if_pos rfl, if_neg hl, if_neg (fun hh => hl hh.2), List.getElem?_eq_none (by omega)]
  · rw [if_neg e, if_neg (fun hh => e hh.1)]

theorem mulRecvFinish_none_of (chi : F × F) (gadget : List F) (choices : Nat) (rCheck : List F) (uCheck : F)
    (result : List (F × F)) (i : Nat) (hi : i < result.length)
    (hbad : mulCheckAt (lawful F repr) chi choices rCheck uCheck i (result.getD i (0, 0)) = false) :
    mulRecvFinish (lawful F repr) chi gadget choices rCheck uCheck result = none := by
  rcases mulRecvFinish_cases repr chi gadget choices rCheck uCheck result with h | h
  · exact h
  · have := (mulRecvFinish_some_iff repr chi gadget choices rCheck uCheck result).mp h i hi
    rw [hbad] at this
    exact absurd this (by simp)

/-- if the first components of the receiver's additive-OT result are unchanged, the outcome is an
    error or the same share — whatever happened to `RCheck`, `UCheck` and the second components -/
theorem mulRecvFinish_same_fst (chi : F × F) (gadget : List F) (choices : Nat) (rc rc' : List F) (u u' : F)
    (res res' : List (F × F)) (hfst : res'.map (·.1) = res.map (·.1)) (share : F)
    (hon : mulRecvFinish (lawful F repr) chi gadget choices rc u res = some share) :
    mulRecvFinish (lawful F repr) chi gadget choices rc' u' res' = none ∨
    mulRecvFinish (lawful F repr) chi gadget choices rc' u' res' = some share := by
  rcases mulRecvFinish_cases repr chi gadget choices rc u res with h | h
  · rw [h] at hon; exact absurd hon (by simp)
  · rcases mulRecvFinish_cases repr chi gadget choices rc' u' res' with h' | h'
    · left; exact h'
    · right; rw [h', hfst, ← h, hon]

end ring

section domain
variable [CommRing F] [IsDomain F] [DecidableEq F] (repr : F → Nat)

/-- the receiver's second round after the shape checks: additive OT, integrity check, share -/
def recvCore (h : OTHash F) (VC : List Nat) (gadget : List F) (choices : Nat) (chi : F × F)
    (m : MulSendMsg F) : Option F :=
  mulRecvFinish (lawful F repr) chi gadget choices m.rCheck m.uCheck
    (additiveRecv (lawful F repr) h VC gadget.length choices m.combined)

/-- core of the alteration analysis: `m` passes the receiver's check with share `shareR`; `m'`
    differs from `m` in one field -/
theorem alteration_core (h : OTHash F) (VC : List Nat) (gadget : List F) (choices : Nat) (chi : F × F)
    (hchi0 : chi.1 ≠ 0) (m m' : MulSendMsg F) (hlen : m.combined.length = gadget.length) (shareR : F)
    (hon : recvCore repr h VC gadget choices chi m = some shareR) (halt : FieldAlt m m') :
    recvCore repr h VC gadget choices chi m' = none ∨
    recvCore repr h VC gadget choices chi m' = some shareR := by
  unfold recvCore at hon ⊢
  obtain ⟨comb, rc, u⟩ := m
  simp only at hon hlen
  cases halt with
  | rcheck i x hm => subst hm; exact mulRecvFinish_same_fst repr chi gadget choices _ _ _ _ _ _ rfl shareR hon
  | ucheck x hm => subst hm; exact mulRecvFinish_same_fst repr chi gadget choices _ _ _ _ _ _ rfl shareR hon
  | comb1 i x hm =>
    subst hm
    refine mulRecvFinish_same_fst repr chi gadget choices _ _ _ _ _ _ ?_ shareR hon
    simp only [additiveRecv_eq, List.map_map]
    apply List.map_congr_left
    intro j _
    simp only [Function.comp, recvAt, getD_set]
    by_cases e : i = j ∧ i < comb.length
    · rw [if_pos e]; obtain ⟨e1, _⟩ := e; subst e1; rfl
    · rw [if_neg e]
  | comb0 i x hm =>
    subst hm
    simp only
    by_cases hi : i < gadget.length
    swap
    · -- out of range: nothing changed
      have : comb.set i (x, (comb.getD i (0, 0)).2) = comb :=
        List.set_eq_of_length_le (by rw [hlen]; omega)
      rw [this]
      right; exact hon
    by_cases hc : choices.testBit i
    swap
    · -- the choice bit is 0: the receiver masks this pad away
      refine mulRecvFinish_same_fst repr chi gadget choices _ _ _ _ _ _ ?_ shareR hon
      simp only [additiveRecv_eq, List.map_map]
      apply List.map_congr_left
      intro j _
      simp only [Function.comp, recvAt, getD_set, bitAt]
      by_cases e : i = j ∧ i < comb.length
      · obtain ⟨e1, _⟩ := e; subst e1; simp [hc]
      · rw [if_neg e]; rfl
    have hi' : i < comb.length := by rw [hlen]; exact hi
    by_cases hx : x = (comb.getD i (0, 0)).1
    · -- the "altered" value is the original one
      have : comb.set i (x, (comb.getD i (0, 0)).2) = comb := by
        rw [hx]
        apply List.ext_getElem (by simp)
        intro j h1 h2
        rw [List.getElem_set]
        by_cases e : i = j
        · subst e; simp [List.getD_eq_getElem?_getD, h2]
        · simp [e]
      rw [this]
      right; exact hon
    · -- a different pad with choice bit 1: the check at index i fails
      left
      have hall := (mulRecvFinish_some_iff repr chi gadget choices rc u _).mp
        ((mulRecvFinish_cases repr chi gadget choices rc u _).resolve_left (by rw [hon]; simp))
      have hgood := hall i (by rw [additiveRecv_eq]; simpa using hi)
      rw [additiveRecv_eq, getD_map_range _ _ _ _ hi, mulCheckAt_iff] at hgood
      apply mulRecvFinish_none_of repr chi gadget choices _ _ _ i (by rw [additiveRecv_eq]; simpa using hi)
      rw [additiveRecv_eq, getD_map_range _ _ _ _ hi]
      apply Bool.eq_false_iff.mpr
      intro hcheck
      rw [mulCheckAt_iff] at hcheck
      have e1 : (recvAt h VC choices (comb.set i (x, (comb.getD i (0, 0)).2)) i).1
          = (recvAt h VC choices comb i).1 + (x - (comb.getD i (0, 0)).1) := by
        simp only [recvAt, getD_set, bitAt, hc, if_true, hi', and_self]; ring
      have e2 : (recvAt h VC choices (comb.set i (x, (comb.getD i (0, 0)).2)) i).2
          = (recvAt h VC choices comb i).2 := by
        simp only [recvAt, getD_set, bitAt, hc, if_true, hi', and_self]
      rw [e1, e2] at hcheck
      have : (x - (comb.getD i (0, 0)).1) * chi.1 = 0 := by linear_combination hcheck - hgood
      rcases mul_eq_zero.mp this with h0 | h0
      · exact hx (sub_eq_zero.mp h0)
      · exact hchi0 h0

/-- the receiver's second round on the (unmarshalled) sender message `m`, as `mulReceiverRound2`:
    the two length checks, then `recvCore` -/
def recvRound2 (h : OTHash F) (VC : List Nat) (gadget : List F) (choices : Nat) (chi : F × F)
    (m : MulSendMsg F) : Option F :=
  if m.rCheck.length ≠ gadget.length then none
  else if m.combined.length ≠ gadget.length then none
  else recvCore repr h VC gadget choices chi m

theorem recvRound2_of_len (h : OTHash F) (VC : List Nat) (gadget : List F) (choices : Nat) (chi : F × F)
    (m : MulSendMsg F) (hc : m.combined.length = gadget.length) (hr : m.rCheck.length = gadget.length) :
    recvRound2 repr h VC gadget choices chi m = recvCore repr h VC gadget choices chi m := by
  unfold recvRound2
  rw [if_neg (by simp [hr]), if_neg (by simp [hc])]

/-- the message of the honest sender -/
def honestMsg (h : OTHash F) (V0 V1 : List Nat) (gadget : List F) (alpha chi : F × F) : MulSendMsg F :=
  { combined := (additiveSend (lawful F repr) h V0 V1 gadget.length alpha).1
    rCheck := (mulSendFinish (lawful F repr) chi gadget alpha
      (additiveSend (lawful F repr) h V0 V1 gadget.length alpha).2).1
    uCheck := (mulSendFinish (lawful F repr) chi gadget alpha
      (additiveSend (lawful F repr) h V0 V1 gadget.length alpha).2).2.1 }

theorem honestMsg_lengths (h : OTHash F) (V0 V1 : List Nat) (gadget : List F) (alpha chi : F × F) :
    (honestMsg repr h V0 V1 gadget alpha chi).combined.length = gadget.length ∧
    (honestMsg repr h V0 V1 gadget alpha chi).rCheck.length = gadget.length := by
  constructor <;> simp [honestMsg, additiveSend, mulSendFinish]

/-- **multiply_single_alteration**: the honest sender's message is `m`; the receiver gets `m'`,
    which differs from `m` in one field — a changed value, or a vector of another length. Then the
    receiver's second round either returns an error (shape check or integrity check) or returns
    exactly the share of the unaltered run (so the two output shares still add up to α·β) —
    provided the check weight χ₀ is non-zero. (χ₁ ≠ 0 is not needed: the second components never
    reach the share.) -/
theorem multiply_single_alteration (h : OTHash F) (V0 V1 VC : List Nat) (gadget : List F) (choices : Nat)
    (alpha chi : F × F) (hchi0 : chi.1 ≠ 0)
    (hvc : ∀ i, i < gadget.length → VC.getD i 0 = if choices.testBit i then V1.getD i 0 else V0.getD i 0)
    (m' : MulSendMsg F) (halt : SingleAlt (honestMsg repr h V0 V1 gadget alpha chi) m') :
    recvRound2 repr h VC gadget choices chi m' = none ∨
    recvRound2 repr h VC gadget choices chi m'
      = recvRound2 repr h VC gadget choices chi (honestMsg repr h V0 V1 gadget alpha chi) := by
  obtain ⟨hlc, hlr⟩ := honestMsg_lengths repr h V0 V1 gadget alpha chi
  cases halt with
  | combLen l' hl hm =>
    left; subst hm
    unfold recvRound2
    show (if (honestMsg repr h V0 V1 gadget alpha chi).rCheck.length ≠ gadget.length then none
      else if l'.length ≠ gadget.length then none else _) = none
    rw [if_neg (by rw [hlr]; simp), if_pos (by rw [← hlc]; exact hl)]
  | rcLen l' hl hm =>
    left; subst hm
    unfold recvRound2
    show (if l'.length ≠ gadget.length then none else _) = none
    rw [if_pos (by rw [← hlr]; exact hl)]
  | field hf =>
    obtain ⟨e1, e2⟩ := hf.lengths
    rw [recvRound2_of_len repr h VC gadget choices chi m' (by rw [e1, hlc]) (by rw [e2, hlr]),
      recvRound2_of_len repr h VC gadget choices chi _ hlc hlr]
    have hadd := additive_sum repr h V0 V1 VC gadget.length choices alpha hvc
    simp only [additiveRecv_eq, additiveSend_result] at hadd
    obtain ⟨shareR, hR, _⟩ := mul_finish_correct repr chi alpha gadget gadget.length rfl choices
      (fun i => h.sc2 (V0.getD i 0))
      (recvAt h VC choices (additiveSend (lawful F repr) h V0 V1 gadget.length alpha).1)
      (fun i hi => by have := (hadd i hi).1; rwa [getD_map_range _ _ _ _ hi, getD_map_range _ _ _ _ hi] at this)
      (fun i hi => by have := (hadd i hi).2; rwa [getD_map_range _ _ _ _ hi, getD_map_range _ _ _ _ hi] at this)
    have hon : recvCore repr h VC gadget choices chi (honestMsg repr h V0 V1 gadget alpha chi) = some shareR := hR
    rw [hon]
    exact alteration_core repr h VC gadget choices chi hchi0 _ m' hlc shareR hon hf

/-- the alteration theorem inside a whole honest run on a correct setup: whatever single field of
    the sender's message is changed in transit, the receiver's second round fails its check or
    returns the share of the unaltered run. -/
theorem multiply_single_alteration_run (h : OTHash F) (hchi : ChiOK h) (ss : CorreSendSetup)
    (rs : CorreRecvSetup) (hrel : SetupRel ss rs) (alpha alpha1 beta : F) (gamma extra : Nat)
    (hchi0 : (h.mchi (mulReceiverRound1 (lawful F repr) h rs beta gamma extra).2.1.U).1 ≠ 0) :
    let r1 := mulReceiverRound1 (lawful F repr) h rs beta gamma extra
    ∃ m shareS, mulSenderRound1 (lawful F repr) h ss (alpha, alpha1) r1.2.1 = some (m, shareS) ∧
      ∀ m', SingleAlt m m' →
        mulReceiverRound2 (lawful F repr) h r1.1 r1.2.1.U r1.2.2 m' = none ∨
        mulReceiverRound2 (lawful F repr) h r1.1 r1.2.1.U r1.2.2 m'
          = mulReceiverRound2 (lawful F repr) h r1.1 r1.2.1.U r1.2.2 m := by
  intro r1
  have hkos := kos_check_complete h hchi ss rs hrel (makeGadget (lawful F repr) h).length
    (encode (lawful F repr) beta ((makeGadget (lawful F repr) h).drop scalarBits) gamma) extra
  have hvc := fun i hi => ext_ot_choice h ss rs hrel (makeGadget (lawful F repr) h).length
    (encode (lawful F repr) beta ((makeGadget (lawful F repr) h).drop scalarBits) gamma) extra i hi
  simp only at hkos hvc
  have hr1 : r1 = (encode (lawful F repr) beta ((makeGadget (lawful F repr) h).drop scalarBits) gamma,
      (extReceive h rs (makeGadget (lawful F repr) h).length
        (encode (lawful F repr) beta ((makeGadget (lawful F repr) h).drop scalarBits) gamma) extra).1,
      (extReceive h rs (makeGadget (lawful F repr) h).length
        (encode (lawful F repr) beta ((makeGadget (lawful F repr) h).drop scalarBits) gamma) extra).2) := rfl
  have hchi0' : (h.mchi r1.2.1.U).1 ≠ 0 := hchi0
  rw [hr1] at hchi0' ⊢
  simp only at hchi0' ⊢
  generalize encode (lawful F repr) beta ((makeGadget (lawful F repr) h).drop scalarBits) gamma = choices
    at hkos hvc hchi0' ⊢
  generalize extReceive h rs (makeGadget (lawful F repr) h).length choices extra = r at hkos hvc hchi0' ⊢
  obtain ⟨sp, hsp⟩ : ∃ sp, senderPads h ss (makeGadget (lawful F repr) h).length r.1.U = sp := ⟨_, rfl⟩
  simp only [hsp] at hkos hvc
  refine ⟨honestMsg repr h sp.1 sp.2 (makeGadget (lawful F repr) h) (alpha, alpha1) (h.mchi r.1.U),
    (mulSendFinish (lawful F repr) (h.mchi r.1.U) (makeGadget (lawful F repr) h) (alpha, alpha1)
      (additiveSend (lawful F repr) h sp.1 sp.2 (makeGadget (lawful F repr) h).length (alpha, alpha1)).2).2.2, ?_, ?_⟩
  · unfold mulSenderRound1
    simp only [hkos]
    rfl
  · intro m' halt
    exact multiply_single_alteration repr h sp.1 sp.2 r.2 (makeGadget (lawful F repr) h) choices
      (alpha, alpha1) (h.mchi r.1.U) hchi0' hvc m' halt

end domain

end Mps.OT
