import Mps.Codec
import MpsProofs.Start
/- Lemmas for C15 (restore validation). Core-only. -/
namespace Mps.Codec
open Mps Mps.Start

theorem ifaceField_ok (fixed : Bool) (v : FV) (k : Out) : ifaceField fixed v k = Out.ok ↔ v = FV.good ∧ k = Out.ok := by
  cases v <;> cases fixed <;> simp [ifaceField]

theorem ifaceField_true_crash (v : FV) (k : Out) : ifaceField true v k = Out.crash ↔ v = FV.good ∧ k = Out.crash := by
  cases v <;> simp [ifaceField]

theorem ptrField_ok (v : FV) (k : Out) : ptrField v k = Out.ok ↔ v = FV.good ∧ k = Out.ok := by
  unfold ptrField
  split <;> simp_all

theorem ptrField_crash (v : FV) (k : Out) : ptrField v k = Out.crash ↔ v = FV.good ∧ k = Out.crash := by
  unfold ptrField
  split <;> simp_all

/-- what the public-records loop of the guarded decoder has checked when it goes through -/
theorem pubLoop_ok (self : Bytes) : ∀ (l : List PubTree) (seen : List Bytes), pubLoop true self seen l = Out.ok →
    (∀ e ∈ l, e.id ≠ [] ∧ e.s = FV.good ∧ e.t = FV.good ∧ (e.id ≠ self → e.n = FV.good ∧ e.ecdsa = FV.good ∧ e.elgamal = FV.good)) ∧
    (l.map (·.id)).Nodup ∧ ∀ e ∈ l, e.id ∉ seen
  | [], _, _ => by simp
  | e :: rest, seen, h => by
    simp only [pubLoop, Bool.true_and, ↓reduceIte, ite_err_ok, Bool.or_eq_true, beq_iff_eq,
      List.contains_iff_mem, not_or] at h
    obtain ⟨hnull, _hbad, hid, hseen, h⟩ := h
    by_cases hs : e.id = self
    · simp only [hs, ↓reduceIte, ite_err_ok, Bool.not_eq_true', Bool.and_eq_false_iff, not_or, Bool.not_eq_false, beq_iff_eq] at h
      obtain ⟨hst, hrest⟩ := h
      have ih := pubLoop_ok self rest (self :: seen) hrest
      have hst' : e.s = FV.good ∧ e.t = FV.good := by
        by_cases a : e.s = FV.good <;> by_cases b : e.t = FV.good <;> simp_all
      refine ⟨?_, ?_, ?_⟩
      · intro x hx
        rcases List.mem_cons.1 hx with rfl | hx
        · exact ⟨by rw [hs] at hid; simpa [hs] using hid, hst'.1, hst'.2, fun hne => absurd hs hne⟩
        · exact ih.1 x hx
      · rw [List.map_cons, List.nodup_cons]
        refine ⟨?_, ih.2.1⟩
        intro hm
        obtain ⟨y, hy, hye⟩ := List.mem_map.1 hm
        exact ih.2.2 y hy (by rw [hye, hs]; exact List.mem_cons_self)
      · intro x hx
        rcases List.mem_cons.1 hx with rfl | hx
        · rw [hs] at hseen ⊢; exact hseen
        · exact fun hm => ih.2.2 x hx (List.mem_cons_of_mem _ hm)
    · simp only [hs, ↓reduceIte, ptrField_ok] at h
      obtain ⟨hn, h⟩ := h
      split at h
      · rename_i hst
        split at h
        · rename_i hpt
          have ih := pubLoop_ok self rest (e.id :: seen) h
          simp only [Bool.and_eq_true, beq_iff_eq] at hst hpt
          refine ⟨?_, ?_, ?_⟩
          · intro x hx
            rcases List.mem_cons.1 hx with rfl | hx
            · exact ⟨hid, hst.1, hst.2, fun _ => ⟨hn, hpt.1, hpt.2⟩⟩
            · exact ih.1 x hx
          · rw [List.map_cons, List.nodup_cons]
            refine ⟨?_, ih.2.1⟩
            intro hm
            obtain ⟨y, hy, hye⟩ := List.mem_map.1 hm
            exact ih.2.2 y hy (by rw [hye]; exact List.mem_cons_self)
          · intro x hx
            rcases List.mem_cons.1 hx with rfl | hx
            · exact hseen
            · exact fun hm => ih.2.2 x hx (List.mem_cons_of_mem _ hm)
        · cases h
      · cases h

theorem pubLoop_true_ne_crash (self : Bytes) : ∀ (l : List PubTree) (seen : List Bytes), pubLoop true self seen l ≠ Out.crash
  | [], _ => by simp [pubLoop]
  | e :: rest, seen => by
    intro h
    simp only [pubLoop, Bool.true_and] at h
    split at h; · cases h
    split at h; · cases h
    split at h; · cases h
    split at h; · cases h
    split at h
    · split at h; · cases h
      exact pubLoop_true_ne_crash self rest _ h
    · rw [ptrField_crash] at h
      obtain ⟨_, h⟩ := h
      split at h
      · split at h
        · exact pubLoop_true_ne_crash self rest _ h
        · cases h
      · cases h

end Mps.Codec
