import MpsProofs.Handler
import MpsProofs.Typed
/-
  Lemmas for the echo broadcast (C06). Core-only.
-/
namespace Mps.Handler
open Mps

theorem e_ssid : str "SSID" = [83, 83, 73, 68] := by decide
theorem e_id : str "ID" = [73, 68] := by decide
theorem e_proto : str "Protocol" = [80, 114, 111, 116, 111, 99, 111, 108] := by decide
theorem e_rn : str "Round Number" = [82, 111, 117, 110, 100, 32, 78, 117, 109, 98, 101, 114] := by decide
theorem e_content : str "Content" = [67, 111, 110, 116, 101, 110, 116] := by decide
theorem e_bcast : str "Broadcast" = [66, 114, 111, 97, 100, 99, 97, 115, 116] := by decide
theorem e_bv : str "BroadcastVerification" =
    [66, 114, 111, 97, 100, 99, 97, 115, 116, 86, 101, 114, 105, 102, 105, 99, 97, 116, 105, 111, 110] := by decide
theorem e_msg : str "Message" = [77, 101, 115, 115, 97, 103, 101] := by decide

/-- header and payload of a message as they enter `Message.Hash` (everything except the decoded view) -/
def wire (m : Msg) : Option Bytes × Bytes × Bytes × Bytes × Nat × Option Bytes × Bool × Option Bytes :=
  (m.ssid, m.frm, m.to, m.proto, m.rnd, m.data, m.bcast, m.bv)

/-- what the wire format can carry: a sender, and lengths / round number that fit their fields -/
structure MsgOk (m : Msg) : Prop where
  frm_ne : m.frm ≠ []
  rnd_lt : m.rnd < 256 ^ 8
  items_wf : ∀ i ∈ msgHashItems m, i.WF

/-- the item list hashed by `Message.Hash` determines every wire field of the message -/
theorem msgHashItems_injective (m m' : Msg) (hm : MsgOk m) (hm' : MsgOk m')
    (h : msgHashItems m = msgHashItems m') : wire m = wire m' := by
  obtain ⟨h1, h3, -⟩ := hm
  obtain ⟨h1', h3', -⟩ := hm'
  obtain ⟨ssid, frm, to, proto, rnd, data, bcast, bv, dec⟩ := m
  obtain ⟨ssid', frm', to', proto', rnd', data', bcast', bv', dec'⟩ := m'
  simp only at h1 h3 h1' h3'
  simp only [msgHashItems, h1, h1', if_false, e_ssid, e_id, e_proto, e_rn, e_content, e_bcast, e_bv,
    List.append_nil, List.nil_append] at h
  simp only [wire]
  by_cases ht : to = [] <;> by_cases ht' : to' = [] <;>
  simp only [ht, ht', if_true, if_false, List.nil_append] at h <;>
  cases ssid <;> cases ssid' <;> cases data <;> cases data' <;> cases bv <;> cases bv' <;>
    simp only [List.nil_append, List.cons_append, List.append_nil, List.cons.injEq, Item.mk.injEq, List.append_assoc,
      reduceCtorEq, and_false, false_and, and_true, true_and] at h <;>
    first
    | (exfalso; revert h; decide)
    | (exfalso; exact absurd h.1.1 (by decide))
    | (exfalso; exact absurd h.2.1.1 (by decide))
    | (exfalso; exact absurd h.2.2.1.1 (by decide))
    | (exfalso; exact absurd h.2.2.2.1.1 (by decide))
    | (exfalso; exact absurd h.2.2.2.2.1.1 (by decide))
    | (exfalso; exact absurd h.2.2.2.2.2.1.1 (by decide))
    | skip
  all_goals (
    have hr : rnd = rnd' := by
      apply beN_inj 8 _ _ h3 h3'
      simp only [be64] at h
      first | exact h.2.2.1 | exact h.2.2.2.1 | exact h.2.2.2.2.1
    subst hr
    cases bcast <;> cases bcast' <;> simp_all)

theorem lookup_mem (q : List (Nat × Bytes × Msg)) (r : Nat) (id : Bytes) (m : Msg) (h : lookup q r id = some m) :
    ∃ e ∈ q, e.2.2 = m := by
  unfold lookup at h
  cases hf : q.find? (fun e => e.1 == r && e.2.1 == id) with
  | none => simp [hf] at h
  | some e =>
    simp [hf] at h
    exact ⟨e, List.mem_of_find?_eq_some hf, h⟩

def msgItem (H : Bytes → Bytes) (o : Option Msg) : Option Item := o.map fun m => ⟨str "Message", msgHash H m⟩

theorem echoHash_some (H : Bytes → Bytes) (sc : Script) (bc : List (Nat × Bytes × Msg)) (r : Nat) (h : Bytes)
    (e : echoHash H sc bc r = some h) :
    (∀ id ∈ sc.ids, (lookup bc r id).isSome = true) ∧
    h = digestWith H (sc.sess ++ (sc.ids.map fun id => lookup bc r id).filterMap (msgItem H)) := by
  unfold echoHash at e
  simp only at e
  split at e
  · next hall =>
    simp only [Option.some.injEq] at e
    refine ⟨?_, e.symm⟩
    intro id hid
    simp only [List.all_map, List.all_eq_true] at hall
    exact hall id hid
  · simp at e

theorem view_pointwise (H : Bytes → Bytes) (bc bc' : List (Nat × Bytes × Msg)) (r : Nat) (ids : List Bytes)
    (h1 : ∀ id ∈ ids, (lookup bc r id).isSome = true) (h2 : ∀ id ∈ ids, (lookup bc' r id).isSome = true)
    (e : (ids.map fun id => lookup bc r id).filterMap (msgItem H) = (ids.map fun id => lookup bc' r id).filterMap (msgItem H)) :
    ∀ id ∈ ids, ∃ m m', lookup bc r id = some m ∧ lookup bc' r id = some m' ∧ msgHash H m = msgHash H m' := by
  induction ids with
  | nil => intro id hid; simp at hid
  | cons a rest ih =>
    have ha := h1 a (by simp)
    have ha' := h2 a (by simp)
    obtain ⟨m, hm⟩ := Option.isSome_iff_exists.mp ha
    obtain ⟨m', hm'⟩ := Option.isSome_iff_exists.mp ha'
    have g1 : msgItem H (some m) = some ⟨str "Message", msgHash H m⟩ := rfl
    have g2 : msgItem H (some m') = some ⟨str "Message", msgHash H m'⟩ := rfl
    simp only [List.map_cons, hm, hm', List.filterMap_cons_some g1, List.filterMap_cons_some g2, List.cons.injEq,
      Item.mk.injEq, true_and] at e
    intro id hid
    rcases List.mem_cons.mp hid with rfl | hid
    · exact ⟨m, m', hm, hm', e.1⟩
    · exact ih (fun x hx => h1 x (by simp [hx])) (fun x hx => h2 x (by simp [hx])) e.2 id hid

/-- Two parties whose echo hashes of a broadcast round are equal hold byte-identical copies of every
    participant's broadcast of that round — or exhibit a collision of the hash function. -/
theorem echoHash_agree (H : Bytes → Bytes) (hH : ∀ x, (H x).length < 2 ^ 64) (sc : Script)
    (bc bc' : List (Nat × Bytes × Msg)) (r : Nat) (h : Bytes) (hs : ∀ i ∈ sc.sess, i.WF)
    (ok : ∀ e ∈ bc, MsgOk e.2.2) (ok' : ∀ e ∈ bc', MsgOk e.2.2)
    (e1 : echoHash H sc bc r = some h) (e2 : echoHash H sc bc' r = some h) :
    (∀ id ∈ sc.ids, ∃ m m', lookup bc r id = some m ∧ lookup bc' r id = some m' ∧ wire m = wire m') ∨
    (∃ x y : Bytes, x ≠ y ∧ H x = H y) := by
  obtain ⟨p1, d1⟩ := echoHash_some H sc bc r h e1
  obtain ⟨p2, d2⟩ := echoHash_some H sc bc' r h e2
  have hd := d1.symm.trans d2
  unfold digestWith at hd
  by_cases et : transcript (sc.sess ++ (sc.ids.map fun id => lookup bc r id).filterMap (msgItem H)) =
                transcript (sc.sess ++ (sc.ids.map fun id => lookup bc' r id).filterMap (msgItem H))
  · -- equal streams: equal item lists
    have wf : ∀ (q : List (Nat × Bytes × Msg)), ∀ i ∈ sc.sess ++ (sc.ids.map fun id => lookup q r id).filterMap (msgItem H), i.WF := by
      intro q i hi
      rcases List.mem_append.mp hi with hi | hi
      · exact hs i hi
      · simp only [List.mem_filterMap, msgItem] at hi
        obtain ⟨o, _, ho⟩ := hi
        cases o with
        | none => simp at ho
        | some m =>
          simp only [Option.map_some, Option.some.injEq] at ho
          subst ho
          exact ⟨by simp [e_msg], hH _⟩
    have hl := Mps.transcript_injective _ _ (wf bc) (wf bc') et
    have hv := List.append_cancel_left hl
    have pw := view_pointwise H bc bc' r sc.ids p1 p2 hv
    -- now message hash by message hash
    by_cases hc : ∃ id ∈ sc.ids, ∃ m m', lookup bc r id = some m ∧ lookup bc' r id = some m' ∧
        transcript (msgHashItems m) ≠ transcript (msgHashItems m')
    · obtain ⟨id, hid, m, m', hm, hm', hne⟩ := hc
      obtain ⟨m1, m1', h1, h1', hh⟩ := pw id hid
      rw [hm] at h1; rw [hm'] at h1'
      cases h1; cases h1'
      exact Or.inr ⟨_, _, hne, hh⟩
    · left
      intro id hid
      obtain ⟨m, m', hm, hm', _⟩ := pw id hid
      refine ⟨m, m', hm, hm', ?_⟩
      have heq : transcript (msgHashItems m) = transcript (msgHashItems m') := by
        apply Classical.byContradiction
        intro hne
        exact hc ⟨id, hid, m, m', hm, hm', hne⟩
      obtain ⟨e, he, rfl⟩ := lookup_mem bc r id m hm
      obtain ⟨e', he', rfl⟩ := lookup_mem bc' r id m' hm'
      have k := ok e he
      have k' := ok' e' he'
      exact msgHashItems_injective _ _ k k' (Mps.transcript_injective _ _ k.items_wf k'.items_wf heq)
  · exact Or.inr ⟨_, _, et, hd⟩

/-- `checkBroadcastHash` passed: every stored message of the current round carries the local echo hash
    of the previous round -/
theorem check_passes_imp_bv (s : State) (prev : Bytes) (hp : bhLookup s.bh (s.cur - 1) = some prev)
    (hc : checkBroadcastHash s = true) :
    (∀ e ∈ s.msgs, e.1 = s.cur → e.2.2.bv.getD [] = prev) ∧ (∀ e ∈ s.bc, e.1 = s.cur → e.2.2.bv.getD [] = prev) := by
  unfold checkBroadcastHash at hc
  rw [hp] at hc
  simp only [Bool.and_eq_true, List.all_eq_true, Bool.or_eq_true, bne_iff_ne, ne_eq, beq_iff_eq] at hc
  constructor
  · intro e he hr
    rcases hc.1 e he with h | h
    · exact absurd hr h
    · exact h
  · intro e he hr
    rcases hc.2 e he with h | h
    · exact absurd hr h
    · exact h

/-- a round is left through the protocol's Finalize only after the echo check passed -/
theorem finalizeStep_more_checked (H : Bytes → Bytes) (s s' : State) (h : finalizeStep H s = .more s') :
    checkBroadcastHash (fillBh H s) = true := by
  unfold finalizeStep at h
  simp only at h
  split at h
  · simp at h
  · split at h
    · simp at h
    · next hc => simpa using hc

/-! ### the stored echo hashes are the hashes of the stored views, in every reachable state -/

def BhOk (H : Bytes → Bytes) (s : State) : Prop :=
  ∀ r h, bhLookup s.bh r = some h → echoHash H s.sc s.bc r = some h

theorem lookup_append_of_some (q : List (Nat × Bytes × Msg)) (x : Nat × Bytes × Msg) (r : Nat) (id : Bytes)
    (h : (lookup q r id).isSome = true) : lookup (q ++ [x]) r id = lookup q r id := by
  unfold lookup at *
  rw [List.find?_append]
  cases hf : q.find? (fun e => e.1 == r && e.2.1 == id) with
  | none => simp [hf] at h
  | some e => simp

theorem lookup_store_bc (s : State) (m : Msg) (r : Nat) (id : Bytes) (h : (lookup s.bc r id).isSome = true) :
    lookup (store s m).bc r id = lookup s.bc r id := by
  unfold store
  split
  · rfl
  · split
    · split
      · rfl
      · exact lookup_append_of_some _ _ _ _ h
    · split <;> rfl

theorem store_sc (s : State) (m : Msg) : (store s m).sc = s.sc := (store_sameLife s m).2.2.2.1.symm
theorem store_bh (s : State) (m : Msg) : (store s m).bh = s.bh := by
  unfold store
  split
  · rfl
  · split <;> split <;> rfl

theorem echoHash_congr (H : Bytes → Bytes) (sc : Script) (bc bc' : List (Nat × Bytes × Msg)) (r : Nat) (h : Bytes)
    (e : echoHash H sc bc r = some h) (hl : ∀ id ∈ sc.ids, lookup bc' r id = lookup bc r id) :
    echoHash H sc bc' r = some h := by
  have : (sc.ids.map fun id => lookup bc' r id) = (sc.ids.map fun id => lookup bc r id) :=
    List.map_congr_left hl
  unfold echoHash at *
  simp only [this]
  exact e

theorem store_bhOk (H : Bytes → Bytes) (s : State) (m : Msg) (o : BhOk H s) : BhOk H (store s m) := by
  intro r h hr
  rw [store_bh] at hr
  have e := o r h hr
  rw [store_sc]
  apply echoHash_congr H s.sc s.bc _ r h e
  intro id hid
  exact lookup_store_bc s m r id ((echoHash_some H s.sc s.bc r h e).1 id hid)

theorem bhLookup_append (bh : List (Nat × Bytes)) (n : Nat) (x : Bytes) (r : Nat) :
    bhLookup (bh ++ [(n, x)]) r = (bhLookup bh r).or (if n == r then some x else none) := by
  unfold bhLookup
  rw [List.find?_append]
  cases bh.find? (fun e => e.1 == r) with
  | some e => simp
  | none =>
    simp only [Option.none_or, Option.map_none]
    by_cases hn : (n == r) = true <;> simp [List.find?, hn]

theorem fillBh_bhOk (H : Bytes → Bytes) (s : State) (o : BhOk H s) : BhOk H (fillBh H s) := by
  unfold fillBh
  split
  · split
    · next h he =>
      split
      · next hnone =>
        intro r x hr
        simp only at hr ⊢
        rw [bhLookup_append] at hr
        cases hb : bhLookup s.bh r with
        | some y =>
          rw [hb] at hr
          simp only [Option.some_or, Option.some.injEq] at hr
          subst hr
          exact o r y hb
        | none =>
          rw [hb] at hr
          simp only [Option.none_or] at hr
          split at hr
          · next hcr =>
            simp only [Option.some.injEq] at hr
            subst hr
            have : s.cur = r := by simpa using hcr
            subst this
            exact he
          · simp at hr
      · exact o
    · exact o
  · exact o

theorem foldStore_bhOk (H : Bytes → Bytes) (ems : List Msg) (s : State) (o : BhOk H s) :
    BhOk H (ems.foldl (fun st m => if m.bcast then store st m else st) s) := by
  induction ems generalizing s with
  | nil => exact o
  | cons m ms ih =>
    rw [List.foldl_cons]
    split
    · exact ih _ (store_bhOk H s m o)
    · exact ih _ o

theorem bhOk_preserved (H : Bytes → Bytes) : Preserved H (BhOk H) where
  onCore := fun h o => by
    intro r x hr
    rw [← h.2.2.2.2.2.2.1] at hr
    rw [← h.1, ← h.2.2.2.2.2.1]
    exact o r x hr
  onStore := store_bhOk H
  onFill := fillBh_bhOk H
  onAbort := fun s e o => by cases e <;> exact o
  onSend := fun s nx o => by
    unfold sendAll
    exact foldStore_bhOk H _ s o
  onEnter := fun _ _ _ _ _ o => o
  onEnter0 := fun _ o => o
  onOutput := fun _ _ o => o

theorem run_bhOk (H : Bytes → Bytes) (sc : Script) (calls : List Call) : BhOk H (run H sc calls) := by
  apply run_pres (bhOk_preserved H)
  unfold init
  apply finalize_pres (bhOk_preserved H)
  intro r h hr
  simp [bhLookup, state0] at hr

/-! ### every message a handler emits is stamped with its own echo hash of the preceding round number -/

def OutBv (s : State) : Prop :=
  ∀ m ∈ s.out, ∀ x, m.bv = some x → bhLookup s.bh (m.rnd - 1) = some x

theorem bhLookup_mono_fill (H : Bytes → Bytes) (s : State) (r : Nat) (x : Bytes) (h : bhLookup s.bh r = some x) :
    bhLookup (fillBh H s).bh r = some x := by
  unfold fillBh
  split
  · split
    · split
      · simp only
        rw [bhLookup_append, h]; rfl
      · exact h
    · exact h
  · exact h

theorem foldStore_bh (ems : List Msg) (s : State) :
    (ems.foldl (fun st m => if m.bcast then store st m else st) s).bh = s.bh := by
  induction ems generalizing s with
  | nil => rfl
  | cons m ms ih =>
    rw [List.foldl_cons]
    split
    · rw [ih, store_bh]
    · exact ih _

theorem outBv_preserved (H : Bytes → Bytes) : Preserved H OutBv where
  onCore := fun h o => by
    intro m hm x hx
    rw [← h.2.2.2.2.2.2.2.2.2.1] at hm
    rw [← h.2.2.2.2.2.2.1]
    exact o m hm x hx
  onStore := fun s m o => by
    intro m' hm x hx
    rw [store_bh]
    rw [← (store_sameLife s m).2.2.2.2] at hm
    exact o m' hm x hx
  onFill := fun s o => by
    intro m hm x hx
    rw [← (fillBh_sameLife H s).2.2.2.2] at hm
    exact bhLookup_mono_fill H s _ x (o m hm x hx)
  onAbort := fun s e o => by
    cases e with
    | none => exact o
    | some k =>
      intro m hm x hx
      simp only [abort, List.mem_append, List.mem_singleton] at hm
      rcases hm with hm | rfl
      · exact o m hm x hx
      · simp at hx
  onSend := fun s nx o => by
    intro m hm x hx
    have f := sendAll_frame s (emitFor s nx)
    rw [f.2.2.2.2] at hm
    have hb : (sendAll s (emitFor s nx)).bh = s.bh := by unfold sendAll; exact foldStore_bh _ _
    rw [hb]
    rcases List.mem_append.mp hm with hm | hm
    · exact o m hm x hx
    · simp only [emitFor, List.mem_append] at hm
      rcases hm with hm | hm
      · split at hm
        · simp only [List.mem_singleton] at hm; subst hm; exact hx
        · simp at hm
      · split at hm
        · simp only [List.mem_map] at hm
          obtain ⟨id, _, rfl⟩ := hm
          exact hx
        · simp at hm
  onEnter := fun _ _ _ _ _ o => o
  onEnter0 := fun _ o => o
  onOutput := fun _ _ o => o

theorem run_outBv (H : Bytes → Bytes) (sc : Script) (calls : List Call) : OutBv (run H sc calls) := by
  apply run_pres (outBv_preserved H)
  unfold init
  apply finalize_pres (outBv_preserved H)
  intro m hm
  simp [state0] at hm

theorem reach_bhOk (H : Bytes → Bytes) (sc : Script) (s : State) (r : Reach H sc s) : BhOk H s :=
  reach_pres (bhOk_preserved H) sc (by intro r h hr; simp [bhLookup, state0] at hr) s r

theorem reach_outBv (H : Bytes → Bytes) (sc : Script) (s : State) (r : Reach H sc s) : OutBv s :=
  reach_pres (outBv_preserved H) sc (by intro m hm; simp [state0] at hm) s r

theorem reach_sc (H : Bytes → Bytes) (sc : Script) (s : State) (r : Reach H sc s) : s.sc = sc :=
  reach_pres (sc_preserved H sc) sc rfl s r

end Mps.Handler
