import Mps.OT.Bits
import MpsProofs.Frame
/-
  Bit-level lemmas of the OT model (core-only): the byte-level `bitAt` is `testBit` on the
  little-endian value, the transposition really transposes, the bit order of a marshalled scalar.
-/
namespace Mps.OT
open Mps

theorem testBit_bool_toNat (b : Bool) (i : Nat) : (b.toNat).testBit i = (b && decide (i = 0)) := by
  cases b <;> cases i <;> simp [Nat.testBit_succ]

/-! ### `leNat` -/

theorem leNat_cons (b : UInt8) (bs : Bytes) : leNat (b :: bs) = 2 ^ 8 * leNat bs + b.toNat := by
  have : (2:Nat) ^ 8 = 256 := by decide
  rw [this]
  show b.toNat + 256 * leNat bs = _
  omega

theorem leNat_lt (bs : Bytes) : leNat bs < 2 ^ (8 * bs.length) := by
  induction bs with
  | nil => show 0 < _; exact Nat.two_pow_pos _
  | cons b bs ih =>
    have hb : b.toNat < 256 := b.toNat_lt
    have e : 2 ^ (8 * (b :: bs).length) = 256 * 2 ^ (8 * bs.length) := by
      rw [List.length_cons, Nat.mul_succ, Nat.pow_add, Nat.mul_comm]
    rw [e]
    show b.toNat + 256 * leNat bs < _
    omega

/-- bit `8·i + j` of the little-endian value is bit `j` of byte `i` -/
theorem leNat_testBit (bs : Bytes) (i j : Nat) (hj : j < 8) :
    (leNat bs).testBit (8 * i + j) = (bs.getD i 0).toNat.testBit j := by
  induction bs generalizing i with
  | nil => simp [leNat]
  | cons b bs ih =>
    rw [leNat_cons, Nat.testBit_two_pow_mul_add _ (by simpa using b.toNat_lt)]
    cases i with
    | zero => simp [hj]
    | succ i =>
      have h1 : ¬ (8 * (i + 1) + j < 8) := by omega
      have h2 : 8 * (i + 1) + j - 8 = 8 * i + j := by omega
      simp only [h1, if_false, h2, ih]
      simp

/-- bits.go `bitAt` is `testBit` of the little-endian value -/
theorem bitAtBytes_eq (i : Nat) (data : Bytes) :
    bitAtBytes i data = if (leNat data).testBit i then 1 else 0 := by
  have hi : i = 8 * (i / 8) + i % 8 := by omega
  have hm : i % 8 < 8 := Nat.mod_lt _ (by decide)
  rw [hi, leNat_testBit _ _ _ hm, ← hi]
  unfold bitAtBytes
  have h3 : i >>> 3 = i / 8 := by rw [Nat.shiftRight_eq_div_pow]
  have h7 : i &&& 7 = i % 8 := Nat.and_two_pow_sub_one_eq_mod i 3
  rw [h3, h7]
  apply UInt8.toNat_inj.mp
  rw [UInt8.toNat_and, UInt8.toNat_shiftRight, UInt8.toNat_ofNat']
  have hmm : i % 8 % 2 ^ 8 % 8 = i % 8 := by omega
  rw [hmm]
  have h1 : (1 : UInt8).toNat = 2 ^ 1 - 1 := by decide
  rw [h1, Nat.and_two_pow_sub_one_eq_mod, Nat.shiftRight_eq_div_pow, ← Nat.toNat_testBit]
  cases ((data.getD (i / 8) 0).toNat.testBit (i % 8)) <;> simp

/-! ### `transposeBits` -/

theorem transposeRow_fold (M : List Nat) (i n j : Nat) :
    ((List.range n).foldl (fun row j => row ||| (((M.getD j 0).testBit i).toNat <<< j)) 0).testBit j
      = (decide (j < n) && (M.getD j 0).testBit i) := by
  induction n with
  | zero => simp
  | succ n ih =>
    rw [List.range_succ, List.foldl_append]
    simp only [List.foldl_cons, List.foldl_nil, Nat.testBit_or]
    rw [ih]
    simp only [Nat.testBit_shiftLeft, testBit_bool_toNat]
    by_cases h1 : j < n
    · have : ¬ (j ≥ n) := by omega
      simp [h1, this, Nat.lt_succ_of_lt h1]
    · by_cases h2 : j = n
      · subst h2; simp
      · have h3 : ¬ (j < n + 1) := by omega
        have h4 : j - n ≠ 0 := by omega
        simp [h1, h3, h4]

/-- **transpose_spec**: bit `j` of row `i` of the transposed matrix is bit `i` of column `j`
    (for `j < OTParam`; the rows have no other bits) -/
theorem transposeRow_testBit (M : List Nat) (i j : Nat) :
    (transposeRow M i).testBit j = (decide (j < otParam) && (M.getD j 0).testBit i) :=
  transposeRow_fold M i otParam j

theorem transposeRow_lt (M : List Nat) (i : Nat) : transposeRow M i < 2 ^ otParam := by
  apply Nat.lt_pow_two_of_testBit
  intro j hj
  rw [transposeRow_testBit]
  have : ¬ (j < otParam) := by omega
  simp [this]

theorem getD_map_range {α : Type} (f : Nat → α) (n i : Nat) (d : α) (h : i < n) :
    ((List.range n).map f).getD i d = f i := by
  simp [List.getD_eq_getElem?_getD, h]

theorem getD_map_range_ge {α : Type} (f : Nat → α) (n i : Nat) (d : α) (h : n ≤ i) :
    ((List.range n).map f).getD i d = d := by
  simp [List.getD_eq_getElem?_getD, h]

theorem transposeBits_length (l : Nat) (M : List Nat) : (transposeBits l M).length = l := by
  simp [transposeBits]

theorem transposeBits_getD (l : Nat) (M : List Nat) (i : Nat) (h : i < l) :
    (transposeBits l M).getD i 0 = transposeRow M i := getD_map_range _ _ _ _ h

theorem transpose_spec (l : Nat) (M : List Nat) (i j : Nat) (hi : i < l) (hj : j < otParam) :
    bitAt j ((transposeBits l M).getD i 0) = bitAt i (M.getD j 0) := by
  rw [transposeBits_getD l M i hi]
  simp [bitAt, transposeRow_testBit, hj]

/-! ### bit order of a marshalled scalar -/

theorem getD_append_single_lt (bs : Bytes) (b : UInt8) (i : Nat) (h : i < bs.length) :
    (bs ++ [b]).getD i 0 = bs.getD i 0 := by
  simp [List.getD_eq_getElem?_getD, List.getElem?_append_left h]

theorem beN_getD (k v i : Nat) (h : i < k) :
    ((beN k v).getD i 0).toNat = v / 2 ^ (8 * (k - 1 - i)) % 2 ^ 8 := by
  induction k generalizing v with
  | zero => omega
  | succ k ih =>
    simp only [beN]
    by_cases hk : i < k
    · rw [getD_append_single_lt _ _ _ (by rw [beN_length]; exact hk), ih _ hk]
      have e : 8 * (k + 1 - 1 - i) = 8 + 8 * (k - 1 - i) := by omega
      rw [e, Nat.pow_add, ← Nat.div_div_eq_div_mul]
    · have e : i = k := by omega
      subst e
      have hl : (beN i (v / 256)).length = i := beN_length _ _
      simp [List.getD_eq_getElem?_getD, hl, UInt8.toNat_ofNat']

/-- reading a 32-byte big-endian scalar with `bitAt`: index `8·i + j` is bit `8·(31−i) + j` -/
theorem scalarBits_testBit (v i j : Nat) (hi : i < 32) (hj : j < 8) :
    (leNat (beN 32 v)).testBit (8 * i + j) = v.testBit (8 * (31 - i) + j) := by
  rw [leNat_testBit _ _ _ hj, beN_getD 32 v i hi, Nat.testBit_mod_two_pow, Nat.testBit_div_two_pow]
  simp [hj, Nat.add_comm]

theorem scalarBits_lt (v : Nat) : leNat (beN 32 v) < 2 ^ 256 := by
  have := leNat_lt (beN 32 v)
  rwa [beN_length] at this

end Mps.OT
