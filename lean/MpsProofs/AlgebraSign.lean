import MpsProofs.AlgebraSharing
/-
  M2 lemmas, part 3: signing algebra (FROST response/assembly, CMP δ/χ/σ with an abstract MtA, ECDSA
  equation, Doerner 2-party multiplication algebra).
-/
set_option linter.unusedSectionVars false
namespace Mps.Alg

section
variable {F G : Type} [Field F] [AddCommGroup G] [Module F G] (g : G) {ι : Type} [DecidableEq ι]

theorem foldl_pair_add (l : List (F × F)) (acc : F) :
    List.foldl (fun acc ab => acc + ab.1 + ab.2) acc l = acc + (l.map fun ab => ab.1 + ab.2).sum := by
  induction l generalizing acc with
  | nil => simp
  | cons c l ih =>
    simp only [List.foldl_cons, List.map_cons, List.sum_cons]
    rw [ih]; ring

theorem cmpMtaShare_lawful (a k : F) (l : List (F × F)) :
    cmpMtaShare (lawful g : Ops F G) a k l = a * k + (l.map fun ab => ab.1 + ab.2).sum := by
  unfold cmpMtaShare
  exact foldl_pair_add l (a * k)

theorem othersOf_toFinset (l : List ι) (i : ι) : (othersOf l i).toFinset = l.toFinset.erase i := by
  ext j
  simp [othersOf, and_comm]

theorem othersOf_nodup (l : List ι) (hl : l.Nodup) (i : ι) : (othersOf l i).Nodup := hl.filter _

theorem cmpShareOf_lawful (l : List ι) (hl : l.Nodup) (a k : ι → F) (α β : ι → ι → F) (i : ι) :
    cmpShareOf (lawful g : Ops F G) l a k α β i = a i * k i + ∑ j ∈ l.toFinset.erase i, (α i j + β i j) := by
  unfold cmpShareOf
  rw [cmpMtaShare_lawful, List.map_map, list_sum_map_eq _ (othersOf_nodup l hl i), othersOf_toFinset]
  rfl

/-- **the MtA bookkeeping**: with `α i j + β j i = a j · k i` for all ordered pairs of different
    signers, the additive shares `a i·k i + Σ_{j≠i}(α i j + β i j)` sum to (Σ a)(Σ k). -/
theorem cmp_shares_sum (l : List ι) (hl : l.Nodup) (a k : ι → F) (α β : ι → ι → F)
    (hmta : ∀ i ∈ l, ∀ j ∈ l, i ≠ j → α i j + β j i = a j * k i) :
    (l.map fun i => cmpShareOf (lawful g : Ops F G) l a k α β i).sum = (l.map k).sum * (l.map a).sum := by
  simp only [cmpShareOf_lawful g l hl]
  rw [list_sum_map_eq l hl, list_sum_map_eq l hl, list_sum_map_eq l hl]
  set s := l.toFinset
  have hswap : ∑ i ∈ s, ∑ j ∈ s.erase i, β i j = ∑ i ∈ s, ∑ j ∈ s.erase i, β j i := by
    rw [Finset.sum_comm' (s' := fun j => s.erase j) (t' := s)]
    intro i j
    simp only [Finset.mem_erase]
    constructor
    · rintro ⟨hi, hne, hj⟩; exact ⟨⟨hne.symm, hi⟩, hj⟩
    · rintro ⟨⟨hne, hi⟩, hj⟩; exact ⟨hi, hne.symm, hj⟩
  have h1 : ∑ i ∈ s, (a i * k i + ∑ j ∈ s.erase i, (α i j + β i j)) =
      ∑ i ∈ s, (a i * k i + ∑ j ∈ s.erase i, (α i j + β j i)) := by
    simp only [Finset.sum_add_distrib]
    rw [hswap]
  rw [h1, Finset.sum_mul_sum]
  refine Finset.sum_congr rfl fun i hi => ?_
  rw [← Finset.add_sum_erase s (fun j => k i * a j) hi]
  congr 1
  · ring
  · refine Finset.sum_congr rfl fun j hj => ?_
    have hj' := Finset.mem_erase.mp hj
    rw [hmta i (List.mem_toFinset.mp hi) j (List.mem_toFinset.mp hj'.2) hj'.1.symm]; ring

/-- the ECDSA equation from s = k·(m + r·x): s⁻¹•(m•g + r•(x•g)) = k⁻¹•g -/
theorem ecdsa_core (k m r xsec s : F) (hs : s = k * (m + r * xsec)) (hs0 : s ≠ 0) :
    s⁻¹ • (m • g + r • (xsec • g)) = k⁻¹ • g := by
  have hk : k ≠ 0 := by rintro rfl; simp at hs; exact hs0 hs
  have hm : m + r * xsec ≠ 0 := by intro h; rw [h, mul_zero] at hs; exact hs0 hs
  rw [← mul_smul, ← add_smul, ← mul_smul, hs]
  congr 1
  field_simp

end
end Mps.Alg
