import Mps.Sig
import Mathlib.Algebra.Module.Basic
import Mathlib.Algebra.Field.Basic
import Mathlib.Tactic.FieldSimp
import Mathlib.Tactic.Ring
import Mathlib.Tactic.Abel
/-
  Lemmas for C16: the signature algorithms of `Mps/Sig.lean` over a LAWFUL record of operations —
  scalars a field `F`, points an `F`-module `G` (every prime-order group is one), an arbitrary
  generator, an arbitrary "x coordinate as a scalar" map and an arbitrary parity predicate with
  the stated laws. The same definitions are executed on secp256k1 by the driver.
-/
namespace Mps.Sig

section laws
variable {F G : Type} [Field F] [AddCommGroup G] [Module F G]

/-- the lawful instance of `Ops` -/
@[reducible] def lawful (gen : G) (xs : G → F) (evenY : G → Bool) : Ops F G where
  fzero := 0
  fadd := (· + ·)
  fneg := Neg.neg
  fmul := (· * ·)
  finv := Inv.inv
  gzero := 0
  gadd := (· + ·)
  gneg := Neg.neg
  smul := (· • ·)
  gen := gen
  xs := xs
  evenY := evenY

theorem smul_ne_zero_of {a : F} {g : G} (ha : a ≠ 0) (hg : g ≠ 0) : a • g ≠ 0 := by
  intro h
  apply hg
  have := inv_smul_smul₀ ha g
  rw [h, smul_zero] at this
  exact this.symm

variable [DecidableEq F] [DecidableEq G] (gen : G) (xs : G → F) (evenY : G → Bool)

/-- unfolding of the specification over the lawful instance -/
theorem spec_iff (X : G) (m : F) (R : G) (s : F) :
    ecdsaVerifySpecO (lawful gen xs evenY) X m R s = true ↔
      xs R ≠ 0 ∧ s ≠ 0 ∧ s⁻¹ • (m • gen + xs R • X) = R := by
  simp [ecdsaVerifySpecO, lawful, and_assoc]

/-- the core equation, multiplied out: s⁻¹(m·G + r·X) = R ⇔ m·G + r·X = s·R (s ≠ 0) -/
theorem eqn_iff (X : G) (m r : F) (R : G) (s : F) (hs : s ≠ 0) :
    s⁻¹ • (m • gen + r • X) = R ↔ m • gen + r • X = s • R := by
  constructor
  · intro h; rw [← h, smul_inv_smul₀ hs]
  · intro h; rw [h, inv_smul_smul₀ hs]

theorem sign_verify (x k m : F) (hk : k ≠ 0)
    (hr : xs (k • gen) ≠ 0) (hs : k⁻¹ * (m + xs (k • gen) * x) ≠ 0) :
    ecdsaVerifySpecO (lawful gen xs evenY) (x • gen) m (ecdsaSignO (lawful gen xs evenY) x k m).1
      (ecdsaSignO (lawful gen xs evenY) x k m).2 = true := by
  have e1 : (ecdsaSignO (lawful gen xs evenY) x k m).1 = k • gen := rfl
  have e2 : (ecdsaSignO (lawful gen xs evenY) x k m).2 = k⁻¹ * (m + xs (k • gen) * x) := rfl
  rw [e1, e2, spec_iff]
  refine ⟨hr, hs, ?_⟩
  rw [eqn_iff gen _ _ _ _ _ hs, smul_smul, ← add_smul, smul_smul]
  congr 1
  field_simp

theorem neg_pair (hx : ∀ P, xs (-P) = xs P) (X : G) (m : F) (R : G) (s : F) :
    ecdsaVerifySpecO (lawful gen xs evenY) X m (-R) (-s) = ecdsaVerifySpecO (lawful gen xs evenY) X m R s := by
  rw [Bool.eq_iff_iff, spec_iff, spec_iff, hx]
  constructor
  · rintro ⟨h1, h2, h3⟩
    have hs : s ≠ 0 := by simpa using h2
    refine ⟨h1, hs, ?_⟩
    rw [eqn_iff gen _ _ _ _ _ h2] at h3
    rw [eqn_iff gen _ _ _ _ _ hs, h3]
    simp
  · rintro ⟨h1, h2, h3⟩
    have hs : -s ≠ 0 := by simpa using h2
    refine ⟨h1, hs, ?_⟩
    rw [eqn_iff gen _ _ _ _ _ h2] at h3
    rw [eqn_iff gen _ _ _ _ _ hs, h3]
    simp

theorem recover_of_valid (X : G) (m : F) (R : G) (s : F)
    (h : ecdsaVerifySpecO (lawful gen xs evenY) X m R s = true) :
    recoverO (lawful gen xs evenY) m R s = X := by
  rw [spec_iff] at h
  obtain ⟨hr, hs, he⟩ := h
  rw [eqn_iff gen _ _ _ _ _ hs] at he
  show (xs R)⁻¹ • (s • R + -(m • gen)) = X
  rw [← he]
  simp [inv_smul_smul₀ hr]

theorem valid_of_recover (X : G) (m : F) (R : G) (s : F) (hr : xs R ≠ 0) (hs : s ≠ 0)
    (h : recoverO (lawful gen xs evenY) m R s = X) :
    ecdsaVerifySpecO (lawful gen xs evenY) X m R s = true := by
  rw [spec_iff]
  refine ⟨hr, hs, ?_⟩
  rw [eqn_iff gen _ _ _ _ _ hs, ← h]
  show m • gen + xs R • ((xs R)⁻¹ • (s • R + -(m • gen))) = s • R
  rw [smul_inv_smul₀ hr]
  abel

/-- (R, s) format accepted ⇒ textbook (r, s) accepted with r = x(R) -/
theorem rs_of_valid (hx0 : xs 0 = 0) (X : G) (m : F) (R : G) (s : F)
    (h : ecdsaVerifySpecO (lawful gen xs evenY) X m R s = true) :
    ecdsaVerifyRSO (lawful gen xs evenY) X m (xs R) s = true := by
  rw [spec_iff] at h
  obtain ⟨hr, hs, he⟩ := h
  have hP : (m * s⁻¹) • gen + (xs R * s⁻¹) • X = R := by
    conv_rhs => rw [← he]
    rw [smul_add, smul_smul, smul_smul, mul_comm s⁻¹ m, mul_comm s⁻¹ (xs R)]
  have hR : R ≠ 0 := by
    intro h0; apply hr; rw [h0, hx0]
  simp only [ecdsaVerifyRSO, lawful, ne_eq, Bool.and_eq_true, decide_eq_true_eq]
  rw [hP]
  exact ⟨⟨⟨hr, hs⟩, hR⟩, rfl⟩

/-- textbook (r, s) accepted ⇒ the (R, s) format accepts with R the recomputed point -/
theorem valid_of_rs (X : G) (m r s : F)
    (h : ecdsaVerifyRSO (lawful gen xs evenY) X m r s = true) :
    ∃ R, xs R = r ∧ ecdsaVerifySpecO (lawful gen xs evenY) X m R s = true := by
  simp only [ecdsaVerifyRSO, lawful, ne_eq, Bool.and_eq_true, decide_eq_true_eq] at h
  obtain ⟨⟨⟨hr, hs⟩, _⟩, hx⟩ := h
  refine ⟨(m * s⁻¹) • gen + (r * s⁻¹) • X, hx, ?_⟩
  rw [spec_iff, hx]
  refine ⟨hr, hs, ?_⟩
  rw [smul_add, smul_smul, smul_smul, mul_comm m, mul_comm r]

/-! ### BIP-340 -/

variable {X M : Type} [DecidableEq X]

theorem schnorr_sign_verify (xc : G → X) (lift : X → Option G) (chal : X → X → M → F)
    (hgen : gen ≠ 0)
    (hpar : ∀ P : G, P ≠ 0 → evenY (-P) = !evenY P)
    (hxc : ∀ P : G, xc (-P) = xc P)
    (hlift : ∀ P : G, P ≠ 0 → evenY P = true → lift (xc P) = some P)
    (d' k' : F) (hd : d' ≠ 0) (hk : k' ≠ 0) (m : M) :
    schnorrVerifyO (lawful gen xs evenY) xc lift chal (xc (d' • gen)) m
      (schnorrSignO (lawful gen xs evenY) xc chal d' k' m).1
      (schnorrSignO (lawful gen xs evenY) xc chal d' k' m).2 = true := by
  -- the normalised secret and nonce
  have hP0 : d' • gen ≠ 0 := smul_ne_zero_of hd hgen
  have hR0 : k' • gen ≠ 0 := smul_ne_zero_of hk hgen
  obtain ⟨d, hdP, hdx, hde⟩ : ∃ d : F, (d = if evenY (d' • gen) then d' else -d') ∧
      xc (d • gen) = xc (d' • gen) ∧ (evenY (d • gen) = true ∧ d • gen ≠ 0) := by
    by_cases h : evenY (d' • gen) = true
    · exact ⟨d', by simp [h], rfl, h, hP0⟩
    · refine ⟨-d', by simp [h], by rw [neg_smul, hxc], ?_, ?_⟩
      · rw [neg_smul, hpar _ hP0]; simpa using h
      · rw [neg_smul]; simpa using hP0
  obtain ⟨k, hkR, hkx, hke⟩ : ∃ k : F, (k = if evenY (k' • gen) then k' else -k') ∧
      xc (k • gen) = xc (k' • gen) ∧ (evenY (k • gen) = true ∧ k • gen ≠ 0) := by
    by_cases h : evenY (k' • gen) = true
    · exact ⟨k', by simp [h], rfl, h, hR0⟩
    · refine ⟨-k', by simp [h], by rw [neg_smul, hxc], ?_, ?_⟩
      · rw [neg_smul, hpar _ hR0]; simpa using h
      · rw [neg_smul]; simpa using hR0
  have e1 : (schnorrSignO (lawful gen xs evenY) xc chal d' k' m).1 = xc (k' • gen) := rfl
  have e2 : (schnorrSignO (lawful gen xs evenY) xc chal d' k' m).2 =
      k + chal (xc (k' • gen)) (xc (d' • gen)) m * d := by
    rw [hdP, hkR]; rfl
  rw [e1, e2]
  unfold schnorrVerifyO
  rw [← hdx, hlift _ hde.2 hde.1]
  have hRR : (k + chal (xc (k' • gen)) (xc (d • gen)) m * d) • gen
      + -(chal (xc (k' • gen)) (xc (d • gen)) m • d • gen) = k • gen := by
    rw [add_smul, mul_smul]; abel
  simp [hRR, hke.1, hke.2, hkx]

end laws

/-! ### statements that need no laws at all (any `Ops`) -/

section anyops
variable {F G : Type} [DecidableEq F] [DecidableEq G] (O : Ops F G)

/-- the model of `Signature.Verify` and the specification are the same Boolean function -/
theorem verifyGoO_eq_spec (X : G) (m : F) (R : G) (s : F) :
    verifyGoO O X m R s = ecdsaVerifySpecO O X m R s := by
  unfold verifyGoO ecdsaVerifySpecO
  by_cases h1 : O.xs R = O.fzero <;> by_cases h2 : s = O.fzero <;> simp [h1, h2]

end anyops

end Mps.Sig
