import Mathlib.Algebra.Module.Defs
import Mathlib.Tactic.Abel
import Mps.OT.Random
/-
  random.go: pad agreement and completeness of the challenge / response / decommit exchange,
  for ANY group satisfying the module laws, ANY hash, ANY marshalling with `dec ∘ enc = some`.
-/
namespace Mps.OT

variable {F G : Type} [CommRing F] [AddCommGroup G] [Module F G]

/-- lawful group operations: a module over the scalar ring -/
def lawfulGroup (base : G) (enc : G → Bytes) (dec : Bytes → Option G) : GroupOps F G where
  add := (· + ·)
  sub := (· - ·)
  smul := (· • ·)
  base := base
  enc := enc
  dec := dec

variable (base : G) (enc : G → Bytes) (dec : Bytes → Option G)

theorem xor_mask_cancel (c : Bool) (x y : Nat) :
    (x ^^^ maskBit c (y ^^^ x)) = if c then y else x := by
  cases c
  · simp [maskBit]
  · simp only [maskBit, if_true]
    rw [Nat.xor_comm y x, ← Nat.xor_assoc, Nat.xor_self, Nat.zero_xor]

/-- the sender's first round on a well-formed point -/
theorem rotSendRound1_enc (hdec : ∀ P, dec (enc P) = some P) (H : Bytes → Nat) (s : ROTSendSetup F G) (A : G) :
    rotSendRound1 (lawfulGroup base enc dec) H s (enc A) =
      some (H (blk (H (blk (H (enc (s.b • A - s.bB)))))) ^^^ H (blk (H (blk (H (enc (s.b • A)))))),
        { rand0 := H (enc (s.b • A)), rand1 := H (enc (s.b • A - s.bB)),
          decommit0 := H (blk (H (enc (s.b • A)))), decommit1 := H (blk (H (enc (s.b • A - s.bB)))),
          hDecommit0 := H (blk (H (blk (H (enc (s.b • A)))))) }) := by
  simp [rotSendRound1, lawfulGroup, hdec]

/-- **random_ot_pad_agree**: the pad the receiver derives, H(a·B), is the sender's pad for the
    receiver's choice bit: rand0 = H(b·A) when the receiver sent A = a·G, rand1 = H(b·A − b·B) when
    it sent A = a·G + B. -/
theorem random_ot_pad_agree (hdec : ∀ P, dec (enc P) = some P) (H : Bytes → Nat) (b a : F) (choice : Bool) :
    let Gp : GroupOps F G := lawfulGroup base enc dec
    let s := rotSetupSend Gp b
    let r1 := rotRecvRound1 Gp H s.B choice a
    ∃ ch st, rotSendRound1 Gp H s r1.1 = some (ch, st) ∧
      r1.2 = (if choice then st.rand1 else st.rand0) ∧
      ch = H (blk (H (blk st.rand1))) ^^^ H (blk (H (blk st.rand0))) ∧
      st.hDecommit0 = H (blk (H (blk st.rand0))) ∧
      st.decommit0 = H (blk st.rand0) ∧ st.decommit1 = H (blk st.rand1) := by
  intro Gp s r1
  cases choice
  · -- the receiver sent A = a·G
    have e : r1.1 = enc (a • base) := rfl
    rw [e, rotSendRound1_enc base enc dec hdec]
    refine ⟨_, _, rfl, ?_, rfl, rfl, rfl, rfl⟩
    show H (enc (a • (b • base))) = H (enc (b • (a • base)))
    rw [smul_comm]
  · -- the receiver sent A = a·G + B
    have e : r1.1 = enc (a • base + b • base) := rfl
    rw [e, rotSendRound1_enc base enc dec hdec]
    refine ⟨_, _, rfl, ?_, rfl, rfl, rfl, rfl⟩
    show H (enc (a • (b • base))) = H (enc (b • (a • base + b • base) - b • (b • base)))
    rw [smul_add, add_sub_cancel_right, smul_comm]

theorem rotSendRound2_accept (st : ROTSenderState) :
    rotSendRound2 st st.hDecommit0 = some ((st.decommit0, st.decommit1), (st.rand0, st.rand1)) := by
  simp [rotSendRound2]

theorem rotRecvRound3_accept (H : Bytes → Nat) (choice : Bool) (r0 r1 : Nat) :
    rotRecvRound3 H choice (if choice then r1 else r0)
      (H (blk (H (blk r1))) ^^^ H (blk (H (blk r0))))
      (H (blk (H (blk (if choice then r1 else r0))))) (H (blk r0)) (H (blk r1))
      = some (if choice then r1 else r0) := by
  unfold rotRecvRound3
  simp only
  rw [if_neg (by rw [Nat.xor_comm]; simp)]
  rw [Nat.xor_comm (H (blk (H (blk r0)))) (H (blk (H (blk r1)))), xor_mask_cancel]
  cases choice <;> simp

theorem rotRecvRound2_honest (H : Bytes → Nat) (choice : Bool) (r0 r1 : Nat) :
    rotRecvRound2 H choice (if choice then r1 else r0) (H (blk (H (blk r1))) ^^^ H (blk (H (blk r0))))
      = (H (blk (H (blk r0))), H (blk (H (blk (if choice then r1 else r0))))) := by
  unfold rotRecvRound2
  cases choice
  · simp [maskBit]
  · simp only [maskBit, if_true]
    rw [← Nat.xor_assoc, Nat.xor_self, Nat.zero_xor]

/-- **random_ot_response_complete**: an honest instance never aborts — the sender accepts the
    response, the receiver accepts both decommitments — and ends with agreeing pads. -/
theorem random_ot_response_complete (hdec : ∀ P, dec (enc P) = some P) (H : Bytes → Nat) (b a : F)
    (choice : Bool) :
    let Gp : GroupOps F G := lawfulGroup base enc dec
    ∃ t, rotRun Gp H (rotSetupSend Gp b) choice a = some t ∧
      t.randChoice = (if choice then t.rand1 else t.rand0) := by
  intro Gp
  obtain ⟨ch, st, h1, h2, h3, h4, h5, h6⟩ := random_ot_pad_agree base enc dec hdec H b a choice
  unfold rotRun
  generalize hr1 : rotRecvRound1 Gp H (rotSetupSend Gp b).B choice a = r1 at h1 h2
  obtain ⟨aBytes, rc⟩ := r1
  simp only at h1 h2 ⊢
  rw [h1]
  simp only
  rw [h2, h3, rotRecvRound2_honest]
  simp only
  rw [← h4, rotSendRound2_accept]
  simp only
  rw [h5, h6, h4, rotRecvRound3_accept]
  exact ⟨_, rfl, rfl⟩

/-! ### correlated.go setup: OTParam instances -/

theorem getD_append_left' {α : Type} (l1 l2 : List α) (i : Nat) (d : α) (h : i < l1.length) :
    (l1 ++ l2).getD i d = l1.getD i d := by
  simp [List.getD_eq_getElem?_getD, List.getElem?_append_left h]

theorem getD_append_at {α : Type} (l1 : List α) (a : α) (d : α) (n : Nat) (h : l1.length = n) :
    (l1 ++ [a]).getD n d = a := by
  subst h
  simp [List.getD_eq_getElem?_getD]

theorem correSetupTraces_ok (hdec : ∀ P, dec (enc P) = some P) (Hn : Nat → Bytes → Nat) (zero b : F)
    (delta : Nat) (as : List F) (n : Nat) :
    ∃ ts, correSetupTraces (lawfulGroup base enc dec) Hn zero (rotSetupSend (lawfulGroup base enc dec) b) delta as n
        = some ts ∧ ts.length = n ∧
      ∀ i, i < n → (ts.map (·.randChoice)).getD i 0 =
        if delta.testBit i then (ts.map (·.rand1)).getD i 0 else (ts.map (·.rand0)).getD i 0 := by
  induction n with
  | zero => exact ⟨[], rfl, rfl, fun i hi => absurd hi (Nat.not_lt_zero i)⟩
  | succ n ih =>
    obtain ⟨ts, h1, h2, h3⟩ := ih
    obtain ⟨t, ht1, ht2⟩ := random_ot_response_complete base enc dec hdec (Hn n) b (as.getD n zero) (bitAt n delta)
    refine ⟨ts ++ [t], ?_, by simp [h2], ?_⟩
    · simp only [correSetupTraces, h1, ht1]
    · intro i hi
      simp only [List.map_append, List.map_cons, List.map_nil]
      by_cases hlt : i < n
      · rw [getD_append_left' _ _ _ _ (by simpa [h2] using hlt),
          getD_append_left' _ _ _ _ (by simpa [h2] using hlt),
          getD_append_left' _ _ _ _ (by simpa [h2] using hlt)]
        exact h3 i hlt
      · have e : i = n := by omega
        subst e
        rw [getD_append_at _ _ _ i (by simp [h2]), getD_append_at _ _ _ i (by simp [h2]),
          getD_append_at _ _ _ i (by simp [h2])]
        exact ht2

/-- the honest correlated-OT setup never aborts and establishes `SetupRel`: for every column `i`
    the sender holds `K_Δ[i] = K_{Δ_i}[i]` -/
theorem corre_setup_rel (hdec : ∀ P, dec (enc P) = some P) (Hn : Nat → Bytes → Nat) (zero b : F)
    (delta : Nat) (hd : delta < 2 ^ otParam) (as : List F) :
    ∃ ss rs, correSetup (lawfulGroup base enc dec) Hn zero b delta as = some (ss, rs) ∧ SetupRel ss rs := by
  obtain ⟨ts, h1, _, h3⟩ := correSetupTraces_ok base enc dec hdec Hn zero b delta as otParam
  refine ⟨{ delta := delta, kDelta := ts.map (·.randChoice) },
    { k0 := ts.map (·.rand0), k1 := ts.map (·.rand1) }, ?_, ?_⟩
  · unfold correSetup
    rw [h1]
  · exact ⟨hd, h3⟩

end Mps.OT
