import MpsProofs.PaillierArith
import Mathlib.Data.Nat.Totient
import Mathlib.FieldTheory.Finite.Basic
/-
  Lemmas for M3, part 2: the algebra of Paillier ciphertexts modulo N².

  `PForm N c v` ("c encrypts v"):  c ≡ (N+1)^t · r^N (mod N²) for some t ≡ v (mod N) and some r
  coprime to N.  It is closed under the homomorphic operations exactly as the Go code computes them
  (product, power, modular inverse), every `enc` output satisfies it, and `dec` maps a ciphertext
  of that form to the centred representative of v mod N.
-/
namespace Mps.Paillier
open Nat

/-! ### binomial theorem modulo N² -/

theorem add_mul_pow_succ_modEq (N y t k : ℕ) :
    (y + t * N) ^ (k + 1) ≡ y ^ (k + 1) + (k + 1) * y ^ k * t * N [MOD N * N] := by
  induction k with
  | zero => simpa using Nat.ModEq.refl _
  | succ k ih =>
    have e0 : (y + t * N) ^ (k + 1 + 1) = (y + t * N) ^ (k + 1) * (y + t * N) := pow_succ _ _
    rw [e0]
    refine (Nat.ModEq.mul_right (y + t * N) ih).trans ?_
    have e1 : (y ^ (k + 1) + (k + 1) * y ^ k * t * N) * (y + t * N)
        = (y ^ (k + 1 + 1) + (k + 1 + 1) * y ^ (k + 1) * t * N) + ((k + 1) * y ^ k * t * t) * (N * N) := by
      ring
    rw [e1]
    exact Nat.add_mul_modulus_modEq_iff.mpr (Nat.ModEq.refl _)

/-- `(N+1)^k ≡ 1 + k·N (mod N²)` -/
theorem succ_pow_modEq (N k : ℕ) : (N + 1) ^ k ≡ 1 + k * N [MOD N * N] := by
  cases k with
  | zero => simp; exact Nat.ModEq.refl _
  | succ k =>
    have := add_mul_pow_succ_modEq N 1 1 k
    simpa [Nat.add_comm] using this

/-- `x^N mod N²` only depends on `x mod N` -/
theorem pow_self_modEq_of_modEq (N x y : ℕ) (hN : 0 < N) (h : x ≡ y [MOD N]) :
    x ^ N ≡ y ^ N [MOD N * N] := by
  have key : ∀ z : ℕ, z ^ N ≡ (z % N) ^ N [MOD N * N] := by
    intro z
    obtain ⟨k, rfl⟩ : ∃ k, N = k + 1 := ⟨N - 1, by omega⟩
    have hz : z = z % (k + 1) + z / (k + 1) * (k + 1) := by
      have := Nat.mod_add_div z (k + 1); rw [Nat.mul_comm] at this; exact this.symm
    have := add_mul_pow_succ_modEq (k + 1) (z % (k + 1)) (z / (k + 1)) k
    rw [← hz] at this
    refine this.trans ?_
    have e : (z % (k + 1)) ^ (k + 1) + (k + 1) * (z % (k + 1)) ^ k * (z / (k + 1)) * (k + 1)
        = (z % (k + 1)) ^ (k + 1) + ((z % (k + 1)) ^ k * (z / (k + 1))) * ((k + 1) * (k + 1)) := by ring
    rw [e]
    exact Nat.add_mul_modulus_modEq_iff.mpr (Nat.ModEq.refl _)
  have hxy : x % N = y % N := h
  exact (key x).trans (by rw [hxy]; exact (key y).symm)

theorem pow_self_modEq_one (N x : ℕ) (hN : 0 < N) (h : x ≡ 1 [MOD N]) : x ^ N ≡ 1 [MOD N * N] := by
  simpa using pow_self_modEq_of_modEq N x 1 hN h

/-- `(1 + x·N) mod N² = 1 + (x mod N)·N` -/
theorem one_add_mul_mod (N x : ℕ) (hN : 1 < N) : (1 + x * N) % (N * N) = 1 + (x % N) * N := by
  have hx : x % N < N := Nat.mod_lt _ (by omega)
  have hlt : 1 + (x % N) * N < N * N := by
    have : (x % N + 1) * N ≤ N * N := Nat.mul_le_mul_right N (by omega)
    nlinarith
  have e : 1 + x * N = 1 + (x % N) * N + (x / N) * (N * N) := by
    have := Nat.mod_add_div x N
    calc 1 + x * N = 1 + (x % N + N * (x / N)) * N := by rw [this]
      _ = 1 + (x % N) * N + (x / N) * (N * N) := by ring
  rw [e, Nat.add_mul_mod_self_right, Nat.mod_eq_of_lt hlt]

/-! ### keys -/

/-- the hypotheses on a key: distinct primes with gcd(pq, (p−1)(q−1)) = 1 -/
structure KeyOK (p q : ℕ) : Prop where
  hp : p.Prime
  hq : q.Prime
  hne : p ≠ q
  hco : Nat.Coprime (p * q) ((p - 1) * (q - 1))

namespace KeyOK
variable {p q : ℕ} (k : KeyOK p q)
include k

theorem coprime_pq : Nat.Coprime p q := (Nat.coprime_primes k.hp k.hq).mpr k.hne

theorem one_lt_N : 1 < p * q := by
  have := k.hp.two_le; have := k.hq.two_le; nlinarith

theorem totient_N : φ (p * q) = (p - 1) * (q - 1) := by
  rw [Nat.totient_mul k.coprime_pq, Nat.totient_prime k.hp, Nat.totient_prime k.hq]

theorem odd_N : (p * q) % 2 = 1 := by
  -- an even N would share the factor 2 with (p-1)(q-1): one of p, q is 2, the other one is odd
  have hco := k.hco
  by_contra h
  have h2 : 2 ∣ p * q := by omega
  have h2' : 2 ∣ (p - 1) * (q - 1) := by
    rcases (Nat.Prime.dvd_mul Nat.prime_two).mp h2 with h | h
    · have hp2 : p = 2 := ((Nat.prime_dvd_prime_iff_eq Nat.prime_two k.hp).mp h).symm
      have hq2 : q ≠ 2 := fun e => k.hne (hp2.trans e.symm)
      have : q % 2 = 1 := (k.hq.eq_two_or_odd).resolve_left hq2
      exact Dvd.dvd.mul_left (by omega) _
    · have hq2 : q = 2 := ((Nat.prime_dvd_prime_iff_eq Nat.prime_two k.hq).mp h).symm
      have hp2 : p ≠ 2 := fun e => k.hne (e.trans hq2.symm)
      have : p % 2 = 1 := (k.hp.eq_two_or_odd).resolve_left hp2
      exact Dvd.dvd.mul_right (by omega) _
  have := Nat.eq_one_of_dvd_coprimes hco h2 h2'
  omega

theorem coprime_sq : Nat.Coprime (p * p) (q * q) :=
  Nat.Coprime.mul_left (Nat.Coprime.mul_right k.coprime_pq k.coprime_pq)
    (Nat.Coprime.mul_right k.coprime_pq k.coprime_pq)

end KeyOK

/-! ### the model's key and its exponentiations, in closed form -/

section closed
variable (p q : ℕ)

@[simp] theorem sk_N : (SecretKey.ofPrimes p q).pk.N = p * q := rfl
theorem sk_N2 : (SecretKey.ofPrimes p q).pk.N2 = (p * q) * (p * q) := by
  show p * p * (q * q) = _; ring
@[simp] theorem sk_phi : (SecretKey.ofPrimes p q).phi = (p - 1) * (q - 1) := rfl
@[simp] theorem sk_phiInv : (SecretKey.ofPrimes p q).phiInv = modInv ((p - 1) * (q - 1)) (p * q) := rfl
@[simp] theorem pkN_N (N : ℕ) : (PublicKey.ofN N).N = N := rfl
@[simp] theorem pkN_N2 (N : ℕ) : (PublicKey.ofN N).N2 = N * N := rfl

theorem sk_exp2 (k : KeyOK p q) (x e : ℕ) :
    (SecretKey.ofPrimes p q).pk.n2.exp x e = x ^ e % ((p * q) * (p * q)) := by
  have h0 : 0 < p := k.hp.pos
  have h1 : 0 < q := k.hq.pos
  show (Modulus.ofFactors (p * p) (q * q)).exp x e = _
  rw [crtExp_eq _ _ _ _ (Nat.mul_pos h0 h0) (Nat.mul_pos h1 h1) k.coprime_sq]
  congr 1; ring

theorem sk_exp1 (k : KeyOK p q) (x e : ℕ) :
    (SecretKey.ofPrimes p q).pk.n.exp x e = x ^ e % (p * q) := by
  show (Modulus.ofFactors p q).exp x e = _
  exact crtExp_eq _ _ _ _ k.hp.pos k.hq.pos k.coprime_pq

theorem pkN_exp2 (N x e : ℕ) : (PublicKey.ofN N).n2.exp x e = x ^ e % (N * N) := plainExp_eq _ _ _

end closed

/-! ### ciphertext form -/

/-- `c` encrypts `v` under `N`: `c ≡ (N+1)^t · r^N (mod N²)` with `t ≡ v (mod N)`, `gcd(r, N) = 1`. -/
def PForm (N c : ℕ) (v : ℤ) : Prop :=
  ∃ t r : ℕ, Nat.Coprime r N ∧ (t : ℤ) ≡ v [ZMOD (N : ℤ)] ∧ c ≡ (N + 1) ^ t * r ^ N [MOD N * N]

namespace PForm
variable {N : ℕ}

theorem congr {c c' : ℕ} {v : ℤ} (h : c ≡ c' [MOD N * N]) (hc : PForm N c v) : PForm N c' v := by
  obtain ⟨t, r, h1, h2, h3⟩ := hc
  exact ⟨t, r, h1, h2, h.symm.trans h3⟩

theorem congr_val {c : ℕ} {v v' : ℤ} (h : v ≡ v' [ZMOD (N : ℤ)]) (hc : PForm N c v) : PForm N c v' := by
  obtain ⟨t, r, h1, h2, h3⟩ := hc
  exact ⟨t, r, h1, h2.trans h, h3⟩

theorem mod {c : ℕ} {v : ℤ} (hc : PForm N c v) : PForm N (c % (N * N)) v :=
  hc.congr (Nat.mod_modEq _ _).symm

/-- the plaintext-part: `(N+1)^t` encrypts `t` -/
theorem base (N t : ℕ) : PForm N ((N + 1) ^ t) t :=
  ⟨t, 1, Nat.coprime_one_left _, Int.ModEq.refl _, by simp; exact Nat.ModEq.refl _⟩

/-- the randomiser: `r^N` encrypts `0` -/
theorem rand (N r : ℕ) (hr : Nat.Coprime r N) : PForm N (r ^ N) 0 :=
  ⟨0, r, hr, Int.ModEq.refl _, by simp; exact Nat.ModEq.refl _⟩

theorem mul {c₁ c₂ : ℕ} {v₁ v₂ : ℤ} (h₁ : PForm N c₁ v₁) (h₂ : PForm N c₂ v₂) :
    PForm N (c₁ * c₂) (v₁ + v₂) := by
  obtain ⟨t₁, r₁, a1, a2, a3⟩ := h₁
  obtain ⟨t₂, r₂, b1, b2, b3⟩ := h₂
  refine ⟨t₁ + t₂, r₁ * r₂, Nat.Coprime.mul_left a1 b1, ?_, ?_⟩
  · push_cast; exact Int.ModEq.add a2 b2
  · have := Nat.ModEq.mul a3 b3
    refine this.trans ?_
    have : (N + 1) ^ t₁ * r₁ ^ N * ((N + 1) ^ t₂ * r₂ ^ N) = (N + 1) ^ (t₁ + t₂) * (r₁ * r₂) ^ N := by ring
    rw [this]

theorem pow {c : ℕ} {v : ℤ} (h : PForm N c v) (k : ℕ) : PForm N (c ^ k) (v * k) := by
  obtain ⟨t, r, a1, a2, a3⟩ := h
  refine ⟨t * k, r ^ k, Nat.Coprime.pow_left k a1, ?_, ?_⟩
  · push_cast; exact Int.ModEq.mul_right _ a2
  · refine (Nat.ModEq.pow k a3).trans ?_
    have : ((N + 1) ^ t * r ^ N) ^ k = (N + 1) ^ (t * k) * (r ^ k) ^ N := by ring
    rw [this]

theorem coprime {c : ℕ} {v : ℤ} (h : PForm N c v) : Nat.Coprime c (N * N) := by
  obtain ⟨t, r, a1, _, a3⟩ := h
  have h1 : Nat.Coprime (N + 1) N := by simp
  have h2 : Nat.Coprime ((N + 1) ^ t * r ^ N) N :=
    Nat.Coprime.mul_left (Nat.Coprime.pow_left _ h1) (Nat.Coprime.pow_left _ a1)
  have h3 : Nat.Coprime ((N + 1) ^ t * r ^ N) (N * N) := Nat.Coprime.mul_right h2 h2
  unfold Nat.Coprime at *
  rw [a3.gcd_eq]; exact h3

/-- the modular inverse (as `saferith.ModInverse` / the model's `modInv` computes it) encrypts `−v` -/
theorem inv {y : ℕ} {v : ℤ} (hN : 0 < N) (h : PForm N y v) : PForm N (modInv y (N * N)) (-v) := by
  obtain ⟨t, r, a1, a2, a3⟩ := h
  have hM : 0 < N * N := Nat.mul_pos hN hN
  set r' := modInv r N with hr'
  have hrr : r * r' ≡ 1 [MOD N] := mul_modInv r N hN a1
  have hr'c : Nat.Coprime r' N := Nat.coprime_of_mul_modEq_one r (by rwa [Nat.mul_comm] at hrr)
  set z := (N + 1) ^ (t * (N - 1)) * r' ^ N with hz
  -- y * z ≡ (N+1)^(t*N) * (r*r')^N ≡ 1
  have e1 : y * z ≡ ((N + 1) ^ t * r ^ N) * z [MOD N * N] := Nat.ModEq.mul_right _ a3
  have e2 : ((N + 1) ^ t * r ^ N) * z = ((N + 1) ^ N) ^ t * (r * r') ^ N := by
    rw [hz]
    have : t + t * (N - 1) = N * t := by
      obtain ⟨k, rfl⟩ : ∃ k, N = k + 1 := ⟨N - 1, by omega⟩
      simp; ring
    calc (N + 1) ^ t * r ^ N * ((N + 1) ^ (t * (N - 1)) * r' ^ N)
        = (N + 1) ^ (t + t * (N - 1)) * (r * r') ^ N := by ring
      _ = ((N + 1) ^ N) ^ t * (r * r') ^ N := by rw [this, pow_mul]
  have e3 : (N + 1) ^ N ≡ 1 [MOD N * N] := pow_self_modEq_one N (N + 1) hN (by simp [Nat.ModEq])
  have e4 : (r * r') ^ N ≡ 1 [MOD N * N] := pow_self_modEq_one N _ hN hrr
  have e5 : y * z ≡ 1 [MOD N * N] := by
    rw [e2] at e1
    refine e1.trans ?_
    have := Nat.ModEq.mul (Nat.ModEq.pow t e3) e4
    simpa using this
  have hinv : modInv y (N * N) = z % (N * N) := modInv_unique y (N * N) z hM e5
  rw [hinv]
  refine PForm.mod ⟨t * (N - 1), r', hr'c, ?_, Nat.ModEq.refl _⟩
  -- t*(N-1) ≡ -v
  have hcast : ((t * (N - 1) : ℕ) : ℤ) = (t : ℤ) * (N : ℤ) - t := by
    obtain ⟨k, rfl⟩ : ∃ k, N = k + 1 := ⟨N - 1, by omega⟩
    simp only [Nat.add_sub_cancel]; push_cast; ring
  rw [hcast]
  have : (t : ℤ) * (N : ℤ) - t ≡ 0 - v [ZMOD (N : ℤ)] :=
    Int.ModEq.sub (Int.modEq_zero_iff_dvd.mpr (Dvd.intro_left _ rfl)) a2
  simpa using this

end PForm

/-! ### centred representatives -/

theorem symm_of_lt (x N : ℕ) (hx : x < N) :
    symm x N = if N ≤ 2 * x then (x : ℤ) - N else x := by
  unfold symm symmSA saToInt
  simp only [Nat.mod_eq_of_lt hx]
  by_cases h0 : x = 0
  · subst h0
    have hN : N ≠ 0 := by omega
    simp [hN]
  · have hm : (N - x) % N = N - x := Nat.mod_eq_of_lt (by omega)
    rw [hm]
    by_cases h : N ≤ 2 * x
    · have h' : N - x ≤ x := by omega
      simp only [h', h, if_true]
      push_cast [Nat.cast_sub (le_of_lt hx)]; ring
    · have h' : ¬ N - x ≤ x := by omega
      simp [h', h]

/-- the centred representative of `v mod N` is `v` itself when `|v| ≤ N/2` (odd `N`) -/
theorem symm_emod (N : ℕ) (v : ℤ) (hodd : N % 2 = 1) (hv : v.natAbs ≤ N / 2) :
    symm (v % (N : ℤ)).toNat N = v := by
  have hN : (0 : ℤ) < N := by omega
  have h0 := Int.emod_nonneg v (ne_of_gt hN)
  have h1 := Int.emod_lt_of_pos v hN
  have hx : (v % (N : ℤ)).toNat < N := by omega
  rw [symm_of_lt _ _ hx]
  have hcast : (((v % (N : ℤ)).toNat : ℕ) : ℤ) = v % (N : ℤ) := Int.toNat_of_nonneg h0
  generalize (v % (N : ℤ)).toNat = y at hx hcast ⊢
  by_cases hneg : v < 0
  · have hm : v % (N : ℤ) = v + N := by
      have : (v + N) % (N : ℤ) = v + N := Int.emod_eq_of_lt (by omega) (by omega)
      rw [← this, Int.add_emod_right]
    rw [hm] at hcast
    split_ifs <;> omega
  · have hm : v % (N : ℤ) = v := Int.emod_eq_of_lt (by omega) (by omega)
    rw [hm] at hcast
    split_ifs <;> omega

theorem symm_modEq (N x : ℕ) (hx : x < N) : symm x N ≡ x [ZMOD (N : ℤ)] := by
  rw [symm_of_lt _ _ hx]
  split
  · exact Int.sub_modulus_modEq_iff.mpr (Int.ModEq.refl _)
  · exact Int.ModEq.refl _

theorem symm_natAbs_le (N x : ℕ) (hx : x < N) : (symm x N).natAbs ≤ N / 2 := by
  rw [symm_of_lt _ _ hx]
  split <;> omega

/-! ### decryption of a ciphertext of the form -/

/-- **dec on the form**: for a good key, a reduced ciphertext that encrypts `v` decrypts to the centred
    representative of `v mod N`. -/
theorem dec_of_pform {p q : ℕ} (k : KeyOK p q) {c : ℕ} {v : ℤ}
    (hlt : c < (p * q) * (p * q)) (h : PForm (p * q) c v) :
    (SecretKey.ofPrimes p q).dec c = some (symm (v % ((p * q : ℕ) : ℤ)).toNat (p * q)) := by
  set N := p * q with hNdef
  have hN1 : 1 < N := k.one_lt_N
  have hN0 : 0 < N := by omega
  have hcop := h.coprime
  obtain ⟨t, r, a1, a2, a3⟩ := h
  -- validation succeeds
  have hval : (SecretKey.ofPrimes p q).pk.validate c = true := by
    simp only [PublicKey.validate, sk_N2]
    simp [← hNdef, hlt, Nat.Coprime.gcd_eq_one hcop]
  -- c^φ ≡ 1 + t·φ·N
  set ph := (p - 1) * (q - 1) with hph
  have htot : φ N = ph := k.totient_N
  have e1 : c ^ ph ≡ ((N + 1) ^ t * r ^ N) ^ ph [MOD N * N] := Nat.ModEq.pow _ a3
  have e2 : ((N + 1) ^ t * r ^ N) ^ ph = (N + 1) ^ (t * ph) * (r ^ ph) ^ N := by ring
  have e3 : (r ^ ph) ^ N ≡ 1 [MOD N * N] :=
    pow_self_modEq_one N _ hN0 (by rw [← htot]; exact Nat.ModEq.pow_totient a1)
  have e4 : c ^ ph ≡ 1 + (t * ph) * N [MOD N * N] := by
    rw [e2] at e1
    refine e1.trans ?_
    have := Nat.ModEq.mul (succ_pow_modEq N (t * ph)) e3
    simpa using this
  have hu : c ^ ph % (N * N) = 1 + (t * ph % N) * N := by
    rw [e4, one_add_mul_mod N _ hN1]
  -- the L function
  have hl : (c ^ ph % (N * N) - 1) / N = t * ph % N := by
    rw [hu, Nat.add_sub_cancel_left, Nat.mul_div_cancel _ hN0]
  -- multiply by φ⁻¹
  have hinv : ph * modInv ph N ≡ 1 [MOD N] := mul_modInv ph N hN0 (Nat.Coprime.symm k.hco)
  have hx : (t * ph % N) * modInv ph N % N = t % N := by
    have : (t * ph % N) * modInv ph N ≡ t [MOD N] := by
      calc (t * ph % N) * modInv ph N ≡ (t * ph) * modInv ph N [MOD N] :=
            Nat.ModEq.mul_right _ (Nat.mod_modEq _ _)
        _ = t * (ph * modInv ph N) := by ring
        _ ≡ t * 1 [MOD N] := Nat.ModEq.mul_left _ hinv
        _ = t := Nat.mul_one _
    exact this
  -- t % N is the natural representative of v mod N
  have htv : t % N = (v % (N : ℤ)).toNat := by
    have hNz : (0 : ℤ) < N := by exact_mod_cast hN0
    have h0 := Int.emod_nonneg v (ne_of_gt hNz)
    have : ((t % N : ℕ) : ℤ) = v % (N : ℤ) := by
      push_cast; exact a2
    omega
  unfold SecretKey.dec SecretKey.decSA
  rw [hval]
  simp only [Bool.not_true, Bool.false_eq_true, if_false, Option.map_some, sk_exp2 p q k, sk_phi, sk_N,
    sk_phiInv, modMul_eq, ← hNdef, ← hph]
  rw [hl, hx, htv]
  rfl

/-! ### `enc`, `add`, `mul` in closed form -/

/-- `ExpI(x, e) mod M` as both code paths compute it -/
def expIVal (M x : ℕ) (e : ℤ) : ℕ :=
  if e < 0 then modInv (x ^ e.natAbs % M) M else x ^ e.natAbs % M

/-- the ciphertext `EncWithNonce` returns when it does not refuse -/
def encVal (N : ℕ) (m : ℤ) (r : ℕ) : ℕ := expIVal (N * N) (N + 1) m * (r ^ N % (N * N)) % (N * N)

theorem enc_eq (N : ℕ) (m : ℤ) (r : ℕ) :
    enc N m r = if N / 2 < m.natAbs then none else some (encVal N m r) := by
  unfold enc PublicKey.enc Modulus.expI encVal expIVal
  simp only [pkN_N, pkN_N2, pkN_exp2, modMul_eq, gt_iff_lt]
  rfl

theorem sk_enc_eq {p q : ℕ} (k : KeyOK p q) (m : ℤ) (r : ℕ) :
    (SecretKey.ofPrimes p q).pk.enc m r
      = if (p * q) / 2 < m.natAbs then none else some (encVal (p * q) m r) := by
  have hn : (SecretKey.ofPrimes p q).pk.n2.n = (p * q) * (p * q) := sk_N2 p q
  unfold PublicKey.enc Modulus.expI encVal expIVal
  simp only [sk_N, sk_N2, sk_exp2 p q k, modMul_eq, gt_iff_lt, hn]

theorem sk_mul_eq {p q : ℕ} (k : KeyOK p q) (c : ℕ) (e : ℤ) :
    (SecretKey.ofPrimes p q).pk.mul c e = expIVal ((p * q) * (p * q)) c e := by
  have hn : (SecretKey.ofPrimes p q).pk.n2.n = (p * q) * (p * q) := sk_N2 p q
  unfold PublicKey.mul Modulus.expI expIVal
  simp only [sk_exp2 p q k, hn]

theorem pkN_mul_eq (N c : ℕ) (e : ℤ) : (PublicKey.ofN N).mul c e = expIVal (N * N) c e := by
  unfold PublicKey.mul Modulus.expI expIVal
  simp only [pkN_exp2]
  rfl

theorem sk_add_eq (p q c₁ c₂ : ℕ) :
    (SecretKey.ofPrimes p q).pk.add c₁ c₂ = c₁ * c₂ % ((p * q) * (p * q)) := by
  unfold PublicKey.add; rw [modMul_eq, sk_N2]

theorem pkN_add_eq (N c₁ c₂ : ℕ) : (PublicKey.ofN N).add c₁ c₂ = c₁ * c₂ % (N * N) := by
  unfold PublicKey.add; rw [modMul_eq]; rfl

theorem expIVal_lt (M x : ℕ) (e : ℤ) (hM : 0 < M) : expIVal M x e < M := by
  unfold expIVal; split
  · exact modInv_lt _ _ hM
  · exact Nat.mod_lt _ hM

theorem encVal_lt (N : ℕ) (m : ℤ) (r : ℕ) (hN : 0 < N) : encVal N m r < N * N :=
  Nat.mod_lt _ (Nat.mul_pos hN hN)

/-- signed powers preserve the form: `ExpI(c, e)` encrypts `v·e` -/
theorem PForm.expI {N c : ℕ} {v : ℤ} (hN : 0 < N) (h : PForm N c v) (e : ℤ) :
    PForm N (expIVal (N * N) c e) (v * e) := by
  unfold expIVal
  split
  · next hneg =>
    have := ((h.pow e.natAbs).mod).inv hN
    refine this.congr_val ?_
    have : -(v * (e.natAbs : ℤ)) = v * e := by
      have : (e.natAbs : ℤ) = -e := by omega
      rw [this]; ring
    rw [this]
  · next hpos =>
    have := (h.pow e.natAbs).mod
    refine this.congr_val ?_
    have : (e.natAbs : ℤ) = e := by omega
    rw [this]

/-- every ciphertext `EncWithNonce` produces with a nonce coprime to `N` encrypts `m` -/
theorem pform_encVal (N : ℕ) (m : ℤ) (r : ℕ) (hN : 0 < N) (hr : Nat.Coprime r N) :
    PForm N (encVal N m r) m := by
  unfold encVal
  have h1 : PForm N (expIVal (N * N) (N + 1) m) ((1 : ℤ) * m) := by
    have := PForm.base N 1
    simp only [pow_one, Nat.cast_one] at this
    exact this.expI hN m
  have h2 : PForm N (r ^ N % (N * N)) 0 := (PForm.rand N r hr).mod
  have := (h1.mul h2).mod
  simpa using this

/-- the nonce only matters modulo `N` -/
theorem encVal_nonce_mod (N : ℕ) (m : ℤ) (r : ℕ) (hN : 0 < N) : encVal N m (r % N) = encVal N m r := by
  unfold encVal
  have : (r % N) ^ N % (N * N) = r ^ N % (N * N) :=
    pow_self_modEq_of_modEq N _ _ hN (Nat.mod_modEq _ _)
  rw [this]

/-- decryption of an in-range plaintext returns it exactly -/
theorem dec_of_pform_inrange {p q : ℕ} (k : KeyOK p q) {c : ℕ} {v : ℤ}
    (hlt : c < (p * q) * (p * q)) (h : PForm (p * q) c v) (hv : v.natAbs ≤ (p * q) / 2) :
    (SecretKey.ofPrimes p q).dec c = some v := by
  rw [dec_of_pform k hlt h, symm_emod _ _ k.odd_N hv]

/-- out of range the result is the wrapped (centred) value: it is never the integer itself -/
theorem dec_of_pform_outrange {p q : ℕ} (k : KeyOK p q) {c : ℕ} {v : ℤ}
    (hlt : c < (p * q) * (p * q)) (h : PForm (p * q) c v) (hv : (p * q) / 2 < v.natAbs) :
    (SecretKey.ofPrimes p q).dec c ≠ some v := by
  rw [dec_of_pform k hlt h]
  intro heq
  have hN : (0 : ℤ) < ((p * q : ℕ) : ℤ) := by have := k.one_lt_N; omega
  have h0 := Int.emod_nonneg v (ne_of_gt hN)
  have h1 := Int.emod_lt_of_pos v hN
  have := symm_natAbs_le (p * q) (v % ((p * q : ℕ) : ℤ)).toNat (by omega)
  rw [Option.some.inj heq] at this
  omega

/-! ### DecWithRandomness -/

theorem succ_pow_mod (N j : ℕ) (hN : 1 < N) : (N + 1) ^ j % N = 1 := by
  rw [Nat.pow_mod, Nat.add_mod_left, Nat.mod_eq_of_lt hN, one_pow, Nat.mod_eq_of_lt hN]

theorem modInv_one (N : ℕ) (hN : 1 < N) : modInv 1 N = 1 := by
  rw [modInv_unique 1 N 1 (by omega) (by simp; exact Nat.ModEq.refl _), Nat.mod_eq_of_lt hN]

/-- `DecWithRandomness` in closed form: the plaintext of `Dec` and `r = (c mod N)^(N⁻¹ mod φ) mod N` -/
theorem dwr_eq {p q : ℕ} (k : KeyOK p q) (c : ℕ) :
    (SecretKey.ofPrimes p q).decWithRandomness c =
      ((SecretKey.ofPrimes p q).dec c).map
        (fun m => (m, (c % (p * q)) ^ (modInv (p * q) ((p - 1) * (q - 1))) % (p * q))) := by
  have hN := k.one_lt_N
  have hn : (SecretKey.ofPrimes p q).pk.n.n = p * q := rfl
  unfold SecretKey.decWithRandomness
  cases hd : (SecretKey.ofPrimes p q).dec c with
  | none => rfl
  | some m =>
    simp only [Option.map_some, Modulus.expI, sk_exp1 p q k, sk_N, sk_phi, hn, modMul_eq,
      succ_pow_mod _ _ hN, modInv_one _ hN, ite_self, Nat.one_mul]

/-- extracting an `N`-th root modulo `N`: if `y ≡ x^N (mod N)` with `x` coprime to `N`, then
    `y^(N⁻¹ mod φ) ≡ x (mod N)` -/
theorem nth_root {p q : ℕ} (k : KeyOK p q) (x y : ℕ) (hx : Nat.Coprime x (p * q))
    (hy : y ≡ x ^ (p * q) [MOD p * q]) :
    y ^ (modInv (p * q) ((p - 1) * (q - 1))) ≡ x [MOD p * q] := by
  set N := p * q with hNdef
  set ph := (p - 1) * (q - 1) with hph
  have hph2 : 2 ≤ ph := by
    have h1 := k.hp.two_le; have h2 := k.hq.two_le
    have hne := k.hne
    have : 1 ≤ p - 1 := by omega
    have : 1 ≤ q - 1 := by omega
    rcases Nat.lt_or_ge p 3 with h | h
    · have : 2 ≤ q - 1 := by omega
      calc 2 ≤ 1 * 2 := by norm_num
        _ ≤ (p - 1) * (q - 1) := Nat.mul_le_mul ‹1 ≤ p - 1› ‹2 ≤ q - 1›
    · have : 2 ≤ p - 1 := by omega
      calc 2 ≤ 2 * 1 := by norm_num
        _ ≤ (p - 1) * (q - 1) := Nat.mul_le_mul ‹2 ≤ p - 1› ‹1 ≤ q - 1›
  have hinv : N * modInv N ph ≡ 1 [MOD ph] := mul_modInv N ph (by omega) k.hco
  have hge : 1 ≤ N * modInv N ph := by
    by_contra h
    have h0 : N * modInv N ph = 0 := by omega
    rw [h0] at hinv
    have : 0 % ph = 1 % ph := hinv
    rw [Nat.zero_mod, Nat.mod_eq_of_lt (by omega)] at this
    omega
  obtain ⟨j, hj⟩ := (Nat.modEq_iff_exists_eq_add hge).mp hinv.symm
  have htot : φ N = ph := k.totient_N
  calc y ^ modInv N ph ≡ (x ^ N) ^ modInv N ph [MOD N] := Nat.ModEq.pow _ hy
    _ = x ^ (N * modInv N ph) := (pow_mul _ _ _).symm
    _ = x * (x ^ ph) ^ j := by rw [hj, pow_add, pow_one, pow_mul]
    _ ≡ x * 1 ^ j [MOD N] :=
        Nat.ModEq.mul_left _ (Nat.ModEq.pow _ (by rw [← htot]; exact Nat.ModEq.pow_totient hx))
    _ = x := by simp

/-- the plaintext factor of a ciphertext, explicitly: `ExpI(N+1, m) mod N² = 1 + (m mod N)·N` -/
theorem expIVal_succ (N : ℕ) (m : ℤ) (hN : 1 < N) :
    expIVal (N * N) (N + 1) m = 1 + (m % (N : ℤ)).toNat * N := by
  have hN0 : 0 < N := by omega
  have hM : 0 < N * N := Nat.mul_pos hN0 hN0
  have hNz : (0 : ℤ) < N := by exact_mod_cast hN0
  have hpos : ∀ a : ℕ, (N + 1) ^ a % (N * N) = 1 + (a % N) * N := by
    intro a; rw [succ_pow_modEq N a, one_add_mul_mod N a hN]
  have h0 := Int.emod_nonneg m (ne_of_gt hNz)
  have h1 := Int.emod_lt_of_pos m hNz
  set j := (m % (N : ℤ)).toNat with hj
  have hjc : (j : ℤ) = m % (N : ℤ) := Int.toNat_of_nonneg h0
  have hjlt : j < N := by omega
  unfold expIVal
  split
  · next hneg =>
    rw [hpos]
    set a := m.natAbs % N with ha
    -- a + j ≡ 0 (mod N)
    have haj : N ∣ a + j := by
      have e1 : ((a + j : ℕ) : ℤ) ≡ 0 [ZMOD (N : ℤ)] := by
        push_cast
        have e2 : ((a : ℕ) : ℤ) ≡ (m.natAbs : ℤ) [ZMOD (N : ℤ)] := by
          rw [ha]; push_cast; exact Int.mod_modEq _ _
        have e3 : (j : ℤ) ≡ m [ZMOD (N : ℤ)] := by rw [hjc]; exact Int.mod_modEq _ _
        have : (m.natAbs : ℤ) + m = 0 := by omega
        rw [← this]; exact Int.ModEq.add e2 e3
      have := Int.modEq_zero_iff_dvd.mp e1
      exact_mod_cast this
    obtain ⟨w, hw⟩ := haj
    have hprod : (1 + a * N) * (1 + j * N) ≡ 1 [MOD N * N] := by
      have : (1 + a * N) * (1 + j * N) = 1 + (w + a * j) * (N * N) := by
        have : (1 + a * N) * (1 + j * N) = 1 + (a + j) * N + (a * j) * (N * N) := by ring
        rw [this, hw]; ring
      rw [this]
      exact Nat.add_mul_modulus_modEq_iff.mpr (Nat.ModEq.refl _)
    rw [modInv_unique _ _ _ hM hprod]
    apply Nat.mod_eq_of_lt
    have : (j + 1) * N ≤ N * N := Nat.mul_le_mul_right N (by omega)
    nlinarith
  · next hpos' =>
    rw [hpos]
    have : (m.natAbs : ℤ) = m := by omega
    have : m.natAbs % N = j := by
      have : ((m.natAbs % N : ℕ) : ℤ) = (j : ℤ) := by rw [Int.natCast_mod, this, hjc]
      exact_mod_cast this
    rw [this]

theorem encVal_eq (N : ℕ) (m : ℤ) (r : ℕ) (hN : 1 < N) :
    encVal N m r = (1 + (m % (N : ℤ)).toNat * N) * (r ^ N % (N * N)) % (N * N) := by
  unfold encVal; rw [expIVal_succ N m hN]

/-- **every unit below N² is a ciphertext**: with `r = (c mod N)^(N⁻¹ mod φ) mod N` (the value
    `DecWithRandomness` recovers) there is `s < N` with `c = (1 + s·N)·r^N mod N²`. -/
theorem unit_decompose {p q : ℕ} (k : KeyOK p q) (c : ℕ) (hlt : c < (p * q) * (p * q))
    (hc : Nat.Coprime c ((p * q) * (p * q))) :
    let N := p * q
    let r := (c % N) ^ (modInv N ((p - 1) * (q - 1))) % N
    Nat.Coprime r N ∧ ∃ s : ℕ, s < N ∧ c = (1 + s * N) * (r ^ N % (N * N)) % (N * N) := by
  intro N r
  have hN : 1 < N := k.one_lt_N
  have hN0 : 0 < N := by omega
  have hM : 0 < N * N := Nat.mul_pos hN0 hN0
  have hcN : Nat.Coprime c N := Nat.Coprime.coprime_mul_left_right hc
  have hcN' : Nat.Coprime (c % N) N := by
    unfold Nat.Coprime at *; rw [(Nat.mod_modEq c N).gcd_eq]; exact hcN
  have hr : Nat.Coprime r N := by
    have : Nat.Coprime ((c % N) ^ (modInv N ((p - 1) * (q - 1)))) N := Nat.Coprime.pow_left _ hcN'
    unfold Nat.Coprime at *; rw [(Nat.mod_modEq _ N).gcd_eq]; exact this
  refine ⟨hr, ?_⟩
  -- r^N ≡ c (mod N)
  have hrN : r ^ N ≡ c [MOD N] := by
    have h1 : r ≡ (c % N) ^ (modInv N ((p - 1) * (q - 1))) [MOD N] := Nat.mod_modEq _ _
    have h2 := nth_root k (c % N) ((c % N) ^ N) hcN' (Nat.ModEq.refl _)
    -- ((c%N)^N)^nInv ≡ c % N ; and r^N ≡ ((c%N)^nInv)^N = ((c%N)^N)^nInv
    calc r ^ N ≡ ((c % N) ^ (modInv N ((p - 1) * (q - 1)))) ^ N [MOD N] := Nat.ModEq.pow _ h1
      _ = ((c % N) ^ N) ^ (modInv N ((p - 1) * (q - 1))) := by rw [← pow_mul, ← pow_mul, Nat.mul_comm]
      _ ≡ c % N [MOD N] := h2
      _ ≡ c [MOD N] := Nat.mod_modEq _ _
  -- d = c · (r^N)⁻¹ mod N²  is ≡ 1 mod N
  set R := r ^ N % (N * N) with hR
  have hRc : Nat.Coprime R (N * N) := by
    have := ((PForm.rand N r hr).mod).coprime
    exact this
  set ri := modInv R (N * N) with hri
  have hRri : R * ri ≡ 1 [MOD N * N] := mul_modInv R (N * N) hM hRc
  set d := c * ri % (N * N) with hd
  have hdlt : d < N * N := Nat.mod_lt _ hM
  have hd1 : d ≡ 1 [MOD N] := by
    have a1 : d ≡ c * ri [MOD N] := (Nat.mod_modEq _ _).of_mul_right N
    have a2 : c * ri ≡ R * ri [MOD N] := by
      refine Nat.ModEq.mul_right _ ?_
      have : R ≡ r ^ N [MOD N] := (Nat.mod_modEq _ _).of_mul_right N
      exact (this.trans hrN).symm
    exact a1.trans (a2.trans (hRri.of_mul_right N))
  have hdmod : d % N = 1 := by rw [hd1]; exact Nat.mod_eq_of_lt hN
  refine ⟨d / N, ?_, ?_⟩
  · exact Nat.div_lt_of_lt_mul hdlt
  · have hdd : 1 + d / N * N = d := by
      have := Nat.mod_add_div d N; rw [hdmod] at this; rw [Nat.mul_comm]; exact this
    rw [hdd]
    -- d * R ≡ c * (ri * R) ≡ c
    have : d * R ≡ c [MOD N * N] := by
      calc d * R ≡ (c * ri) * R [MOD N * N] := Nat.ModEq.mul_right _ (Nat.mod_modEq _ _)
        _ = c * (R * ri) := by ring
        _ ≡ c * 1 [MOD N * N] := Nat.ModEq.mul_left _ hRri
        _ = c := Nat.mul_one _
    exact (Nat.mod_eq_of_modEq this hlt).symm

end Mps.Paillier
