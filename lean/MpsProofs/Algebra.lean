import Mps.Algebra
import Mathlib.LinearAlgebra.Lagrange
import Mathlib.Tactic.Ring
import Mathlib.Tactic.FieldSimp
import Mathlib.Tactic.LinearCombination
/-
  M2 lemmas, part 1: the lawful instance of `Ops`, Lagrange coefficients at 0 for the code's own
  formula, Horner evaluation (scalar and exponent polynomials incl. the `IsConstant` representation),
  `polynomial.Sum`.  Arbitrary field `F`, arbitrary `F`-module `G`, arbitrary finite index lists.
-/
namespace Mps.Alg
open Polynomial

section
variable {F G : Type} [Field F] [AddCommGroup G] [Module F G]

/-- the operations of a field acting on a module, as an `Ops` record -/
def lawful (g : G) : Ops F G where
  zero := 0
  one := 1
  add := fun a b => a + b
  sub := fun a b => a - b
  mul := fun a b => a * b
  neg := fun a => -a
  inv := fun a => a⁻¹
  gzero := 0
  gadd := fun a b => a + b
  gneg := fun a => -a
  smul := fun a P => a • P
  base := g

variable (g : G)

@[simp] theorem lawful_zero : (lawful g : Ops F G).zero = 0 := rfl
@[simp] theorem lawful_one : (lawful g : Ops F G).one = 1 := rfl
@[simp] theorem lawful_add (a b : F) : (lawful g : Ops F G).add a b = a + b := rfl
@[simp] theorem lawful_sub (a b : F) : (lawful g : Ops F G).sub a b = a - b := rfl
@[simp] theorem lawful_mul (a b : F) : (lawful g : Ops F G).mul a b = a * b := rfl
@[simp] theorem lawful_neg (a : F) : (lawful g : Ops F G).neg a = -a := rfl
@[simp] theorem lawful_inv (a : F) : (lawful g : Ops F G).inv a = a⁻¹ := rfl
@[simp] theorem lawful_gzero : (lawful g : Ops F G).gzero = 0 := rfl
@[simp] theorem lawful_gadd (a b : G) : (lawful g : Ops F G).gadd a b = a + b := rfl
@[simp] theorem lawful_gneg (a : G) : (lawful g : Ops F G).gneg a = -a := rfl
@[simp] theorem lawful_smul (a : F) (P : G) : (lawful g : Ops F G).smul a P = a • P := rfl
@[simp] theorem lawful_base : (lawful g : Ops F G).base = g := rfl

@[simp] theorem sumF_lawful (l : List F) : sumF (lawful g : Ops F G) l = l.sum := by
  unfold sumF; exact List.sum_eq_foldl.symm
@[simp] theorem prodF_lawful (l : List F) : prodF (lawful g : Ops F G) l = l.prod := by
  unfold prodF; exact List.prod_eq_foldl.symm
@[simp] theorem sumG_lawful (l : List G) : sumG (lawful g : Ops F G) l = l.sum := by
  unfold sumG; exact List.sum_eq_foldl.symm
@[simp] theorem gsub_lawful (P Q : G) : gsub (lawful g : Ops F G) P Q = P - Q := by
  simp [gsub, sub_eq_add_neg]
@[simp] theorem actBase_lawful (s : F) : actBase (lawful g : Ops F G) s = s • g := rfl

theorem foldl_add_eq (l : List F) (a : F) : l.foldl (fun x y => x + y) a = a + l.sum := by
  induction l generalizing a with
  | nil => simp
  | cons b l ih => simp [ih, add_assoc]

theorem foldl_gadd_eq (l : List G) (a : G) : l.foldl (fun x y => x + y) a = a + l.sum := by
  induction l generalizing a with
  | nil => simp
  | cons b l ih => simp [ih, add_assoc]

/-! ### sums over duplicate-free lists are finset sums -/

theorem list_sum_map_eq {ι M : Type} [DecidableEq ι] [AddCommMonoid M] (l : List ι) (hl : l.Nodup) (f : ι → M) :
    (l.map f).sum = ∑ i ∈ l.toFinset, f i := (List.sum_toFinset f hl).symm

theorem list_prod_map_eq {ι M : Type} [DecidableEq ι] [CommMonoid M] (l : List ι) (hl : l.Nodup) (f : ι → M) :
    (l.map f).prod = ∏ i ∈ l.toFinset, f i := (List.prod_toFinset f hl).symm

theorem mapKeys_of_nodup {ι : Type} [DecidableEq ι] (l : List ι) (hl : l.Nodup) : mapKeys l = l := by
  induction l with
  | nil => rfl
  | cons a l ih =>
    have h := List.nodup_cons.mp hl
    simp [mapKeys, h.1, ih h.2]

/-! ## Lagrange coefficients at 0: the code's formula  ∏ xᵢ / (xⱼ · ∏_{i≠j} (xᵢ − xⱼ)) -/

variable {ι : Type} [DecidableEq ι]

/-- the code's coefficient on a finite set: numerator over ALL nodes, denominator `xⱼ·∏_{i≠j}(xᵢ−xⱼ)` -/
noncomputable def lagCoeff (s : Finset ι) (x : ι → F) (j : ι) : F :=
  (∏ i ∈ s, x i) / (x j * ∏ i ∈ s.erase j, (x i - x j))

theorem lagCoeff_eq_basis_eval (s : Finset ι) (x : ι → F) (hnz : ∀ i ∈ s, x i ≠ 0)
    (j : ι) (hj : j ∈ s) : lagCoeff s x j = (Lagrange.basis s x j).eval 0 := by
  unfold lagCoeff Lagrange.basis Lagrange.basisDivisor
  rw [← Finset.mul_prod_erase s x hj, mul_div_mul_left _ _ (hnz j hj), Polynomial.eval_prod,
    ← Finset.prod_div_distrib]
  refine Finset.prod_congr rfl fun i _ => ?_
  simp only [eval_mul, eval_C, eval_sub, eval_X, zero_sub]
  rw [← neg_sub (x i) (x j), inv_neg, neg_mul_neg, div_eq_inv_mul]

/-- **lagrange_at_zero** for the code's coefficient formula, any finite node set. -/
theorem lagCoeff_at_zero (s : Finset ι) (x : ι → F) (hinj : Set.InjOn x s) (hnz : ∀ i ∈ s, x i ≠ 0)
    (f : F[X]) (hdeg : f.degree < s.card) :
    ∑ j ∈ s, lagCoeff s x j * f.eval (x j) = f.eval 0 := by
  have h := Lagrange.eq_interpolate (s := s) (v := x) (f := f) hinj hdeg
  conv_rhs => rw [h]
  rw [Lagrange.interpolate_apply, Polynomial.eval_finsetSum]
  refine Finset.sum_congr rfl fun j hj => ?_
  rw [lagCoeff_eq_basis_eval s x hnz j hj, eval_mul, eval_C, mul_comm]

/-- Σⱼ λⱼ·xⱼᵏ = [k = 0] for k < |s| -/
theorem lagCoeff_pow (s : Finset ι) (x : ι → F) (hinj : Set.InjOn x s) (hnz : ∀ i ∈ s, x i ≠ 0)
    (k : ℕ) (hk : k < s.card) : ∑ j ∈ s, lagCoeff s x j * x j ^ k = if k = 0 then 1 else 0 := by
  have h := lagCoeff_at_zero s x hinj hnz (X ^ k) (by
    rw [degree_X_pow]; exact_mod_cast hk)
  simp only [eval_pow, eval_X] at h
  rw [h]
  cases k with
  | zero => simp
  | succ k => simp

theorem lagCoeff_sum_one (s : Finset ι) (x : ι → F) (hinj : Set.InjOn x s) (hnz : ∀ i ∈ s, x i ≠ 0)
    (hs : s.Nonempty) : ∑ j ∈ s, lagCoeff s x j = 1 := by
  have h := lagCoeff_pow s x hinj hnz 0 (Finset.card_pos.mpr hs)
  simpa using h

/-- the coefficient of a node is non-zero (distinct non-zero nodes) -/
theorem lagCoeff_ne_zero (s : Finset ι) (x : ι → F) (hinj : Set.InjOn x s) (hnz : ∀ i ∈ s, x i ≠ 0)
    (j : ι) (hj : j ∈ s) : lagCoeff s x j ≠ 0 := by
  unfold lagCoeff
  refine div_ne_zero (Finset.prod_ne_zero_iff.mpr hnz) (mul_ne_zero (hnz j hj) (Finset.prod_ne_zero_iff.mpr ?_))
  intro i hi
  have hi' := Finset.mem_erase.mp hi
  exact sub_ne_zero.mpr fun e => hi'.1 (hinj hi'.2 hj e)

/-- the transcribed `polynomial.lagrange` IS that coefficient (duplicate-free id list, j in the list) -/
theorem lagrangeCoeff_lawful (l : List ι) (hl : l.Nodup) (x : ι → F) (j : ι) (hj : j ∈ l) :
    lagrangeCoeff (lawful g : Ops F G) l x j = lagCoeff l.toFinset x j := by
  unfold lagrangeCoeff lagDenominator lagNumerator lagCoeff
  simp only [lawful_mul, lawful_inv, prodF_lawful, mapKeys_of_nodup l hl, lawful_add, lawful_neg]
  rw [list_prod_map_eq l hl, list_prod_map_eq l hl, div_eq_inv_mul]
  congr 2
  rw [← Finset.mul_prod_erase l.toFinset _ (List.mem_toFinset.mpr hj)]
  simp only [beq_self_eq_true, if_true]
  congr 1
  refine Finset.prod_congr rfl fun i hi => ?_
  have hne : i ≠ j := (Finset.mem_erase.mp hi).1
  simp [hne]; ring

/-! ## Horner evaluation -/

/-- the polynomial with coefficient list `cs` (constant coefficient first) -/
noncomputable def polyOf : List F → F[X]
  | [] => 0
  | c :: cs => C c + X * polyOf cs

/-- **horner_eq_eval**: `Polynomial.Evaluate` computes the value of the polynomial -/
theorem horner_eq_eval (cs : List F) (x : F) : evalPoly (lawful g : Ops F G) cs x = (polyOf cs).eval x := by
  induction cs with
  | nil => simp [evalPoly, polyOf]
  | cons c cs ih =>
    simp only [evalPoly, List.foldr_cons, lawful_add, lawful_mul, polyOf, eval_add, eval_C, eval_mul, eval_X] at ih ⊢
    rw [ih]; ring

theorem polyOf_coeff (cs : List F) (k : ℕ) : (polyOf cs).coeff k = cs.getD k 0 := by
  induction cs generalizing k with
  | nil => simp [polyOf]
  | cons c cs ih =>
    cases k with
    | zero => simp [polyOf]
    | succ k => simp [polyOf, ih]

theorem polyOf_degree_lt (cs : List F) : (polyOf cs).degree < cs.length := by
  rw [Polynomial.degree_lt_iff_coeff_zero]
  intro m hm
  rw [polyOf_coeff]
  simp [List.getD, hm]

theorem polyOf_eval_zero (cs : List F) : (polyOf cs).eval 0 = cs.headD 0 := by
  cases cs <;> simp [polyOf]

/-- the coefficient list (length n+1) of a polynomial of degree ≤ n -/
noncomputable def coeffList (f : F[X]) (n : ℕ) : List F := (List.range (n + 1)).map f.coeff

theorem coeffList_length (f : F[X]) (n : ℕ) : (coeffList f n).length = n + 1 := by simp [coeffList]

theorem coeffList_head (f : F[X]) (n : ℕ) : (coeffList f n).headD 0 = f.coeff 0 := by
  simp [coeffList, List.range_succ_eq_map]

theorem polyOf_coeffList (f : F[X]) (n : ℕ) (h : f.natDegree ≤ n) : polyOf (coeffList f n) = f := by
  ext k
  rw [polyOf_coeff, coeffList]
  by_cases hk : k < n + 1
  · simp [List.getD, hk]
  · have : f.coeff k = 0 := coeff_eq_zero_of_natDegree_lt (by omega)
    simp [List.getD, hk, this]

theorem evalPoly_coeffList (f : F[X]) (n : ℕ) (h : f.natDegree ≤ n) (x : F) :
    evalPoly (lawful g : Ops F G) (coeffList f n) x = f.eval x := by
  rw [horner_eq_eval, polyOf_coeffList f n h]

/-! ### exponent polynomials (coefficients in `G`) -/

/-- Horner value of a coefficient list in `G` -/
def hornerG (cs : List G) (x : F) : G := cs.foldr (fun a acc => x • acc + a) 0

@[simp] theorem hornerG_nil (x : F) : hornerG ([] : List G) x = 0 := rfl
@[simp] theorem hornerG_cons (c : G) (cs : List G) (x : F) : hornerG (c :: cs) x = x • hornerG cs x + c := rfl

theorem evalExp_lawful (e : Exponent G) (x : F) :
    evalExp (lawful g : Ops F G) e x = if e.isConstant then x • hornerG e.coeffs x else hornerG e.coeffs x := by
  unfold evalExp hornerG; rfl

/-- **evalExp_isConstant**: the `IsConstant` representation (constant coefficient omitted) evaluates
    like the polynomial with an explicit identity constant coefficient. -/
theorem evalExp_isConstant (cs : List G) (x : F) :
    evalExp (lawful g : Ops F G) ⟨true, cs⟩ x = evalExp (lawful g : Ops F G) ⟨false, 0 :: cs⟩ x := by
  simp [evalExp_lawful]

/-- the honest commitment to a scalar polynomial evaluates to (value)·g — whichever representation
    `NewPolynomialExponent` chose -/
theorem hornerG_map_smul (cs : List F) (x : F) :
    hornerG (cs.map fun c => c • g) x = (evalPoly (lawful g : Ops F G) cs x) • g := by
  induction cs with
  | nil => simp [evalPoly]
  | cons c cs ih =>
    simp only [List.map_cons, hornerG_cons, ih, evalPoly, List.foldr_cons, lawful_add, lawful_mul]
    rw [add_smul, mul_smul, smul_comm]

theorem evalExp_expOfPoly [DecidableEq F] (cs : List F) (x : F) :
    evalExp (lawful g : Ops F G) (expOfPoly (lawful g : Ops F G) cs) x = (evalPoly (lawful g : Ops F G) cs x) • g := by
  cases cs with
  | nil => simp [expOfPoly, evalExp_lawful, evalPoly]
  | cons c cs =>
    unfold expOfPoly
    by_cases h : c = 0
    · subst h
      have h1 := hornerG_map_smul g cs x
      have h2 : evalExp (lawful g : Ops F G) ⟨true, cs.map (actBase (lawful g : Ops F G))⟩ x =
          x • hornerG (cs.map fun c => c • g) x := by rw [evalExp_lawful]; rfl
      simp only [lawful_zero, beq_self_eq_true, if_true]
      rw [h2, h1]
      have h3 : evalPoly (lawful g : Ops F G) (0 :: cs) x = evalPoly (lawful g : Ops F G) cs x * x := by
        simp [evalPoly]
      rw [h3, mul_comm, mul_smul]
    · have hb : (c == (lawful g : Ops F G).zero) = false := by simpa using h
      simp only [hb, evalExp_lawful]
      exact hornerG_map_smul g (c :: cs) x

omit [DecidableEq ι] in
/-- weighted sums of Horner values: Σⱼ wⱼ • (xⱼᵐ • H_cs(xⱼ)) with weights satisfying the power-sum
    identities of the Lagrange coefficients -/
theorem weighted_hornerG (s : Finset ι) (w x : ι → F)
    (hpow : ∀ k, k < s.card → ∑ j ∈ s, w j * x j ^ k = if k = 0 then 1 else 0)
    (cs : List G) (m : ℕ) (hlen : m + cs.length ≤ s.card) :
    ∑ j ∈ s, w j • (x j ^ m • hornerG cs (x j)) = if m = 0 then cs.headD 0 else 0 := by
  induction cs generalizing m with
  | nil => simp
  | cons c cs ih =>
    have h1 := ih (m + 1) (by simp only [List.length_cons] at hlen; omega)
    have h2 := hpow m (by simp only [List.length_cons] at hlen; omega)
    simp only [hornerG_cons, smul_add, Finset.sum_add_distrib]
    have e1 : ∀ j, w j • x j ^ m • x j • hornerG cs (x j) = w j • (x j ^ (m + 1) • hornerG cs (x j)) := by
      intro j; rw [pow_succ, mul_smul]
    have e2 : ∀ j, w j • x j ^ m • c = (w j * x j ^ m) • c := by
      intro j; rw [mul_smul]
    simp only [e1, e2, h1, ← Finset.sum_smul, h2]
    by_cases hm : m = 0 <;> simp [hm]

/-- additivity of the Horner value for coefficient lists of equal length -/
theorem hornerG_zipWith_add (p q : List G) (h : p.length = q.length) (x : F) :
    hornerG (List.zipWith (fun a b => a + b) p q) x = hornerG p x + hornerG q x := by
  induction p generalizing q with
  | nil => cases q <;> simp_all
  | cons a p ih =>
    cases q with
    | nil => simp at h
    | cons b q =>
      simp only [List.length_cons, add_left_inj] at h
      simp only [List.zipWith_cons_cons, hornerG_cons, ih q h, smul_add]
      abel

/-! ### `polynomial.Sum` -/

/-- all summands have the same `IsConstant` flag and the same number of stored coefficients -/
def Uniform (b : Bool) (m : ℕ) (es : List (Exponent G)) : Prop :=
  ∀ e ∈ es, e.isConstant = b ∧ e.coeffs.length = m

theorem sumExpFrom_spec (b : Bool) (m : ℕ) (acc : Exponent G) (hacc : acc.isConstant = b ∧ acc.coeffs.length = m)
    (es : List (Exponent G)) (hu : Uniform b m es) :
    ∃ E, sumExpFrom (lawful g : Ops F G) acc es = some E ∧ E.isConstant = b ∧ E.coeffs.length = m ∧
      (∀ x : F, hornerG E.coeffs x = hornerG acc.coeffs x + (es.map fun e => hornerG e.coeffs x).sum) ∧
      E.coeffs.headD 0 = acc.coeffs.headD 0 + (es.map fun e => e.coeffs.headD 0).sum := by
  induction es generalizing acc with
  | nil => exact ⟨acc, rfl, hacc.1, hacc.2, by simp, by simp⟩
  | cons q qs ih =>
    have hq := hu q (by simp)
    have hlen : acc.coeffs.length = q.coeffs.length := by rw [hacc.2, hq.2]
    have hadd : addExp (lawful g : Ops F G) acc q =
        some ⟨acc.isConstant, List.zipWith (fun a b => a + b) acc.coeffs q.coeffs⟩ := by
      unfold addExp
      simp [hlen, hacc.1, hq.1]
      rfl
    obtain ⟨E, h1, h2, h3, h4, h5⟩ := ih ⟨acc.isConstant, List.zipWith (fun a b => a + b) acc.coeffs q.coeffs⟩
      ⟨hacc.1, by simp [hacc.2, hq.2]⟩ (fun e he => hu e (by simp [he]))
    refine ⟨E, by simp [sumExpFrom, hadd, h1], h2, h3, ?_, ?_⟩
    · intro x
      rw [h4 x, hornerG_zipWith_add _ _ hlen]
      simp [add_assoc]
    · rw [h5]
      have : (List.zipWith (fun a b => a + b) acc.coeffs q.coeffs).headD 0 = acc.coeffs.headD 0 + q.coeffs.headD 0 := by
        cases ha : acc.coeffs with
        | nil =>
          have : q.coeffs = [] := by
            apply List.eq_nil_of_length_eq_zero; rw [← hlen, ha]; rfl
          simp [this]
        | cons a as =>
          cases hb : q.coeffs with
          | nil => rw [ha, hb] at hlen; simp at hlen
          | cons b bs => simp
      rw [this]; simp [add_assoc]

/-- **`polynomial.Sum` is the pointwise sum** (summands of one shape, at least one summand):
    it succeeds, keeps the shape, evaluates to the sum of the evaluations and its constant is the
    sum of the constants. -/
theorem sumExp_spec (b : Bool) (m : ℕ) (es : List (Exponent G)) (hne : es ≠ []) (hu : Uniform b m es) :
    ∃ E, sumExp (lawful g : Ops F G) es = some E ∧ E.isConstant = b ∧ E.coeffs.length = m ∧
      (∀ x : F, evalExp (lawful g : Ops F G) E x = (es.map fun e => evalExp (lawful g : Ops F G) e x).sum) ∧
      expConstant (lawful g : Ops F G) E = (es.map fun e => expConstant (lawful g : Ops F G) e).sum := by
  cases es with
  | nil => exact absurd rfl hne
  | cons p ps =>
    have hp := hu p (by simp)
    obtain ⟨E, h1, h2, h3, h4, h5⟩ := sumExpFrom_spec (F := F) g b m p hp ps (fun e he => hu e (by simp [he]))
    refine ⟨E, by simpa [sumExp] using h1, h2, h3, ?_, ?_⟩
    · intro x
      have hall : ∀ e ∈ p :: ps, evalExp (lawful g : Ops F G) e x =
          if b then x • hornerG e.coeffs x else hornerG e.coeffs x := by
        intro e he; rw [evalExp_lawful, (hu e he).1]
      rw [evalExp_lawful, h2, h4 x, List.map_congr_left hall]
      cases b
      · simp
      · simp only [if_true, List.map_cons, List.sum_cons, smul_add]
        congr 1
        rw [List.smul_sum]; simp [List.map_map, Function.comp_def]
    · have hall : ∀ e ∈ p :: ps, expConstant (lawful g : Ops F G) e = if b then 0 else e.coeffs.headD 0 := by
        intro e he
        unfold expConstant expConstant?
        rw [(hu e he).1]
        cases b
        · cases e.coeffs <;> simp
        · simp
      have hE : expConstant (lawful g : Ops F G) E = if b then 0 else E.coeffs.headD 0 := by
        unfold expConstant expConstant?
        rw [h2]
        cases b
        · cases E.coeffs <;> simp
        · simp
      rw [hE, List.map_congr_left hall]
      cases b
      · simpa using h5
      · simp

end
end Mps.Alg
