import Mps.Frame
/-
  Lemmas for M1 (framing). Core-only.
-/
namespace Mps

theorem beN_length (k n : Nat) : (beN k n).length = k := by
  induction k generalizing n with
  | zero => simp [beN]
  | succ k ih => simp [beN, ih]

theorem unbe_append_single (bs : Bytes) (b : UInt8) : unbe (bs ++ [b]) = unbe bs * 256 + b.toNat := by
  simp [unbe, List.foldl_append]

theorem unbe_beN (k n : Nat) : unbe (beN k n) = n % 256 ^ k := by
  induction k generalizing n with
  | zero => simp [beN, unbe, Nat.mod_one]
  | succ k ih =>
    simp only [beN, unbe_append_single, ih]
    have h : (UInt8.ofNat (n % 256)).toNat = n % 256 := by
      simp [UInt8.toNat_ofNat']
    rw [h, Nat.pow_succ, Nat.mul_comm (256 ^ k) 256, Nat.mod_mul]
    omega

theorem unbe_be64 (n : Nat) (h : n < 2^64) : unbe (be64 n) = n := by
  unfold be64
  rw [unbe_beN]
  exact Nat.mod_eq_of_lt (by simpa using h)

theorem be64_length (n : Nat) : (be64 n).length = 8 := beN_length 8 n

/-- `unframe` inverts `frame` in front of any continuation. -/
theorem unframe_frame (i : Item) (h : i.WF) (rest : Bytes) :
    unframe (frame i ++ rest) = some (i, rest) := by
  obtain ⟨dom, data⟩ := i
  obtain ⟨h1, h2⟩ := h
  simp only at h1 h2
  have l1 := be64_length dom.length
  have l2 := be64_length data.length
  simp only [frame, unframe, List.cons_append, List.append_assoc]
  simp [lparen, rparen, l1, l2, unbe_be64 _ h1, unbe_be64 _ h2]

theorem frames_append (xs ys : List Item) : frames (xs ++ ys) = frames xs ++ frames ys := by
  induction xs with
  | nil => rfl
  | cons x xs ih => simp [frames, ih]

theorem frame_ne_nil (i : Item) : frame i ≠ [] := by simp [frame]

theorem frame_length_pos (i : Item) : 0 < (frame i).length := by simp [frame]

/-- Main framing theorem: the framed stream determines the item list. -/
theorem frames_injective (xs ys : List Item) (hx : ∀ i ∈ xs, i.WF) (hy : ∀ i ∈ ys, i.WF)
    (h : frames xs = frames ys) : xs = ys := by
  induction xs generalizing ys with
  | nil =>
    cases ys with
    | nil => rfl
    | cons y ys => simp [frames, frame] at h
  | cons x xs ih =>
    cases ys with
    | nil => simp [frames, frame] at h
    | cons y ys =>
      have hxw := hx x (by simp)
      have hyw := hy y (by simp)
      have e := congrArg unframe h
      simp only [frames] at e
      rw [unframe_frame x hxw, unframe_frame y hyw] at e
      have e' := Option.some.inj e
      have e1 : x = y := congrArg Prod.fst e'
      have e2 : frames xs = frames ys := congrArg Prod.snd e'
      rw [e1, ih ys (fun i hi => hx i (by simp [hi])) (fun i hi => hy i (by simp [hi])) e2]

theorem transcript_injective (xs ys : List Item) (hx : ∀ i ∈ xs, i.WF) (hy : ∀ i ∈ ys, i.WF)
    (h : transcript xs = transcript ys) : xs = ys := by
  unfold transcript at h
  exact frames_injective xs ys hx hy (List.append_cancel_left h)

/-- Prefix-freeness: a transcript that continues another one does so by whole items. -/
theorem frames_prefix (xs ys : List Item) (hx : ∀ i ∈ xs, i.WF) (hy : ∀ i ∈ ys, i.WF)
    (tail : Bytes) (h : frames xs ++ tail = frames ys) (htail : tail = [] ∨ ∃ zs, (∀ i ∈ zs, i.WF) ∧ tail = frames zs) :
    ∃ zs, ys = xs ++ zs := by
  rcases htail with rfl | ⟨zs, hz, rfl⟩
  · rw [List.append_nil] at h
    exact ⟨[], by rw [List.append_nil]; exact (frames_injective xs ys hx hy h).symm⟩
  · rw [← frames_append] at h
    refine ⟨zs, (frames_injective (xs ++ zs) ys ?_ hy h).symm⟩
    intro i hi
    rcases List.mem_append.mp hi with hi | hi
    · exact hx i hi
    · exact hz i hi

end Mps
