import MpsProofs.Blame
/-
  Lemmas for C07 (outcome independent of delivery order, duplication, early arrival). Core-only.

  Part 1: the relation `Sim` (two handler states that differ only in the ORDER in which their two message
  queues were filled) and the fact that every transition of the handler respects it.
-/
namespace Mps.Handler
open Mps

/-! ### queues with the same content -/

/-- two queues hold the same entries and answer every lookup alike -/
def QEq (q q' : List (Nat × Bytes × Msg)) : Prop :=
  (∀ e, e ∈ q ↔ e ∈ q') ∧ (∀ r id, lookup q r id = lookup q' r id)

theorem QEq.refl (q : List (Nat × Bytes × Msg)) : QEq q q := ⟨fun _ => Iff.rfl, fun _ _ => rfl⟩
theorem QEq.symm {q q' : List (Nat × Bytes × Msg)} (h : QEq q q') : QEq q' q :=
  ⟨fun e => (h.1 e).symm, fun r id => (h.2 r id).symm⟩
theorem QEq.trans {q q' q'' : List (Nat × Bytes × Msg)} (h : QEq q q') (h' : QEq q' q'') : QEq q q'' :=
  ⟨fun e => (h.1 e).trans (h'.1 e), fun r id => (h.2 r id).trans (h'.2 r id)⟩

theorem lookup_append (q q2 : List (Nat × Bytes × Msg)) (r : Nat) (id : Bytes) :
    lookup (q ++ q2) r id = (lookup q r id).or (lookup q2 r id) := by
  unfold lookup
  rw [List.find?_append]
  cases q.find? (fun e => e.1 == r && e.2.1 == id) <;> simp

theorem QEq.append {q q' : List (Nat × Bytes × Msg)} (h : QEq q q') (x : List (Nat × Bytes × Msg)) :
    QEq (q ++ x) (q' ++ x) := by
  refine ⟨fun e => ?_, fun r id => ?_⟩
  · simp only [List.mem_append, h.1 e]
  · rw [lookup_append, lookup_append, h.2]

/-- all fields equal except the two queues, which hold the same content -/
structure Sim (a b : State) : Prop where
  sc : a.sc = b.sc
  idx : a.idx = b.idx
  cur : a.cur = b.cur
  reached : a.reached = b.reached
  bh : a.bh = b.bh
  err : a.err = b.err
  result : a.result = b.result
  out : a.out = b.out
  closes : a.closes = b.closes
  acc : a.acc = b.acc
  accused : a.accused = b.accused
  msgs : QEq a.msgs b.msgs
  bc : QEq a.bc b.bc

theorem Sim.refl (a : State) : Sim a a :=
  ⟨rfl, rfl, rfl, rfl, rfl, rfl, rfl, rfl, rfl, rfl, rfl, QEq.refl _, QEq.refl _⟩
theorem Sim.symm {a b : State} (h : Sim a b) : Sim b a :=
  ⟨h.sc.symm, h.idx.symm, h.cur.symm, h.reached.symm, h.bh.symm, h.err.symm, h.result.symm, h.out.symm,
   h.closes.symm, h.acc.symm, h.accused.symm, h.msgs.symm, h.bc.symm⟩
theorem Sim.trans {a b c : State} (h : Sim a b) (h' : Sim b c) : Sim a c :=
  ⟨h.sc.trans h'.sc, h.idx.trans h'.idx, h.cur.trans h'.cur, h.reached.trans h'.reached, h.bh.trans h'.bh,
   h.err.trans h'.err, h.result.trans h'.result, h.out.trans h'.out, h.closes.trans h'.closes, h.acc.trans h'.acc,
   h.accused.trans h'.accused, h.msgs.trans h'.msgs, h.bc.trans h'.bc⟩

theorem Sim.of_sameCore {a b a' b' : State} (h : Sim a b) (ha : SameCore a a') (hb : SameCore b b')
    (hacc : a'.acc = b'.acc) (haccu : a'.accused = b'.accused) : Sim a' b' := by
  obtain ⟨a1, a2, a3, a4, a5, a6, a7, a8, a9, a10, a11⟩ := ha
  obtain ⟨b1, b2, b3, b4, b5, b6, b7, b8, b9, b10, b11⟩ := hb
  exact ⟨a1 ▸ b1 ▸ h.sc, a2 ▸ b2 ▸ h.idx, a3 ▸ b3 ▸ h.cur, a4 ▸ b4 ▸ h.reached, a7 ▸ b7 ▸ h.bh, a8 ▸ b8 ▸ h.err,
    a9 ▸ b9 ▸ h.result, a10 ▸ b10 ▸ h.out, a11 ▸ b11 ▸ h.closes, hacc, haccu, a5 ▸ b5 ▸ h.msgs, a6 ▸ b6 ▸ h.bc⟩

theorem curSpec_sim {a b : State} (h : Sim a b) : curSpec a = curSpec b := by
  unfold curSpec; rw [h.sc, h.idx]

theorem sameView_sim {a b : State} (h : Sim a b) (m : Msg) : sameView a m = sameView b m := by
  unfold sameView; rw [h.bh]

theorem terminal_sim {a b : State} (h : Sim a b) : terminal a = terminal b := by
  unfold terminal; rw [h.err, h.result]

theorem canAccept_sim {a b : State} (h : Sim a b) (m : Msg) : canAccept a m = canAccept b m := by
  unfold canAccept; rw [h.sc, h.cur]

theorem duplicate_sim {a b : State} (h : Sim a b) (m : Msg) : duplicate a m = duplicate b m := by
  unfold duplicate; rw [h.sc, h.bc.2, h.msgs.2]

theorem store_sim {a b : State} (h : Sim a b) (m : Msg) : Sim (store a m) (store b m) := by
  unfold store
  have e1 : hasSlot a.sc m.rnd = hasSlot b.sc m.rnd := by rw [h.sc]
  rw [e1, h.bc.2, h.msgs.2]
  split
  · exact h
  · split
    · split
      · exact h
      · exact { h with bc := h.bc.append _ }
    · split
      · exact h
      · exact { h with msgs := h.msgs.append _ }

theorem abort_sim {a b : State} (h : Sim a b) (e : Option ErrKind) : Sim (abort a e) (abort b e) := by
  cases e with
  | none => exact { h with closes := by simp only [abort, h.closes] }
  | some k =>
    exact { h with closes := by simp only [abort, h.closes], err := rfl, out := by simp only [abort, h.out, h.sc] }

theorem enter_sim {a b : State} (h : Sim a b) (i : Nat) (nx : RoundSpec) : Sim (enter a i nx) (enter b i nx) :=
  { h with reached := by simp only [enter, h.reached], cur := rfl, idx := rfl }

theorem enter0_sim {a b : State} (h : Sim a b) : Sim (enter0 a) (enter0 b) :=
  { h with reached := by simp only [enter0, h.reached], cur := rfl }

theorem output_sim {a b : State} (h : Sim a b) (v : Nat) :
    Sim { enter0 a with result := some v } { enter0 b with result := some v } :=
  { enter0_sim h with result := rfl }

/-- results of a verification that agree up to `Sim` -/
def VSim : VRes → VRes → Prop
  | .ok a, .ok b => Sim a b
  | .bad, .bad => True
  | .echo, .echo => True
  | _, _ => False

theorem roundStoreP2P_sim {a b : State} (h : Sim a b) (m : Msg) :
    (roundStoreP2P a m = none ∧ roundStoreP2P b m = none) ∨
    ∃ a' b', roundStoreP2P a m = some a' ∧ roundStoreP2P b m = some b' ∧ Sim a' b' := by
  unfold roundStoreP2P
  cases m.dec with
  | none => exact Or.inl ⟨rfl, rfl⟩
  | some c =>
    simp only
    split
    · exact Or.inl ⟨rfl, rfl⟩
    · exact Or.inr ⟨_, _, rfl, rfl, { h with acc := by simp only [h.acc], accused := by simp only [h.accused] }⟩

theorem roundStoreBcast_sim {a b : State} (h : Sim a b) (m : Msg) :
    (roundStoreBcast a m = none ∧ roundStoreBcast b m = none) ∨
    ∃ a' b', roundStoreBcast a m = some a' ∧ roundStoreBcast b m = some b' ∧ Sim a' b' := by
  unfold roundStoreBcast
  cases m.dec with
  | none => exact Or.inl ⟨rfl, rfl⟩
  | some c =>
    simp only
    split
    · exact Or.inl ⟨rfl, rfl⟩
    · exact Or.inr ⟨_, _, rfl, rfl, { h with acc := by simp only [h.acc], accused := by simp only [h.accused] }⟩

theorem verifyMessage_sim {a b : State} (h : Sim a b) (m : Msg) : VSim (verifyMessage a m) (verifyMessage b m) := by
  unfold verifyMessage
  rw [h.reached, curSpec_sim h, h.bc.2, sameView_sim h]
  split
  · exact h
  · split
    · exact h
    · split
      · trivial
      · split
        · trivial
        · rcases roundStoreP2P_sim h m with ⟨e1, e2⟩ | ⟨a', b', e1, e2, hs⟩
          · rw [e1, e2]; trivial
          · rw [e1, e2]; exact hs

theorem verifyBroadcastMessage_sim {a b : State} (h : Sim a b) (m : Msg) :
    VSim (verifyBroadcastMessage a m) (verifyBroadcastMessage b m) := by
  unfold verifyBroadcastMessage
  rw [h.reached, curSpec_sim h, sameView_sim h]
  split
  · exact h
  · split
    · trivial
    · split
      · trivial
      · rcases roundStoreBcast_sim h m with ⟨e1, e2⟩ | ⟨a', b', e1, e2, hs⟩
        · rw [e1, e2]; trivial
        · rw [e1, e2]
          simp only
          rw [curSpec_sim hs, hs.msgs.2]
          split
          · exact hs
          · split
            · exact hs
            · exact verifyMessage_sim hs _

/-- replay accumulators that agree up to `Sim` -/
def PSim (x y : State × Option Fail) : Prop := Sim x.1 y.1 ∧ x.2 = y.2

theorem failOf_sim {r r' : VRes} (hv : VSim r r') (frm : Bytes) {a b : State} (h : Sim a b) :
    PSim (failOf r frm a) (failOf r' frm b) := by
  cases r <;> cases r' <;> simp only [VSim] at hv
  · exact ⟨hv, rfl⟩
  · exact ⟨h, rfl⟩
  · exact ⟨h, rfl⟩

theorem replayStep_sim (sp : RoundSpec) (n : Nat) {x y : State × Option Fail} (h : PSim x y) (id : Bytes) :
    PSim (replayStep sp n x id) (replayStep sp n y id) := by
  obtain ⟨a, fa⟩ := x
  obtain ⟨b, fb⟩ := y
  obtain ⟨hs, hf⟩ := h
  simp only at hs hf
  subst hf
  cases fa with
  | some c => exact ⟨hs, rfl⟩
  | none =>
    simp only [replayStep]
    rw [hs.sc, hs.bc.2, hs.msgs.2]
    split
    · split
      · exact ⟨hs, rfl⟩
      · split
        · exact ⟨hs, rfl⟩
        · exact failOf_sim (verifyBroadcastMessage_sim hs _) _ hs
    · split
      · exact ⟨hs, rfl⟩
      · exact failOf_sim (verifyMessage_sim hs _) _ hs

theorem replayFold_sim (sp : RoundSpec) (n : Nat) (ids : List Bytes) {x y : State × Option Fail} (h : PSim x y) :
    PSim (ids.foldl (replayStep sp n) x) (ids.foldl (replayStep sp n) y) := by
  induction ids generalizing x y with
  | nil => exact h
  | cons id ids ih => exact ih (replayStep_sim sp n h id)

theorem replayQueued_sim {a b : State} (h : Sim a b) : PSim (replayQueued a) (replayQueued b) := by
  unfold replayQueued
  rw [curSpec_sim h, h.cur, h.sc]
  exact replayFold_sim _ _ _ ⟨h, rfl⟩

theorem echoHash_qeq (H : Bytes → Bytes) (sc : Script) {q q' : List (Nat × Bytes × Msg)} (h : QEq q q') (r : Nat) :
    echoHash H sc q r = echoHash H sc q' r := by
  unfold echoHash
  have : (sc.ids.map fun id => lookup q r id) = (sc.ids.map fun id => lookup q' r id) :=
    List.map_congr_left (fun id _ => h.2 r id)
  simp only [this]

theorem fillBh_sim (H : Bytes → Bytes) {a b : State} (h : Sim a b) : Sim (fillBh H a) (fillBh H b) := by
  unfold fillBh
  rw [curSpec_sim h, echoHash_qeq H a.sc h.bc]
  have e1 : hasSlot a.sc a.cur = hasSlot b.sc b.cur := by rw [h.sc, h.cur]
  have e2 : echoHash H a.sc b.bc a.cur = echoHash H b.sc b.bc b.cur := by rw [h.sc, h.cur]
  have e3 : bhLookup a.bh a.cur = bhLookup b.bh b.cur := by rw [h.bh, h.cur]
  rw [e1, e2, e3]
  split
  · split
    · split
      · exact { h with bh := by simp only [h.bh, h.cur] }
      · exact h
    · exact h
  · exact h

theorem p2pAll_sim {a b : State} (h : Sim a b) : p2pAll a = p2pAll b := by
  unfold p2pAll
  rw [curSpec_sim h, h.sc, h.cur]
  have : (fun id => (lookup a.msgs b.cur id).isSome) = (fun id => (lookup b.msgs b.cur id).isSome) := by
    funext id; rw [h.msgs.2]
  rw [this]

theorem receivedAllB_sim (H : Bytes → Bytes) {a b : State} (h : Sim a b) : receivedAllB H a = receivedAllB H b := by
  unfold receivedAllB
  rw [curSpec_sim h, echoHash_qeq H a.sc h.bc, p2pAll_sim h, h.sc, h.cur]

theorem all_congr_mem {α : Type} (l l' : List α) (p : α → Bool) (h : ∀ e, e ∈ l ↔ e ∈ l') : l.all p = l'.all p := by
  rw [Bool.eq_iff_iff]
  simp only [List.all_eq_true]
  exact ⟨fun g e he => g e ((h e).2 he), fun g e he => g e ((h e).1 he)⟩

theorem checkBroadcastHash_sim {a b : State} (h : Sim a b) : checkBroadcastHash a = checkBroadcastHash b := by
  unfold checkBroadcastHash
  rw [h.bh, h.cur]
  cases bhLookup b.bh (b.cur - 1) with
  | none => rfl
  | some prev =>
    simp only
    rw [all_congr_mem a.msgs b.msgs _ h.msgs.1, all_congr_mem a.bc b.bc _ h.bc.1]

theorem protoFinalize_sim {a b : State} (h : Sim a b) : protoFinalize a = protoFinalize b := by
  unfold protoFinalize
  rw [h.sc, h.cur, h.accused, h.idx, h.acc]

theorem emitFor_sim {a b : State} (h : Sim a b) (nx : RoundSpec) : emitFor a nx = emitFor b nx := by
  unfold emitFor
  rw [h.sc, h.bh]

theorem foldStore_sim (ems : List Msg) {a b : State} (h : Sim a b) :
    Sim (ems.foldl (fun st m => if m.bcast then store st m else st) a)
        (ems.foldl (fun st m => if m.bcast then store st m else st) b) := by
  induction ems generalizing a b with
  | nil => exact h
  | cons m ms ih =>
    rw [List.foldl_cons, List.foldl_cons]
    split
    · exact ih (store_sim h m)
    · exact ih h

theorem sendAll_sim {a b : State} (h : Sim a b) (ems : List Msg) : Sim (sendAll a ems) (sendAll b ems) := by
  unfold sendAll
  have := foldStore_sim ems h
  exact { this with out := by simp only [this.out] }

/-- results of one pass of `finalize` that agree up to `Sim` -/
def StSim : Step → Step → Prop
  | .halt a, .halt b => Sim a b
  | .more a, .more b => Sim a b
  | _, _ => False

theorem finalizeStep_sim (H : Bytes → Bytes) {a b : State} (h : Sim a b) :
    StSim (finalizeStep H a) (finalizeStep H b) := by
  have h1 := fillBh_sim H h
  unfold finalizeStep
  simp only
  rw [receivedAllB_sim H h, checkBroadcastHash_sim h1, protoFinalize_sim h1]
  split
  · exact h1
  · split
    · exact abort_sim h1 _
    · split
      · exact abort_sim h1 _
      · rw [h1.reached]
        split
        · exact h1
        · exact abort_sim (enter0_sim h1) _
      · rw [h1.reached]
        split
        · exact h1
        · exact abort_sim (output_sim h1 _) _
      · next i nx _ =>
        rw [emitFor_sim h1]
        have h3 := sendAll_sim h1 (emitFor (fillBh H b) nx)
        rw [h3.reached]
        split
        · exact h3
        · have h5 := replayQueued_sim (enter_sim h3 i nx)
          generalize replayQueued (enter (sendAll (fillBh H a) (emitFor (fillBh H b) nx)) i nx) = x at h5
          generalize replayQueued (enter (sendAll (fillBh H b) (emitFor (fillBh H b) nx)) i nx) = y at h5
          obtain ⟨xa, xf⟩ := x
          obtain ⟨ya, yf⟩ := y
          obtain ⟨hs, hf⟩ := h5
          simp only at hs hf
          subst hf
          cases xf with
          | some f => exact abort_sim hs _
          | none => exact hs

theorem finalize_sim (H : Bytes → Bytes) (fuel : Nat) {a b : State} (h : Sim a b) :
    Sim (finalize H fuel a) (finalize H fuel b) := by
  induction fuel generalizing a b with
  | zero => exact h
  | succ fuel ih =>
    unfold finalize
    have := finalizeStep_sim H h
    generalize finalizeStep H a = x at this
    generalize finalizeStep H b = y at this
    cases x <;> cases y <;> simp only [StSim] at this
    · exact this
    · exact ih this

theorem acceptStored_sim (H : Bytes → Bytes) {a b : State} (h : Sim a b) (m : Msg) :
    Sim (acceptStored H a m) (acceptStored H b m) := by
  unfold acceptStored
  rw [h.cur]
  split
  · exact h
  · have hv : VSim (if m.bcast then verifyBroadcastMessage a m else verifyMessage a m)
        (if m.bcast then verifyBroadcastMessage b m else verifyMessage b m) := by
      split
      · exact verifyBroadcastMessage_sim h m
      · exact verifyMessage_sim h m
    generalize (if m.bcast then verifyBroadcastMessage a m else verifyMessage a m) = x at hv
    generalize (if m.bcast then verifyBroadcastMessage b m else verifyMessage b m) = y at hv
    cases x <;> cases y <;> simp only [VSim] at hv
    · simp only
      rw [hv.sc]
      exact finalize_sim H _ hv
    · exact abort_sim h _
    · exact abort_sim h _

theorem accept_sim (H : Bytes → Bytes) {a b : State} (h : Sim a b) (m : Msg) : Sim (accept H a m) (accept H b m) := by
  unfold accept
  rw [canAccept_sim h, terminal_sim h, duplicate_sim h]
  split
  · exact h
  · split
    · exact abort_sim h _
    · exact acceptStored_sim H (store_sim h m) m

/-! ## Part 2: honest message sets -/

/-- the round of the script with number `r` -/
def specOf (sc : Script) (r : Nat) : Option RoundSpec := sc.rounds.find? (fun sp => sp.num == r)

/-- a script as the library's protocols define them: distinct party ids, the first round has number 1,
    round numbers increase -/
structure ScriptOk (sc : Script) : Prop where
  ids_nodup : sc.ids.Nodup
  first : (sc.rounds[0]?).map (·.num) = some 1
  incr : sc.rounds.Pairwise (fun a b => a.num < b.num)

instance (sc : Script) : Decidable (ScriptOk sc) :=
  decidable_of_iff (sc.ids.Nodup ∧ (sc.rounds[0]?).map (·.num) = some 1 ∧ sc.rounds.Pairwise (fun a b => a.num < b.num))
    ⟨fun h => ⟨h.1, h.2.1, h.2.2⟩, fun h => ⟨h.1, h.2, h.3⟩⟩

/-- this party's own broadcast for round `r`, carrying `bv` (what `emitFor` builds) -/
def ownB (sc : Script) (r : Nat) (bv : Option Bytes) : Msg :=
  { ssid := some sc.ssid, frm := sc.self, to := [], proto := sc.proto, rnd := r,
    data := some (cborContent ⟨honestV sc sc.self [] r, 0⟩), bcast := true, bv := bv,
    dec := some ⟨honestV sc sc.self [] r, 0⟩ }

/-- the broadcasts among `M`, as a queue -/
def bcOf (M : List Msg) : List (Nat × Bytes × Msg) := (M.filter (·.bcast)).map fun m => (m.rnd, m.frm, m)

/-- the echo hash of round `r` that every honest party computes in a session where the peers' messages to
    this party are `M`: the hash over this party's own broadcast and the peers' broadcasts of round `r`
    (defined when `r` is a broadcast round with a queue and all of them are in `M`) -/
def expBh (H : Bytes → Bytes) (sc : Script) (M : List Msg) : Nat → Option Bytes
  | 0 => none
  | r + 1 =>
    match specOf sc (r + 1) with
    | some sp =>
      if sp.recvB && hasSlot sc (r + 1) then
        echoHash H sc ((r + 1, sc.self, ownB sc (r + 1) (expBh H sc M r)) :: bcOf M) (r + 1)
      else none
    | none => none

/-- `m` is what an honest peer sends to this party in the session of `M` -/
structure HonestMsg (H : Bytes → Bytes) (sc : Script) (M : List Msg) (m : Msg) : Prop where
  notSelf : m.frm ≠ sc.self
  toMe : m.to = [] ∨ m.to = sc.self
  proto : m.proto = sc.proto
  ssid : m.ssid.getD [] = sc.ssid
  known : m.frm ∈ sc.ids
  data : m.data.isSome = true
  slot : hasSlot sc m.rnd = true
  kind : (specOf sc m.rnd).map (fun sp => if m.bcast then sp.recvB else sp.recvP) = some true
  content : m.dec.map (·.f) = some 0
  echo : ∀ h ∈ expBh H sc M (m.rnd - 1), m.bv.getD [] = h

instance (H : Bytes → Bytes) (sc : Script) (M : List Msg) (m : Msg) : Decidable (HonestMsg H sc M m) :=
  decidable_of_iff (m.frm ≠ sc.self ∧ (m.to = [] ∨ m.to = sc.self) ∧ m.proto = sc.proto ∧ m.ssid.getD [] = sc.ssid ∧
      m.frm ∈ sc.ids ∧ m.data.isSome = true ∧ hasSlot sc m.rnd = true ∧
      (specOf sc m.rnd).map (fun sp => if m.bcast then sp.recvB else sp.recvP) = some true ∧
      m.dec.map (·.f) = some 0 ∧ ∀ h ∈ expBh H sc M (m.rnd - 1), m.bv.getD [] = h)
    ⟨fun h => ⟨h.1, h.2.1, h.2.2.1, h.2.2.2.1, h.2.2.2.2.1, h.2.2.2.2.2.1, h.2.2.2.2.2.2.1, h.2.2.2.2.2.2.2.1,
        h.2.2.2.2.2.2.2.2.1, h.2.2.2.2.2.2.2.2.2⟩,
     fun h => ⟨h.1, h.2, h.3, h.4, h.5, h.6, h.7, h.8, h.9, h.10⟩⟩

/-- `M` is a set of messages honest peers send to this party in one session: each one is well-formed for the
    session, of the kind its round expects, decodable without failure flags, stamped with the session's echo
    hash of the preceding round, and there are no two different messages for the same (round, sender, kind) -/
structure Honest (H : Bytes → Bytes) (sc : Script) (M : List Msg) : Prop where
  script : ScriptOk sc
  msgs : ∀ m ∈ M, HonestMsg H sc M m
  uniq : ∀ m ∈ M, ∀ m' ∈ M, m.rnd = m'.rnd → m.frm = m'.frm → m.bcast = m'.bcast → m = m'

instance (H : Bytes → Bytes) (sc : Script) (M : List Msg) : Decidable (Honest H sc M) :=
  decidable_of_iff (ScriptOk sc ∧ (∀ m ∈ M, HonestMsg H sc M m) ∧
      ∀ m ∈ M, ∀ m' ∈ M, m.rnd = m'.rnd → m.frm = m'.frm → m.bcast = m'.bcast → m = m')
    ⟨fun h => ⟨h.1, h.2.1, h.2.2⟩, fun h => ⟨h.1, h.2, h.3⟩⟩

theorem find_of_getElem (l : List RoundSpec) (hp : l.Pairwise (fun a b => a.num < b.num)) (i : Nat) (sp : RoundSpec)
    (h : l[i]? = some sp) : l.find? (fun x => x.num == sp.num) = some sp := by
  induction l generalizing i with
  | nil => simp at h
  | cons x xs ih =>
    cases i with
    | zero =>
      simp only [List.getElem?_cons_zero, Option.some.injEq] at h
      subst h
      simp [List.find?]
    | succ i =>
      simp only [List.getElem?_cons_succ] at h
      have hx : x.num < sp.num := (List.pairwise_cons.mp hp).1 sp (List.mem_of_getElem? h)
      have : (x.num == sp.num) = false := by simp; omega
      simp only [List.find?, this]
      exact ih (List.pairwise_cons.mp hp).2 i h

theorem specOf_of_getElem (sc : Script) (ok : ScriptOk sc) (i : Nat) (sp : RoundSpec) (h : sc.rounds[i]? = some sp) :
    specOf sc sp.num = some sp := find_of_getElem sc.rounds ok.incr i sp h

theorem specOf_num (sc : Script) (r : Nat) (sp : RoundSpec) (h : specOf sc r = some sp) : sp.num = r := by
  unfold specOf at h
  have := List.find?_some h
  simpa using this

theorem specOf_getElem (sc : Script) (r : Nat) (sp : RoundSpec) (h : specOf sc r = some sp) :
    ∃ i : Nat, sc.rounds[i]? = some sp := by
  unfold specOf at h
  exact List.getElem?_of_mem (List.mem_of_find?_eq_some h)

/-- position of rounds by number: a round with a larger number sits at a larger index -/
theorem idx_lt_of_num_lt (sc : Script) (ok : ScriptOk sc) (i j : Nat) (a b : RoundSpec)
    (ha : sc.rounds[i]? = some a) (hb : sc.rounds[j]? = some b) (h : a.num < b.num) : i < j := by
  have hp := List.pairwise_iff_getElem.mp ok.incr
  obtain ⟨hi, ea⟩ := List.getElem?_eq_some_iff.mp ha
  obtain ⟨hj, eb⟩ := List.getElem?_eq_some_iff.mp hb
  rcases Nat.lt_trichotomy i j with g | g | g
  · exact g
  · subst g; rw [ea] at eb; subst eb; omega
  · have := hp j i hj hi g
    rw [ea, eb] at this; omega

def addAcc (s : State) (v : Nat) : State := { s with acc := s.acc + v }

/-- the value a message contributes to the protocol state -/
def val (m : Msg) : Nat := (m.dec.map (·.v)).getD 0

theorem addAcc_zero (s : State) : addAcc s 0 = s := by cases s; simp [addAcc]
theorem addAcc_add (s : State) (a b : Nat) : addAcc (addAcc s a) b = addAcc s (a + b) := by
  simp [addAcc, Nat.add_assoc]
theorem addAcc_sameCore (s : State) (v : Nat) : SameCore s (addAcc s v) :=
  ⟨rfl, rfl, rfl, rfl, rfl, rfl, rfl, rfl, rfl, rfl, rfl⟩

theorem hasFlag_zero (b : Nat) : hasFlag 0 b = false := by simp [hasFlag]

theorem roundStoreP2P_honest (s : State) (m : Msg) (h : m.dec.map (·.f) = some 0) :
    roundStoreP2P s m = some (addAcc s (val m)) := by
  unfold roundStoreP2P val
  cases hd : m.dec with
  | none => simp [hd] at h
  | some c =>
    simp only [hd, Option.map_some, Option.some.injEq] at h
    simp [h, hasFlag_zero, addAcc]

theorem roundStoreBcast_honest (s : State) (m : Msg) (h : m.dec.map (·.f) = some 0) :
    roundStoreBcast s m = some (addAcc s (val m)) := by
  unfold roundStoreBcast val
  cases hd : m.dec with
  | none => simp [hd] at h
  | some c =>
    simp only [hd, Option.map_some, Option.some.injEq] at h
    simp [h, hasFlag_zero, addAcc]

/-! ### the invariant of a running handler that has only been given messages of an honest set -/

structure HInv (H : Bytes → Bytes) (sc : Script) (M : List Msg) (s : State) : Prop where
  scEq : s.sc = sc
  live : Live s
  keys : QueueKeys s
  idx : ∃ spec, sc.rounds[s.idx]? = some spec ∧ spec.num = s.cur
  accused : s.accused = []
  reached : ∀ r ∈ s.reached, 0 < r ∧ r ≤ s.cur
  curIn : s.cur ∈ s.reached
  msgs : ∀ e ∈ s.msgs, e.2.2 ∈ M
  bc : ∀ e ∈ s.bc, e.2.2 ∈ M ∨ e.2.2 = ownB sc e.1 (expBh H sc M (e.1 - 1))
  bh : ∀ r h, bhLookup s.bh r = some h → expBh H sc M r = some h

section
variable {H : Bytes → Bytes} {sc : Script} {M : List Msg}

theorem HInv.curSpec_eq {s : State} (inv : HInv H sc M s) :
    sc.rounds[s.idx]? = some (curSpec s) ∧ (curSpec s).num = s.cur := by
  obtain ⟨spec, h1, h2⟩ := inv.idx
  have : curSpec s = spec := by
    unfold curSpec
    rw [inv.scEq]
    simp [List.getD, h1]
  rw [this]; exact ⟨h1, h2⟩

theorem HInv.specOf_cur {s : State} (hM : Honest H sc M) (inv : HInv H sc M s) : specOf sc s.cur = some (curSpec s) := by
  have := specOf_of_getElem sc hM.script s.idx (curSpec s) inv.curSpec_eq.1
  rw [inv.curSpec_eq.2] at this
  exact this

theorem HInv.idx_lt {s : State} (inv : HInv H sc M s) : s.idx < sc.rounds.length := by
  obtain ⟨spec, h1, _⟩ := inv.idx
  exact (List.getElem?_eq_some_iff.mp h1).1

theorem HInv.cur_pos {s : State} (inv : HInv H sc M s) : 0 < s.cur := (inv.reached s.cur inv.curIn).1

theorem HInv.store' {s : State} (inv : HInv H sc M s) (m : Msg)
    (hm : m ∈ M ∨ (m.bcast = true ∧ m = ownB sc m.rnd (expBh H sc M (m.rnd - 1)))) : HInv H sc M (store s m) := by
  have hsl := store_sameLife s m
  have hi := store_idx s m
  refine ⟨by rw [store_sc]; exact inv.scEq, inv.live.of_sameLife hsl, store_queueKeys s m inv.keys, ?_, ?_, ?_, ?_, ?_, ?_, ?_⟩
  · rw [hi.1, hi.2]; exact inv.idx
  all_goals (unfold Handler.store; split)
  all_goals first
    | exact inv.accused
    | exact inv.reached
    | exact inv.curIn
    | exact inv.msgs
    | exact inv.bc
    | exact inv.bh
    | skip
  all_goals (split <;> split)
  all_goals first
    | exact inv.accused
    | exact inv.reached
    | exact inv.curIn
    | exact inv.msgs
    | exact inv.bc
    | exact inv.bh
    | skip
  · next hb _ =>
    intro e he
    simp only [List.mem_append, List.mem_singleton] at he
    rcases he with he | rfl
    · exact inv.msgs e he
    · rcases hm with hm | hm
      · exact hm
      · exact absurd hm.1 hb
  · intro e he
    simp only [List.mem_append, List.mem_singleton] at he
    rcases he with he | rfl
    · exact inv.bc e he
    · rcases hm with hm | hm
      · exact Or.inl hm
      · exact Or.inr hm.2

theorem HInv.store {s : State} (inv : HInv H sc M s) (m : Msg) (hm : m ∈ M) : HInv H sc M (store s m) :=
  inv.store' m (Or.inl hm)

theorem HInv.addAcc {s : State} (inv : HInv H sc M s) (v : Nat) : HInv H sc M (addAcc s v) :=
  ⟨inv.scEq, inv.live, inv.keys, inv.idx, inv.accused, inv.reached, inv.curIn, inv.msgs, inv.bc, inv.bh⟩

theorem HInv.sameView {s : State} (inv : HInv H sc M s) (m : Msg) (hm : HonestMsg H sc M m) (_hr : m.rnd = s.cur) :
    sameView s m = true := by
  unfold Handler.sameView
  cases hb : bhLookup s.bh (m.rnd - 1) with
  | none => rfl
  | some prev =>
    simp only [beq_iff_eq]
    exact hm.echo prev (inv.bh _ _ hb)

theorem HonestMsg.recv {m : Msg} (hm : HonestMsg H sc M m) (sp : RoundSpec) (h : specOf sc m.rnd = some sp) :
    (if m.bcast then sp.recvB else sp.recvP) = true := by
  have := hm.kind
  rw [h] at this
  simpa using this

/-- closed form of `verifyMessage` for an honest p2p message of the current round -/
theorem verifyMessage_honest {s : State} (hM : Honest H sc M) (inv : HInv H sc M s) (m : Msg) (hm : m ∈ M)
    (hr : m.rnd = s.cur) (hb : m.bcast = false) :
    verifyMessage s m =
      .ok (if (curSpec s).recvB && (lookup s.bc m.rnd m.frm).isNone then s else addAcc s (val m)) := by
  have hh := hM.msgs m hm
  have h1 : s.reached.contains m.rnd = true := by rw [hr]; simpa using inv.curIn
  have h2 := inv.sameView m hh hr
  have h3 : (curSpec s).recvP = true := by
    have := hh.recv (curSpec s) (by rw [hr]; exact inv.specOf_cur hM)
    simpa [hb] using this
  unfold verifyMessage
  simp only [h1, h2, h3, Bool.not_true, Bool.false_eq_true, if_false, roundStoreP2P_honest s m hh.content]
  split <;> rfl

/-- closed form of `verifyBroadcastMessage` for a stored honest broadcast of the current round -/
theorem verifyBroadcastMessage_honest {s : State} (hM : Honest H sc M) (inv : HInv H sc M s) (m : Msg) (hm : m ∈ M)
    (hr : m.rnd = s.cur) (hb : m.bcast = true) (hst : lookup s.bc m.rnd m.frm = some m) :
    verifyBroadcastMessage s m =
      .ok (addAcc s (val m + (if (curSpec s).recvP then
          (match lookup s.msgs m.rnd m.frm with | some p => val p | none => 0) else 0))) := by
  have hh := hM.msgs m hm
  have h1 : s.reached.contains m.rnd = true := by rw [hr]; simpa using inv.curIn
  have h2 := inv.sameView m hh hr
  have h3 : (curSpec s).recvB = true := by
    have := hh.recv (curSpec s) (by rw [hr]; exact inv.specOf_cur hM)
    simpa [hb] using this
  unfold verifyBroadcastMessage
  simp only [h1, h2, h3, Bool.not_true, Bool.false_eq_true, if_false, roundStoreBcast_honest s m hh.content]
  have hcs : curSpec (addAcc s (val m)) = curSpec s := rfl
  have hms : (addAcc s (val m)).msgs = s.msgs := rfl
  rw [hcs, hms]
  cases hp : (curSpec s).recvP with
  | false => simp
  | true =>
    simp only [Bool.not_true, Bool.false_eq_true, if_false, if_true]
    cases hl : lookup s.msgs m.rnd m.frm with
    | none => simp
    | some p =>
      simp only
      obtain ⟨e, he, rfl, hk1, hk2⟩ := lookup_keys _ _ _ _ hl
      have k := inv.keys.1 e he
      have hv := verifyMessage_honest hM (inv.addAcc (val m)) e.2.2 (inv.msgs e he) (by rw [← k.1, hk1]; exact hr) k.2.2
      rw [hv]
      have hbc : (addAcc s (val m)).bc = s.bc := rfl
      rw [hbc, ← k.1, ← k.2.1, hk1, hk2, hst]
      simp [addAcc_add]

end

section
variable {H : Bytes → Bytes} {sc : Script} {M : List Msg}

/-- what the replay of the queue adds to the protocol state for sender `id` -/
def contrib (s : State) (id : Bytes) : Nat :=
  if (curSpec s).recvB then
    if id == s.sc.self then 0 else
    match lookup s.bc s.cur id with
    | none => 0
    | some b => val b + (if (curSpec s).recvP then
        (match lookup s.msgs s.cur id with | some p => val p | none => 0) else 0)
  else
    match lookup s.msgs s.cur id with
    | none => 0
    | some p => val p

def rsum (s : State) : Nat := (s.sc.ids.map (contrib s)).sum

theorem ownB_frm (r : Nat) (bv : Option Bytes) : (ownB sc r bv).frm = sc.self := rfl

/-- a stored broadcast of another party comes from `M` -/
theorem HInv.bc_other {s : State} (inv : HInv H sc M s) (r : Nat) (id : Bytes) (b : Msg)
    (hl : lookup s.bc r id = some b) (hid : id ≠ sc.self) :
    b ∈ M ∧ b.rnd = r ∧ b.frm = id ∧ b.bcast = true := by
  obtain ⟨e, he, rfl, hk1, hk2⟩ := lookup_keys _ _ _ _ hl
  have k := inv.keys.2 e he
  refine ⟨?_, by rw [← k.1, hk1], by rw [← k.2.1, hk2], k.2.2⟩
  rcases inv.bc e he with h | h
  · exact h
  · exfalso
    apply hid
    rw [← hk2, k.2.1, h]; rfl

theorem HInv.msgs_mem {s : State} (inv : HInv H sc M s) (r : Nat) (id : Bytes) (p : Msg)
    (hl : lookup s.msgs r id = some p) : p ∈ M ∧ p.rnd = r ∧ p.frm = id ∧ p.bcast = false := by
  obtain ⟨e, he, rfl, hk1, hk2⟩ := lookup_keys _ _ _ _ hl
  have k := inv.keys.1 e he
  exact ⟨inv.msgs e he, by rw [← k.1, hk1], by rw [← k.2.1, hk2], k.2.2⟩

theorem replayStep_honest {s : State} (hM : Honest H sc M) (inv : HInv H sc M s) (id : Bytes) :
    replayStep (curSpec s) s.cur (s, none) id = (addAcc s (contrib s id), none) := by
  simp only [replayStep, contrib]
  cases hB : (curSpec s).recvB with
  | true =>
    simp only [if_true]
    by_cases hid : (id == s.sc.self) = true
    · simp only [hid, if_true, addAcc_zero]
    · simp only [hid, Bool.false_eq_true, if_false]
      cases hl : lookup s.bc s.cur id with
      | none => simp only [addAcc_zero]
      | some b =>
        simp only
        have hid' : id ≠ sc.self := by rw [← inv.scEq]; simpa using hid
        obtain ⟨hb1, hb2, hb3, hb4⟩ := inv.bc_other s.cur id b hl hid'
        have hv := verifyBroadcastMessage_honest hM inv b hb1 hb2 hb4 (by rw [hb2, hb3]; exact hl)
        rw [hv, hb2, hb3]
        rfl
  | false =>
    simp only [Bool.false_eq_true, if_false]
    cases hl : lookup s.msgs s.cur id with
    | none => simp only [addAcc_zero]
    | some p =>
      simp only
      obtain ⟨hp1, hp2, hp3, hp4⟩ := inv.msgs_mem s.cur id p hl
      have hv := verifyMessage_honest hM inv p hp1 hp2 hp4
      rw [hv, hB]
      rfl

theorem contrib_addAcc (s : State) (v : Nat) : contrib (addAcc s v) = contrib s := rfl

theorem replayFold_honest {s : State} (hM : Honest H sc M) (inv : HInv H sc M s) (ids : List Bytes) (x : Nat) :
    ids.foldl (replayStep (curSpec s) s.cur) (addAcc s x, none) = (addAcc s (x + (ids.map (contrib s)).sum), none) := by
  induction ids generalizing x with
  | nil => simp
  | cons id ids ih =>
    rw [List.foldl_cons]
    have := replayStep_honest hM (inv.addAcc x) id
    have e1 : curSpec (addAcc s x) = curSpec s := rfl
    have e2 : (addAcc s x).cur = s.cur := rfl
    rw [e1, e2] at this
    rw [this, contrib_addAcc, addAcc_add, ih]
    simp [Nat.add_assoc]

/-- closed form of the replay of the queue on entering a round -/
theorem replayQueued_honest {s : State} (hM : Honest H sc M) (inv : HInv H sc M s) :
    replayQueued s = (addAcc s (rsum s), none) := by
  unfold replayQueued rsum
  have := replayFold_honest hM inv s.sc.ids 0
  rw [addAcc_zero] at this
  rw [this]
  simp

end

section
variable {H : Bytes → Bytes} {sc : Script} {M : List Msg}

theorem fillBh_eq (H : Bytes → Bytes) (s : State) : fillBh H s = { s with bh := (fillBh H s).bh } := by
  unfold fillBh
  split
  · split
    · split <;> rfl
    · rfl
  · rfl

theorem lookup_bcOf (hM : Honest H sc M) (x : Msg) (hx : x ∈ M) (hb : x.bcast = true) :
    lookup (bcOf M) x.rnd x.frm = some x := by
  have hmem : (x.rnd, x.frm, x) ∈ bcOf M := by
    unfold bcOf
    exact List.mem_map.mpr ⟨x, List.mem_filter.mpr ⟨hx, hb⟩, rfl⟩
  unfold lookup
  cases hf : (bcOf M).find? (fun e => e.1 == x.rnd && e.2.1 == x.frm) with
  | none =>
    have := List.find?_eq_none.mp hf _ hmem
    simp at this
  | some e =>
    have he := List.mem_of_find?_eq_some hf
    have hp := List.find?_some hf
    simp only [Bool.and_eq_true, beq_iff_eq] at hp
    unfold bcOf at he
    obtain ⟨y, hy, rfl⟩ := List.mem_map.mp he
    obtain ⟨hy1, hy2⟩ := List.mem_filter.mp hy
    have := hM.uniq y hy1 x hx hp.1 hp.2 (by rw [hb]; exact hy2)
    subst this
    rfl

theorem lookup_cons_ne (x : Nat × Bytes × Msg) (q : List (Nat × Bytes × Msg)) (r : Nat) (id : Bytes)
    (h : ¬ (x.1 = r ∧ x.2.1 = id)) : lookup (x :: q) r id = lookup q r id := by
  unfold lookup
  have : (x.1 == r && x.2.1 == id) = false := by
    simp only [Bool.and_eq_false_iff, beq_eq_false_iff_ne]
    by_cases h1 : x.1 = r
    · exact Or.inr (fun h2 => h ⟨h1, h2⟩)
    · exact Or.inl h1
  simp only [List.find?, this]

theorem lookup_cons_eq (r : Nat) (id : Bytes) (m : Msg) (q : List (Nat × Bytes × Msg)) :
    lookup ((r, id, m) :: q) r id = some m := by
  simp [lookup, List.find?]

/-- the echo hash the handler computes over its stored broadcasts of the current round is the session's -/
theorem HInv.expBh_of_echo {s : State} (hM : Honest H sc M) (inv : HInv H sc M s)
    (hc : ((curSpec s).recvB && hasSlot sc s.cur) = true) (h : Bytes) (he : echoHash H sc s.bc s.cur = some h) :
    expBh H sc M s.cur = some h := by
  have hpos := inv.cur_pos
  obtain ⟨k, hk⟩ : ∃ k, s.cur = k + 1 := ⟨s.cur - 1, by omega⟩
  have hspec := inv.specOf_cur hM
  rw [hk] at hspec hc he ⊢
  unfold expBh
  simp only [hspec, hc, if_true]
  apply echoHash_congr H sc s.bc _ (k + 1) h he
  intro id hid
  have hsome := (echoHash_some H sc s.bc (k + 1) h he).1 id hid
  obtain ⟨x, hx⟩ := Option.isSome_iff_exists.mp hsome
  rw [hx]
  by_cases hself : id = sc.self
  · subst hself
    obtain ⟨e, hem, rfl, hk1, hk2⟩ := lookup_keys _ _ _ _ hx
    have kk := inv.keys.2 e hem
    rcases inv.bc e hem with hm | hm
    · exact absurd (by rw [← kk.2.1, hk2]) (hM.msgs _ hm).notSelf
    · rw [hm, hk1]
      exact lookup_cons_eq _ _ _ _
  · rw [lookup_cons_ne _ _ _ _ (by simp only [not_and]; intro _ h2; exact hself h2.symm)]
    obtain ⟨hb1, hb2, hb3, hb4⟩ := inv.bc_other (k + 1) id x (by rw [← hk]; rw [hk]; exact hx) hself
    rw [← hb2, ← hb3]
    exact lookup_bcOf hM x hb1 hb4

theorem HInv.fill {s : State} (hM : Honest H sc M) (inv : HInv H sc M s) : HInv H sc M (fillBh H s) := by
  rw [fillBh_eq]
  refine ⟨inv.scEq, inv.live, inv.keys, inv.idx, inv.accused, inv.reached, inv.curIn, inv.msgs, inv.bc, ?_⟩
  simp only
  unfold fillBh
  split
  · next hc =>
    split
    · next h he =>
      split
      · intro r x hr
        simp only at hr
        rw [bhLookup_append] at hr
        cases hb : bhLookup s.bh r with
        | some y =>
          rw [hb] at hr
          simp only [Option.some_or, Option.some.injEq] at hr
          subst hr
          exact inv.bh r y hb
        | none =>
          rw [hb] at hr
          simp only [Option.none_or] at hr
          split at hr
          · next hcr =>
            simp only [Option.some.injEq] at hr
            subst hr
            have : s.cur = r := by simpa using hcr
            subst this
            rw [inv.scEq] at hc he
            exact inv.expBh_of_echo hM hc h he
          · simp at hr
      · exact inv.bh
    · exact inv.bh
  · exact inv.bh

end

section
variable {H : Bytes → Bytes} {sc : Script} {M : List Msg}

theorem HInv.check {s : State} (hM : Honest H sc M) (inv : HInv H sc M s) : checkBroadcastHash s = true := by
  unfold checkBroadcastHash
  cases hb : bhLookup s.bh (s.cur - 1) with
  | none => rfl
  | some prev =>
    have hexp := inv.bh _ _ hb
    simp only [Bool.and_eq_true, List.all_eq_true, Bool.or_eq_true, bne_iff_ne, ne_eq, beq_iff_eq]
    constructor
    · intro e he
      by_cases hr : e.1 = s.cur
      · right
        have k := inv.keys.1 e he
        have hh := hM.msgs _ (inv.msgs e he)
        exact hh.echo prev (by rw [← k.1, hr]; exact hexp)
      · exact Or.inl hr
    · intro e he
      by_cases hr : e.1 = s.cur
      · right
        have k := inv.keys.2 e he
        rcases inv.bc e he with hm | hm
        · exact (hM.msgs _ hm).echo prev (by rw [← k.1, hr]; exact hexp)
        · rw [hm, hr]
          show (expBh H sc M (s.cur - 1)).getD [] = prev
          rw [hexp]; rfl
      · exact Or.inl hr

theorem foldStore_nobcast (l : List Msg) (s : State) (h : ∀ m ∈ l, m.bcast = false) :
    l.foldl (fun st m => if m.bcast then store st m else st) s = s := by
  induction l generalizing s with
  | nil => rfl
  | cons m ms ih =>
    rw [List.foldl_cons]
    have : m.bcast = false := h m (by simp)
    simp only [this, Bool.false_eq_true, if_false]
    exact ih s (fun x hx => h x (by simp [hx]))

/-- what `sendAll` of a round's emissions stores: this party's own broadcast, if the next round has one -/
theorem foldStore_emit (s t : State) (nx : RoundSpec) :
    (emitFor s nx).foldl (fun st m => if m.bcast then store st m else st) t =
      if nx.recvB then store t (ownB s.sc nx.num (bhLookup s.bh (nx.num - 1))) else t := by
  unfold emitFor
  simp only
  rw [List.foldl_append]
  have h2 : ∀ (l : List Bytes), (∀ m ∈ (if nx.recvP then l.map fun id =>
        ({ ssid := some s.sc.ssid, frm := s.sc.self, to := id, proto := s.sc.proto, rnd := nx.num,
           data := some (cborContent ⟨honestV s.sc s.sc.self id nx.num, 0⟩), bcast := false,
           bv := bhLookup s.bh (nx.num - 1), dec := some ⟨honestV s.sc s.sc.self id nx.num, 0⟩ } : Msg) else []),
        m.bcast = false) := by
    intro l m hm
    split at hm
    · obtain ⟨id, _, rfl⟩ := List.mem_map.mp hm
      rfl
    · simp at hm
  rw [foldStore_nobcast _ _ (h2 _)]
  cases nx.recvB with
  | true => rfl
  | false => rfl

theorem sendAll_eq' (s t : State) (nx : RoundSpec) :
    sendAll t (emitFor s nx) =
      { (if nx.recvB then store t (ownB s.sc nx.num (bhLookup s.bh (nx.num - 1))) else t) with
        out := (if nx.recvB then store t (ownB s.sc nx.num (bhLookup s.bh (nx.num - 1))) else t).out ++ emitFor s nx } := by
  unfold sendAll
  simp only [foldStore_emit]

theorem sendAll_eq (s : State) (nx : RoundSpec) :
    sendAll s (emitFor s nx) =
      { (if nx.recvB then store s (ownB s.sc nx.num (bhLookup s.bh (nx.num - 1))) else s) with
        out := (if nx.recvB then store s (ownB s.sc nx.num (bhLookup s.bh (nx.num - 1))) else s).out ++ emitFor s nx } :=
  sendAll_eq' s s nx

theorem HInv.withOut {s : State} (inv : HInv H sc M s) (o : List Msg) : HInv H sc M { s with out := o } :=
  ⟨inv.scEq, inv.live, inv.keys, inv.idx, inv.accused, inv.reached, inv.curIn, inv.msgs, inv.bc, inv.bh⟩

theorem HInv.send {s : State} (inv : HInv H sc M s) (nx : RoundSpec)
    (hbv : bhLookup s.bh (nx.num - 1) = expBh H sc M (nx.num - 1)) : HInv H sc M (sendAll s (emitFor s nx)) := by
  rw [sendAll_eq]
  apply HInv.withOut
  split
  · apply inv.store'
    right
    rw [hbv, inv.scEq]
    exact ⟨rfl, rfl⟩
  · exact inv

theorem HInv.next_lt {s : State} (hM : Honest H sc M) (inv : HInv H sc M s) (nx : RoundSpec)
    (hn : sc.rounds[s.idx + 1]? = some nx) : s.cur < nx.num := by
  obtain ⟨spec, h1, h2⟩ := inv.idx
  have hp := List.pairwise_iff_getElem.mp hM.script.incr
  obtain ⟨hi, ea⟩ := List.getElem?_eq_some_iff.mp h1
  obtain ⟨hj, eb⟩ := List.getElem?_eq_some_iff.mp hn
  have := hp s.idx (s.idx + 1) hi hj (by omega)
  rw [ea, eb, h2] at this
  exact this

theorem HInv.enter {s : State} (hM : Honest H sc M) (inv : HInv H sc M s) (nx : RoundSpec)
    (hn : sc.rounds[s.idx + 1]? = some nx) : HInv H sc M (enter s (s.idx + 1) nx) := by
  have hlt := inv.next_lt hM nx hn
  refine ⟨inv.scEq, inv.live, inv.keys, ⟨nx, hn, rfl⟩, inv.accused, ?_, ?_, inv.msgs, inv.bc, inv.bh⟩
  · intro r hr
    simp only [Handler.enter, List.mem_append, List.mem_singleton] at hr ⊢
    rcases hr with hr | rfl
    · have := inv.reached r hr
      omega
    · omega
  · simp [Handler.enter]

theorem HInv.bh_none {s : State} (inv : HInv H sc M s) (r : Nat) (h : expBh H sc M r = none) : bhLookup s.bh r = none := by
  cases hb : bhLookup s.bh r with
  | none => rfl
  | some x => rw [inv.bh r x hb] at h; cases h

theorem fillBh_filled (H : Bytes → Bytes) (s : State) (hc : ((curSpec s).recvB && hasSlot s.sc s.cur) = true)
    (hr : receivedAllB H s = true) : (bhLookup (fillBh H s).bh s.cur).isSome = true := by
  have hB : (curSpec s).recvB = true := by
    simp only [Bool.and_eq_true] at hc; exact hc.1
  have hS : hasSlot s.sc s.cur = true := by
    simp only [Bool.and_eq_true] at hc; exact hc.2
  unfold receivedAllB at hr
  simp only [hB, hS, if_true, Bool.not_true, Bool.false_eq_true, if_false] at hr
  unfold fillBh
  simp only [hc, if_true]
  cases he : echoHash H s.sc s.bc s.cur with
  | none => simp [he] at hr
  | some h =>
    simp only
    split
    · next hn =>
      simp only [bhLookup_append]
      simp only [Option.isNone_iff_eq_none] at hn
      simp [hn]
    · next hn =>
      cases hq : bhLookup s.bh s.cur with
      | none => simp [hq] at hn
      | some _ => rfl

/-- when a completed round is left, the handler's table holds exactly the session's echo hash for the number
    preceding the next round -/
theorem HInv.bv_exact {s : State} (hM : Honest H sc M) (inv : HInv H sc M s) (nx : RoundSpec)
    (hn : sc.rounds[s.idx + 1]? = some nx) (hr : receivedAllB H s = true) :
    bhLookup (fillBh H s).bh (nx.num - 1) = expBh H sc M (nx.num - 1) := by
  have inv1 := inv.fill hM
  have hlt := inv.next_lt hM nx hn
  cases hx : expBh H sc M (nx.num - 1) with
  | none => exact inv1.bh_none _ hx
  | some h =>
    -- the number nx.num - 1 has a round: it is the current one
    obtain ⟨k, hk⟩ : ∃ k, nx.num - 1 = k + 1 := by
      cases hz : nx.num - 1 with
      | zero => rw [hz] at hx; simp [expBh] at hx
      | succ k => exact ⟨k, rfl⟩
    rw [hk] at hx
    have hx0 := hx
    unfold expBh at hx
    cases hsp : specOf sc (k + 1) with
    | none => simp [hsp] at hx
    | some sp =>
      simp only [hsp] at hx
      obtain ⟨j, hj⟩ := specOf_getElem sc (k + 1) sp hsp
      have hnum := specOf_num sc (k + 1) sp hsp
      have hcur : s.cur = k + 1 := by
        obtain ⟨spec, h1, h2⟩ := inv.idx
        rcases Nat.lt_trichotomy s.cur (k + 1) with g | g | g
        · have a1 := idx_lt_of_num_lt sc hM.script s.idx j spec sp h1 hj (by omega)
          have a2 := idx_lt_of_num_lt sc hM.script j (s.idx + 1) sp nx hj hn (by omega)
          omega
        · exact g
        · omega
      have hspc := inv.specOf_cur hM
      rw [hcur, hsp] at hspc
      have hsp' : sp = curSpec s := Option.some.inj hspc
      split at hx
      · next hc =>
        rw [hsp', ← hcur, ← inv.scEq] at hc
        have hf := fillBh_filled H s hc hr
        obtain ⟨y, hy⟩ := Option.isSome_iff_exists.mp hf
        have := inv1.bh _ _ hy
        rw [hcur, hx0] at this
        rw [hk, ← hcur, hy, this]
      · simp at hx

end

section
variable {H : Bytes → Bytes} {sc : Script} {M : List Msg}

/-- the state in which the next round `nx` is entered, before its queue is replayed -/
def preReplay (H : Bytes → Bytes) (s : State) (nx : RoundSpec) : State :=
  enter (sendAll (fillBh H s) (emitFor (fillBh H s) nx)) (s.idx + 1) nx

theorem fillBh_idx (H : Bytes → Bytes) (s : State) : (fillBh H s).idx = s.idx := by rw [fillBh_eq]
theorem fillBh_cur (H : Bytes → Bytes) (s : State) : (fillBh H s).cur = s.cur := by rw [fillBh_eq]
theorem fillBh_acc (H : Bytes → Bytes) (s : State) : (fillBh H s).acc = s.acc := by rw [fillBh_eq]

theorem HInv.preReplay {s : State} (hM : Honest H sc M) (inv : HInv H sc M s) (nx : RoundSpec)
    (hn : sc.rounds[s.idx + 1]? = some nx) (hr : receivedAllB H s = true) : HInv H sc M (preReplay H s nx) := by
  have inv1 := inv.fill hM
  have inv3 := inv1.send nx (inv.bv_exact hM nx hn hr)
  have hi : (sendAll (fillBh H s) (emitFor (fillBh H s) nx)).idx = s.idx := by rw [sendAll_idx, fillBh_idx]
  have := inv3.enter hM nx (by rw [hi]; exact hn)
  rw [hi] at this
  exact this

theorem protoFinalize_honest {s : State} (hM : Honest H sc M) (inv : HInv H sc M s) :
    protoFinalize (fillBh H s) =
      if sc.finErrAt != 0 && sc.finErrAt == s.cur then .error
      else match sc.rounds[s.idx + 1]? with
        | some nx => .round (s.idx + 1) nx
        | none => .output s.acc := by
  have inv1 := inv.fill hM
  unfold protoFinalize
  rw [inv1.scEq, fillBh_cur, inv1.accused, fillBh_idx, fillBh_acc]
  simp only [bne_self_eq_false, Bool.false_eq_true, if_false]
  rfl

/-- closed form of one pass of `finalize` in a running handler that was only given honest messages -/
theorem finalizeStep_honest {s : State} (hM : Honest H sc M) (inv : HInv H sc M s) :
    finalizeStep H s =
      if !receivedAllB H s then .halt (fillBh H s)
      else if sc.finErrAt != 0 && sc.finErrAt == s.cur then .halt (abort (fillBh H s) (some .finalizeErr))
      else match sc.rounds[s.idx + 1]? with
        | none => .halt (abort { enter0 (fillBh H s) with result := some s.acc } none)
        | some nx => .more (addAcc (preReplay H s nx) (rsum (preReplay H s nx))) := by
  have inv1 := inv.fill hM
  unfold finalizeStep
  simp only
  cases hr : receivedAllB H s with
  | false => simp
  | true =>
    simp only [Bool.not_true, Bool.false_eq_true, if_false, inv1.check hM]
    rw [protoFinalize_honest hM inv]
    by_cases hf : (sc.finErrAt != 0 && sc.finErrAt == s.cur) = true
    · simp only [hf, if_true]
    · simp only [hf, if_false]
      cases hn : sc.rounds[s.idx + 1]? with
      | none =>
        simp only
        have h0 : (fillBh H s).reached.contains 0 = false := by
          cases hc : (fillBh H s).reached.contains 0 with
          | false => rfl
          | true =>
            have := inv1.reached 0 (by simpa using hc)
            omega
        simp only [h0, Bool.false_eq_true, if_false]
      | some nx =>
        simp only
        have inv3 := inv1.send nx (inv.bv_exact hM nx hn hr)
        have hi : (sendAll (fillBh H s) (emitFor (fillBh H s) nx)).idx = s.idx := by rw [sendAll_idx, fillBh_idx]
        have hlt := inv3.next_lt hM nx (by rw [hi]; exact hn)
        have h0 : (sendAll (fillBh H s) (emitFor (fillBh H s) nx)).reached.contains nx.num = false := by
          cases hc : (sendAll (fillBh H s) (emitFor (fillBh H s) nx)).reached.contains nx.num with
          | false => rfl
          | true =>
            have := inv3.reached nx.num (by simpa using hc)
            omega
        simp only [h0, Bool.false_eq_true, if_false]
        have inv4 := inv.preReplay hM nx hn hr
        have hq := replayQueued_honest hM inv4
        unfold preReplay at hq ⊢
        rw [hq]

end

/-! ## Part 3: inserting one more early message into a cascade of `finalize` -/

theorem lookup_single (x : Nat × Bytes × Msg) (r : Nat) (id : Bytes) :
    lookup [x] r id = if x.1 == r && x.2.1 == id then some x.2.2 else none := by
  unfold lookup
  simp only [List.find?]
  split <;> simp_all

/-- the broadcast queue after `store`, lookup by lookup -/
theorem lookup_store_bc' (s : State) (m : Msg) (r : Nat) (id : Bytes) :
    lookup (store s m).bc r id =
      (lookup s.bc r id).or (if hasSlot s.sc m.rnd && m.bcast && (m.rnd == r && m.frm == id) then some m else none) := by
  unfold store
  by_cases hs : hasSlot s.sc m.rnd = true
  · by_cases hb : m.bcast = true
    · simp only [hs, hb, Bool.not_true, Bool.false_eq_true, if_false, if_true, Bool.true_and]
      split
      · next hl =>
        by_cases hk : (m.rnd == r && m.frm == id) = true
        · simp only [Bool.and_eq_true, beq_iff_eq] at hk
          rw [← hk.1, ← hk.2]
          obtain ⟨x, hx⟩ := Option.isSome_iff_exists.mp hl
          simp [hx]
        · simp [hk]
      · simp only [lookup_append, lookup_single]
    · simp only [hs, hb, Bool.not_true, Bool.false_eq_true, if_false, Bool.and_false, Bool.false_and]
      split <;> simp
  · simp [hs]

theorem lookup_store_msgs' (s : State) (m : Msg) (r : Nat) (id : Bytes) :
    lookup (store s m).msgs r id =
      (lookup s.msgs r id).or (if hasSlot s.sc m.rnd && !m.bcast && (m.rnd == r && m.frm == id) then some m else none) := by
  unfold store
  by_cases hs : hasSlot s.sc m.rnd = true
  · by_cases hb : m.bcast = true
    · simp only [hs, hb, Bool.not_true, Bool.false_eq_true, if_false, if_true, Bool.and_false, Bool.false_and]
      split <;> simp
    · simp only [hs, hb, Bool.not_true, Bool.false_eq_true, if_false, Bool.true_and, Bool.not_false]
      split
      · next hl =>
        by_cases hk : (m.rnd == r && m.frm == id) = true
        · simp only [Bool.and_eq_true, beq_iff_eq] at hk
          rw [← hk.1, ← hk.2]
          obtain ⟨x, hx⟩ := Option.isSome_iff_exists.mp hl
          simp [hx]
        · simp [hk]
      · simp only [lookup_append, lookup_single]
  · simp [hs]

theorem store_reached (s : State) (m : Msg) : (store s m).reached = s.reached := by
  unfold store; split
  · rfl
  · split <;> split <;> rfl
theorem store_acc (s : State) (m : Msg) : (store s m).acc = s.acc := by
  unfold store; split
  · rfl
  · split <;> split <;> rfl
theorem store_addAcc (s : State) (m : Msg) (v : Nat) : store (addAcc s v) m = addAcc (store s m) v := by
  unfold store addAcc; simp only; split
  · rfl
  · split <;> split <;> rfl
theorem curSpec_store (s : State) (m : Msg) : curSpec (store s m) = curSpec s := by
  unfold curSpec; rw [store_sc, (store_idx s m).1]

/-- `m` is not yet in the queue it belongs to -/
def Fresh (s : State) (m : Msg) : Prop :=
  (if m.bcast then lookup s.bc m.rnd m.frm else lookup s.msgs m.rnd m.frm) = none

theorem addAcc_sim {a b : State} (h : Sim a b) (v : Nat) : Sim (addAcc a v) (addAcc b v) :=
  { h with acc := by simp only [addAcc, h.acc] }

/-- forget the queues -/
def dropQ (s : State) : State := { s with msgs := [], bc := [] }

/-- all fields except the queues agree -/
def FEq (a b : State) : Prop := Sim (dropQ a) (dropQ b)

theorem Sim.feq {a b : State} (h : Sim a b) : FEq a b :=
  { h with msgs := QEq.refl _, bc := QEq.refl _ }
theorem FEq.refl (a : State) : FEq a a := Sim.refl _
theorem FEq.symm {a b : State} (h : FEq a b) : FEq b a := Sim.symm h
theorem FEq.trans {a b c : State} (h : FEq a b) (h' : FEq b c) : FEq a c := Sim.trans h h'
theorem store_feq (s : State) (m : Msg) : FEq (store s m) s := by
  have : dropQ (store s m) = dropQ s := by
    unfold store; split
    · rfl
    · split <;> split <;> rfl
  unfold FEq; rw [this]; exact Sim.refl _
theorem abort_feq {a b : State} (h : FEq a b) (e : Option ErrKind) : FEq (abort a e) (abort b e) := by
  have := abort_sim h e
  cases e <;> exact this
theorem output_feq {a b : State} (h : FEq a b) (v : Nat) :
    FEq { enter0 a with result := some v } { enter0 b with result := some v } := output_sim h v
theorem terminal_feq {a b : State} (h : FEq a b) : terminal a = terminal b :=
  show terminal (dropQ a) = terminal (dropQ b) from terminal_sim (a := dropQ a) (b := dropQ b) h

/-- same outcome: the states agree up to queue order, or the handler has ended and they agree in everything
    but the (now dead) queues -/
def Out (a b : State) : Prop := Sim a b ∨ (terminal a = true ∧ FEq a b)

theorem Out.feq {a b : State} (h : Out a b) : FEq a b := by
  rcases h with h | h
  · exact h.feq
  · exact h.2
theorem Out.refl (a : State) : Out a a := Or.inl (Sim.refl a)
theorem Out.trans {a b c : State} (h : Out a b) (h' : Out b c) : Out a c := by
  rcases h with h | ⟨ht, h⟩
  · rcases h' with h' | ⟨ht', h'⟩
    · exact Or.inl (h.trans h')
    · exact Or.inr ⟨by rw [terminal_sim h]; exact ht', h.feq.trans h'⟩
  · exact Or.inr ⟨ht, h.trans h'.feq⟩
theorem Out.symm {a b : State} (h : Out a b) : Out b a := by
  rcases h with h | ⟨ht, h⟩
  · exact Or.inl h.symm
  · exact Or.inr ⟨by rw [← terminal_feq h]; exact ht, h.symm⟩

theorem accept_out (H : Bytes → Bytes) {a b : State} (h : Out a b) (m : Msg) : Out (accept H a m) (accept H b m) := by
  rcases h with h | ⟨ht, h⟩
  · exact Or.inl (accept_sim H h m)
  · rw [accept_terminal H a m ht, accept_terminal H b m (by rw [← terminal_feq h]; exact ht)]
    exact Or.inr ⟨ht, h⟩

theorem Sim.of_feq {a b : State} (h : FEq a b) (hm : QEq a.msgs b.msgs) (hb : QEq a.bc b.bc) : Sim a b :=
  ⟨h.sc, h.idx, h.cur, h.reached, h.bh, h.err, h.result, h.out, h.closes, h.acc, h.accused, hm, hb⟩

theorem mem_store_bc (s : State) (m : Msg) (e : Nat × Bytes × Msg) :
    e ∈ (store s m).bc ↔ e ∈ s.bc ∨
      (hasSlot s.sc m.rnd = true ∧ m.bcast = true ∧ lookup s.bc m.rnd m.frm = none ∧ e = (m.rnd, m.frm, m)) := by
  unfold store
  by_cases hs : hasSlot s.sc m.rnd = true
  · by_cases hb : m.bcast = true
    · simp only [hs, hb, Bool.not_true, Bool.false_eq_true, if_false, if_true, true_and]
      cases hl : lookup s.bc m.rnd m.frm with
      | some x => simp
      | none => simp [List.mem_append]
    · simp only [hs, hb, Bool.not_true, Bool.false_eq_true, if_false, false_and, and_false, or_false]
      split <;> rfl
  · simp [hs]

theorem mem_store_msgs (s : State) (m : Msg) (e : Nat × Bytes × Msg) :
    e ∈ (store s m).msgs ↔ e ∈ s.msgs ∨
      (hasSlot s.sc m.rnd = true ∧ m.bcast = false ∧ lookup s.msgs m.rnd m.frm = none ∧ e = (m.rnd, m.frm, m)) := by
  unfold store
  by_cases hs : hasSlot s.sc m.rnd = true
  · by_cases hb : m.bcast = true
    · simp only [hs, hb, Bool.not_true, Bool.false_eq_true, if_false, if_true, Bool.true_eq_false, false_and,
        and_false, or_false]
      split <;> rfl
    · have hb' : m.bcast = false := by simpa using hb
      simp only [hs, hb', Bool.not_true, Bool.false_eq_true, if_false, true_and]
      cases hl : lookup s.msgs m.rnd m.frm with
      | some x => simp
      | none => simp [List.mem_append]
  · simp [hs]

/-- storing two messages of different senders commutes up to queue order -/
theorem store_comm (s : State) (a b : Msg) (hne : a.frm ≠ b.frm) :
    Sim (store (store s a) b) (store (store s b) a) := by
  have hab : ∀ r id, ¬ ((a.rnd == r && a.frm == id) = true ∧ (b.rnd == r && b.frm == id) = true) := by
    intro r id h
    simp only [Bool.and_eq_true, beq_iff_eq] at h
    exact hne (h.1.2.trans h.2.2.symm)
  have hba : (a.rnd == b.rnd && a.frm == b.frm) = false := by
    simp only [Bool.and_eq_false_iff, beq_eq_false_iff_ne]; exact Or.inr hne
  have hab' : (b.rnd == a.rnd && b.frm == a.frm) = false := by
    simp only [Bool.and_eq_false_iff, beq_eq_false_iff_ne]; exact Or.inr (Ne.symm hne)
  apply Sim.of_feq (((store_feq _ b).trans (store_feq s a)).trans ((store_feq _ a).trans (store_feq s b)).symm)
  · constructor
    · intro e
      simp only [mem_store_msgs, store_sc, lookup_store_msgs', hba, hab', Bool.and_false, Bool.false_eq_true, if_false,
        Option.or_none]
      constructor <;> (intro h; rcases h with (h | h) | h <;> simp [h])
    · intro r id
      simp only [lookup_store_msgs', store_sc]
      have := hab r id
      by_cases h1 : (a.rnd == r && a.frm == id) = true <;> by_cases h2 : (b.rnd == r && b.frm == id) = true
      · exact absurd ⟨h1, h2⟩ this
      · simp [h2]
      · simp [h1]
      · simp [h1, h2]
  · constructor
    · intro e
      simp only [mem_store_bc, store_sc, lookup_store_bc', hba, hab', Bool.and_false, Bool.false_eq_true, if_false,
        Option.or_none]
      constructor <;> (intro h; rcases h with (h | h) | h <;> simp [h])
    · intro r id
      simp only [lookup_store_bc', store_sc]
      have := hab r id
      by_cases h1 : (a.rnd == r && a.frm == id) = true <;> by_cases h2 : (b.rnd == r && b.frm == id) = true
      · exact absurd ⟨h1, h2⟩ this
      · simp [h2]
      · simp [h1]
      · simp [h1, h2]

theorem echoHash_lookup_congr (H : Bytes → Bytes) (sc : Script) (q q' : List (Nat × Bytes × Msg)) (r : Nat)
    (h : ∀ id, lookup q r id = lookup q' r id) : echoHash H sc q r = echoHash H sc q' r := by
  unfold echoHash
  have : (sc.ids.map fun id => lookup q r id) = (sc.ids.map fun id => lookup q' r id) :=
    List.map_congr_left (fun id _ => h id)
  simp only [this]

/-- two states that agree in everything the handling of the CURRENT round looks at -/
structure CurEq (a b : State) : Prop where
  sc : a.sc = b.sc
  idx : a.idx = b.idx
  cur : a.cur = b.cur
  bh : a.bh = b.bh
  bcL : ∀ id, lookup a.bc a.cur id = lookup b.bc a.cur id
  msgsL : ∀ id, lookup a.msgs a.cur id = lookup b.msgs a.cur id

theorem Sim.curEq {a b : State} (h : Sim a b) : CurEq a b :=
  ⟨h.sc, h.idx, h.cur, h.bh, fun id => h.bc.2 _ id, fun id => h.msgs.2 _ id⟩

theorem store_curEq (s : State) (m : Msg) (h : m.rnd ≠ s.cur) : CurEq (store s m) s := by
  have hk : ∀ id, (m.rnd == s.cur && m.frm == id) = false := by
    intro id; simp only [Bool.and_eq_false_iff, beq_eq_false_iff_ne]; exact Or.inl h
  refine ⟨store_sc s m, (store_idx s m).1, (store_idx s m).2, store_bh s m, ?_, ?_⟩
  · intro id
    rw [(store_idx s m).2, lookup_store_bc', hk]; simp
  · intro id
    rw [(store_idx s m).2, lookup_store_msgs', hk]; simp

theorem curSpec_curEq {a b : State} (h : CurEq a b) : curSpec a = curSpec b := by
  unfold curSpec; rw [h.sc, h.idx]

theorem p2pAll_curEq {a b : State} (h : CurEq a b) : p2pAll a = p2pAll b := by
  unfold p2pAll
  have : (fun id => (lookup a.msgs a.cur id).isSome) = (fun id => (lookup b.msgs a.cur id).isSome) := by
    funext id; rw [h.msgsL]
  rw [curSpec_curEq h, this, h.sc, h.cur]

theorem receivedAllB_curEq (H : Bytes → Bytes) {a b : State} (h : CurEq a b) : receivedAllB H a = receivedAllB H b := by
  unfold receivedAllB
  rw [curSpec_curEq h, echoHash_lookup_congr H a.sc a.bc b.bc a.cur h.bcL, p2pAll_curEq h, h.sc, h.cur]

theorem fillBh_bh_curEq (H : Bytes → Bytes) {a b : State} (h : CurEq a b) : (fillBh H a).bh = (fillBh H b).bh := by
  unfold fillBh
  rw [curSpec_curEq h, echoHash_lookup_congr H a.sc a.bc b.bc a.cur h.bcL]
  have e1 : hasSlot a.sc a.cur = hasSlot b.sc b.cur := by rw [h.sc, h.cur]
  have e2 : echoHash H a.sc b.bc a.cur = echoHash H b.sc b.bc b.cur := by rw [h.sc, h.cur]
  have e3 : bhLookup a.bh a.cur = bhLookup b.bh b.cur := by rw [h.bh, h.cur]
  rw [e1, e2, e3]
  split
  · split
    · split
      · simp only [h.bh, h.cur]
      · exact h.bh
    · exact h.bh
  · exact h.bh

theorem contrib_curEq {a b : State} (h : CurEq a b) (id : Bytes) : contrib a id = contrib b id := by
  unfold contrib
  rw [curSpec_curEq h, h.bcL, h.msgsL, h.sc, h.cur]

theorem rsum_curEq {a b : State} (h : CurEq a b) : rsum a = rsum b := by
  unfold rsum
  rw [h.sc]
  exact congrArg List.sum (List.map_congr_left (fun id _ => contrib_curEq h id))

theorem store_withBh (s : State) (m : Msg) (b : List (Nat × Bytes)) :
    store { s with bh := b } m = { store s m with bh := b } := by
  unfold store; simp only; split
  · rfl
  · split <;> split <;> rfl

theorem store_withOut (s : State) (m : Msg) (o : List Msg) :
    store { s with out := o } m = { store s m with out := o } := by
  unfold store; simp only; split
  · rfl
  · split <;> split <;> rfl

theorem store_enter (s : State) (m : Msg) (i : Nat) (nx : RoundSpec) :
    store (enter s i nx) m = enter (store s m) i nx := by
  unfold store enter; simp only; split
  · rfl
  · split <;> split <;> rfl

def withBh (s : State) (b : List (Nat × Bytes)) : State := { s with bh := b }
def withOut (s : State) (o : List Msg) : State := { s with out := o }
/-- the state after `sendAll` stored this party's own broadcast for round `nx` (emitted from `s`) into `t` -/
def sendStore (s t : State) (nx : RoundSpec) : State :=
  if nx.recvB then store t (ownB s.sc nx.num (bhLookup s.bh (nx.num - 1))) else t

theorem fillBh_eq' (H : Bytes → Bytes) (s : State) : fillBh H s = withBh s (fillBh H s).bh := fillBh_eq H s
theorem store_withBh' (s : State) (m : Msg) (b : List (Nat × Bytes)) :
    store (withBh s b) m = withBh (store s m) b := store_withBh s m b
theorem store_withOut' (s : State) (m : Msg) (o : List Msg) :
    store (withOut s o) m = withOut (store s m) o := store_withOut s m o
theorem sendAll_eq'' (s t : State) (nx : RoundSpec) :
    sendAll t (emitFor s nx) = withOut (sendStore s t nx) ((sendStore s t nx).out ++ emitFor s nx) :=
  sendAll_eq' s t nx
theorem withOut_sim' {a b : State} (h : Sim a b) (o : List Msg) : Sim (withOut a o) (withOut b o) :=
  { h with out := rfl }

/-- an early message does not disturb the computation of the current round's echo hash -/
theorem fillBh_store (H : Bytes → Bytes) (s : State) (m : Msg) (h : m.rnd ≠ s.cur) :
    fillBh H (store s m) = store (fillBh H s) m := by
  have e2 : (fillBh H (store s m)).bh = (fillBh H s).bh := fillBh_bh_curEq H (store_curEq s m h)
  calc fillBh H (store s m) = withBh (store s m) (fillBh H (store s m)).bh := fillBh_eq' H _
    _ = withBh (store s m) (fillBh H s).bh := by rw [e2]
    _ = store (withBh s (fillBh H s).bh) m := (store_withBh' s m _).symm
    _ = store (fillBh H s) m := congrArg (fun x => store x m) (fillBh_eq' H s).symm

theorem emitFor_store (s : State) (m : Msg) (nx : RoundSpec) : emitFor (store s m) nx = emitFor s nx := by
  unfold emitFor; rw [store_sc, store_bh]

theorem withOut_sim {a b : State} (h : Sim a b) (o : List Msg) : Sim { a with out := o } { b with out := o } :=
  { h with out := rfl }

theorem store_out (s : State) (m : Msg) : (store s m).out = s.out := (store_sameLife s m).2.2.2.2.symm

theorem sendAll_store_sim (s1 : State) (m : Msg) (nx : RoundSpec) (hself : m.frm ≠ s1.sc.self) :
    Sim (sendAll (store s1 m) (emitFor s1 nx)) (store (sendAll s1 (emitFor s1 nx)) m) := by
  rw [sendAll_eq'' s1 (store s1 m) nx, sendAll_eq'' s1 s1 nx, store_withOut']
  have hW : Sim (sendStore s1 (store s1 m) nx) (store (sendStore s1 s1 nx) m) := by
    unfold sendStore
    cases nx.recvB with
    | false => exact Sim.refl _
    | true => exact store_comm s1 m _ hself
  have : (sendStore s1 (store s1 m) nx).out = (sendStore s1 s1 nx).out := by rw [hW.out, store_out]
  rw [this]
  exact withOut_sim' hW _

/-- an early message of another party passes through the transition into the next round -/
theorem preReplay_store (H : Bytes → Bytes) (s : State) (m : Msg) (nx : RoundSpec) (h : m.rnd ≠ s.cur)
    (hself : m.frm ≠ s.sc.self) : Sim (preReplay H (store s m) nx) (store (preReplay H s nx) m) := by
  unfold preReplay
  rw [fillBh_store H s m h, (store_idx s m).1, emitFor_store, store_enter]
  apply enter_sim
  exact sendAll_store_sim (fillBh H s) m nx (by rw [fillBh_eq]; exact hself)
section
variable {H : Bytes → Bytes} {sc : Script} {M : List Msg}

theorem canAccept_honest {s : State} {m : Msg} (hs : s.sc = sc) (hh : HonestMsg H sc M m) (hr : s.cur ≤ m.rnd) :
    canAccept s m = true := by
  have hsl := hh.slot
  unfold hasSlot at hsl
  simp only [Bool.and_eq_true, decide_eq_true_eq] at hsl
  unfold canAccept isFor
  rw [hs]
  have h1 : (m.frm == sc.self) = false := by simpa using hh.notSelf
  have h2 : (m.to == [] || m.to == sc.self) = true := by
    rcases hh.toMe with h | h <;> simp [h]
  have h3 : sc.ids.contains m.frm = true := by simpa using hh.known
  simp only [h1, Bool.false_eq_true, if_false, h2, hh.proto, hh.ssid, h3, hh.data, beq_self_eq_true, Bool.true_and,
    Bool.and_eq_true, Bool.not_eq_true', decide_eq_false_iff_not, Bool.and_eq_false_iff]
  refine ⟨by omega, Or.inl (by omega)⟩

theorem duplicate_fresh {s : State} {m : Msg} (hs : s.sc = sc) (hh : HonestMsg H sc M m) (hf : Fresh s m) :
    duplicate s m = false := by
  have hsl := hh.slot
  have h0 : (m.rnd == 0) = false := by
    unfold hasSlot at hsl
    simp only [Bool.and_eq_true, decide_eq_true_eq] at hsl
    simp; omega
  unfold duplicate
  unfold Fresh at hf
  rw [hs]
  simp only [h0, Bool.false_eq_true, if_false, hsl, Bool.not_true]
  cases hb : m.bcast <;> simp only [hb, Bool.false_eq_true, if_false, if_true] at hf ⊢ <;> rw [hf] <;> rfl

/-- a message for a later round is only queued -/
theorem accept_early {s : State} (hM : Honest H sc M) (inv : HInv H sc M s) (m : Msg) (hm : m ∈ M) (hf : Fresh s m)
    (hr : s.cur < m.rnd) : accept H s m = store s m := by
  have hh := hM.msgs m hm
  have h0 : (m.rnd == 0) = false := by simp; omega
  unfold accept
  simp only [canAccept_honest inv.scEq hh (Nat.le_of_lt hr), not_terminal_of_live inv.live, duplicate_fresh inv.scEq hh hf,
    Bool.not_true, Bool.or_self, Bool.false_eq_true, if_false, h0]
  unfold acceptStored
  have : ((store s m).cur != m.rnd) = true := by
    rw [(store_idx s m).2]; simp; omega
  simp only [this, if_true]

/-- what the verification of a fresh honest message of the current round adds to the protocol state -/
def delta (s : State) (m : Msg) : Nat :=
  if m.bcast then
    val m + (if (curSpec s).recvP then (match lookup s.msgs m.rnd m.frm with | some p => val p | none => 0) else 0)
  else if (curSpec s).recvB && (lookup s.bc m.rnd m.frm).isNone then 0 else val m

theorem delta_store {s : State} (m : Msg) : delta (store s m) m = delta s m := by
  unfold delta
  rw [curSpec_store]
  cases hb : m.bcast with
  | true =>
    simp only [if_true]
    rw [lookup_store_msgs']
    simp [hb]
  | false =>
    simp only [Bool.false_eq_true, if_false]
    rw [lookup_store_bc']
    simp [hb]

/-- a fresh honest message of the current round: stored, verified (closed form), then `finalize` -/
theorem accept_now {s : State} (hM : Honest H sc M) (inv : HInv H sc M s) (m : Msg) (hm : m ∈ M) (hf : Fresh s m)
    (hr : m.rnd = s.cur) :
    accept H s m = finalize H (sc.rounds.length + 1) (addAcc (store s m) (delta s m)) := by
  have hh := hM.msgs m hm
  have hsl := hh.slot
  have h0 : (m.rnd == 0) = false := by
    unfold hasSlot at hsl
    simp only [Bool.and_eq_true, decide_eq_true_eq] at hsl
    simp; omega
  have hd := duplicate_fresh inv.scEq hh hf
  have inv' := inv.store m hm
  have hsl' := store_lookup s m hd h0
  unfold accept
  simp only [canAccept_honest inv.scEq hh (Nat.le_of_eq hr.symm), not_terminal_of_live inv.live, hd,
    Bool.not_true, Bool.or_self, Bool.false_eq_true, if_false, h0]
  unfold acceptStored
  have hc : ((store s m).cur != m.rnd) = false := by
    rw [(store_idx s m).2]; simp [hr]
  have hr' : m.rnd = (store s m).cur := by rw [(store_idx s m).2]; exact hr
  simp only [hc, Bool.false_eq_true, if_false]
  rw [← delta_store]
  cases hb : m.bcast with
  | true =>
    simp only [if_true]
    rw [verifyBroadcastMessage_honest hM inv' m hm hr' hb (hsl'.1 hb)]
    simp only [delta, hb, if_true]
    show finalize H ((store s m).sc.rounds.length + 1) _ = _
    rw [inv'.scEq]
  | false =>
    simp only [Bool.false_eq_true, if_false]
    rw [verifyMessage_honest hM inv' m hm hr' hb]
    simp only [delta, hb, Bool.false_eq_true, if_false]
    split
    · simp only [addAcc_zero]
      show finalize H ((store s m).sc.rounds.length + 1) _ = _
      rw [inv'.scEq]
    · show finalize H ((store s m).sc.rounds.length + 1) _ = _
      rw [inv'.scEq]

end

section
variable {H : Bytes → Bytes} {sc : Script} {M : List Msg}

theorem echoHash_none_of_missing (H : Bytes → Bytes) (sc : Script) (bc : List (Nat × Bytes × Msg)) (r : Nat) (id : Bytes)
    (hid : id ∈ sc.ids) (h : lookup bc r id = none) : echoHash H sc bc r = none := by
  cases he : echoHash H sc bc r with
  | none => rfl
  | some x =>
    have := (echoHash_some H sc bc r x he).1 id hid
    rw [h] at this; cases this

theorem HonestMsg.p2p_of_not_recvB {m : Msg} (hh : HonestMsg H sc M m) (sp : RoundSpec)
    (hs : specOf sc m.rnd = some sp) (hB : sp.recvB = false) : m.bcast = false := by
  have := hh.recv sp hs
  cases hb : m.bcast with
  | false => rfl
  | true => rw [hb] at this; simp only [if_true] at this; rw [hB] at this; cases this

/-- while an expected message of the current round is missing, the round is not complete -/
theorem receivedAllB_missing {s : State} (hM : Honest H sc M) (inv : HInv H sc M s) (m : Msg) (hm : m ∈ M)
    (hf : Fresh s m) (hr : m.rnd = s.cur) : receivedAllB H s = false := by
  have hh := hM.msgs m hm
  have hsl : hasSlot s.sc s.cur = true := by rw [inv.scEq, ← hr]; exact hh.slot
  have hspec : specOf sc m.rnd = some (curSpec s) := by rw [hr]; exact inv.specOf_cur hM
  have hrecv := hh.recv _ hspec
  have hoth : m.frm ∈ others s.sc := by
    unfold others
    rw [inv.scEq]
    exact List.mem_filter.mpr ⟨hh.known, by simpa using hh.notSelf⟩
  have hp2p : m.bcast = false → p2pAll s = false := by
    intro hb
    rw [hb] at hrecv
    simp only [Bool.false_eq_true, if_false] at hrecv
    unfold Fresh at hf
    simp only [hb, Bool.false_eq_true, if_false] at hf
    unfold p2pAll
    simp only [hrecv, if_true, hsl, Bool.not_true, Bool.false_eq_true, if_false]
    rw [List.all_eq_false]
    exact ⟨m.frm, hoth, by rw [← hr, hf]; simp⟩
  unfold receivedAllB
  cases hB : (curSpec s).recvB with
  | true =>
    simp only [if_true, hsl, Bool.not_true, Bool.false_eq_true, if_false]
    cases hb : m.bcast with
    | true =>
      unfold Fresh at hf
      simp only [hb, if_true] at hf
      rw [echoHash_none_of_missing H s.sc s.bc s.cur m.frm (by rw [inv.scEq]; exact hh.known) (by rw [← hr]; exact hf)]
      rfl
    | false =>
      split
      · rfl
      · exact hp2p hb
  | false =>
    simp only [Bool.false_eq_true, if_false]
    exact hp2p (hh.p2p_of_not_recvB _ hspec hB)

theorem receivedAllB_withBh (H : Bytes → Bytes) (s : State) (b : List (Nat × Bytes)) :
    receivedAllB H (withBh s b) = receivedAllB H s := rfl

theorem fillBh_of_filled (H : Bytes → Bytes) (t : State) (h : (bhLookup t.bh t.cur).isNone = false) :
    fillBh H t = t := by
  unfold fillBh
  split
  · split
    · simp only [h, Bool.false_eq_true, if_false]
    · rfl
  · rfl

theorem fillBh_idem (H : Bytes → Bytes) (s : State) : fillBh H (fillBh H s) = fillBh H s := by
  have hcs : curSpec (fillBh H s) = curSpec s := by rw [fillBh_eq' H s]; rfl
  have hsc : (fillBh H s).sc = s.sc := by rw [fillBh_eq' H s]; rfl
  have hcur : (fillBh H s).cur = s.cur := by rw [fillBh_eq' H s]; rfl
  have hbc : (fillBh H s).bc = s.bc := by rw [fillBh_eq' H s]; rfl
  by_cases hc : ((curSpec s).recvB && hasSlot s.sc s.cur) = true
  · cases he : echoHash H s.sc s.bc s.cur with
    | none =>
      have : fillBh H s = s := by unfold fillBh; simp only [hc, if_true, he]
      rw [this, this]
    | some h =>
      by_cases hn : (bhLookup s.bh s.cur).isNone = true
      · have h1 : fillBh H s = { s with bh := s.bh ++ [(s.cur, h)] } := by
          unfold fillBh; simp only [hc, if_true, he, hn]
        have h2 : (bhLookup (fillBh H s).bh (fillBh H s).cur).isNone = false := by
          rw [hcur, h1]
          simp only [bhLookup_append]
          simp only [Option.isNone_iff_eq_none] at hn
          simp [hn]
        exact fillBh_of_filled H _ h2
      · have : fillBh H s = s := fillBh_of_filled H s (by cases hq : (bhLookup s.bh s.cur).isNone <;> simp_all)
        rw [this, this]
  · have : fillBh H s = s := by unfold fillBh; simp only [hc, if_false]; rfl
    rw [this, this]

/-- `finalize` begins by filling in the echo hash: doing that beforehand changes nothing -/
theorem finalizeStep_fillBh (H : Bytes → Bytes) (s : State) : finalizeStep H (fillBh H s) = finalizeStep H s := by
  have hr : receivedAllB H (fillBh H s) = receivedAllB H s := by
    rw [fillBh_eq' H s]; exact receivedAllB_withBh H s _
  unfold finalizeStep
  simp only [fillBh_idem, hr]

theorem finalize_fillBh (H : Bytes → Bytes) (fuel : Nat) (s : State) :
    finalize H (fuel + 1) (fillBh H s) = finalize H (fuel + 1) s := by
  unfold finalize
  rw [finalizeStep_fillBh]

/-- each pass of `finalize` that continues has moved one round ahead in the script -/
theorem finalizeStep_more_idx (H : Bytes → Bytes) (s t : State) (h : finalizeStep H s = .more t) :
    t.sc = s.sc ∧ t.idx = s.idx + 1 ∧ t.idx < s.sc.rounds.length := by
  unfold finalizeStep at h
  simp only at h
  split at h
  · simp at h
  · split at h
    · simp at h
    · split at h
      · simp at h
      · split at h <;> simp at h
      · split at h <;> simp at h
      · next i nx hpf =>
        have hr := protoFinalize_round _ i nx hpf
        have hsc : (sendAll (fillBh H s) (emitFor (fillBh H s) nx)).sc = s.sc := by
          rw [(sendAll_frame _ _).2.2.2.1, fillBh_eq' H s]; rfl
        split at h
        · simp at h
        · have sc5 := replayQueued_sameCore (enter (sendAll (fillBh H s) (emitFor (fillBh H s) nx)) i nx)
          split at h
          · simp at h
          · next s5 hq =>
            rw [hq] at sc5
            simp only [Step.more.injEq] at h
            subst h
            have e1 : s5.sc = s.sc := by rw [← sc5.1]; exact hsc
            have e2 : s5.idx = i := by rw [← sc5.2.1]; rfl
            have hfs : (fillBh H s).sc = s.sc := by rw [fillBh_eq' H s]; rfl
            have hfi : (fillBh H s).idx = s.idx := fillBh_idx H s
            rw [hfs] at hr
            rw [hfi] at hr
            refine ⟨e1, by rw [e2]; exact hr.2, ?_⟩
            rw [e2]
            exact (List.getElem?_eq_some_iff.mp hr.1).1

/-- the fuel of `finalize` does not matter once it covers the rounds left in the script -/
theorem finalize_fuel (H : Bytes → Bytes) (f1 f2 : Nat) (s : State) (hi : s.idx < s.sc.rounds.length)
    (h1 : s.sc.rounds.length ≤ f1 + s.idx) (h2 : s.sc.rounds.length ≤ f2 + s.idx) :
    finalize H f1 s = finalize H f2 s := by
  induction f1 generalizing f2 s with
  | zero => omega
  | succ f1 ih =>
    cases f2 with
    | zero => omega
    | succ f2 =>
      unfold finalize
      cases hst : finalizeStep H s with
      | halt t => rfl
      | more t =>
        simp only
        obtain ⟨e1, e2, e3⟩ := finalizeStep_more_idx H s t hst
        apply ih
        · rw [e1]; exact e3
        · rw [e1, e2]; omega
        · rw [e1, e2]; omega

end

section
variable {H : Bytes → Bytes} {sc : Script} {M : List Msg}

theorem sum_map_update (ids : List Bytes) (f g : Bytes → Nat) (j : Bytes) (d : Nat) (hn : ids.Nodup) (hj : j ∈ ids)
    (h1 : ∀ id, id ≠ j → g id = f id) (h2 : g j = f j + d) : (ids.map g).sum = (ids.map f).sum + d := by
  induction ids with
  | nil => cases hj
  | cons x xs ih =>
    have hnd := List.nodup_cons.mp hn
    simp only [List.map_cons, List.sum_cons]
    by_cases hx : x = j
    · subst hx
      have : xs.map g = xs.map f := List.map_congr_left (fun id hid => h1 id (fun e => hnd.1 (e ▸ hid)))
      rw [this, h2]; omega
    · have hj' : j ∈ xs := by
        rcases List.mem_cons.mp hj with e | e
        · exact absurd e.symm hx
        · exact e
      rw [ih hnd.2 hj', h1 x hx]; omega

theorem contrib_store_other (s : State) (m : Msg) (id : Bytes) (h : id ≠ m.frm) :
    contrib (store s m) id = contrib s id := by
  have hk : ∀ r, (m.rnd == r && m.frm == id) = false := by
    intro r; simp only [Bool.and_eq_false_iff, beq_eq_false_iff_ne]; exact Or.inr (Ne.symm h)
  unfold contrib
  rw [curSpec_store, store_sc, (store_idx s m).2, lookup_store_bc', lookup_store_msgs', hk]
  simp

theorem contrib_store_now {s : State} (hM : Honest H sc M) (inv : HInv H sc M s) (m : Msg) (hm : m ∈ M)
    (hf : Fresh s m) (hr : m.rnd = s.cur) : contrib (store s m) m.frm = contrib s m.frm + delta s m := by
  have hh := hM.msgs m hm
  have hsl : hasSlot s.sc m.rnd = true := by rw [inv.scEq]; exact hh.slot
  have hspec : specOf sc m.rnd = some (curSpec s) := by rw [hr]; exact inv.specOf_cur hM
  have hrecv := hh.recv _ hspec
  have hself : (m.frm == s.sc.self) = false := by rw [inv.scEq]; simpa using hh.notSelf
  unfold contrib delta Fresh at *
  rw [curSpec_store, store_sc, (store_idx s m).2, lookup_store_bc', lookup_store_msgs', ← hr]
  simp only [hsl, hself, beq_self_eq_true, Bool.and_self, Bool.true_and, Bool.and_true, Bool.false_eq_true, if_false]
  cases hb : m.bcast with
  | true =>
    simp only [hb, if_true] at hf hrecv ⊢
    simp [hf, hrecv]
  | false =>
    simp only [hb, Bool.false_eq_true, if_false] at hf hrecv ⊢
    simp only [hf, hrecv, Bool.not_false, if_true, Option.none_or, Option.or_none]
    cases (curSpec s).recvB with
    | true =>
      cases lookup s.bc m.rnd m.frm with
      | none => simp
      | some b => simp
    | false => simp

/-- replaying a queue that holds one more message of the current round adds exactly that message's share -/
theorem rsum_store_now {s : State} (hM : Honest H sc M) (inv : HInv H sc M s) (m : Msg) (hm : m ∈ M)
    (hf : Fresh s m) (hr : m.rnd = s.cur) : rsum (store s m) = rsum s + delta s m := by
  unfold rsum
  rw [store_sc, inv.scEq]
  exact sum_map_update sc.ids (contrib s) (contrib (store s m)) m.frm (delta s m) hM.script.ids_nodup
    (hM.msgs m hm).known (fun id hid => contrib_store_other s m id hid) (contrib_store_now hM inv m hm hf hr)

theorem rsum_store_early (s : State) (m : Msg) (h : m.rnd ≠ s.cur) : rsum (store s m) = rsum s :=
  rsum_curEq (store_curEq s m h)

theorem Fresh.fill {s : State} {m : Msg} (hf : Fresh s m) : Fresh (fillBh H s) m := by
  rw [fillBh_eq' H s]; exact hf

theorem Fresh.preReplay {s : State} {m : Msg} (hf : Fresh s m) (nx : RoundSpec) (hself : m.frm ≠ s.sc.self) :
    Fresh (preReplay H s nx) m := by
  have hsc : (fillBh H s).sc = s.sc := by rw [fillBh_eq' H s]; rfl
  have hk : (nx.num == m.rnd && (ownB (fillBh H s).sc nx.num (bhLookup (fillBh H s).bh (nx.num - 1))).frm == m.frm) = false := by
    simp only [Bool.and_eq_false_iff, beq_eq_false_iff_ne]
    right; rw [ownB_frm, hsc]; exact Ne.symm hself
  have h1 := hf.fill (H := H)
  unfold Fresh at h1 ⊢
  unfold Handler.preReplay
  rw [sendAll_eq'']
  show (if m.bcast then lookup (sendStore (fillBh H s) (fillBh H s) nx).bc m.rnd m.frm
        else lookup (sendStore (fillBh H s) (fillBh H s) nx).msgs m.rnd m.frm) = none
  unfold sendStore
  cases nx.recvB with
  | false => exact h1
  | true =>
    simp only [if_true]
    rw [lookup_store_bc', lookup_store_msgs']
    have e1 : (ownB (fillBh H s).sc nx.num (bhLookup (fillBh H s).bh (nx.num - 1))).rnd = nx.num := rfl
    have e2 : (ownB (fillBh H s).sc nx.num (bhLookup (fillBh H s).bh (nx.num - 1))).bcast = true := rfl
    rw [e1, e2, hk]
    simpa using h1

theorem fillBh_of_echo_none (H : Bytes → Bytes) (t : State) (h : echoHash H t.sc t.bc t.cur = none) :
    fillBh H t = t := by
  unfold fillBh
  split
  · rw [h]
  · rfl

theorem fillBh_bh_congr (H : Bytes → Bytes) (a b : State) (hsc : a.sc = b.sc) (hidx : a.idx = b.idx)
    (hcur : a.cur = b.cur) (hbh : a.bh = b.bh) (hbc : ∀ id, lookup a.bc a.cur id = lookup b.bc a.cur id) :
    (fillBh H a).bh = (fillBh H b).bh := by
  have hcs : curSpec a = curSpec b := by unfold curSpec; rw [hsc, hidx]
  unfold fillBh
  rw [hcs, echoHash_lookup_congr H a.sc a.bc b.bc a.cur hbc]
  have e1 : hasSlot a.sc a.cur = hasSlot b.sc b.cur := by rw [hsc, hcur]
  have e2 : echoHash H a.sc b.bc a.cur = echoHash H b.sc b.bc b.cur := by rw [hsc, hcur]
  have e3 : bhLookup a.bh a.cur = bhLookup b.bh b.cur := by rw [hbh, hcur]
  rw [e1, e2, e3]
  split
  · split
    · split
      · simp only [hbh, hcur]
      · exact hbh
    · exact hbh
  · exact hbh

/-- verifying a fresh message of the current round after or before the echo hash is filled in: `finalize`
    continues alike -/
theorem finalize_after_fill {t : State} (hM : Honest H sc M) (inv : HInv H sc M t) (m : Msg) (hm : m ∈ M)
    (hf : Fresh t m) (hr : m.rnd = t.cur) (d fuel : Nat) :
    finalize H (fuel + 1) (addAcc (store (fillBh H t) m) d) = finalize H (fuel + 1) (addAcc (store t m) d) := by
  have hh := hM.msgs m hm
  cases hb : m.bcast with
  | true =>
    unfold Fresh at hf
    simp only [hb, if_true] at hf
    rw [fillBh_of_echo_none H t (echoHash_none_of_missing H t.sc t.bc t.cur m.frm (by rw [inv.scEq]; exact hh.known)
      (by rw [← hr]; exact hf))]
  | false =>
    have hbc : ∀ id, lookup (addAcc (store t m) d).bc (addAcc (store t m) d).cur id = lookup t.bc (addAcc (store t m) d).cur id := by
      intro id
      show lookup (store t m).bc (store t m).cur id = lookup t.bc (store t m).cur id
      rw [lookup_store_bc', hb]; simp
    have e2 : (fillBh H (addAcc (store t m) d)).bh = (fillBh H t).bh :=
      fillBh_bh_congr H _ t (store_sc t m) (store_idx t m).1 (store_idx t m).2 (store_bh t m) hbc
    have e3 : addAcc (store (fillBh H t) m) d = fillBh H (addAcc (store t m) d) := by
      calc addAcc (store (fillBh H t) m) d = addAcc (store (withBh t (fillBh H t).bh) m) d := by rw [← fillBh_eq' H t]
        _ = addAcc (withBh (store t m) (fillBh H t).bh) d := by rw [store_withBh']
        _ = withBh (addAcc (store t m) d) (fillBh H (addAcc (store t m) d)).bh := by rw [e2]; rfl
        _ = fillBh H (addAcc (store t m) d) := (fillBh_eq' H _).symm
    rw [e3, finalize_fillBh]

end

section
variable {H : Bytes → Bytes} {sc : Script} {M : List Msg}

theorem HInv.next_le {s : State} (hM : Honest H sc M) (inv : HInv H sc M s) (m : Msg) (hm : m ∈ M) (hr : s.cur < m.rnd)
    (nx : RoundSpec) (hn : sc.rounds[s.idx + 1]? = some nx) : nx.num ≤ m.rnd := by
  have hh := hM.msgs m hm
  have hk := hh.kind
  cases hsp : specOf sc m.rnd with
  | none => rw [hsp] at hk; cases hk
  | some sp =>
    have hnum := specOf_num sc m.rnd sp hsp
    obtain ⟨j, hj⟩ := specOf_getElem sc m.rnd sp hsp
    obtain ⟨spec, h1, h2⟩ := inv.idx
    have a1 := idx_lt_of_num_lt sc hM.script s.idx j spec sp h1 hj (by omega)
    rcases Nat.lt_or_ge m.rnd nx.num with g | g
    · have a2 := idx_lt_of_num_lt sc hM.script j (s.idx + 1) sp nx hj hn (by omega)
      omega
    · exact g

theorem delta_fillBh (s : State) (m : Msg) : delta (fillBh H s) m = delta s m := by
  rw [fillBh_eq' H s]; rfl

/-- KEY LEMMA. A fresh honest message for a later round that sits in the queue while `finalize` runs
    through the rounds gives the same state as delivering it after that run. -/
theorem insert_early (hM : Honest H sc M) (m : Msg) (hm : m ∈ M) :
    ∀ (fuel : Nat) (s s' : State), HInv H sc M s → Fresh s m → s.cur < m.rnd → Sim s' (store s m) →
      sc.rounds.length ≤ fuel + s.idx → Out (accept H (finalize H fuel s) m) (finalize H fuel s') := by
  intro fuel
  induction fuel with
  | zero =>
    intro s s' inv hf hr hs _
    simp only [finalize]
    rw [accept_early hM inv m hm hf hr]
    exact Or.inl hs.symm
  | succ fuel ih =>
    intro s s' inv hf hr hs hfuel
    have hh := hM.msgs m hm
    have hne : m.rnd ≠ s.cur := by omega
    have inv2 := inv.store m hm
    suffices h : Out (accept H (finalize H (fuel + 1) s) m) (finalize H (fuel + 1) (store s m)) from
      h.trans (Or.inl (finalize_sim H _ hs).symm)
    unfold finalize
    rw [finalizeStep_honest hM inv, finalizeStep_honest hM inv2]
    rw [receivedAllB_curEq H (store_curEq s m hne), (store_idx s m).1, (store_idx s m).2, store_acc,
      fillBh_store H s m hne]
    cases hrv : receivedAllB H s with
    | false =>
      simp only [Bool.not_false, if_true]
      rw [accept_early hM (inv.fill hM) m hm hf.fill (by rw [fillBh_cur]; exact hr)]
      exact Out.refl _
    | true =>
      simp only [Bool.not_true, Bool.false_eq_true, if_false]
      have key : ∀ a b : State, terminal a = true → FEq a b → Out (accept H a m) b := by
        intro a b ht hfe
        rw [accept_terminal H a m ht]
        exact Or.inr ⟨ht, hfe⟩
      by_cases hfe : (sc.finErrAt != 0 && sc.finErrAt == s.cur) = true
      · simp only [hfe, if_true]
        exact key _ _ (by simp [terminal, abort]) (abort_feq (store_feq _ m).symm _)
      · simp only [hfe, if_false, Bool.false_eq_true]
        cases hn : sc.rounds[s.idx + 1]? with
        | none =>
          simp only
          exact key _ _ (by simp [terminal, abort]) (abort_feq (output_feq (store_feq _ m).symm _) _)
        | some nx =>
          simp only
          have invp := inv.preReplay hM nx hn hrv
          have hself : m.frm ≠ s.sc.self := by rw [inv.scEq]; exact hh.notSelf
          have hps := preReplay_store H s m nx hne hself
          have hfp : Fresh (preReplay H s nx) m := hf.preReplay nx hself
          have hpcur : (preReplay H s nx).cur = nx.num := rfl
          have hpidx : (preReplay H s nx).idx = s.idx + 1 := rfl
          have hle := inv.next_le hM m hm hr nx hn
          have hlen : s.idx + 1 < sc.rounds.length := (List.getElem?_eq_some_iff.mp hn).1
          rw [rsum_curEq hps.curEq]
          rcases Nat.lt_or_eq_of_le hle with hlt | heq
          · rw [rsum_store_early _ m (by rw [hpcur]; omega)]
            apply ih _ _ (invp.addAcc _) hfp (by show nx.num < m.rnd; exact hlt)
            · rw [store_addAcc]; exact addAcc_sim hps _
            · show sc.rounds.length ≤ fuel + (s.idx + 1); omega
          · have hrt : m.rnd = (preReplay H s nx).cur := by rw [hpcur]; exact heq.symm
            rw [rsum_store_now hM invp m hm hfp hrt]
            obtain ⟨f, rfl⟩ : ∃ f, fuel = f + 1 := ⟨fuel - 1, by omega⟩
            have invt := invp.addAcc (rsum (preReplay H s nx))
            have hft : Fresh (addAcc (preReplay H s nx) (rsum (preReplay H s nx))) m := hfp
            have hrt' : m.rnd = (addAcc (preReplay H s nx) (rsum (preReplay H s nx))).cur := hrt
            -- the run without `m` stops in the round of `m`
            have e1 : finalize H (f + 1) (addAcc (preReplay H s nx) (rsum (preReplay H s nx))) =
                fillBh H (addAcc (preReplay H s nx) (rsum (preReplay H s nx))) := by
              unfold finalize
              rw [finalizeStep_honest hM invt, receivedAllB_missing hM invt m hm hft hrt']
              simp
            rw [e1, accept_now hM (invt.fill hM) m hm hft.fill (by rw [fillBh_cur]; exact hrt'), delta_fillBh,
              finalize_after_fill hM invt m hm hft hrt']
            have e2 : delta (addAcc (preReplay H s nx) (rsum (preReplay H s nx))) m = delta (preReplay H s nx) m := rfl
            rw [e2]
            have hX : Sim (addAcc (preReplay H (store s m) nx) (rsum (preReplay H s nx) + delta (preReplay H s nx) m))
                (addAcc (store (addAcc (preReplay H s nx) (rsum (preReplay H s nx))) m) (delta (preReplay H s nx) m)) := by
              rw [store_addAcc, addAcc_add]
              exact addAcc_sim hps _
            have e3 := finalize_fuel H (sc.rounds.length + 1) (f + 1)
              (addAcc (store (addAcc (preReplay H s nx) (rsum (preReplay H s nx))) m) (delta (preReplay H s nx) m))
              (by
                show (store (addAcc (preReplay H s nx) (rsum (preReplay H s nx))) m).idx <
                  (store (addAcc (preReplay H s nx) (rsum (preReplay H s nx))) m).sc.rounds.length
                rw [(store_idx _ m).1, store_sc]
                show s.idx + 1 < (preReplay H s nx).sc.rounds.length
                rw [invp.scEq]; exact hlen)
              (by
                show (store (addAcc (preReplay H s nx) (rsum (preReplay H s nx))) m).sc.rounds.length ≤ _
                rw [store_sc]
                show (preReplay H s nx).sc.rounds.length ≤ _
                rw [invp.scEq]; omega)
              (by
                show (store (addAcc (preReplay H s nx) (rsum (preReplay H s nx))) m).sc.rounds.length ≤
                  f + 1 + (store (addAcc (preReplay H s nx) (rsum (preReplay H s nx))) m).idx
                rw [(store_idx _ m).1, store_sc]
                show (preReplay H s nx).sc.rounds.length ≤ f + 1 + (s.idx + 1)
                rw [invp.scEq]; omega)
            rw [e3]
            exact Or.inl (finalize_sim H _ hX.symm)

end

/-! ## Part 4: every delivery sequence reaches the canonical state of its set of messages -/

/-- the key of `m` is taken in the queue `m` belongs to -/
def HasKey (m : Msg) (s : State) : Prop :=
  (if m.bcast then lookup s.bc m.rnd m.frm else lookup s.msgs m.rnd m.frm).isSome = true

theorem store_hasKey (m : Msg) (s : State) (x : Msg) (h : HasKey m s) : HasKey m (store s x) := by
  unfold HasKey at *
  rw [lookup_store_bc', lookup_store_msgs']
  cases hb : m.bcast with
  | true =>
    simp only [hb, if_true] at h ⊢
    obtain ⟨y, hy⟩ := Option.isSome_iff_exists.mp h
    rw [hy]; rfl
  | false =>
    simp only [hb, Bool.false_eq_true, if_false] at h ⊢
    obtain ⟨y, hy⟩ := Option.isSome_iff_exists.mp h
    rw [hy]; rfl

theorem foldStore_hasKey (m : Msg) (ems : List Msg) (s : State) (h : HasKey m s) :
    HasKey m (ems.foldl (fun st x => if x.bcast then store st x else st) s) := by
  induction ems generalizing s with
  | nil => exact h
  | cons x xs ih =>
    rw [List.foldl_cons]
    split
    · exact ih _ (store_hasKey m s x h)
    · exact ih _ h

theorem hasKey_preserved (H : Bytes → Bytes) (m : Msg) : Preserved H (HasKey m) where
  onCore := fun h o => by unfold HasKey at *; rw [← h.2.2.2.2.1, ← h.2.2.2.2.2.1]; exact o
  onStore := fun s x o => store_hasKey m s x o
  onFill := fun s o => by rw [fillBh_eq' H s]; exact o
  onAbort := fun s e o => by cases e <;> exact o
  onSend := fun s nx o => by unfold sendAll; exact foldStore_hasKey m _ s o
  onEnter := fun _ _ _ _ _ o => o
  onEnter0 := fun _ o => o
  onOutput := fun _ _ o => o

section
variable {H : Bytes → Bytes} {sc : Script} {M : List Msg}

theorem accept_hasKey {s : State} {m : Msg} (hh : HonestMsg H sc M m) (hs : s.sc = sc) (h : HasKey m s) :
    accept H s m = s := by
  have hsl := hh.slot
  have h0 : (m.rnd == 0) = false := by
    unfold hasSlot at hsl
    simp only [Bool.and_eq_true, decide_eq_true_eq] at hsl
    simp; omega
  have : duplicate s m = true := by
    unfold duplicate
    rw [hs]
    simp only [h0, Bool.false_eq_true, if_false, hsl, Bool.not_true]
    unfold HasKey at h
    cases hb : m.bcast <;> simp only [hb, Bool.false_eq_true, if_false, if_true] at h ⊢ <;> exact h
  simp [accept, this]

theorem store_hasKey_self {s : State} {m : Msg} (h : HasKey m s) : store s m = s := by
  unfold HasKey at h
  unfold store
  split
  · rfl
  · cases hb : m.bcast <;> simp only [hb, Bool.false_eq_true, if_false, if_true] at h ⊢ <;> simp only [h, if_true]

theorem not_hasKey_fresh {s : State} {m : Msg} (h : ¬ HasKey m s) : Fresh s m := by
  unfold HasKey at h
  unfold Fresh
  cases hq : (if m.bcast then lookup s.bc m.rnd m.frm else lookup s.msgs m.rnd m.frm) with
  | none => rfl
  | some x => rw [hq] at h; simp at h

/-- all messages of `l` put into the queues of a handler that has not started yet -/
def preload (sc : Script) (l : List Msg) : State := l.foldl store (state0 sc)

/-- the canonical state of a set of delivered messages: all of them arrive before the handler starts -/
def canon (H : Bytes → Bytes) (sc : Script) (l : List Msg) : State :=
  finalize H (sc.rounds.length + 1) (preload sc l)

theorem state0_hinv (hM : Honest H sc M) : HInv H sc M (state0 sc) := by
  have hfirst := hM.script.first
  cases h0 : sc.rounds[0]? with
  | none => rw [h0] at hfirst; cases hfirst
  | some r1 =>
    rw [h0] at hfirst
    simp only [Option.map_some, Option.some.injEq] at hfirst
    have hg : sc.rounds.getD 0 default = r1 := by simp [List.getD, h0]
    have hc : (state0 sc).cur = 1 := by simp only [state0, hg, hfirst]
    have hre : (state0 sc).reached = [1] := by simp only [state0, hg, hfirst]
    exact {
      scEq := rfl
      live := ⟨rfl, rfl, rfl⟩
      keys := ⟨fun e he => (nomatch he), fun e he => (nomatch he)⟩
      idx := ⟨r1, h0, by rw [hc, hfirst]⟩
      accused := rfl
      reached := fun r hr => by
        rw [hre] at hr
        rw [hc]
        simp only [List.mem_singleton] at hr
        omega
      curIn := by rw [hc, hre]; simp
      msgs := fun e he => nomatch he
      bc := fun e he => nomatch he
      bh := fun r h hr => by simp [bhLookup, state0] at hr }

theorem foldl_store_frame (l : List Msg) (s : State) :
    (l.foldl store s).idx = s.idx ∧ (l.foldl store s).cur = s.cur := by
  induction l generalizing s with
  | nil => exact ⟨rfl, rfl⟩
  | cons m ms ih =>
    rw [List.foldl_cons]
    exact ⟨(ih _).1.trans (store_idx s m).1, (ih _).2.trans (store_idx s m).2⟩

theorem foldl_store_hinv {s : State} (inv : HInv H sc M s) (l : List Msg) (hl : ∀ m ∈ l, m ∈ M) :
    HInv H sc M (l.foldl store s) := by
  induction l generalizing s with
  | nil => exact inv
  | cons m ms ih =>
    rw [List.foldl_cons]
    exact ih (inv.store m (hl m (by simp))) (fun x hx => hl x (by simp [hx]))

theorem preload_hinv (hM : Honest H sc M) (l : List Msg) (hl : ∀ m ∈ l, m ∈ M) : HInv H sc M (preload sc l) :=
  foldl_store_hinv (state0_hinv hM) l hl

theorem preload_cur (hM : Honest H sc M) (l : List Msg) : (preload sc l).cur = 1 ∧ (preload sc l).idx = 0 := by
  have hfirst := hM.script.first
  cases h0 : sc.rounds[0]? with
  | none => rw [h0] at hfirst; cases hfirst
  | some r1 =>
    rw [h0] at hfirst
    simp only [Option.map_some, Option.some.injEq] at hfirst
    have hg : sc.rounds.getD 0 default = r1 := by simp [List.getD, h0]
    unfold preload
    refine ⟨(foldl_store_frame l _).2.trans ?_, (foldl_store_frame l _).1.trans rfl⟩
    simp only [state0, hg, hfirst]

theorem preload_snoc (l : List Msg) (m : Msg) : preload sc (l ++ [m]) = store (preload sc l) m := by
  unfold preload; rw [List.foldl_append]; rfl

theorem run_snoc (l : List Msg) (m : Msg) :
    run H sc ((l ++ [m]).map Call.accept) = accept H (run H sc (l.map Call.accept)) m := by
  unfold run; rw [List.map_append, List.foldl_append]; rfl

/-- every delivery sequence of honest messages reaches the canonical state of the delivered set -/
theorem run_canon_rev (hM : Honest H sc M) (l : List Msg) (hl : ∀ m ∈ l, m ∈ M) :
    Out (run H sc (l.reverse.map Call.accept)) (canon H sc l.reverse) := by
  induction l with
  | nil => exact Out.refl _
  | cons m l ih =>
    have hm : m ∈ M := hl m (by simp)
    have hl' : ∀ x ∈ l, x ∈ M := fun x hx => hl x (by simp [hx])
    have hlr : ∀ x ∈ l.reverse, x ∈ M := fun x hx => hl' x (List.mem_reverse.mp hx)
    have ih := ih hl'
    rw [List.reverse_cons, run_snoc]
    unfold canon
    rw [preload_snoc]
    have h1 := accept_out H ih m
    refine h1.trans ?_
    have inv := preload_hinv hM l.reverse hlr
    have hh := hM.msgs m hm
    by_cases hk : HasKey m (preload sc l.reverse)
    · rw [store_hasKey_self hk]
      have hk' : HasKey m (canon H sc l.reverse) := finalize_pres (hasKey_preserved H m) _ _ hk
      have hsc : (canon H sc l.reverse).sc = sc :=
        finalize_pres (sc_preserved H sc) _ _ inv.scEq
      rw [accept_hasKey hh hsc hk']
      exact Out.refl _
    · have hc := preload_cur hM l.reverse
      have hsl := hh.slot
      unfold hasSlot at hsl
      simp only [Bool.and_eq_true, decide_eq_true_eq] at hsl
      exact insert_early hM m hm (sc.rounds.length + 1) (preload sc l.reverse) _ inv (not_hasKey_fresh hk)
        (by rw [hc.1]; omega) (Sim.refl _) (by omega)

theorem run_canon (hM : Honest H sc M) (l : List Msg) (hl : ∀ m ∈ l, m ∈ M) :
    Out (run H sc (l.map Call.accept)) (canon H sc l) := by
  have := run_canon_rev hM l.reverse (fun m hm => hl m (List.mem_reverse.mp hm))
  rw [List.reverse_reverse] at this
  exact this

end

/-! ### the preloaded queues depend only on the SET of messages -/

theorem lookup_of_mem (q : List (Nat × Bytes × Msg))
    (hf : ∀ e ∈ q, ∀ e' ∈ q, e.1 = e'.1 → e.2.1 = e'.2.1 → e = e') (e : Nat × Bytes × Msg) (he : e ∈ q) :
    lookup q e.1 e.2.1 = some e.2.2 := by
  unfold lookup
  cases hfind : q.find? (fun x => x.1 == e.1 && x.2.1 == e.2.1) with
  | none =>
    have := List.find?_eq_none.mp hfind e he
    simp at this
  | some e' =>
    have hp := List.find?_some hfind
    simp only [Bool.and_eq_true, beq_iff_eq] at hp
    have := hf e' (List.mem_of_find?_eq_some hfind) e he hp.1 hp.2
    rw [this]; rfl

theorem qeq_of_mem (q q' : List (Nat × Bytes × Msg)) (hmem : ∀ e, e ∈ q ↔ e ∈ q')
    (hf : ∀ e ∈ q, ∀ e' ∈ q, e.1 = e'.1 → e.2.1 = e'.2.1 → e = e') : QEq q q' := by
  have hf' : ∀ e ∈ q', ∀ e' ∈ q', e.1 = e'.1 → e.2.1 = e'.2.1 → e = e' :=
    fun e he e' he' => hf e ((hmem e).2 he) e' ((hmem e').2 he')
  refine ⟨hmem, fun r id => ?_⟩
  apply Option.ext
  intro x
  constructor
  · intro h
    obtain ⟨e, he, rfl, rfl, rfl⟩ := lookup_keys _ _ _ _ h
    exact lookup_of_mem q' hf' e ((hmem e).1 he)
  · intro h
    obtain ⟨e, he, rfl, rfl, rfl⟩ := lookup_keys _ _ _ _ h
    exact lookup_of_mem q hf e ((hmem e).2 he)

/-- the queue for broadcasts (`b = true`) or for p2p messages (`b = false`) -/
def qOf (b : Bool) (s : State) : List (Nat × Bytes × Msg) := if b then s.bc else s.msgs

theorem mem_store_q (b : Bool) (s : State) (m : Msg) (e : Nat × Bytes × Msg) :
    e ∈ qOf b (store s m) ↔ e ∈ qOf b s ∨
      (hasSlot s.sc m.rnd = true ∧ m.bcast = b ∧ lookup (qOf b s) m.rnd m.frm = none ∧ e = (m.rnd, m.frm, m)) := by
  cases b with
  | true => exact mem_store_bc s m e
  | false => exact mem_store_msgs s m e

section
variable {H : Bytes → Bytes} {sc : Script} {M : List Msg}

theorem preload_sc (l : List Msg) : (preload sc l).sc = sc := by
  unfold preload
  suffices h : ∀ s : State, (l.foldl store s).sc = s.sc from h _
  induction l with
  | nil => intro s; rfl
  | cons m ms ih => intro s; rw [List.foldl_cons, ih, store_sc]

theorem mem_preload_rev (hM : Honest H sc M) (b : Bool) (l : List Msg) (hl : ∀ m ∈ l, m ∈ M) (e : Nat × Bytes × Msg) :
    e ∈ qOf b (preload sc l.reverse) ↔ ∃ m ∈ l, m.bcast = b ∧ e = (m.rnd, m.frm, m) := by
  induction l generalizing e with
  | nil =>
    have : qOf b (preload sc ([] : List Msg).reverse) = [] := by cases b <;> rfl
    rw [this]; simp
  | cons x l ih =>
    have hl' : ∀ m ∈ l, m ∈ M := fun m hm => hl m (by simp [hm])
    have hx : x ∈ M := hl x (by simp)
    have ih := ih hl'
    rw [List.reverse_cons, preload_snoc, mem_store_q, preload_sc]
    constructor
    · rintro (h | ⟨_, h2, _, h4⟩)
      · obtain ⟨m, hm, h⟩ := (ih e).1 h
        exact ⟨m, by simp [hm], h⟩
      · exact ⟨x, by simp, h2, h4⟩
    · rintro ⟨m, hm, hb, rfl⟩
      rcases List.mem_cons.mp hm with rfl | hm
      · cases hlk : lookup (qOf b (preload sc l.reverse)) m.rnd m.frm with
        | none => exact Or.inr ⟨(hM.msgs m hx).slot, hb, rfl, rfl⟩
        | some y =>
          left
          obtain ⟨e', he', _, hk1, hk2⟩ := lookup_keys _ _ _ _ hlk
          obtain ⟨m', hm', hb', rfl⟩ := (ih e').1 he'
          have := hM.uniq m' (hl' m' hm') m hx hk1 hk2 (hb'.trans hb.symm)
          subst this
          exact he'
      · exact Or.inl ((ih _).2 ⟨m, hm, hb, rfl⟩)

theorem mem_preload (hM : Honest H sc M) (b : Bool) (l : List Msg) (hl : ∀ m ∈ l, m ∈ M) (e : Nat × Bytes × Msg) :
    e ∈ qOf b (preload sc l) ↔ ∃ m ∈ l, m.bcast = b ∧ e = (m.rnd, m.frm, m) := by
  have := mem_preload_rev hM b l.reverse (fun m hm => hl m (List.mem_reverse.mp hm)) e
  rw [List.reverse_reverse] at this
  rw [this]
  simp only [List.mem_reverse]

theorem preload_qeq (hM : Honest H sc M) (b : Bool) (l1 l2 : List Msg) (h1 : ∀ m ∈ l1, m ∈ M) (h2 : ∀ m ∈ l2, m ∈ M)
    (hsame : ∀ m, m ∈ l1 ↔ m ∈ l2) : QEq (qOf b (preload sc l1)) (qOf b (preload sc l2)) := by
  apply qeq_of_mem
  · intro e
    rw [mem_preload hM b l1 h1, mem_preload hM b l2 h2]
    constructor
    · rintro ⟨m, hm, h⟩; exact ⟨m, (hsame m).1 hm, h⟩
    · rintro ⟨m, hm, h⟩; exact ⟨m, (hsame m).2 hm, h⟩
  · intro e he e' he' k1 k2
    obtain ⟨m, hm, hb, rfl⟩ := (mem_preload hM b l1 h1 e).1 he
    obtain ⟨m', hm', hb', rfl⟩ := (mem_preload hM b l1 h1 e').1 he'
    have := hM.uniq m (h1 m hm) m' (h1 m' hm') k1 k2 (hb.trans hb'.symm)
    rw [this]

theorem foldl_store_feq (l : List Msg) (s : State) : FEq (l.foldl store s) s := by
  induction l generalizing s with
  | nil => exact FEq.refl s
  | cons m ms ih => rw [List.foldl_cons]; exact (ih _).trans (store_feq s m)

/-- two lists with the same elements preload the same queues -/
theorem preload_sim (hM : Honest H sc M) (l1 l2 : List Msg) (h1 : ∀ m ∈ l1, m ∈ M) (h2 : ∀ m ∈ l2, m ∈ M)
    (hsame : ∀ m, m ∈ l1 ↔ m ∈ l2) : Sim (preload sc l1) (preload sc l2) :=
  Sim.of_feq ((foldl_store_feq l1 _).trans (foldl_store_feq l2 _).symm)
    (preload_qeq hM false l1 l2 h1 h2 hsame) (preload_qeq hM true l1 l2 h1 h2 hsame)

theorem FEq.fields {a b : State} (h : FEq a b) :
    a.sc = b.sc ∧ a.idx = b.idx ∧ a.cur = b.cur ∧ a.reached = b.reached ∧ a.bh = b.bh ∧ a.err = b.err ∧
    a.result = b.result ∧ a.out = b.out ∧ a.closes = b.closes ∧ a.acc = b.acc ∧ a.accused = b.accused :=
  ⟨h.sc, h.idx, h.cur, h.reached, h.bh, h.err, h.result, h.out, h.closes, h.acc, h.accused⟩

/-- ORDER INDEPENDENCE (state form): two delivery sequences over the same set of honest messages end in states
    that agree in every field except the two message queues -/
theorem run_feq (hM : Honest H sc M) (l1 l2 : List Msg) (h1 : ∀ m ∈ l1, m ∈ M) (h2 : ∀ m ∈ l2, m ∈ M)
    (hsame : ∀ m, m ∈ l1 ↔ m ∈ l2) : FEq (run H sc (l1.map Call.accept)) (run H sc (l2.map Call.accept)) := by
  have o1 := run_canon hM l1 h1
  have o2 := run_canon hM l2 h2
  have hs : Sim (canon H sc l1) (canon H sc l2) := finalize_sim H _ (preload_sim hM l1 l2 h1 h2 hsame)
  exact o1.feq.trans (hs.feq.trans o2.feq.symm)

/-- while the session is running the queues agree as well (same content, possibly in another order) -/
theorem run_sim (hM : Honest H sc M) (l1 l2 : List Msg) (h1 : ∀ m ∈ l1, m ∈ M) (h2 : ∀ m ∈ l2, m ∈ M)
    (hsame : ∀ m, m ∈ l1 ↔ m ∈ l2) (hrun : terminal (run H sc (l1.map Call.accept)) = false) :
    Sim (run H sc (l1.map Call.accept)) (run H sc (l2.map Call.accept)) := by
  have o1 := run_canon hM l1 h1
  have o2 := run_canon hM l2 h2
  have hs : Sim (canon H sc l1) (canon H sc l2) := finalize_sim H _ (preload_sim hM l1 l2 h1 h2 hsame)
  have hf := run_feq hM l1 l2 h1 h2 hsame
  rcases o1 with o1 | ⟨ht, _⟩
  · rcases o2 with o2 | ⟨ht, _⟩
    · exact o1.trans (hs.trans o2.symm)
    · rw [← terminal_feq hf, hrun] at ht; cases ht
  · rw [hrun] at ht; cases ht

end

/-! ### honest deliveries never make the handler blame anybody -/

/-- the echo-hash table holds the session's hashes, and the only possible error is the own `Finalize` failure
    that the script prescribes -/
def Clean (H : Bytes → Bytes) (sc : Script) (M : List Msg) (t : State) : Prop :=
  (∀ r h, bhLookup t.bh r = some h → expBh H sc M r = some h) ∧ (t.err = none ∨ t.err = some .finalizeErr)

section
variable {H : Bytes → Bytes} {sc : Script} {M : List Msg}

theorem HInv.clean {s : State} (inv : HInv H sc M s) : Clean H sc M s := ⟨inv.bh, Or.inl inv.live.2.1⟩

theorem finalize_clean (hM : Honest H sc M) (fuel : Nat) (s : State) (inv : HInv H sc M s) :
    Clean H sc M (finalize H fuel s) := by
  induction fuel generalizing s with
  | zero => exact inv.clean
  | succ fuel ih =>
    have inv1 := inv.fill hM
    unfold finalize
    rw [finalizeStep_honest hM inv]
    cases hrv : receivedAllB H s with
    | false => simp only [Bool.not_false, if_true]; exact inv1.clean
    | true =>
      simp only [Bool.not_true, Bool.false_eq_true, if_false]
      by_cases hfe : (sc.finErrAt != 0 && sc.finErrAt == s.cur) = true
      · simp only [hfe, if_true]
        exact ⟨inv1.bh, Or.inr rfl⟩
      · simp only [hfe, if_false, Bool.false_eq_true]
        cases hn : sc.rounds[s.idx + 1]? with
        | none => simp only; exact ⟨inv1.bh, Or.inl inv1.live.2.1⟩
        | some nx => simp only; exact ih _ ((inv.preReplay hM nx hn hrv).addAcc _)

theorem run_clean (hM : Honest H sc M) (l : List Msg) (hl : ∀ m ∈ l, m ∈ M) :
    Clean H sc M (run H sc (l.map Call.accept)) := by
  have hc : Clean H sc M (canon H sc l) := finalize_clean hM _ _ (preload_hinv hM l hl)
  obtain ⟨_, _, _, _, e5, e6, _⟩ := (run_canon hM l hl).feq.fields
  unfold Clean
  rw [e5, e6]
  exact hc

end

end Mps.Handler
