import MpsProofs.Typed
import Mps.Session
/-
  Lemmas for the session tag (C09). Core-only.
-/
namespace Mps

theorem d_sid : str "Session ID" = [83, 101, 115, 115, 105, 111, 110, 32, 73, 68] := by decide
theorem d_pid : str "Protocol ID" = [80, 114, 111, 116, 111, 99, 111, 108, 32, 73, 68] := by decide
theorem d_grp : str "Group Name" = [71, 114, 111, 117, 112, 32, 78, 97, 109, 101] := by decide
theorem d_ids : str "IDSlice" = [73, 68, 83, 108, 105, 99, 101] := by decide
theorem d_thr : str "Threshold" = [84, 104, 114, 101, 115, 104, 111, 108, 100] := by decide
theorem d_id : str "ID" = [73, 68] := by decide

/-- what `round.NewSession` accepts and the 8-byte length fields can hold -/
def SessionParams.WF (p : SessionParams) : Prop :=
  p.ids.length < 2 ^ 64 ∧ (∀ i ∈ p.ids, i.length < 2 ^ 64) ∧ p.thr < 256 ^ 4

/-- the items written into the session hash determine every session parameter -/
theorem sessionItems_injective (p q : SessionParams) (hp : p.WF) (hq : q.WF)
    (h : sessionItems p = sessionItems q) : p = q := by
  obtain ⟨sid, proto, group, ids, thr, aux⟩ := p
  obtain ⟨sid', proto', group', ids', thr', aux'⟩ := q
  simp only [SessionParams.WF] at hp hq
  simp only [sessionItems, d_sid, d_pid, d_grp, d_ids, d_thr] at h
  cases sid <;> cases sid' <;> cases group <;> cases group' <;>
    simp only [List.nil_append, List.cons_append, List.cons.injEq, Item.mk.injEq, List.append_assoc] at h <;>
    (try (exfalso; revert h; decide)) <;>
    (try (exact absurd h.1.1 (by decide)))
  case none.none.none.none =>
    obtain ⟨⟨-, rfl⟩, ⟨-, hi⟩, ⟨-, ht⟩, rfl⟩ := h
    rw [idsData_inj _ _ hp.1 hq.1 hp.2.1 hq.2.1 hi, beN_inj 4 _ _ hp.2.2 hq.2.2 ht]
  case none.none.none.some => exact absurd h.2.1.1.1 (by decide)
  case none.none.some.none => exact absurd h.2.1.1.1 (by decide)
  case none.none.some.some =>
    obtain ⟨⟨-, rfl⟩, ⟨-, rfl⟩, ⟨-, hi⟩, ⟨-, ht⟩, rfl⟩ := h
    rw [idsData_inj _ _ hp.1 hq.1 hp.2.1 hq.2.1 hi, beN_inj 4 _ _ hp.2.2 hq.2.2 ht]
  case some.some.none.none =>
    obtain ⟨⟨-, rfl⟩, ⟨-, rfl⟩, ⟨-, hi⟩, ⟨-, ht⟩, rfl⟩ := h
    rw [idsData_inj _ _ hp.1 hq.1 hp.2.1 hq.2.1 hi, beN_inj 4 _ _ hp.2.2 hq.2.2 ht]
  case some.some.none.some => exact absurd h.2.2.1.1.1 (by decide)
  case some.some.some.none => exact absurd h.2.2.1.1.1 (by decide)
  case some.some.some.some =>
    obtain ⟨⟨-, rfl⟩, ⟨-, rfl⟩, ⟨-, rfl⟩, ⟨-, hi⟩, ⟨-, ht⟩, rfl⟩ := h
    rw [idsData_inj _ _ hp.1 hq.1 hp.2.1 hq.2.1 hi, beN_inj 4 _ _ hp.2.2 hq.2.2 ht]

/-- per-party hash context (`HashForID`): within one session, different party ids give different items -/
theorem hashForID_separates (p : SessionParams) (a b : Bytes) (ha : a ≠ []) (hb : b ≠ [])
    (h : hashForIDItems p a = hashForIDItems p b) : a = b := by
  simp only [hashForIDItems, ha, hb, if_false] at h
  have := List.append_cancel_left h
  simpa using this

end Mps
