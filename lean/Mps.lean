import Mps.Bytes
import Mps.Frame
import Mps.Typed
import Mps.Blake3
import Mps.Json
import Mps.Drv.Frame
