-- GENERATED. Root of the regenerated fact tables.
import MpsGen.Alg
import MpsGen.Hash
import MpsGen.Protocols
import MpsGen.Session
