-- GENERATED. Root of the regenerated fact tables.
import MpsGen.Alg
import MpsGen.Codec
import MpsGen.Guards
import MpsGen.HandlerSrc
import MpsGen.Hash
import MpsGen.Nonce
import MpsGen.OT
import MpsGen.Paillier
import MpsGen.Pool
import MpsGen.Protocols
import MpsGen.Session
import MpsGen.Sig
import MpsGen.Start
import MpsGen.ZK
