-- GENERATED. Root of the regenerated fact tables.
import MpsGen.Hash
import MpsGen.Protocols
import MpsGen.Session
