import MpsProofs.Byz
import MpsProps.C06Byz
/-
  C04 at system level — an honest participant is never blamed.

  Model: as in MpsProps/C06Byz.lean (Mps/Byz.lean): session `base`, ONE deviating participant `x` whose messages are
  arbitrary, authenticated channels, `ByzCausal` schedules. Lemmas in MpsProofs/Byz.lean. The handler-level facts are
  in MpsProps/C04.lean (`blame_provenance`, `honest_never_witness`, `notice_names_its_sender`, …).

  In the scripted protocol of the model a message fails verification iff it is of a kind its round does not expect,
  does not decode, or carries a failure flag; honest messages never do (also when they were computed on another view
  of the previous broadcast round: then the recipient's `sameBroadcastView` check, which comes first, answers with
  the culprit-less `echoMismatch`, see `Mps.C04.blamed_only_under_same_view`).
-/
namespace Mps.C04Byz
open Mps Mps.Handler Mps.System

/-- what an honest party emits (the per-message `Honest`-style facts of MpsProofs/Order.lean WITHOUT the echo-stamp
    clause, which fails under equivocation): every emitted message is the abort notice — and then the party has an
    error — or a message of a round of the script after the first that carries the party's name, decodes, carries no
    flag, and is of a kind its round expects. (Uniqueness per (round, sender, kind) is not needed below.) -/
theorem honest_emissions (H : Bytes → Bytes) (base : Script) (ok : SessionOk base) (sched : Sched) (q : Bytes) (m : Msg)
    (hm : m ∈ ((Sys.run H base sched) q).out) :
    (m.rnd = 0 ∧ ((Sys.run H base sched) q).err.isSome = true ∧ m = noticeOf (scriptFor base q)) ∨
    (∃ nx i, 1 ≤ i ∧ base.rounds[i]? = some nx ∧ m.rnd = nx.num ∧ 2 ≤ nx.num ∧ m.frm = q ∧
      (∃ c, m.dec = some c ∧ c.f = 0) ∧ (m.bcast = true → nx.recvB = true) ∧ (m.bcast = false → nx.recvP = true)) := by
  rcases honest_out ok sched q m hm with h | ⟨s', nx, i, hi, hnx, h2, hmem, hs'⟩
  · exact Or.inl h
  · obtain ⟨a, _, c, d, e, f⟩ := emitFor_fields s' nx m hmem
    exact Or.inr ⟨nx, i, hi, hnx, a, h2, by rw [c, hs']; rfl, d, e, f⟩

/-- HONEST NEVER BLAMED (explicit form). For every hash `H`, session `base` (`SessionOk`), deviating party `x`,
    Byzantine schedule and honest party `p`: the verdict of `p` is never a message failure of an honest party, never
    a protocol abort naming an honest party, never `p`'s own `Finalize` failure or a stop; and it is the relayed
    notice of an honest party `q` only if `q ≠ p` has itself aborted: its `out` holds its abort notice and it has an
    error (for the kinds of that error see `relayed_notice_chain` and `abort_root_cause`). -/
theorem honest_never_named_directly (H : Bytes → Bytes) (base : Script) (ok : SessionOk base) (x : Bytes) (sched : Sched)
    (hc : ByzCausal H base x sched = true) (p : Bytes) (hp : p ∈ honestIds base x) :
    (∀ q ∈ honestIds base x, ((Sys.run H base sched) p).err ≠ some (.msgFail q)) ∧
    (∀ cs, ((Sys.run H base sched) p).err = some (.protoAbort cs) → ∀ q ∈ honestIds base x, q ∉ cs) ∧
    (∀ q ∈ honestIds base x, ((Sys.run H base sched) p).err = some (.peerAbort q) →
      q ≠ p ∧ noticeOf (scriptFor base q) ∈ ((Sys.run H base sched) q).out ∧
      ((Sys.run H base sched) q).err.isSome = true) ∧
    ((Sys.run H base sched) p).err ≠ some .finalizeErr ∧ ((Sys.run H base sched) p).err ≠ some .stopped := by
  refine ⟨fun q hq => honest_not_msgFail ok sched hc p q hp hq,
    fun cs he q hq => honest_not_accused ok sched hc p q hp hq cs he, ?_, ?_, ?_⟩
  · intro q hq he
    rcases honest_peerAbort ok sched hc p q he with h | ⟨_, h2, h3, h4⟩
    · exact absurd h (mem_honestIds.mp hq).2
    · exact ⟨h2, h3, h4⟩
  · have := run_noSelfErr (H := H) (sessionOk_for ok p) (delivered sched p)
    rw [← run_apply] at this
    exact this.1
  · have := run_noSelfErr (H := H) (sessionOk_for ok p) (delivered sched p)
    rw [← run_apply] at this
    exact this.2

/-- THE CHAIN. The verdict of an honest party is a verdict of its own that names nobody but `x` (`primaryErr`: a
    failed message of `x`, a protocol abort naming only `x`, a notice sent by `x`, or the culprit-less echo mismatch),
    or the relayed notice of ANOTHER honest party that has aborted (to which the same applies in turn) -/
theorem relayed_notice_chain (H : Bytes → Bytes) (base : Script) (ok : SessionOk base) (x : Bytes) (sched : Sched)
    (hc : ByzCausal H base x sched = true) (p : Bytes) (hp : p ∈ honestIds base x) (e : ErrKind)
    (he : ((Sys.run H base sched) p).err = some e) :
    primaryErr x e = true ∨
    ∃ q ∈ honestIds base x, q ≠ p ∧ e = .peerAbort q ∧ noticeOf (scriptFor base q) ∈ ((Sys.run H base sched) q).out ∧
      ((Sys.run H base sched) q).err.isSome = true :=
  honest_error_kinds ok sched hc p hp e he

/-- a verdict of one's own names nobody but `x` -/
theorem primary_names_only_x (x : Bytes) (sc : Script) (e : ErrKind) (h : primaryErr x e = true) :
    ∀ c ∈ culpritsOf sc e, c = x := by
  cases e with
  | msgFail f => intro c hc; simp only [culpritsOf, List.mem_singleton] at hc; subst hc; simpa [primaryErr] using h
  | peerAbort f => intro c hc; simp only [culpritsOf, List.mem_singleton] at hc; subst hc; simpa [primaryErr] using h
  | echoMismatch => intro c hc; simp [culpritsOf] at hc
  | finalizeErr => simp [primaryErr] at h
  | stopped => simp [primaryErr] at h
  | protoAbort cs =>
    intro c hc
    simp only [primaryErr, List.all_eq_true, beq_iff_eq] at h
    exact h c hc

/-- HONEST NEVER BLAMED (culprit-list form). The culprit list `culpritsOf (scriptFor base p) e` reported by the
    `Result()` of an honest party `p` contains an honest id `q` only as the sender of a relayed notice: then the
    verdict is `peerAbort q`, `q ≠ p`, and `q` itself has aborted (notice in its `out`, error set). -/
theorem honest_never_blamed (H : Bytes → Bytes) (base : Script) (ok : SessionOk base) (x : Bytes) (sched : Sched)
    (hc : ByzCausal H base x sched = true) (p : Bytes) (hp : p ∈ honestIds base x) (e : ErrKind)
    (he : ((Sys.run H base sched) p).err = some e) (q : Bytes) (hq : q ∈ honestIds base x)
    (hmem : q ∈ culpritsOf (scriptFor base p) e) :
    e = .peerAbort q ∧ q ≠ p ∧ noticeOf (scriptFor base q) ∈ ((Sys.run H base sched) q).out ∧
      ((Sys.run H base sched) q).err.isSome = true := by
  rcases honest_error_kinds ok sched hc p hp e he with h | ⟨q', _, h2, h3, h4, h5⟩
  · exact absurd (primary_names_only_x x _ e h q hmem) (mem_honestIds.mp hq).2
  · subst h3
    simp only [culpritsOf, List.mem_singleton] at hmem
    subst hmem
    exact ⟨rfl, h2, h4, h5⟩

/-- ROOT CAUSE. Whenever some honest party has aborted, some honest party has aborted with a verdict of its own
    that names nobody but `x`: every chain of relayed notices among the honest parties starts at such a verdict
    (equivalently: as long as no honest party has such a verdict, no honest party has any error) -/
theorem abort_root_cause (H : Bytes → Bytes) (base : Script) (ok : SessionOk base) (x : Bytes) (sched : Sched)
    (hc : ByzCausal H base x sched = true)
    (h : ∃ p ∈ honestIds base x, ((Sys.run H base sched) p).err.isSome = true) :
    ∃ p ∈ honestIds base x, ∃ e, ((Sys.run H base sched) p).err = some e ∧ primaryErr x e = true :=
  abort_root ok sched hc h

/-! ### Non-vacuity: the 3-party session of `C06Byz.Ex` (round 2: broadcast, round 3: p2p), party `[3]` deviates -/

namespace Ex
open Mps.C06Byz.Ex

/-- `[3]` equivocates in round 2; `[2]` sees the mismatch and aborts; its notice reaches `[1]` first -/
def schedN : Sched :=
  [([1], hb [2]), ([1], e1), ([2], hb [1]), ([2], e2), ([2], hp3 [1] [2] [90, 78]), ([1], noticeOf (scriptFor sc [2]))]
/-- `[3]` sends `[1]` a broadcast whose content fails `StoreBroadcastMessage`, and `[2]` an abort notice -/
def schedF : Sched :=
  [([1], { e1 with dec := some ⟨3002, fFailStoreB⟩ }), ([2], { noticeOf (scriptFor sc [3]) with data := some [1, 2, 3] })]
/-- `[3]` sends `[1]` a broadcast that makes the round's `Finalize` accuse its sender, `[2]` an undecodable one -/
def schedA : Sched :=
  [([1], { e1 with dec := some ⟨3002, fAccuse⟩ }), ([1], hb [2]), ([2], { e2 with dec := none })]

set_option maxRecDepth 1000000 in
theorem causalN : ByzCausal Hx sc [3] schedN = true := by decide
set_option maxRecDepth 1000000 in
theorem causalF : ByzCausal Hx sc [3] schedF = true := by decide
set_option maxRecDepth 1000000 in
theorem causalA : ByzCausal Hx sc [3] schedA = true := by decide

-- equivocation: both honest parties end with the culprit-less echo mismatch; nobody is named
set_option maxRecDepth 1000000 in
example : ((Sys.run Hx sc schedE) [1]).err = some .echoMismatch ∧ ((Sys.run Hx sc schedE) [2]).err = some .echoMismatch ∧
    culpritsOf (scriptFor sc [1]) .echoMismatch = [] := by decide

-- equivocation with a relayed notice: `[2]` has the echo mismatch, `[1]` reports `[2]`'s notice
set_option maxRecDepth 1000000 in
theorem errsN : ((Sys.run Hx sc schedN) [2]).err = some .echoMismatch ∧
    ((Sys.run Hx sc schedN) [1]).err = some (.peerAbort [2]) := by decide

/-- every hypothesis of `honest_never_blamed` holds (with an honest id in the culprit list) -/
example : ErrKind.peerAbort [2] = .peerAbort [2] ∧ ([2] : Bytes) ≠ [1] ∧
    noticeOf (scriptFor sc [2]) ∈ ((Sys.run Hx sc schedN) [2]).out ∧ ((Sys.run Hx sc schedN) [2]).err.isSome = true :=
  honest_never_blamed Hx sc session_ok [3] schedN causalN [1] honest12.1 (.peerAbort [2]) errsN.2 [2] honest12.2 (by decide)

/-- … of `relayed_notice_chain` and of `abort_root_cause` -/
example : primaryErr [3] .echoMismatch = true ∨
    ∃ q ∈ honestIds sc [3], q ≠ [2] ∧ ErrKind.echoMismatch = .peerAbort q ∧
      noticeOf (scriptFor sc q) ∈ ((Sys.run Hx sc schedN) q).out ∧ ((Sys.run Hx sc schedN) q).err.isSome = true :=
  relayed_notice_chain Hx sc session_ok [3] schedN causalN [2] honest12.2 .echoMismatch errsN.1
example : ∃ p ∈ honestIds sc [3], ∃ e, ((Sys.run Hx sc schedN) p).err = some e ∧ primaryErr [3] e = true :=
  abort_root_cause Hx sc session_ok [3] schedN causalN ⟨[1], honest12.1, by rw [errsN.2]; rfl⟩

/-- … of `honest_emissions` (the notice of `[2]`) and of `primary_names_only_x` -/
example := honest_emissions Hx sc session_ok schedN [2] (noticeOf (scriptFor sc [2]))
  (honest_never_blamed Hx sc session_ok [3] schedN causalN [1] honest12.1 (.peerAbort [2]) errsN.2 [2] honest12.2
    (by decide)).2.2.1
example : ∀ c ∈ culpritsOf (scriptFor sc [1]) (.protoAbort [[3]]), c = [3] :=
  primary_names_only_x [3] (scriptFor sc [1]) (.protoAbort [[3]]) (by decide)

/-- … and of `honest_never_named_directly` (for every one of the schedules) -/
example := honest_never_named_directly Hx sc session_ok [3] schedE causalE [1] honest12.1
example := honest_never_named_directly Hx sc session_ok [3] schedA causalA [2] honest12.2

-- the verdicts against the cheater: failed message, notice, protocol abort, undecodable message
set_option maxRecDepth 1000000 in
example : ((Sys.run Hx sc schedF) [1]).err = some (.msgFail [3]) ∧ ((Sys.run Hx sc schedF) [2]).err = some (.peerAbort [3]) ∧
    ((Sys.run Hx sc schedA) [1]).err = some (.protoAbort [[3]]) ∧ ((Sys.run Hx sc schedA) [2]).err = some (.msgFail [3]) := by
  decide
end Ex

end Mps.C04Byz
