import MpsProps.Anchors.C06
import MpsProofs.Echo
import MpsProps.HandlerSrc
import MpsProps.C06Byz
import MpsGen.Session
/-
  C06 — Equivocation on a broadcast round cannot split honest parties.
  Model: Mps.Handler (echo broadcast of pkg/protocol/handler.go: receivedAll / checkBroadcastHash).
-/
namespace Mps.C06
open Mps Mps.Handler

/-- `Message.Hash` covers every wire field: equal hash inputs, equal SSID, sender, recipient, protocol,
    round number, content bytes, broadcast flag and attached echo hash -/
theorem msg_hash_input_injective (m m' : Msg) (hm : MsgOk m) (hm' : MsgOk m')
    (h : msgHashItems m = msgHashItems m') : wire m = wire m' := msgHashItems_injective m m' hm hm' h

/-- equal echo hashes of a round: byte-identical views of every participant's broadcast, or a collision -/
theorem echo_hash_agree (H : Bytes → Bytes) (hH : ∀ x, (H x).length < 2 ^ 64) (sc : Script)
    (bc bc' : List (Nat × Bytes × Msg)) (r : Nat) (h : Bytes) (hs : ∀ i ∈ sc.sess, i.WF)
    (ok : ∀ e ∈ bc, MsgOk e.2.2) (ok' : ∀ e ∈ bc', MsgOk e.2.2)
    (e1 : echoHash H sc bc r = some h) (e2 : echoHash H sc bc' r = some h) :
    (∀ id ∈ sc.ids, ∃ m m', lookup bc r id = some m ∧ lookup bc' r id = some m' ∧ wire m = wire m') ∨
    (∃ x y : Bytes, x ≠ y ∧ H x = H y) := echoHash_agree H hH sc bc bc' r h hs ok ok' e1 e2

/-- a handler leaves a round through the protocol's Finalize (next round or output) only if every stored
    message of that round carries the local echo hash of the previous round number -/
theorem leaves_round_only_if_echo_ok (H : Bytes → Bytes) (s s' : State) (h : finalizeStep H s = .more s')
    (prev : Bytes) (hp : bhLookup (fillBh H s).bh ((fillBh H s).cur - 1) = some prev) :
    (∀ e ∈ (fillBh H s).msgs, e.1 = (fillBh H s).cur → e.2.2.bv.getD [] = prev) ∧
    (∀ e ∈ (fillBh H s).bc, e.1 = (fillBh H s).cur → e.2.2.bv.getD [] = prev) :=
  check_passes_imp_bv _ prev hp (finalizeStep_more_checked H s s' h)

theorem echoHash_sc_congr (H : Bytes → Bytes) (sc sc' : Script) (bc : List (Nat × Bytes × Msg)) (r : Nat)
    (h1 : sc.ids = sc'.ids) (h2 : sc.sess = sc'.sess) : echoHash H sc bc r = echoHash H sc' bc r := by
  unfold echoHash
  rw [h1, h2]

/-- Echo agreement, for ALL scripts and for EVERY state two handlers A and B of one session (same
    participants, same session hash state) can pass through — also in the middle of a call:
    suppose A is in round r+1 with the echo check of that round passing (the check every handler
    must pass before it can leave the round, see `leaves_round_only_if_echo_ok`), and A has stored a
    round-(r+1) message that B emitted, stamped with an echo hash. Then A and B hold byte-identical
    copies of every participant's round-r broadcast — or the two runs exhibit a collision of the hash
    function. Hence two honest parties that were sent different round-r payloads by an equivocator
    cannot both get past round r+1. -/
theorem echo_agreement (H : Bytes → Bytes) (hH : ∀ x, (H x).length < 2 ^ 64) (scA scB : Script)
    (hids : scA.ids = scB.ids) (hsess : scA.sess = scB.sess) (hsw : ∀ i ∈ scA.sess, i.WF)
    (A B : State) (rA : Reach H scA A) (rB : Reach H scB B) (r : Nat) (hA hB : Bytes) (m : Msg)
    (wfA : ∀ e ∈ A.bc, MsgOk e.2.2) (wfB : ∀ e ∈ B.bc, MsgOk e.2.2)
    (hcur : A.cur = r + 1) (hbhA : bhLookup A.bh r = some hA) (hchk : checkBroadcastHash A = true)
    (hm : m ∈ B.out) (hmr : m.rnd = r + 1) (hbv : m.bv = some hB)
    (hst : (∃ f, (r + 1, f, m) ∈ A.msgs) ∨ (∃ f, (r + 1, f, m) ∈ A.bc)) :
    (∀ id ∈ scA.ids, ∃ ma mb, lookup A.bc r id = some ma ∧ lookup B.bc r id = some mb ∧ wire ma = wire mb) ∨
    (∃ x y : Bytes, x ≠ y ∧ H x = H y) := by
  -- B stamped m with its own echo hash of round r
  have hBb : bhLookup B.bh r = some hB := by
    have := reach_outBv H scB B rB m hm hB hbv
    rw [hmr] at this
    simpa using this
  -- A's check forces hA = hB
  have hprev : bhLookup A.bh (A.cur - 1) = some hA := by
    rw [hcur]; simpa using hbhA
  have hck := check_passes_imp_bv _ hA hprev hchk
  have heq : hB = hA := by
    rcases hst with ⟨f, hf⟩ | ⟨f, hf⟩
    · have := hck.1 _ hf (by simp [hcur])
      simpa [hbv] using this
    · have := hck.2 _ hf (by simp [hcur])
      simpa [hbv] using this
  subst heq
  -- both stored hashes are the hashes of the stored views
  have eA := reach_bhOk H scA A rA r hB hbhA
  have eB := reach_bhOk H scB B rB r hB hBb
  rw [reach_sc H scA A rA] at eA
  rw [reach_sc H scB B rB] at eB
  rw [echoHash_sc_congr H scB scA _ r hids.symm hsess.symm] at eB
  exact echoHash_agree H hH scA _ _ r hB hsw wfA wfB eA eB

/-- the states between two API calls are among the states quantified over above -/
theorem runs_are_reachable (H : Bytes → Bytes) (sc : Script) (calls : List Call) : Reach H sc (run H sc calls) :=
  run_reach H sc calls

/-! ### Non-vacuity: a concrete pair of handlers meeting every hypothesis of `echo_agreement` -/

section demo
def Hd (b : Bytes) : Bytes := [UInt8.ofNat (b.foldl (fun a x => (a * 31 + x.toNat) % 251) 7)]
def scA : Script := { ids := [str "a", str "b", str "c"], self := str "a", final := 3, rounds := [⟨1, false, false⟩, ⟨2, true, false⟩, ⟨3, false, true⟩], proto := str "p", ssid := [9], sess := [], finErrAt := 0 }
def scB : Script := { scA with self := str "b" }
def scC : Script := { scA with self := str "c" }
def ba : Msg := (init Hd scA).out.headD default   -- round-2 broadcasts
def bb : Msg := (init Hd scB).out.headD default
def bcc : Msg := (init Hd scC).out.headD default
def stB : State := run Hd scB [.accept ba, .accept bcc]     -- B is in round 3 and has sent its p2p messages
def mb : Msg := stB.out.getD 1 default                       -- … the one for A
def stA : State := run Hd scA [.accept bb, .accept bcc, .accept mb]   -- A still waits for C's p2p message

set_option maxRecDepth 100000 in
example : stA.cur = 2 + 1 ∧ checkBroadcastHash stA = true ∧ mb ∈ stB.out ∧ mb.rnd = 2 + 1 ∧
    (bhLookup stA.bh 2).isSome = true ∧ mb.bv = bhLookup stB.bh 2 ∧ (2 + 1, str "b", mb) ∈ stA.msgs := by decide
end demo

/-! ### Obligations over the regenerated tables -/

set_option maxRecDepth 16384

/-- `Message.Hash` hashes these eight items in this order — the layout `msgHashItems` models -/
theorem gen_message_hash : MpsGen.Session.messageHash =
    [ "hash.BytesWithDomain{TheDomain: \"SSID\", Bytes: m.SSID}", "m.From", "m.To",
      "hash.BytesWithDomain{TheDomain: \"Protocol\", Bytes: []byte(m.Protocol)}", "m.RoundNumber",
      "hash.BytesWithDomain{TheDomain: \"Content\", Bytes: m.Data}",
      "hash.BytesWithDomain{TheDomain: \"Broadcast\", Bytes: []byte{broadcast}}",
      "hash.BytesWithDomain{TheDomain: \"BroadcastVerification\", Bytes: m.BroadcastVerification}" ] := by decide

/-- `receivedAll` hashes the broadcast of EVERY party in id order on top of the session hash; `checkBroadcastHash`
    compares the attached hash of every stored p2p and broadcast message of the current round with the hash of
    round number − 1; `finalize` stamps outgoing messages with the hash of (new round number − 1) -/
theorem gen_echo :
    MpsGen.Session.receivedAllEcho =
      [ "if _, ok := r.(round.BroadcastRound); ok: if h.broadcastHashes[number] == nil: r.Hash()",
        "if _, ok := r.(round.BroadcastRound); ok: if h.broadcastHashes[number] == nil: hashState.WriteAny(&hash.BytesWithDomain{ TheDomain: \"Message\", Bytes: msg.Hash(), })",
        "if _, ok := r.(round.BroadcastRound); ok: if h.broadcastHashes[number] == nil: msg.Hash()",
        "if _, ok := r.(round.BroadcastRound); ok: if h.broadcastHashes[number] == nil: hashState.Sum()" ] ∧
    MpsGen.Session.receivedAllRanges = ["_, id := range r.PartyIDs()", "_, id := range r.PartyIDs()", "_, id := range r.OtherPartyIDs()"] ∧
    MpsGen.Session.checkBroadcastHash =
      [ "previousHash == nil => true",
        "msg != nil && !bytes.Equal(previousHash, msg.BroadcastVerification) => false",
        "msg != nil && !bytes.Equal(previousHash, msg.BroadcastVerification) => false" ] ∧
    MpsGen.Session.checkBroadcastHashRanges = ["_, msg := range h.messages[number]", "_, msg := range h.broadcast[number]"] ∧
    MpsGen.Session.finalizeEcho =
      [ "h.receivedAll()", "h.checkBroadcastHash()",
        "if !h.checkBroadcastHash(): h.abort(errBroadcastVerification)",
        "h.currentRound.Finalize(out)",
        "if err != nil || r == nil: h.abort(err, h.currentRound.SelfID())",
        "h.abort(R.Err, R.Culprits...)", "h.abort(nil)",
        "if _, ok := r.(round.BroadcastRound); ok: if err = h.verifyBroadcastMessage(m); err != nil: h.abortVerification(err, m.From)",
        "if else: if err = h.verifyMessage(m); err != nil: h.abortVerification(err, m.From)" ] := by
  decide

end Mps.C06
