import MpsProps.Anchors.C04
import MpsProofs.Blame
import MpsProps.Src.SrcCmpKeygen
import MpsProps.Src.SrcCmpSign
import MpsProps.Src.SrcCmpPresign
import MpsProps.Src.SrcFrostKeygen
import MpsProps.Src.SrcFrostSign
import MpsProps.HandlerSrc
import MpsProps.C04Byz
import MpsGen.Session
/-
  C04 — Blame is sound: who a handler names, and why (handler level, all scripts and histories).
  The protocol-specific part (CMP presign abort identification) is in MpsProps/C04presign.lean.
-/
namespace Mps.C04
open Mps Mps.Handler

/-- Provenance of a message-failure verdict, over ALL scripts and ALL call histories: whenever a handler's
    Result is an error blaming `f` for a failed message, one of its queues holds a message from `f` for the
    round the handler is in that violates the protocol in that round: it is of a kind the round does not
    expect, it does not decode, or its content fails the round's verification / storing. -/
theorem blame_provenance (H : Bytes → Bytes) (sc : Script) (calls : List Call) :
    BlameOk (run H sc calls) := by
  unfold run
  have h0 : Good (init H sc) ∧ QueueKeys (init H sc) ∧ BlameOk (init H sc) := by
    refine ⟨init_good H sc, ?_, ?_⟩
    · unfold init
      exact finalize_pres (queueKeys_preserved H) _ _ ⟨by simp [state0], by simp [state0]⟩
    · unfold init
      exact finalize_blameOk H _ _ ⟨rfl, rfl, rfl⟩ ⟨by simp [state0], by simp [state0]⟩
  generalize init H sc = s at h0
  induction calls generalizing s with
  | nil => exact h0.2.2
  | cons c cs ih =>
    apply ih
    obtain ⟨g, qk, b⟩ := h0
    cases c <;> simp only [Handler.apply]
    · refine ⟨accept_good H s _ g, accept_pres (queueKeys_preserved H) s _ qk, ?_⟩
      rcases g with l | d
      · exact accept_blameOk H s _ l qk
      · rw [accept_terminal H s _ (terminal_of_done d)]; exact b
    · exact ⟨g, qk, b⟩
    · exact ⟨g, qk, b⟩
    · exact ⟨g, qk, b⟩
    · refine ⟨stop_good s g, stop_pres (queueKeys_preserved H) s qk, ?_⟩
      unfold Handler.stop
      split
      · exact b
      · intro f hf; simp [abort] at hf

/-- the flag bits of honest content are all clear -/
theorem honest_flags (bit : Nat) (hb : bit = fFailVerify ∨ bit = fFailStore ∨ bit = fFailStoreB) : hasFlag 0 bit = false := by
  rcases hb with rfl | rfl | rfl <;> decide

/-- No message an honest handler of the script ever emits can serve as the witness of a blame: if round
    numbers identify rounds (no two script rounds share a number), a message that deviates in the round
    the blaming handler is in is not among the messages any handler state of that script sends. Hence
    (channels being authenticated) an honest participant is never named for a message failure. -/
theorem honest_never_witness (t s' : State) (ix : IdxOk t) (hc : t.cur ≠ 0)
    (hnodup : (t.sc.rounds.map (·.num)).Nodup) (m : Msg) (hm : m.rnd = t.cur) (hd : Deviates (curSpec t) m)
    (nx : RoundSpec) (hnx : nx ∈ t.sc.rounds) : m ∉ emitFor s' nx := by
  intro hmem
  obtain ⟨hnum, hin⟩ := curSpec_of_idxOk t ix hc
  -- what an emitted message looks like
  have shape : m.rnd = nx.num ∧ m.dec.map (·.f) = some 0 ∧ (m.bcast = true → nx.recvB = true) ∧
      (m.bcast = false → nx.recvP = true) := by
    simp only [emitFor, List.mem_append] at hmem
    rcases hmem with h | h
    · split at h
      · next hb => simp only [List.mem_singleton] at h; subst h; exact ⟨rfl, rfl, fun _ => hb, fun h => by simp at h⟩
      · simp at h
    · split at h
      · next hp =>
        simp only [List.mem_map] at h
        obtain ⟨id, _, rfl⟩ := h
        exact ⟨rfl, rfl, fun h => by simp at h, fun _ => hp⟩
      · simp at h
  obtain ⟨h1, h2, h3, h4⟩ := shape
  -- same number, hence the same round of the script
  have hsame : nx = curSpec t := by
    have e : nx.num = (curSpec t).num := by rw [← h1, hm, hnum]
    exact nodup_map_inj (·.num) _ hnodup _ _ hnx hin e
  subst hsame
  have hdec : ∃ c, m.dec = some c ∧ c.f = 0 := by
    cases hdm : m.dec with
    | none => simp [hdm] at h2
    | some c => exact ⟨c, rfl, by simpa [hdm] using h2⟩
  obtain ⟨c, hc1, hc2⟩ := hdec
  rcases hd with ⟨hb, hbad⟩ | ⟨hb, hbad⟩
  · rcases hbad with h | h
    · rw [h4 hb] at h; cases h
    · rcases h with h | ⟨c', hc', hf⟩
      · rw [hc1] at h; cases h
      · rw [hc1] at hc'; cases hc'
        rw [hc2] at hf
        rcases hf with hf | hf
        · rw [honest_flags _ (Or.inl rfl)] at hf; cases hf
        · rw [honest_flags _ (Or.inr (Or.inl rfl))] at hf; cases hf
  · rcases hbad with h | h
    · rw [h3 hb] at h; cases h
    · rcases h with h | ⟨c', hc', hf⟩
      · rw [hc1] at h; cases h
      · rw [hc1] at hc'; cases hc'
        rw [hc2, honest_flags _ (Or.inr (Or.inr rfl))] at hf; cases hf

/-- an abort notice names its sender and nobody else: the verdict `peerAbort f` can only come from a
    round-0 message whose sender field is `f` (a peer relaying a notice is reported as its origin) -/
theorem notice_names_its_sender (H : Bytes → Bytes) (s : State) (m : Msg) (l : Live s) (f : Bytes)
    (h : (accept H s m).err = some (.peerAbort f)) : m.rnd = 0 ∧ m.frm = f := by
  unfold accept at h
  split at h
  · rw [l.2.1] at h; cases h
  · split at h
    · next h0 =>
      simp only [abort, Option.some.injEq, ErrKind.peerAbort.injEq] at h
      exact ⟨by simpa using h0, h⟩
    · exfalso
      have l1 := l.of_sameLife (store_sameLife s m)
      unfold acceptStored at h
      split at h
      · rw [l1.2.1] at h; cases h
      · split at h
        · simp [abort] at h
        · simp [abort] at h
        · next s2 hv =>
          have l2 : Live s2 := by
            split at hv
            · exact l1.of_sameLife (verifyBroadcastMessage_sameLife _ _ _ hv)
            · exact l1.of_sameLife (verifyMessage_sameLife _ _ _ hv)
          exact (finalize_noPeerStop H _ s2 l2).1 f h

/-- A sender is blamed for a failing message only when that message shows the SAME view of the previous
    round's broadcasts as ours: a message computed on another view (somebody equivocated) is answered with the
    culprit-less "broadcast verification failed", never verified against our view. This is what keeps an
    honest sender from being named when a third party equivocated. -/
theorem blamed_only_under_same_view (s : State) (m : Msg) :
    (verifyMessage s m = .bad → sameView s m = true) ∧ (verifyBroadcastMessage s m = .bad → sameView s m = true) := by
  constructor
  · intro h
    unfold verifyMessage at h
    split at h
    · simp at h
    · split at h
      · simp at h
      · split at h
        · simp at h
        · next hv => simpa using hv
  · intro h
    unfold verifyBroadcastMessage at h
    split at h
    · simp at h
    · split at h
      · simp at h
      · next hv => simpa using hv

/-- the culprit lists reported by `Result()` per kind of error -/
theorem culprits_table (sc : Script) :
    culpritsOf sc .echoMismatch = [] ∧ culpritsOf sc .finalizeErr = [sc.self] ∧ culpritsOf sc .stopped = [sc.self] ∧
    (∀ f, culpritsOf sc (.msgFail f) = [f]) ∧ (∀ f, culpritsOf sc (.peerAbort f) = [f]) ∧
    (∀ cs, culpritsOf sc (.protoAbort cs) = cs) := ⟨rfl, rfl, rfl, fun _ => rfl, fun _ => rfl, fun _ => rfl⟩

set_option maxRecDepth 16384 in
/-- in the source, the view check precedes decoding, verification and storing, and a view mismatch aborts
    without naming anybody -/
theorem gen_echo_before_verify : MpsGen.Session.verifyOrder =
    [ "h.sameBroadcastView(msg)", "getRoundMessage(msg, r)", "r.(round.BroadcastRound).StoreBroadcastMessage(roundMsg)",
      "h.verifyMessage(msg)", "h.sameBroadcastView(msg)", "getRoundMessage(msg, r)", "r.VerifyMessage(roundMsg)",
      "r.StoreMessage(roundMsg)", "errors.Is(err, errBroadcastVerification)",
      "if errors.Is(err, errBroadcastVerification): h.abort(err)", "h.abort(err, from)" ] := by decide

end Mps.C04
