import MpsProps.Anchors.C11
import MpsProofs.Nonce
import MpsProofs.Readers
import MpsGen.Nonce
import MpsGen.Sig
import MpsGen.Hash
/-
  C11 — Signing nonces never repeat across contexts, even if the RNG fails.
  Property theorems only (lemmas live in MpsProofs/Nonce.lean). Core-only.

  Shape of the argument. The published commitments are a deterministic function of the nonce
  pair, and the nonce pair is   KH (KDF share) (ssidDigest ‖ m ‖ a)   where KH is the keyed
  BLAKE3 XOF followed by `sample.ScalarUnit` twice. The theorems show that the ARGUMENTS of the
  hash functions separate any two different contexts — for every value of the random bytes `a`,
  equal ones included — so that equal nonces force an explicit collision of one of the three
  hash functions (all abstract here).
-/
namespace Mps.C11
open Mps Mps.Nonce Mps.Sig

/-! ### 1. FROST: the keyed-hash input -/

/-- The byte string written into the nonce hasher, ssidDigest(64) ‖ m ‖ a(32), determines
    (ssid digest, message, random bytes): the message needs no length prefix because both of its
    neighbours have a fixed width. -/
theorem frost_nonce_input_injective (sd sd' m m' a a' : Bytes)
    (hs : sd.length = 64) (hs' : sd'.length = 64) (ha : a.length = 32) (ha' : a'.length = 32)
    (h : frostNonceInput sd m a = frostNonceInput sd' m' a') : sd = sd' ∧ m = m' ∧ a = a' :=
  frostNonceInput_inj sd sd' m m' a a' (hs.trans hs'.symm) (ha.trans ha'.symm) h

/-- validity domain of a signing context: what Go's types and `round.NewSession` guarantee
    (lengths fit the 8-byte length fields, threshold is a uint32, 32 random bytes) -/
structure CtxWF (c : FrostCtx) : Prop where
  sess  : SessionWF c.signers c.thr
  items : ∀ i ∈ sessionItems c.session, i.WF
  alen  : c.a.length = 32

/-- The SSID digest separates session id (present or not), protocol variant, signer set and
    threshold — or the session hash collides on two explicitly given transcripts. -/
theorem frost_ssid_injective (H : Bytes → Bytes) (c c' : FrostCtx) (w : CtxWF c) (w' : CtxWF c')
    (h : ssidWith H c.session = ssidWith H c'.session) :
    (c.sid = c'.sid ∧ c.taproot = c'.taproot ∧ c.signers = c'.signers ∧ c.thr = c'.thr) ∨
    (transcript (sessionItems c.session) ≠ transcript (sessionItems c'.session) ∧
      H (transcript (sessionItems c.session)) = H (transcript (sessionItems c'.session))) := by
  by_cases e : transcript (sessionItems c.session) = transcript (sessionItems c'.session)
  · left
    have hi := Mps.transcript_injective _ _ w.items w'.items e
    exact frostSession_items_inj _ _ _ _ _ _ _ _ w.sess w'.sess hi
  · right; exact ⟨e, h⟩

/-- MAIN (FROST). Two signing contexts with the same nonce pair are the same context — same
    share, session id, variant, signer set, threshold, message AND random bytes — unless one of
    the three hash functions collides on explicitly given, different inputs. `KH key data` stands
    for everything computed from the keyed hasher (XOF stream, `ScalarUnit` twice).
    Read contrapositively: contexts differing in message, signer set, session id, variant or
    share get different (key, data), whatever the random source returned. -/
theorem frost_nonce_context_separation {β : Type} (H KDF : Bytes → Bytes) (KH : Bytes → Bytes → β)
    (hH : ∀ x, (H x).length = 64) (c c' : FrostCtx) (w : CtxWF c) (w' : CtxWF c')
    (heq : KH (KDF c.share) (frostNonceInput (ssidWith H c.session) c.m c.a) =
           KH (KDF c'.share) (frostNonceInput (ssidWith H c'.session) c'.m c'.a)) :
    c = c'
    ∨ (transcript (sessionItems c.session) ≠ transcript (sessionItems c'.session) ∧
        H (transcript (sessionItems c.session)) = H (transcript (sessionItems c'.session)))
    ∨ (c.share ≠ c'.share ∧ KDF c.share = KDF c'.share)
    ∨ ((KDF c.share, frostNonceInput (ssidWith H c.session) c.m c.a) ≠
         (KDF c'.share, frostNonceInput (ssidWith H c'.session) c'.m c'.a) ∧
        KH (KDF c.share) (frostNonceInput (ssidWith H c.session) c.m c.a) =
          KH (KDF c'.share) (frostNonceInput (ssidWith H c'.session) c'.m c'.a)) := by
  by_cases e : (KDF c.share, frostNonceInput (ssidWith H c.session) c.m c.a) =
      (KDF c'.share, frostNonceInput (ssidWith H c'.session) c'.m c'.a)
  · have ek := congrArg Prod.fst e
    have ei := congrArg Prod.snd e
    simp only at ek ei
    have hin := frost_nonce_input_injective _ _ _ _ _ _ (hH _) (hH _) w.alen w'.alen ei
    by_cases es : c.share = c'.share
    · rcases frost_ssid_injective H c c' w w' hin.1 with hp | hcol
      · left
        obtain ⟨share, sid, tp, signers, thr, m, a⟩ := c
        obtain ⟨share', sid', tp', signers', thr', m', a'⟩ := c'
        simp only at es hp hin
        obtain ⟨h1, h2, h3, h4⟩ := hp
        obtain ⟨_, h5, h6⟩ := hin
        subst es h1 h2 h3 h4 h5 h6
        rfl
      · right; left; exact hcol
    · right; right; left; exact ⟨es, ek⟩
  · right; right; right; exact ⟨e, heq⟩

/-- … instantiated with the executable derivation (`noncePair` ∘ XOF reads): equal nonce pairs
    (hence equal commitments D_i, E_i) for two contexts. -/
theorem frost_nonces_differ (H KDF : Bytes → Bytes) (KX : Bytes → Bytes → Nat → Bytes)
    (hH : ∀ x, (H x).length = 64) (c c' : FrostCtx) (w : CtxWF c) (w' : CtxWF c') (hne : c ≠ c') :
    c.noncesWith H KDF KX ≠ c'.noncesWith H KDF KX
    ∨ (transcript (sessionItems c.session) ≠ transcript (sessionItems c'.session) ∧
        H (transcript (sessionItems c.session)) = H (transcript (sessionItems c'.session)))
    ∨ (c.share ≠ c'.share ∧ KDF c.share = KDF c'.share)
    ∨ ((KDF c.share, frostNonceInput (ssidWith H c.session) c.m c.a) ≠
         (KDF c'.share, frostNonceInput (ssidWith H c'.session) c'.m c'.a) ∧
        noncePair (KX (KDF c.share) (frostNonceInput (ssidWith H c.session) c.m c.a)) =
          noncePair (KX (KDF c'.share) (frostNonceInput (ssidWith H c'.session) c'.m c'.a))) := by
  by_cases e : c.noncesWith H KDF KX = c'.noncesWith H KDF KX
  · right
    rcases frost_nonce_context_separation H KDF (fun k i => noncePair (KX k i)) hH c c' w w' e with h | h
    · exact absurd h hne
    · exact h
  · left; exact e

/-- With a working random source the derivation differs even for identical inputs: different
    random bytes give a different keyed-hash input (no width assumption needed). -/
theorem frost_nonce_rng_sensitive (sd m a a' : Bytes) (h : a ≠ a') :
    frostNonceInput sd m a ≠ frostNonceInput sd m a' := by
  intro e
  unfold frostNonceInput at e
  exact h (List.append_cancel_left e)

/-! ### 2. Stand-alone BIP-340 signing -/

/-- the list `Sign` hands to `TaggedHash("BIP0340/nonce", …)` is the byte string `nonceInput` -/
theorem nonce_hash_input_eq (d h P m : Bytes) :
    ([bytesXor d h, P, m] : List Bytes).flatten = Bip340.nonceInput d h P m := by
  simp [Bip340.nonceInput]

/-- t(32) ‖ P(32) ‖ m determines (t, P, m); for the same secret d, t = d ⊕ hash_aux(a)
    determines hash_aux(a), hence a — or hash_aux collides on (a, a'). -/
theorem bip340_nonce_input_injective (Haux : Bytes → Bytes) (hlen : ∀ x, (Haux x).length = 32)
    (d d' P P' m m' a a' : Bytes) (hd : d.length = 32) (hd' : d'.length = 32)
    (hP : P.length = 32) (hP' : P'.length = 32)
    (e : Bip340.nonceInput d (Haux a) P m = Bip340.nonceInput d' (Haux a') P' m') :
    P = P' ∧ m = m' ∧ (d = d' → a = a' ∨ (a ≠ a' ∧ Haux a = Haux a')) := by
  have h := nonceInput_inj d d' (Haux a) (Haux a') P P' m m' hd hd' (hlen a) (hlen a') hP hP' e
  refine ⟨h.2.1, h.2.2, ?_⟩
  intro edd
  subst edd
  have hx := bytesXor_cancel d (Haux a) (Haux a') ((hlen a).trans (hlen a').symm) (by rw [hlen a, hd]; exact Nat.le_refl _) h.1
  by_cases ea : a = a'
  · exact Or.inl ea
  · exact Or.inr ⟨ea, hx⟩

/-- … through the nonce hash: equal `rand` values for two calls. -/
theorem bip340_nonce_separation (Haux Hnonce : Bytes → Bytes) (hlen : ∀ x, (Haux x).length = 32)
    (d d' P P' m m' a a' : Bytes) (hd : d.length = 32) (hd' : d'.length = 32)
    (hP : P.length = 32) (hP' : P'.length = 32)
    (e : Hnonce (Bip340.nonceInput d (Haux a) P m) = Hnonce (Bip340.nonceInput d' (Haux a') P' m')) :
    (P = P' ∧ m = m' ∧ (d = d' → a = a' ∨ (a ≠ a' ∧ Haux a = Haux a')))
    ∨ (Bip340.nonceInput d (Haux a) P m ≠ Bip340.nonceInput d' (Haux a') P' m' ∧
        Hnonce (Bip340.nonceInput d (Haux a) P m) = Hnonce (Bip340.nonceInput d' (Haux a') P' m')) := by
  by_cases ei : Bip340.nonceInput d (Haux a) P m = Bip340.nonceInput d' (Haux a') P' m'
  · exact Or.inl (bip340_nonce_input_injective Haux hlen d d' P P' m m' a a' hd hd' hP hP' ei)
  · exact Or.inr ⟨ei, e⟩

/-- rand == nil: the k-th call after the counter stood at `c0` uses the value
    (c0 + k + 1) mod 2^64 (`atomic.AddUint64`). Any two of fewer than 2^64 calls get different
    auxiliary bytes `a`. -/
theorem bip340_counter_distinct (c0 i j : Nat) (hi : i < 2 ^ 64) (hj : j < 2 ^ 64) (hij : i ≠ j) :
    Bip340.auxOf (.counter ((c0 + i + 1) % 2 ^ 64)) ≠ Bip340.auxOf (.counter ((c0 + j + 1) % 2 ^ 64)) := by
  intro e
  have := auxOf_counter_inj _ _ e
  omega

/-! ### 3. Obligations over the tables regenerated from the source -/

set_option maxRecDepth 16384

/-- the ordered writes of round1.Finalize: key from the share, then ssid digest ‖ message ‖ a,
    then two `ScalarUnit` reads from ONE digest reader, then the two base-point multiplications -/
theorem gen_frost_round1 : MpsGen.Nonce.frostRound1 =
    [ "r.s_i.MarshalBinary()",
      "make([]byte, 32)",
      "blake3.DeriveKey(deriveHashKeyContext, s_iBytes[:], hashKey)",
      "blake3.NewKeyed(hashKey)",
      "nonceHasher.Write(r.Hash().Sum())",
      "r.Hash().Sum()",
      "r.Hash()",
      "nonceHasher.Write(r.M)",
      "make([]byte, 32)",
      "rand.Read(a)",
      "nonceHasher.Write(a)",
      "nonceHasher.Digest()",
      "sample.ScalarUnit(nonceDigest, r.Group())",
      "sample.ScalarUnit(nonceDigest, r.Group())",
      "d_i.ActOnBase()",
      "e_i.ActOnBase()" ] := by decide

/-- `hash.Hash.Sum` returns DigestLengthBytes = 2·(256/8) = 64 bytes: hypothesis `hH` of the theorems -/
theorem gen_digest_len :
    MpsGen.Hash.sumLength = ["DigestLengthBytes = params.SecBytes * 2"] ∧
    MpsGen.Hash.params.take 2 = ["SecParam = 256", "SecBytes = SecParam / 8"] := by decide

/-- the context string and the protocol ids of the model are the ones in the source -/
theorem gen_frost_consts :
    MpsGen.Nonce.frostRound1Consts = ["deriveHashKeyContext = \"" ++ deriveHashKeyContext ++ "\""] ∧
    MpsGen.Nonce.frostSignConsts =
      ["protocolID = \"" ++ protocolID ++ "\"", "protocolIDTaproot = \"" ++ protocolIDTaproot ++ "\"",
       "protocolRounds = 3"] := by decide

/-- a signing session hashes: signer set, config threshold, group; no auxiliary items; the
    protocol id is chosen by the variant (`frostSession`) -/
theorem gen_frost_session :
    MpsGen.Nonce.frostSignInfo =
      ["round.Info{ FinalRoundNumber: protocolRounds, SelfID: result.ID, PartyIDs: signers, Threshold: result.Threshold, Group: result.PublicKey.Curve(), }",
       "round.NewSession(info, sessionID, nil)"] ∧
    MpsGen.Nonce.frostSignProtocolID =
      ["if taproot: info.ProtocolID = protocolIDTaproot", "if else: info.ProtocolID = protocolID"] := by decide

/-- `sample.ScalarUnit` / `sample.Scalar`: 32 bytes per attempt, reduced mod n, at most 255 attempts -/
theorem gen_sample :
    MpsGen.Nonce.sampleScalar =
      ["make([]byte, group.SafeScalarBytes())", "group.SafeScalarBytes()", "mustReadBits(rand, buffer)",
       "new(saferith.Nat).SetBytes(buffer)", "group.NewScalar().SetNat(n)"] ∧
    MpsGen.Nonce.sampleScalarUnit =
      ["Scalar(rand, group)", "s.IsZero()", "panic(ErrMaxIterations)", "for i := 0; i < maxIterations; i++"] ∧
    MpsGen.Nonce.sampleConsts = ["maxIterations = " ++ toString maxIterations] ∧
    MpsGen.Nonce.safeScalarBytes = ["32"] ∧
    MpsGen.Nonce.setNat =
      ["new(saferith.Nat).Mod(x, secp256k1Order)", "s.value.SetByteSlice(reduced.Bytes())", "reduced.Bytes()"] := by decide

/-- `taproot.SecretKey.Sign`: the three tagged hashes and what goes into each, in order -/
theorem gen_taproot_sign_hashes : MpsGen.Sig.taprootSignHashes =
    ["\"BIP0340/aux\"", "a", "\"BIP0340/nonce\"", "t[:]", "PBytes", "m",
     "\"BIP0340/challenge\"", "RBytes", "PBytes", "m"] := by decide

/-- … and the statements around them that `Bip340.signGo` transcribes (reader vs counter, the two
    conditional negations, the nonce from the hash) -/
theorem gen_taproot_sign : MpsGen.Sig.taprootSign =
    [ "d.UnmarshalBinary(sk)", "d.IsZero()", "d.ActOnBase()", "P.XBytes()", "P.HasEvenY()",
      "if !P.HasEvenY(): d.Negate()", "make([]byte, 32)", "k.IsZero()",
      "if rand != nil: io.ReadFull(rand, a)",
      "if else: atomic.AddUint64(&signatureCounter, 1)",
      "if else: binary.BigEndian.PutUint64(a, ctr)",
      "d.MarshalBinary()", "TaggedHash(\"BIP0340/aux\", a)", "TaggedHash(\"BIP0340/nonce\", t[:], PBytes, m)",
      "k.UnmarshalBinary(randHash)", "k.IsZero()", "k.ActOnBase()", "R.HasEvenY()",
      "if !R.HasEvenY(): k.Negate()", "R.XBytes()", "TaggedHash(\"BIP0340/challenge\", RBytes, PBytes, m)",
      "e.UnmarshalBinary(eHash)", "e.Mul(d).Add(k)", "e.Mul(d)", "z.MarshalBinary()",
      "make([]byte, 0, SignatureLen)" ] := by decide

/-! ### 3b. The random bytes are ALL consumed, however the source splits them into Read calls -/

/-- io.ReadFull over a source that answers every Read call with any positive number of bytes (one byte per call, a
    buffered or network-backed source, ...) returns exactly the first 32 bytes of the stream: what the signer hedges its
    nonce with does not depend on the chunking. -/
theorem aux_independent_of_read_chunking (stream : Bytes) (chunks : List Nat)
    (hpos : ∀ c ∈ chunks, 0 < c) (hlen : 32 ≤ chunks.length) (hs : 32 ≤ stream.length) :
    Readers.readFull stream 32 chunks = stream.take 32 :=
  Readers.readFull_eq_take chunks stream 32 hpos hlen hs

/-- … hence the published BIP-340 nonce commitment is the one computed from the first 32 stream bytes. -/
theorem bip340_nonce_independent_of_read_chunking (sk m stream : Bytes) (chunks : List Nat)
    (hpos : ∀ c ∈ chunks, 0 < c) (hlen : 32 ≤ chunks.length) (hs : 32 ≤ stream.length) :
    bip340NonceCommitment sk (.reader (Readers.readFull stream 32 chunks)) m
      = bip340NonceCommitment sk (.reader (stream.take 32)) m := by
  rw [aux_independent_of_read_chunking stream chunks hpos hlen hs]

/-- Why ReadFull and not one Read call: with a source that delivers one byte per call, a single Read (count ignored)
    leaves 31 of the 32 bytes zero — two streams that agree in their first byte only give the same auxiliary value. -/
theorem single_read_loses_randomness :
    ∃ s1 s2 : Bytes, s1.take 32 ≠ s2.take 32 ∧
      Readers.readOnce s1 32 (List.replicate 32 1) = Readers.readOnce s2 32 (List.replicate 32 1) ∧
      Readers.readFull s1 32 (List.replicate 32 1) ≠ Readers.readFull s2 32 (List.replicate 32 1) :=
  ⟨5 :: List.replicate 31 1, 5 :: List.replicate 31 2, by decide, by decide, by decide⟩

/-! ### 4. Non-vacuity -/

def exCtx : FrostCtx :=
  { share := List.replicate 32 1, sid := some (str "s1"), taproot := false,
    signers := [str "a", str "b"], thr := 1, m := str "msg", a := List.replicate 32 0 }

theorem exCtx_wf : CtxWF exCtx := by
  refine ⟨⟨by decide, ?_, by decide⟩, ?_, by decide⟩
  · intro i hi
    simp [exCtx] at hi
    rcases hi with rfl | rfl <;> decide
  · intro i hi
    simp only [exCtx, FrostCtx.session, frostSession, sessionItems, List.cons_append, List.nil_append,
      List.append_nil, List.mem_cons, List.not_mem_nil, or_false] at hi
    rcases hi with rfl | rfl | rfl | rfl | rfl <;> constructor <;> decide

theorem wf_with_m (c : FrostCtx) (m : Bytes) (w : CtxWF c) : CtxWF { c with m := m } :=
  ⟨w.sess, w.items, w.alen⟩

/-- two valid contexts differing only in the message, fed the SAME random bytes -/
example : CtxWF exCtx ∧ CtxWF { exCtx with m := str "msh" } ∧ exCtx ≠ { exCtx with m := str "msh" } :=
  ⟨exCtx_wf, wf_with_m exCtx _ exCtx_wf, fun h => absurd (congrArg FrostCtx.m h : str "msg" = str "msh") (by decide)⟩

example : frostNonceInput (List.replicate 64 7) [1, 2] (List.replicate 32 0)
    ≠ frostNonceInput (List.replicate 64 7) [1] (2 :: List.replicate 31 0) := by decide
example : ∀ x : Bytes, ((fun _ : Bytes => List.replicate 64 (0 : UInt8)) x).length = 64 := by intro x; simp
example : Bip340.auxOf (.counter 1) ≠ Bip340.auxOf (.counter 2) := by decide
example : (∀ c ∈ List.replicate 40 1, 0 < c) ∧ 32 ≤ (List.replicate 40 1).length ∧ 32 ≤ (List.replicate 96 (7 : UInt8)).length := by decide
example : (3 : Nat) < 2 ^ 64 ∧ (4 : Nat) < 2 ^ 64 ∧ (3 : Nat) ≠ 4 := by decide

end Mps.C11
