import MpsProps.Anchors.C07
import MpsProofs.Handler
import MpsProps.HandlerSrc
import MpsProofs.Order
import MpsProps.C07TwoParty
import MpsProps.C07TwoPartySystem
import MpsProofs.System
/-
  C07 — Outcome is independent of delivery order, duplication and early arrival (handler model).

  Main theorem: `order_independent` (lemmas in MpsProofs/Order.lean). The elementary facts about single
  deliveries (`refused_noop` … `early_message_is_only_queued`) hold for arbitrary, also dishonest, messages.
-/
namespace Mps.C07
open Mps Mps.Handler

/-- a message CanAccept refuses changes nothing when delivered anyway (whole state) -/
theorem refused_noop (H : Bytes → Bytes) (s : State) (m : Msg) (h : canAccept s m = false) : accept H s m = s := by
  simp [accept, h]

/-- a second copy of a message (same round, sender and kind already stored) changes nothing -/
theorem duplicate_noop (H : Bytes → Bytes) (s : State) (m : Msg) (h : duplicate s m = true) : accept H s m = s := by
  simp [accept, h]

/-- messages of rounds the handler has left are refused -/
theorem stale_refused (s : State) (m : Msg) (h1 : 0 < m.rnd) (h2 : m.rnd < s.cur) : canAccept s m = false := by
  simp [canAccept, h1, h2]

/-- messages of another session or protocol are refused -/
theorem foreign_refused (s : State) (m : Msg) (h : m.ssid.getD [] ≠ s.sc.ssid ∨ m.proto ≠ s.sc.proto) :
    canAccept s m = false := by
  rcases h with h | h <;> simp [canAccept, h]

/-- after the end every message is ignored -/
theorem after_end_noop (H : Bytes → Bytes) (s : State) (m : Msg) (h : terminal s = true) : accept H s m = s :=
  accept_terminal H s m h

/-- a message for a later round is stored and nothing else happens: no verification, no output, no verdict -/
theorem early_message_is_only_queued (H : Bytes → Bytes) (s : State) (m : Msg) (h : (store s m).cur ≠ m.rnd)
    (h0 : m.rnd ≠ 0) (hc : (!canAccept s m || terminal s || duplicate s m) = false) : accept H s m = store s m := by
  have : (m.rnd == 0) = false := by simpa using h0
  simp [accept, hc, this, acceptStored, h]

/-! ### order independence -/

/-- everything observable about a handler: verdict, result, round position, protocol state, the emitted
    messages in order, the echo-hash table — every field of the state except the two internal message queues -/
def outcome (s : State) :=
  (s.err, s.result, s.cur, s.acc, s.out, s.closes, s.idx, s.reached, s.bh, s.accused)

/-- ORDER INDEPENDENCE. For every hash `H`, every script `sc` and every honest message set `M`
    (`Honest H sc M`, a decidable predicate: well-formed script; every message addressed to this party in this
    session, of the kind its round expects, decodable and without failure flags, stamped with the session's echo
    hash `expBh` of the preceding round; no two different messages for one (round, sender, kind)):
    any two delivery sequences `l1`, `l2` of messages from `M` that deliver the same SET of messages — in any
    order, with any repetitions, with messages of later rounds arriving arbitrarily early, and not necessarily
    all of `M` — leave the handler with the same outcome. -/
theorem order_independent (H : Bytes → Bytes) (sc : Script) (M : List Msg) (hM : Honest H sc M) (l1 l2 : List Msg)
    (h1 : ∀ m ∈ l1, m ∈ M) (h2 : ∀ m ∈ l2, m ∈ M) (hsame : ∀ m, m ∈ l1 ↔ m ∈ l2) :
    outcome (run H sc (l1.map Call.accept)) = outcome (run H sc (l2.map Call.accept)) := by
  obtain ⟨_, e2, e3, e4, e5, e6, e7, e8, e9, e10, e11⟩ := (run_feq hM l1 l2 h1 h2 hsame).fields
  unfold outcome
  rw [e2, e3, e4, e5, e6, e7, e8, e9, e10, e11]

/-- … and while the session is still running the two message queues hold the same entries too (they may be
    filled in another order), so the two handlers also behave alike on every further input -/
theorem order_independent_queues (H : Bytes → Bytes) (sc : Script) (M : List Msg) (hM : Honest H sc M)
    (l1 l2 : List Msg) (h1 : ∀ m ∈ l1, m ∈ M) (h2 : ∀ m ∈ l2, m ∈ M) (hsame : ∀ m, m ∈ l1 ↔ m ∈ l2)
    (hrun : terminal (run H sc (l1.map Call.accept)) = false) :
    Sim (run H sc (l1.map Call.accept)) (run H sc (l2.map Call.accept)) :=
  run_sim hM l1 l2 h1 h2 hsame hrun

/-- two states related by `Sim` stay related under ANY further call (not only honest deliveries) -/
theorem sim_congruence (H : Bytes → Bytes) (a b : State) (h : Sim a b) (calls : List Call) :
    Sim (calls.foldl (apply H) a) (calls.foldl (apply H) b) := by
  induction calls generalizing a b with
  | nil => exact h
  | cons c cs ih =>
    apply ih
    cases c <;> simp only [apply]
    · exact accept_sim H h _
    · exact h
    · exact h
    · exact h
    · unfold stop
      rw [terminal_sim h]
      split
      · exact h
      · exact abort_sim h _

/-- re-delivering messages that were already delivered changes nothing -/
theorem redelivery_irrelevant (H : Bytes → Bytes) (sc : Script) (M : List Msg) (hM : Honest H sc M)
    (l extra : List Msg) (h1 : ∀ m ∈ l, m ∈ M) (h2 : ∀ m ∈ extra, m ∈ l) :
    outcome (run H sc ((l ++ extra).map Call.accept)) = outcome (run H sc (l.map Call.accept)) := by
  apply order_independent H sc M hM
  · intro m hm
    rcases List.mem_append.mp hm with h | h
    · exact h1 m h
    · exact h1 m (h2 m h)
  · exact h1
  · intro m
    simp only [List.mem_append]
    exact ⟨fun h => h.elim id (h2 m), Or.inl⟩

/-- any schedule that is a permutation-with-repetitions of a reference schedule `ref` (for instance the
    in-order one) gives the result of `ref` -/
theorem schedule_gives_reference_outcome (H : Bytes → Bytes) (sc : Script) (M : List Msg) (hM : Honest H sc M)
    (ref sched : List Msg) (href : ∀ m ∈ ref, m ∈ M) (h1 : ∀ m ∈ sched, m ∈ ref) (h2 : ∀ m ∈ ref, m ∈ sched) :
    outcome (run H sc (sched.map Call.accept)) = outcome (run H sc (ref.map Call.accept)) :=
  order_independent H sc M hM sched ref (fun m hm => href m (h1 m hm)) href (fun m => ⟨h1 m, h2 m⟩)

/-- the common outcome is never a verdict against anybody: whatever the order, duplication or earliness of the
    honest messages, the handler does not abort with a message failure, an echo mismatch or a protocol abort
    (the only error left is the own `Finalize` failure the script itself prescribes via `finErrAt`), and every
    echo hash it computes is the session's `expBh` — the value `Honest` asks the peers' messages to carry -/
theorem honest_delivery_never_blames (H : Bytes → Bytes) (sc : Script) (M : List Msg) (hM : Honest H sc M)
    (l : List Msg) (hl : ∀ m ∈ l, m ∈ M) :
    ((run H sc (l.map Call.accept)).err = none ∨ (run H sc (l.map Call.accept)).err = some .finalizeErr) ∧
    ∀ r h, bhLookup (run H sc (l.map Call.accept)).bh r = some h → expBh H sc M r = some h :=
  ⟨(run_clean hM l hl).2, (run_clean hM l hl).1⟩

/-! ### non-vacuity: a concrete session (3 parties; rounds 1, 2 (broadcast), 3 (broadcast + p2p), 4 (p2p)) -/

namespace Ex
/-- a toy hash (length and byte sum); the theorems hold for every `H` -/
def Hx : Bytes → Bytes := fun b => [UInt8.ofNat b.length, UInt8.ofNat (b.foldl (fun a x => a + x.toNat) 0)]
def sc3 : Script := ⟨[[1], [2], [3]], [1], 4,
  [⟨1, false, false⟩, ⟨2, true, false⟩, ⟨3, true, true⟩, ⟨4, false, true⟩], [7], [9], [], 0⟩
def mk (frm to : Bytes) (r : Nat) (b : Bool) (bv : Option Bytes) : Msg :=
  { ssid := some sc3.ssid, frm := frm, to := to, proto := sc3.proto, rnd := r,
    data := some (cborContent ⟨honestV sc3 frm to r, 0⟩), bcast := b, bv := bv, dec := some ⟨honestV sc3 frm to r, 0⟩ }
/-- what parties 2 and 3 send to party 1 (the echo hashes of rounds 2 and 3 under `Hx` are 5a4e and 5a61) -/
def M3 : List Msg :=
  [mk [2] [] 2 true none, mk [3] [] 2 true none,
   mk [2] [] 3 true (some [90, 78]), mk [3] [] 3 true (some [90, 78]),
   mk [2] [1] 3 false (some [90, 78]), mk [3] [1] 3 false (some [90, 78]),
   mk [2] [1] 4 false (some [90, 97]), mk [3] [1] 4 false (some [90, 97])]
/-- the in-order schedule is `M3` itself; this one is reversed (every message arrives early, p2p before
    broadcast) with repetitions -/
def sched : List Msg := M3.reverse ++ M3.take 3 ++ M3.reverse

set_option maxRecDepth 100000 in
theorem honest : Honest Hx sc3 M3 := by decide
theorem sched_sub : ∀ m ∈ sched, m ∈ M3 := by decide
theorem sched_all : ∀ m ∈ M3, m ∈ sched := by decide
theorem sched_ne : sched ≠ M3 := by decide

/-- the hypotheses of `order_independent` are satisfiable, with two different schedules -/
example : outcome (run Hx sc3 (sched.map Call.accept)) = outcome (run Hx sc3 (M3.map Call.accept)) :=
  schedule_gives_reference_outcome Hx sc3 M3 honest M3 sched (fun _ h => h) sched_sub sched_all

-- the session of the example really completes: the scrambled schedule ends with the protocol's result, the
-- handler's own echo-hash table being the one the peers stamped their messages with
set_option maxRecDepth 1000000 in
example : (run Hx sc3 (sched.map Call.accept)).result = some 20064 ∧ (run Hx sc3 (sched.map Call.accept)).err = none ∧
    (run Hx sc3 (sched.map Call.accept)).bh = [(2, [90, 78]), (3, [90, 97])] := by decide

set_option maxRecDepth 100000 in
theorem still_running : terminal (run Hx sc3 ((M3.take 3).reverse.map Call.accept)) = false := by decide

/-- … and of `order_independent_queues` (a session that is still running) -/
example : Sim (run Hx sc3 ((M3.take 3).reverse.map Call.accept)) (run Hx sc3 ((M3.take 3).map Call.accept)) :=
  order_independent_queues Hx sc3 M3 honest _ _ (by decide) (by decide) (fun _ => List.mem_reverse) still_running
end Ex

example : ∃ s m, canAccept s m = false := ⟨default, default, by decide⟩

/-! ### multi-party composition

  The theorems above are about ONE handler that is given an `Honest` message set. Here: a session of n handlers
  (`Mps.System`: one `Handler.State` per party, `Sys.deliver p m` = party `p` accepts `m`) that all run the script
  `base` (`scriptFor base id` = `base` with `self := id`). A schedule is a list of (recipient, message) pairs; it is
  `Causal` when every delivered message is, at the time of its delivery, in the `out` list of its sender's handler
  and addressed to the recipient — any order, any repetition, any interleaving across the parties, any delay.
  Side conditions (`SessionOk base`, decidable): `ScriptOk base`; no party id is empty (`To = ""` means broadcast);
  no round number exceeds the final round number (no queue otherwise); at least two parties; no scripted `Finalize`
  failure. Lemmas in MpsProofs/System.lean. -/

open Mps.System

/-- the state of a party in the session is its handler run on exactly the messages delivered to it (this ties the
    system model to the single-handler theorems above; no hypothesis) -/
theorem party_state_is_handler_run (H : Bytes → Bytes) (base : Script) (sched : Sched) (p : Bytes) :
    (Sys.run H base sched) p = run H (scriptFor base p) ((delivered sched p).map Call.accept) :=
  run_apply H base sched p

/-- a delivery `(p, m)` is possible in a reachable session state exactly when `p` is a party and `m` is among the
    messages emitted so far (by whichever party) that are addressed to `p`: the handlers stamp their own id into
    `From`, so naming the sender by that field in `Sys.canDeliver` loses nothing (no hypothesis) -/
theorem causal_step_iff (H : Bytes → Bytes) (base : Script) (sched : Sched) (p : Bytes) (m : Msg) :
    (Sys.run H base sched).canDeliver base p m = true ↔
      p ∈ base.ids ∧ m ∈ (Sys.run H base sched).emittedFor base p :=
  canDeliver_iff_emitted H base sched p m

/-- (a) MULTI-PARTY COMPOSITION. For every hash `H`, every common script `base` with `SessionOk base`, EVERY causal
    schedule and every party `p`: the list of all messages emitted so far (by anybody) that are addressed to `p`
    is an `Honest` message set for `p` — in particular every sender's echo stamp is `p`'s expected value `expBh`,
    and there are no two different messages for one (round, sender, kind) -/
theorem emitted_honest (H : Bytes → Bytes) (base : Script) (ok : SessionOk base) (sched : Sched)
    (hc : Causal H base sched = true) (p : Bytes) (hp : p ∈ base.ids) :
    Honest H (scriptFor base p) ((Sys.run H base sched).emittedFor base p) :=
  System.emitted_honest ok sched hc p hp

/-- … and what a causal schedule delivers to `p` is part of that set: the hypotheses of `order_independent` /
    `honest_delivery_never_blames` hold for every party of the session -/
theorem delivered_are_emitted (H : Bytes → Bytes) (base : Script) (sched : Sched) (hc : Causal H base sched = true)
    (p : Bytes) : ∀ m ∈ delivered sched p, m ∈ (Sys.run H base sched).emittedFor base p :=
  delivered_emitted H base sched p _ hc

/-- agreement on the broadcasts: there is ONE function `gEcho H base` of the round number (a closed form of the
    script: the hash over all parties' scripted broadcasts of that round) such that every echo hash in every
    party's table is its value — and is the value `expBh` the party expects from its peers — and every emitted
    message is stamped with its value for the preceding round number -/
theorem echo_tables_agree (H : Bytes → Bytes) (base : Script) (ok : SessionOk base) (sched : Sched)
    (hc : Causal H base sched = true) :
    (∀ p ∈ base.ids, ∀ r h, bhLookup ((Sys.run H base sched) p).bh r = some h →
      gEcho H base r = some h ∧ expBh H (scriptFor base p) ((Sys.run H base sched).emittedFor base p) r = some h) ∧
    (∀ q ∈ base.ids, ∀ m ∈ ((Sys.run H base sched) q).out, m.bv = gEcho H base (m.rnd - 1)) :=
  ⟨fun p hp r h hb => tables_agree ok sched hc p hp r h hb, fun q hq m hm => emitted_stamp ok sched hc q hq m hm⟩

/-- (b) in every state the session reaches under a causal schedule, no party has an error: no message failure, no
    echo mismatch, no protocol abort, no peer abort (and no own failure either) -/
theorem no_honest_abort (H : Bytes → Bytes) (base : Script) (ok : SessionOk base) (sched : Sched)
    (hc : Causal H base sched = true) (p : Bytes) (hp : p ∈ base.ids) : ((Sys.run H base sched) p).err = none :=
  System.no_honest_abort ok sched hc p hp

/-- (c) SCHEDULE INDEPENDENCE. Two causal schedules of the whole session — whatever they do at the other parties —
    that have delivered the same SET of messages to `p` leave `p` with the same outcome. (The proof uses the
    causality of the first schedule only: `c2` is not needed, the second schedule may be arbitrary.) -/
theorem schedule_independent (H : Bytes → Bytes) (base : Script) (ok : SessionOk base) (s1 s2 : Sched)
    (c1 : Causal H base s1 = true) (_c2 : Causal H base s2 = true) (p : Bytes) (hp : p ∈ base.ids)
    (hsame : ∀ m, m ∈ delivered s1 p ↔ m ∈ delivered s2 p) :
    outcome ((Sys.run H base s1) p) = outcome ((Sys.run H base s2) p) := by
  obtain ⟨_, e2, e3, e4, e5, e6, e7, e8, e9, e10, e11⟩ := (schedule_feq ok s1 s2 c1 p hp hsame).fields
  unfold outcome
  rw [e2, e3, e4, e5, e6, e7, e8, e9, e10, e11]

/-- (d) COMPLETION. A causal schedule that is fair to the end (`Complete`: everything emitted for a party has been
    delivered to it) leaves EVERY party ended, without error, with the result `sessionValue base p` — a closed
    formula: the sum over the rounds after the first and over the other parties `q` of the scripted values
    `honestV` of `q`'s broadcast and of `q`'s p2p message to `p`; the messages it has emitted are, in order, the
    closed-form list `idealOut`; the messages emitted for it are the closed-form list `idealFor`; and its whole
    outcome is the outcome of the reference run: its handler alone, given the list `idealFor` in order -/
theorem complete_schedule_completes (H : Bytes → Bytes) (base : Script) (ok : SessionOk base) (sched : Sched)
    (hc : Causal H base sched = true) (hfair : Complete base (Sys.run H base sched) sched = true) (p : Bytes)
    (hp : p ∈ base.ids) :
    terminal ((Sys.run H base sched) p) = true ∧ ((Sys.run H base sched) p).err = none ∧
    ((Sys.run H base sched) p).result = some (sessionValue base p) ∧
    ((Sys.run H base sched) p).out = idealOut H base p ∧
    (Sys.run H base sched).emittedFor base p = idealFor H base p ∧
    outcome ((Sys.run H base sched) p) = outcome (run H (scriptFor base p) ((idealFor H base p).map Call.accept)) := by
  obtain ⟨h1, _, h3, h4, h5⟩ := System.complete_schedule_completes ok sched hc hfair p hp
  refine ⟨all_terminal ok sched hc hfair p hp, h1, complete_value ok sched hc hfair p hp, h3, h4, ?_⟩
  obtain ⟨_, e2, e3, e4, e5, e6, e7, e8, e9, e10, e11⟩ := h5.fields
  unfold outcome
  rw [e2, e3, e4, e5, e6, e7, e8, e9, e10, e11]

/-- the closed formula, spelled out -/
theorem sessionValue_eq (base : Script) (p : Bytes) :
    sessionValue base p = ((base.rounds.drop 1).map fun sp => ((base.ids.filter (· != p)).map fun q =>
      (if sp.recvB then honestV base q [] sp.num else 0) + (if sp.recvP then honestV base q p sp.num else 0)).sum).sum :=
  rfl

/-! non-vacuity: the 3-party, 4-round session of `Ex` (round 2: broadcast, 3: broadcast + p2p, 4: p2p) as a system -/
namespace ExSys
open Ex

def b2 (q : Bytes) : Msg := mk q [] 2 true none
def b3 (q : Bytes) : Msg := mk q [] 3 true (some [90, 78])
def p3 (q p : Bytes) : Msg := mk q p 3 false (some [90, 78])
def p4 (q p : Bytes) : Msg := mk q p 4 false (some [90, 97])

/-- NOT in order: party 2 finishes round 2 first; party 1 gets round-3 messages (p2p before broadcast) while it is
    still in round 2, a duplicate, and party 2 gets a round-4 message while it is in round 3 -/
def sched : Sched :=
  [([2], b2 [1]), ([2], b2 [3]),
   ([1], p3 [2] [1]), ([1], b3 [2]),
   ([3], b2 [2]), ([3], b2 [1]),
   ([1], b2 [3]), ([1], b2 [2]), ([1], b2 [3]),
   ([1], p3 [3] [1]), ([1], b3 [3]),
   ([2], p4 [1] [2]),
   ([2], p3 [3] [2]), ([2], p3 [1] [2]), ([2], b3 [3]), ([2], b3 [1]),
   ([3], p3 [1] [3]), ([3], b3 [2]), ([3], b3 [1]), ([3], p3 [2] [3]),
   ([1], p4 [2] [1]), ([1], p4 [3] [1]),
   ([2], p4 [3] [2]),
   ([3], p4 [1] [3]), ([3], p4 [2] [3])]

/-- the round-by-round schedule -/
def inorder : Sched :=
  [([1], b2 [2]), ([1], b2 [3]), ([2], b2 [1]), ([2], b2 [3]), ([3], b2 [1]), ([3], b2 [2]),
   ([1], b3 [2]), ([1], b3 [3]), ([1], p3 [2] [1]), ([1], p3 [3] [1]),
   ([2], b3 [1]), ([2], b3 [3]), ([2], p3 [1] [2]), ([2], p3 [3] [2]),
   ([3], b3 [1]), ([3], b3 [2]), ([3], p3 [1] [3]), ([3], p3 [2] [3]),
   ([1], p4 [2] [1]), ([1], p4 [3] [1]), ([2], p4 [1] [2]), ([2], p4 [3] [2]), ([3], p4 [1] [3]), ([3], p4 [2] [3])]

theorem session_ok : SessionOk sc3 := by decide
set_option maxRecDepth 1000000 in
theorem sched_causal : Causal Hx sc3 sched = true := by decide
set_option maxRecDepth 1000000 in
theorem inorder_causal : Causal Hx sc3 inorder = true := by decide
/-- rounds of the messages delivered to party 1, in the order of delivery -/
theorem sched_not_in_order : (delivered sched [1]).map (·.rnd) = [3, 3, 2, 2, 2, 3, 3, 4, 4] := by decide
theorem same_sets : (∀ m ∈ delivered sched [1], m ∈ delivered inorder [1]) ∧
    (∀ m ∈ delivered inorder [1], m ∈ delivered sched [1]) := by decide
set_option maxRecDepth 1000000 in
theorem sched_complete : Complete sc3 (Sys.run Hx sc3 sched) sched = true := by decide

/-- the hypotheses of (a), (b) are satisfiable -/
example : Honest Hx (scriptFor sc3 [2]) ((Sys.run Hx sc3 sched).emittedFor sc3 [2]) :=
  emitted_honest Hx sc3 session_ok sched sched_causal [2] (by decide)
example : ((Sys.run Hx sc3 sched) [3]).err = none := no_honest_abort Hx sc3 session_ok sched sched_causal [3] (by decide)
/-- … of (c), with two different schedules -/
example : outcome ((Sys.run Hx sc3 sched) [1]) = outcome ((Sys.run Hx sc3 inorder) [1]) :=
  schedule_independent Hx sc3 session_ok sched inorder sched_causal inorder_causal [1] (by decide)
    (fun m => ⟨same_sets.1 m, same_sets.2 m⟩)
/-- … and of (d) -/
example : ((Sys.run Hx sc3 sched) [2]).out = idealOut Hx sc3 [2] :=
  (complete_schedule_completes Hx sc3 session_ok sched sched_causal sched_complete [2] (by decide)).2.2.2.1

example : sessionValue sc3 [1] = 20064 ∧ sessionValue sc3 [2] = 16104 ∧ sessionValue sc3 [3] = 12144 := by decide

-- the values the kernel computes for this session: results of the three parties, and the one echo function
set_option maxRecDepth 1000000 in
example : ((Sys.run Hx sc3 sched) [1]).result = some 20064 ∧ ((Sys.run Hx sc3 sched) [2]).result = some 16104 ∧
    ((Sys.run Hx sc3 sched) [3]).result = some 12144 := by decide
set_option maxRecDepth 100000 in
example : gEcho Hx sc3 2 = some [90, 78] ∧ gEcho Hx sc3 3 = some [90, 97] ∧ gEcho Hx sc3 4 = none := by decide
end ExSys

end Mps.C07
