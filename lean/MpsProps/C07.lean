import MpsProofs.Handler
import MpsProofs.Order
/-
  C07 — Outcome is independent of delivery order, duplication and early arrival (handler model).

  Main theorem: `order_independent` (lemmas in MpsProofs/Order.lean). The elementary facts about single
  deliveries (`refused_noop` … `early_message_is_only_queued`) hold for arbitrary, also dishonest, messages.
-/
namespace Mps.C07
open Mps Mps.Handler

/-- a message CanAccept refuses changes nothing when delivered anyway (whole state) -/
theorem refused_noop (H : Bytes → Bytes) (s : State) (m : Msg) (h : canAccept s m = false) : accept H s m = s := by
  simp [accept, h]

/-- a second copy of a message (same round, sender and kind already stored) changes nothing -/
theorem duplicate_noop (H : Bytes → Bytes) (s : State) (m : Msg) (h : duplicate s m = true) : accept H s m = s := by
  simp [accept, h]

/-- messages of rounds the handler has left are refused -/
theorem stale_refused (s : State) (m : Msg) (h1 : 0 < m.rnd) (h2 : m.rnd < s.cur) : canAccept s m = false := by
  simp [canAccept, h1, h2]

/-- messages of another session or protocol are refused -/
theorem foreign_refused (s : State) (m : Msg) (h : m.ssid.getD [] ≠ s.sc.ssid ∨ m.proto ≠ s.sc.proto) :
    canAccept s m = false := by
  rcases h with h | h <;> simp [canAccept, h]

/-- after the end every message is ignored -/
theorem after_end_noop (H : Bytes → Bytes) (s : State) (m : Msg) (h : terminal s = true) : accept H s m = s :=
  accept_terminal H s m h

/-- a message for a later round is stored and nothing else happens: no verification, no output, no verdict -/
theorem early_message_is_only_queued (H : Bytes → Bytes) (s : State) (m : Msg) (h : (store s m).cur ≠ m.rnd)
    (h0 : m.rnd ≠ 0) (hc : (!canAccept s m || terminal s || duplicate s m) = false) : accept H s m = store s m := by
  have : (m.rnd == 0) = false := by simpa using h0
  simp [accept, hc, this, acceptStored, h]

/-! ### order independence -/

/-- everything observable about a handler: verdict, result, round position, protocol state, the emitted
    messages in order, the echo-hash table — every field of the state except the two internal message queues -/
def outcome (s : State) :=
  (s.err, s.result, s.cur, s.acc, s.out, s.closes, s.idx, s.reached, s.bh, s.accused)

/-- ORDER INDEPENDENCE. For every hash `H`, every script `sc` and every honest message set `M`
    (`Honest H sc M`, a decidable predicate: well-formed script; every message addressed to this party in this
    session, of the kind its round expects, decodable and without failure flags, stamped with the session's echo
    hash `expBh` of the preceding round; no two different messages for one (round, sender, kind)):
    any two delivery sequences `l1`, `l2` of messages from `M` that deliver the same SET of messages — in any
    order, with any repetitions, with messages of later rounds arriving arbitrarily early, and not necessarily
    all of `M` — leave the handler with the same outcome. -/
theorem order_independent (H : Bytes → Bytes) (sc : Script) (M : List Msg) (hM : Honest H sc M) (l1 l2 : List Msg)
    (h1 : ∀ m ∈ l1, m ∈ M) (h2 : ∀ m ∈ l2, m ∈ M) (hsame : ∀ m, m ∈ l1 ↔ m ∈ l2) :
    outcome (run H sc (l1.map Call.accept)) = outcome (run H sc (l2.map Call.accept)) := by
  obtain ⟨_, e2, e3, e4, e5, e6, e7, e8, e9, e10, e11⟩ := (run_feq hM l1 l2 h1 h2 hsame).fields
  unfold outcome
  rw [e2, e3, e4, e5, e6, e7, e8, e9, e10, e11]

/-- … and while the session is still running the two message queues hold the same entries too (they may be
    filled in another order), so the two handlers also behave alike on every further input -/
theorem order_independent_queues (H : Bytes → Bytes) (sc : Script) (M : List Msg) (hM : Honest H sc M)
    (l1 l2 : List Msg) (h1 : ∀ m ∈ l1, m ∈ M) (h2 : ∀ m ∈ l2, m ∈ M) (hsame : ∀ m, m ∈ l1 ↔ m ∈ l2)
    (hrun : terminal (run H sc (l1.map Call.accept)) = false) :
    Sim (run H sc (l1.map Call.accept)) (run H sc (l2.map Call.accept)) :=
  run_sim hM l1 l2 h1 h2 hsame hrun

/-- two states related by `Sim` stay related under ANY further call (not only honest deliveries) -/
theorem sim_congruence (H : Bytes → Bytes) (a b : State) (h : Sim a b) (calls : List Call) :
    Sim (calls.foldl (apply H) a) (calls.foldl (apply H) b) := by
  induction calls generalizing a b with
  | nil => exact h
  | cons c cs ih =>
    apply ih
    cases c <;> simp only [apply]
    · exact accept_sim H h _
    · exact h
    · exact h
    · exact h
    · unfold stop
      rw [terminal_sim h]
      split
      · exact h
      · exact abort_sim h _

/-- re-delivering messages that were already delivered changes nothing -/
theorem redelivery_irrelevant (H : Bytes → Bytes) (sc : Script) (M : List Msg) (hM : Honest H sc M)
    (l extra : List Msg) (h1 : ∀ m ∈ l, m ∈ M) (h2 : ∀ m ∈ extra, m ∈ l) :
    outcome (run H sc ((l ++ extra).map Call.accept)) = outcome (run H sc (l.map Call.accept)) := by
  apply order_independent H sc M hM
  · intro m hm
    rcases List.mem_append.mp hm with h | h
    · exact h1 m h
    · exact h1 m (h2 m h)
  · exact h1
  · intro m
    simp only [List.mem_append]
    exact ⟨fun h => h.elim id (h2 m), Or.inl⟩

/-- any schedule that is a permutation-with-repetitions of a reference schedule `ref` (for instance the
    in-order one) gives the result of `ref` -/
theorem schedule_gives_reference_outcome (H : Bytes → Bytes) (sc : Script) (M : List Msg) (hM : Honest H sc M)
    (ref sched : List Msg) (href : ∀ m ∈ ref, m ∈ M) (h1 : ∀ m ∈ sched, m ∈ ref) (h2 : ∀ m ∈ ref, m ∈ sched) :
    outcome (run H sc (sched.map Call.accept)) = outcome (run H sc (ref.map Call.accept)) :=
  order_independent H sc M hM sched ref (fun m hm => href m (h1 m hm)) href (fun m => ⟨h1 m, h2 m⟩)

/-- the common outcome is never a verdict against anybody: whatever the order, duplication or earliness of the
    honest messages, the handler does not abort with a message failure, an echo mismatch or a protocol abort
    (the only error left is the own `Finalize` failure the script itself prescribes via `finErrAt`), and every
    echo hash it computes is the session's `expBh` — the value `Honest` asks the peers' messages to carry -/
theorem honest_delivery_never_blames (H : Bytes → Bytes) (sc : Script) (M : List Msg) (hM : Honest H sc M)
    (l : List Msg) (hl : ∀ m ∈ l, m ∈ M) :
    ((run H sc (l.map Call.accept)).err = none ∨ (run H sc (l.map Call.accept)).err = some .finalizeErr) ∧
    ∀ r h, bhLookup (run H sc (l.map Call.accept)).bh r = some h → expBh H sc M r = some h :=
  ⟨(run_clean hM l hl).2, (run_clean hM l hl).1⟩

/-! ### non-vacuity: a concrete session (3 parties; rounds 1, 2 (broadcast), 3 (broadcast + p2p), 4 (p2p)) -/

namespace Ex
/-- a toy hash (length and byte sum); the theorems hold for every `H` -/
def Hx : Bytes → Bytes := fun b => [UInt8.ofNat b.length, UInt8.ofNat (b.foldl (fun a x => a + x.toNat) 0)]
def sc3 : Script := ⟨[[1], [2], [3]], [1], 4,
  [⟨1, false, false⟩, ⟨2, true, false⟩, ⟨3, true, true⟩, ⟨4, false, true⟩], [7], [9], [], 0⟩
def mk (frm to : Bytes) (r : Nat) (b : Bool) (bv : Option Bytes) : Msg :=
  { ssid := some sc3.ssid, frm := frm, to := to, proto := sc3.proto, rnd := r,
    data := some (cborContent ⟨honestV sc3 frm to r, 0⟩), bcast := b, bv := bv, dec := some ⟨honestV sc3 frm to r, 0⟩ }
/-- what parties 2 and 3 send to party 1 (the echo hashes of rounds 2 and 3 under `Hx` are 5a4e and 5a61) -/
def M3 : List Msg :=
  [mk [2] [] 2 true none, mk [3] [] 2 true none,
   mk [2] [] 3 true (some [90, 78]), mk [3] [] 3 true (some [90, 78]),
   mk [2] [1] 3 false (some [90, 78]), mk [3] [1] 3 false (some [90, 78]),
   mk [2] [1] 4 false (some [90, 97]), mk [3] [1] 4 false (some [90, 97])]
/-- the in-order schedule is `M3` itself; this one is reversed (every message arrives early, p2p before
    broadcast) with repetitions -/
def sched : List Msg := M3.reverse ++ M3.take 3 ++ M3.reverse

set_option maxRecDepth 100000 in
theorem honest : Honest Hx sc3 M3 := by decide
theorem sched_sub : ∀ m ∈ sched, m ∈ M3 := by decide
theorem sched_all : ∀ m ∈ M3, m ∈ sched := by decide
theorem sched_ne : sched ≠ M3 := by decide

/-- the hypotheses of `order_independent` are satisfiable, with two different schedules -/
example : outcome (run Hx sc3 (sched.map Call.accept)) = outcome (run Hx sc3 (M3.map Call.accept)) :=
  schedule_gives_reference_outcome Hx sc3 M3 honest M3 sched (fun _ h => h) sched_sub sched_all

-- the session of the example really completes: the scrambled schedule ends with the protocol's result, the
-- handler's own echo-hash table being the one the peers stamped their messages with
set_option maxRecDepth 1000000 in
example : (run Hx sc3 (sched.map Call.accept)).result = some 20064 ∧ (run Hx sc3 (sched.map Call.accept)).err = none ∧
    (run Hx sc3 (sched.map Call.accept)).bh = [(2, [90, 78]), (3, [90, 97])] := by decide

set_option maxRecDepth 100000 in
theorem still_running : terminal (run Hx sc3 ((M3.take 3).reverse.map Call.accept)) = false := by decide

/-- … and of `order_independent_queues` (a session that is still running) -/
example : Sim (run Hx sc3 ((M3.take 3).reverse.map Call.accept)) (run Hx sc3 ((M3.take 3).map Call.accept)) :=
  order_independent_queues Hx sc3 M3 honest _ _ (by decide) (by decide) (fun _ => List.mem_reverse) still_running
end Ex

example : ∃ s m, canAccept s m = false := ⟨default, default, by decide⟩

end Mps.C07
