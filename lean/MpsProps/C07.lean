import MpsProofs.Handler
/-
  C07 — Outcome is independent of delivery order, duplication and early arrival (handler model).
-/
namespace Mps.C07
open Mps Mps.Handler

/-- a message CanAccept refuses changes nothing when delivered anyway (whole state) -/
theorem refused_noop (H : Bytes → Bytes) (s : State) (m : Msg) (h : canAccept s m = false) : accept H s m = s := by
  simp [accept, h]

/-- a second copy of a message (same round, sender and kind already stored) changes nothing -/
theorem duplicate_noop (H : Bytes → Bytes) (s : State) (m : Msg) (h : duplicate s m = true) : accept H s m = s := by
  simp [accept, h]

/-- messages of rounds the handler has left are refused -/
theorem stale_refused (s : State) (m : Msg) (h1 : 0 < m.rnd) (h2 : m.rnd < s.cur) : canAccept s m = false := by
  simp [canAccept, h1, h2]

/-- messages of another session or protocol are refused -/
theorem foreign_refused (s : State) (m : Msg) (h : m.ssid.getD [] ≠ s.sc.ssid ∨ m.proto ≠ s.sc.proto) :
    canAccept s m = false := by
  rcases h with h | h <;> simp [canAccept, h]

/-- after the end every message is ignored -/
theorem after_end_noop (H : Bytes → Bytes) (s : State) (m : Msg) (h : terminal s = true) : accept H s m = s :=
  accept_terminal H s m h

/-- a message for a later round is stored and nothing else happens: no verification, no output, no verdict -/
theorem early_message_is_only_queued (H : Bytes → Bytes) (s : State) (m : Msg) (h : (store s m).cur ≠ m.rnd)
    (h0 : m.rnd ≠ 0) (hc : (!canAccept s m || terminal s || duplicate s m) = false) : accept H s m = store s m := by
  have : (m.rnd == 0) = false := by simpa using h0
  simp [accept, hc, this, acceptStored, h]

/-
  Full statement (not yet proved; checked against the model by suite `handler`, op `conc`):

  theorem order_independent (H) (scs : honest scripts of one session) (sched : any sequence of deliveries of
      messages emitted in that session, containing every emitted message at least once) :
      ∀ party p, (state of p after sched).result = (in-order run).result
-/

example : ∃ s m, canAccept s m = false := ⟨default, default, by decide⟩

end Mps.C07
