import MpsProps.Anchors.C10
import MpsProofs.ZKSigma
import MpsProofs.ZKModel
import MpsGen.ZK
/-
  C10 — ZK proofs are complete on their domain and bound to statement and context.
  Property theorems only (lemmas: MpsProofs/ZKSigma.lean — algebra, Mathlib; MpsProofs/ZKModel.lean — the
  executable model, core-only).

  What is a theorem here, and what is not:
  * completeness of the verification EQUATIONS of all 15 proof systems, for every witness / mask / challenge
    (corollaries of `sigma_complete`); completeness of the RANGE part only outside the stated tail event
    (`honest_response_bound`); what the range predicates compute (`range_check_iff`: strict `|z| < 2^bound`);
  * every verifier with a range check accepts only in-range (non-nil) responses (`*_accept_range`);
  * over tables regenerated from the source: every `Public` and `Commitment` field and every non-struct
    parameter of every `challenge()` is written into the hash (`challenge_covers_all_fields`), the selector
    lists are the ones the executable verifiers use (`gen_selectors`), the range-checked responses are the
    ones of the paper (`range_checks_match_paper`), one first-flow value is NOT hashed (`gen_first_flow_unhashed`);
  * the hash input of a challenge determines (context, statement, commitment) — or is an explicit collision
    (`challenge_input_injective`, `selected_fields_equal`);
  * for fixed (statement, commitment, challenge) accepted responses are unique modulo the kernel of the
    homomorphism (`response_unique_mod_kernel`).
  NOT claimed: the random-oracle step "a changed challenge makes the old response fail except with negligible
  probability"; soundness; zero knowledge.
-/
namespace Mps.C10
open Mps Mps.ZK

/-! ### (a) completeness of the verification equations -/

/-- Generic Σ-protocol completeness: for any homomorphism `φ` between commutative groups, the response
    `α + e • w` to challenge `e` satisfies `φ z = φ α + e • φ w` — for every mask, witness and challenge. -/
theorem sigma_complete {W G : Type*} [AddCommGroup W] [AddCommGroup G] (φ : W →+ G) (α w : W) (e : ℤ) :
    φ (α + e • w) = φ α + e • φ w := Mps.ZK.sigma_complete φ α w e

/-- multiplicative twin (Paillier / Pedersen side) -/
theorem sigma_complete_mul {W G : Type*} [CommGroup W] [CommGroup G] (φ : W →* G) (α w : W) (e : ℤ) :
    φ (α * w ^ e) = φ α * φ w ^ e := Mps.ZK.sigma_complete_mul φ α w e

alias sch_complete := Mps.ZK.sch_complete
alias log_complete := Mps.ZK.log_complete
alias elog_complete := Mps.ZK.elog_complete
alias pedersen_complete := Mps.ZK.pedersen_complete
alias paillier_enc_complete := Mps.ZK.paillier_enc_complete
alias enc_complete := Mps.ZK.enc_complete
alias logstar_complete := Mps.ZK.logstar_complete
alias affg_complete := Mps.ZK.affg_complete
alias affp_complete := Mps.ZK.affp_complete
alias encelg_complete := Mps.ZK.encelg_complete
alias mul_complete := Mps.ZK.mul_complete
alias mulstar_complete := Mps.ZK.mulstar_complete
alias dec_complete := Mps.ZK.dec_complete
alias nth_complete := Mps.ZK.nth_complete
alias prm_complete := Mps.ZK.prm_complete_code
alias fac_complete := Mps.ZK.fac_complete
alias mod_complete := Mps.ZK.mod_complete
/-- scalars reduced mod the group order act like the unreduced integers -/
alias zsmul_emod_order := Mps.ZK.zsmul_emod_order
/-- the nonce response is reduced mod N but used as an N-th power mod N²: the reduction is harmless -/
alias nonce_response_reduced := Mps.ZK.nonce_response_reduced
alias nonce_inverse_pow_N := Mps.ZK.nonce_inverse_pow_N

/-! ### (b) range checks -/

/-- What `arith.IsInIntervalLEps / LPrimeEps / LEpsPlus1RootN` compute: `TrueLen(|z|) ≤ bound`, i.e. the STRICT
    `|z| < 2^bound` with bound = 768 / 1792 / 1793 (the Go comments promise the closed interval `[-2^bound, 2^bound]`;
    `±2^bound` itself is refused); a nil pointer is refused. -/
theorem range_check_iff (z : Int) :
    (isInIntervalLEps (some z) = true ↔ z.natAbs < 2 ^ 768) ∧
    (isInIntervalLPrimeEps (some z) = true ↔ z.natAbs < 2 ^ 1792) ∧
    (isInIntervalLEpsPlus1RootN (some z) = true ↔ z.natAbs < 2 ^ 1793) ∧
    isInIntervalLEps none = false ∧ isInIntervalLPrimeEps none = false ∧ isInIntervalLEpsPlus1RootN none = false := by
  refine ⟨?_, ?_, ?_, rfl, rfl, rfl⟩
  · unfold isInIntervalLEps; rw [LPlusEpsilon_eq]; exact inBits_iff 768 z
  · unfold isInIntervalLPrimeEps; rw [LPrimePlusEpsilon_eq]; exact inBits_iff 1792 z
  · unfold isInIntervalLEpsPlus1RootN; rw [LEpsPlus1RootN_eq]; exact inBits_iff 1793 z

/-- Completeness of the range part: with `|x| ≤ 2^L`, `|e| < 2^256` the honest response `α + e·x` passes the
    strict check `< 2^(L+E)` whenever the mask is not within `2^256·2^L` of the edge of its range. The residual
    event (mask drawn from ±2^(L+E) by `sampleNeg`) has probability ≤ 2^(256+L) / 2^(L+E) = 2^-256 for E = 512:
    stated here, not hidden. -/
theorem honest_response_bound (α e x : ℤ) (L E : ℕ) (hx : |x| ≤ 2 ^ L) (he : |e| < 2 ^ 256)
    (hα : |α| ≤ 2 ^ (L + E) - 2 ^ 256 * 2 ^ L) : |α + e * x| < 2 ^ (L + E) :=
  Mps.ZK.honest_response_bound α e x L E hx he hα

alias honest_response_bound_LEps := Mps.ZK.honest_response_bound_LEps
alias honest_response_bound_LPrimeEps := Mps.ZK.honest_response_bound_LPrimeEps
alias honest_response_triangle := Mps.ZK.honest_response_triangle

/-- accepted ⇒ in range, for every verifier that has a range check (zkdec / zkmul have none in the paper either; their response is reduced: `plaintext_reduced`) -/
theorem out_of_range_rejected (pre : List Item) (pub prf : Rec) :
    (Enc.verify pre pub prf = .ok true → isInIntervalLEps (prf.intV "Z1") = true) ∧
    (Logstar.verify pre pub prf = .ok true → isInIntervalLEps (prf.intV "Z1") = true) ∧
    (Affg.verify pre pub prf = .ok true →
      isInIntervalLEps (prf.intV "Z1") = true ∧ isInIntervalLPrimeEps (prf.intV "Z2") = true) ∧
    (Affp.verify pre pub prf = .ok true →
      isInIntervalLEps (prf.intV "Z1") = true ∧ isInIntervalLPrimeEps (prf.intV "Z2") = true) ∧
    (Encelg.verify pre pub prf = .ok true → isInIntervalLEps (prf.intV "Z1") = true) ∧
    (Mulstar.verify pre pub prf = .ok true → isInIntervalLEps (prf.intV "Z1") = true) ∧
    (Fac.verify pre pub prf = .ok true →
      isInIntervalLEpsPlus1RootN (prf.intV "Z1") = true ∧ isInIntervalLEpsPlus1RootN (prf.intV "Z2") = true) :=
  ⟨enc_accept_range pre pub prf, logstar_accept_range pre pub prf, affg_accept_range pre pub prf,
   affp_accept_range pre pub prf, encelg_accept_range pre pub prf, mulstar_accept_range pre pub prf,
   fac_accept_range pre pub prf⟩

/-- zkdec / zkmul take their response into the plaintext space ±⌊N/2⌋ before it is encrypted (`SetModSymmetric`,
    `gen_dec`, `gen_mul`): for every response and every modulus the encryption cannot panic, and the reduced value is
    congruent to the response mod N (so the ciphertext, which depends on the plaintext mod N only, is the honest one) -/
theorem plaintext_reduced (n : Nat) (z : Int) (nonce : Nat) (hn : 0 < n) :
    (∃ c, encWithNonce n (symMod z n) nonce = .ok c) ∧ (symMod z n - z) % (n : Int) = 0 :=
  ⟨encWithNonce_symMod_ok n z nonce hn, symMod_congr z n hn⟩

/-- why the reduction is needed: `EncWithNonce` panics beyond `⌊N/2⌋` (zkdec / zkmul handed it the unreduced
    response; repaired finding) -/
theorem unchecked_response_panics (n : Nat) (m : Int) (nonce : Nat) (h : n / 2 < m.natAbs) :
    ∃ w, encWithNonce n m nonce = .error w := encWithNonce_panics n m nonce h

/-! ### (d) uniqueness of the response modulo the kernel -/

/-- For fixed statement `X`, commitment `A` and challenge `e`, two accepted responses differ by an element of
    the kernel of the homomorphism: a response transplanted from another proof is accepted only if it
    coincides modulo the kernel. -/
theorem response_unique_mod_kernel {W G : Type*} [AddCommGroup W] [AddCommGroup G] (φ : W →+ G)
    (A X : G) (e : ℤ) (z z' : W) (h : φ z = A + e • X) (h' : φ z' = A + e • X) :
    z - z' ∈ φ.ker ∧ φ (z - z') = 0 := Mps.ZK.response_unique_mod_kernel φ A X e z z' h h'

alias response_accepted_of_kernel := Mps.ZK.response_accepted_of_kernel
alias response_unique_mod_kernel_mul := Mps.ZK.response_unique_mod_kernel_mul
alias response_unique_of_injective := Mps.ZK.response_unique_of_injective

/-! ### (c) the challenge covers statement, context and commitment -/

/-- The hash input of a `challenge()` writing `k` values on top of the caller's state determines the context
    items and the `k` values (statement and commitment) — or the two inputs are an explicit collision of `H`.
    Values: every Go type the 15 `challenge()` functions write (`HV`), on its validity domain. -/
theorem challenge_input_injective (H : Bytes → Bytes) (pre pre' : List Item) (vs vs' : List HV)
    (is is' : List Item) (hpre : ∀ i ∈ pre, i.WF) (hpre' : ∀ i ∈ pre', i.WF)
    (hv : ∀ v ∈ vs, v.WF) (hv' : ∀ v ∈ vs', v.WF) (hlen : vs.length = vs'.length)
    (e : encodeHVs vs = some is) (e' : encodeHVs vs' = some is')
    (h : H (transcript (pre ++ is)) = H (transcript (pre' ++ is'))) :
    (pre = pre' ∧ vs = vs') ∨
    (transcript (pre ++ is) ≠ transcript (pre' ++ is') ∧ H (transcript (pre ++ is)) = H (transcript (pre' ++ is'))) :=
  Mps.ZK.challenge_input_injective H pre pre' vs vs' is is' hpre hpre' hv hv' hlen e e' h

/-- … and equal hashed value lists mean that every selected `Public` / `Commitment` field is equal. -/
theorem selected_fields_equal (sel : List Sel) (pub prf pub' prf' : Rec) (param param' : String → List Val)
    (hs : structOnly sel = true) (h : selectVals sel pub prf param = selectVals sel pub' prf' param') :
    ∀ s ∈ sel, pick pub prf s = pick pub' prf' s :=
  Mps.ZK.selected_fields_equal sel pub prf pub' prf' param param' hs h

alias hv_encode_injective := Mps.ZK.hv_encode_injective

/-- Binding of a verification to (context, statement, commitment), composed: two successful challenge
    computations with the selector list of a proof system whose hash inputs have equal digests have the same
    context and write every selected `Public` / `Commitment` field as the same value — or exhibit a collision.
    With `gen_selectors` + `challenge_covers_all_fields` the selected fields are ALL statement and commitment
    fields of the real `challenge()`; with `toHV_injective` equal written values are equal field values. -/
theorem challenge_binds_statement (H : Bytes → Bytes) (sel : List Sel) (hs : structOnly sel = true)
    (pre pre' : List Item) (pub prf pub' prf' : Rec) (param param' : String → List Val) (is is' : List Item)
    (hpre : ∀ i ∈ pre, i.WF) (hpre' : ∀ i ∈ pre', i.WF)
    (hv : ∀ v ∈ (selectVals sel pub prf param).map Val.toHV, v.WF)
    (hv' : ∀ v ∈ (selectVals sel pub' prf' param').map Val.toHV, v.WF)
    (e : writeAll ((selectVals sel pub prf param).map Val.toHV) = .ok (some is))
    (e' : writeAll ((selectVals sel pub' prf' param').map Val.toHV) = .ok (some is'))
    (h : H (transcript (pre ++ is)) = H (transcript (pre' ++ is'))) :
    (pre = pre' ∧ ∀ s ∈ sel, (pick pub prf s).toHV = (pick pub' prf' s).toHV) ∨
    (transcript (pre ++ is) ≠ transcript (pre' ++ is') ∧ H (transcript (pre ++ is)) = H (transcript (pre' ++ is'))) :=
  Mps.ZK.challenge_binds_statement H sel hs pre pre' pub prf pub' prf' param param' is is' hpre hpre' hv hv' e e' h

alias toHV_injective := Mps.ZK.toHV_injective

set_option maxRecDepth 65536

/-! ### Tables regenerated from the source -/

structure SysTab where
  name : String
  pub : List String
  comm : List String
  proof : List String
  paramNames : List String
  paramTypes : List String
  selRecv : List String
  selField : List String
  ranges : List String
  isvalid : List String
  callParam : List String
  callRecv : List String
  callField : List String

def tabs : List SysTab :=
  [ ⟨"sch", MpsGen.ZK.sch_public, MpsGen.ZK.sch_commitment, MpsGen.ZK.sch_proof, MpsGen.ZK.sch_param_names, MpsGen.ZK.sch_param_types,
      MpsGen.ZK.sch_sel_recv, MpsGen.ZK.sch_sel_field, MpsGen.ZK.sch_ranges, MpsGen.ZK.sch_isvalid,
      MpsGen.ZK.sch_call_param, MpsGen.ZK.sch_call_recv, MpsGen.ZK.sch_call_field⟩,
    ⟨"mod", MpsGen.ZK.mod_public, MpsGen.ZK.mod_commitment, MpsGen.ZK.mod_proof, MpsGen.ZK.mod_param_names, MpsGen.ZK.mod_param_types,
      MpsGen.ZK.mod_sel_recv, MpsGen.ZK.mod_sel_field, MpsGen.ZK.mod_ranges, MpsGen.ZK.mod_isvalid,
      MpsGen.ZK.mod_call_param, MpsGen.ZK.mod_call_recv, MpsGen.ZK.mod_call_field⟩,
    ⟨"prm", MpsGen.ZK.prm_public, MpsGen.ZK.prm_commitment, MpsGen.ZK.prm_proof, MpsGen.ZK.prm_param_names, MpsGen.ZK.prm_param_types,
      MpsGen.ZK.prm_sel_recv, MpsGen.ZK.prm_sel_field, MpsGen.ZK.prm_ranges, MpsGen.ZK.prm_isvalid,
      MpsGen.ZK.prm_call_param, MpsGen.ZK.prm_call_recv, MpsGen.ZK.prm_call_field⟩,
    ⟨"fac", MpsGen.ZK.fac_public, MpsGen.ZK.fac_commitment, MpsGen.ZK.fac_proof, MpsGen.ZK.fac_param_names, MpsGen.ZK.fac_param_types,
      MpsGen.ZK.fac_sel_recv, MpsGen.ZK.fac_sel_field, MpsGen.ZK.fac_ranges, MpsGen.ZK.fac_isvalid,
      MpsGen.ZK.fac_call_param, MpsGen.ZK.fac_call_recv, MpsGen.ZK.fac_call_field⟩,
    ⟨"enc", MpsGen.ZK.enc_public, MpsGen.ZK.enc_commitment, MpsGen.ZK.enc_proof, MpsGen.ZK.enc_param_names, MpsGen.ZK.enc_param_types,
      MpsGen.ZK.enc_sel_recv, MpsGen.ZK.enc_sel_field, MpsGen.ZK.enc_ranges, MpsGen.ZK.enc_isvalid,
      MpsGen.ZK.enc_call_param, MpsGen.ZK.enc_call_recv, MpsGen.ZK.enc_call_field⟩,
    ⟨"encelg", MpsGen.ZK.encelg_public, MpsGen.ZK.encelg_commitment, MpsGen.ZK.encelg_proof, MpsGen.ZK.encelg_param_names, MpsGen.ZK.encelg_param_types,
      MpsGen.ZK.encelg_sel_recv, MpsGen.ZK.encelg_sel_field, MpsGen.ZK.encelg_ranges, MpsGen.ZK.encelg_isvalid,
      MpsGen.ZK.encelg_call_param, MpsGen.ZK.encelg_call_recv, MpsGen.ZK.encelg_call_field⟩,
    ⟨"affg", MpsGen.ZK.affg_public, MpsGen.ZK.affg_commitment, MpsGen.ZK.affg_proof, MpsGen.ZK.affg_param_names, MpsGen.ZK.affg_param_types,
      MpsGen.ZK.affg_sel_recv, MpsGen.ZK.affg_sel_field, MpsGen.ZK.affg_ranges, MpsGen.ZK.affg_isvalid,
      MpsGen.ZK.affg_call_param, MpsGen.ZK.affg_call_recv, MpsGen.ZK.affg_call_field⟩,
    ⟨"affp", MpsGen.ZK.affp_public, MpsGen.ZK.affp_commitment, MpsGen.ZK.affp_proof, MpsGen.ZK.affp_param_names, MpsGen.ZK.affp_param_types,
      MpsGen.ZK.affp_sel_recv, MpsGen.ZK.affp_sel_field, MpsGen.ZK.affp_ranges, MpsGen.ZK.affp_isvalid,
      MpsGen.ZK.affp_call_param, MpsGen.ZK.affp_call_recv, MpsGen.ZK.affp_call_field⟩,
    ⟨"logstar", MpsGen.ZK.logstar_public, MpsGen.ZK.logstar_commitment, MpsGen.ZK.logstar_proof, MpsGen.ZK.logstar_param_names, MpsGen.ZK.logstar_param_types,
      MpsGen.ZK.logstar_sel_recv, MpsGen.ZK.logstar_sel_field, MpsGen.ZK.logstar_ranges, MpsGen.ZK.logstar_isvalid,
      MpsGen.ZK.logstar_call_param, MpsGen.ZK.logstar_call_recv, MpsGen.ZK.logstar_call_field⟩,
    ⟨"elog", MpsGen.ZK.elog_public, MpsGen.ZK.elog_commitment, MpsGen.ZK.elog_proof, MpsGen.ZK.elog_param_names, MpsGen.ZK.elog_param_types,
      MpsGen.ZK.elog_sel_recv, MpsGen.ZK.elog_sel_field, MpsGen.ZK.elog_ranges, MpsGen.ZK.elog_isvalid,
      MpsGen.ZK.elog_call_param, MpsGen.ZK.elog_call_recv, MpsGen.ZK.elog_call_field⟩,
    ⟨"log", MpsGen.ZK.log_public, MpsGen.ZK.log_commitment, MpsGen.ZK.log_proof, MpsGen.ZK.log_param_names, MpsGen.ZK.log_param_types,
      MpsGen.ZK.log_sel_recv, MpsGen.ZK.log_sel_field, MpsGen.ZK.log_ranges, MpsGen.ZK.log_isvalid,
      MpsGen.ZK.log_call_param, MpsGen.ZK.log_call_recv, MpsGen.ZK.log_call_field⟩,
    ⟨"nth", MpsGen.ZK.nth_public, MpsGen.ZK.nth_commitment, MpsGen.ZK.nth_proof, MpsGen.ZK.nth_param_names, MpsGen.ZK.nth_param_types,
      MpsGen.ZK.nth_sel_recv, MpsGen.ZK.nth_sel_field, MpsGen.ZK.nth_ranges, MpsGen.ZK.nth_isvalid,
      MpsGen.ZK.nth_call_param, MpsGen.ZK.nth_call_recv, MpsGen.ZK.nth_call_field⟩,
    ⟨"dec", MpsGen.ZK.dec_public, MpsGen.ZK.dec_commitment, MpsGen.ZK.dec_proof, MpsGen.ZK.dec_param_names, MpsGen.ZK.dec_param_types,
      MpsGen.ZK.dec_sel_recv, MpsGen.ZK.dec_sel_field, MpsGen.ZK.dec_ranges, MpsGen.ZK.dec_isvalid,
      MpsGen.ZK.dec_call_param, MpsGen.ZK.dec_call_recv, MpsGen.ZK.dec_call_field⟩,
    ⟨"mul", MpsGen.ZK.mul_public, MpsGen.ZK.mul_commitment, MpsGen.ZK.mul_proof, MpsGen.ZK.mul_param_names, MpsGen.ZK.mul_param_types,
      MpsGen.ZK.mul_sel_recv, MpsGen.ZK.mul_sel_field, MpsGen.ZK.mul_ranges, MpsGen.ZK.mul_isvalid,
      MpsGen.ZK.mul_call_param, MpsGen.ZK.mul_call_recv, MpsGen.ZK.mul_call_field⟩,
    ⟨"mulstar", MpsGen.ZK.mulstar_public, MpsGen.ZK.mulstar_commitment, MpsGen.ZK.mulstar_proof, MpsGen.ZK.mulstar_param_names, MpsGen.ZK.mulstar_param_types,
      MpsGen.ZK.mulstar_sel_recv, MpsGen.ZK.mulstar_sel_field, MpsGen.ZK.mulstar_ranges, MpsGen.ZK.mulstar_isvalid,
      MpsGen.ZK.mulstar_call_param, MpsGen.ZK.mulstar_call_recv, MpsGen.ZK.mulstar_call_field⟩ ]

def SysTab.sel (t : SysTab) : List (String × String) := t.selRecv.zip t.selField

def structParam (ty : String) : Bool := ty == "Public" || ty == "*Commitment" || ty == "Commitment"

/-- the call `challenge(…)` in `Verify`: (parameter of challenge, receiver, field) per argument -/
def SysTab.call (t : SysTab) : List (String × String × String) := t.callParam.zip (t.callRecv.zip t.callField)

/-- a bare parameter `p` of `challenge()` is written into the hash (directly, or element by element) -/
def SysTab.hashedParam (t : SysTab) (p : String) : Bool := t.sel.contains ("", p) || t.sel.contains ("each", p)

/-- `recv.f` is handed to `challenge()` as a parameter that is hashed -/
def SysTab.passedAndHashed (t : SysTab) (recv f : String) : Bool :=
  t.call.any fun c => c.2.1 == recv && c.2.2 == f && t.hashedParam c.1

/-- every field of `Public` and every field of `Commitment` is an argument of a `hash.WriteAny` in `challenge()`
    (as `public.F` / `commitment.F`, or passed by `Verify` as a bare parameter that is hashed), and every
    non-struct parameter of `challenge()` is hashed -/
def SysTab.covered (t : SysTab) : Bool :=
  t.selRecv.length == t.selField.length &&
  t.callParam.length == t.callRecv.length && t.callRecv.length == t.callField.length &&
  t.pub.all (fun f => f == "<none>" || t.sel.contains ("public", f) || t.passedAndHashed "public" f) &&
  t.comm.all (fun f => f == "<none>" || t.sel.contains ("commitment", f)) &&
  (t.paramNames.zip t.paramTypes).all (fun nt => structParam nt.2 || t.hashedParam nt.1)

/-- All 15 proof systems: every public input and every commitment field is bound by the challenge. -/
theorem challenge_covers_all_fields : tabs.all SysTab.covered = true := by decide

theorem gen_systems : tabs.map (·.name) =
    ["sch", "mod", "prm", "fac", "enc", "encelg", "affg", "affp", "logstar", "elog", "log", "nth", "dec", "mul", "mulstar"] := by
  decide

/-- the ordered selector lists of the source are the ones the executable verifiers hash -/
theorem gen_selectors : tabs.map (fun t => (t.name, t.sel)) =
    [("sch", Mps.ZK.Sch.sel),
     ("mod", Mps.ZK.Mod.sel),
     ("prm", Mps.ZK.Prm.sel),
     ("fac", Mps.ZK.Fac.sel),
     ("enc", Mps.ZK.Enc.sel),
     ("encelg", Mps.ZK.Encelg.sel),
     ("affg", Mps.ZK.Affg.sel),
     ("affp", Mps.ZK.Affp.sel),
     ("logstar", Mps.ZK.Logstar.sel),
     ("elog", Mps.ZK.Elog.sel),
     ("log", Mps.ZK.Log.sel),
     ("nth", Mps.ZK.Nth.sel),
     ("dec", Mps.ZK.Dec.sel),
     ("mul", Mps.ZK.Mul.sel),
     ("mulstar", Mps.ZK.Mulstar.sel)] := by decide

/-- which responses are range-checked, with which predicate: exactly the ones of the paper (CGGMP21 Fig. 14–17,
    25–31; zkfac with the extra bit the code documents as a deviation). zkdec and zkmul have no range check in the
    paper either — but the code then calls `EncWithNonce` on the unchecked response (`unchecked_response_panics`). -/
theorem range_checks_match_paper : tabs.map (fun t => (t.name, t.ranges)) =
    [ ("sch", []), ("mod", []), ("prm", []),
      ("fac", ["Z1|IsInIntervalLEpsPlus1RootN", "Z2|IsInIntervalLEpsPlus1RootN"]),
      ("enc", ["Z1|IsInIntervalLEps"]), ("encelg", ["Z1|IsInIntervalLEps"]),
      ("affg", ["Z1|IsInIntervalLEps", "Z2|IsInIntervalLPrimeEps"]),
      ("affp", ["Z1|IsInIntervalLEps", "Z2|IsInIntervalLPrimeEps"]),
      ("logstar", ["Z1|IsInIntervalLEps"]), ("elog", []), ("log", []), ("nth", []), ("dec", []), ("mul", []),
      ("mulstar", ["Z1|IsInIntervalLEps"]) ] := by decide

/-- Classification of every field of every `Proof` struct: `c` the commitment struct (its fields are covered by
    `challenge_covers_all_fields`), `h` a first-flow value hashed through a parameter of `challenge()`, `r` a
    response, `g` the curve handle, `U` a FIRST-FLOW VALUE THAT IS NOT HASHED. A new field breaks the obligation. -/
def proofFieldClasses : List (String × List (String × String)) :=
  [ ("sch", [("C", "c"), ("Z", "r")]),
    ("mod", [("W", "h"), ("Responses", "r")]),
    ("prm", [("As", "h"), ("Zs", "r")]),
    ("fac", [("Comm", "c"), ("Sigma", "U"), ("Z1", "r"), ("Z2", "r"), ("W1", "r"), ("W2", "r"), ("V", "r")]),
    ("enc", [("<embedded *Commitment>", "c"), ("Z1", "r"), ("Z2", "r"), ("Z3", "r")]),
    ("encelg", [("group", "g"), ("<embedded *Commitment>", "c"), ("Z1", "r"), ("W", "r"), ("Z2", "r"), ("Z3", "r")]),
    ("affg", [("group", "g"), ("<embedded *Commitment>", "c"), ("Z1", "r"), ("Z2", "r"), ("Z3", "r"), ("Z4", "r"), ("W", "r"), ("Wy", "r")]),
    ("affp", [("<embedded *Commitment>", "c"), ("Z1", "r"), ("Z2", "r"), ("Z3", "r"), ("Z4", "r"), ("W", "r"), ("Wx", "r"), ("Wy", "r")]),
    ("logstar", [("group", "g"), ("<embedded *Commitment>", "c"), ("Z1", "r"), ("Z2", "r"), ("Z3", "r")]),
    ("elog", [("group", "g"), ("<embedded *Commitment>", "c"), ("Z", "r"), ("U", "r")]),
    ("log", [("group", "g"), ("<embedded *Commitment>", "c"), ("Z1", "r"), ("Z2", "r")]),
    ("nth", [("<embedded Commitment>", "c"), ("Z", "r")]),
    ("dec", [("group", "g"), ("<embedded *Commitment>", "c"), ("Z1", "r"), ("Z2", "r"), ("W", "r")]),
    ("mul", [("<embedded *Commitment>", "c"), ("Z", "r"), ("U", "r"), ("V", "r")]),
    ("mulstar", [("group", "g"), ("<embedded *Commitment>", "c"), ("Z1", "r"), ("Z2", "r"), ("W", "r")]) ]

theorem gen_proof_fields : tabs.map (fun t => (t.name, t.proof)) =
    proofFieldClasses.map (fun p => (p.1, p.2.map (·.1))) := by decide

/-- the first-flow values outside a `Commitment` struct (class `h`: zkmod `W`, zkprm `As`) are passed by `Verify`
    to `challenge()` as a parameter that is hashed -/
theorem gen_first_flow_hashed :
    (tabs.zip proofFieldClasses).all (fun tp =>
      tp.1.name == tp.2.1 && (tp.2.2.filter (fun fc => fc.2 == "h")).all (fun fc => tp.1.passedAndHashed "p" fc.1)) = true := by
  decide

/-- FINDING (kernel-checked over the regenerated tables): exactly one first-flow value of the 15 proof systems
    is not an input of its Fiat–Shamir challenge: `zkfac.Proof.Sigma` (σ is sent with the commitment in CGGMP21
    Fig. 28 and enters the verification equation through `R = s^N₀ t^σ`, but `challenge()` hashes only
    `N, Aux, P, Q, A, B, T`). -/
theorem gen_first_flow_unhashed :
    proofFieldClasses.flatMap (fun p => (p.2.filter (fun fc => fc.2 == "U")).map (fun fc => (p.1, fc.1))) =
    [("fac", "Sigma")] := by decide

/-- which packages have an `IsValid` at all, and which `Verify` functions call it -/
theorem gen_isvalid_presence :
    (tabs.filter (fun t => t.isvalid == ["<none>"])).map (·.name) = ["fac"] := by decide

/-- `pkg/zk/sch`: what `challenge()` hashes and how it samples, the range checks, `IsValid`, the checks of `Verify`, the field types -/
theorem gen_sch :
    MpsGen.ZK.sch_challenge =
      [ "commitment.C",
       "public",
       "gen",
       "sample.Scalar(hash.Digest(), group)" ] ∧
    MpsGen.ZK.sch_ranges =
      [] ∧
    MpsGen.ZK.sch_isvalid =
      [ "z == nil || z.Z.IsZero() => false" ] ∧
    MpsGen.ZK.sch_verify =
      [ "z == nil || !z.IsValid() || public.IsIdentity() => false",
       "err != nil => false",
       "z.IsValid()",
       "challenge(hash, z.group, commitment, public, gen)",
       "z.Z.Act(gen)",
       "e.Act(public)",
       "rhs.Add(commitment.C)",
       "lhs.Equal(rhs)" ] ∧
    MpsGen.ZK.sch_fields =
      [ "Commitment.C curve.Point",
       "Proof.C Commitment",
       "Proof.Z Response",
       "Response.group curve.Curve",
       "Response.Z curve.Scalar" ] := by decide

/-- `pkg/zk/mod`: what `challenge()` hashes and how it samples, the range checks, `IsValid`, the checks of `Verify`, the field types -/
theorem gen_mod :
    MpsGen.ZK.mod_challenge =
      [ "n",
       "w",
       "sample.ModN(digest, n)" ] ∧
    MpsGen.ZK.mod_ranges =
      [] ∧
    MpsGen.ZK.mod_isvalid =
      [ "p == nil => false",
       "p.W == nil => false",
       "N.Bit(0) == 0 || big.Jacobi(p.W, N) != -1 => false",
       "!arith.IsValidBigModN(N, p.W) => false",
       "!arith.IsValidBigModN(N, r.X, r.Z) => false" ] ∧
    MpsGen.ZK.mod_verify =
      [ "!p.IsValid(public) => false",
       "n.Bit(0) == 0 || n.ProbablyPrime(20) => false",
       "big.Jacobi(p.W, n) != -1 => false",
       "!arith.IsValidBigModN(n, p.W) => false",
       "err != nil => false",
       "!verifications[i].(bool) => false",
       "p.IsValid(public)",
       "n.ProbablyPrime(20)",
       "big.Jacobi(p.W, n)",
       "arith.IsValidBigModN(n, p.W)",
       "challenge(hash, nMod, p.W)",
       "p.Responses[i].Verify(n, p.W, ys[i].Big())" ] ∧
    MpsGen.ZK.mod_fields =
      [ "Public.N *saferith.Modulus",
       "Proof.W *big.Int",
       "Proof.Responses [params.StatParam]Response",
       "Response.A bool",
       "Response.B bool",
       "Response.X *big.Int",
       "Response.Z *big.Int" ] := by decide

/-- `pkg/zk/prm`: what `challenge()` hashes and how it samples, the range checks, `IsValid`, the checks of `Verify`, the field types -/
theorem gen_prm :
    MpsGen.ZK.prm_challenge =
      [ "public.Aux",
       "each A",
       "io.ReadFull(hash.Digest(), tmpBytes)" ] ∧
    MpsGen.ZK.prm_ranges =
      [] ∧
    MpsGen.ZK.prm_isvalid =
      [ "p == nil => false",
       "!arith.IsValidBigModN(public.Aux.N().Big(), append(p.As[:], p.Zs[:]...)...) => false" ] ∧
    MpsGen.ZK.prm_verify =
      [ "p == nil => false",
       "err := pedersen.ValidateParameters(public.Aux.N(), public.Aux.S(), public.Aux.T()); err != nil => false",
       "!p.IsValid(public) => false",
       "err != nil => false",
       "!arith.IsValidBigModN(n, a, z) => false",
       "a.Cmp(one) == 0 => false",
       "lhs.Cmp(&rhs) != 0 => false",
       "!ok => false",
       "pedersen.ValidateParameters(public.Aux.N(), public.Aux.S(), public.Aux.T())",
       "p.IsValid(public)",
       "challenge(hash, public, p.As)",
       "arith.IsValidBigModN(n, a, z)",
       "a.Cmp(one)",
       "lhs.Exp(t, z, n)",
       "if es[i]: rhs.Mul(a, s)",
       "lhs.Cmp(&rhs)" ] ∧
    MpsGen.ZK.prm_fields =
      [ "Public.Aux *pedersen.Parameters",
       "Proof.As [params.StatParam]*big.Int",
       "Proof.Zs [params.StatParam]*big.Int" ] := by decide

/-- `pkg/zk/fac`: what `challenge()` hashes and how it samples, the range checks, `IsValid`, the checks of `Verify`, the field types -/
theorem gen_fac :
    MpsGen.ZK.fac_challenge =
      [ "public.N",
       "public.Aux",
       "commitment.P",
       "commitment.Q",
       "commitment.A",
       "commitment.B",
       "commitment.T",
       "sample.IntervalL(hash.Digest())" ] ∧
    MpsGen.ZK.fac_ranges =
      [ "Z1|IsInIntervalLEpsPlus1RootN",
       "Z2|IsInIntervalLEpsPlus1RootN" ] ∧
    MpsGen.ZK.fac_isvalid =
      [ "<none>" ] ∧
    MpsGen.ZK.fac_verify =
      [ "p == nil => false",
       "p.Sigma == nil || p.Z1 == nil || p.Z2 == nil || p.W1 == nil || p.W2 == nil || p.V == nil || p.Comm.P == nil || p.Comm.Q == nil || p.Comm.A == nil || p.Comm.B == nil || p.Comm.T == nil => false",
       "err != nil => false",
       "!public.Aux.Verify(p.Z1, p.W1, e, p.Comm.A, p.Comm.P) => false",
       "!public.Aux.Verify(p.Z2, p.W2, e, p.Comm.B, p.Comm.Q) => false",
       "lhs.Eq(rhs) != 1 => false",
       "challenge(hash, public, p.Comm)",
       "public.Aux.Verify(p.Z1, p.W1, e, p.Comm.A, p.Comm.P)",
       "public.Aux.Verify(p.Z2, p.W2, e, p.Comm.B, p.Comm.Q)",
       "NhatArith.Exp(R, N0.Nat())",
       "R.ModMul(R, NhatArith.ExpI(public.Aux.T(), p.Sigma), Nhat)",
       "NhatArith.ExpI(public.Aux.T(), p.Sigma)",
       "NhatArith.ExpI(p.Comm.Q, p.Z1)",
       "lhs.ModMul(lhs, NhatArith.ExpI(public.Aux.T(), p.V), Nhat)",
       "NhatArith.ExpI(public.Aux.T(), p.V)",
       "NhatArith.ExpI(R, e)",
       "rhs.ModMul(rhs, p.Comm.T, Nhat)",
       "lhs.Eq(rhs)",
       "arith.IsInIntervalLEpsPlus1RootN(p.Z1)",
       "arith.IsInIntervalLEpsPlus1RootN(p.Z2)" ] ∧
    MpsGen.ZK.fac_fields =
      [ "Public.N *saferith.Modulus",
       "Public.Aux *pedersen.Parameters",
       "Commitment.P *saferith.Nat",
       "Commitment.Q *saferith.Nat",
       "Commitment.A *saferith.Nat",
       "Commitment.B *saferith.Nat",
       "Commitment.T *saferith.Nat",
       "Proof.Comm Commitment",
       "Proof.Sigma *saferith.Int",
       "Proof.Z1 *saferith.Int",
       "Proof.Z2 *saferith.Int",
       "Proof.W1 *saferith.Int",
       "Proof.W2 *saferith.Int",
       "Proof.V *saferith.Int" ] := by decide

/-- `pkg/zk/enc`: what `challenge()` hashes and how it samples, the range checks, `IsValid`, the checks of `Verify`, the field types -/
theorem gen_enc :
    MpsGen.ZK.enc_challenge =
      [ "public.Aux",
       "public.Prover",
       "public.K",
       "commitment.S",
       "commitment.A",
       "commitment.C",
       "sample.IntervalScalar(hash.Digest(), group)" ] ∧
    MpsGen.ZK.enc_ranges =
      [ "Z1|IsInIntervalLEps" ] ∧
    MpsGen.ZK.enc_isvalid =
      [ "p == nil => false",
       "p.Commitment == nil || p.Z1 == nil || p.Z2 == nil || p.Z3 == nil || p.S == nil || p.A == nil || p.C == nil => false",
       "!public.Prover.ValidateCiphertexts(p.A) => false",
       "!arith.IsValidNatModN(public.Prover.N(), p.Z2) => false" ] ∧
    MpsGen.ZK.enc_verify =
      [ "!p.IsValid(public) => false",
       "!arith.IsInIntervalLEps(p.Z1) => false",
       "err != nil => false",
       "!public.Aux.Verify(p.Z1, p.Z3, e, p.C, p.S) => false",
       "!lhs.Equal(rhs) => false",
       "p.IsValid(public)",
       "arith.IsInIntervalLEps(p.Z1)",
       "challenge(hash, group, public, p.Commitment)",
       "public.Aux.Verify(p.Z1, p.Z3, e, p.C, p.S)",
       "prover.EncWithNonce(p.Z1, p.Z2)",
       "public.K.Clone().Mul(prover, e).Add(prover, p.A)",
       "public.K.Clone().Mul(prover, e)",
       "lhs.Equal(rhs)" ] ∧
    MpsGen.ZK.enc_fields =
      [ "Public.K *paillier.Ciphertext",
       "Public.Prover *paillier.PublicKey",
       "Public.Aux *pedersen.Parameters",
       "Commitment.S *saferith.Nat",
       "Commitment.A *paillier.Ciphertext",
       "Commitment.C *saferith.Nat",
       "Proof.<embedded> *Commitment",
       "Proof.Z1 *saferith.Int",
       "Proof.Z2 *saferith.Nat",
       "Proof.Z3 *saferith.Int" ] := by decide

/-- `pkg/zk/encelg`: what `challenge()` hashes and how it samples, the range checks, `IsValid`, the checks of `Verify`, the field types -/
theorem gen_encelg :
    MpsGen.ZK.encelg_challenge =
      [ "public.Aux",
       "public.Prover",
       "public.C",
       "public.A",
       "public.B",
       "public.X",
       "commitment.S",
       "commitment.D",
       "commitment.Y",
       "commitment.Z",
       "commitment.T",
       "sample.IntervalScalar(hash.Digest(), group)" ] ∧
    MpsGen.ZK.encelg_ranges =
      [ "Z1|IsInIntervalLEps" ] ∧
    MpsGen.ZK.encelg_isvalid =
      [ "p == nil => false",
       "p.Commitment == nil || p.Z1 == nil || p.W == nil || p.Z2 == nil || p.Z3 == nil || p.S == nil || p.D == nil || p.Y == nil || p.Z == nil || p.T == nil => false",
       "!public.Prover.ValidateCiphertexts(p.D) => false",
       "p.W.IsZero() || p.Y.IsIdentity() || p.Z.IsIdentity() => false",
       "!arith.IsValidNatModN(public.Prover.N(), p.Z2) => false" ] ∧
    MpsGen.ZK.encelg_verify =
      [ "!p.IsValid(public) => false",
       "!arith.IsInIntervalLEps(p.Z1) => false",
       "err != nil => false",
       "!lhs.Equal(rhs) => false",
       "!lhs.Equal(rhs) => false",
       "!lhs.Equal(rhs) => false",
       "!public.Aux.Verify(p.Z1, p.Z3, e, p.T, p.S) => false",
       "p.IsValid(public)",
       "arith.IsInIntervalLEps(p.Z1)",
       "challenge(hash, p.group, public, p.Commitment)",
       "prover.EncWithNonce(p.Z1, p.Z2)",
       "public.C.Clone().Mul(prover, e).Add(prover, p.D)",
       "public.C.Clone().Mul(prover, e)",
       "lhs.Equal(rhs)",
       "z1.ActOnBase().Add(p.W.Act(public.A))",
       "z1.ActOnBase()",
       "p.W.Act(public.A)",
       "eScalar.Act(public.X).Add(p.Y)",
       "eScalar.Act(public.X)",
       "lhs.Equal(rhs)",
       "p.W.ActOnBase()",
       "eScalar.Act(public.B).Add(p.Z)",
       "eScalar.Act(public.B)",
       "lhs.Equal(rhs)",
       "public.Aux.Verify(p.Z1, p.Z3, e, p.T, p.S)" ] ∧
    MpsGen.ZK.encelg_fields =
      [ "Public.C *paillier.Ciphertext",
       "Public.A curve.Point",
       "Public.B curve.Point",
       "Public.X curve.Point",
       "Public.Prover *paillier.PublicKey",
       "Public.Aux *pedersen.Parameters",
       "Commitment.S *saferith.Nat",
       "Commitment.D *paillier.Ciphertext",
       "Commitment.Y curve.Point",
       "Commitment.Z curve.Point",
       "Commitment.T *saferith.Nat",
       "Proof.group curve.Curve",
       "Proof.<embedded> *Commitment",
       "Proof.Z1 *saferith.Int",
       "Proof.W curve.Scalar",
       "Proof.Z2 *saferith.Nat",
       "Proof.Z3 *saferith.Int" ] := by decide

/-- `pkg/zk/affg`: what `challenge()` hashes and how it samples, the range checks, `IsValid`, the checks of `Verify`, the field types -/
theorem gen_affg :
    MpsGen.ZK.affg_challenge =
      [ "public.Aux",
       "public.Prover",
       "public.Verifier",
       "public.Kv",
       "public.Dv",
       "public.Fp",
       "public.Xp",
       "commitment.A",
       "commitment.Bx",
       "commitment.By",
       "commitment.E",
       "commitment.S",
       "commitment.F",
       "commitment.T",
       "sample.IntervalScalar(hash.Digest(), group)" ] ∧
    MpsGen.ZK.affg_ranges =
      [ "Z1|IsInIntervalLEps",
       "Z2|IsInIntervalLPrimeEps" ] ∧
    MpsGen.ZK.affg_isvalid =
      [ "p == nil => false",
       "p.Commitment == nil || p.Z1 == nil || p.Z2 == nil || p.Z3 == nil || p.Z4 == nil || p.W == nil || p.Wy == nil || p.A == nil || p.Bx == nil || p.By == nil || p.E == nil || p.S == nil || p.F == nil || p.T == nil => false",
       "!public.Verifier.ValidateCiphertexts(p.A) => false",
       "!public.Prover.ValidateCiphertexts(p.By) => false",
       "!arith.IsValidNatModN(public.Prover.N(), p.Wy) => false",
       "!arith.IsValidNatModN(public.Verifier.N(), p.W) => false",
       "p.Bx.IsIdentity() => false" ] ∧
    MpsGen.ZK.affg_verify =
      [ "!p.IsValid(public) => false",
       "!arith.IsInIntervalLEps(p.Z1) => false",
       "!arith.IsInIntervalLPrimeEps(p.Z2) => false",
       "err != nil => false",
       "!public.Aux.Verify(p.Z1, p.Z3, e, p.E, p.S) => false",
       "!public.Aux.Verify(p.Z2, p.Z4, e, p.F, p.T) => false",
       "!lhs.Equal(rhs) => false",
       "!lhs.Equal(rhs) => false",
       "!lhs.Equal(rhs) => false",
       "p.IsValid(public)",
       "arith.IsInIntervalLEps(p.Z1)",
       "arith.IsInIntervalLPrimeEps(p.Z2)",
       "challenge(hash, p.group, public, p.Commitment)",
       "public.Aux.Verify(p.Z1, p.Z3, e, p.E, p.S)",
       "public.Aux.Verify(p.Z2, p.Z4, e, p.F, p.T)",
       "public.Kv.Clone().Mul(verifier, p.Z1)",
       "verifier.EncWithNonce(p.Z2, p.W).Add(verifier, tmp)",
       "verifier.EncWithNonce(p.Z2, p.W)",
       "public.Dv.Clone().Mul(verifier, e).Add(verifier, p.A)",
       "public.Dv.Clone().Mul(verifier, e)",
       "lhs.Equal(rhs)",
       "p.group.NewScalar().SetNat(p.Z1.Mod(p.group.Order())).ActOnBase()",
       "p.group.NewScalar().SetNat(e.Mod(p.group.Order())).Act(public.Xp)",
       "rhs.Add(p.Bx)",
       "lhs.Equal(rhs)",
       "prover.EncWithNonce(p.Z2, p.Wy)",
       "public.Fp.Clone().Mul(prover, e).Add(prover, p.By)",
       "public.Fp.Clone().Mul(prover, e)",
       "lhs.Equal(rhs)" ] ∧
    MpsGen.ZK.affg_fields =
      [ "Public.Kv *paillier.Ciphertext",
       "Public.Dv *paillier.Ciphertext",
       "Public.Fp *paillier.Ciphertext",
       "Public.Xp curve.Point",
       "Public.Prover *paillier.PublicKey",
       "Public.Verifier *paillier.PublicKey",
       "Public.Aux *pedersen.Parameters",
       "Commitment.A *paillier.Ciphertext",
       "Commitment.Bx curve.Point",
       "Commitment.By *paillier.Ciphertext",
       "Commitment.E *saferith.Nat",
       "Commitment.S *saferith.Nat",
       "Commitment.F *saferith.Nat",
       "Commitment.T *saferith.Nat",
       "Proof.group curve.Curve",
       "Proof.<embedded> *Commitment",
       "Proof.Z1 *saferith.Int",
       "Proof.Z2 *saferith.Int",
       "Proof.Z3 *saferith.Int",
       "Proof.Z4 *saferith.Int",
       "Proof.W *saferith.Nat",
       "Proof.Wy *saferith.Nat" ] := by decide

/-- `pkg/zk/affp`: what `challenge()` hashes and how it samples, the range checks, `IsValid`, the checks of `Verify`, the field types -/
theorem gen_affp :
    MpsGen.ZK.affp_challenge =
      [ "public.Aux",
       "public.Prover",
       "public.Verifier",
       "public.Kv",
       "public.Dv",
       "public.Fp",
       "public.Xp",
       "commitment.A",
       "commitment.Bx",
       "commitment.By",
       "commitment.E",
       "commitment.S",
       "commitment.F",
       "commitment.T",
       "sample.IntervalScalar(hash.Digest(), group)" ] ∧
    MpsGen.ZK.affp_ranges =
      [ "Z1|IsInIntervalLEps",
       "Z2|IsInIntervalLPrimeEps" ] ∧
    MpsGen.ZK.affp_isvalid =
      [ "p == nil => false",
       "p.Commitment == nil || p.Z1 == nil || p.Z2 == nil || p.Z3 == nil || p.Z4 == nil || p.W == nil || p.Wx == nil || p.Wy == nil || p.A == nil || p.Bx == nil || p.By == nil || p.E == nil || p.S == nil || p.F == nil || p.T == nil => false",
       "!public.Verifier.ValidateCiphertexts(p.A) => false",
       "!public.Prover.ValidateCiphertexts(p.Bx, p.By) => false",
       "!arith.IsValidNatModN(public.Prover.N(), p.Wx, p.Wy) => false",
       "!arith.IsValidNatModN(public.Verifier.N(), p.W) => false" ] ∧
    MpsGen.ZK.affp_verify =
      [ "!p.IsValid(public) => false",
       "!arith.IsInIntervalLEps(p.Z1) => false",
       "!arith.IsInIntervalLPrimeEps(p.Z2) => false",
       "err != nil => false",
       "!lhs.Equal(rhs) => false",
       "!lhs.Equal(rhs) => false",
       "!lhs.Equal(rhs) => false",
       "!public.Aux.Verify(p.Z1, p.Z3, e, p.E, p.S) => false",
       "!public.Aux.Verify(p.Z2, p.Z4, e, p.F, p.T) => false",
       "p.IsValid(public)",
       "arith.IsInIntervalLEps(p.Z1)",
       "arith.IsInIntervalLPrimeEps(p.Z2)",
       "challenge(hash, group, public, p.Commitment)",
       "public.Kv.Clone().Mul(verifier, p.Z1)",
       "verifier.EncWithNonce(p.Z2, p.W).Add(verifier, tmp)",
       "verifier.EncWithNonce(p.Z2, p.W)",
       "public.Dv.Clone().Mul(verifier, e).Add(verifier, p.A)",
       "public.Dv.Clone().Mul(verifier, e)",
       "lhs.Equal(rhs)",
       "prover.EncWithNonce(p.Z1, p.Wx)",
       "public.Xp.Clone().Mul(prover, e).Add(prover, p.Bx)",
       "public.Xp.Clone().Mul(prover, e)",
       "lhs.Equal(rhs)",
       "prover.EncWithNonce(p.Z2, p.Wy)",
       "public.Fp.Clone().Mul(prover, e).Add(prover, p.By)",
       "public.Fp.Clone().Mul(prover, e)",
       "lhs.Equal(rhs)",
       "public.Aux.Verify(p.Z1, p.Z3, e, p.E, p.S)",
       "public.Aux.Verify(p.Z2, p.Z4, e, p.F, p.T)" ] ∧
    MpsGen.ZK.affp_fields =
      [ "Public.Kv *paillier.Ciphertext",
       "Public.Dv *paillier.Ciphertext",
       "Public.Fp *paillier.Ciphertext",
       "Public.Xp *paillier.Ciphertext",
       "Public.Prover *paillier.PublicKey",
       "Public.Verifier *paillier.PublicKey",
       "Public.Aux *pedersen.Parameters",
       "Commitment.A *paillier.Ciphertext",
       "Commitment.Bx *paillier.Ciphertext",
       "Commitment.By *paillier.Ciphertext",
       "Commitment.E *saferith.Nat",
       "Commitment.S *saferith.Nat",
       "Commitment.F *saferith.Nat",
       "Commitment.T *saferith.Nat",
       "Proof.<embedded> *Commitment",
       "Proof.Z1 *saferith.Int",
       "Proof.Z2 *saferith.Int",
       "Proof.Z3 *saferith.Int",
       "Proof.Z4 *saferith.Int",
       "Proof.W *saferith.Nat",
       "Proof.Wx *saferith.Nat",
       "Proof.Wy *saferith.Nat" ] := by decide

/-- `pkg/zk/logstar`: what `challenge()` hashes and how it samples, the range checks, `IsValid`, the checks of `Verify`, the field types -/
theorem gen_logstar :
    MpsGen.ZK.logstar_challenge =
      [ "public.Aux",
       "public.Prover",
       "public.C",
       "public.X",
       "public.G",
       "commitment.S",
       "commitment.A",
       "commitment.Y",
       "commitment.D",
       "sample.IntervalScalar(hash.Digest(), group)" ] ∧
    MpsGen.ZK.logstar_ranges =
      [ "Z1|IsInIntervalLEps" ] ∧
    MpsGen.ZK.logstar_isvalid =
      [ "p == nil => false",
       "p.Commitment == nil || p.Z1 == nil || p.Z2 == nil || p.Z3 == nil || p.S == nil || p.A == nil || p.Y == nil || p.D == nil => false",
       "!public.Prover.ValidateCiphertexts(p.A) => false",
       "p.Y.IsIdentity() => false",
       "!arith.IsValidNatModN(public.Prover.N(), p.Z2) => false" ] ∧
    MpsGen.ZK.logstar_verify =
      [ "!p.IsValid(public) => false",
       "!arith.IsInIntervalLEps(p.Z1) => false",
       "err != nil => false",
       "!public.Aux.Verify(p.Z1, p.Z3, e, p.D, p.S) => false",
       "!lhs.Equal(rhs) => false",
       "!lhs.Equal(rhs) => false",
       "p.IsValid(public)",
       "arith.IsInIntervalLEps(p.Z1)",
       "challenge(hash, p.group, public, p.Commitment)",
       "public.Aux.Verify(p.Z1, p.Z3, e, p.D, p.S)",
       "prover.EncWithNonce(p.Z1, p.Z2)",
       "public.C.Clone().Mul(prover, e).Add(prover, p.A)",
       "public.C.Clone().Mul(prover, e)",
       "lhs.Equal(rhs)",
       "p.group.NewScalar().SetNat(p.Z1.Mod(p.group.Order())).Act(public.G)",
       "p.group.NewScalar().SetNat(e.Mod(p.group.Order())).Act(public.X)",
       "rhs.Add(p.Y)",
       "lhs.Equal(rhs)" ] ∧
    MpsGen.ZK.logstar_fields =
      [ "Public.C *paillier.Ciphertext",
       "Public.X curve.Point",
       "Public.G curve.Point",
       "Public.Prover *paillier.PublicKey",
       "Public.Aux *pedersen.Parameters",
       "Commitment.S *saferith.Nat",
       "Commitment.A *paillier.Ciphertext",
       "Commitment.Y curve.Point",
       "Commitment.D *saferith.Nat",
       "Proof.group curve.Curve",
       "Proof.<embedded> *Commitment",
       "Proof.Z1 *saferith.Int",
       "Proof.Z2 *saferith.Nat",
       "Proof.Z3 *saferith.Int" ] := by decide

/-- `pkg/zk/elog`: what `challenge()` hashes and how it samples, the range checks, `IsValid`, the checks of `Verify`, the field types -/
theorem gen_elog :
    MpsGen.ZK.elog_challenge =
      [ "public.E",
       "public.ElGamalPublic",
       "public.Y",
       "public.Base",
       "commitment.A",
       "commitment.N",
       "commitment.B",
       "sample.Scalar(hash.Digest(), group)" ] ∧
    MpsGen.ZK.elog_ranges =
      [] ∧
    MpsGen.ZK.elog_isvalid =
      [ "p == nil => false",
       "p.Commitment == nil || p.Z == nil || p.U == nil || p.A == nil || p.N == nil || p.B == nil => false",
       "p.A.IsIdentity() || p.N.IsIdentity() || p.B.IsIdentity() => false",
       "p.Z.IsZero() || p.U.IsZero() => false" ] ∧
    MpsGen.ZK.elog_verify =
      [ "!p.IsValid(public) => false",
       "err != nil => false",
       "!lhs.Equal(rhs) => false",
       "!lhs.Equal(rhs) => false",
       "!lhs.Equal(rhs) => false",
       "p.IsValid(public)",
       "challenge(hash, p.group, public, p.Commitment)",
       "p.Z.ActOnBase()",
       "e.Act(public.E.L).Add(p.A)",
       "e.Act(public.E.L)",
       "lhs.Equal(rhs)",
       "p.U.ActOnBase().Add(p.Z.Act(public.ElGamalPublic))",
       "p.U.ActOnBase()",
       "p.Z.Act(public.ElGamalPublic)",
       "e.Act(public.E.M).Add(p.N)",
       "e.Act(public.E.M)",
       "lhs.Equal(rhs)",
       "p.U.Act(public.Base)",
       "e.Act(public.Y).Add(p.B)",
       "e.Act(public.Y)",
       "lhs.Equal(rhs)" ] ∧
    MpsGen.ZK.elog_fields =
      [ "Public.E *elgamal.Ciphertext",
       "Public.ElGamalPublic elgamal.PublicKey",
       "Public.Base curve.Point",
       "Public.Y curve.Point",
       "Commitment.A curve.Point",
       "Commitment.N curve.Point",
       "Commitment.B curve.Point",
       "Proof.group curve.Curve",
       "Proof.<embedded> *Commitment",
       "Proof.Z curve.Scalar",
       "Proof.U curve.Scalar" ] := by decide

/-- `pkg/zk/log`: what `challenge()` hashes and how it samples, the range checks, `IsValid`, the checks of `Verify`, the field types -/
theorem gen_log :
    MpsGen.ZK.log_challenge =
      [ "public.H",
       "public.X",
       "public.Y",
       "commitment.A",
       "commitment.B",
       "commitment.C",
       "sample.Scalar(hash.Digest(), group)" ] ∧
    MpsGen.ZK.log_ranges =
      [] ∧
    MpsGen.ZK.log_isvalid =
      [ "p == nil => false",
       "p.Commitment == nil || p.Z1 == nil || p.Z2 == nil || p.A == nil || p.B == nil || p.C == nil => false",
       "p.A.IsIdentity() || p.B.IsIdentity() || p.C.IsIdentity() => false",
       "p.Z1.IsZero() || p.Z2.IsZero() => false" ] ∧
    MpsGen.ZK.log_verify =
      [ "!p.IsValid() => false",
       "err != nil => false",
       "!lhs.Equal(rhs) => false",
       "!lhs.Equal(rhs) => false",
       "!lhs.Equal(rhs) => false",
       "p.IsValid()",
       "challenge(hash, p.group, public, p.Commitment)",
       "p.Z1.ActOnBase()",
       "e.Act(public.X).Add(p.A)",
       "e.Act(public.X)",
       "lhs.Equal(rhs)",
       "p.Z1.Act(public.H)",
       "e.Act(public.Y).Add(p.B)",
       "e.Act(public.Y)",
       "lhs.Equal(rhs)",
       "p.Z2.ActOnBase()",
       "e.Act(public.H).Add(p.C)",
       "e.Act(public.H)",
       "lhs.Equal(rhs)" ] ∧
    MpsGen.ZK.log_fields =
      [ "Public.H curve.Point",
       "Public.X curve.Point",
       "Public.Y curve.Point",
       "Commitment.A curve.Point",
       "Commitment.B curve.Point",
       "Commitment.C curve.Point",
       "Proof.group curve.Curve",
       "Proof.<embedded> *Commitment",
       "Proof.Z1 curve.Scalar",
       "Proof.Z2 curve.Scalar" ] := by decide

/-- `pkg/zk/nth`: what `challenge()` hashes and how it samples, the range checks, `IsValid`, the checks of `Verify`, the field types -/
theorem gen_nth :
    MpsGen.ZK.nth_challenge =
      [ "public.N",
       "public.R",
       "commitment.A",
       "sample.IntervalL(hash.Digest())" ] ∧
    MpsGen.ZK.nth_ranges =
      [] ∧
    MpsGen.ZK.nth_isvalid =
      [ "p == nil => false",
       "p.Z == nil || p.A == nil => false",
       "!arith.IsValidNatModN(public.N.N(), p.Z) => false",
       "!arith.IsValidNatModN(public.N.ModulusSquared().Modulus, p.A) => false" ] ∧
    MpsGen.ZK.nth_verify =
      [ "!p.IsValid(public) => false",
       "err != nil => false",
       "lhs.Eq(rhs) != 1 => false",
       "p.IsValid(public)",
       "challenge(hash, public, p.Commitment)",
       "NSquared.Exp(p.Z, public.N.N().Nat())",
       "NSquared.ExpI(public.R, e)",
       "rhs.ModMul(rhs, p.A, NSquared.Modulus)",
       "lhs.Eq(rhs)" ] ∧
    MpsGen.ZK.nth_fields =
      [ "Public.N *paillier.PublicKey",
       "Public.R *saferith.Nat",
       "Commitment.A *saferith.Nat",
       "Proof.<embedded> Commitment",
       "Proof.Z *saferith.Nat" ] := by decide

/-- `pkg/zk/dec`: what `challenge()` hashes and how it samples, the range checks, `IsValid`, the checks of `Verify`, the field types -/
theorem gen_dec :
    MpsGen.ZK.dec_challenge =
      [ "public.Aux",
       "public.Prover",
       "public.C",
       "public.X",
       "commitment.S",
       "commitment.T",
       "commitment.A",
       "commitment.Gamma",
       "sample.IntervalScalar(hash.Digest(), group)" ] ∧
    MpsGen.ZK.dec_ranges =
      [] ∧
    MpsGen.ZK.dec_isvalid =
      [ "p == nil => false",
       "p.Commitment == nil || p.Z1 == nil || p.Z2 == nil || p.W == nil || p.S == nil || p.T == nil || p.A == nil || p.Gamma == nil => false",
       "p.Gamma == nil || p.Gamma.IsZero() => false",
       "!public.Prover.ValidateCiphertexts(p.A) => false",
       "!arith.IsValidNatModN(public.Prover.N(), p.W) => false" ] ∧
    MpsGen.ZK.dec_verify =
      [ "!p.IsValid(public) => false",
       "err != nil => false",
       "!public.Aux.Verify(p.Z1, p.Z2, e, p.T, p.S) => false",
       "!lhs.Equal(rhs) => false",
       "!lhs.Equal(rhs) => false",
       "p.IsValid(public)",
       "challenge(hash, p.group, public, p.Commitment)",
       "public.Aux.Verify(p.Z1, p.Z2, e, p.T, p.S)",
       "public.Prover.EncWithNonce(z1, p.W)",
       "public.C.Clone().Mul(public.Prover, e).Add(public.Prover, p.A)",
       "public.C.Clone().Mul(public.Prover, e)",
       "lhs.Equal(rhs)",
       "p.group.NewScalar().SetNat(e.Mod(p.group.Order())).Mul(public.X).Add(p.Gamma)",
       "p.group.NewScalar().SetNat(e.Mod(p.group.Order())).Mul(public.X)",
       "lhs.Equal(rhs)" ] ∧
    MpsGen.ZK.dec_fields =
      [ "Public.C *paillier.Ciphertext",
       "Public.X curve.Scalar",
       "Public.Prover *paillier.PublicKey",
       "Public.Aux *pedersen.Parameters",
       "Commitment.S *saferith.Nat",
       "Commitment.T *saferith.Nat",
       "Commitment.A *paillier.Ciphertext",
       "Commitment.Gamma curve.Scalar",
       "Proof.group curve.Curve",
       "Proof.<embedded> *Commitment",
       "Proof.Z1 *saferith.Int",
       "Proof.Z2 *saferith.Int",
       "Proof.W *saferith.Nat" ] := by decide

/-- `pkg/zk/mul`: what `challenge()` hashes and how it samples, the range checks, `IsValid`, the checks of `Verify`, the field types -/
theorem gen_mul :
    MpsGen.ZK.mul_challenge =
      [ "public.Prover",
       "public.X",
       "public.Y",
       "public.C",
       "commitment.A",
       "commitment.B",
       "sample.IntervalScalar(hash.Digest(), group)" ] ∧
    MpsGen.ZK.mul_ranges =
      [] ∧
    MpsGen.ZK.mul_isvalid =
      [ "p == nil => false",
       "p.Commitment == nil || p.Z == nil || p.U == nil || p.V == nil || p.A == nil || p.B == nil => false",
       "!arith.IsValidNatModN(public.Prover.N(), p.U, p.V) => false",
       "!public.Prover.ValidateCiphertexts(p.A, p.B) => false" ] ∧
    MpsGen.ZK.mul_verify =
      [ "!p.IsValid(public) => false",
       "err != nil => false",
       "!lhs.Equal(rhs) => false",
       "!lhs.Equal(rhs) => false",
       "p.IsValid(public)",
       "challenge(hash, group, public, p.Commitment)",
       "public.Y.Clone().Mul(prover, p.Z)",
       "lhs.Randomize(prover, p.U)",
       "public.C.Clone().Mul(prover, e).Add(prover, p.A)",
       "public.C.Clone().Mul(prover, e)",
       "lhs.Equal(rhs)",
       "prover.EncWithNonce(z, p.V)",
       "public.X.Clone().Mul(prover, e).Add(prover, p.B)",
       "public.X.Clone().Mul(prover, e)",
       "lhs.Equal(rhs)" ] ∧
    MpsGen.ZK.mul_fields =
      [ "Public.X *paillier.Ciphertext",
       "Public.Y *paillier.Ciphertext",
       "Public.C *paillier.Ciphertext",
       "Public.Prover *paillier.PublicKey",
       "Commitment.A *paillier.Ciphertext",
       "Commitment.B *paillier.Ciphertext",
       "Proof.<embedded> *Commitment",
       "Proof.Z *saferith.Int",
       "Proof.U *saferith.Nat",
       "Proof.V *saferith.Nat" ] := by decide

/-- `pkg/zk/mulstar`: what `challenge()` hashes and how it samples, the range checks, `IsValid`, the checks of `Verify`, the field types -/
theorem gen_mulstar :
    MpsGen.ZK.mulstar_challenge =
      [ "public.Aux",
       "public.Verifier",
       "public.C",
       "public.D",
       "public.X",
       "commitment.A",
       "commitment.Bx",
       "commitment.E",
       "commitment.S",
       "sample.IntervalScalar(hash.Digest(), group)" ] ∧
    MpsGen.ZK.mulstar_ranges =
      [ "Z1|IsInIntervalLEps" ] ∧
    MpsGen.ZK.mulstar_isvalid =
      [ "p == nil => false",
       "p.Commitment == nil || p.Z1 == nil || p.Z2 == nil || p.W == nil || p.A == nil || p.Bx == nil || p.E == nil || p.S == nil => false",
       "!arith.IsValidNatModN(public.Verifier.N(), p.W) => false",
       "!public.Verifier.ValidateCiphertexts(p.A) => false",
       "p.Bx.IsIdentity() => false" ] ∧
    MpsGen.ZK.mulstar_verify =
      [ "!p.IsValid(public) => false",
       "!arith.IsInIntervalLEps(p.Z1) => false",
       "err != nil => false",
       "!public.Aux.Verify(p.Z1, p.Z2, e, p.E, p.S) => false",
       "!lhs.Equal(rhs) => false",
       "!lhs.Equal(rhs) => false",
       "p.IsValid(public)",
       "arith.IsInIntervalLEps(p.Z1)",
       "challenge(group, hash, public, p.Commitment)",
       "public.Aux.Verify(p.Z1, p.Z2, e, p.E, p.S)",
       "public.C.Clone().Mul(verifier, p.Z1)",
       "lhs.Randomize(verifier, p.W)",
       "public.D.Clone().Mul(verifier, e).Add(verifier, p.A)",
       "public.D.Clone().Mul(verifier, e)",
       "lhs.Equal(rhs)",
       "p.group.NewScalar().SetNat(p.Z1.Mod(p.group.Order())).ActOnBase()",
       "p.group.NewScalar().SetNat(e.Mod(p.group.Order())).Act(public.X)",
       "rhs.Add(p.Bx)",
       "lhs.Equal(rhs)" ] ∧
    MpsGen.ZK.mulstar_fields =
      [ "Public.C *paillier.Ciphertext",
       "Public.D *paillier.Ciphertext",
       "Public.X curve.Point",
       "Public.Verifier *paillier.PublicKey",
       "Public.Aux *pedersen.Parameters",
       "Commitment.A *paillier.Ciphertext",
       "Commitment.Bx curve.Point",
       "Commitment.E *saferith.Nat",
       "Commitment.S *saferith.Nat",
       "Proof.group curve.Curve",
       "Proof.<embedded> *Commitment",
       "Proof.Z1 *saferith.Int",
       "Proof.Z2 *saferith.Int",
       "Proof.W *saferith.Nat" ] := by decide

theorem gen_mod_response_verify : MpsGen.ZK.mod_response_verify =
    [ "lhs.Cmp(y) != 0 => false",
       "lhs.Exp(r.Z, n, n)",
       "lhs.Cmp(y)",
       "lhs.Mul(r.X, r.X)",
       "lhs.Mul(&lhs, &lhs)",
       "lhs.Mod(&lhs, n)",
       "rhs.Set(y)",
       "if r.A: rhs.Neg(&rhs)",
       "if r.B: rhs.Mul(&rhs, w)",
       "rhs.Mod(&rhs, n)",
       "lhs.Cmp(&rhs)" ] := by decide

theorem gen_sch_proof_verify : MpsGen.ZK.sch_proof_verify =
    [ "!p.IsValid() => false",
       "p.IsValid()",
       "p.Z.Verify(hash, public, &p.C, gen)" ] := by decide

theorem gen_sch_proof_isvalid : MpsGen.ZK.sch_proof_isvalid =
    [ "p == nil || !p.Z.IsValid() || !p.C.IsValid() => false",
       "c == nil || c.C.IsIdentity() => false" ] := by decide

theorem gen_sampleNeg : MpsGen.ZK.sampleNeg =
    [ "buf := make([]byte, bits/8+1)",
       "mustReadBits(rand, buf)",
       "neg := saferith.Choice(buf[0] & 1)",
       "buf = buf[1:]",
       "out := new(saferith.Int).SetBytes(buf)",
       "out.Neg(neg)",
       "return out" ] := by decide

theorem gen_sampleIntervals : MpsGen.ZK.sampleIntervals =
    [ "IntervalL: sampleNeg(rand, params.L)",
       "IntervalLPrime: sampleNeg(rand, params.LPrime)",
       "IntervalEps: sampleNeg(rand, params.Epsilon)",
       "IntervalLEps: sampleNeg(rand, params.LPlusEpsilon)",
       "IntervalLPrimeEps: sampleNeg(rand, params.LPrimePlusEpsilon)",
       "IntervalLN: sampleNeg(rand, params.L+params.BitsIntModN)",
       "IntervalLN2: sampleNeg(rand, params.L+(2*params.BitsIntModN))",
       "IntervalLEpsN: sampleNeg(rand, params.LPlusEpsilon+params.BitsIntModN)",
       "IntervalLEpsN2: sampleNeg(rand, params.LPlusEpsilon+(2*params.BitsIntModN))",
       "IntervalLEpsRootN: sampleNeg(rand, params.LPlusEpsilon+(params.BitsIntModN/2))",
       "IntervalScalar: sampleNeg(rand, group.ScalarBits())" ] := by decide

theorem gen_sampleModN : MpsGen.ZK.sampleModN =
    [ "out := new(saferith.Nat)",
       "buf := make([]byte, (n.BitLen()+7)/8)",
       "n = saferith.ModulusFromNat(n.Nat())",
       "for { mustReadBits(rand, buf) out.SetBytes(buf) _, _, lt := out.CmpMod(n) if lt == 1 { break } }",
       "return out" ] := by decide

theorem gen_sampleScalar : MpsGen.ZK.sampleScalar =
    [ "buffer := make([]byte, group.SafeScalarBytes())",
       "mustReadBits(rand, buffer)",
       "n := new(saferith.Nat).SetBytes(buffer)",
       "return group.NewScalar().SetNat(n)" ] := by decide

theorem gen_mustReadBits : MpsGen.ZK.mustReadBits =
    [ "for i := 0; i < maxIterations; i++ { if _, err := io.ReadFull(rand, buf); err == nil { return } }",
       "panic(ErrMaxIterations)" ] := by decide

theorem gen_prmChallenge : MpsGen.ZK.prmChallenge =
    [ "err = hash.WriteAny(public.Aux)",
       "for _, a := range A { _ = hash.WriteAny(a) }",
       "tmpBytes := make([]byte, params.StatParam)",
       "_, _ = io.ReadFull(hash.Digest(), tmpBytes)",
       "es = make([]bool, params.StatParam)",
       "for i := range es { b := (tmpBytes[i] & 1) == 1 es[i] = b }",
       "return" ] := by decide

theorem gen_modChallenge : MpsGen.ZK.modChallenge =
    [ "err = hash.WriteAny(n, w)",
       "es = make([]*saferith.Nat, params.StatParam)",
       "var digest = hash.Digest()",
       "for i := range es { es[i] = sample.ModN(digest, n) }",
       "return" ] := by decide

theorem gen_curveScalarSizes : MpsGen.ZK.curveScalarSizes =
    [ "256",
       "32" ] := by decide

theorem gen_rangePredicates : MpsGen.ZK.rangePredicates =
    [ "IsInIntervalLEps: false; n.TrueLen() <= params.LPlusEpsilon",
       "IsInIntervalLPrimeEps: false; n.TrueLen() <= params.LPrimePlusEpsilon",
       "IsInIntervalLEpsPlus1RootN: false; n.TrueLen() <= 1+params.LPlusEpsilon+(params.BitsIntModN/2)" ] := by decide

theorem gen_isValidNatModN : MpsGen.ZK.isValidNatModN =
    [ "i == nil => false",
       "_, _, lt := i.CmpMod(N); lt != 1 => false",
       "i.IsUnit(N) != 1 => false" ] := by decide

theorem gen_isValidBigModN : MpsGen.ZK.isValidBigModN =
    [ "i == nil => false",
       "i.Sign() != 1 => false",
       "i.Cmp(N) != -1 => false",
       "gcd.Cmp(one) != 0 => false" ] := by decide

theorem gen_pedersenVerify : MpsGen.ZK.pedersenVerify =
    [ "a == nil || b == nil || S == nil || T == nil || e == nil => false",
       "!arith.IsValidNatModN(nMod, S, T) => false",
       "p.n.ExpI(p.s, a)",
       "p.n.ExpI(p.t, b)",
       "sa.ModMul(sa, tb, nMod)",
       "p.n.ExpI(T, e)",
       "te.ModMul(te, S, nMod)",
       "lhs.Eq(rhs)" ] := by decide

theorem gen_pedersenValidate : MpsGen.ZK.pedersenValidate =
    [ "n == nil || s == nil || t == nil => ErrNilFields",
       "!arith.IsValidNatModN(n, s, t) => ErrNotValidModN",
       "_, eq, _ := s.Cmp(t); eq == 1 => ErrSEqualT" ] := by decide

theorem gen_paillierEncWithNonce : MpsGen.ZK.paillierEncWithNonce =
    [ "nHalf.Rsh(nHalf, 1, -1)",
       "mAbs.Cmp(nHalf)",
       "if gt, _, _ := mAbs.Cmp(nHalf); gt == 1: panic(\"paillier.Encrypt: tried to encrypt message outside of range [-(N-1)/2, …, (N-1)/2]\")",
       "pk.nSquared.ExpI(pk.nPlusOne, m)",
       "pk.nSquared.Exp(nonce, pk.nNat)",
       "c.ModMul(c, rhoN, pk.nSquared.Modulus)" ] := by decide

theorem gen_paillierValidateCiphertexts : MpsGen.ZK.paillierValidateCiphertexts =
      [ "ct == nil || ct.c == nil => false",
       "lt != 1 => false",
       "ct.c.IsUnit(pk.nSquared.Modulus) != 1 => false" ] := by decide

theorem gen_ciphertextOps : MpsGen.ZK.ciphertextOps =
    [ "Add: ct2 == nil => ct; ct.c.ModMul(ct.c, ct2.c, pk.nSquared.Modulus)",
       "Mul: k == nil => ct; pk.nSquared.ExpI(ct.c, k)",
       "Randomize: pk.nSquared.Exp(nonce, pk.nNat); ct.c.ModMul(ct.c, tmp, pk.nSquared.Modulus)",
       "Equal: ct.c.Eq(ctA.c)" ] := by decide

theorem gen_params : MpsGen.ZK.params =
    [ "SecParam = 256",
       "SecBytes = SecParam / 8",
       "OTParam = 128",
       "OTBytes = OTParam / 8",
       "StatParam = 80",
       "ZKModIterations = 12",
       "L = 1 * SecParam",
       "LPrime = 5 * SecParam",
       "Epsilon = 2 * SecParam",
       "LPlusEpsilon = L + Epsilon",
       "LPrimePlusEpsilon = LPrime + Epsilon",
       "BitsIntModN = 8 * SecParam",
       "BytesIntModN = BitsIntModN / 8",
       "BitsBlumPrime = 4 * SecParam",
       "BitsPaillier = 2 * BitsBlumPrime",
       "BytesPaillier = BitsPaillier / 8",
       "BytesCiphertext = 2 * BytesPaillier" ] := by decide


/-- the constants of `internal/params` the model computes with -/
theorem params_values : SecParam = 256 ∧ StatParam = 80 ∧ L = 256 ∧ LPrime = 1280 ∧ Epsilon = 512 ∧
    LPlusEpsilon = 768 ∧ LPrimePlusEpsilon = 1792 ∧ BitsIntModN = 2048 ∧ BytesIntModN = 256 ∧ BytesCiphertext = 512 ∧
    ScalarBits = 256 ∧ SafeScalarBytes = 32 := by decide

/-! ### Non-vacuity -/

example : isInIntervalLEps (some 0) = true ∧ isInIntervalLEps (some (-5)) = true := by decide
example : (2 : Int) ^ 768 = ((2 : Nat) ^ 768 : Nat) := by norm_cast
/-- `±2^768` is refused, `2^768 - 1` accepted -/
example : ¬ (((2 : Nat) ^ 768 : Nat) : Int).natAbs < 2 ^ 768 := by simp
example : (((2 : Nat) ^ 768 - 1 : Nat) : Int).natAbs < 2 ^ 768 := by
  rw [Int.natAbs_natCast]; exact Nat.sub_lt (Nat.two_pow_pos 768) (by decide)
example : ∃ w, encWithNonce 15 8 2 = .error w := unchecked_response_panics 15 8 2 (by decide)
example : (HV.nat (some [1, 2])).WF ∧ (HV.tv (.ct 5)).WF ∧ (HV.tv (.point (List.replicate 33 2))).WF := by
  refine ⟨?_, ⟨?_, rfl⟩, ⟨?_, rfl⟩⟩
  · show [1, 2].length < 2 ^ 64; decide
  · show 5 < 256 ^ 512; exact Nat.lt_of_lt_of_le (by decide : 5 < 256 ^ 1) (Nat.pow_le_pow_right (by decide) (by decide))
  · show (List.replicate 33 (2 : UInt8)).length = 33; decide
example : structOnly Enc.sel = true ∧ structOnly Affg.sel = true ∧ structOnly Fac.sel = true := by decide
example : encodeHVs [HV.nat (some [1, 2]), HV.tv (.bytes [7])] =
    some [⟨natDomain, [1, 2]⟩, ⟨str "[]byte", [7]⟩] := by decide

end Mps.C10
