import MpsProps.Anchors.C18
import MpsProofs.Pool
import MpsProofs.Readers
import MpsGen.Pool
/-
  C18 — The worker pool always returns and never loses workers.

  Model: Mps.Pool (transition systems transcribing pkg/pool/pool.go at its synchronisation points).
  The theorems below are about the REPAIRED handshake `Pool.Fixed.*` (hooks/pool_fix.diff) and hold
  for EVERY number of workers W ≥ 1, EVERY task count n ≥ 0, EVERY function / oracle and EVERY
  schedule (interleaving of caller and workers at the synchronisation points) — no bound.
  For the code as it stood in /repo (`Pool.Par`, `Pool.Search`) the same statements are FALSE; the
  witnesses at the end are concrete schedules (kernel-evaluated) on which the caller returns while
  a worker is blocked for ever, and on which Search returns a nil slot.
-/
namespace Mps.C18
open Mps.Pool

abbrev idlePar (W : Nat) : List Fixed.Par.W := List.replicate W .idle
abbrev idleSearch (W : Nat) : List Fixed.Search.W := List.replicate W .idle

/-! ### Parallelize (repaired): results, idle workers, deadlock freedom, termination -/

/-- Whenever Parallelize returns — after ANY schedule — the result slice is exactly
    `[f 0, …, f (n-1)]`. -/
theorem parallelize_returns_results (W n : Nat) (f : Nat → Val) (ls : List Fixed.Par.Label) (s : Fixed.Par.State)
    (h : run (Fixed.Par.step n f) (Fixed.Par.init (idlePar W) n) ls = some s) (hr : s.ret = true) :
    s.res = (List.range n).map (fun i => some (f i)) :=
  Fixed.Par.results_of_ret W n f s (Fixed.Par.inv_run W n f ls s h) hr

/-- … and at that moment every worker is back at `range commands` (idle). -/
theorem workers_all_idle_at_return (W n : Nat) (f : Nat → Val) (ls : List Fixed.Par.Label) (s : Fixed.Par.State)
    (h : run (Fixed.Par.step n f) (Fixed.Par.init (idlePar W) n) ls = some s) (hr : s.ret = true) :
    s.ws = idlePar W :=
  Fixed.Par.idle_of_ret W n f s (Fixed.Par.inv_run W n f ls s h) hr

/-- No deadlock: in every reachable state in which Parallelize has not returned, some step is enabled. -/
theorem no_deadlock (W n : Nat) (hW : 0 < W) (f : Nat → Val) (ls : List Fixed.Par.Label) (s : Fixed.Par.State)
    (h : run (Fixed.Par.step n f) (Fixed.Par.init (idlePar W) n) ls = some s) (hr : s.ret = false) :
    ∃ l s', Fixed.Par.step n f s l = some s' :=
  Fixed.Par.enabled_of_not_ret W n hW f s (Fixed.Par.inv_run W n f ls s h) hr

/-- Termination without any fairness assumption: NO schedule is longer than 3n+1 steps
    (n command rendezvous, n result writes, n notification rendezvous, the return). -/
theorem steps_bounded (W n : Nat) (f : Nat → Val) (ls : List Fixed.Par.Label) (s : Fixed.Par.State)
    (h : run (Fixed.Par.step n f) (Fixed.Par.init (idlePar W) n) ls = some s) : ls.length ≤ 3 * n + 1 := by
  have := Fixed.Par.rank_run n f ls _ s h
  rw [Fixed.Par.rank_init] at this
  omega

/-- Hence every maximal schedule (one that cannot be extended) is a returned call with the right
    results and all workers idle: Parallelize always returns. -/
theorem parallelize_always_returns (W n : Nat) (hW : 0 < W) (f : Nat → Val) (ls : List Fixed.Par.Label) (s : Fixed.Par.State)
    (h : run (Fixed.Par.step n f) (Fixed.Par.init (idlePar W) n) ls = some s)
    (hmax : ∀ l, Fixed.Par.step n f s l = none) :
    s.ret = true ∧ s.res = (List.range n).map (fun i => some (f i)) ∧ s.ws = idlePar W := by
  have hr : s.ret = true := by
    cases hret : s.ret with
    | true => rfl
    | false =>
      obtain ⟨l, s', hs⟩ := no_deadlock W n hW f ls s h hret
      rw [hmax l] at hs; cases hs
  exact ⟨hr, parallelize_returns_results W n f ls s h hr, workers_all_idle_at_return W n f ls s h hr⟩

/-! ### Search (repaired) -/

/-- Partial correctness of Search: whenever it returns — after ANY schedule and ANY oracle answers —
    the result has exactly `n` slots and every slot is non-nil. -/
theorem search_returns_count_nonnil (W n : Nat) (hW : 0 < W) (ls : List Fixed.Search.Label) (s : Fixed.Search.State)
    (h : run Fixed.Search.step (Fixed.Search.init (idleSearch W) n) ls = some s) (hr : s.ret = true) :
    s.res.length = n ∧ ∀ i, i < n → ∃ v, s.res[i]? = some (some v) :=
  Fixed.Search.results_of_ret W n hW s (Fixed.Search.inv_run W n ls s h) hr

/-- … and every value in the slice is an answer the oracle actually gave: whatever property `P` all
    non-nil answers of `f` in the schedule have, every returned slot has. -/
theorem search_results_from_oracle (P : Val → Prop) (W n : Nat) (ls : List Fixed.Search.Label) (s : Fixed.Search.State)
    (h : run Fixed.Search.step (Fixed.Search.init (idleSearch W) n) ls = some s)
    (ha : Fixed.Search.answersOk P ls) (i : Nat) (v : Val) (hv : s.res[i]? = some (some v)) : P v :=
  (Fixed.Search.prov_run P ls _ s (Fixed.Search.prov_init P W n) ha h).res i v hv

theorem search_workers_all_idle_at_return (W n : Nat) (ls : List Fixed.Search.Label) (s : Fixed.Search.State)
    (h : run Fixed.Search.step (Fixed.Search.init (idleSearch W) n) ls = some s) (hr : s.ret = true) :
    s.ws = idleSearch W :=
  Fixed.Search.idle_of_ret W n s (Fixed.Search.inv_run W n ls s h) hr

theorem search_no_deadlock (W n : Nat) (hW : 0 < W) (ls : List Fixed.Search.Label) (s : Fixed.Search.State)
    (h : run Fixed.Search.step (Fixed.Search.init (idleSearch W) n) ls = some s) (hr : s.ret = false) :
    ∃ l s', Fixed.Search.step s l = some s' :=
  Fixed.Search.enabled_of_not_ret W n hW s (Fixed.Search.inv_run W n ls s h) hr

/-- Termination of Search relative to the oracle: a schedule in which f answered nil `m` times has
    at most 7W + 4n + 1 + 2m steps. (Search cannot terminate if f keeps answering nil — the
    number of nil answers is the fuel; everything else is bounded without fairness.) -/
theorem search_steps_bounded (W n : Nat) (ls : List Fixed.Search.Label) (s : Fixed.Search.State)
    (h : run Fixed.Search.step (Fixed.Search.init (idleSearch W) n) ls = some s) :
    ls.length ≤ 7 * W + 4 * n + 1 + 2 * Fixed.Search.nils ls := by
  have := Fixed.Search.rank_run W n ls _ s (Fixed.Search.inv_init W n) h
  rw [Fixed.Search.rank_init] at this
  omega

theorem search_always_returns (W n : Nat) (hW : 0 < W) (ls : List Fixed.Search.Label) (s : Fixed.Search.State)
    (h : run Fixed.Search.step (Fixed.Search.init (idleSearch W) n) ls = some s)
    (hmax : ∀ l, Fixed.Search.step s l = none) :
    s.ret = true ∧ s.res.length = n ∧ (∀ i, i < n → ∃ v, s.res[i]? = some (some v)) ∧ s.ws = idleSearch W := by
  have hr : s.ret = true := by
    cases hret : s.ret with
    | true => rfl
    | false =>
      obtain ⟨l, s', hs⟩ := search_no_deadlock W n hW ls s h hret
      rw [hmax l] at hs; cases hs
  have := search_returns_count_nonnil W n hW ls s h hr
  exact ⟨hr, this.1, this.2, search_workers_all_idle_at_return W n ls s h hr⟩

/-! ### Reuse: any number of consecutive calls -/

/-- `Available W k`: after some finite sequence of completed calls (Parallelize and Search mixed;
    any task counts, functions, oracle answers and schedules) on a fresh pool of `W` workers, each
    call starting on the workers the previous one left idle, `k` workers are idle. -/
inductive Available (W : Nat) : Nat → Prop
  | fresh : Available W W
  | par (k n : Nat) (f : Nat → Val) (ls : List Fixed.Par.Label) (s : Fixed.Par.State) :
      Available W k → run (Fixed.Par.step n f) (Fixed.Par.init (idlePar k) n) ls = some s → s.ret = true →
      Available W (s.ws.count .idle)
  | search (k n : Nat) (ls : List Fixed.Search.Label) (s : Fixed.Search.State) :
      Available W k → run Fixed.Search.step (Fixed.Search.init (idleSearch k) n) ls = some s → s.ret = true →
      Available W (s.ws.count .idle)

/-- The pool never loses a worker: after ANY number of consecutive calls all W workers are idle
    again, so every later call runs under the hypotheses of the theorems above. -/
theorem pool_reusable (W k : Nat) (h : Available W k) : k = W := by
  induction h with
  | fresh => rfl
  | par k n f ls s _ hrun hr ih =>
    subst ih
    rw [workers_all_idle_at_return k n f ls s hrun hr]
    simp
  | search k n ls s _ hrun hr ih =>
    subst ih
    rw [search_workers_all_idle_at_return k n ls s hrun hr]
    simp

/-! ### nil pool -/

/-- A nil pool computes the same slice on the calling goroutine: `parallelizeAlone f n` equals what
    every returned pool run yields; `searchAlone` returns the first `n` non-nil answers of the
    oracle (so `n` non-nil slots), provided the oracle answers non-nil `n` times. -/
theorem nil_pool_same_results (W n : Nat) (f : Nat → Val) (ls : List Fixed.Par.Label) (s : Fixed.Par.State)
    (h : run (Fixed.Par.step n f) (Fixed.Par.init (idlePar W) n) ls = some s) (hr : s.ret = true) :
    parallelizeAlone f n = s.res := by
  rw [parallelizeAlone_eq, parallelize_returns_results W n f ls s h hr]

theorem nil_pool_search (answers : List (Option Val)) (n : Nat) (hfuel : n ≤ (answers.filter Option.isSome).length) :
    ∃ res, searchAlone answers n = some res ∧ res.length = n ∧ (∀ x ∈ res, x ≠ none) ∧
      res = (answers.filter Option.isSome).take n := by
  refine ⟨(answers.filter Option.isSome).take n, ?_, ?_, ?_, rfl⟩
  · unfold searchAlone; rw [searchAloneLoop_eq, if_pos hfuel]; simp
  · simp; omega
  · intro x hx hn
    have := List.mem_filter.mp (List.mem_of_mem_take hx)
    subst hn; simp at this

/-! ### The random stream of a search through the pool (sample.Paillier): pool.LockedReader

The workers of one `Search` read the caller's stream through ONE locked reader: their Read calls are serialised, so —
whatever the interleaving — k calls for n bytes are handed the k consecutive blocks of the stream. -/

/-- the i-th serialised read gets bytes [n·i, n·(i+1)) of the stream: no byte is handed out twice -/
theorem locked_reader_block (s : List UInt8) (n k i : Nat) (h : i < k) :
    (Readers.serve s n k)[i]? = some ((s.drop (n * i)).take n) :=
  Readers.serve_getElem? n k s i h

/-- … and together the reads consume exactly the first n·k bytes -/
theorem locked_reader_consumes_prefix (s : List UInt8) (n k : Nat) :
    (Readers.serve s n k).flatten = s.take (n * k) :=
  Readers.serve_flatten n k s

example : Readers.serve [1, 2, 3, 4, 5, 6, 7] 2 3 = [[1, 2], [3, 4], [5, 6]] := by decide

/-! ### The code as it stood in /repo: witnesses -/

/-- W = 1, n = 1: command, result write, decrement — and the caller's load sees 0 and returns
    before the worker's notification send. -/
def lostSchedule : List Par.Label := [.cmd 0, .write 0, .dec 0, .load]

theorem par_stuck (f : Nat → Val) (r : List (Option Val)) (c : Int) (l : Par.Label) :
    Par.step 1 f { cmdI := 1, pc := .ret, ctr := c, ws := [.notify], res := r } l = none := by
  cases l with
  | cmd w => simp [Par.step]
  | write w => cases w <;> simp [Par.step]
  | dec w => cases w <;> simp [Par.step]
  | notify w => simp [Par.step]
  | load => simp [Par.step]

/-- pool.go before the repair, one worker, one task, ANY f: along `lostSchedule` Parallelize returns
    (with the right result) while the only worker sits in its notification send, and no step is
    enabled ever after: the worker is blocked for ever — it is lost. -/
theorem lost_worker_witness (f : Nat → Val) :
    ∃ s, run (Par.step 1 f) (Par.init [.idle] 1) lostSchedule = some s ∧
      s.pc = .ret ∧ s.res = [some (f 0)] ∧ s.ws = [.notify] ∧ ∀ l, Par.step 1 f s l = none :=
  ⟨{ cmdI := 1, pc := .ret, ctr := 0, ws := [.notify], res := [some (f 0)] }, rfl, rfl, rfl, rfl, par_stuck f _ _⟩

/-- the next call on that pool deadlocks at once (nobody will ever receive the command) -/
theorem lost_worker_then_deadlock (f : Nat → Val) (n : Nat) (l : Par.Label) :
    Par.step (n + 1) f (Par.init (Par.carry [.notify]) (n + 1)) l = none := by
  cases l with
  | cmd w => cases w <;> simp [Par.step, Par.init, Par.carry]
  | write w => cases w <;> simp [Par.step, Par.init, Par.carry]
  | dec w => cases w <;> simp [Par.step, Par.init, Par.carry]
  | notify w => cases w <;> simp [Par.step, Par.init, Par.carry]
  | load => simp [Par.step, Par.init]

/-- two workers, two tasks: both workers are lost in ONE call (the "8 × 8 instant tasks" pattern) -/
def lostSchedule2 : List Par.Label := [.cmd 0, .cmd 1, .write 0, .write 1, .dec 0, .dec 1, .load]

theorem lost_two_workers_witness (f : Nat → Val) :
    ∃ s, run (Par.step 2 f) (Par.init [.idle, .idle] 2) lostSchedule2 = some s ∧
      s.pc = .ret ∧ s.res = [some (f 0), some (f 1)] ∧ s.ws = [.notify, .notify] :=
  ⟨{ cmdI := 2, pc := .ret, ctr := 0, ws := [.notify, .notify], res := [some (f 0), some (f 1)] }, rfl, rfl, rfl, rfl⟩

/-- W = 1, n = 1: the worker decrements the counter BEFORE it writes the result; the caller's load
    sees 0 in between. -/
def searchNilSchedule (v : Val) : List Search.Label := [.cmd 0, .load 0, .eval 0 (some v), .dec 0, .cload]

/-- pool.go before the repair: Search(1, f) returns a slice whose only slot is still nil. -/
theorem search_nil_result_witness (v : Val) :
    ∃ s, run Search.step (Search.init [.idle] 1) (searchNilSchedule v) = some s ∧
      s.pc = .ret ∧ s.res = [none] ∧ s.ws = [.write 0 v] :=
  ⟨{ cmdI := 1, pc := .ret, ctr := 0, ws := [.write 0 v], res := [none] }, rfl, rfl, rfl, rfl⟩

/-- … and that worker then blocks for ever in its notification send as well. -/
theorem search_lost_worker_witness (v : Val) :
    ∃ s, run Search.step (Search.init [.idle] 1) (searchNilSchedule v ++ [.write 0]) = some s ∧
      s.pc = .ret ∧ s.ws = [.notify] ∧ ∀ l, Search.step s l = none := by
  refine ⟨{ cmdI := 1, pc := .ret, ctr := 0, ws := [.notify], res := [some v] }, rfl, rfl, rfl, ?_⟩
  intro l
  cases l with
  | cmd w => simp [Search.step]
  | load w => cases w <;> simp [Search.step]
  | eval w r => cases w <;> simp [Search.step]
  | dec w => cases w <;> simp [Search.step]
  | write w => cases w <;> simp [Search.step]
  | notify w => simp [Search.step]
  | cload => simp [Search.step]

/-- the repaired system rejects the losing schedule: the caller cannot return before the
    notification (the `ret` step is not enabled after command and write) -/
example (f : Nat → Val) : run (Fixed.Par.step 1 f) (Fixed.Par.init (idlePar 1) 1) [.cmd 0, .write 0, .ret] = none := rfl

/-! ### Generated-table obligations: the skeleton of pool.go that the model transcribes
    (REPAIRED code — what is in /repo after hooks/pool_fix.diff). Before the repair the tables were:
      worker       = ["0|range commands", "1|if c.search", "2|call workerSearch(c.results, c.ctrChanged, c.f, c.ctr)", "1|else",
                      "2|write c.results[c.i] = c.f(c.i)", "2|atomic atomic.AddInt64(c.ctr, -1)", "2|send c.ctrChanged <- struct{}{}"]
      workerSearch = ["0|for ; atomic.LoadInt64(ctr) > 0;", "1|call res := f(0)", "1|if res == nil", "2|continue",
                      "1|atomic i := atomic.AddInt64(ctr, -1)", "1|if i >= 0", "2|write results[i] = res", "1|send ctrChanged <- struct{}{}"]
      parallelize  = [… "0|init ctr := int64(count)", "0|make ctrChanged := make(chan struct{})", "0|init cmdI := 0", "0|for ; cmdI < count;", "1|select",
                      "2|case send p.commands <- cmd", "3|incr cmdI++", "2|case recv <-ctrChanged",
                      "0|for ; atomic.LoadInt64(&ctr) > 0;", "1|recv <-ctrChanged", "0|return results"]
      search       = the same with `cmdI < p.workerCount`
    (`Pool.Par` / `Pool.Search` transcribe those.) -/

set_option maxRecDepth 8192

/-- worker: receive a command, run it, then exactly ONE notification send per command
    (`Fixed.Par.W`: idle → got i → notify → idle; `Fixed.Search.W`: idle → load … → done → idle) -/
theorem gen_worker :
    MpsGen.Pool.worker =
      ["0|range commands", "1|if c.search", "2|call workerSearch(c.results, c.f, c.ctr)", "1|else",
       "2|write c.results[c.i] = c.f(c.i)", "1|send c.ctrChanged <- struct{}{}"] := by decide

/-- workerSearch: load, evaluate, (nil ⇒ continue), decrement, guarded write; no channel operation -/
theorem gen_workerSearch :
    MpsGen.Pool.workerSearch =
      ["0|for ; atomic.LoadInt64(ctr) > 0;", "1|call res := f(0)", "1|if res == nil", "2|continue",
       "1|atomic i := atomic.AddInt64(ctr, -1)", "1|if i >= 0", "2|write results[i] = res"] := by decide

/-- Parallelize: select loop (send command / receive notification, counting both), then receive
    until as many notifications as commands; unbuffered notification channel; no counter polling -/
theorem gen_parallelize :
    MpsGen.Pool.parallelize =
      ["0|if p == nil", "1|return parallelizeAlone(f, count)", "0|make results := make([]interface{}, count)",
       "0|make ctrChanged := make(chan struct{})", "0|init cmdI, done := 0, 0", "0|for ; cmdI < count;", "1|select",
       "2|case send p.commands <- cmd", "3|incr cmdI++", "2|case recv <-ctrChanged", "3|incr done++",
       "0|for ; done < count;", "1|recv <-ctrChanged", "1|incr done++", "0|return results"] := by decide

theorem gen_search :
    MpsGen.Pool.search =
      ["0|if p == nil", "1|return searchAlone(f, count)", "0|make results := make([]interface{}, count)",
       "0|init ctr := int64(count)", "0|make ctrChanged := make(chan struct{})", "0|init cmdI, done := 0, 0",
       "0|for ; cmdI < p.workerCount;", "1|select", "2|case send p.commands <- cmd", "3|incr cmdI++",
       "2|case recv <-ctrChanged", "3|incr done++", "0|for ; done < p.workerCount;", "1|recv <-ctrChanged",
       "1|incr done++", "0|return results"] := by decide

/-- the nil-pool loops, the unbuffered command channel and the worker start-up -/
theorem gen_alone_and_newPool :
    MpsGen.Pool.parallelizeAlone =
      ["0|make results := make([]interface{}, count)", "0|for i := 0; i < len(results); i++",
       "1|write results[i] = f(i)", "0|return results"] ∧
    MpsGen.Pool.searchAlone =
      ["0|make results := make([]interface{}, count)", "0|for i := 0; i < len(results); i++",
       "1|write results[i] = nil", "1|for ; results[i] == nil; results[i] = f()", "0|return results"] ∧
    MpsGen.Pool.newPool =
      ["0|if count <= 0", "0|make p.commands = make(chan command)", "0|for i := 0; i < count; i++",
       "1|go worker(p.commands)", "0|return &p"] ∧
    MpsGen.Pool.commandFields =
      ["search bool", "ctr *int64", "ctrChanged chan<- struct{}", "i int", "f func(int) interface{}",
       "results []interface{}"] ∧
    MpsGen.Pool.uses = ["pkg/math/sample/prime.go: pl.Search(2, …)"] := by decide

/-- the stream of a prime search is read through ONE pool.LockedReader: `Read` is lock / deferred unlock / one Read of the
    wrapped reader, and sample.Paillier makes the locked reader BEFORE the search, outside the closure the workers run
    (what `Readers.serve` models: the workers' reads are serialised) -/
theorem gen_locked_reader :
    MpsGen.Pool.lockedRead = ["r.m.Lock()", "defer r.m.Unlock()", "return r.reader.Read(p)"] ∧
    MpsGen.Pool.paillierSearch =
      ["if hp, hq, ok := paillierPrimeHook(); ok {", "return hp, hq", "}",
       "reader := pool.NewLockedReader(rand)",
       "results := pl.Search(2, func() interface{} { q := tryBlumPrime(reader) if q == nil { return nil } return q })",
       "p, q = results[0].(*saferith.Nat), results[1].(*saferith.Nat)", "return"] := by decide

/-- the yield points (hook H2) sit where the correspondence suite expects them (repaired code; or
    the code before the repair with hooks/pool_hooks.diff applied) — or are absent -/
theorem gen_yield_points :
    MpsGen.Pool.yieldPoints = [] ∨
    MpsGen.Pool.yieldPoints =
      ["worker.idle", "worker.gotCmd", "worker.beforeDec", "worker.beforeNotify", "worker.idle",
       "workerSearch.beforeLoad", "workerSearch.beforeEval", "workerSearch.beforeLoad", "workerSearch.beforeDec",
       "workerSearch.beforeWrite", "workerSearch.beforeNotify", "workerSearch.beforeLoad",
       "Parallelize.beforeSelect", "Parallelize.sent", "Parallelize.notified", "Parallelize.beforeLoad",
       "Parallelize.beforeRecv", "Parallelize.beforeLoad", "Parallelize.return",
       "Search.beforeSelect", "Search.sent", "Search.notified", "Search.beforeLoad", "Search.beforeRecv",
       "Search.beforeLoad", "Search.return"] ∨
    MpsGen.Pool.yieldPoints =
      ["worker.idle", "worker.gotCmd", "worker.beforeNotify", "worker.idle",
       "workerSearch.beforeLoad", "workerSearch.beforeEval", "workerSearch.beforeLoad", "workerSearch.beforeDec",
       "workerSearch.beforeWrite", "workerSearch.beforeLoad",
       "Parallelize.beforeSelect", "Parallelize.sent", "Parallelize.notified", "Parallelize.beforeRecv", "Parallelize.return",
       "Search.beforeSelect", "Search.sent", "Search.notified", "Search.beforeRecv", "Search.return"] := by decide

/-! ### Non-vacuity -/

/-- a complete run of the repaired Parallelize with two workers and three tasks (worker 0 is reused) -/
def demoPar : List Fixed.Par.Label :=
  [.cmd 0, .cmd 1, .write 1, .write 0, .notify 0, .cmd 0, .notify 1, .write 0, .notify 0, .ret]

example : (run (Fixed.Par.step 3 (· + 10)) (Fixed.Par.init (idlePar 2) 3) demoPar).map (·.ret) = some true := by decide
example : (run (Fixed.Par.step 3 (· + 10)) (Fixed.Par.init (idlePar 2) 3) demoPar).map (·.res) =
    some [some 10, some 11, some 12] := by decide
example : demoPar.length = 3 * 3 + 1 := rfl   -- the bound of `steps_bounded` is attained

/-- a complete run of the repaired Search (two workers, one result wanted; one nil answer, one over-find) -/
def demoSearch : List Fixed.Search.Label :=
  [.cmd 0, .load 0, .cmd 1, .load 1, .eval 0 none, .eval 1 (some 5), .load 0, .eval 0 (some 6), .dec 1, .dec 0,
   .write 0, .write 1, .load 0, .load 1, .notify 1, .notify 0, .ret]

example : (run Fixed.Search.step (Fixed.Search.init (idleSearch 2) 1) demoSearch).map (fun s => (s.ret, s.res, s.ctr)) =
    some (true, [some 5], -1) := by decide
example : Fixed.Search.answersOk (fun v => v = 5 ∨ v = 6) demoSearch := by simp [demoSearch, Fixed.Search.answersOk]
example : (run (Fixed.Par.step 0 id) (Fixed.Par.init (idlePar 1) 0) [.ret]).map (·.ret) = some true := by decide
/-- a non-returned reachable state (hypothesis of `no_deadlock`) -/
example : (run (Fixed.Par.step 1 id) (Fixed.Par.init (idlePar 1) 1) [.cmd 0]).map (·.ret) = some false := by decide
example : Available 2 2 := .fresh
example : searchAlone [none, some 3, none, some 4, some 5] 2 = some [some 3, some 4] := by decide

end Mps.C18
