import MpsProps.Anchors.C09
import MpsProofs.Session
import MpsProps.Src.SrcCmpKeygen
import MpsProps.Src.SrcCmpSign
import MpsProps.Src.SrcCmpPresign
import MpsProps.Src.SrcFrostKeygen
import MpsProps.Src.SrcFrostSign
import MpsProps.Src.SrcDoernerKeygen
import MpsProps.Src.SrcDoernerSign
import MpsProps.HandlerSrc
import MpsProofs.Handler
import MpsGen.Session
import MpsGen.Protocols
/-
  C09 — Sessions are isolated from one another.
-/
namespace Mps.C09
open Mps Mps.Handler

/-! ### 1. Different session parameters give different session tags -/

/-- the items hashed into the session tag determine session id (incl. absent vs present), protocol
    id, group, participant list, threshold and every auxiliary item (CMP config, presignature id,
    message …) -/
theorem sessionItems_injective (p q : SessionParams) (hp : p.WF) (hq : q.WF)
    (h : sessionItems p = sessionItems q) : p = q := Mps.sessionItems_injective p q hp hq h

/-- equal SSIDs: equal parameters, or an explicit collision of the hash function -/
theorem ssid_injective (H : Bytes → Bytes) (p q : SessionParams) (hp : p.WF) (hq : q.WF)
    (wp : ∀ i ∈ sessionItems p, i.WF) (wq : ∀ i ∈ sessionItems q, i.WF)
    (h : ssidWith H p = ssidWith H q) :
    p = q ∨ (∃ x y : Bytes, x ≠ y ∧ H x = H y) := by
  unfold ssidWith digestWith at h
  by_cases e : transcript (sessionItems p) = transcript (sessionItems q)
  · exact Or.inl (sessionItems_injective p q hp hq (Mps.transcript_injective _ _ wp wq e))
  · exact Or.inr ⟨_, _, e, h⟩

/-- the per-party Fiat–Shamir / commitment context separates parties of one session -/
theorem hashForID_separates (p : SessionParams) (a b : Bytes) (ha : a ≠ []) (hb : b ≠ [])
    (h : hashForIDItems p a = hashForIDItems p b) : a = b := Mps.hashForID_separates p a b ha hb h

/-! ### 2. The handler refuses foreign messages, and delivering them anyway changes nothing -/

theorem foreign_ssid_refused (s : State) (m : Msg) (h : m.ssid.getD [] ≠ s.sc.ssid) : canAccept s m = false := by
  simp [canAccept, h]

theorem foreign_protocol_refused (s : State) (m : Msg) (h : m.proto ≠ s.sc.proto) : canAccept s m = false := by
  simp [canAccept, h]

theorem wrong_recipient_refused (s : State) (m : Msg) (h1 : m.to ≠ []) (h2 : m.to ≠ s.sc.self) :
    canAccept s m = false := by
  simp [canAccept, isFor, h1, h2]

theorem own_message_refused (s : State) (m : Msg) (h : m.frm = s.sc.self) : canAccept s m = false := by
  simp [canAccept, isFor, h]

theorem unknown_sender_refused (s : State) (m : Msg) (h : m.frm ∉ s.sc.ids) :
    canAccept s m = false := by
  simp [canAccept, h]

theorem beyond_final_round_refused (s : State) (m : Msg) (h : m.rnd > s.sc.final) : canAccept s m = false := by
  simp [canAccept, h]

theorem stale_round_refused (s : State) (m : Msg) (h1 : 0 < m.rnd) (h2 : m.rnd < s.cur) : canAccept s m = false := by
  simp [canAccept, h1, h2]

/-- delivering a refused message anyway leaves the whole handler state unchanged -/
theorem refused_is_noop (H : Bytes → Bytes) (s : State) (m : Msg) (h : canAccept s m = false) : accept H s m = s := by
  simp [accept, h]

/-- Isolation, for all scripts and all call histories on both sides: a message emitted at any
    point of ANY run of a session is refused at any point of ANY run of a session with another tag
    or another protocol id, and delivering it there changes nothing. -/
theorem cross_session_noop (H : Bytes → Bytes) (sc₁ sc₂ : Script) (calls₁ calls₂ : List Call)
    (hdiff : sc₁.ssid ≠ sc₂.ssid ∨ sc₁.proto ≠ sc₂.proto) (m : Msg) (hm : m ∈ (run H sc₁ calls₁).out) :
    canAccept (run H sc₂ calls₂) m = false ∧ accept H (run H sc₂ calls₂) m = run H sc₂ calls₂ := by
  have hdr := run_outOk H sc₁ calls₁ m hm
  rw [run_sc] at hdr
  have hsc := run_sc H sc₂ calls₂
  have hc : canAccept (run H sc₂ calls₂) m = false := by
    rcases hdiff with h | h
    · apply foreign_ssid_refused
      rw [hsc, hdr.1]; exact h
    · apply foreign_protocol_refused
      rw [hsc, hdr.2.1]; exact h
  exact ⟨hc, refused_is_noop H _ m hc⟩

/-! ### 3. Obligations over the regenerated tables -/

set_option maxRecDepth 16384

/-- `round.NewSession` writes exactly the layout `sessionItems` models -/
theorem gen_session_layout : MpsGen.Session.newSessionWrites =
    [ "hash.New()",
      "if sessionID != nil: h.WriteAny(&hash.BytesWithDomain{ TheDomain: \"Session ID\", Bytes: sessionID, })",
      "h.WriteAny(&hash.BytesWithDomain{ TheDomain: \"Protocol ID\", Bytes: []byte(info.ProtocolID), })",
      "if info.Group != nil: h.WriteAny(&hash.BytesWithDomain{ TheDomain: \"Group Name\", Bytes: []byte(info.Group.Name()), })",
      "h.WriteAny(partyIDs)",
      "h.WriteAny(types.ThresholdWrapper(info.Threshold))",
      "h.WriteAny(a)",
      "h.Clone().Sum()" ] := by decide

theorem gen_hash_for_id : MpsGen.Session.hashForID = ["h.hash.Clone()", "if id != \"\": cloned.WriteAny(id)"] := by decide

/-- the refusal conditions of `CanAccept` that `canAccept` transcribes (both handlers) -/
theorem gen_can_accept :
    MpsGen.Session.canAcceptGuards =
      [ "msg == nil => false", "!msg.IsFor(r.SelfID()) => false", "msg.Protocol != r.ProtocolID() => false",
        "!bytes.Equal(msg.SSID, r.SSID()) => false", "!r.PartyIDs().Contains(msg.From) => false",
        "msg.Data == nil => false", "msg.RoundNumber > r.FinalRoundNumber() => false",
        "msg.RoundNumber < r.Number() && msg.RoundNumber > 0 => false" ] ∧
    MpsGen.Session.twoPartyCanAcceptGuards =
      [ "msg == nil => false", "!msg.IsFor(r.SelfID()) => false", "msg.Protocol != r.ProtocolID() => false",
        "!bytes.Equal(msg.SSID, r.SSID()) => false", "!r.PartyIDs().Contains(msg.From) => false",
        "msg.Data == nil => false", "msg.RoundNumber > r.FinalRoundNumber() => false" ] ∧
    MpsGen.Session.isFor = ["m.From == id => false", "false", "m.To == \"\" || m.To == id"] := by decide

/-- every protocol id handed to a session, per start function -/
theorem gen_protocol_ids : MpsGen.Protocols.protocolIDs =
    [ "protocols/cmp/cmp.go:Keygen|cmp/keygen-threshold",
      "protocols/cmp/cmp.go:Refresh|cmp/refresh-threshold",
      "protocols/cmp/presign/sign.go:StartPresignOnline|cmp/presign-online",
      "protocols/cmp/presign/sign.go:StartPresign|cmp/presign-full",
      "protocols/cmp/presign/sign.go:StartPresign|cmp/presign-offline",
      "protocols/cmp/sign/sign.go:StartSign|cmp/sign",
      "protocols/doerner/keygen/keygen.go:StartKeygen|doerner/keygen",
      "protocols/doerner/keygen/keygen.go:StartKeygen|doerner/refresh",
      "protocols/doerner/sign/sign.go:StartSignReceiver|doerner/sign",
      "protocols/doerner/sign/sign.go:StartSignSender|doerner/sign",
      "protocols/example/example.go:StartXOR|example/xor",
      "protocols/frost/keygen/keygen.go:StartKeygenCommon|frost/keygen-threshold",
      "protocols/frost/keygen/keygen.go:StartKeygenCommon|frost/keygen-threshold-taproot",
      "protocols/frost/sign/sign.go:StartSignCommon|frost/sign-threshold",
      "protocols/frost/sign/sign.go:StartSignCommon|frost/sign-threshold-taproot" ] := by decide

/-- … and no two different protocols share an id (the two roles of a two-party protocol do) -/
theorem gen_protocol_ids_nodup :
    (["cmp/keygen-threshold", "cmp/refresh-threshold", "cmp/presign-online", "cmp/presign-full", "cmp/presign-offline",
      "cmp/sign", "doerner/keygen", "doerner/refresh", "doerner/sign", "example/xor", "frost/keygen-threshold",
      "frost/keygen-threshold-taproot", "frost/sign-threshold", "frost/sign-threshold-taproot"] : List String).Nodup := by
  decide

/-- CMP refresh / sign / presign put the key material, the presignature id and the message into the tag -/
theorem gen_cmp_aux :
    MpsGen.Protocols.cmpSignSession = ["info", "sessionID", "pl", "config", "types.SigningMessage(message)"] ∧
    MpsGen.Protocols.cmpPresignSession = ["info", "sessionID", "pl", "c", "types.SigningMessage(message)"] ∧
    MpsGen.Protocols.cmpPresignOnlineSession =
      ["info", "sessionID", "pl", "c", "hash.BytesWithDomain{ TheDomain: \"PreSignatureID\", Bytes: preSignature.ID, }",
       "types.SigningMessage(message)"] ∧
    MpsGen.Protocols.cmpKeygenSession = ["info", "sessionID", "pl", "info", "sessionID", "pl", "c"] ∧
    MpsGen.Protocols.cmpConfigWrite =
      ["types.ThresholdWrapper(c.Threshold).WriteTo(w)", "c.PartyIDs()", "partyIDs.WriteTo(w)", "c.RID.WriteTo(w)",
       "c.Public[j].WriteTo(w)"] ∧
    MpsGen.Protocols.cmpPublicWrite =
      ["p.ECDSA.MarshalBinary()", "w.Write(data)", "p.ElGamal.MarshalBinary()", "w.Write(data)", "p.Paillier.WriteTo(w)",
       "p.Pedersen.WriteTo(w)"] := by decide

/-! ### Non-vacuity -/

def pA : SessionParams := { sid := some [1], proto := str "x", group := some (str "secp256k1"), ids := [str "ab", str "c"], thr := 1, aux := [] }
def pB : SessionParams := { pA with ids := [str "a", str "bc"] }
example : pA.WF := ⟨by decide, by intro i hi; simp [pA] at hi; rcases hi with rfl | rfl <;> decide, by decide⟩
/-- the two participant lists that shared one tag before the repair of `IDSlice.WriteTo` -/
example : sessionItems pA ≠ sessionItems pB := by decide

end Mps.C09
