import MpsProps.C08alg
import MpsProps.AlgGen
import Mathlib.Algebra.Field.ZMod
/-
  C14 (algebra layer) — derivation (`Derive` / BIP-32 tweak) of a sharing gives a sharing of the child key.
-/
set_option linter.unusedSectionVars false
namespace Mps.C14alg
open Mps.Alg Polynomial

variable {F G : Type} [Field F] [AddCommGroup G] [Module F G] (g : G) {ι : Type} [DecidableEq ι]

/-- **derive_is_sharing** (cmp `Config.Derive`, frost `Config.Derive`): every party adds the SAME
    tweak `a` to its Shamir share and `a·g` to every public table entry. For every reconstruction list S
    (non-empty, distinct non-zero nodes): the new shares interpolate to (old secret) + a — because the
    Lagrange coefficients sum to 1 —, the new table to (old key) + a·g, and share·g = table entry is kept. -/
theorem derive_is_sharing (S : List ι) (x : ι → F) (hN : Nodes S x) (hne : S ≠ []) (sh : ι → F) (pub : ι → G) (a : F) :
    reconstruct (lawful g : Ops F G) S x (fun i => deriveShare (lawful g : Ops F G) (sh i) a) =
        deriveShare (lawful g : Ops F G) (reconstruct (lawful g : Ops F G) S x sh) a ∧
    reconstructG (lawful g : Ops F G) S x (fun i => derivePublic (lawful g : Ops F G) (pub i) a) =
        derivePublic (lawful g : Ops F G) (reconstructG (lawful g : Ops F G) S x pub) a ∧
    (∀ i, actBase (lawful g : Ops F G) (sh i) = pub i →
      actBase (lawful g : Ops F G) (deriveShare (lawful g : Ops F G) (sh i) a) =
        derivePublic (lawful g : Ops F G) (pub i) a) := by
  simp only [deriveShare, derivePublic, lawful_add, lawful_gadd, actBase_lawful]
  refine ⟨?_, ?_, ?_⟩
  · rw [reconstruct_add g hN.nodup, reconstruct_const g hN hne]
  · rw [reconstructG_add g hN.nodup, reconstructG_const g hN hne]
  · intro i h; rw [add_smul, h]

/-- **derive_compose**: a derivation path of ANY length is one derivation by the sum of its tweaks
    (induction over the tweak list) — so the result is a sharing of sk + Σ path, with key + (Σ path)·g. -/
theorem derive_compose (S : List ι) (x : ι → F) (hN : Nodes S x) (hne : S ≠ []) (sh : ι → F) (pub : ι → G)
    (path : List F) :
    reconstruct (lawful g : Ops F G) S x (fun i => deriveSharePath (lawful g : Ops F G) (sh i) path) =
        reconstruct (lawful g : Ops F G) S x sh + path.sum ∧
    reconstructG (lawful g : Ops F G) S x (fun i => derivePublicPath (lawful g : Ops F G) (pub i) path) =
        reconstructG (lawful g : Ops F G) S x pub + path.sum • g ∧
    (∀ i, actBase (lawful g : Ops F G) (sh i) = pub i →
      actBase (lawful g : Ops F G) (deriveSharePath (lawful g : Ops F G) (sh i) path) =
        derivePublicPath (lawful g : Ops F G) (pub i) path) := by
  simp only [deriveSharePath_lawful, derivePublicPath_lawful, actBase_lawful]
  refine ⟨?_, ?_, ?_⟩
  · rw [reconstruct_add g hN.nodup, reconstruct_const g hN hne]
  · rw [reconstructG_add g hN.nodup, reconstructG_const g hN hne]
  · intro i h; rw [add_smul, h]

theorem derive_path_append (s : F) (P : G) (p q : List F) :
    deriveSharePath (lawful g : Ops F G) s (p ++ q) =
        deriveSharePath (lawful g : Ops F G) (deriveSharePath (lawful g : Ops F G) s p) q ∧
    derivePublicPath (lawful g : Ops F G) P (p ++ q) =
        derivePublicPath (lawful g : Ops F G) (derivePublicPath (lawful g : Ops F G) P p) q := by
  unfold deriveSharePath derivePublicPath
  exact ⟨List.foldl_append .., List.foldl_append ..⟩

/-- **derive_commutes_refresh**: deriving then refreshing = refreshing then deriving, for every party's
    share and every table entry (the tweak does not depend on the epoch: the group key, hence the
    BIP-32 input, is unchanged by a refresh — `C08alg.refresh_preserves_group_key`). -/
theorem derive_commutes_refresh (x : ι → F) (sh : ι → F) (op : RefreshOp ι F) (a : F) (i : ι)
    (P D : G) :
    applyRefresh g x (fun k => deriveShare (lawful g : Ops F G) (sh k) a) op i =
        deriveShare (lawful g : Ops F G) (applyRefresh g x sh op i) a ∧
    derivePublic (lawful g : Ops F G) P a + D = derivePublic (lawful g : Ops F G) (P + D) a := by
  constructor
  · rw [applyRefresh_eq, applyRefresh_eq]
    simp only [deriveShare, lawful_add]; ring
  · simp only [derivePublic, lawful_gadd, actBase_lawful]; abel

/-! ### the additive 2-party sharing (Doerner) -/

/-- What an additive sharing needs: exactly ONE party adds the tweak. -/
theorem doerner_derive_one_adds_ok (skR skS a : F) (X : G) (h : (skR + skS) • g = X) :
    (deriveShare (lawful g : Ops F G) skR a + skS) • g = derivePublic (lawful g : Ops F G) X a := by
  simp only [deriveShare, derivePublic, lawful_add, lawful_gadd, actBase_lawful]
  rw [← h, ← add_smul]; congr 1; ring

/-- **doerner_derive_is_sharing** (the code since 4df2a70: `ConfigReceiver.Derive` adds the tweak,
    `ConfigSender.Derive` keeps its share, both add a·g to the public key and store the new chain key).
    For ANY two halves of one key (shares skR, skS with (skR+skS)·g = X held by both), any tweak a and any
    chain key ck: both derived configs hold the SAME public key X + a·g — the child key —, the derived
    shares sum to sk + a and open that key, and both carry exactly the chain key ck. -/
theorem doerner_derive_is_sharing (cR cS : DoernerCfg F G) (a : F) (ck : List UInt8)
    (hpub : cR.pub = cS.pub) (h : (cR.secretShare + cS.secretShare) • g = cR.pub) :
    let dR := doernerDeriveReceiver (lawful g : Ops F G) cR a ck
    let dS := doernerDeriveSender (lawful g : Ops F G) cS a ck
    dR.pub = derivePublic (lawful g : Ops F G) cR.pub a ∧ dS.pub = dR.pub ∧
    dR.secretShare + dS.secretShare = cR.secretShare + cS.secretShare + a ∧
    (dR.secretShare + dS.secretShare) • g = dR.pub ∧
    dR.chainKey = some ck ∧ dS.chainKey = some ck := by
  intro dR dS
  refine ⟨rfl, ?_, ?_, ?_, rfl, rfl⟩
  · show cS.pub + a • g = cR.pub + a • g
    rw [hpub]
  · show cR.secretShare + a + cS.secretShare = _
    ring
  · show (cR.secretShare + a + cS.secretShare) • g = cR.pub + a • g
    rw [← h, ← add_smul]; congr 1; ring

/-- **doerner_derive_compose**: derivation paths of ANY length (induction over the list of steps, each a
    tweak with the chain key of that step): the two halves stay one consistent additive sharing, of
    sk + Σ tweaks under X + (Σ tweaks)·g, and both carry the chain key of the LAST step (the original one
    for the empty path). -/
theorem doerner_derive_compose (cR cS : DoernerCfg F G) (path : List (F × List UInt8))
    (hpub : cR.pub = cS.pub) (h : (cR.secretShare + cS.secretShare) • g = cR.pub) (hck : cR.chainKey = cS.chainKey) :
    let d := doernerDerivePath (lawful g : Ops F G) cR cS path
    d.1.pub = cR.pub + (path.map Prod.fst).sum • g ∧ d.2.pub = d.1.pub ∧
    d.1.secretShare + d.2.secretShare = cR.secretShare + cS.secretShare + (path.map Prod.fst).sum ∧
    (d.1.secretShare + d.2.secretShare) • g = d.1.pub ∧
    d.1.chainKey = d.2.chainKey ∧
    d.1.chainKey = (match path.getLast? with | some step => some step.2 | none => cR.chainKey) := by
  induction path generalizing cR cS with
  | nil => simp [doernerDerivePath, hpub, h, hck]
  | cons step rest ih =>
    obtain ⟨h1, h2, h3, h4, h5, h6⟩ := doerner_derive_is_sharing g cR cS step.1 step.2 hpub h
    have := ih (doernerDeriveReceiver (lawful g : Ops F G) cR step.1 step.2)
      (doernerDeriveSender (lawful g : Ops F G) cS step.1 step.2) h2.symm h4 (h5.trans h6.symm)
    simp only [doernerDerivePath, List.foldl_cons] at this ⊢
    obtain ⟨i1, i2, i3, i4, i5, i6⟩ := this
    refine ⟨?_, i2, ?_, i4, i5, ?_⟩
    · rw [i1, h1]
      simp only [derivePublic, lawful_gadd, actBase_lawful, List.map_cons, List.sum_cons, add_smul, add_assoc]
    · rw [i3, h3]; simp only [List.map_cons, List.sum_cons]; ring
    · rw [i6]
      cases rest with
      | nil => simp [h5]
      | cons r rs =>
        rw [List.getLast?_cons_cons]
        cases hl : (r :: rs).getLast? with
        | none => simp at hl
        | some x => rfl

/-! #### the behaviour before commit 4df2a70 (`doernerDeriveOld`), kept as witness of the defect -/

/-- What `ConfigReceiver.Derive` and `ConfigSender.Derive` computed before the fix: BOTH added the tweak,
    the public key got ONE tweak. The derived pair was consistent (sum of shares · g = public key) IFF
    a·g = 0 — in a prime-order group: iff the tweak is 0. -/
theorem doerner_derive_old_consistent_iff (cR cS : DoernerCfg F G) (a : F) (ckR ckS : List UInt8)
    (hpub : cR.pub = cS.pub) (h : (cR.secretShare + cS.secretShare) • g = cR.pub) :
    let dR := doernerDeriveOld (lawful g : Ops F G) cR a ckR
    let dS := doernerDeriveOld (lawful g : Ops F G) cS a ckS
    (dR.pub = dS.pub) ∧ ((dR.secretShare + dS.secretShare) • g = dR.pub ↔ a • g = 0) := by
  simp only [doernerDeriveOld, lawful_add, lawful_gadd, actBase_lawful]
  refine ⟨by rw [hpub], ?_⟩
  have e : (cR.secretShare + a + (cS.secretShare + a)) • g = cR.pub + a • g + a • g := by
    rw [← h, ← add_smul, ← add_smul]; congr 1; ring
  rw [e]
  constructor
  · intro h'; exact add_eq_left.mp h'
  · intro h'; rw [h', add_zero]

theorem doerner_derive_old_wrong_of_ne (cR cS : DoernerCfg F G) (a : F) (ckR ckS : List UInt8)
    (hg : g ≠ 0) (ha : a ≠ 0) (hpub : cR.pub = cS.pub) (h : (cR.secretShare + cS.secretShare) • g = cR.pub) :
    ((doernerDeriveOld (lawful g : Ops F G) cR a ckR).secretShare +
      (doernerDeriveOld (lawful g : Ops F G) cS a ckS).secretShare) • g ≠ (doernerDeriveOld (lawful g : Ops F G) cR a ckR).pub := by
  intro e
  have := ((doerner_derive_old_consistent_iff g cR cS a ckR ckS hpub h).2).mp e
  rcases smul_eq_zero_field this with h0 | h0
  · exact ha h0
  · exact hg h0

/-- the configs derived by the old code carried NO chain key (the struct literal omitted `ChainKey`) -/
theorem doerner_derive_old_drops_chain_key (c : DoernerCfg F G) (a : F) (ck : List UInt8) :
    (doernerDeriveOld (lawful g : Ops F G) c a ck).chainKey = none := rfl

instance : Fact (Nat.Prime 5) := ⟨by decide⟩

/-- **doerner_derive_both_add_wrong** — concrete witness in the field with 5 elements (G = F, g = 1) for the
    OLD code: shares 1 and 2 (key 3), tweak 1. `doernerDeriveOld` gives shares 2 and 3 — a sharing of 0 — and
    the public key 4: the derived shares do not match the derived public key, while the prescribed child key
    IS 4 = 3 + 1. The code as it stands (`doernerDeriveReceiver`/`Sender`) gives shares 2 and 2: a sharing of 4. -/
theorem doerner_derive_both_add_wrong :
    let O : Ops (ZMod 5) (ZMod 5) := lawful (1 : ZMod 5)
    let cR : DoernerCfg (ZMod 5) (ZMod 5) := ⟨1, 3, some []⟩
    let cS : DoernerCfg (ZMod 5) (ZMod 5) := ⟨2, 3, some []⟩
    actBase O (O.add cR.secretShare cS.secretShare) = cR.pub ∧
    actBase O (O.add (doernerDeriveOld O cR 1 []).secretShare (doernerDeriveOld O cS 1 []).secretShare) = 0 ∧
    (doernerDeriveOld O cR 1 []).pub = 4 ∧
    actBase O (O.add (doernerDeriveOld O cR 1 []).secretShare (doernerDeriveOld O cS 1 []).secretShare)
      ≠ (doernerDeriveOld O cR 1 []).pub ∧
    actBase O (O.add (doernerDeriveReceiver O cR 1 []).secretShare (doernerDeriveSender O cS 1 []).secretShare)
      = (doernerDeriveReceiver O cR 1 []).pub := by
  decide

/-! ### chain keys -/

/-- **chainkey_xor_agree**: the chain key `EmptyRID() ⊕ c₁ ⊕ … ⊕ cₙ` does not depend on the order in which a
    party folds in the (decommitted, echo-protected) contributions: every party holding the same multiset of
    contributions computes the same chain key — the value the FROST keygen result now carries. -/
theorem chainkey_xor_agree (cs ds : List Bytes) (h : cs.Perm ds) :
    chainKeyOf cs = chainKeyOf ds ∧ frostResultChainKey cs = frostResultChainKey ds ∧
      frostResultChainKey cs = some (chainKeyOf cs) := by
  have hk := chainKeyOf_perm cs ds h
  exact ⟨hk, by unfold frostResultChainKey; rw [hk], rfl⟩

/-- the result of a chain-key XOR over 32-byte contributions is 32 bytes long (what `Derive` insists on) -/
theorem chainkey_length (cs : List Bytes) (h : ∀ c ∈ cs, c.length = 32) : (chainKeyOf cs).length = 32 :=
  chainKeyOf_length cs h

/-- before eba3819 the FROST keygen result carried no chain key, whatever was contributed -/
theorem frost_chainkey_old_dropped (cs : List Bytes) : frostResultChainKeyOld cs = none := rfl

/-- the chain-key rule of every `Derive`: an explicit 32-byte chain key is taken as is; with none given the
    old one is kept (and must be 32 bytes long) -/
theorem derive_chain_rule (old : Option Bytes) (new : Bytes) (hnew : new.length = 32) :
    deriveChainRule old (some new) = some new ∧
    (∀ o : Bytes, o.length = 32 → deriveChainRule (some o) none = some o ∧ deriveChainRule (some o) (some []) = some o) ∧
    deriveChainRule none none = none := by
  refine ⟨?_, ?_, ?_⟩
  · simp [deriveChainRule, hnew]
  · intro o ho; simp [deriveChainRule, ho]
  · simp [deriveChainRule]

/-! ### non-vacuity -/
example : Nodes (F := ℚ) [0, 1, 2] (fun i : ℕ => (i : ℚ) + 1) ∧ ([0, 1, 2] : List ℕ) ≠ [] := by
  refine ⟨⟨by decide, ?_, ?_⟩, by decide⟩
  · intro i hi j hj e; simpa using e
  · intro i _; positivity

end Mps.C14alg
