import MpsProps.C08alg
import MpsProps.AlgGen
import Mathlib.Algebra.Field.ZMod
/-
  C14 (algebra layer) — derivation (`Derive` / BIP-32 tweak) of a sharing gives a sharing of the child key.
-/
set_option linter.unusedSectionVars false
namespace Mps.C14alg
open Mps.Alg Polynomial

variable {F G : Type} [Field F] [AddCommGroup G] [Module F G] (g : G) {ι : Type} [DecidableEq ι]

/-- **derive_is_sharing** (cmp `Config.Derive`, frost `Config.Derive`): every party adds the SAME
    tweak `a` to its Shamir share and `a·g` to every public table entry. For every reconstruction list S
    (non-empty, distinct non-zero nodes): the new shares interpolate to (old secret) + a — because the
    Lagrange coefficients sum to 1 —, the new table to (old key) + a·g, and share·g = table entry is kept. -/
theorem derive_is_sharing (S : List ι) (x : ι → F) (hN : Nodes S x) (hne : S ≠ []) (sh : ι → F) (pub : ι → G) (a : F) :
    reconstruct (lawful g : Ops F G) S x (fun i => deriveShare (lawful g : Ops F G) (sh i) a) =
        deriveShare (lawful g : Ops F G) (reconstruct (lawful g : Ops F G) S x sh) a ∧
    reconstructG (lawful g : Ops F G) S x (fun i => derivePublic (lawful g : Ops F G) (pub i) a) =
        derivePublic (lawful g : Ops F G) (reconstructG (lawful g : Ops F G) S x pub) a ∧
    (∀ i, actBase (lawful g : Ops F G) (sh i) = pub i →
      actBase (lawful g : Ops F G) (deriveShare (lawful g : Ops F G) (sh i) a) =
        derivePublic (lawful g : Ops F G) (pub i) a) := by
  simp only [deriveShare, derivePublic, lawful_add, lawful_gadd, actBase_lawful]
  refine ⟨?_, ?_, ?_⟩
  · rw [reconstruct_add g hN.nodup, reconstruct_const g hN hne]
  · rw [reconstructG_add g hN.nodup, reconstructG_const g hN hne]
  · intro i h; rw [add_smul, h]

/-- **derive_compose**: a derivation path of ANY length is one derivation by the sum of its tweaks
    (induction over the tweak list) — so the result is a sharing of sk + Σ path, with key + (Σ path)·g. -/
theorem derive_compose (S : List ι) (x : ι → F) (hN : Nodes S x) (hne : S ≠ []) (sh : ι → F) (pub : ι → G)
    (path : List F) :
    reconstruct (lawful g : Ops F G) S x (fun i => deriveSharePath (lawful g : Ops F G) (sh i) path) =
        reconstruct (lawful g : Ops F G) S x sh + path.sum ∧
    reconstructG (lawful g : Ops F G) S x (fun i => derivePublicPath (lawful g : Ops F G) (pub i) path) =
        reconstructG (lawful g : Ops F G) S x pub + path.sum • g ∧
    (∀ i, actBase (lawful g : Ops F G) (sh i) = pub i →
      actBase (lawful g : Ops F G) (deriveSharePath (lawful g : Ops F G) (sh i) path) =
        derivePublicPath (lawful g : Ops F G) (pub i) path) := by
  simp only [deriveSharePath_lawful, derivePublicPath_lawful, actBase_lawful]
  refine ⟨?_, ?_, ?_⟩
  · rw [reconstruct_add g hN.nodup, reconstruct_const g hN hne]
  · rw [reconstructG_add g hN.nodup, reconstructG_const g hN hne]
  · intro i h; rw [add_smul, h]

theorem derive_path_append (s : F) (P : G) (p q : List F) :
    deriveSharePath (lawful g : Ops F G) s (p ++ q) =
        deriveSharePath (lawful g : Ops F G) (deriveSharePath (lawful g : Ops F G) s p) q ∧
    derivePublicPath (lawful g : Ops F G) P (p ++ q) =
        derivePublicPath (lawful g : Ops F G) (derivePublicPath (lawful g : Ops F G) P p) q := by
  unfold deriveSharePath derivePublicPath
  exact ⟨List.foldl_append .., List.foldl_append ..⟩

/-- **derive_commutes_refresh**: deriving then refreshing = refreshing then deriving, for every party's
    share and every table entry (the tweak does not depend on the epoch: the group key, hence the
    BIP-32 input, is unchanged by a refresh — `C08alg.refresh_preserves_group_key`). -/
theorem derive_commutes_refresh (x : ι → F) (sh : ι → F) (op : RefreshOp ι F) (a : F) (i : ι)
    (P D : G) :
    applyRefresh g x (fun k => deriveShare (lawful g : Ops F G) (sh k) a) op i =
        deriveShare (lawful g : Ops F G) (applyRefresh g x sh op i) a ∧
    derivePublic (lawful g : Ops F G) P a + D = derivePublic (lawful g : Ops F G) (P + D) a := by
  constructor
  · rw [applyRefresh_eq, applyRefresh_eq]
    simp only [deriveShare, lawful_add]; ring
  · simp only [derivePublic, lawful_gadd, actBase_lawful]; abel

/-! ### the additive 2-party sharing (Doerner) -/

/-- What an additive sharing needs: exactly ONE party adds the tweak. -/
theorem doerner_derive_one_adds_ok (skR skS a : F) (X : G) (h : (skR + skS) • g = X) :
    (deriveShare (lawful g : Ops F G) skR a + skS) • g = derivePublic (lawful g : Ops F G) X a := by
  simp only [deriveShare, derivePublic, lawful_add, lawful_gadd, actBase_lawful]
  rw [← h, ← add_smul]; congr 1; ring

/-- What `ConfigReceiver.Derive` and `ConfigSender.Derive` (doerner/keygen/keygen.go) compute: BOTH add
    the tweak, the public key gets ONE tweak. The derived pair of configs is consistent
    (sum of shares · g = public key) IFF a·g = 0 — in a prime-order group: iff the tweak is 0. -/
theorem doerner_derive_consistent_iff (cR cS : DoernerCfg F G) (a : F) (ckR ckS : List UInt8)
    (hpub : cR.pub = cS.pub) (h : (cR.secretShare + cS.secretShare) • g = cR.pub) :
    let dR := doernerDerive (lawful g : Ops F G) cR a ckR
    let dS := doernerDerive (lawful g : Ops F G) cS a ckS
    (dR.pub = dS.pub) ∧ ((dR.secretShare + dS.secretShare) • g = dR.pub ↔ a • g = 0) := by
  simp only [doernerDerive, lawful_add, lawful_gadd, actBase_lawful]
  refine ⟨by rw [hpub], ?_⟩
  have e : (cR.secretShare + a + (cS.secretShare + a)) • g = cR.pub + a • g + a • g := by
    rw [← h, ← add_smul, ← add_smul]; congr 1; ring
  rw [e]
  constructor
  · intro h'; exact add_eq_left.mp h'
  · intro h'; rw [h', add_zero]

theorem doerner_derive_wrong_of_ne (cR cS : DoernerCfg F G) (a : F) (ckR ckS : List UInt8)
    (hg : g ≠ 0) (ha : a ≠ 0) (hpub : cR.pub = cS.pub) (h : (cR.secretShare + cS.secretShare) • g = cR.pub) :
    ((doernerDerive (lawful g : Ops F G) cR a ckR).secretShare +
      (doernerDerive (lawful g : Ops F G) cS a ckS).secretShare) • g ≠ (doernerDerive (lawful g : Ops F G) cR a ckR).pub := by
  intro e
  have := ((doerner_derive_consistent_iff g cR cS a ckR ckS hpub h).2).mp e
  rcases smul_eq_zero_field this with h0 | h0
  · exact ha h0
  · exact hg h0

/-- the derived configs carry NO chain key (the struct literal omits `ChainKey`), whatever was passed -/
theorem doerner_derive_drops_chain_key (c : DoernerCfg F G) (a : F) (ck : List UInt8) :
    (doernerDerive (lawful g : Ops F G) c a ck).chainKey = none := rfl

instance : Fact (Nat.Prime 5) := ⟨by decide⟩

/-- **doerner_derive_both_add_wrong** — concrete witness in the field with 5 elements (G = F, g = 1):
    shares 1 and 2 (key 3), tweak 1. The code's `Derive` gives shares 2 and 3 — a sharing of 0 — and the
    public key 4: the derived shares no longer match the derived public key, while the prescribed
    child key IS 4 = 3 + 1. -/
theorem doerner_derive_both_add_wrong :
    let O : Ops (ZMod 5) (ZMod 5) := lawful (1 : ZMod 5)
    let cR : DoernerCfg (ZMod 5) (ZMod 5) := ⟨1, 3, some []⟩
    let cS : DoernerCfg (ZMod 5) (ZMod 5) := ⟨2, 3, some []⟩
    actBase O (O.add cR.secretShare cS.secretShare) = cR.pub ∧
    actBase O (O.add (doernerDerive O cR 1 []).secretShare (doernerDerive O cS 1 []).secretShare) = 0 ∧
    (doernerDerive O cR 1 []).pub = 4 ∧
    actBase O (O.add (doernerDerive O cR 1 []).secretShare (doernerDerive O cS 1 []).secretShare)
      ≠ (doernerDerive O cR 1 []).pub := by
  decide

/-! ### non-vacuity -/
example : Nodes (F := ℚ) [0, 1, 2] (fun i : ℕ => (i : ℚ) + 1) ∧ ([0, 1, 2] : List ℕ) ≠ [] := by
  refine ⟨⟨by decide, ?_, ?_⟩, by decide⟩
  · intro i hi j hj e; simpa using e
  · intro i _; positivity

end Mps.C14alg
