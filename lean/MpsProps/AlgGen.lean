import MpsGen.Alg
/-
  Obligations over the fact tables the translator regenerates from the CURRENT source (MpsGen/Alg.lean):
  the statements of the Go functions that lean/Mps/Algebra.lean transcribes. A changed formula, loop,
  guard or struct literal breaks the corresponding `gen_*` equality (kernel-checked by `decide`).
  The property each obligation belongs to is named in its doc comment.
-/
set_option maxRecDepth 65536
namespace Mps.AlgGen

/-- [C14] ties Alg.bip32DeriveScalar -/
theorem gen_bip32Derive : MpsGen.Alg.bip32Derive =
    [ "if i>>31 != 0 {",
      "panic(\"DeriveScalar doesn't work with hardened keys.\")",
      "}",
      "h := hmac.New(sha512.New, chaining)",
      "compressed, _ := public.MarshalBinary()",
      "_, _ = h.Write(compressed)",
      "iBytes := make([]byte, 4)",
      "binary.BigEndian.PutUint32(iBytes, i)",
      "h.Write(iBytes)",
      "out := h.Sum(nil)",
      "scalar := new(curve.Secp256k1Scalar)",
      "err := scalar.UnmarshalBinary(out[:32])",
      "if err != nil || scalar.IsZero() {",
      "return nil, nil, fmt.Errorf(\"bad index: %d\", i)",
      "}",
      "return scalar, out[32:], nil" ] := by decide

/-- [C14] ties Alg.deriveShare, derivePublic; chain-key rule of Drv.Alg.deriveChain -/
theorem gen_cmpDerive : MpsGen.Alg.cmpDerive =
    [ "len(newChainKey) != params.SecBytes => nil, fmt.Errorf(\"expecte %d bytes for chain key, found %d\", params.SecBytes, len(newChainKey))",
      "newChainKey = c.ChainKey",
      "adjustG := adjust.ActOnBase()",
      "Public{ ECDSA: v.ECDSA.Add(adjustG), ElGamal: v.ElGamal, Paillier: v.Paillier, Pedersen: v.Pedersen, }",
      "Config{ Group: c.Group, ID: c.ID, Threshold: c.Threshold, ECDSA: c.Group.NewScalar().Set(c.ECDSA).Add(adjust), ElGamal: c.ElGamal, Paillier: c.Paillier, RID: c.RID, ChainKey: newChainKey, Public: public, }" ] := by decide

/-- [C14] ties DeriveBIP32 = DeriveScalar(PublicPoint(), ChainKey, i) then Derive -/
theorem gen_cmpDeriveBIP32 : MpsGen.Alg.cmpDeriveBIP32 =
    [ "c.PublicPoint()",
      "bip32.DeriveScalar(publicPoint, c.ChainKey, i)",
      "c.Derive(scalar, newChainKey)" ] := by decide

/-- [C02] ties Alg.cmpPolyChecks: constant rule and degree rule (entries 6 and 7) -/
theorem gen_cmpKeygenChecks : MpsGen.Alg.cmpKeygenChecks =
    [ "!ok || body == nil => round.ErrInvalidContent",
      "body.N == nil || body.S == nil || body.T == nil || body.VSSPolynomial == nil || body.SchnorrCommitments == nil => round.ErrNilFields",
      "err := body.RID.Validate(); err != nil => fmt.Errorf(\"rid: %w\", err)",
      "err := body.C.Validate(); err != nil => fmt.Errorf(\"chainkey: %w\", err)",
      "err := body.Decommitment.Validate(); err != nil => err",
      "!(r.VSSSecret.Constant().IsZero() == VSSPolynomial.IsConstant) => errors.New(\"vss polynomial has incorrect constant\")",
      "VSSPolynomial.Degree() != r.Threshold() => errors.New(\"vss polynomial has incorrect degree\")",
      "err := paillier.ValidateN(body.N); err != nil => err",
      "err := pedersen.ValidateParameters(body.N, body.S, body.T); err != nil => err",
      "!r.HashForID(from).Decommit(r.Commitments[from], body.Decommitment, body.RID, body.C, VSSPolynomial, body.SchnorrCommitments, body.ElGamalPublic, body.N, body.S, body.T) => errors.New(\"failed to decommit\")" ] := by decide

/-- [C02] ties Alg.finalShare, Alg.finalPublicCmp -/
theorem gen_cmpKeygenFinal : MpsGen.Alg.cmpKeygenFinal =
    [ "UpdatedSecretECDSA := r.Group().NewScalar()",
      "if r.PreviousSecretECDSA != nil {",
      "UpdatedSecretECDSA.Set(r.PreviousSecretECDSA)",
      "range _, j := r.PartyIDs() {",
      "UpdatedSecretECDSA.Add(r.ShareReceived[j])",
      "ShamirPublicPolynomial, err := polynomial.Sum(ShamirPublicPolynomials)",
      "range _, j := r.PartyIDs() {",
      "PublicECDSAShare := ShamirPublicPolynomial.Evaluate(j.Scalar(r.Group()))",
      "if r.PreviousPublicSharesECDSA != nil {",
      "PublicECDSAShare = PublicECDSAShare.Add(r.PreviousPublicSharesECDSA[j])" ] := by decide

/-- [C02] ties Alg.feldmanCheck -/
theorem gen_cmpKeygenVss : MpsGen.Alg.cmpKeygenVss =
    [ "DecryptedShare, err := r.PaillierSecret.Dec(body.Share)",
      "Share := r.Group().NewScalar().SetNat(DecryptedShare.Mod(r.Group().Order()))",
      "if DecryptedShare.Eq(curve.MakeInt(Share)) != 1 {",
      "ExpectedPublicShare := r.VSSPolynomials[from].Evaluate(r.SelfID().Scalar(r.Group()))",
      "PublicShare := Share.ActOnBase()",
      "if !PublicShare.Equal(ExpectedPublicShare) {",
      "r.ShareReceived[from] = Share" ] := by decide

/-- [C01] ties Alg.cmpMtaShare in presign3 -/
theorem gen_cmpPresign3 : MpsGen.Alg.cmpPresign3 =
    [ "DeltaShare := new(saferith.Int).Mul(r.GammaShare, KShareInt, -1)",
      "ChiShare := new(saferith.Int).Mul(curve.MakeInt(r.SecretECDSA), KShareInt, -1)",
      "DeltaShare.Add(DeltaShare, DeltaSharesAlpha[j], -1)",
      "DeltaShare.Add(DeltaShare, r.DeltaShareBeta[j], -1)",
      "ChiShare.Add(ChiShare, ChiSharesAlpha[j], -1)",
      "ChiShare.Add(ChiShare, r.ChiShareBeta[j], -1)",
      "DeltaShareScalar := r.Group().NewScalar().SetNat(DeltaShare.Mod(r.Group().Order()))" ] := by decide

/-- [C01] ties Alg.cmpR, presignS, presignRBar, cmpDeltaCheck -/
theorem gen_cmpPresign6 : MpsGen.Alg.cmpPresign6 =
    [ "Delta.Add(DeltaJ)",
      "DeltaInv := r.Group().NewScalar().Set(Delta).Invert()",
      "R := DeltaInv.Act(r.Gamma)",
      "BigDeltaExpected := Delta.ActOnBase()",
      "BigDeltaActual = BigDeltaActual.Add(BigDeltaJ)",
      "S := r.ChiShare.Act(R)",
      "RBar[j] = DeltaInv.Act(BigDeltaJ)" ] := by decide

/-- [C01] ties Alg.presignKeyCheck -/
theorem gen_cmpPresign7 : MpsGen.Alg.cmpPresign7 =
    [ "PublicKeyComputed := r.Group().NewPoint()",
      "PublicKeyComputed = PublicKeyComputed.Add(Sj)",
      "if !r.PublicKey.Equal(PublicKeyComputed) {" ] := by decide

/-- [C02] ties Alg.cmpPublicPoint -/
theorem gen_cmpPublicPoint : MpsGen.Alg.cmpPublicPoint =
    [ "sum := c.Group.NewPoint()",
      "partyIDs := make([]party.ID, 0, len(c.Public))",
      "range j := c.Public {",
      "partyIDs = append(partyIDs, j)",
      "}",
      "l := polynomial.Lagrange(c.Group, partyIDs)",
      "range j, partyJ := c.Public {",
      "sum = sum.Add(l[j].Act(partyJ.ECDSA))",
      "}",
      "return sum" ] := by decide

/-- [C01] ties Alg.cmpGamma, cmpBigDeltaShare, cmpMtaShare (δ and χ) -/
theorem gen_cmpSignRound3 : MpsGen.Alg.cmpSignRound3 =
    [ "Gamma = Gamma.Add(BigGammaShare)",
      "BigDeltaShare := r.KShare.Act(Gamma)",
      "DeltaShare := new(saferith.Int).Mul(r.GammaShare, KShareInt, -1)",
      "ChiShare := new(saferith.Int).Mul(curve.MakeInt(r.SecretECDSA), KShareInt, -1)",
      "DeltaShare.Add(DeltaShare, r.DeltaShareAlpha[j], -1)",
      "DeltaShare.Add(DeltaShare, r.DeltaShareBeta[j], -1)",
      "ChiShare.Add(ChiShare, r.ChiShareAlpha[j], -1)",
      "ChiShare.Add(ChiShare, r.ChiShareBeta[j], -1)",
      "DeltaShareScalar := r.Group().NewScalar().SetNat(DeltaShare.Mod(r.Group().Order()))",
      "return &round4{ round3: r, DeltaShares: map[party.ID]curve.Scalar{r.SelfID(): DeltaShareScalar}, BigDeltaShares: map[party.ID]curve.Point{r.SelfID(): BigDeltaShare}, Gamma: Gamma, ChiShare: r.Group().NewScalar().SetNat(ChiShare.Mod(r.Group().Order())), }, nil" ] := by decide

/-- [C01] ties Alg.cmpDeltaCheck, cmpR, cmpSigmaShare -/
theorem gen_cmpSignRound4 : MpsGen.Alg.cmpSignRound4 =
    [ "Delta.Add(r.DeltaShares[j])",
      "BigDelta = BigDelta.Add(r.BigDeltaShares[j])",
      "deltaComputed := Delta.ActOnBase()",
      "if !deltaComputed.Equal(BigDelta) {",
      "deltaInv := r.Group().NewScalar().Set(Delta).Invert()",
      "BigR := deltaInv.Act(r.Gamma)",
      "R := BigR.XScalar()",
      "km := curve.FromHash(r.Group(), r.Message)",
      "km.Mul(r.KShare)",
      "SigmaShare := r.Group().NewScalar().Set(R).Mul(r.ChiShare).Add(km)" ] := by decide

/-- [C01] ties Alg.ecdsaAssemble; output only under Verify -/
theorem gen_cmpSignRound5 : MpsGen.Alg.cmpSignRound5 =
    [ "Sigma.Add(r.SigmaShares[j])",
      "signature := &ecdsa.Signature{ R: r.BigR, S: Sigma, }",
      "if !signature.Verify(r.PublicKey, r.Message) {" ] := by decide

/-- [C01] ties same scaling in StartPresign -/
theorem gen_cmpStartPresign : MpsGen.Alg.cmpStartPresign =
    [ "lagrange := polynomial.Lagrange(group, signers)",
      "SecretECDSA := group.NewScalar().Set(lagrange[c.ID]).Mul(c.ECDSA)",
      "ECDSA[j] = lagrange[j].Act(public.ECDSA)",
      "PublicKey = PublicKey.Add(ECDSA[j])" ] := by decide

/-- [C01] ties Alg.cmpScaleSecret, cmpScalePublic, cmpSignPublicKey -/
theorem gen_cmpStartSign : MpsGen.Alg.cmpStartSign =
    [ "lagrange := polynomial.Lagrange(group, signers)",
      "SecretECDSA := group.NewScalar().Set(lagrange[config.ID]).Mul(config.ECDSA)",
      "ECDSA[j] = lagrange[j].Act(public.ECDSA)",
      "PublicKey = PublicKey.Add(ECDSA[j])" ] := by decide

/-- [C14] ties Alg.doernerDeriveReceiver: the receiver ADDS the tweak; `ChainKey: newChainKey` (since 4df2a70; before: `doernerDeriveOld`) -/
theorem gen_doernerDeriveReceiver : MpsGen.Alg.doernerDeriveReceiver =
    [ "newChainKey = c.ChainKey",
      "adjustG := adjust.ActOnBase()",
      "len(newChainKey) != params.SecBytes => nil, fmt.Errorf(\"expecte %d bytes for chain key, found %d\", params.SecBytes, len(newChainKey))",
      "ConfigReceiver{ Setup: c.Setup, SecretShare: c.SecretShare.Curve().NewScalar().Set(c.SecretShare).Add(adjust), Public: c.Public.Add(adjustG), ChainKey: newChainKey, }" ] := by decide

/-- [C14] ties Alg.doernerDeriveSender: the sender KEEPS its share (no `.Add(adjust)`); `ChainKey: newChainKey` (since 4df2a70; before: `doernerDeriveOld`) -/
theorem gen_doernerDeriveSender : MpsGen.Alg.doernerDeriveSender =
    [ "newChainKey = c.ChainKey",
      "adjustG := adjust.ActOnBase()",
      "len(newChainKey) != params.SecBytes => nil, fmt.Errorf(\"expecte %d bytes for chain key, found %d\", params.SecBytes, len(newChainKey))",
      "ConfigSender{ Setup: c.Setup, SecretShare: c.SecretShare.Curve().NewScalar().Set(c.SecretShare), Public: c.Public.Add(adjustG), ChainKey: newChainKey, }" ] := by decide

/-- [C08] ties Alg.doernerNewShare, Alg.doernerPublic; the chain key is re-drawn on refresh too -/
theorem gen_doernerKeygenShares : MpsGen.Alg.doernerKeygenShares =
    [ "r.public = r.publicShare.Add(body.PublicShare)",
      "r.chainKey = body.ChainKey",
      "for i := 0; i < len(r.chainKey) && i < len(r.ourChainKey); i++ {",
      "r.chainKey[i] ^= r.ourChainKey[i]",
      "r.secretShare = r.Group().NewScalar().Set(r.secretShare).Add(r.refreshScalar).Sub(body.RefreshScalar)",
      "r.public = r.publicShare.Add(body.PublicShare)",
      "for i := 0; i < len(r.chainKey) && i < len(body.ChainKey); i++ {",
      "r.chainKey[i] ^= body.ChainKey[i]",
      "r.secretShare = r.Group().NewScalar().Set(r.secretShare).Add(r.refreshScalar).Sub(body.RefreshScalar)" ] := by decide

/-- [C01] ties Alg.doeD, doeKBInv, doeBeta -/
theorem gen_doernerSign1R : MpsGen.Alg.doernerSign1R =
    [ "kB := sample.Scalar(rand.Reader, r.Group())",
      "D := kB.ActOnBase()",
      "kB.Invert()",
      "multiply0, err := ot.NewMultiplyReceiver(r.Hash().Fork(tag0), r.config.Setup, kB)",
      "multiply1, err := ot.NewMultiplyReceiver(r.Hash().Fork(tag1), r.config.Setup, kB)",
      "beta := r.Group().NewScalar().Set(r.config.SecretShare).Mul(kB)",
      "return &round2R{round1R: r, kBInv: kB, D: D, multiply0: multiply0, multiply1: multiply1, multiply2: multiply2}, nil" ] := by decide

/-- [C01] ties Alg.doeR, doeAlpha0/1/2, doeTA2, doeGamma1A, doeMuPhi, doeSigA, doeGamma2A, doeMuSig -/
theorem gen_doernerSign1S : MpsGen.Alg.doernerSign1S =
    [ "kA := sample.Scalar(H.Digest(), group).Add(kAPrime)",
      "R := kA.Act(r.D)",
      "phi := sample.Scalar(rand.Reader, group)",
      "kAInv := group.NewScalar().Set(kA).Invert()",
      "alpha1 := group.NewScalar().Set(r.config.SecretShare).Mul(kAInv)",
      "alpha2 := group.NewScalar().Set(kAInv)",
      "alpha0 := kAInv",
      "alpha0.Add(phi)",
      "tA2 := tA21.Add(tA22)",
      "Gamma1 := group.NewBasePoint().Add(phi.Act(kA.ActOnBase())).Sub(tA1.Act(R))",
      "HGamma1 := sample.Scalar(H.Digest(), group)",
      "muPhi := HGamma1.Add(phi)",
      "sigA := group.NewScalar().Set(m).Mul(tA1).Add(R.XScalar().Mul(tA2))",
      "Gamma2 := tA1.Act(r.config.Public).Sub(tA2.ActOnBase())",
      "HGamma2 := sample.Scalar(H.Digest(), group)",
      "muSig := HGamma2.Add(sigA)" ] := by decide

/-- [C01] ties Alg.doeGamma1B, doePhiB, doeTheta, doeSigB, doeGamma2B, doeSigAB; output only under Verify -/
theorem gen_doernerSign2R : MpsGen.Alg.doernerSign2R =
    [ "R := sample.Scalar(hash.Digest(), group).Act(r.D).Add(r.RPrime)",
      "tB2 := tB21.Add(tB22)",
      "Gamma1 := tB1.Act(R)",
      "HGamma1 := sample.Scalar(hash.Digest(), group)",
      "phi := HGamma1.Negate().Add(r.MuPhi)",
      "theta := group.NewScalar().Set(phi).Mul(r.kBInv).Negate().Add(tB1)",
      "sigB := group.NewScalar().Set(m).Mul(theta).Add(R.XScalar().Mul(tB2))",
      "Gamma2 := tB2.ActOnBase().Sub(theta.Act(r.config.Public))",
      "HGamma2 := sample.Scalar(hash.Digest(), group)",
      "sigAB := sigB.Add(r.MuSig).Sub(HGamma2)",
      "sig := ecdsa.Signature{R: R, S: sigAB}",
      "if !sig.Verify(r.config.Public, r.hash) {" ] := by decide

/-- [C01] ties Alg.ecdsaVerify / ecdsaEq -/
theorem gen_ecdsaVerify : MpsGen.Alg.ecdsaVerify =
    [ "group := X.Curve()",
      "r := sig.R.XScalar()",
      "if r.IsZero() || sig.S.IsZero() {",
      "return false",
      "}",
      "m := curve.FromHash(group, hash)",
      "sInv := group.NewScalar().Set(sig.S).Invert()",
      "mG := m.ActOnBase()",
      "rX := r.Act(X)",
      "R2 := mG.Add(rX)",
      "R2 = sInv.Act(R2)",
      "return R2.Equal(sig.R)" ] := by decide

/-- [C02] ties Alg.addExp -/
theorem gen_expAdd : MpsGen.Alg.expAdd =
    [ "if len(p.coefficients) != len(q.coefficients) {",
      "return errors.New(\"q is not the same length as p\")",
      "}",
      "if p.IsConstant != q.IsConstant {",
      "return errors.New(\"p and q differ in 'IsConstant'\")",
      "}",
      "for i := 0; i < len(p.coefficients); i++ {",
      "p.coefficients[i] = p.coefficients[i].Add(q.coefficients[i])",
      "}",
      "return nil" ] := by decide

/-- [C02] ties Alg.expConstant? -/
theorem gen_expConstant : MpsGen.Alg.expConstant =
    [ "c := p.group.NewPoint()",
      "if p.IsConstant || len(p.coefficients) == 0 {",
      "return c",
      "}",
      "return p.coefficients[0]" ] := by decide

/-- [C02] ties Alg.expDegree -/
theorem gen_expDegree : MpsGen.Alg.expDegree =
    [ "if p.IsConstant {",
      "return len(p.coefficients)",
      "}",
      "return len(p.coefficients) - 1" ] := by decide

/-- [C02] ties Alg.evalExp: Horner in the exponent, one more x· when IsConstant -/
theorem gen_expEvaluate : MpsGen.Alg.expEvaluate =
    [ "result := p.group.NewPoint()",
      "for i := len(p.coefficients) - 1; i >= 0; i-- {",
      "result = x.Act(result).Add(p.coefficients[i])",
      "}",
      "if p.IsConstant {",
      "result = x.Act(result)",
      "}",
      "return result" ] := by decide

/-- [C02] ties Alg.sumExp / sumExpFrom -/
theorem gen_expSum : MpsGen.Alg.expSum =
    [ "var err error",
      "summed := polynomials[0].copy()",
      "for j := 1; j < len(polynomials); j++ {",
      "err = summed.add(polynomials[j])",
      "if err != nil {",
      "return nil, err",
      "}",
      "}",
      "return summed, nil" ] := by decide

/-- [C01] ties Alg.fromHash -/
theorem gen_fromHash : MpsGen.Alg.fromHash =
    [ "order := group.Order()",
      "orderBits := order.BitLen()",
      "orderBytes := (orderBits + 7) / 8",
      "if len(h) > orderBytes {",
      "h = h[:orderBytes]",
      "}",
      "s := new(saferith.Nat).SetBytes(h)",
      "excess := len(h)*8 - orderBits",
      "if excess > 0 {",
      "s.Rsh(s, uint(excess), -1)",
      "}",
      "return group.NewScalar().SetNat(s)" ] := by decide

/-- [C14] ties Alg.deriveShare, derivePublic -/
theorem gen_frostDerive : MpsGen.Alg.frostDerive =
    [ "len(newChainKey) != params.SecBytes => nil, fmt.Errorf(\"expecte %d bytes for chain key, found %d\", params.SecBytes, len(newChainKey))",
      "newChainKey = r.ChainKey",
      "adjustG := adjust.ActOnBase()",
      "verificationShares[k] = v.Add(adjustG)",
      "Config{ ID: r.ID, Threshold: r.Threshold, PrivateShare: r.PrivateShare.Curve().NewScalar().Set(r.PrivateShare).Add(adjust), PublicKey: r.PublicKey.Add(adjustG), ChainKey: newChainKey, VerificationShares: party.NewPointMap(verificationShares), }" ] := by decide

/-- [C14] ties DeriveChild = DeriveScalar(PublicKey, ChainKey, i) then Derive -/
theorem gen_frostDeriveChild : MpsGen.Alg.frostDeriveChild =
    [ "bip32.DeriveScalar(publicKey, r.ChainKey, i)",
      "r.Derive(scalar, newChainKey)" ] := by decide

/-- [C02] ties Alg.frostRefreshConstCheck — with the degree rule (since ae5924a: a commitment of another degree is refused) -/
theorem gen_frostKeygenChecks : MpsGen.Alg.frostKeygenChecks =
    [ "!ok || body == nil => round.ErrInvalidContent",
      "(!r.refresh && !body.Sigma_i.IsValid()) || body.Phi_i == nil => round.ErrNilFields",
      "err := body.Commitment.Validate(); err != nil => fmt.Errorf(\"commitment: %w\", err)",
      "body.Phi_i.Degree() != r.threshold => fmt.Errorf(\"party %s sent a polynomial of degree %d, expected %d\", from, body.Phi_i.Degree(), r.threshold)",
      "!body.Phi_i.Constant().IsIdentity() => fmt.Errorf(\"party %s sent a non-zero constant while refreshing\", from)",
      "!body.Sigma_i.Verify(r.Helper.HashForID(from), body.Phi_i.Constant(), nil) => fmt.Errorf(\"failed to verify Schnorr proof for party %s\", from)" ] := by decide

/-- [C14] ties Alg.frostResultChainKey: both result literals carry `ChainKey: ChainKey` (since eba3819; before, the field was missing: `frostResultChainKeyOld`) -/
theorem gen_frostKeygenConfig : MpsGen.Alg.frostKeygenConfig =
    [ "TaprootConfig{ ID: r.SelfID(), Threshold: r.threshold, PrivateShare: r.privateShare.(*curve.Secp256k1Scalar), PublicKey: YSecp.XBytes()[:], ChainKey: ChainKey, VerificationShares: secpVerificationShares, }",
      "Config{ ID: r.SelfID(), Threshold: r.threshold, PrivateShare: r.privateShare, PublicKey: r.publicKey, ChainKey: ChainKey, VerificationShares: party.NewPointMap(r.verificationShares), }" ] := by decide

/-- [C02] ties Alg.finalShare, Alg.frostGroupKey, Alg.finalPublicFrost; the chain key is computed into a local -/
theorem gen_frostKeygenFinal : MpsGen.Alg.frostKeygenFinal =
    [ "ChainKey := types.EmptyRID()",
      "ChainKey.XOR(r.ChainKeys[j])",
      "r.privateShare.Add(f_li)",
      "r.publicKey = r.publicKey.Add(phi_j.Constant())",
      "verificationExponent, err := polynomial.Sum(exponents)",
      "r.verificationShares[k] = v.Add(verificationExponent.Evaluate(k.Scalar(r.Group())))" ] := by decide

/-- [C02] ties Alg.feldmanCheck -/
theorem gen_frostKeygenVss : MpsGen.Alg.frostKeygenVss =
    [ "expected := body.F_li.ActOnBase()",
      "actual := r.Phi[from].Evaluate(r.SelfID().Scalar(r.Group()))",
      "if !expected.Equal(actual) {",
      "r.shareFrom[from] = body.F_li" ] := by decide

/-- [C01] ties Alg.frostRShare, Alg.frostR, Alg.frostResponse -/
theorem gen_frostSignRound2 : MpsGen.Alg.frostSignRound2 =
    [ "RShares[l] = rho[l].Act(r.E[l])",
      "RShares[l] = RShares[l].Add(r.D[l])",
      "R = R.Add(RShares[l])",
      "RShares[l] = RShares[l].Negate()",
      "Lambdas := polynomial.Lagrange(r.Group(), r.PartyIDs())",
      "z_i := r.Group().NewScalar().Set(Lambdas[r.SelfID()]).Mul(r.s_i).Mul(c)",
      "z_i.Add(r.d_i)",
      "ed := r.Group().NewScalar().Set(rho[r.SelfID()]).Mul(r.e_i)",
      "z_i.Add(ed)",
      "err := r.BroadcastMessage(out, &broadcast3{Z_i: z_i})",
      "return &round3{ round2: r, R: R, RShares: RShares, c: c, z: map[party.ID]curve.Scalar{r.SelfID(): z_i}, Lambda: Lambdas, }, nil" ] := by decide

/-- [C01] ties Alg.frostShareCheck, Alg.frostAssemble; output only under Verify -/
theorem gen_frostSignRound3 : MpsGen.Alg.frostSignRound3 =
    [ "expected := r.c.Act(r.Lambda[from].Act(r.YShares[from])).Add(r.RShares[from])",
      "actual := body.Z_i.ActOnBase()",
      "if !actual.Equal(expected) {",
      "z := r.Group().NewScalar()",
      "z.Add(z_l)",
      "if !taprootPub.Verify(sig, r.M) {",
      "if !sig.Verify(r.Y, r.M) {" ] := by decide

/-- [C01] ties Alg.schnorrVerify -/
theorem gen_frostVerify : MpsGen.Alg.frostVerify =
    [ "group := public.Curve()",
      "challengeHash := hash.New()",
      "_ = challengeHash.WriteAny(sig.R, public, messageHash(m))",
      "challenge := sample.Scalar(challengeHash.Digest(), group)",
      "expected := challenge.Act(public)",
      "expected = expected.Add(sig.R)",
      "actual := sig.z.ActOnBase()",
      "return expected.Equal(actual)" ] := by decide

/-- [C01] ties Alg.idScalar: big-endian bytes of the id, reduced by SetNat -/
theorem gen_idScalar : MpsGen.Alg.idScalar =
    [ "group.NewScalar().SetNat(new(saferith.Nat).SetBytes([]byte(id)))" ] := by decide

/-- [C01] ties Alg.lagDenominator / Alg.lagrangeCoeff: loop over the MAP; factor xⱼ for i == j, else −xⱼ + xᵢ; result = denominator⁻¹ · numerator -/
theorem gen_lagrangeBody : MpsGen.Alg.lagrangeBody =
    [ "xJ := interpolationDomain[j]",
      "tmp := group.NewScalar()",
      "denominator := group.NewScalar().SetNat(new(saferith.Nat).SetUint64(1))",
      "range i, xI := interpolationDomain {",
      "if i == j {",
      "denominator.Mul(xJ)",
      "continue",
      "}",
      "tmp.Set(xJ).Negate().Add(xI)",
      "denominator.Mul(tmp)",
      "}",
      "lJ := denominator.Invert()",
      "lJ.Mul(numerator)",
      "return lJ" ] := by decide

/-- [C01] ties Alg.lagrangeFor -/
theorem gen_lagrangeFor : MpsGen.Alg.lagrangeFor =
    [ "scalars, numerator := getScalarsAndNumerator(group, interpolationDomain)",
      "coefficients := make(map[party.ID]curve.Scalar, len(subset))",
      "range _, j := subset {",
      "coefficients[j] = lagrange(group, scalars, numerator, j)",
      "}",
      "return coefficients" ] := by decide

/-- [C01] ties Alg.lagNumerator: numerator = 1·∏ over the id LIST -/
theorem gen_lagrangeNumerator : MpsGen.Alg.lagrangeNumerator =
    [ "numerator := group.NewScalar().SetNat(new(saferith.Nat).SetUint64(1))",
      "scalars := make(map[party.ID]curve.Scalar, len(interpolationDomain))",
      "range _, id := interpolationDomain {",
      "xi := id.Scalar(group)",
      "scalars[id] = xi",
      "numerator.Mul(xi)",
      "}",
      "return scalars, numerator" ] := by decide

/-- [C01] ties Alg.lagrange, LagrangeSingle -/
theorem gen_lagrangeWrappers : MpsGen.Alg.lagrangeWrappers =
    [ "LagrangeFor(group, interpolationDomain, interpolationDomain...)",
      "LagrangeFor(group, interpolationDomain, j)[j]" ] := by decide

/-- [C01] ties the MtA convention behind the hypothesis α + β = a·b: D = enc(a·b + BetaNeg), Beta = −BetaNeg -/
theorem gen_mtaNew : MpsGen.Alg.mtaNew =
    [ "BetaNeg = sample.IntervalLPrime(rand.Reader)",
      "F, R = sender.Enc(BetaNeg)",
      "D, S = receiver.Enc(BetaNeg)",
      "tmp := receiverEncryptedShare.Clone().Mul(receiver, senderSecretShare)",
      "D.Add(receiver, tmp)",
      "return",
      "Beta = BetaNeg.Neg(1)" ] := by decide

/-- [C02] ties Alg.expOfPoly -/
theorem gen_newPolynomialExponent : MpsGen.Alg.newPolynomialExponent =
    [ "p := &Exponent{ group: polynomial.group, IsConstant: polynomial.coefficients[0].IsZero(), coefficients: make([]curve.Point, 0, len(polynomial.coefficients)), }",
      "range i, c := polynomial.coefficients {",
      "if p.IsConstant && i == 0 {",
      "continue",
      "}",
      "p.coefficients = append(p.coefficients, c.ActOnBase())",
      "}",
      "return p" ] := by decide

/-- [C02] ties Alg.evalPoly / evalPolyChecked: Horner, panic at 0 -/
theorem gen_polyEvaluate : MpsGen.Alg.polyEvaluate =
    [ "if index.IsZero() {",
      "panic(\"attempt to leak secret\")",
      "}",
      "result := p.group.NewScalar()",
      "for i := len(p.coefficients) - 1; i >= 0; i-- {",
      "result.Mul(index).Add(p.coefficients[i])",
      "}",
      "return result" ] := by decide

/-- [C01] ties Alg.presigSigmaShare, ecdsaAssemble, presigShareCheck -/
theorem gen_presigShare : MpsGen.Alg.presigShare =
    [ "m := curve.FromHash(sig.Group(), hash)",
      "r := sig.R.XScalar()",
      "mk := m.Mul(sig.KShare)",
      "rx := r.Mul(sig.ChiShare)",
      "sigma := mk.Add(rx)",
      "return sigma",
      "s := sig.Group().NewScalar()",
      "s.Add(sigma)",
      "r := sig.R.XScalar()",
      "m := curve.FromHash(sig.Group(), hash)",
      "lhs := share.Act(sig.R)",
      "rhs := m.Act(Rj).Add(r.Act(Sj))",
      "if !lhs.Equal(rhs) {" ] := by decide

/-- [C01] ties secpOps: SetNat reduces mod n, Invert = InverseNonConst, XScalar = x mod n -/
theorem gen_scalarSetNat : MpsGen.Alg.scalarSetNat =
    [ "reduced := new(saferith.Nat).Mod(x, secp256k1Order)",
      "s.value.SetByteSlice(reduced.Bytes())",
      "return s",
      "s.value.InverseNonConst()",
      "return s",
      "out := new(Secp256k1Scalar)",
      "p.value.ToAffine()",
      "out.value.SetBytes(p.value.X.Bytes())",
      "return out" ] := by decide

/-- [C08] ties Alg.finalShare as a PURE function of the previous share: on refresh the rounds work on a copy
    (`NewScalar().Set(privateShare)`, since 8e08e3b), so the caller's old config is not modified -/
theorem gen_frostRefreshStart : MpsGen.Alg.frostRefreshStart =
    [ "if privateShare != nil && publicKey != nil {",
      "refresh := true",
      "if privateShare != nil && publicKey != nil {",
      "privateShare = group.NewScalar().Set(privateShare)",
      "if privateShare == nil || publicKey == nil {",
      "refresh = false",
      "privateShare = group.NewScalar()",
      "publicKey = group.NewPoint()" ] := by decide

end Mps.AlgGen
