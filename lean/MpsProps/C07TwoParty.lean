import MpsProofs.TwoPartyOrder
/-
  C07 (two-party handler) — Outcome is independent of delivery order, duplication, early arrival and late
  re-delivery, for the model of `protocol.TwoPartyHandler` (Mps/TwoParty.lean).

  Main theorem: `order_independent2` (lemmas in MpsProofs/TwoPartyOrder.lean). Unlike the n-party handler the
  two-party handler has no stale filter and no duplicate filter: `Accept` stores every acceptable message again
  (last write wins) and runs `advance`. The elementary facts about single deliveries (`refused_noop2` …
  `waiting_message_is_only_stored2`) hold for arbitrary, also dishonest, messages.
-/
namespace Mps.C07.TwoParty
open Mps Mps.Handler Mps.TwoParty

/-- a message CanAccept refuses changes nothing when delivered anyway (whole state) -/
theorem refused_noop2 (s : State2) (m : Msg) (h : canAccept2 s m = false) : accept2 s m = s := by
  simp [accept2, h]

/-- after the end every message is ignored -/
theorem after_end_noop2 (s : State2) (m : Msg) (h : terminal2 s = true) : accept2 s m = s :=
  accept2_terminal s m h

/-- messages of another session or protocol, or from a party outside the session, are refused -/
theorem foreign_refused2 (s : State2) (m : Msg)
    (h : m.ssid.getD [] ≠ s.sc.ssid ∨ m.proto ≠ s.sc.proto ∨ m.frm ∉ s.sc.ids) : canAccept2 s m = false := by
  rcases h with h | h | h <;> simp [canAccept2, h]

/-- a message that is not the one the current round waits for (early, late, or the handler waits for another
    round) is stored — replacing an older one for its round number — and nothing else happens -/
theorem waiting_message_is_only_stored2 (s : State2) (m : Msg) (hw : canAdvance s = false) (hr : m.rnd ≠ s.cur)
    (h0 : m.rnd ≠ 0) (hc : (!canAccept2 s m || terminal2 s) = false) :
    accept2 s m = { s with msgs := put2 s.msgs m.rnd m } := by
  have e0 : (m.rnd == 0) = false := by simpa using h0
  have hl : lookup2 (put2 s.msgs m.rnd m) s.cur = lookup2 s.msgs s.cur := by
    rw [lookup2_put2]; simp [Ne.symm hr]
  unfold accept2
  simp only [hc, e0, Bool.false_eq_true, if_false]
  show advance (s.sc.rounds.length + 1) (setMsgs s (put2 s.msgs m.rnd m)) = _
  unfold advance
  rw [advanceStep_setMsgs s _ hl, advanceStep_stuck s hw]
  rfl

/-! ### order independence -/

/-- everything observable about a two-party handler: verdict, result, round position, protocol state, the
    emitted messages in order, the close counter — every field of the state except the message store -/
def outcome2 (s : State2) :=
  (s.err, s.result, s.cur, s.ended, s.acc, s.accuse, s.out, s.closes, s.idx)

/-- ORDER INDEPENDENCE (two-party handler). For every script `sc` (leader or follower) and every honest
    message set `M` (`Honest2 sc M`, a decidable predicate: the round numbers of the script are pairwise
    different; every message comes from the peer, is addressed to this party in this session and protocol,
    carries data, has a round number in 1 … final that belongs to a round of the script expecting input, is
    point-to-point, decodes, carries no flags; no two different messages for one round number):
    any two delivery sequences `l1`, `l2` of messages from `M` that deliver the same SET of messages — in any
    order, with any repetitions, with messages of later rounds arriving arbitrarily early, with messages of
    rounds already left re-delivered arbitrarily late, and not necessarily all of `M` — leave the handler with
    the same outcome.

    Why `Honest2` asks for pairwise different round numbers (strictly increasing numbers are NOT needed):
    with `sc.rounds = [⟨1, recv⟩, ⟨2, silent⟩, ⟨2, recv⟩]` (follower) and the two honest-looking messages
    `d1`, `d2` for rounds 1 and 2, `#eval` gives
        run2 … [d1, d2]  ↦  (err, result) = (none, some 30)
        run2 … [d2, d1]  ↦  (err, result) = (some msgFail, none)
    (in the second order `d2` already sits in the store when the silent round with number 2 is finalized, and
    `verifyMessage` fails on a round without `MessageContent`); see `Ex.dup_rounds_order_dependent`.
    Why it asks for at most one message per round number: the store is last-write-wins, see
    `Ex.conflicting_duplicates_order_dependent`. -/
theorem order_independent2 (sc : Script2) (M : List Msg) (hM : Honest2 sc M) (l1 l2 : List Msg)
    (h1 : ∀ m ∈ l1, m ∈ M) (h2 : ∀ m ∈ l2, m ∈ M) (hsame : ∀ m, m ∈ l1 ↔ m ∈ l2) :
    outcome2 (run2 sc (l1.map Call2.accept)) = outcome2 (run2 sc (l2.map Call2.accept)) := by
  obtain ⟨_, e2, e3, e4, e5, e6, e7, e8, e9, e10⟩ := (run2_out hM l1 l2 h1 h2 hsame).feq.fields
  unfold outcome2
  rw [e2, e3, e4, e5, e6, e7, e8, e9, e10]

/-- … and while the session is still running the two message stores answer every lookup alike too (they may be
    laid out in another order), so the two handlers also behave alike on every further input -/
theorem order_independent2_store (sc : Script2) (M : List Msg) (hM : Honest2 sc M) (l1 l2 : List Msg)
    (h1 : ∀ m ∈ l1, m ∈ M) (h2 : ∀ m ∈ l2, m ∈ M) (hsame : ∀ m, m ∈ l1 ↔ m ∈ l2)
    (hrun : terminal2 (run2 sc (l1.map Call2.accept)) = false) :
    Sim2 (run2 sc (l1.map Call2.accept)) (run2 sc (l2.map Call2.accept)) :=
  run2_sim hM l1 l2 h1 h2 hsame hrun

/-- two states related by `Sim2` (all fields equal, stores equal as lookup functions) stay related under ANY
    further call (not only honest deliveries) -/
theorem sim2_congruence (a b : State2) (h : Sim2 a b) (calls : List Call2) :
    Sim2 (calls.foldl apply2 a) (calls.foldl apply2 b) := by
  induction calls generalizing a b with
  | nil => exact h
  | cons c cs ih =>
    apply ih
    cases c <;> simp only [apply2]
    · exact accept2_sim h _
    · exact h
    · exact h
    · exact h
    · unfold stop2
      rw [terminal2_feq h.1]
      split
      · exact h
      · have hb := h.1.eq
        rw [hb, abort2_setMsgs]
        exact ⟨rfl, fun r => by cases a; exact h.2 r⟩

/-- re-delivering messages that were already delivered — also long after their round has been left — changes
    nothing -/
theorem redelivery_irrelevant2 (sc : Script2) (M : List Msg) (hM : Honest2 sc M)
    (l extra : List Msg) (h1 : ∀ m ∈ l, m ∈ M) (h2 : ∀ m ∈ extra, m ∈ l) :
    outcome2 (run2 sc ((l ++ extra).map Call2.accept)) = outcome2 (run2 sc (l.map Call2.accept)) := by
  apply order_independent2 sc M hM
  · intro m hm
    rcases List.mem_append.mp hm with h | h
    · exact h1 m h
    · exact h1 m (h2 m h)
  · exact h1
  · intro m
    simp only [List.mem_append]
    exact ⟨fun h => h.elim id (h2 m), Or.inl⟩

/-- any schedule that is a permutation-with-repetitions of a reference schedule `ref` (for instance the
    in-order one) gives the result of `ref` -/
theorem schedule_gives_reference_outcome2 (sc : Script2) (M : List Msg) (hM : Honest2 sc M)
    (ref sched : List Msg) (href : ∀ m ∈ ref, m ∈ M) (h1 : ∀ m ∈ sched, m ∈ ref) (h2 : ∀ m ∈ ref, m ∈ sched) :
    outcome2 (run2 sc (sched.map Call2.accept)) = outcome2 (run2 sc (ref.map Call2.accept)) :=
  order_independent2 sc M hM sched ref (fun m hm => href m (h1 m hm)) href (fun m => ⟨h1 m, h2 m⟩)

/-- the common outcome is never a verdict against the peer: whatever the order, duplication, earliness or
    lateness of the honest messages, the handler does not abort with a message failure, a peer abort or a
    protocol abort (the only error left is the own `Finalize` failure the script itself prescribes via
    `finErrAt`) -/
theorem honest_delivery_never_blames2 (sc : Script2) (M : List Msg) (hM : Honest2 sc M)
    (l : List Msg) (hl : ∀ m ∈ l, m ∈ M) :
    (run2 sc (l.map Call2.accept)).err = none ∨ (run2 sc (l.map Call2.accept)).err = some .finalizeErr :=
  run2_clean hM l hl

/-! ### non-vacuity: a concrete session (leader rounds 1, 2, 4, 6, 8; follower rounds 1, 3, 5, 7; final 8) -/

namespace Ex
def ids2 : List Bytes := [[97], [98]]
def leadSc : Script2 := ⟨ids2, [97], [98], 8,
  [⟨1, false, true, 1⟩, ⟨2, true, true, 3⟩, ⟨4, true, true, 5⟩, ⟨6, true, true, 7⟩, ⟨8, false, false, 0⟩], [7], [9], true, 0⟩
def follSc : Script2 := ⟨ids2, [98], [97], 8,
  [⟨1, true, true, 2⟩, ⟨3, true, true, 4⟩, ⟨5, true, true, 6⟩, ⟨7, true, false, 8⟩], [7], [9], false, 0⟩
/-- the message the peer of `sc` sends for round `r` of `sc` (exactly what the peer's model emits) -/
def mk (sc : Script2) (r : Nat) : Msg :=
  let c : Content := ⟨honestV { ids := sc.ids, self := sc.peer, final := 0, rounds := [], proto := [], ssid := [],
                                sess := [], finErrAt := 0 } sc.peer sc.self r, 0⟩
  { ssid := some sc.ssid, frm := sc.peer, to := sc.self, proto := sc.proto, rnd := r,
    data := some (cborContent c), bcast := false, bv := none, dec := some c }
/-- what the follower sends to the leader, and what the leader sends to the follower -/
def ML : List Msg := [mk leadSc 2, mk leadSc 4, mk leadSc 6]
def MF : List Msg := [mk follSc 1, mk follSc 3, mk follSc 5, mk follSc 7]
/-- scrambled schedules. Leader: round 4 arrives early, round 2 is delivered twice, the second time late (the
    handler has left rounds 2 and 4 and waits in round 6), round 4 late again, and round 2 once more after the
    end. Follower: rounds 5 and 3 early, round 1 twice and round 3 again (both late: the handler waits in round 7),
    round 5 after the end -/
def schedL : List Msg := [mk leadSc 4, mk leadSc 2, mk leadSc 2, mk leadSc 4, mk leadSc 6, mk leadSc 2]
def schedF : List Msg := [mk follSc 5, mk follSc 3, mk follSc 1, mk follSc 1, mk follSc 3, mk follSc 7, mk follSc 5]

set_option maxRecDepth 100000 in
theorem honestL : Honest2 leadSc ML := by decide
set_option maxRecDepth 100000 in
theorem honestF : Honest2 follSc MF := by decide
theorem schedL_sub : ∀ m ∈ schedL, m ∈ ML := by decide
theorem schedL_all : ∀ m ∈ ML, m ∈ schedL := by decide
theorem schedF_sub : ∀ m ∈ schedF, m ∈ MF := by decide
theorem schedF_all : ∀ m ∈ MF, m ∈ schedF := by decide
theorem schedL_ne : schedL ≠ ML := by decide

/-- the hypotheses of `order_independent2` are satisfiable, for a leader and for a follower, with schedules
    that differ from the in-order one -/
example : outcome2 (run2 leadSc (schedL.map Call2.accept)) = outcome2 (run2 leadSc (ML.map Call2.accept)) :=
  schedule_gives_reference_outcome2 leadSc ML honestL ML schedL (fun _ h => h) schedL_sub schedL_all
example : outcome2 (run2 follSc (schedF.map Call2.accept)) = outcome2 (run2 follSc (MF.map Call2.accept)) :=
  schedule_gives_reference_outcome2 follSc MF honestF MF schedF (fun _ h => h) schedF_sub schedF_all
example : outcome2 (run2 leadSc ((ML ++ [mk leadSc 2, mk leadSc 2]).map Call2.accept)) =
    outcome2 (run2 leadSc (ML.map Call2.accept)) :=
  redelivery_irrelevant2 leadSc ML honestL ML _ (fun _ h => h) (by decide)
example : (run2 leadSc (schedL.map Call2.accept)).err = none ∨
    (run2 leadSc (schedL.map Call2.accept)).err = some .finalizeErr :=
  honest_delivery_never_blames2 leadSc ML honestL schedL schedL_sub

-- the two sessions of the example really complete, and the two honest sets are exactly what the two models
-- emit for each other: the leader's output under its scrambled schedule is `MF`, the follower's is `ML`
set_option maxRecDepth 1000000 in
example : (run2 leadSc (schedL.map Call2.accept)).result = some 6042 ∧ (run2 leadSc (schedL.map Call2.accept)).err = none ∧
    (run2 leadSc (schedL.map Call2.accept)).out = MF := by decide
set_option maxRecDepth 1000000 in
example : (run2 follSc (schedF.map Call2.accept)).result = some 4096 ∧ (run2 follSc (schedF.map Call2.accept)).err = none ∧
    (run2 follSc (schedF.map Call2.accept)).out = ML := by decide

/-- a session that is still running after an early arrival and a LATE re-delivery: round 4 early, round 2,
    then round 2 again while the handler waits in round 6 -/
def lateL : List Msg := [mk leadSc 4, mk leadSc 2, mk leadSc 2]
set_option maxRecDepth 100000 in
theorem still_running : terminal2 (run2 leadSc (lateL.map Call2.accept)) = false ∧
    (run2 leadSc (lateL.map Call2.accept)).cur = 6 := by decide

/-- … the hypotheses of `order_independent2_store` are satisfiable -/
theorem lateL_sim :
    Sim2 (run2 leadSc (lateL.map Call2.accept)) (run2 leadSc ([mk leadSc 2, mk leadSc 4].map Call2.accept)) :=
  order_independent2_store leadSc ML honestL _ _ (by decide) (by decide)
    (fun m => ⟨(by decide : ∀ m ∈ lateL, m ∈ [mk leadSc 2, mk leadSc 4]) m,
               (by decide : ∀ m ∈ [mk leadSc 2, mk leadSc 4], m ∈ lateL) m⟩) still_running.1

/-! counterexamples: what `Honest2` excludes does break order independence -/

/-- a follower script with a duplicated round number: 1 (expects input), 2 (silent), 2 (expects input) -/
def scDup : Script2 := ⟨ids2, [98], [97], 3,
  [⟨1, true, false, 0⟩, ⟨2, false, false, 0⟩, ⟨2, true, false, 0⟩], [7], [9], false, 0⟩

set_option maxRecDepth 100000 in
/-- every message is honest for `scDup`, only the script's round numbers are not distinct — and the order matters -/
theorem dup_rounds_order_dependent :
    (∀ m ∈ [mk scDup 1, mk scDup 2], HonestMsg2 scDup m) ∧ ¬ Honest2 scDup [mk scDup 1, mk scDup 2] ∧
    (run2 scDup ([mk scDup 1, mk scDup 2].map Call2.accept)).err = none ∧
    (run2 scDup ([mk scDup 2, mk scDup 1].map Call2.accept)).err = some .msgFail := by decide

set_option maxRecDepth 100000 in
/-- two different messages for one round number: the last one delivered before the round is finalized wins -/
theorem conflicting_duplicates_order_dependent :
    let m3 := mk follSc 3
    let m3' : Msg := { m3 with dec := some ⟨1, 0⟩ }
    (run2 follSc ([m3, m3', mk follSc 1].map Call2.accept)).acc ≠
    (run2 follSc ([m3', m3, mk follSc 1].map Call2.accept)).acc := by decide
end Ex

example : ∃ s m, canAccept2 s m = false := ⟨default, default, by decide⟩
example : ∃ (s : State2) (m : Msg), m.ssid.getD [] ≠ s.sc.ssid :=
  ⟨default, { (default : Msg) with ssid := some [1] }, by decide⟩
set_option maxRecDepth 100000 in
/-- the hypotheses of `waiting_message_is_only_stored2`: the fresh follower waits in round 1, round 5 arrives -/
example : canAdvance (init2 Ex.follSc) = false ∧ (Ex.mk Ex.follSc 5).rnd ≠ (init2 Ex.follSc).cur ∧
    (Ex.mk Ex.follSc 5).rnd ≠ 0 ∧ (!canAccept2 (init2 Ex.follSc) (Ex.mk Ex.follSc 5) || terminal2 (init2 Ex.follSc)) = false := by
  decide
/-- the hypothesis of `sim2_congruence` with two states that were reached in different ways -/
example (calls : List Call2) :
    Sim2 (calls.foldl apply2 (run2 Ex.leadSc (Ex.lateL.map Call2.accept)))
      (calls.foldl apply2 (run2 Ex.leadSc ([Ex.mk Ex.leadSc 2, Ex.mk Ex.leadSc 4].map Call2.accept))) :=
  sim2_congruence _ _ Ex.lateL_sim calls
example : ∃ s m, terminal2 s = true ∧ accept2 s m = s :=
  ⟨{ (default : State2) with err := some .stopped }, default, by decide, rfl⟩

end Mps.C07.TwoParty
