import MpsProps.C02alg
/-
  C08 (algebra layer) — refresh preserves the key, retires old shares, across ANY history.
-/
set_option linter.unusedSectionVars false
namespace Mps.C08alg
open Mps.Alg Polynomial

variable {F G : Type} [Field F] [AddCommGroup G] [Module F G] (g : G) {ι : Type} [DecidableEq ι]

/-- **refresh_preserves_key**: zero-constant refresh polynomials of degree ≤ t; EVERY reconstruction
    list S of ≥ t+1 parties: same secret (shares), same group key (table entries, any exponent
    polynomials with identity constant), and frost's `publicKey += Σ Φⱼ.Constant()` leaves the key as is. -/
theorem refresh_preserves_key (t : ℕ) (op : RefreshOp ι F) (hv : op.Valid t)
    (S : List ι) (x : ι → F) (hN : Nodes S x) (hS : t + 1 ≤ S.length) (sh : ι → F) :
    reconstruct (lawful g : Ops F G) S x (applyRefresh g x sh op) = reconstruct (lawful g : Ops F G) S x sh := by
  unfold applyRefresh
  rw [C02alg.reconstruct_any_subset g op.dealers op.cs t (fun j hj => (hv j hj).2) S x hN hS sh]
  have : (op.dealers.map fun j => (op.cs j).headD 0) = op.dealers.map fun _ => (0 : F) :=
    List.map_congr_left fun j hj => (hv j hj).1
  rw [this]; simp

theorem refresh_preserves_group_key (t : ℕ) (dealers : List ι) (Es : ι → Exponent G)
    (hdeg : ∀ j ∈ dealers, expDegree (Es j) ≤ (t : Int))
    (hconst : ∀ j ∈ dealers, expConstant (lawful g : Ops F G) (Es j) = 0)
    (S : List ι) (x : ι → F) (hN : Nodes S x) (hS : t + 1 ≤ S.length) (pub : ι → G) (Y : G) :
    reconstructG (lawful g : Ops F G) S x
        (fun i => pub i + (dealers.map fun j => evalExp (lawful g : Ops F G) (Es j) (x i)).sum) =
      reconstructG (lawful g : Ops F G) S x pub ∧
    frostGroupKey (lawful g : Ops F G) Y (dealers.map Es) = Y := by
  have h0 : (dealers.map fun j => expConstant (lawful g : Ops F G) (Es j)) = dealers.map fun _ => (0 : G) :=
    List.map_congr_left hconst
  constructor
  · rw [C02alg.reconstruct_any_subset_public g dealers Es t hdeg S x hN hS pub, h0]; simp
  · rw [frostGroupKey_lawful, List.map_map]
    have : ((fun e => expConstant (lawful g : Ops F G) e) ∘ Es) = fun j => expConstant (lawful g : Ops F G) (Es j) := rfl
    rw [this, h0]; simp

/-- cmp's group key `Config.PublicPoint` (Lagrange over ALL parties) is unchanged by a refresh -/
theorem refresh_preserves_cmp_public_point (t : ℕ) (dealers : List ι) (Es : ι → Exponent G)
    (hdeg : ∀ j ∈ dealers, expDegree (Es j) ≤ (t : Int))
    (hconst : ∀ j ∈ dealers, expConstant (lawful g : Ops F G) (Es j) = 0)
    (ids : List ι) (x : ι → F) (hN : Nodes ids x) (hn : t + 1 ≤ ids.length) (pub : ι → G) :
    cmpPublicPoint (lawful g : Ops F G) ids x
        (fun i => pub i + (dealers.map fun j => evalExp (lawful g : Ops F G) (Es j) (x i)).sum) =
      cmpPublicPoint (lawful g : Ops F G) ids x pub := by
  rw [cmpPublicPoint_eq, cmpPublicPoint_eq]
  exact (refresh_preserves_group_key g t dealers Es hdeg hconst ids x hN hn pub 0).1

/-- **refreshes_preserve_key**: induction over ANY list of refresh operations (each with its own
    dealer list and polynomials). -/
theorem refreshes_preserve_key (t : ℕ) (ops : List (RefreshOp ι F)) (hv : ∀ op ∈ ops, op.Valid t)
    (S : List ι) (x : ι → F) (hN : Nodes S x) (hS : t + 1 ≤ S.length) (sh : ι → F) :
    reconstruct (lawful g : Ops F G) S x (ops.foldl (applyRefresh g x) sh) = reconstruct (lawful g : Ops F G) S x sh := by
  induction ops generalizing sh with
  | nil => rfl
  | cons op ops ih =>
    rw [List.foldl_cons, ih (fun o ho => hv o (by simp [ho])),
      refresh_preserves_key g t op (hv op (by simp)) S x hN hS sh]

/-- … and the public table stays the image of the shares through the whole history (honest dealing),
    so the key pair (sk, sk·g) reconstructed from any S is the original one. -/
theorem refreshes_consistent [DecidableEq F] (m : ℕ) (ops : List (RefreshOp ι F))
    (hv : ∀ op ∈ ops, op.dealers ≠ [] ∧ ∀ j ∈ op.dealers, (op.cs j).headD 0 = 0 ∧ (op.cs j).length = m + 1)
    (x : ι → F) (sh : ι → F) (i : ι) :
    ops.foldl (fun (pub : Option G) op => pub.bind fun P => dealtPublic (lawful g : Ops F G) op.dealers op.cs x P i)
        (some (sh i • g)) =
      some ((ops.foldl (applyRefresh g x) sh) i • g) := by
  induction ops generalizing sh with
  | nil => rfl
  | cons op ops ih =>
    have h := hv op (by simp)
    rw [List.foldl_cons, List.foldl_cons, Option.bind_some,
      C02alg.keygen_consistent_honest g op.dealers h.1 op.cs m true (fun j hj => (h.2 j hj).2)
        (fun j hj => by have := (h.2 j hj).1; simp only [this]) x i (sh i)]
    exact ih (fun o ho => hv o (by simp [ho])) (applyRefresh g x sh op)

/-- **refresh_mixed_iff**: a reconstruction list mixing epochs — `A` parties bring OLD shares, `B`
    parties NEW ones — yields (interpolation of the old shares) + Σ_{i∈B} λᵢ·(newᵢ − oldᵢ); hence, if the
    old shares interpolate to sk, the mixture gives sk IFF that weighted sum of the refresh values vanishes. -/
theorem refresh_mixed_eq (A B : List ι) (x : ι → F) (hN : Nodes (A ++ B) x) (old new : ι → F) :
    reconstruct (lawful g : Ops F G) (A ++ B) x (fun i => if i ∈ B then new i else old i) =
      reconstruct (lawful g : Ops F G) (A ++ B) x old +
        sumF (lawful g : Ops F G) (B.map fun i =>
          (lawful g : Ops F G).mul (lagrangeCoeff (lawful g : Ops F G) (A ++ B) x i) (new i - old i)) := by
  have hB : B.Nodup := (List.nodup_append.mp hN.nodup).2.1
  rw [sumF_lawful, list_sum_map_eq B hB, reconstruct_lawful g hN.nodup, reconstruct_lawful g hN.nodup]
  have hsub : B.toFinset ⊆ (A ++ B).toFinset := by
    intro i hi; simp only [List.mem_toFinset, List.mem_append] at hi ⊢; exact Or.inr hi
  have e1 : ∑ i ∈ B.toFinset, (lawful g : Ops F G).mul (lagrangeCoeff (lawful g : Ops F G) (A ++ B) x i) (new i - old i) =
      ∑ i ∈ (A ++ B).toFinset, if i ∈ B then lagCoeff (A ++ B).toFinset x i * (new i - old i) else 0 := by
    rw [← Finset.sum_filter]
    have : Finset.filter (fun i => i ∈ B) (A ++ B).toFinset = B.toFinset := by
      ext i; simp only [Finset.mem_filter, List.mem_toFinset, List.mem_append]; tauto
    rw [this]
    refine Finset.sum_congr rfl fun i hi => ?_
    rw [lawful_mul, lagrangeCoeff_lawful g _ hN.nodup x i (List.mem_toFinset.mp (hsub hi))]
  rw [e1, ← Finset.sum_add_distrib]
  refine Finset.sum_congr rfl fun i _ => ?_
  by_cases h : i ∈ B <;> simp [h]; ring

theorem refresh_mixed_iff (A B : List ι) (x : ι → F) (hN : Nodes (A ++ B) x) (old new : ι → F) (sk : F)
    (hold : reconstruct (lawful g : Ops F G) (A ++ B) x old = sk) :
    reconstruct (lawful g : Ops F G) (A ++ B) x (fun i => if i ∈ B then new i else old i) = sk ↔
      sumF (lawful g : Ops F G) (B.map fun i =>
          (lawful g : Ops F G).mul (lagrangeCoeff (lawful g : Ops F G) (A ++ B) x i) (new i - old i)) = 0 := by
  rw [refresh_mixed_eq g A B x hN old new, hold]
  constructor
  · intro h; exact add_eq_left.mp h
  · intro h; rw [h, add_zero]

/-- **refresh_mixed_fails_exists**. Exact hypothesis: `B` (the parties bringing new shares) is non-empty
    and has at most t members — automatically true when the mixed set has exactly t+1 members and at
    least one of them brings an old share (`refresh_mixed_fails_exists'`). Then there IS a refresh
    polynomial accepted by the checks (zero constant, t+1 coefficients) for which the weighted sum
    Σ_{i∈B} λᵢ·r(xᵢ) is non-zero: explicit witness r = X·∏_{i∈B∖{b}}(X − xᵢ). -/
theorem refresh_mixed_fails_exists (t : ℕ) (A B : List ι) (x : ι → F) (hN : Nodes (A ++ B) x)
    (hB : B ≠ []) (hBt : B.length ≤ t) :
    ∃ cs : List F, cs.length = t + 1 ∧ cs.headD 0 = 0 ∧
      sumF (lawful g : Ops F G) (B.map fun i =>
          (lawful g : Ops F G).mul (lagrangeCoeff (lawful g : Ops F G) (A ++ B) x i)
            (evalPoly (lawful g : Ops F G) cs (x i))) ≠ 0 := by
  obtain ⟨b, hb⟩ := List.exists_mem_of_ne_nil B hB
  have hBn : B.Nodup := (List.nodup_append.mp hN.nodup).2.1
  have hbS : b ∈ A ++ B := List.mem_append.mpr (Or.inr hb)
  let r : F[X] := X * ∏ i ∈ B.toFinset.erase b, (X - C (x i))
  have hcard : (B.toFinset.erase b).card + 1 = B.length := by
    rw [Finset.card_erase_of_mem (List.mem_toFinset.mpr hb), List.toFinset_card_of_nodup hBn]
    have : 0 < B.length := List.length_pos_of_mem hb
    omega
  have hdeg : r.natDegree ≤ t := by
    refine le_trans natDegree_mul_le ?_
    rw [natDegree_X, natDegree_finsetProd_X_sub_C_eq_card]
    omega
  refine ⟨coeffList r t, coeffList_length _ _, ?_, ?_⟩
  · rw [coeffList_head, coeff_zero_eq_eval_zero]; simp [r]
  · rw [sumF_lawful, list_sum_map_eq B hBn]
    have hval : ∀ i, evalPoly (lawful g : Ops F G) (coeffList r t) (x i) =
        x i * ∏ k ∈ B.toFinset.erase b, (x i - x k) := by
      intro i; rw [evalPoly_coeffList g r t hdeg]; simp [r, eval_prod]
    rw [Finset.sum_eq_single_of_mem b (List.mem_toFinset.mpr hb)]
    · rw [lawful_mul, lagrangeCoeff_lawful g _ hN.nodup x b hbS, hval]
      refine mul_ne_zero (lagCoeff_ne_zero _ x hN.injOn hN.nz' b (List.mem_toFinset.mpr hbS))
        (mul_ne_zero (hN.nz b hbS) (Finset.prod_ne_zero_iff.mpr fun k hk => ?_))
      have hk' := Finset.mem_erase.mp hk
      have hkS : k ∈ A ++ B := List.mem_append.mpr (Or.inr (List.mem_toFinset.mp hk'.2))
      exact sub_ne_zero.mpr fun e => hk'.1 (hN.inj b hbS k hkS e).symm
    · intro i hi hne
      rw [lawful_mul, hval]
      have : ∏ k ∈ B.toFinset.erase b, (x i - x k) = 0 :=
        Finset.prod_eq_zero (Finset.mem_erase.mpr ⟨hne, hi⟩) (sub_self _)
      rw [this, mul_zero, mul_zero]

/-- the usual situation: exactly t+1 parties, at least one with an old and one with a new share -/
theorem refresh_mixed_fails_exists' (t : ℕ) (A B : List ι) (x : ι → F) (hN : Nodes (A ++ B) x)
    (hA : A ≠ []) (hB : B ≠ []) (hcard : (A ++ B).length = t + 1) (old : ι → F) (sk : F)
    (hold : reconstruct (lawful g : Ops F G) (A ++ B) x old = sk) :
    ∃ op : RefreshOp ι F, op.Valid t ∧
      reconstruct (lawful g : Ops F G) (A ++ B) x
        (fun i => if i ∈ B then applyRefresh g x old op i else old i) ≠ sk := by
  have hAl : 0 < A.length := List.length_pos_iff.mpr hA
  have hBt : B.length ≤ t := by rw [List.length_append] at hcard; omega
  obtain ⟨cs, h1, h2, h3⟩ := refresh_mixed_fails_exists g t A B x hN hB hBt
  obtain ⟨b, hb⟩ := List.exists_mem_of_ne_nil B hB
  refine ⟨⟨[b], fun _ => cs⟩, ?_, ?_⟩
  · intro j _; exact ⟨h2, le_of_eq h1⟩
  · intro h
    rw [refresh_mixed_iff g A B x hN old _ sk hold] at h
    apply h3
    rw [← h]
    congr 1
    refine List.map_congr_left fun i _ => ?_
    rw [applyRefresh_eq]
    simp [refreshDelta]

/-- **share_changes_iff**: party i's share changes iff the total refresh polynomial does not vanish at xᵢ -/
theorem share_changes_iff (x : ι → F) (sh : ι → F) (op : RefreshOp ι F) (i : ι) :
    applyRefresh g x sh op i ≠ sh i ↔ refreshDelta g x op i ≠ 0 := by
  rw [applyRefresh_eq]; simp

/-- Doerner refresh: the two new additive shares have the old sum (any refresh scalars, any history). -/
theorem doerner_refresh_preserves_sum (a b ra rb : F) :
    doernerNewShare (lawful g : Ops F G) a ra rb + doernerNewShare (lawful g : Ops F G) b rb ra = a + b := by
  simp only [doernerNewShare, lawful_add, lawful_sub]; ring

theorem doerner_refreshes_preserve_sum (rs : List (F × F)) (a b : F) :
    let st := rs.foldl (fun (st : F × F) r =>
      (doernerNewShare (lawful g : Ops F G) st.1 r.1 r.2, doernerNewShare (lawful g : Ops F G) st.2 r.2 r.1)) (a, b)
    st.1 + st.2 = a + b := by
  induction rs generalizing a b with
  | nil => rfl
  | cons r rs ih =>
    simp only [List.foldl_cons]
    rw [ih, doerner_refresh_preserves_sum]

/-! ### non-vacuity -/
example : (⟨[0], fun _ => [0, 5]⟩ : RefreshOp ℕ ℚ).Valid 1 := by
  intro j _; simp

/-- hypotheses of `refresh_mixed_fails_exists'` (t = 1): A = [0] brings an old share, B = [1] a new one -/
example : Nodes (F := ℚ) ([0] ++ [1]) (fun i : ℕ => (i : ℚ) + 1) ∧ ([0] : List ℕ) ≠ [] ∧ ([1] : List ℕ) ≠ [] ∧
    (([0] : List ℕ) ++ [1]).length = 1 + 1 := by
  refine ⟨⟨by decide, ?_, ?_⟩, by decide, by decide, rfl⟩
  · intro i hi j hj e; simpa using e
  · intro i _; positivity

end Mps.C08alg
