import MpsProofs.AlgebraSharing
/-
  C02 (algebra layer) — keygen yields ONE consistent, reconstructible sharing.
  All statements: arbitrary field `F`, arbitrary `F`-module `G` with base point `g`, arbitrary id
  type, arbitrary dealer lists and reconstruction lists (any n, any t, any subset, any order).
  The functions are the transcriptions in `Mps/Algebra.lean`, instantiated at `lawful g`.
-/
set_option linter.unusedSectionVars false
namespace Mps.C02alg
open Mps.Alg Polynomial

variable {F G : Type} [Field F] [AddCommGroup G] [Module F G] (g : G) {ι : Type} [DecidableEq ι]

/-- **keygen_consistent** (full strength: dealers may be dishonest). Every party that holds the same
    broadcast exponent polynomials `Es` — of one shape, which is what the constant rule and the degree
    rule of cmp keygen round 3 enforce — and shares `sh j` that passed the Feldman check at its own
    point `x i`, obtains:
    * `polynomial.Sum` succeeds, and the summed polynomial evaluates at EVERY point to the sum of the
      evaluations (so the public table is a function of the broadcast view only: all parties get the
      same table), and its constant is the sum of the constants (same group key);
    * own final share · g = own table entry (cmp and frost variants of the table entry agree);
    also with a previous share/entry (refresh). -/
theorem keygen_consistent (dealers : List ι) (hne : dealers ≠ []) (Es : ι → Exponent G) (b : Bool) (m : ℕ)
    (hshape : Uniform b m (dealers.map Es)) (x : ι → F) (i : ι) (sh : ι → F)
    (hfeld : ∀ j ∈ dealers, feldmanCheck (lawful g : Ops F G) (sh j) (Es j) (x i))
    (prevShare : F) (prevPub : G) (hprev : prevShare • g = prevPub) :
    ∃ E, sumExp (lawful g : Ops F G) (dealers.map Es) = some E ∧ E.isConstant = b ∧ E.coeffs.length = m ∧
      (∀ y : F, evalExp (lawful g : Ops F G) E y = (dealers.map fun j => evalExp (lawful g : Ops F G) (Es j) y).sum) ∧
      expConstant (lawful g : Ops F G) E = (dealers.map fun j => expConstant (lawful g : Ops F G) (Es j)).sum ∧
      actBase (lawful g : Ops F G) (finalShare (lawful g : Ops F G) prevShare (dealers.map sh)) =
        finalPublicFrost (lawful g : Ops F G) prevPub E (x i) ∧
      finalPublicCmp (lawful g : Ops F G) (some prevPub) E (x i) = finalPublicFrost (lawful g : Ops F G) prevPub E (x i) := by
  obtain ⟨E, h1, h2, h3, h4, h5⟩ := sumExp_spec (F := F) g b m (dealers.map Es) (by simpa using hne) hshape
  refine ⟨E, h1, h2, h3, ?_, ?_, ?_, ?_⟩
  · intro y; rw [h4 y, List.map_map]; rfl
  · rw [h5, List.map_map]; rfl
  · rw [actBase_lawful, finalShare_lawful]
    unfold finalPublicFrost
    rw [lawful_gadd, h4 (x i), add_smul, hprev, List.map_map]
    congr 1
    rw [List.sum_smul, List.map_map]
    refine congrArg List.sum (List.map_congr_left fun j hj => ?_)
    exact hfeld j hj
  · unfold finalPublicCmp finalPublicFrost
    simp [add_comm]

/-- honest dealing (coefficient lists `cs j`, one length, constants all zero or all non-zero — the
    representation `NewPolynomialExponent` picks depends on that): the table entry everybody computes
    for party i is (party i's share)·g. -/
theorem keygen_consistent_honest [DecidableEq F] (dealers : List ι) (hne : dealers ≠ []) (cs : ι → List F) (m : ℕ) (b : Bool)
    (hlen : ∀ j ∈ dealers, (cs j).length = m + 1) (hconst : ∀ j ∈ dealers, ((cs j).headD 0 = 0) = (b = true))
    (x : ι → F) (i : ι) (prevShare : F) :
    dealtPublic (lawful g : Ops F G) dealers cs x (prevShare • g) i =
      some (actBase (lawful g : Ops F G) (dealtShare (lawful g : Ops F G) dealers cs x prevShare i)) := by
  have hshape : Uniform b (if b then m else m + 1) (dealers.map fun j => expOfPoly (lawful g : Ops F G) (cs j)) := by
    intro e he
    obtain ⟨j, hj, rfl⟩ := List.mem_map.mp he
    have h1 := hlen j hj
    have h2 := hconst j hj
    cases hc : cs j with
    | nil => rw [hc] at h1; simp at h1
    | cons c rest =>
      rw [hc] at h1 h2
      simp only [List.headD_cons] at h2
      simp only [List.length_cons, add_left_inj] at h1
      unfold expOfPoly
      by_cases h0 : c = 0
      · have hb : b = true := by rw [← h2]; exact h0
        subst h0
        simp [hb, h1]
      · have hb : b = false := by
          cases b
          · rfl
          · exact absurd (h2.mpr rfl) h0
        simp [h0, hb, h1]
  obtain ⟨E, h1, _, _, h4, _⟩ := sumExp_spec (F := F) g b _ _ (by simpa using hne) hshape
  unfold dealtPublic
  rw [h1, Option.map_some, actBase_lawful, dealtShare_lawful, lawful_gadd, h4 (x i), List.map_map, add_smul,
    add_comm, List.sum_smul, List.map_map]
  congr 2
  refine congrArg List.sum (List.map_congr_left fun j _ => ?_)
  simp only [Function.comp]
  rw [evalExp_expOfPoly]

/-- **reconstruct_any_subset** (scalar side). Polynomials with at most t+1 coefficients (degree ≤ t),
    EVERY duplicate-free list S of at least t+1 parties with distinct non-zero scalar images, in any
    order: the final shares interpolate (with the code's own coefficients) to
    (interpolation of the previous shares) + Σⱼ fⱼ(0).  For a fresh keygen the previous shares are 0. -/
theorem reconstruct_any_subset (dealers : List ι) (cs : ι → List F) (t : ℕ)
    (hdeg : ∀ j ∈ dealers, (cs j).length ≤ t + 1)
    (S : List ι) (x : ι → F) (hN : Nodes S x) (hS : t + 1 ≤ S.length) (prev : ι → F) :
    reconstruct (lawful g : Ops F G) S x (fun i => dealtShare (lawful g : Ops F G) dealers cs x (prev i) i) =
      reconstruct (lawful g : Ops F G) S x prev + (dealers.map fun j => (cs j).headD 0).sum := by
  simp only [dealtShare_lawful]
  rw [reconstruct_add g hN.nodup, reconstruct_list_sum g hN.nodup]
  congr 1
  refine congrArg List.sum (List.map_congr_left fun j hj => ?_)
  exact reconstruct_poly g hN (cs j) (le_trans (hdeg j hj) hS)

theorem reconstruct_any_subset_keygen (dealers : List ι) (cs : ι → List F) (t : ℕ)
    (hdeg : ∀ j ∈ dealers, (cs j).length ≤ t + 1)
    (S : List ι) (x : ι → F) (hN : Nodes S x) (hS : t + 1 ≤ S.length) :
    reconstruct (lawful g : Ops F G) S x (fun i => dealtShare (lawful g : Ops F G) dealers cs x 0 i) =
      (dealers.map fun j => (cs j).headD 0).sum := by
  rw [reconstruct_any_subset g dealers cs t hdeg S x hN hS]
  simp [reconstruct_lawful g hN.nodup]

/-- **reconstruct_any_subset** (public side, full strength: ANY exponent polynomials of degree ≤ t,
    honest or not). The table entries of every such S interpolate to
    (interpolation of the previous entries) + Σⱼ Fⱼ(0) = the group key. -/
theorem reconstruct_any_subset_public (dealers : List ι) (Es : ι → Exponent G) (t : ℕ)
    (hdeg : ∀ j ∈ dealers, expDegree (Es j) ≤ (t : Int))
    (S : List ι) (x : ι → F) (hN : Nodes S x) (hS : t + 1 ≤ S.length) (prevPub : ι → G) :
    reconstructG (lawful g : Ops F G) S x
        (fun i => prevPub i + (dealers.map fun j => evalExp (lawful g : Ops F G) (Es j) (x i)).sum) =
      reconstructG (lawful g : Ops F G) S x prevPub +
        (dealers.map fun j => expConstant (lawful g : Ops F G) (Es j)).sum := by
  rw [reconstructG_add g hN.nodup, reconstructG_list_sum g hN.nodup]
  congr 1
  refine congrArg List.sum (List.map_congr_left fun j hj => ?_)
  exact reconstructG_exp g hN (Es j) (by have := hdeg j hj; omega)

/-- honest keygen: shares and table entries of every S reconstruct the same key pair
    `(sk, sk·g)` with `sk = Σⱼ fⱼ(0)` -/
theorem reconstruct_keypair (dealers : List ι) (cs : ι → List F) (t : ℕ)
    (hdeg : ∀ j ∈ dealers, (cs j).length ≤ t + 1)
    (S : List ι) (x : ι → F) (hN : Nodes S x) (hS : t + 1 ≤ S.length) :
    reconstructG (lawful g : Ops F G) S x
        (fun i => actBase (lawful g : Ops F G) (dealtShare (lawful g : Ops F G) dealers cs x 0 i)) =
      (dealers.map fun j => (cs j).headD 0).sum • g := by
  simp only [actBase_lawful]
  rw [reconstructG_smul_base g hN.nodup, reconstruct_any_subset_keygen g dealers cs t hdeg S x hN hS]

/-- **degree mistakes are visible**: with ONE more coefficient (degree |S|) interpolation from S fails —
    for every S there is a polynomial with |S|+1 coefficients whose shares on S interpolate to a value
    different from its constant coefficient (witness ∏_{i∈S}(X − xᵢ)). -/
theorem reconstruct_fails_degree_succ (S : List ι) (x : ι → F) (hN : Nodes S x) :
    ∃ cs : List F, cs.length = S.length + 1 ∧
      reconstruct (lawful g : Ops F G) S x (fun i => evalPoly (lawful g : Ops F G) cs (x i)) ≠ cs.headD 0 := by
  let f : F[X] := ∏ i ∈ S.toFinset, (X - C (x i))
  have hdeg : f.natDegree ≤ S.length := by
    rw [show f.natDegree = S.toFinset.card from natDegree_finsetProd_X_sub_C_eq_card _ _, hN.card]
  refine ⟨coeffList f S.length, coeffList_length _ _, ?_⟩
  have hz : ∀ i ∈ S.toFinset, f.eval (x i) = 0 := by
    intro i hi
    rw [eval_prod]
    exact Finset.prod_eq_zero hi (by simp)
  rw [coeffList_head, coeff_zero_eq_eval_zero, reconstruct_lawful g hN.nodup]
  have : ∑ j ∈ S.toFinset, lagCoeff S.toFinset x j * evalPoly (lawful g : Ops F G) (coeffList f S.length) (x j) = 0 := by
    refine Finset.sum_eq_zero fun j hj => ?_
    rw [evalPoly_coeffList g f _ hdeg, hz j hj, mul_zero]
  rw [this, eval_prod]
  refine (Finset.prod_ne_zero_iff.mpr fun i hi => ?_).symm
  simpa using hN.nz' i hi

/-- Doerner (2 parties, additive): after the exchange of refresh scalars — which `round2R/round2S`
    run on a fresh keygen too — the two shares still add up to the key whose public point both computed. -/
theorem doerner_keygen_consistent (a b ra rb : F) :
    actBase (lawful g : Ops F G)
        ((lawful g : Ops F G).add (doernerNewShare (lawful g : Ops F G) a ra rb)
          (doernerNewShare (lawful g : Ops F G) b rb ra)) =
      doernerPublic (lawful g : Ops F G) (actBase (lawful g : Ops F G) a) (actBase (lawful g : Ops F G) b) ∧
    doernerPublic (lawful g : Ops F G) (actBase (lawful g : Ops F G) a) (actBase (lawful g : Ops F G) b) =
      doernerPublic (lawful g : Ops F G) (actBase (lawful g : Ops F G) b) (actBase (lawful g : Ops F G) a) := by
  simp only [doernerNewShare, doernerPublic, actBase_lawful, lawful_add, lawful_sub, lawful_gadd]
  constructor
  · rw [← add_smul]; congr 1; ring
  · exact add_comm _ _

/-! ### non-vacuity -/

/-- three parties with scalars 1,2,3 over ℚ are admissible nodes -/
example : Nodes (F := ℚ) [0, 1, 2] (fun i : ℕ => (i : ℚ) + 1) := by
  refine ⟨by decide, ?_, ?_⟩
  · intro i hi j hj e; simpa using e
  · intro i _; positivity

example : Uniform (G := ℚ) false 2 ([0, 1].map fun _ : ℕ => (⟨false, [1, 2]⟩ : Exponent ℚ)) := by
  intro e he; simp at he; subst he; simp

/-- a share passing the Feldman check of an honest commitment: f = 3 + 2X at x = 2, share 7 (g = 1 in ℚ) -/
example : feldmanCheck (lawful (1 : ℚ) : Ops ℚ ℚ) 7 (expOfPoly (lawful (1 : ℚ) : Ops ℚ ℚ) [3, 2]) 2 := by
  unfold feldmanCheck
  rw [evalExp_expOfPoly]
  simp [evalPoly]; norm_num

end Mps.C02alg
