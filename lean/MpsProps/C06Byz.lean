import MpsProofs.Byz
/-
  C06 at system level — equivocation on a broadcast round cannot split the honest parties.

  Model (Mps/Byz.lean): a session `base` (`SessionOk base`) with ONE deviating participant `x`; the honest parties
  `honestIds base x` run the handler model (`Mps.Handler`, script `scriptFor base p`). A schedule is a list of
  deliveries (recipient, message); it is `ByzCausal` when every recipient is honest and every message EITHER carries
  the sender name `x` (then it is ARBITRARY: equivocation, malformed contents, failure flags, wrong echo stamps,
  replays under its own name, abort notices …) OR is, at that moment, in the `out` list of the honest party it
  names and addressed to the recipient (authenticated channels; any order, repetition, delay).
  Lemmas in MpsProofs/Byz.lean. The handler-level statement is `Mps.C06.echo_agreement`.
-/
namespace Mps.C06Byz
open Mps Mps.Handler Mps.System

/-- reading of the schedule predicate: a delivery is possible iff the recipient is honest and the message is the
    adversary's own or an emitted message of the honest party it names, addressed to the recipient -/
theorem byz_delivery_iff (base : Script) (x : Bytes) (σ : Sys) (p : Bytes) (m : Msg) :
    σ.byzCanDeliver base x p m = true ↔
      p ∈ honestIds base x ∧ (m.frm = x ∨ (m.frm ∈ honestIds base x ∧ isFor m p = true ∧ m ∈ (σ m.frm).out)) :=
  byzCanDeliver_iff base x σ p m

/-- AUTHENTICITY (the only thing assumed about the network): whatever an honest party `p` has stored under the
    name of an honest party `q` is a message `q` has emitted -/
theorem stored_under_honest_name_was_emitted (H : Bytes → Bytes) (base : Script) (x : Bytes) (sched : Sched)
    (hc : ByzCausal H base x sched = true) (p q : Bytes) (hp : p ∈ honestIds base x) (hq : q ∈ honestIds base x)
    (m : Msg) (hs : Stored ((Sys.run H base sched) p) m) (hf : m.frm = q) : m ∈ ((Sys.run H base sched) q).out :=
  stored_honest_emitted sched hc p q hp hq m hs hf

/-- ONE-SIDED FORM. For every hash `H` with bounded output, every session `base` (`SessionOk`, `SizesOk`: lengths fit
    the wire format, session-hash items well-formed), every deviating party `x`, every Byzantine schedule whose
    adversarial messages are wire-representable (`MsgOk`), every two different honest parties `p`, `q`, and every
    broadcast round `sp` (index `j ≥ 1`) followed by a round `nx` numbered `sp.num + 1` that receives something:
    if `p` is PAST round `nx` (it has a result, or its current round number is larger), then `p` and `q` hold
    byte-identical copies (`wire`: every field that enters `Message.Hash`) of EVERY participant's round-`sp` broadcast
    — in particular `q` holds a complete view — or `H` collides. Nothing is assumed about how far `q` got. -/
theorem honest_views_agree (H : Bytes → Bytes) (hH : ∀ b, (H b).length < 2 ^ 64) (base : Script) (ok : SessionOk base)
    (sz : SizesOk base) (hsw : ∀ i ∈ base.sess, i.WF) (x : Bytes) (sched : Sched)
    (hc : ByzCausal H base x sched = true) (hadv : ∀ e ∈ sched, e.2.frm = x → MsgOk e.2) (p q : Bytes)
    (hp : p ∈ honestIds base x) (hq : q ∈ honestIds base x) (hpq : p ≠ q) (j : Nat) (sp nx : RoundSpec) (hj : 1 ≤ j)
    (hsp : base.rounds[j]? = some sp) (hnx : base.rounds[j + 1]? = some nx) (hnum : nx.num = sp.num + 1)
    (hB : sp.recvB = true) (hK : nx.recvB = true ∨ nx.recvP = true)
    (hpast : pastRound ((Sys.run H base sched) p) nx.num = true) :
    (∀ id ∈ base.ids, ∃ mp mq, lookup ((Sys.run H base sched) p).bc sp.num id = some mp ∧
        lookup ((Sys.run H base sched) q).bc sp.num id = some mq ∧ wire mp = wire mq) ∨
    (∃ a b : Bytes, a ≠ b ∧ H a = H b) :=
  System.honest_views_agree hH ok sz hsw sched hc hadv p q hp hq hpq j sp nx hj hsp hnx hnum hB hK hpast

/-- EQUIVOCATION CANNOT SPLIT. Same quantification; if BOTH honest parties `p` and `q` are past the round after the
    broadcast round `sp`, then for every sender id their stored round-`sp` broadcasts have equal hash input
    (`msgHashItems`), hence equal payload `data` (indeed all wire fields are equal) — or `H` collides (an explicit
    disjunct; no assumption on `H` beyond the output length bound). -/
theorem equivocation_cannot_split (H : Bytes → Bytes) (hH : ∀ b, (H b).length < 2 ^ 64) (base : Script)
    (ok : SessionOk base) (sz : SizesOk base) (hsw : ∀ i ∈ base.sess, i.WF) (x : Bytes) (sched : Sched)
    (hc : ByzCausal H base x sched = true) (hadv : ∀ e ∈ sched, e.2.frm = x → MsgOk e.2) (p q : Bytes)
    (hp : p ∈ honestIds base x) (hq : q ∈ honestIds base x) (hpq : p ≠ q) (j : Nat) (sp nx : RoundSpec) (hj : 1 ≤ j)
    (hsp : base.rounds[j]? = some sp) (hnx : base.rounds[j + 1]? = some nx) (hnum : nx.num = sp.num + 1)
    (hB : sp.recvB = true) (hK : nx.recvB = true ∨ nx.recvP = true)
    (hpastP : pastRound ((Sys.run H base sched) p) nx.num = true)
    (_hpastQ : pastRound ((Sys.run H base sched) q) nx.num = true) :
    (∀ id ∈ base.ids, ∃ mp mq, lookup ((Sys.run H base sched) p).bc sp.num id = some mp ∧
        lookup ((Sys.run H base sched) q).bc sp.num id = some mq ∧
        msgHashItems mp = msgHashItems mq ∧ mp.data = mq.data ∧ wire mp = wire mq) ∨
    (∃ a b : Bytes, a ≠ b ∧ H a = H b) := by
  rcases System.honest_views_agree hH ok sz hsw sched hc hadv p q hp hq hpq j sp nx hj hsp hnx hnum hB hK hpastP with h | h
  · left
    intro id hid
    obtain ⟨mp, mq, h1, h2, h3⟩ := h id hid
    exact ⟨mp, mq, h1, h2, (wire_items mp mq h3).1, (wire_items mp mq h3).2, h3⟩
  · exact Or.inr h

/-- NO SPLIT COMPLETION. If two different honest parties have stored round-`sp` broadcasts with different payloads
    under one sender id (the cheater equivocated), then NEITHER of them completes with a result — unless `H`
    collides. (Stronger than "not both": the one-sided form applies to each of them.) -/
theorem no_split_completion (H : Bytes → Bytes) (hH : ∀ b, (H b).length < 2 ^ 64) (base : Script)
    (ok : SessionOk base) (sz : SizesOk base) (hsw : ∀ i ∈ base.sess, i.WF) (x : Bytes) (sched : Sched)
    (hc : ByzCausal H base x sched = true) (hadv : ∀ e ∈ sched, e.2.frm = x → MsgOk e.2) (p q : Bytes)
    (hp : p ∈ honestIds base x) (hq : q ∈ honestIds base x) (hpq : p ≠ q) (j : Nat) (sp nx : RoundSpec) (hj : 1 ≤ j)
    (hsp : base.rounds[j]? = some sp) (hnx : base.rounds[j + 1]? = some nx) (hnum : nx.num = sp.num + 1)
    (hB : sp.recvB = true) (hK : nx.recvB = true ∨ nx.recvP = true) (id : Bytes) (mp mq : Msg)
    (hlp : lookup ((Sys.run H base sched) p).bc sp.num id = some mp)
    (hlq : lookup ((Sys.run H base sched) q).bc sp.num id = some mq) (hdiff : mp.data ≠ mq.data) :
    (((Sys.run H base sched) p).result = none ∧ ((Sys.run H base sched) q).result = none) ∨
    (∃ a b : Bytes, a ≠ b ∧ H a = H b) := by
  by_cases hcol : ∃ a b : Bytes, a ≠ b ∧ H a = H b
  · exact Or.inr hcol
  · left
    -- the sender id is a party
    have hid : id ∈ base.ids := by
      obtain ⟨e, he, h1, _, h3⟩ := lookup_keys _ _ _ _ hlp
      have rp : Reach H (scriptFor base p) ((Sys.run H base sched) p) := by rw [run_apply]; exact run_reach H _ _
      have k := (reach_queueKeys _ rp).2 e he
      have := (stored_slot (H := H) sched p (mem_honestIds.mp hp).1 e.2.2 (Or.inr ⟨e, he, rfl⟩)).2
      rw [← k.2.1, h3] at this; exact this
    have key : ∀ (p q : Bytes), p ∈ honestIds base x → q ∈ honestIds base x → p ≠ q → ∀ (mp mq : Msg),
        lookup ((Sys.run H base sched) p).bc sp.num id = some mp →
        lookup ((Sys.run H base sched) q).bc sp.num id = some mq → mp.data ≠ mq.data →
        ((Sys.run H base sched) p).result = none := by
      intro p q hp hq hpq mp mq hlp hlq hdiff
      cases hr : ((Sys.run H base sched) p).result with
      | none => rfl
      | some v =>
        exfalso
        have hpast : pastRound ((Sys.run H base sched) p) nx.num = true := by simp [pastRound, hr]
        rcases System.honest_views_agree hH ok sz hsw sched hc hadv p q hp hq hpq j sp nx hj hsp hnx hnum hB hK hpast
          with h | h
        · obtain ⟨mp', mq', h1, h2, h3⟩ := h id hid
          rw [hlp] at h1; rw [hlq] at h2
          cases h1; cases h2
          exact hdiff (wire_items _ _ h3).2
        · exact hcol h
    exact ⟨key p q hp hq hpq mp mq hlp hlq hdiff, key q p hq hp (fun e => hpq e.symm) mq mp hlq hlp (fun e => hdiff e.symm)⟩

/-! ### Non-vacuity: a 3-party session (round 2: broadcast, round 3: p2p), party `[3]` deviates -/

namespace Ex
/-- a toy hash (length and byte sum); the theorems hold for every `H` with bounded output -/
def Hx : Bytes → Bytes := fun b => [UInt8.ofNat b.length, UInt8.ofNat (b.foldl (fun a x => a + x.toNat) 0)]
def sc : Script := ⟨[[1], [2], [3]], [1], 3, [⟨1, false, false⟩, ⟨2, true, false⟩, ⟨3, false, true⟩], [7], [9], [], 0⟩
def mk (frm to : Bytes) (r : Nat) (b : Bool) (bv : Option Bytes) (v : Nat) : Msg :=
  { ssid := some sc.ssid, frm := frm, to := to, proto := sc.proto, rnd := r,
    data := some (cborContent ⟨v, 0⟩), bcast := b, bv := bv, dec := some ⟨v, 0⟩ }
/-- the honest round-2 broadcast of `q` and round-3 p2p message of `q` to `p` (stamped with `q`'s echo hash) -/
def hb (q : Bytes) : Msg := mk q [] 2 true none (honestV sc q [] 2)
def hp3 (q p : Bytes) (stamp : Bytes) : Msg := mk q p 3 false (some stamp) (honestV sc q p 3)
/-- the cheater's two round-2 broadcasts -/
def e1 : Msg := mk [3] [] 2 true none 3002
def e2 : Msg := mk [3] [] 2 true none 666

/-- `[3]` EQUIVOCATES: payload 3002 to `[1]`, 666 to `[2]`; then the honest round-3 messages cross -/
def schedE : Sched :=
  [([1], hb [2]), ([1], e1), ([2], hb [1]), ([2], e2), ([2], hp3 [1] [2] [90, 78]), ([1], hp3 [2] [1] [90, 37])]
/-- `[3]` sends the same broadcast to both and correctly stamped round-3 messages: the session completes -/
def schedC : Sched :=
  [([1], hb [2]), ([1], e1), ([2], hb [1]), ([2], e1),
   ([1], hp3 [2] [1] [90, 78]), ([1], hp3 [3] [1] [90, 78]), ([2], hp3 [1] [2] [90, 78]), ([2], hp3 [3] [2] [90, 78])]

theorem hH : ∀ b, (Hx b).length < 2 ^ 64 := fun b => by simp [Hx]
theorem session_ok : SessionOk sc := by decide
theorem sizes_ok : SizesOk sc := by decide
theorem sess_wf : ∀ i ∈ sc.sess, i.WF := by decide
theorem honest12 : [1] ∈ honestIds sc [3] ∧ [2] ∈ honestIds sc [3] := by decide
set_option maxRecDepth 1000000 in
theorem causalE : ByzCausal Hx sc [3] schedE = true := by decide
set_option maxRecDepth 1000000 in
theorem causalC : ByzCausal Hx sc [3] schedC = true := by decide
set_option maxRecDepth 100000 in
theorem advE : ∀ e ∈ schedE, e.2.frm = [3] → MsgOk e.2 := by decide
set_option maxRecDepth 100000 in
theorem advC : ∀ e ∈ schedC, e.2.frm = [3] → MsgOk e.2 := by decide

-- the consistent schedule: both honest parties complete, so they are past round 3 — every hypothesis of
-- `equivocation_cannot_split` (and of `honest_views_agree`) holds
set_option maxRecDepth 1000000 in
theorem pastC : pastRound ((Sys.run Hx sc schedC) [1]) 3 = true ∧ pastRound ((Sys.run Hx sc schedC) [2]) 3 = true ∧
    ((Sys.run Hx sc schedC) [1]).result.isSome = true ∧ ((Sys.run Hx sc schedC) [2]).result.isSome = true := by decide

example : (∀ id ∈ sc.ids, ∃ mp mq, lookup ((Sys.run Hx sc schedC) [1]).bc 2 id = some mp ∧
      lookup ((Sys.run Hx sc schedC) [2]).bc 2 id = some mq ∧
      msgHashItems mp = msgHashItems mq ∧ mp.data = mq.data ∧ wire mp = wire mq) ∨
    (∃ a b : Bytes, a ≠ b ∧ Hx a = Hx b) :=
  equivocation_cannot_split Hx hH sc session_ok sizes_ok sess_wf [3] schedC causalC advC [1] [2] honest12.1 honest12.2
    (by decide) 1 ⟨2, true, false⟩ ⟨3, false, true⟩ (by decide) rfl rfl rfl rfl (Or.inr rfl) pastC.1 pastC.2.1

example : (∀ id ∈ sc.ids, ∃ mp mq, lookup ((Sys.run Hx sc schedC) [2]).bc 2 id = some mp ∧
      lookup ((Sys.run Hx sc schedC) [1]).bc 2 id = some mq ∧ wire mp = wire mq) ∨
    (∃ a b : Bytes, a ≠ b ∧ Hx a = Hx b) :=
  honest_views_agree Hx hH sc session_ok sizes_ok sess_wf [3] schedC causalC advC [2] [1] honest12.2 honest12.1
    (by decide) 1 ⟨2, true, false⟩ ⟨3, false, true⟩ (by decide) rfl rfl rfl rfl (Or.inr rfl) pastC.2.1

-- authenticity: `[1]` has stored `[2]`'s broadcast (in the equivocating schedule, too)
set_option maxRecDepth 1000000 in
example : hb [2] ∈ ((Sys.run Hx sc schedE) [2]).out :=
  stored_under_honest_name_was_emitted Hx sc [3] schedE causalE [1] [2] honest12.1 honest12.2 (hb [2])
    (Or.inr ⟨(2, [2], hb [2]), by decide, rfl⟩) rfl

-- the equivocating schedule: the two honest parties hold different round-2 broadcasts of `[3]` — every hypothesis
-- of `no_split_completion` holds; indeed both end with the culprit-less echo mismatch and without a result
set_option maxRecDepth 1000000 in
theorem splitE : lookup ((Sys.run Hx sc schedE) [1]).bc 2 [3] = some e1 ∧ lookup ((Sys.run Hx sc schedE) [2]).bc 2 [3] = some e2 ∧
    e1.data ≠ e2.data := by decide

example : (((Sys.run Hx sc schedE) [1]).result = none ∧ ((Sys.run Hx sc schedE) [2]).result = none) ∨
    (∃ a b : Bytes, a ≠ b ∧ Hx a = Hx b) :=
  no_split_completion Hx hH sc session_ok sizes_ok sess_wf [3] schedE causalE advE [1] [2] honest12.1 honest12.2
    (by decide) 1 ⟨2, true, false⟩ ⟨3, false, true⟩ (by decide) rfl rfl rfl rfl (Or.inr rfl) [3] e1 e2 splitE.1 splitE.2.1
    splitE.2.2

set_option maxRecDepth 1000000 in
example : ((Sys.run Hx sc schedE) [1]).err = some .echoMismatch ∧ ((Sys.run Hx sc schedE) [2]).err = some .echoMismatch ∧
    ((Sys.run Hx sc schedE) [1]).result = none ∧ ((Sys.run Hx sc schedE) [2]).result = none ∧
    ((Sys.run Hx sc schedE) [1]).bh = [(2, [90, 78])] ∧ ((Sys.run Hx sc schedE) [2]).bh = [(2, [90, 37])] := by decide
end Ex

end Mps.C06Byz
