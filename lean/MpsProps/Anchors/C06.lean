-- written by bin/mkanchors: the source pins of the files the anchors of C06 name
import MpsProps.Src.SrcLPkgProtocol
import MpsProps.Src.SrcLInternalRound
