-- written by bin/mkanchors: the source pins of the files the anchors of C04 name
import MpsProps.Src.SrcLPkgProtocol
import MpsProps.Src.SrcLInternalRound
import MpsProps.Src.SrcCmpPresign
import MpsProps.Src.SrcLPkgEcdsa
import MpsProps.Src.SrcLPkgZkNth
import MpsProps.Src.SrcLPkgZkLog
import MpsProps.Src.SrcLPkgParty
import MpsProps.Src.SrcLPkgMathPolynomial
