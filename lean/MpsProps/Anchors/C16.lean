-- written by bin/mkanchors: the source pins of the files the anchors of C16 name
import MpsProps.Src.SrcLPkgEcdsa
import MpsProps.Src.SrcLPkgTaproot
import MpsProps.Src.SrcLPkgMathCurve
