-- written by bin/mkanchors: the source pins of the files the anchors of C14 name
import MpsProps.Src.SrcLInternalBip32
import MpsProps.Src.SrcCmpConfig
import MpsProps.Src.SrcCmpKeygen
import MpsProps.Src.SrcFrostKeygen
import MpsProps.Src.SrcDoernerKeygen
import MpsProps.Src.SrcLInternalRound
import MpsProps.Src.SrcLPkgParty
import MpsProps.Src.SrcLPkgMathPolynomial
import MpsProps.Src.SrcLPkgHash
