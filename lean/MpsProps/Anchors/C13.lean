-- written by bin/mkanchors: the source pins of the files the anchors of C13 name
import MpsProps.Src.SrcLInternalOt
