-- written by bin/mkanchors: the source pins of the files the anchors of C07 name
import MpsProps.Src.SrcLPkgProtocol
import MpsProps.Src.SrcLInternalRound
