-- written by bin/mkanchors: the source pins of the files the anchors of C18 name
import MpsProps.Src.SrcLPkgPool
import MpsProps.Src.SrcLPkgMathSample
