-- written by bin/mkanchors: the source pins of the files the anchors of C09 name
import MpsProps.Src.SrcLInternalRound
import MpsProps.Src.SrcLPkgParty
import MpsProps.Src.SrcLInternalTypes
import MpsProps.Src.SrcCmpConfig
import MpsProps.Src.SrcLPkgProtocol
import MpsProps.Src.SrcCmpSign
import MpsProps.Src.SrcCmpPresign
import MpsProps.Src.SrcCmpKeygen
