-- written by bin/mkanchors: the source pins of the files the anchors of C03 name
import MpsProps.Src.SrcCmpKeygen
import MpsProps.Src.SrcCmpSign
import MpsProps.Src.SrcCmpPresign
import MpsProps.Src.SrcFrostKeygen
import MpsProps.Src.SrcFrostSign
import MpsProps.Src.SrcDoernerKeygen
import MpsProps.Src.SrcDoernerSign
import MpsProps.Src.SrcLInternalOt
import MpsProps.Src.SrcLPkgHash
import MpsProps.Src.SrcLPkgProtocol
import MpsProps.Src.SrcLInternalRound
import MpsProps.Src.SrcLPkgParty
import MpsProps.Src.SrcLPkgMathPolynomial
