-- written by bin/mkanchors: the source pins of the files the anchors of C19 name
import MpsProps.Src.SrcLPkgHash
import MpsProps.Src.SrcLInternalTypes
import MpsProps.Src.SrcLInternalRound
