-- written by bin/mkanchors: the source pins of the files the anchors of C15 name
import MpsProps.Src.SrcCmpConfig
import MpsProps.Src.SrcFrostKeygen
import MpsProps.Src.SrcLProtocolsFrost
import MpsProps.Src.SrcLPkgParty
import MpsProps.Src.SrcLProtocolsDoerner
import MpsProps.Src.SrcDoernerKeygen
import MpsProps.Src.SrcLInternalOt
import MpsProps.Src.SrcLPkgEcdsa
import MpsProps.Src.SrcLPkgProtocol
import MpsProps.Src.SrcLPkgPaillier
import MpsProps.Src.SrcLPkgPedersen
