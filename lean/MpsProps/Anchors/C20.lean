-- written by bin/mkanchors: the source pins of the files the anchors of C20 name
import MpsProps.Src.SrcLInternalRound
import MpsProps.Src.SrcLPkgParty
import MpsProps.Src.SrcLProtocolsCmp
import MpsProps.Src.SrcCmpConfig
import MpsProps.Src.SrcCmpSign
import MpsProps.Src.SrcCmpPresign
import MpsProps.Src.SrcCmpKeygen
import MpsProps.Src.SrcLProtocolsFrost
import MpsProps.Src.SrcFrostKeygen
import MpsProps.Src.SrcFrostSign
import MpsProps.Src.SrcLProtocolsDoerner
import MpsProps.Src.SrcDoernerKeygen
import MpsProps.Src.SrcDoernerSign
import MpsProps.Src.SrcLPkgEcdsa
import MpsProps.Src.SrcLPkgProtocol
