-- written by bin/mkanchors: the source pins of the files the anchors of C01 name
import MpsProps.Src.SrcCmpSign
import MpsProps.Src.SrcCmpPresign
import MpsProps.Src.SrcFrostSign
import MpsProps.Src.SrcDoernerSign
import MpsProps.Src.SrcLPkgEcdsa
import MpsProps.Src.SrcLPkgTaproot
import MpsProps.Src.SrcLPkgMathPolynomial
import MpsProps.Src.SrcLPkgMathCurve
import MpsProps.Src.SrcLInternalMta
import MpsProps.Src.SrcLInternalOt
import MpsProps.Src.SrcLInternalRound
import MpsProps.Src.SrcLPkgParty
