-- written by bin/mkanchors: the source pins of the files the anchors of C12 name
import MpsProps.Src.SrcLPkgPaillier
import MpsProps.Src.SrcLPkgMathArith
import MpsProps.Src.SrcLInternalMta
import MpsProps.Src.SrcLPkgMathCurve
import MpsProps.Src.SrcLPkgMathSample
