-- written by bin/mkanchors: the source pins of the files the anchors of C11 name
import MpsProps.Src.SrcFrostSign
import MpsProps.Src.SrcLPkgTaproot
import MpsProps.Src.SrcLPkgMathSample
