-- written by bin/mkanchors: the source pins of the files the anchors of C08 name
import MpsProps.Src.SrcLProtocolsCmp
import MpsProps.Src.SrcCmpKeygen
import MpsProps.Src.SrcLProtocolsFrost
import MpsProps.Src.SrcFrostKeygen
import MpsProps.Src.SrcLProtocolsDoerner
import MpsProps.Src.SrcDoernerKeygen
import MpsProps.Src.SrcLInternalRound
import MpsProps.Src.SrcLPkgParty
import MpsProps.Src.SrcLPkgMathPolynomial
