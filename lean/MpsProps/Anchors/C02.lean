-- written by bin/mkanchors: the source pins of the files the anchors of C02 name
import MpsProps.Src.SrcCmpKeygen
import MpsProps.Src.SrcCmpConfig
import MpsProps.Src.SrcFrostKeygen
import MpsProps.Src.SrcDoernerKeygen
import MpsProps.Src.SrcLPkgMathPolynomial
import MpsProps.Src.SrcLPkgParty
import MpsProps.Src.SrcLInternalRound
