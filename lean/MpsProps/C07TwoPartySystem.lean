import MpsProofs.System2
import MpsProps.C07TwoParty
/-
  C07 (two-party handler) — two-party composition.

  MpsProps/C07TwoParty.lean is about ONE `TwoPartyHandler` that is given an `Honest2` message set. Here: a session
  of the TWO handlers of a two-party protocol (`Mps.System2`: the pair of `State2`, `Sys2.deliver p m` = party `p`
  accepts `m`; `L` is built with `leader = true` and runs `advance` in its constructor, `F` with `leader = false`
  and does not move before its first `Accept`). A schedule is a list of (recipient, message) pairs; it is `Causal2`
  when every delivered message is, at the time of its delivery, in the `out` list of the OTHER party's handler —
  any order, any repetition, any interleaving, any delay (the handler has neither a stale nor a duplicate filter).

  Side conditions (both decidable, both in Mps/System2.lean, every field documented there):
  * `Session2Ok scL scF` — for (a), (b), (c): leader flags true / false; common ids, protocol id, ssid, final round
    number; `self` / `peer` swapped, different, both in the id list; no scripted `Finalize` failure; the round numbers
    of each script pairwise different; MATCHING: every message a party sends — a round OTHER THAN ITS LAST ONE with
    `send = true` (the last round of a script only returns the result) — carries a number `sendNum` with
    1 ≤ sendNum ≤ final that is the number of a round of the other party with `recv = true`.
  * `Session2Live scL scF` — additionally for (d): round numbers increasing on each side; every round with
    `recv = true` is fed by a round of the other party that is not its last one, sends this round's number, and has
    a smaller number itself (or the same number and `recv = false`); and if the follower's first round needs no
    input the leader's first round needs none either, sends, and is not the leader's last round (it is the leader's
    first message that wakes the follower).
  Both script shapes of the harness (`genScript2` in harness/main/suite_twoparty.go) satisfy both predicates
  whenever the session can complete at all: `ExAlt` (alternating) and `ExSym` (the symmetric shape of
  protocols/example) below. `Cex` has kernel-evaluated counterexamples for the non-obvious conditions.
  Lemmas in MpsProofs/System2.lean.
-/
namespace Mps.C07.TwoParty.Sys
open Mps Mps.Handler Mps.TwoParty Mps.System2 Mps.C07.TwoParty

/-- the state of a party in the session is its handler run on exactly the messages delivered to it (this ties the
    session model to the single-handler theorems of MpsProps/C07TwoParty.lean; no hypothesis) -/
theorem party_state_is_handler_run2 (scL scF : Script2) (sched : Sched2) (p : Side) :
    (Sys2.run scL scF sched).get p = run2 (scriptOf scL scF p) ((delivered2 sched p).map Call2.accept) :=
  run_get scL scF sched p

/-- (a) TWO-PARTY COMPOSITION. For every pair of scripts with `Session2Ok`, EVERY causal schedule and each party
    `p`: the list of all messages the other party has emitted so far is an `Honest2` message set for `p`'s script -/
theorem emitted_honest2 (scL scF : Script2) (ok : Session2Ok scL scF) (sched : Sched2)
    (hc : Causal2 scL scF sched = true) (p : Side) :
    Honest2 (scriptOf scL scF p) ((Sys2.run scL scF sched).get p.other).out :=
  System2.emitted_honest2 ok sched hc p

/-- … and what a causal schedule has delivered to `p` is part of that set (no side condition needed: `out` only
    grows): the hypotheses of `order_independent2` / `honest_delivery_never_blames2` hold for both parties -/
theorem delivered_are_emitted2 (scL scF : Script2) (sched : Sched2) (hc : Causal2 scL scF sched = true) (p : Side) :
    ∀ m ∈ delivered2 sched p, m ∈ ((Sys2.run scL scF sched).get p.other).out :=
  delivered_emitted2 sched p _ hc

/-- (a), static form: everything the other party can EVER emit — the closed-form list `idealOut2`: the messages
    `msgOf` of the rounds other than the last one with `send = true`, in script order — is an `Honest2` set for
    `p`, and everything any causal schedule delivers to `p` is in it -/
theorem ideal_honest2 (scL scF : Script2) (ok : Session2Ok scL scF) (p : Side) :
    Honest2 (scriptOf scL scF p) (idealOut2 (scriptOf scL scF p.other)) :=
  (ok.feeds p).honest

theorem delivered_are_ideal2 (scL scF : Script2) (ok : Session2Ok scL scF) (sched : Sched2)
    (hc : Causal2 scL scF sched = true) (p : Side) :
    ∀ m ∈ delivered2 sched p, m ∈ idealOut2 (scriptOf scL scF p.other) :=
  delivered_ideal ok sched hc p

/-- (b) in every state the session reaches under a causal schedule, neither party has an error: no message
    failure, no protocol abort, no peer abort (and no own failure either) -/
theorem no_honest_abort2 (scL scF : Script2) (ok : Session2Ok scL scF) (sched : Sched2)
    (hc : Causal2 scL scF sched = true) (p : Side) : ((Sys2.run scL scF sched).get p).err = none :=
  System2.no_honest_abort2 ok sched hc p

/-- (c) SCHEDULE INDEPENDENCE. Two causal schedules of the whole session — whatever they do at the other party —
    that have delivered the same SET of messages to `p` leave `p` with the same outcome (every field of the state but
    the message store). (The proof uses the causality of the first schedule only: `_c2` is not needed.) -/
theorem schedule_independent2 (scL scF : Script2) (ok : Session2Ok scL scF) (s1 s2 : Sched2)
    (c1 : Causal2 scL scF s1 = true) (_c2 : Causal2 scL scF s2 = true) (p : Side)
    (hsame : ∀ m, m ∈ delivered2 s1 p ↔ m ∈ delivered2 s2 p) :
    outcome2 ((Sys2.run scL scF s1).get p) = outcome2 ((Sys2.run scL scF s2).get p) := by
  obtain ⟨_, e2, e3, e4, e5, e6, e7, e8, e9, e10⟩ := (schedule_feq2 ok s1 s2 c1 p hsame).fields
  unfold outcome2
  rw [e2, e3, e4, e5, e6, e7, e8, e9, e10]

/-- (d) COMPLETION. With `Session2Live` in addition: a causal schedule that is fair to the end (`Complete2`:
    everything a party has emitted has been delivered to the other one) leaves BOTH parties ended, without error,
    the channel closed exactly once, with the result `sessionValue2` of their script — a closed formula: the sum over
    the script's rounds that expect input of the scripted value `hv2 ids peer self num` of the peer's message for that
    round; the messages a party has emitted are, in order, the closed-form list `idealOut2` of its script; and the
    set of messages delivered to it is exactly the `idealOut2` of the other script -/
theorem complete_schedule_completes2 (scL scF : Script2) (ok : Session2Ok scL scF) (live : Session2Live scL scF)
    (sched : Sched2) (hc : Causal2 scL scF sched = true)
    (hfair : Complete2 (Sys2.run scL scF sched) sched = true) (p : Side) :
    terminal2 ((Sys2.run scL scF sched).get p) = true ∧ ((Sys2.run scL scF sched).get p).err = none ∧
    ((Sys2.run scL scF sched).get p).result = some (sessionValue2 (scriptOf scL scF p)) ∧
    ((Sys2.run scL scF sched).get p).out = idealOut2 (scriptOf scL scF p) ∧
    ((Sys2.run scL scF sched).get p).closes = 1 ∧
    (∀ m, m ∈ delivered2 sched p ↔ m ∈ idealOut2 (scriptOf scL scF p.other)) :=
  System2.complete_schedule_completes2 ok live sched hc hfair p

/-- the closed formulas, spelled out -/
theorem sessionValue2_eq (sc : Script2) :
    sessionValue2 sc = ((sc.rounds.filter (·.recv)).map fun sp => hv2 sc.ids sc.peer sc.self sp.num).sum := rfl
theorem idealOut2_eq (sc : Script2) :
    idealOut2 sc = ((sc.rounds.dropLast.filter (·.send)).map fun r => msgOf sc r.sendNum) := rfl
theorem hv2_eq (ids : List Bytes) (frm to : Bytes) (n : Nat) :
    hv2 ids frm to n = (ids.idxOf frm + 1) * 1000 + (if to == [] then 0 else (ids.idxOf to + 1) * 10) + n := rfl

/-! ### non-vacuity 1: the ALTERNATING shape (leader: round 1 sends without input, then the even rounds receive;
    follower: the odd rounds receive) — the session of `Mps.C07.TwoParty.Ex`: leader rounds 1, 2, 4, 6, 8,
    follower rounds 1, 3, 5, 7, final round number 8 -/
namespace ExAlt
open Mps.C07.TwoParty.Ex

/-- leader → follower, follower → leader -/
def toF (n : Nat) : Msg := msgOf leadSc n
def toL (n : Nat) : Msg := msgOf follSc n

/-- the strict ping-pong -/
def inorder : Sched2 :=
  [(.F, toF 1), (.L, toL 2), (.F, toF 3), (.L, toL 4), (.F, toF 5), (.L, toL 6), (.F, toF 7)]

/-- NOT in order: repetitions at once (round 1 twice), late re-deliveries (round 1 again while the follower waits in
    round 3, rounds 2 and 4 again while the leader waits in round 6, round 3 again while the follower waits in
    round 7), and deliveries after the end. (In this shape a party sends only after it has received, so under a
    CAUSAL schedule no message can arrive before its round is reached: early arrival is exercised by `ExSym`.) -/
def sched : Sched2 :=
  [(.F, toF 1), (.F, toF 1), (.L, toL 2), (.F, toF 1), (.L, toL 2), (.F, toF 3), (.L, toL 4), (.L, toL 2),
   (.F, toF 5), (.L, toL 4), (.F, toF 3), (.L, toL 6), (.L, toL 2), (.F, toF 7), (.F, toF 1), (.L, toL 6)]

theorem session_ok : Session2Ok leadSc follSc := by decide
theorem session_live : Session2Live leadSc follSc := by decide
set_option maxRecDepth 1000000 in
theorem sched_causal : Causal2 leadSc follSc sched = true := by decide
set_option maxRecDepth 1000000 in
theorem inorder_causal : Causal2 leadSc follSc inorder = true := by decide
/-- round numbers of the messages delivered to the leader / the follower, in the order of delivery -/
theorem sched_not_in_order : (delivered2 sched .L).map (·.rnd) = [2, 2, 4, 2, 4, 6, 2, 6] ∧
    (delivered2 sched .F).map (·.rnd) = [1, 1, 1, 3, 5, 3, 7, 1] := by decide
theorem same_sets : ∀ p, (∀ m ∈ delivered2 sched p, m ∈ delivered2 inorder p) ∧
    (∀ m ∈ delivered2 inorder p, m ∈ delivered2 sched p) := by
  intro p; cases p <;> decide
set_option maxRecDepth 1000000 in
theorem sched_complete : Complete2 (Sys2.run leadSc follSc sched) sched = true := by decide
/-- a prefix of `sched`: the session is still running (leader waits in round 6, follower in round 5) -/
def part : Sched2 := sched.take 8
set_option maxRecDepth 1000000 in
theorem part_causal : Causal2 leadSc follSc part = true := by decide

/-- the hypotheses of (a), (b) are satisfiable (complete and running session) -/
example : Honest2 leadSc (Sys2.run leadSc follSc sched).f.out := emitted_honest2 _ _ session_ok sched sched_causal .L
example : Honest2 follSc (Sys2.run leadSc follSc part).l.out := emitted_honest2 _ _ session_ok part part_causal .F
example : ∀ m ∈ delivered2 part .L, m ∈ (Sys2.run leadSc follSc part).f.out :=
  delivered_are_emitted2 _ _ part part_causal .L
example : Honest2 follSc (idealOut2 leadSc) := ideal_honest2 leadSc follSc session_ok .F
example : ∀ m ∈ delivered2 sched .F, m ∈ idealOut2 leadSc := delivered_are_ideal2 _ _ session_ok sched sched_causal .F
example : (Sys2.run leadSc follSc sched).l.err = none := no_honest_abort2 _ _ session_ok sched sched_causal .L
example : (Sys2.run leadSc follSc part).f.err = none := no_honest_abort2 _ _ session_ok part part_causal .F
/-- … of (c), with two different schedules, for both parties -/
example (p : Side) : outcome2 ((Sys2.run leadSc follSc sched).get p) = outcome2 ((Sys2.run leadSc follSc inorder).get p) :=
  schedule_independent2 _ _ session_ok sched inorder sched_causal inorder_causal p
    (fun m => ⟨(same_sets p).1 m, (same_sets p).2 m⟩)
/-- … and of (d) -/
example (p : Side) : ((Sys2.run leadSc follSc sched).get p).result = some (sessionValue2 (scriptOf leadSc follSc p)) :=
  (complete_schedule_completes2 _ _ session_ok session_live sched sched_causal sched_complete p).2.2.1
example : (Sys2.run leadSc follSc sched).l.out = idealOut2 leadSc :=
  (complete_schedule_completes2 _ _ session_ok session_live sched sched_causal sched_complete .L).2.2.2.1

-- the values the kernel computes for this session (the same as in `Mps.C07.TwoParty.Ex`)
example : sessionValue2 leadSc = 6042 ∧ sessionValue2 follSc = 4096 := by decide
example : idealOut2 leadSc = [toF 1, toF 3, toF 5, toF 7] ∧ idealOut2 follSc = [toL 2, toL 4, toL 6] := by decide
example : idealOut2 leadSc = MF ∧ idealOut2 follSc = ML := by decide
set_option maxRecDepth 1000000 in
example : (Sys2.run leadSc follSc sched).l.result = some 6042 ∧ (Sys2.run leadSc follSc sched).f.result = some 4096 := by
  decide
set_option maxRecDepth 1000000 in
example : terminal2 (Sys2.run leadSc follSc part).l = false ∧ (Sys2.run leadSc follSc part).l.cur = 6 ∧
    terminal2 (Sys2.run leadSc follSc part).f = false ∧ (Sys2.run leadSc follSc part).f.cur = 5 := by decide
end ExAlt

/-! ### non-vacuity 2: the SYMMETRIC shape of protocols/example (both parties start in a round that consumes
    nothing and sends, then one message per round in both directions; the follower does not move in its constructor
    and is woken by the leader's first message while it is still in round 1): `genScript2` with M = 3 -/
namespace ExSym

def rounds : List Round2 := [⟨1, false, true, 2⟩, ⟨2, true, true, 3⟩, ⟨3, true, true, 4⟩, ⟨4, true, false, 5⟩]
def scL : Script2 := ⟨[[97], [98]], [97], [98], 5, rounds, [7], [9], true, 0⟩
def scF : Script2 := ⟨[[97], [98]], [98], [97], 5, rounds, [7], [9], false, 0⟩
def toF (n : Nat) : Msg := msgOf scL n
def toL (n : Nat) : Msg := msgOf scF n

/-- round by round -/
def inorder : Sched2 := [(.F, toF 2), (.L, toL 2), (.F, toF 3), (.L, toL 3), (.F, toF 4), (.L, toL 4)]

/-- NOT in order. The leader's round-2 message wakes the follower in round 1; it runs to round 3 and has emitted its
    messages for rounds 2 and 3. The leader gets the round-3 message EARLY (it waits in round 2), then the round-2
    message, and runs to round 4. The follower gets round 2 again (repetition, LATE: it waits in round 3) and the
    round-4 message EARLY, then round 3, and ends. The leader gets round 2 again LATE (it waits in round 4), round 3
    again, then round 4, and ends; one more delivery after the end on each side. -/
def sched : Sched2 :=
  [(.F, toF 2), (.L, toL 3), (.L, toL 2), (.F, toF 2), (.F, toF 4), (.F, toF 3), (.L, toL 2), (.L, toL 3),
   (.L, toL 4), (.L, toL 2), (.F, toF 3)]

theorem session_ok : Session2Ok scL scF := by decide
theorem session_live : Session2Live scL scF := by decide
set_option maxRecDepth 1000000 in
theorem sched_causal : Causal2 scL scF sched = true := by decide
set_option maxRecDepth 1000000 in
theorem inorder_causal : Causal2 scL scF inorder = true := by decide
theorem sched_not_in_order : (delivered2 sched .L).map (·.rnd) = [3, 2, 2, 3, 4, 2] ∧
    (delivered2 sched .F).map (·.rnd) = [2, 2, 4, 3, 3] := by decide
theorem same_sets : ∀ p, (∀ m ∈ delivered2 sched p, m ∈ delivered2 inorder p) ∧
    (∀ m ∈ delivered2 inorder p, m ∈ delivered2 sched p) := by
  intro p; cases p <;> decide
set_option maxRecDepth 1000000 in
theorem sched_complete : Complete2 (Sys2.run scL scF sched) sched = true := by decide
/-- a prefix: the leader holds the early round-3 message and still waits in round 2; the follower waits in round 3 -/
def part : Sched2 := sched.take 2
set_option maxRecDepth 1000000 in
theorem part_causal : Causal2 scL scF part = true := by decide
set_option maxRecDepth 1000000 in
/-- the follower is not moved by its constructor (it is in round 1, has emitted nothing) and is woken by the first
    delivery; the early message is only stored -/
theorem woken_and_early : (Sys2.init scL scF).f.cur = 1 ∧ (Sys2.init scL scF).f.out = [] ∧
    (Sys2.run scL scF part).f.cur = 3 ∧ (Sys2.run scL scF part).f.out = [toL 2, toL 3] ∧
    (Sys2.run scL scF part).l.cur = 2 ∧ lookup2 (Sys2.run scL scF part).l.msgs 3 = some (toL 3) := by decide

/-- the hypotheses of (a), (b) are satisfiable (complete and running session) -/
example : Honest2 scL (Sys2.run scL scF sched).f.out := emitted_honest2 _ _ session_ok sched sched_causal .L
example : Honest2 scF (Sys2.run scL scF part).l.out := emitted_honest2 _ _ session_ok part part_causal .F
example : ∀ m ∈ delivered2 part .L, m ∈ (Sys2.run scL scF part).f.out := delivered_are_emitted2 _ _ part part_causal .L
example : Honest2 scL (idealOut2 scF) := ideal_honest2 scL scF session_ok .L
example : ∀ m ∈ delivered2 sched .L, m ∈ idealOut2 scF := delivered_are_ideal2 _ _ session_ok sched sched_causal .L
example : (Sys2.run scL scF sched).f.err = none := no_honest_abort2 _ _ session_ok sched sched_causal .F
example : (Sys2.run scL scF part).l.err = none := no_honest_abort2 _ _ session_ok part part_causal .L
/-- … of (c), with two different schedules, for both parties -/
example (p : Side) : outcome2 ((Sys2.run scL scF sched).get p) = outcome2 ((Sys2.run scL scF inorder).get p) :=
  schedule_independent2 _ _ session_ok sched inorder sched_causal inorder_causal p
    (fun m => ⟨(same_sets p).1 m, (same_sets p).2 m⟩)
/-- … and of (d) -/
example (p : Side) : ((Sys2.run scL scF sched).get p).result = some (sessionValue2 (scriptOf scL scF p)) :=
  (complete_schedule_completes2 _ _ session_ok session_live sched sched_causal sched_complete p).2.2.1
example : (Sys2.run scL scF sched).f.out = idealOut2 scF :=
  (complete_schedule_completes2 _ _ session_ok session_live sched sched_causal sched_complete .F).2.2.2.1

example : sessionValue2 scL = 6039 ∧ sessionValue2 scF = 3069 := by decide
example : idealOut2 scL = [toF 2, toF 3, toF 4] ∧ idealOut2 scF = [toL 2, toL 3, toL 4] := by decide
set_option maxRecDepth 1000000 in
example : (Sys2.run scL scF sched).l.result = some 6039 ∧ (Sys2.run scL scF sched).f.result = some 3069 := by decide
end ExSym

/-! ### the harness's generator: `genScript2` (harness/main/suite_twoparty.go) draws M ∈ 1 … 5, builds the alternating
    shape (optionally with a silent extra round M + 1 at the leader's end) or the symmetric shape. All of its
    sessions (without the optional scripted `Finalize` error) satisfy `Session2Ok`; `Session2Live` holds exactly for
    those that can complete: the symmetric ones, and the alternating ones with odd M and the extra round (in the
    others the last message of the ping-pong would have to be sent by a party's LAST round, which only returns the
    result). Kernel-evaluated for the generator's whole range. -/
namespace Gen

def upto (M : Nat) : List Nat := (List.range M).map (· + 1)
def mkPair (final : Nat) (lead foll : List Round2) : Script2 × Script2 :=
  (⟨[[97], [98]], [97], [98], final, lead, [7], [9], true, 0⟩, ⟨[[97], [98]], [98], [97], final, foll, [7], [9], false, 0⟩)
def alt (M : Nat) (extra : Bool) : Script2 × Script2 :=
  mkPair (M + 1)
    (⟨1, false, true, 1⟩ :: ((upto M).filter (· % 2 == 0)).map (fun k => ⟨k, true, decide (k < M), k + 1⟩) ++
      (if extra then [⟨M + 1, false, false, 0⟩] else []))
    (((upto M).filter (· % 2 == 1)).map fun k => ⟨k, true, decide (k < M), k + 1⟩)
def sym (M : Nat) : Script2 × Script2 :=
  let rs : List Round2 := (upto (M + 1)).map fun k => ⟨k, decide (k > 1), decide (k ≤ M), k + 1⟩
  mkPair (M + 2) rs rs

example : alt 7 true = (Ex.leadSc, Ex.follSc) := rfl
example : sym 3 = (ExSym.scL, ExSym.scF) := rfl
theorem alt_ok : ∀ M ∈ [1, 2, 3, 4, 5], ∀ extra ∈ [true, false], Session2Ok (alt M extra).1 (alt M extra).2 := by decide
theorem alt_live : ∀ M ∈ [1, 3, 5], Session2Live (alt M true).1 (alt M true).2 := by decide
theorem alt_not_live : (∀ M ∈ [1, 3, 5], ¬ Session2Live (alt M false).1 (alt M false).2) ∧
    (∀ M ∈ [2, 4], ∀ extra ∈ [true, false], ¬ Session2Live (alt M extra).1 (alt M extra).2) := by decide
theorem sym_ok_live : ∀ M ∈ [1, 2, 3, 4, 5], Session2Ok (sym M).1 (sym M).2 ∧ Session2Live (sym M).1 (sym M).2 := by
  decide
end Gen

/-! ### counterexamples: what `Session2Ok` / `Session2Live` exclude does break (b), (c) / (d) -/
namespace Cex

def ids2 : List Bytes := [[97], [98]]
def mkL (final : Nat) (rs : List Round2) : Script2 := ⟨ids2, [97], [98], final, rs, [7], [9], true, 0⟩
def mkF (final : Nat) (rs : List Round2) : Script2 := ⟨ids2, [98], [97], final, rs, [7], [9], false, 0⟩

/-- the five conditions of `Session2Live`, one by one (to show which one a counterexample violates) -/
abbrev incr (a : Script2) : Prop := a.rounds.Pairwise (fun x y => x.num < y.num)
abbrev fedBy (a b : Script2) : Prop :=
  ∀ sp ∈ a.rounds, sp.recv = true → ∃ r ∈ b.rounds.dropLast, r.send = true ∧ r.sendNum = sp.num ∧
    (r.num < sp.num ∨ (r.num = sp.num ∧ r.recv = false))
abbrev wakeOk (scL scF : Script2) : Prop :=
  (scF.rounds.getD 0 default).recv = true ∨
    ((scL.rounds.getD 0 default).recv = false ∧ (scL.rounds.getD 0 default).send = true ∧ 2 ≤ scL.rounds.length)
theorem session2Live_iff (scL scF : Script2) :
    Session2Live scL scF ↔ incr scL ∧ incr scF ∧ fedBy scL scF ∧ fedBy scF scL ∧ wakeOk scL scF :=
  ⟨fun h => ⟨h.1, h.2, h.3, h.4, h.5⟩, fun h => ⟨h.1, h.2.1, h.2.2.1, h.2.2.2.1, h.2.2.2.2⟩⟩

/-- `1 ≤ sendNum`: a scripted message with round number 0 is read as the peer's abort notice. The leader's first
    round sends "for round 0"; the delivery is causal; the follower ends with `peerAbort` -/
def zL : Script2 := mkL 2 [⟨1, false, true, 0⟩, ⟨2, false, false, 0⟩]
def zF : Script2 := mkF 2 [⟨1, true, false, 0⟩]
set_option maxRecDepth 100000 in
theorem send_zero_aborts : ¬ Session2Ok zL zF ∧ Causal2 zL zF [(.F, msgOf zL 0)] = true ∧
    (Sys2.run zL zF [(.F, msgOf zL 0)]).f.err = some .peerAbort := by decide

/-- the target round must expect input: the leader sends for round number 2, which is a SILENT round of the
    follower; `verifyMessage` fails on a round without `MessageContent` and the follower blames the leader -/
def sL : Script2 := mkL 3 [⟨1, false, true, 2⟩, ⟨3, false, false, 0⟩]
def sF : Script2 := mkF 3 [⟨2, false, false, 0⟩, ⟨3, false, false, 0⟩]
set_option maxRecDepth 100000 in
theorem send_to_silent_aborts : ¬ Session2Ok sL sF ∧ Causal2 sL sF [(.F, msgOf sL 2)] = true ∧
    (Sys2.run sL sF [(.F, msgOf sL 2)]).f.err = some .msgFail := by decide

/-- pairwise different round numbers: the follower has a silent round 2 before its receiving round 2; the leader emits
    the messages for rounds 1 and 2 in its constructor. Every message goes to a round that expects input, both
    schedules are causal and deliver the same set — delivered in order the follower completes, delivered in the
    other order it blames the leader: (b) and (c) both fail -/
def dL : Script2 := mkL 4 [⟨1, false, true, 1⟩, ⟨3, false, true, 2⟩, ⟨4, false, false, 0⟩]
def dF : Script2 := mkF 4 [⟨1, true, false, 0⟩, ⟨2, false, false, 0⟩, ⟨2, true, false, 0⟩]
set_option maxRecDepth 100000 in
theorem dup_rounds_abort : ¬ Session2Ok dL dF ∧
    Causal2 dL dF [(.F, msgOf dL 1), (.F, msgOf dL 2)] = true ∧ Causal2 dL dF [(.F, msgOf dL 2), (.F, msgOf dL 1)] = true ∧
    (Sys2.run dL dF [(.F, msgOf dL 1), (.F, msgOf dL 2)]).f.err = none ∧
    (Sys2.run dL dF [(.F, msgOf dL 1), (.F, msgOf dL 2)]).f.result = some 2043 ∧
    (Sys2.run dL dF [(.F, msgOf dL 2), (.F, msgOf dL 1)]).f.err = some .msgFail := by decide

/-- `Session2Live.wake`: the follower's first round needs no input and would send what the leader's first round
    waits for — but the follower does not move in its constructor. `Session2Ok` holds, the EMPTY schedule is causal
    and fair to the end, and nobody ever ends -/
def wL : Script2 := mkL 3 [⟨2, true, false, 0⟩]
def wF : Script2 := mkF 3 [⟨1, false, true, 2⟩, ⟨3, false, false, 0⟩]
set_option maxRecDepth 100000 in
theorem unwoken_deadlock : Session2Ok wL wF ∧ ¬ Session2Live wL wF ∧ Causal2 wL wF [] = true ∧
    Complete2 (Sys2.run wL wF []) [] = true ∧ terminal2 (Sys2.run wL wF []).l = false ∧
    terminal2 (Sys2.run wL wF []).f = false := by decide

theorem unwoken_only_wake : incr wL ∧ incr wF ∧ fedBy wL wF ∧ fedBy wF wL ∧ ¬ wakeOk wL wF := by decide

/-- the order condition of `Session2Live.recvL`: the leader's round 2 waits for the message of the follower's
    round 3, which waits for the message of the leader's round 2. `Session2Ok` holds, the schedule is causal and
    fair to the end, and both wait forever -/
def cL : Script2 := mkL 5 [⟨1, false, true, 1⟩, ⟨2, true, true, 3⟩, ⟨4, false, false, 0⟩]
def cF : Script2 := mkF 5 [⟨1, true, false, 0⟩, ⟨3, true, true, 2⟩, ⟨5, false, false, 0⟩]
set_option maxRecDepth 100000 in
theorem cyclic_deadlock : Session2Ok cL cF ∧ ¬ Session2Live cL cF ∧ Causal2 cL cF [(.F, msgOf cL 1)] = true ∧
    Complete2 (Sys2.run cL cF [(.F, msgOf cL 1)]) [(.F, msgOf cL 1)] = true ∧
    terminal2 (Sys2.run cL cF [(.F, msgOf cL 1)]).l = false ∧ terminal2 (Sys2.run cL cF [(.F, msgOf cL 1)]).f = false := by
  decide

theorem cyclic_only_order : incr cL ∧ incr cF ∧ ¬ fedBy cL cF ∧ fedBy cF cL ∧ wakeOk cL cF := by decide

/-- increasing round numbers: every receiving round is fed by a round with a smaller number, but the follower
    executes its rounds in the order 5, 1, 7: its round 5 waits for the leader's round 2, which waits for the
    follower's round 1. `Session2Ok` holds, the empty schedule is causal and fair to the end, both wait forever -/
def uL : Script2 := mkL 7 [⟨2, true, true, 5⟩, ⟨6, false, false, 0⟩]
def uF : Script2 := mkF 7 [⟨5, true, false, 0⟩, ⟨1, false, true, 2⟩, ⟨7, false, false, 0⟩]
set_option maxRecDepth 100000 in
theorem unordered_deadlock : Session2Ok uL uF ∧ ¬ Session2Live uL uF ∧ Causal2 uL uF [] = true ∧
    Complete2 (Sys2.run uL uF []) [] = true ∧ terminal2 (Sys2.run uL uF []).l = false ∧
    terminal2 (Sys2.run uL uF []).f = false := by decide

theorem unordered_only_incr : incr uL ∧ ¬ incr uF ∧ fedBy uL uF ∧ fedBy uF uL ∧ wakeOk uL uF := by decide

/-- the last round of a script never sends (whatever its `send` flag says): with a single leader round that "sends"
    the follower is never fed. `Session2Ok` does not look at the flag of the last round, `Session2Live.recvF` does
    not accept it as a feeder -/
def lL : Script2 := mkL 2 [⟨1, false, true, 1⟩]
def lF : Script2 := mkF 2 [⟨1, true, false, 0⟩]
set_option maxRecDepth 100000 in
theorem last_round_is_silent : Session2Ok lL lF ∧ ¬ Session2Live lL lF ∧ (Sys2.run lL lF []).l.out = [] ∧
    (Sys2.run lL lF []).l.result = some 0 ∧ Complete2 (Sys2.run lL lF []) [] = true ∧
    terminal2 (Sys2.run lL lF []).f = false := by decide
end Cex

end Mps.C07.TwoParty.Sys
