import MpsProps.Anchors.C20
import MpsProofs.Start
import Mps.StartTables
import Mps.Drv.Start
import MpsGen.Start
import MpsGen.Session
/-
  C20 — Invalid session parameters are refused at start.

  Model: Mps.Start. `startAsCoded c fn p` transcribes the decision logic of the 16 start functions
  (+ round.NewSession, Config.CanSign, ValidThreshold, PreSignature.Validate and the first round's
  use of the key material, which runs during handler construction) guard by guard, with the outcome
  `crash` where the code uses an absent value before any check. `c : Code` says which groups of guards
  the tree contains; `Mps.Drv.Start.currentCode` computes it from the regenerated guard tables, so the
  transcription follows the tree (`gen_start_tables` pins every table to one of its two known variants).
  `startSpec` is the decision the property demands: ok exactly on valid parameters, err otherwise.

  Full statements, for ALL start functions and ALL parameter descriptions:
    start_total, startSpec_iff_valid, start_ok_imp_valid (code with every guard), canSign_iff, presig_validate_iff.
  For a tree WITHOUT a group of guards the full statement is false for the code as it is: proved as
  `…_counterexample` (each witness is replayed on the real code by suite `start`), next to
  `start_ok_imp_core_partial`, which holds on every tree.
-/
namespace Mps.C20
open Mps Mps.Start

/-! ### the demanded decision -/

/-- the demanded decision accepts exactly the valid parameter sets … -/
theorem startSpec_iff_valid (fn : Fn) (p : Params) : startSpec fn p = Out.ok ↔ Valid fn p := by
  rw [← validB_iff]
  unfold startSpec
  split <;> simp_all

/-- … and answers every other one with an error -/
theorem startSpec_err_iff_invalid (fn : Fn) (p : Params) : startSpec fn p = Out.err ↔ ¬ Valid fn p := by
  rw [← validB_iff]
  unfold startSpec
  split <;> simp_all

/-- no path other than ok / err: neither the demanded decision nor the code with every guard in place
    can reach a use of an absent value -/
theorem start_total (fn : Fn) (p : Params) :
    startSpec fn p ≠ Out.crash ∧ startAsCoded Code.fixed fn p ≠ Out.crash := by
  refine ⟨?_, fixed_ne_crash fn p⟩
  unfold startSpec
  split <;> simp

/-! ### the code -/

/-- with every guard in place a start that is allowed has valid parameters: 0 ≤ t < n (≤ 2³²−1), ids pairwise
    different, non-empty, with non-zero pairwise different scalar images, self among the parties, more than t
    signers, all of them shareholders, message non-empty where one is signed, key material / presignature
    present and complete -/
theorem start_ok_imp_valid (fn : Fn) (p : Params) (h : startAsCoded Code.fixed fn p = Out.ok) : Valid fn p :=
  (validB_iff fn p).1 (fixed_ok_imp_validB fn p h)

/-- the code with every guard in place never accepts what the property refuses -/
theorem start_refuses_invalid (fn : Fn) (p : Params) (h : startSpec fn p = Out.err) :
    startAsCoded Code.fixed fn p = Out.err := by
  have hv := (startSpec_err_iff_invalid fn p).1 h
  have hc := fixed_ne_crash fn p
  cases ho : startAsCoded Code.fixed fn p with
  | ok => exact absurd (start_ok_imp_valid fn p ho) hv
  | err => rfl
  | crash => exact absurd ho hc

/-- PARTIAL (holds for the code of EVERY tree, guards or not): an allowed start has pairwise different
    participants that include the own id, a threshold 0 ≤ t < number of participants, for CMP signers that
    are all shareholders and a non-empty message. Full statement: `start_ok_imp_valid`, false on a tree
    without the guards — see the counterexamples below. -/
theorem start_ok_imp_core_partial (c : Code) (fn : Fn) (p : Params) (h : startAsCoded c fn p = Out.ok) : Core fn p :=
  ok_imp_core c fn p h

/-- `Config.CanSign` on a sorted signer list -/
theorem canSign_iff (cf : Cfg) (signers : List Bytes) :
    canSign cf signers = true ↔
      (0 ≤ cf.thr ∧ cf.thr ≤ 4294967295 ∧ cf.thr < signers.length) ∧ idsValid signers = true ∧ cf.id ∈ signers ∧
        ∀ j ∈ signers, j ∈ keys cf.shares := by
  simp only [canSign, Bool.and_eq_true, validThreshold_iff, List.contains_iff_mem, List.all_eq_true, and_assoc]

/-- a signer list accepted by `CanSign` has no duplicates -/
theorem canSign_nodup (cf : Cfg) (signers : List Bytes) (h : canSign cf signers = true) : signers.Nodup :=
  idsValid_nodup _ ((canSign_iff cf signers).1 h).2.1

/-- `PreSignature.Validate` with the nil guards accepts exactly the well-formed presignatures and never crashes -/
theorem presig_validate_iff (ps : Presig) :
    (presigValidate true ps = Out.ok ↔ PresigValid ps) ∧ presigValidate true ps ≠ Out.crash :=
  ⟨presigValidate_ok_iff ps, presigValidate_true_ne_crash ps⟩

/-! ### the tree without the guards: the full statements fail (witnesses replayed by suite `start`) -/

def abc : List (Bytes × Tri) := [([97], .good), ([98], .good), ([99], .good)]
def goodCfg : Cfg := { group := true, id := [97], thr := 1, secret := .good, aux := true, shares := some abc }
def baseParams : Params := { group := true, self := [97], other := [98], ids := [[97], [98]], thr := 1, msgLen := 32,
                             cfg := some goodCfg, presig := none }

/-- FROST Sign accepts signers that hold no share (harness: frost.Sign ids=foreign ⇒ honest peers panic in round 3) -/
theorem frost_sign_foreign_signer_counterexample :
    ∃ p, startAsCoded Code.head .frostSign p = Out.ok ∧ ¬ Valid .frostSign p := by
  refine ⟨{ baseParams with ids := [[97], [122, 122]] }, by decide, ?_⟩
  rw [← startSpec_err_iff_invalid]; decide

theorem frost_sign_taproot_foreign_signer_counterexample :
    ∃ p, startAsCoded Code.head .frostSignTaproot p = Out.ok ∧ ¬ Valid .frostSignTaproot p := by
  refine ⟨{ baseParams with ids := [[97], [122, 122]] }, by decide, ?_⟩
  rw [← startSpec_err_iff_invalid]; decide

/-- FROST Sign accepts an empty message (harness: frost.Sign msg=empty ⇒ a signature on the empty message) -/
theorem frost_sign_empty_message_counterexample :
    ∃ p, startAsCoded Code.head .frostSign p = Out.ok ∧ ¬ Valid .frostSign p := by
  refine ⟨{ baseParams with msgLen := 0 }, by decide, ?_⟩
  rw [← startSpec_err_iff_invalid]; decide

/-- Doerner signing accepts an empty message hash -/
theorem doerner_sign_empty_message_counterexample :
    ∃ p, startAsCoded Code.head .doernerSignSender p = Out.ok ∧ ¬ Valid .doernerSignSender p := by
  refine ⟨{ baseParams with msgLen := 0 }, by decide, ?_⟩
  rw [← startSpec_err_iff_invalid]; decide

/-- absent key material is dereferenced before any check, for EVERY other parameter -/
theorem nil_config_crash_counterexample (fn : Fn)
    (hfn : fn ∈ [Fn.cmpRefresh, .cmpSign, .frostRefresh, .frostRefreshTaproot, .frostSign, .frostSignTaproot,
                 .doernerRefreshReceiver, .doernerRefreshSender, .doernerSignReceiver, .doernerSignSender])
    (p : Params) (h : p.cfg = none) : startAsCoded Code.head fn p = Out.crash := by
  simp only [List.mem_cons, List.not_mem_nil, or_false] at hfn
  rcases hfn with rfl | rfl | rfl | rfl | rfl | rfl | rfl | rfl | rfl | rfl <;> simp [startAsCoded, h, Code.head]

/-- a nil group reaches the first use of the group -/
theorem nil_group_crash_counterexample :
    startAsCoded Code.head .cmpKeygen { baseParams with group := false, ids := [[97], [98], [99]] } = Out.crash ∧
    startAsCoded Code.head .frostKeygen { baseParams with group := false, ids := [[97], [98], [99]] } = Out.crash ∧
    startAsCoded Code.head .doernerKeygen { baseParams with group := false } = Out.crash := by decide

/-- an id with the zero scalar image ("\x00") is accepted as a participant (harness: every honest peer
    panics with "attempt to leak secret" when it evaluates its polynomial for that party); so are two ids
    with one scalar image ("a", "\x00a") -/
theorem zero_scalar_id_counterexample :
    ∃ p, startAsCoded Code.head .frostKeygen p = Out.ok ∧ ¬ Valid .frostKeygen p := by
  refine ⟨{ baseParams with ids := [[97], [98], [99], [0]] }, by decide, ?_⟩
  rw [← startSpec_err_iff_invalid]; decide

theorem same_scalar_ids_counterexample :
    ∃ p, startAsCoded Code.head .cmpKeygen p = Out.ok ∧ ¬ Valid .cmpKeygen p := by
  refine ⟨{ baseParams with ids := [[97], [98], [99], [0, 97]] }, by decide, ?_⟩
  rw [← startSpec_err_iff_invalid]; decide

/-- key material without its secret share passes the start of cmp.Refresh (and the session then aborts
    blaming this party), key material without the Paillier key passes the start of cmp.Sign (and the party
    panics in round 1) -/
theorem incomplete_config_counterexample :
    (∃ p, startAsCoded Code.head .cmpRefresh p = Out.ok ∧ ¬ Valid .cmpRefresh p) ∧
    (∃ p, startAsCoded Code.head .cmpSign p = Out.ok ∧ ¬ Valid .cmpSign p) := by
  refine ⟨⟨{ baseParams with cfg := some { goodCfg with secret := .absent } }, by decide, ?_⟩,
          ⟨{ baseParams with cfg := some { goodCfg with aux := false } }, by decide, ?_⟩⟩ <;>
    (rw [← startSpec_err_iff_invalid]; decide)

/-- `PreSignature.Validate` without the nil guards dereferences absent fields -/
theorem presig_validate_crash_counterexample :
    presigValidate false { r := .absent, k := .good, chi := .good, idLen := 32, rbar := some abc, s := some abc } = Out.crash ∧
    presigValidate false { r := .good, k := .good, chi := .good, idLen := 32, rbar := none, s := none } = Out.crash := by decide

/-! ### non-vacuity: the hypotheses of the theorems above are met by concrete valid calls -/

example : startAsCoded Code.fixed .cmpSign baseParams = Out.ok := by decide
example : startAsCoded Code.fixed .frostSign baseParams = Out.ok := by decide
example : startAsCoded Code.fixed .frostKeygen { baseParams with ids := [[97], [98], [99]] } = Out.ok := by decide
example : startAsCoded Code.fixed .doernerSignReceiver baseParams = Out.ok := by decide
example : startAsCoded Code.head .cmpSign baseParams = Out.ok := by decide
example : startSpec .cmpSign { baseParams with msgLen := 0 } = Out.err := by decide
example : canSign goodCfg [[97], [98]] = true := by decide
example : presigValidate true { r := .good, k := .good, chi := .good, idLen := 32, rbar := some abc, s := some abc } = Out.ok := by decide

/-! ### the tie to the tree: regenerated guard tables -/

set_option maxRecDepth 8192

open Mps.Start.Pinned in
/-- every regenerated guard table of the start functions equals the pinned variant WITH the guards (`fixed`,
    Mps/StartTables.lean; `head` there is the tree as found, before the fix commits, kept for the counterexamples) -/
theorem gen_start_tables_cmp :
    MpsGen.Start.cmpKeygenStart = fixed.cmpKeygenStart ∧
    MpsGen.Start.cmpRefresh = fixed.cmpRefresh ∧
    MpsGen.Start.cmpSign = fixed.cmpSign ∧
    MpsGen.Start.cmpPresign = fixed.cmpPresign ∧
    MpsGen.Start.cmpPresignOnline = fixed.cmpPresignOnline ∧
    MpsGen.Start.cmpCanSign = head.cmpCanSign ∧ MpsGen.Start.cmpValidThreshold = head.cmpValidThreshold ∧
    MpsGen.Start.presigValidate = fixed.presigValidate ∧
    MpsGen.Session.newSessionGuards = fixed.newSessionGuards := by
  decide

open Mps.Start.Pinned in
theorem gen_start_tables_frost :
    MpsGen.Start.frostKeygenCommon = fixed.frostKeygenCommon ∧
    MpsGen.Start.frostRefresh = fixed.frostRefresh ∧
    MpsGen.Start.frostRefreshTaproot = fixed.frostRefreshTaproot ∧
    MpsGen.Start.frostSign = fixed.frostSign ∧
    MpsGen.Start.frostSignTaproot = fixed.frostSignTaproot ∧
    MpsGen.Start.frostSignCommon = fixed.frostSignCommon := by
  decide

open Mps.Start.Pinned in
theorem gen_start_tables_doerner :
    MpsGen.Start.doernerStartKeygen = fixed.doernerStartKeygen ∧
    MpsGen.Start.doernerRefreshReceiver = fixed.doernerRefreshReceiver ∧
    MpsGen.Start.doernerRefreshSender = fixed.doernerRefreshSender ∧
    MpsGen.Start.doernerSignReceiver = fixed.doernerSignReceiver ∧
    MpsGen.Start.doernerSignSender = fixed.doernerSignSender := by
  decide

/-- the regenerated tables of THIS tree show every guard: the flags the driver's transcription runs with -/
theorem gen_current_code : Mps.Drv.Start.currentCode = Code.fixed := by decide

/-- the statement about THIS tree (`currentCode` = the flags read off the regenerated tables): whatever its
    start functions allow is valid and none of them can crash -/
theorem start_ok_imp_valid_current (fn : Fn) (p : Params) :
    (startAsCoded Mps.Drv.Start.currentCode fn p = Out.ok → Valid fn p) ∧
      startAsCoded Mps.Drv.Start.currentCode fn p ≠ Out.crash := by
  rw [gen_current_code]; exact ⟨start_ok_imp_valid fn p, fixed_ne_crash fn p⟩

end Mps.C20
