import MpsProps.Anchors.C05
import MpsProps.C17
import MpsProps.HandlerSrc
import Mps.Malform
import MpsGen.Guards
import Mps.GuardTables
/-
  C05 — No network input can crash, hang or exhaust an honest party.

  What is PROVED here is the model-level part: the handler model (Mps.Handler, a transcription of
  pkg/protocol/handler.go) is a total function, and for EVERY script, EVERY call history and EVERY message
  (any header, any content, decodable or not) an `Accept` has exactly one of three outcomes - ignored,
  carried on, ended cleanly (channel closed once, Result = error xor value) - and nothing else. The
  judgement `obsOk` that the driver applies to the observations made on the REAL handlers accepts every
  behaviour of the model (`model_behaviours_accepted`), so an observation it refuses, and every PANIC /
  TIMEOUT / MEMLIMIT, is a behaviour the model does not have.

  PARTIAL: Go panics, time and memory are runtime behaviour the model cannot exhibit. That part of the
  property is carried by (T) the regenerated guard-before-use tables below - every nil-able field of every zk
  proof and of every round message content, with whether its first occurrence is a guard or a use - and by
  (C) the malformation stream of suite `malform` through the real CanAccept / Accept.
-/
namespace Mps.C05
open Mps Mps.Handler Mps.Malform

theorem snapGood_of_good (s : State) (g : Good s) : snapGood (snapOf s) = true := by
  rcases g with l | d
  · obtain ⟨h1, h2, h3⟩ := l
    simp [snapGood, snapOf, terminal, h1, h2, h3]
  · obtain ⟨h1, h2⟩ := d
    rcases h2 with ⟨he, hr⟩ | ⟨he, hr⟩ <;> simp [snapGood, snapOf, terminal, h1, he, hr]

theorem ended_iff_terminal (s : State) : (snapOf s).ended = terminal s := rfl

/-- `Accept` is total and has one of three outcomes, for every script, every history of calls and every message:
    ignored (nothing changes), carried on (still running), ended cleanly (closed once, error xor result) -/
theorem accept_total (H : Bytes → Bytes) (sc : Script) (calls : List Call) (m : Msg) :
    let s := run H sc calls
    ∃ o : Outcome, classify (canAccept s m) (snapOf s) (snapOf (accept H s m)) = some o := by
  intro s
  have g0 : Good s := C17.lifecycle H sc calls
  have g1 : Good (accept H s m) := by
    have := C17.lifecycle H sc (calls ++ [Call.accept m])
    rw [run, List.foldl_append] at this
    exact this
  have h0 := snapGood_of_good s g0
  have h1 := snapGood_of_good _ g1
  simp only [classify, h0, h1, Bool.not_true, Bool.false_or, Bool.false_eq_true, if_false]
  by_cases ht : terminal s = true
  · have : accept H s m = s := accept_terminal H s m ht
    simp [ended_iff_terminal, ht, this]
  · have ht' : (snapOf s).ended = false := by simpa [ended_iff_terminal] using ht
    simp only [ht', Bool.false_eq_true, if_false]
    by_cases hc : canAccept s m = true
    · simp only [hc, Bool.not_true, Bool.false_eq_true, if_false]
      by_cases he : (snapOf (accept H s m)).ended = true <;> simp [he]
    · have hc' : canAccept s m = false := by simpa using hc
      have : accept H s m = s := C17.not_canAccept_noop H s m hc'
      simp [hc', this]

/-- a message that is refused, or that arrives after the end, changes nothing -/
theorem refused_or_late_is_ignored (H : Bytes → Bytes) (s : State) (m : Msg)
    (h : canAccept s m = false ∨ terminal s = true) : accept H s m = s := by
  rcases h with h | h
  · exact C17.not_canAccept_noop H s m h
  · exact accept_terminal H s m h

/-- the judgement applied to the real handlers accepts every behaviour of the model: state before, after any
    message, after any further calls -/
theorem model_behaviours_accepted (H : Bytes → Bytes) (sc : Script) (calls : List Call) (m : Msg) (rest : List Call) :
    let s0 := run H sc calls
    let s1 := accept H s0 m
    let s2 := rest.foldl (Handler.apply H) s1
    obsOk (canAccept s0 m) (snapOf s0) (snapOf s1) (snapOf s2) = true := by
  intro s0 s1 s2
  obtain ⟨o, ho⟩ := accept_total H sc calls m
  have e1 : s1 = run H sc (calls ++ [Call.accept m]) := by simp [s1, s0, run, List.foldl_append, Handler.apply]
  have e2 : s2 = run H sc (calls ++ [Call.accept m] ++ rest) := by
    simp only [s2, e1, run, List.foldl_append]
  have g2 : Good s2 := e2 ▸ C17.lifecycle H sc _
  have hfin : (snapOf s1).ended = true → s2 = s1 := by
    intro he
    rw [e2, e1]
    exact C17.ended_is_final H sc _ rest (by rw [← e1]; simpa [ended_iff_terminal] using he)
  have ho' : (classify (canAccept s0 m) (snapOf s0) (snapOf s1)).isSome = true := by
    show (classify (canAccept (run H sc calls) m) (snapOf (run H sc calls)) (snapOf (accept H (run H sc calls) m))).isSome = true
    rw [ho]; rfl
  simp only [obsOk, ho', snapGood_of_good s2 g2, Bool.true_and, Bool.or_eq_true, Bool.not_eq_true', beq_iff_eq]
  by_cases he : (snapOf s1).ended = true
  · right; rw [hfin he]
  · left; simpa using he

/-! ### the tie to the tree: guard-before-use tables -/

set_option maxRecDepth 16384

open Mps.Guards.Pinned in
/-- received content is decoded through the panic-proof decoder (fixed tree) or the bare one (tree as found) -/
theorem gen_decode_calls :
    MpsGen.Guards.decodeCalls = fixed.decodeCalls := by decide

open Mps.Guards.Pinned in
/-- the number of points `Exponent.UnmarshalBinary` allocates is the count field of the input: either unchecked
    (tree as found) or after the length / count guards (fixed tree) -/
theorem gen_exponent_guards :
    MpsGen.Guards.exponentAlloc = ["make([]curve.Point, int(size))"] ∧
    MpsGen.Guards.exponentUnmarshal = fixed.exponentUnmarshal := by decide

/-- zk proofs: every nil-able field of every proof that `Verify` uses is established by `IsValid` (or by a nil
    comparison at the head of `Verify`) - no candidate left - or the candidates are exactly the pinned ones of
    the tree as found (each is aimed at by suite `malform`: field absent / null / empty) -/
theorem gen_zk_guards :
    MpsGen.Guards.zkUnguarded = [] := by decide

/-- round messages: for every round of every protocol and each unit the handlers run, the first occurrence of
    every nil-able content field is a guard - or the exceptions are exactly the pinned ones of the tree as found -/
theorem gen_round_guards :
    MpsGen.Guards.roundUseFirst = [] := by decide

end Mps.C05
