import MpsProps.Anchors.C02
import Mps.Judge
import MpsProps.Src.SrcCmpKeygen
import MpsProps.Src.SrcFrostKeygen
import MpsProps.Src.SrcDoernerKeygen
import MpsProps.Src.SrcCmpConfig
import MpsProps.C02alg
import MpsProps.AlgGen
/-
  C02 — property theorems: the algebra layer (MpsProps/C02alg.lean) is imported here once merged.
-/
namespace Mps.C02
end Mps.C02
