import MpsProps.C14alg
import MpsProps.C01tap
/-
  C14 (FROST-Taproot) — `TaprootConfig.Derive` / `DeriveChild`: tweak, then renormalise to the even-y key.
-/
set_option linter.unusedSectionVars false
namespace Mps.C14tap
open Mps.Alg Mps.C01tap

variable {F G : Type} [Field F] [AddCommGroup G] [Module F G] (g : G) {ι : Type} [DecidableEq ι]

/-- **taproot_derive_is_sharing**: for every reconstruction list S (non-empty, distinct non-zero nodes), every
    tweak `a` and BOTH values of the parity test on the new key: the derived shares interpolate (with the code's
    Lagrange coefficients) to ±(sk + a), the derived table to ±(Y + a·g) with the same sign, and
    share·g = table entry is kept. -/
theorem taproot_derive_is_sharing (S : List ι) (x : ι → F) (hN : Nodes S x) (hne : S ≠ []) (sh : ι → F) (pub : ι → G)
    (a : F) (even : Bool) :
    reconstruct (lawful g : Ops F G) S x (fun i => tapDeriveShare (lawful g : Ops F G) even (sh i) a) =
        tapScalar (lawful g : Ops F G) even (deriveShare (lawful g : Ops F G) (reconstruct (lawful g : Ops F G) S x sh) a) ∧
    reconstructG (lawful g : Ops F G) S x (fun i => tapDerivePublic (lawful g : Ops F G) even (pub i) a) =
        tapPoint (lawful g : Ops F G) even (derivePublic (lawful g : Ops F G) (reconstructG (lawful g : Ops F G) S x pub) a) ∧
    (∀ i, actBase (lawful g : Ops F G) (sh i) = pub i →
      actBase (lawful g : Ops F G) (tapDeriveShare (lawful g : Ops F G) even (sh i) a) =
        tapDerivePublic (lawful g : Ops F G) even (pub i) a) := by
  obtain ⟨h1, h2, h3⟩ := C14alg.derive_is_sharing g S x hN hne sh pub a
  refine ⟨?_, ?_, ?_⟩
  · unfold tapDeriveShare
    rw [(taproot_keygen_sharing g S x (fun i => deriveShare (lawful g : Ops F G) (sh i) a) even).1, h1]
  · unfold tapDerivePublic
    rw [← h2]
    simp only [tapPoint_eq, reconstructG_lawful g hN.nodup, Finset.smul_sum]
    refine Finset.sum_congr rfl fun i _ => ?_
    rw [smul_comm]
  · intro i hi
    unfold tapDeriveShare tapDerivePublic
    rw [← h3 i hi]
    simp only [tapPoint_eq, tapScalar_eq, actBase_lawful, mul_smul]

/-- **taproot_derive_key_even**: the secret the derived shares interpolate to is the discrete logarithm of the
    EVEN-y point with the x coordinate that `Derive` exports (`publicKey.XBytes()` of Y + a·g), in any group with a
    parity predicate flipping under negation and a negation-invariant x coordinate. -/
theorem taproot_derive_key_even {X : Type} (evenY : G → Bool) (xc : G → X)
    (hpar : ∀ P : G, P ≠ 0 → evenY (-P) = !evenY P) (hxc : ∀ P : G, xc (-P) = xc P)
    (S : List ι) (x : ι → F) (hN : Nodes S x) (hne : S ≠ []) (sh : ι → F) (a : F)
    (hK : derivePublic (lawful g : Ops F G) (actBase (lawful g : Ops F G) (reconstruct (lawful g : Ops F G) S x sh)) a ≠ 0) :
    let K := derivePublic (lawful g : Ops F G) (actBase (lawful g : Ops F G) (reconstruct (lawful g : Ops F G) S x sh)) a
    let K' := actBase (lawful g : Ops F G)
      (reconstruct (lawful g : Ops F G) S x (fun i => tapDeriveShare (lawful g : Ops F G) (evenY K) (sh i) a))
    evenY K' = true ∧ K' ≠ 0 ∧ xc K' = xc K := by
  intro K K'
  have hK' : K' = tapPoint (lawful g : Ops F G) (evenY K) K := by
    show actBase (lawful g : Ops F G) _ = _
    rw [(taproot_derive_is_sharing g S x hN hne sh (fun i => actBase (lawful g : Ops F G) (sh i)) a (evenY K)).1]
    simp only [tapPoint_eq, tapScalar_eq, actBase_lawful, mul_smul, K, derivePublic, deriveShare, lawful_add, lawful_gadd,
      add_smul]
  obtain ⟨he, h0⟩ := taproot_norm_even (F := F) g evenY hpar K hK
  refine ⟨hK' ▸ he, hK' ▸ h0, ?_⟩
  rw [hK']
  cases evenY K <;> simp [tapPoint, hxc]

end Mps.C14tap
