import MpsProps.C01alg
import MpsProofs.Sig
/-
  C01 (FROST-Taproot) — the BIP-340 parity renormalisation of frost/keygen/round3.go and
  frost/sign/round2.go, for every signer list, every nonce, every challenge function and BOTH values
  of both parity tests; closed end to end against the BIP-340 verifier specification of Mps.Sig
  (`schnorrVerifyO`) in any group with a parity predicate that flips under negation.
-/
set_option linter.unusedSectionVars false
namespace Mps.C01tap
open Mps.Alg

variable {F G : Type} [Field F] [AddCommGroup G] [Module F G] (g : G) {ι : Type} [DecidableEq ι]

/-- the sign the conditional negation multiplies with -/
def sgn (even : Bool) : F := if even then 1 else -1

theorem tapScalar_eq (even : Bool) (s : F) : tapScalar (lawful g : Ops F G) even s = sgn even * s := by
  cases even <;> simp [tapScalar, sgn]

theorem tapPoint_eq (even : Bool) (P : G) : tapPoint (lawful g : Ops F G) even P = (sgn even : F) • P := by
  cases even <;> simp [tapPoint, sgn]

/-- **taproot_keygen_sharing** (keygen round 3): negating every private share (when the raw key has odd y)
    gives a sharing of the negated secret under the code's Lagrange coefficients, for ANY signer list;
    each negated verification share is the public image of the negated private share. -/
theorem taproot_keygen_sharing (S : List ι) (x : ι → F) (sh : ι → F) (even : Bool) :
    reconstruct (lawful g : Ops F G) S x (fun i => tapScalar (lawful g : Ops F G) even (sh i)) =
        tapScalar (lawful g : Ops F G) even (reconstruct (lawful g : Ops F G) S x sh) ∧
    (∀ i, tapPoint (lawful g : Ops F G) even (actBase (lawful g : Ops F G) (sh i)) =
        actBase (lawful g : Ops F G) (tapScalar (lawful g : Ops F G) even (sh i))) ∧
    tapPoint (lawful g : Ops F G) even (actBase (lawful g : Ops F G) (reconstruct (lawful g : Ops F G) S x sh)) =
        actBase (lawful g : Ops F G) (reconstruct (lawful g : Ops F G) S x
          (fun i => tapScalar (lawful g : Ops F G) even (sh i))) := by
  have h1 : reconstruct (lawful g : Ops F G) S x (fun i => tapScalar (lawful g : Ops F G) even (sh i)) =
        tapScalar (lawful g : Ops F G) even (reconstruct (lawful g : Ops F G) S x sh) := by
    rw [tapScalar_eq]
    unfold reconstruct
    rw [sumF_lawful, sumF_lawful, ← List.sum_map_mul_left]
    refine congrArg List.sum (List.map_congr_left fun i _ => ?_)
    simp only [lawful_mul, tapScalar_eq]; ring
  refine ⟨h1, fun i => ?_, ?_⟩
  · simp only [tapPoint_eq, tapScalar_eq, actBase_lawful, mul_smul]
  · rw [h1]; simp only [tapPoint_eq, tapScalar_eq, actBase_lawful, mul_smul]

/-- the nonce point of the negated nonces is the negated nonce point -/
theorem taproot_R (S : List ι) (d e ρ : ι → F) (even : Bool) :
    frostR (lawful g : Ops F G) (S.map fun i =>
        frostRShare (lawful g : Ops F G) (actBase (lawful g : Ops F G) (tapScalar (lawful g : Ops F G) even (d i)))
          (actBase (lawful g : Ops F G) (tapScalar (lawful g : Ops F G) even (e i))) (ρ i)) =
      tapPoint (lawful g : Ops F G) even (frostR (lawful g : Ops F G) (S.map fun i =>
        frostRShare (lawful g : Ops F G) (actBase (lawful g : Ops F G) (d i)) (actBase (lawful g : Ops F G) (e i)) (ρ i))) := by
  rw [C01alg.frostR_eq, C01alg.frostR_eq, tapPoint_eq, ← mul_smul, ← List.sum_map_mul_left]
  congr 1
  refine congrArg List.sum (List.map_congr_left fun i _ => ?_)
  simp only [tapScalar_eq]; ring

/-- what round 2 stores: `RShares[l].Negate()` is the share of the negated nonces -/
theorem taproot_RShare (d e ρ : F) (even : Bool) :
    tapPoint (lawful g : Ops F G) even
        (frostRShare (lawful g : Ops F G) (actBase (lawful g : Ops F G) d) (actBase (lawful g : Ops F G) e) ρ) =
      frostRShare (lawful g : Ops F G) (actBase (lawful g : Ops F G) (tapScalar (lawful g : Ops F G) even d))
        (actBase (lawful g : Ops F G) (tapScalar (lawful g : Ops F G) even e)) ρ := by
  simp only [tapPoint_eq, tapScalar_eq, frostRShare, actBase_lawful, lawful_gadd, lawful_smul, smul_add, ← mul_smul]
  congr 2; ring

/-- **frost_taproot_sign_correct**: whatever the two parity tests say (`evY` at key generation, `evR` in
    round 2), for ANY signer list whose raw shares interpolate to sk, any nonces, binding values and
    challenge: the assembled z satisfies z·g = R' + c·Y' for the renormalised key Y' = ±sk·g and the
    renormalised nonce point R' = ±R. -/
theorem frost_taproot_sign_correct (S : List ι) (x : ι → F) (sh d e ρ : ι → F) (c sk : F) (evY evR : Bool)
    (hsk : reconstruct (lawful g : Ops F G) S x sh = sk) :
    schnorrVerify (lawful g : Ops F G)
      (tapPoint (lawful g : Ops F G) evY (actBase (lawful g : Ops F G) sk))
      (tapPoint (lawful g : Ops F G) evR (frostR (lawful g : Ops F G) (S.map fun i =>
        frostRShare (lawful g : Ops F G) (actBase (lawful g : Ops F G) (d i)) (actBase (lawful g : Ops F G) (e i)) (ρ i))))
      (frostAssemble (lawful g : Ops F G) (S.map fun i =>
        frostResponse (lawful g : Ops F G) (tapScalar (lawful g : Ops F G) evR (d i))
          (tapScalar (lawful g : Ops F G) evR (e i)) (ρ i) (lagrangeCoeff (lawful g : Ops F G) S x i)
          (tapScalar (lawful g : Ops F G) evY (sh i)) c))
      c := by
  have hk := (taproot_keygen_sharing g S x sh evY).1
  have h := C01alg.frost_sign_correct g S x (fun i => tapScalar (lawful g : Ops F G) evY (sh i))
    (fun i => tapScalar (lawful g : Ops F G) evR (d i)) (fun i => tapScalar (lawful g : Ops F G) evR (e i)) ρ c _ hk
  rw [taproot_R, hsk] at h
  have h3 : actBase (lawful g : Ops F G) (tapScalar (lawful g : Ops F G) evY sk) =
      tapPoint (lawful g : Ops F G) evY (actBase (lawful g : Ops F G) sk) := by
    simp only [tapPoint_eq, tapScalar_eq, actBase_lawful, mul_smul]
  rw [h3] at h
  exact h

/-- **frost_taproot_share_check**: an honest response made with the renormalised nonces and share passes
    the check of round 3 against the renormalised verification share and the stored (negated) RShare. -/
theorem frost_taproot_share_check (d e ρ lam s c : F) (evY evR : Bool) :
    frostShareCheck (lawful g : Ops F G)
      (frostResponse (lawful g : Ops F G) (tapScalar (lawful g : Ops F G) evR d) (tapScalar (lawful g : Ops F G) evR e) ρ lam
        (tapScalar (lawful g : Ops F G) evY s) c) c lam
      (tapPoint (lawful g : Ops F G) evY (actBase (lawful g : Ops F G) s))
      (tapPoint (lawful g : Ops F G) evR
        (frostRShare (lawful g : Ops F G) (actBase (lawful g : Ops F G) d) (actBase (lawful g : Ops F G) e) ρ)) := by
  have hs : tapPoint (lawful g : Ops F G) evY (actBase (lawful g : Ops F G) s) =
      actBase (lawful g : Ops F G) (tapScalar (lawful g : Ops F G) evY s) := by
    simp only [tapPoint_eq, tapScalar_eq, actBase_lawful, mul_smul]
  rw [taproot_RShare, hs]
  exact C01alg.frost_share_check_complete g _ _ ρ lam _ c

/-- the renormalised point has even y (parity flips under negation of a non-zero point) -/
theorem taproot_norm_even (evenY : G → Bool) (hpar : ∀ P : G, P ≠ 0 → evenY (-P) = !evenY P) (P : G) (hP : P ≠ 0) :
    evenY (tapPoint (lawful g : Ops F G) (evenY P) P) = true ∧ tapPoint (lawful g : Ops F G) (evenY P) P ≠ 0 := by
  cases h : evenY P
  · simp only [tapPoint, lawful_gneg, Bool.false_eq_true, if_false]
    exact ⟨by rw [hpar P hP, h]; rfl, neg_ne_zero.mpr hP⟩
  · simp only [tapPoint, if_true]
    exact ⟨h, hP⟩

/-- **frost_taproot_bip340_accepts** (end to end): in any group with a parity predicate flipping under
    negation, a negation-invariant x coordinate and an even `lift_x`: the (x(R), z) that FROST-Taproot signing
    assembles from key material renormalised at key generation verifies under the BIP-340 verifier
    specification for the x-only key x(Y) — for every signer list whose raw shares interpolate to sk ≠ 0, all
    nonces with R ≠ 0, all binding values, every challenge function, every message. -/
theorem frost_taproot_bip340_accepts [DecidableEq F] [DecidableEq G] {X M : Type} [DecidableEq X]
    (xs : G → F) (evenY : G → Bool) (xc : G → X) (lift : X → Option G) (chal : X → X → M → F)
    (hpar : ∀ P : G, P ≠ 0 → evenY (-P) = !evenY P) (hxc : ∀ P : G, xc (-P) = xc P)
    (hlift : ∀ P : G, P ≠ 0 → evenY P = true → lift (xc P) = some P)
    (S : List ι) (x : ι → F) (sh d e ρ : ι → F) (sk : F) (m : M)
    (hsk : reconstruct (lawful g : Ops F G) S x sh = sk)
    (hY : actBase (lawful g : Ops F G) sk ≠ 0)
    (hR : frostR (lawful g : Ops F G) (S.map fun i =>
        frostRShare (lawful g : Ops F G) (actBase (lawful g : Ops F G) (d i)) (actBase (lawful g : Ops F G) (e i)) (ρ i)) ≠ 0) :
    let Y := actBase (lawful g : Ops F G) sk
    let R := frostR (lawful g : Ops F G) (S.map fun i =>
        frostRShare (lawful g : Ops F G) (actBase (lawful g : Ops F G) (d i)) (actBase (lawful g : Ops F G) (e i)) (ρ i))
    let c := chal (xc R) (xc Y) m
    Mps.Sig.schnorrVerifyO (Mps.Sig.lawful g xs evenY) xc lift chal (xc Y) m (xc R)
      (frostAssemble (lawful g : Ops F G) (S.map fun i =>
        frostResponse (lawful g : Ops F G) (tapScalar (lawful g : Ops F G) (evenY R) (d i))
          (tapScalar (lawful g : Ops F G) (evenY R) (e i)) (ρ i) (lagrangeCoeff (lawful g : Ops F G) S x i)
          (tapScalar (lawful g : Ops F G) (evenY Y) (sh i)) c)) = true := by
  intro Y R c
  have hv : c • tapPoint (lawful g : Ops F G) (evenY Y) Y + tapPoint (lawful g : Ops F G) (evenY R) R =
      (frostAssemble (lawful g : Ops F G) _) • g :=
    frost_taproot_sign_correct g S x sh d e ρ c sk (evenY Y) (evenY R) hsk
  obtain ⟨hYe, hY0⟩ := taproot_norm_even (F := F) g evenY hpar Y hY
  obtain ⟨hRe, hR0⟩ := taproot_norm_even (F := F) g evenY hpar R hR
  have hxY : xc (tapPoint (lawful g : Ops F G) (evenY Y) Y) = xc Y := by
    cases evenY Y <;> simp [tapPoint, hxc]
  have hxR : xc (tapPoint (lawful g : Ops F G) (evenY R) R) = xc R := by
    cases evenY R <;> simp [tapPoint, hxc]
  have hl : lift (xc Y) = some (tapPoint (lawful g : Ops F G) (evenY Y) Y) := by
    rw [← hxY]; exact hlift _ hY0 hYe
  have hRR : (frostAssemble (lawful g : Ops F G) (S.map fun i =>
        frostResponse (lawful g : Ops F G) (tapScalar (lawful g : Ops F G) (evenY R) (d i))
          (tapScalar (lawful g : Ops F G) (evenY R) (e i)) (ρ i) (lagrangeCoeff (lawful g : Ops F G) S x i)
          (tapScalar (lawful g : Ops F G) (evenY Y) (sh i)) c)) • g
        + -(c • tapPoint (lawful g : Ops F G) (evenY Y) Y) = tapPoint (lawful g : Ops F G) (evenY R) R := by
    rw [← hv]; abel
  unfold Mps.Sig.schnorrVerifyO
  simp only [hl]
  show (decide (_ ≠ (0 : G)) && evenY _ && decide (xc _ = xc R)) = true
  rw [hRR, hRe, hxR]
  simp [hR0]

/-- non-vacuity: parity tests `false`/`false` on a one-signer list with a non-trivial share -/
example : reconstruct (lawful (1 : ℚ) : Ops ℚ ℚ) [0] (fun _ : Fin 1 => (2 : ℚ)) (fun _ => 3) = 3 := by
  simp [reconstruct, lagrangeCoeff, lagNumerator, lagDenominator, mapKeys, prodF, sumF]

end Mps.C01tap
