import MpsProps.Anchors.C15
import MpsProofs.Codec
import MpsGen.Codec
import Mps.GuardTables
/-
  C15 — Stored key material round-trips; malformed material is refused.

  Model: Mps.Codec — the decision logic of the restore paths over a field-tree abstraction of the encoding
  (field ↦ absent | null | degenerate | good): cmp `Config.UnmarshalBinary`, the types restored by default struct
  decoding into their Empty… templates (frost / doerner configs, PreSignature, Signature), `Message.UnmarshalBinary`
  and `Exponent.UnmarshalBinary` with an explicit allocation count. `fixed = true` is the tree with the proposed
  guards, `fixed = false` the tree as found; which one applies is read off the regenerated tables (`gen_*`).

  Full statements (all trees of fields): restore_ok_imp_wellformed, restore_never_silent_empty, restore_total,
  alloc_linear_in_input. For the tree as found they are false: `…_counterexample`, each witness replayed by suite
  `codec` on the real decoders. The round trip itself (encode → restore → equal, usable in a follow-up session with
  the other parties' material) and the judgement of every corrupted encoding are correspondence (suite `codec`):
  the CBOR byte syntax belongs to the third-party decoder and is exercised, not modelled.
-/
namespace Mps.C15
open Mps Mps.Start Mps.Codec

/-! ### cmp.Config -/

/-- guarded decoder: a config that is restored satisfies the validity rules: non-zero secrets, valid primes, valid RID,
    chain key absent or valid, every party's record complete (2048-bit odd modulus, Pedersen parameters, non-identity
    points), no duplicate and no empty party id, self present, 0 ≤ t < n -/
theorem restore_ok_imp_wellformed (t : CmpTree) (h : cmpRestore true t = Out.ok) : CmpWellFormed t := by
  unfold cmpRestore at h
  simp only [Bool.true_and, ↓reduceIte, ite_err_ok, ifaceField_ok, ptrField_ok, andThen_ok, Bool.not_eq_true',
    Bool.not_eq_false, Bool.or_eq_true, beq_iff_eq, bne_iff_ne, ne_eq, Decidable.not_not, List.contains_iff_mem] at h
  obtain ⟨hn, he, hg, hid, hrid, hck, hp, hq, hloop, hthr, hself⟩ := h
  have hl := pubLoop_ok t.id t.pub [] hloop
  have ht := (validThreshold_iff _ _).1 (by simpa using hthr)
  refine ⟨by simpa using hn, hid, he, hg, hp, hq, hrid, ?_, hl.1, hl.2.1, by simpa using hself, ht.1, ht.2.2⟩
  simpa [or_assoc] using hck

/-- guarded decoder: no path other than ok / error -/
theorem restore_total (t : CmpTree) : cmpRestore true t ≠ Out.crash := by
  intro h
  unfold cmpRestore at h
  simp only [Bool.true_and, ↓reduceIte, ite_err_crash, ifaceField_true_crash, ptrField_crash, andThen_crash] at h
  obtain ⟨_, _, _, _, _, _, _, _, h⟩ := h
  rcases h with h | ⟨_, h⟩
  · exact pubLoop_true_ne_crash _ _ _ h
  · cases h.2.2

def goodPub (id : Bytes) : PubTree := ⟨id, .good, .good, .good, .good, .good⟩
def goodTree : CmpTree :=
  { topNull := false, id := [97], thr := 1, ecdsa := .good, elgamal := .good, p := .good, q := .good, rid := .good,
    chainKey := .good, pub := [goodPub [97], goodPub [98], goodPub [99]] }

/-- tree as found: a malformed chain key or RID, and absent Pedersen parameters in the own record, are accepted -/
theorem unchecked_fields_counterexample :
    (∃ t, cmpRestore false t = Out.ok ∧ ¬ CmpWellFormed t ∧ t.chainKey = FV.bad) ∧
    (∃ t, cmpRestore false t = Out.ok ∧ ¬ CmpWellFormed t ∧ t.rid = FV.absent) ∧
    (∃ t, cmpRestore false t = Out.ok ∧ ¬ CmpWellFormed t ∧ ∃ e ∈ t.pub, e.id = t.id ∧ e.s = FV.absent) := by
  refine ⟨⟨{ goodTree with chainKey := .bad }, by decide, ?_, rfl⟩, ⟨{ goodTree with rid := .absent }, by decide, ?_, rfl⟩,
    ⟨{ goodTree with pub := [{ goodPub [97] with s := .absent }, goodPub [98]] }, by decide, ?_, _, List.mem_cons_self, rfl, rfl⟩⟩
  · intro h; exact absurd h.2.2.2.2.2.2.2.1 (by decide)
  · intro h; exact absurd h.2.2.2.2.2.2.1 (by decide)
  · intro h; exact absurd (h.2.2.2.2.2.2.2.2.1 _ List.mem_cons_self).2.1 (by decide)

/-- tree as found: a CBOR null for the whole config or for a pre-allocated scalar crashes the decoder -/
theorem null_crash_counterexample :
    cmpRestore false { goodTree with topNull := true } = Out.crash ∧
    cmpRestore false { goodTree with ecdsa := .null } = Out.crash ∧
    cmpRestore false { goodTree with pub := [{ goodPub [98] with ecdsa := .null }] } = Out.crash := by decide

/-! ### default struct decoding (frost / doerner configs, PreSignature, Signature) and wire messages -/

/-- guarded decoders: what is restored is never the untouched template and always satisfies its validity rules; no crash -/
theorem restore_never_silent_empty (i : PlainIn) :
    ((plainRestore true i).1 = Out.ok → (plainRestore true i).2 = false ∧ i.rulesHold = true ∧ i.topNull = false) ∧
    (plainRestore true i).1 ≠ Out.crash := by
  obtain ⟨a, b, c⟩ := i
  cases a <;> cases b <;> cases c <;> simp [plainRestore]

theorem message_never_silent_empty (decodes isNull : Bool) :
    ((messageRestore true decodes isNull).1 = Out.ok → (messageRestore true decodes isNull).2 = false ∧ decodes = true) ∧
    (messageRestore true decodes isNull).1 ≠ Out.crash := by
  cases decodes <;> cases isNull <;> simp [messageRestore]

/-- tree as found: a CBOR null restores "successfully" into the empty template, a null point / scalar crashes the
    decoder, an object that breaks its rules is accepted, and Message.UnmarshalBinary swallows every decoding error -/
theorem silent_empty_counterexample :
    plainRestore false ⟨true, false, false⟩ = (Out.ok, true) ∧
    plainRestore false ⟨false, true, true⟩ = (Out.crash, false) ∧
    plainRestore false ⟨false, false, false⟩ = (Out.ok, false) ∧
    messageRestore false false false = (Out.ok, true) := by decide

/-! ### polynomial.Exponent -/

/-- guarded decoder: the number of points allocated is at most the length of the input, for EVERY input -/
theorem alloc_linear_in_input (i : ExpIn) : (exponentDecode true i).2 ≤ i.len := by
  unfold exponentDecode
  split; · exact Nat.zero_le _
  split; · exact Nat.zero_le _
  rename_i h1 h2
  have : i.count ≤ i.len := by simpa using h2
  split
  · exact this
  · split; · exact this
    split; · exact this
    split <;> exact this

/-- guarded decoder: no crash, and a decoded exponent has as many coefficients as announced and at least one unless constant -/
theorem exponent_ok_imp_wellformed (i : ExpIn) :
    (exponentDecode true i).1 ≠ Out.crash ∧
    ((exponentDecode true i).1 = Out.ok → i.coeffs = some i.count ∧ i.nullCoeff = false ∧ (i.isConstant = true ∨ 0 < i.count)) := by
  obtain ⟨len, count, coeffs, nullCoeff, isConstant⟩ := i
  unfold exponentDecode
  by_cases h1 : len < 4 <;> simp only [h1, ↓reduceIte, Bool.true_and]
  · simp
  · by_cases h2 : count > len <;> simp only [h2, decide_true, decide_false, ↓reduceIte, Bool.false_eq_true]
    · simp
    · cases coeffs with
      | none => simp
      | some n =>
        cases nullCoeff <;> simp only [↓reduceIte, Bool.false_eq_true]
        · by_cases h3 : n = count
          · subst h3
            cases isConstant <;> by_cases h4 : n = 0 <;> simp [h4] <;> omega
          · simp [h3]
        · simp

/-- tree as found: four bytes of input make the decoder allocate any number of points below 2³², fewer than four
    bytes crash it, and so does a null coefficient -/
theorem alloc_unbounded_counterexample :
    (∀ n, ∃ i : ExpIn, i.len = 4 ∧ (exponentDecode false i).2 = n) ∧
    (∀ i : ExpIn, i.len < 4 → (exponentDecode false i).1 = Out.crash) ∧
    (exponentDecode false ⟨100, 2, some 2, true, false⟩).1 = Out.crash := by
  refine ⟨fun n => ⟨⟨4, n, none, false, false⟩, rfl, by simp [exponentDecode]⟩, ?_, by decide⟩
  intro i h
  simp [exponentDecode, h]

/-! ### the judgement on restored objects -/

/-- the driver's judgement of a described restored object: every rule of its type holds, party ids strictly sorted
    (so pairwise different), none empty, self among them, 0 ≤ t < n -/
theorem descOk_iff (rules : List Bool) (thr : Int) (ids : List Bytes) (self : Bytes) :
    descOk rules thr ids self = true ↔
      (∀ r ∈ rules, r = true) ∧ idsValid ids = true ∧ self ∈ ids ∧ (∀ i ∈ ids, i ≠ []) ∧ 0 ≤ thr ∧ thr < ids.length := by
  simp only [descOk, Bool.and_eq_true, List.all_eq_true, id, List.contains_iff_mem, bne_iff_ne, ne_eq, decide_eq_true_eq,
    and_assoc]

theorem descOk_nodup (rules : List Bool) (thr : Int) (ids : List Bytes) (self : Bytes) (h : descOk rules thr ids self = true) :
    ids.Nodup := idsValid_nodup _ ((descOk_iff rules thr ids self).1 h).2.1

/-! ### the tie to the tree: regenerated tables of the restore paths -/

set_option maxRecDepth 16384

open Mps.Guards.Pinned in
/-- every restore path is in one of the two variants the model knows: as found (`head`) or with the proposed guards (`fixed`) -/
theorem gen_restore_tables :
    MpsGen.Codec.cmpUnmarshalBinary = fixed.cmpUnmarshalBinary ∧
    MpsGen.Codec.cmpUnmarshalDecode = fixed.cmpUnmarshalDecode ∧
    MpsGen.Codec.messageUnmarshalBinary = fixed.messageUnmarshalBinary ∧
    MpsGen.Codec.frostUnmarshalCBOR = fixed.frostUnmarshalCBOR ∧
    MpsGen.Codec.taprootUnmarshalCBOR = fixed.taprootUnmarshalCBOR ∧
    MpsGen.Codec.doernerReceiverUnmarshalCBOR = fixed.doernerReceiverUnmarshalCBOR ∧
    MpsGen.Codec.doernerSenderUnmarshalCBOR = fixed.doernerSenderUnmarshalCBOR ∧
    MpsGen.Codec.presigUnmarshalCBOR = fixed.presigUnmarshalCBOR ∧
    MpsGen.Codec.signatureUnmarshalCBOR = fixed.signatureUnmarshalCBOR ∧
    MpsGen.Codec.otSendSetupFields = fixed.otSendSetupFields := by
  decide

open Mps.Guards.Pinned in
/-- the validators the restore paths rely on are the pinned ones: a restored prime is checked for size, 3 mod 4, primality
    of p AND of (p-1)/2 (the tree as found tested only (p-1)/2: a composite p was accepted - `head.validatePrime`); a
    modulus for bit length and oddness; Pedersen parameters for membership in Z_N^* and s ≠ t; a RID for its length and
    for not being zero; frost / doerner configs for the rules of `Config.Validate` -/
theorem gen_validators :
    MpsGen.Codec.validatePrime = fixed.validatePrime ∧ MpsGen.Codec.validateN = fixed.validateN ∧
    MpsGen.Codec.pedersenValidateParameters = fixed.pedersenValidateParameters ∧
    MpsGen.Codec.ridValidate = fixed.ridValidate ∧
    MpsGen.Codec.frostConfigValidate = fixed.frostConfigValidate ∧
    MpsGen.Codec.taprootConfigValidate = fixed.taprootConfigValidate ∧
    MpsGen.Codec.frostValidateShares = fixed.frostValidateShares ∧
    MpsGen.Codec.doernerReceiverValidate = fixed.doernerReceiverValidate ∧
    MpsGen.Codec.doernerSenderValidate = fixed.doernerSenderValidate := by
  decide

/-- the tree as found did not test p itself (kept: the pinned `head` table) -/
theorem validatePrime_head_lacks_primality :
    "!p.Big().ProbablyPrime(1) || !pMinus1Div2.Big().ProbablyPrime(1) => ErrNotSafePrime" ∈ Mps.Guards.Pinned.fixed.validatePrime ∧
    "!p.Big().ProbablyPrime(1) || !pMinus1Div2.Big().ProbablyPrime(1) => ErrNotSafePrime" ∉ Mps.Guards.Pinned.head.validatePrime := by
  decide

/-! ### non-vacuity -/
example : cmpRestore true goodTree = Out.ok := by decide
example : cmpRestore false goodTree = Out.ok := by decide
example : (plainRestore true ⟨false, false, true⟩).1 = Out.ok := by decide
example : exponentDecode true ⟨100, 2, some 2, false, false⟩ = (Out.ok, 2) := by decide
example : descOk [true, true] 1 [[97], [98]] [97] = true := by decide

end Mps.C15
