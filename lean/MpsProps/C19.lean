import MpsProps.Anchors.C19
import MpsProofs.Typed
import MpsGen.Hash
/-
  C19 — Transcript hashing is injective and commitments are binding.
  Property theorems only (lemmas live in MpsProofs). Core-only: no Mathlib.
-/
namespace Mps.C19
open Mps

/-! ### 1. Framing: the byte stream determines the item sequence -/

/-- Two item sequences fed to the transcript hash give the same byte stream only if they are the
    same sequence: moving bytes between adjacent items or between an item and its domain tag,
    splitting, merging or retyping an item all change the stream. -/
theorem transcript_injective (xs ys : List Item) (hx : ∀ i ∈ xs, i.WF) (hy : ∀ i ∈ ys, i.WF)
    (h : transcript xs = transcript ys) : xs = ys := Mps.transcript_injective xs ys hx hy h

theorem distinct_items_distinct_streams (xs ys : List Item) (hx : ∀ i ∈ xs, i.WF) (hy : ∀ i ∈ ys, i.WF)
    (h : xs ≠ ys) : transcript xs ≠ transcript ys := fun e => h (transcript_injective xs ys hx hy e)

/-- Prefix-freeness: a stream that continues another (by further items) does so by whole items. -/
theorem transcript_prefix_free (xs ys zs : List Item) (hx : ∀ i ∈ xs, i.WF) (hy : ∀ i ∈ ys, i.WF)
    (hz : ∀ i ∈ zs, i.WF) (h : transcript xs ++ frames zs = transcript ys) : ys = xs ++ zs := by
  unfold transcript at h
  rw [List.append_assoc] at h
  have h' := List.append_cancel_left h
  rw [← frames_append] at h'
  refine (frames_injective (xs ++ zs) ys ?_ hy h').symm
  intro i hi
  rcases List.mem_append.mp hi with hi | hi
  · exact hx i hi
  · exact hz i hi

/-- Equal digests: equal item sequences, or an explicit collision of the hash function. -/
theorem digest_eq_imp (H : Bytes → Bytes) (xs ys : List Item) (hx : ∀ i ∈ xs, i.WF) (hy : ∀ i ∈ ys, i.WF)
    (h : digestWith H xs = digestWith H ys) :
    xs = ys ∨ (transcript xs ≠ transcript ys ∧ H (transcript xs) = H (transcript ys)) := by
  by_cases e : transcript xs = transcript ys
  · exact Or.inl (transcript_injective xs ys hx hy e)
  · exact Or.inr ⟨e, h⟩

/-! ### 2. Per-type encoders are injective on the validity domain of their type -/

section lits
theorem s1 : str "[]byte" = [91, 93, 98, 121, 116, 101] := by decide
theorem s2 : str "big.Int" = [98, 105, 103, 46, 73, 110, 116] := by decide
theorem s3 : str "ID" = [73, 68] := by decide
theorem s4 : str "IDSlice" = [73, 68, 83, 108, 105, 99, 101] := by decide
theorem s5 : str "RID" = [82, 73, 68] := by decide
theorem s6 : str "Threshold" = [84, 104, 114, 101, 115, 104, 111, 108, 100] := by decide
theorem s7 : str "Round Number" = [82, 111, 117, 110, 100, 32, 78, 117, 109, 98, 101, 114] := by decide
theorem s8 : str "Empty Message" = [69, 109, 112, 116, 121, 32, 77, 101, 115, 115, 97, 103, 101] := by decide
theorem s9 : str "Signature Message" = [83, 105, 103, 110, 97, 116, 117, 114, 101, 32, 77, 101, 115, 115, 97, 103, 101] := by decide
theorem s10 : str "Commitment" = [67, 111, 109, 109, 105, 116, 109, 101, 110, 116] := by decide
theorem s11 : str "Decommitment" = [68, 101, 99, 111, 109, 109, 105, 116, 109, 101, 110, 116] := by decide
theorem s12 : str "*curve.Secp256k1Point" = [42, 99, 117, 114, 118, 101, 46, 83, 101, 99, 112, 50, 53, 54, 107, 49, 80, 111, 105, 110, 116] := by decide
theorem s13 : str "*curve.Secp256k1Scalar" = [42, 99, 117, 114, 118, 101, 46, 83, 101, 99, 112, 50, 53, 54, 107, 49, 83, 99, 97, 108, 97, 114] := by decide
theorem s14 : str "Paillier Ciphertext" = [80, 97, 105, 108, 108, 105, 101, 114, 32, 67, 105, 112, 104, 101, 114, 116, 101, 120, 116] := by decide
theorem s15 : str "Paillier PublicKey" = [80, 97, 105, 108, 108, 105, 101, 114, 32, 80, 117, 98, 108, 105, 99, 75, 101, 121] := by decide
theorem s16 : str "Pedersen Parameters" = [80, 101, 100, 101, 114, 115, 101, 110, 32, 80, 97, 114, 97, 109, 101, 116, 101, 114, 115] := by decide
theorem s17 : str "ElGamal Ciphertext" = [69, 108, 71, 97, 109, 97, 108, 32, 67, 105, 112, 104, 101, 114, 116, 101, 120, 116] := by decide
end lits

/-- Fixed-domain typed values (byte strings, big integers, identifiers, identifier lists, RIDs,
    thresholds, round numbers, messages, commitments, points, scalars, ciphertexts, moduli,
    Pedersen parameters, ElGamal ciphertexts): if two valid values — of the same OR of different
    Go types — are written as the same (domain, data) item, they are the same value. -/
theorem encode_injective (a b : TVal) (ha : a.WF) (hb : b.WF) (fa : a.fixed = true) (fb : b.fixed = true)
    (i : Item) (ea : encode a = some i) (eb : encode b = some i) : a = b := by
  have e : encode a = encode b := ea.trans eb.symm
  cases a <;> cases b <;> simp only [TVal.fixed, Bool.false_eq_true] at fa fb <;>
    simp only [encode, s1, s2, s3, s4, s5, s6, s7, s8, s9, s10, s11, s12, s13, s14, s15, s16, s17,
      Option.some.injEq, Item.mk.injEq, reduceCtorEq, List.cons.injEq, and_false, false_and, true_and] at e ea eb
  case sigmsgNil.sigmsgNil => rfl
  case bigint.ids => exact absurd e.1.1 (by decide)
  case ids.bigint => exact absurd e.1.1 (by decide)
  case rnd.decom => exact absurd e.1.1 (by decide)
  case decom.rnd => exact absurd e.1.1 (by decide)
  case ct.ped => exact absurd e.1.2.1 (by decide)
  case ped.ct => exact absurd e.1.2.1 (by decide)
  case pk.elg => exact absurd e.1.1 (by decide)
  case elg.pk => exact absurd e.1.1 (by decide)
  case bytes.bytes => rw [e]
  case id.id => rw [e]
  case bigint.bigint => obtain ⟨h1, h2⟩ := gobBigInt_inj _ _ _ _ e; rw [h1, h2]
  case ids.ids =>
    simp only [TVal.WF, maxLen] at ha hb
    rw [idsData_inj _ _ ha.1 hb.1 ha.2.1 hb.2.1 e]
  case rid.rid => rw [e]
  case thr.thr => simp only [TVal.WF] at ha hb; rw [beN_inj 4 _ _ ha hb e]
  case rnd.rnd => simp only [TVal.WF] at ha hb; rw [beN_inj 8 _ _ ha hb e]
  case sigmsg.sigmsg => rw [e]
  case com.com => rw [e]
  case decom.decom => rw [e]
  case point.point => rw [e]
  case scalar.scalar => rw [e]
  case ct.ct => simp only [TVal.WF] at ha hb; rw [beN_inj 512 _ _ ha hb e]
  case pk.pk => rw [natBytes_inj _ _ e]
  case ped.ped =>
    simp only [TVal.WF] at ha hb
    have h1 := append_inj_len e (by simp [beN_length])
    have h2 := append_inj_len h1.1 (by simp [beN_length])
    rw [beN_inj 256 _ _ ha.1 hb.1 h2.1, beN_inj 256 _ _ ha.2.1 hb.2.1 h2.2, beN_inj 256 _ _ ha.2.2 hb.2.2 h1.2]
  case elg.elg =>
    simp only [TVal.WF] at ha hb
    have h1 := append_inj_len e (by rw [ha.1, hb.1])
    rw [h1.1, h1.2]

/-- a valid typed value is written as an item whose two lengths fit the 8-byte length fields -/
theorem encode_wf (a : TVal) (ha : a.WF) (i : Item) (ea : encode a = some i) : i.WF := by
  cases a <;> simp only [encode, reduceCtorEq, Option.some.injEq] at ea <;> subst ea <;>
    simp only [TVal.WF, maxLen] at ha <;>
    simp only [Item.WF, s1, s2, s3, s4, s5, s6, s7, s8, s9, s10, s11, s12, s13, s14, s15, s16, s17,
      List.length_cons, List.length_nil, List.length_append, beN_length, be32, be64] <;>
    omega

theorem encodeList_wf (vs : List TVal) (hv : ∀ v ∈ vs, v.WF) (is : List Item)
    (e : encodeList vs = some is) : ∀ i ∈ is, i.WF := by
  induction vs generalizing is with
  | nil => simp [encodeList] at e; subst e; simp
  | cons v vs ih =>
    simp only [encodeList] at e
    split at e
    · next i is' h1 h2 =>
      simp only [Option.some.injEq] at e; subst e
      intro j hj
      rcases List.mem_cons.mp hj with rfl | hj
      · exact encode_wf v (hv v (by simp)) _ h1
      · exact ih (fun x hx => hv x (by simp [hx])) is' h2 j hj
    · simp at e

/-- sequences of valid fixed-domain values with the same item sequence are the same sequence -/
theorem encodeList_injective (vs ws : List TVal) (hv : ∀ v ∈ vs, v.WF ∧ v.fixed = true)
    (hw : ∀ v ∈ ws, v.WF ∧ v.fixed = true) (is : List Item)
    (e1 : encodeList vs = some is) (e2 : encodeList ws = some is) : vs = ws := by
  induction vs generalizing ws is with
  | nil =>
    cases ws with
    | nil => rfl
    | cons w ws =>
      simp only [encodeList, Option.some.injEq] at e1 e2; subst e1
      split at e2 <;> simp at e2
  | cons v vs ih =>
    cases ws with
    | nil =>
      simp only [encodeList, Option.some.injEq] at e1 e2; subst e2
      split at e1 <;> simp at e1
    | cons w ws =>
      simp only [encodeList] at e1 e2
      split at e1
      · next i is1 h1 h2 =>
        split at e2
        · next j is2 h3 h4 =>
          simp only [Option.some.injEq] at e1 e2
          subst e1
          injection e2 with hj his
          subst hj his
          have hvw := encode_injective v w (hv v (by simp)).1 (hw w (by simp)).1 (hv v (by simp)).2
            (hw w (by simp)).2 _ h1 h3
          rw [hvw, ih ws (fun x hx => hv x (by simp [hx])) (fun x hx => hw x (by simp [hx])) _ h2 h4]
        · simp at e2
      · simp at e1

/-! ### 3. Commitments -/

/-- `Decommit` accepts only a 64-byte non-zero commitment and a 32-byte non-zero decommitment. -/
theorem decommit_validates (H : Bytes → Bytes) (ctx : List Item) (c d : Bytes) (vals : List TVal)
    (h : decommitWith H ctx c d vals = true) :
    c.length = 64 ∧ allZero c = false ∧ d.length = 32 ∧ allZero d = false := by
  unfold decommitWith at h
  split at h
  · simp at h
  · next hc =>
    split at h
    · simp at h
    · next hd =>
      simp only [validLen, Bool.not_eq_true, Bool.and_eq_false_iff, not_or, Bool.not_eq_false,
        Bool.not_eq_eq_eq_not, Bool.not_true, Bool.not_false, beq_iff_eq] at hc hd
      simp_all

/-- Binding: if one commitment opens (in the same hash context) to two value tuples with two
    decommitments, then the tuples were written as the same item sequence and the decommitments
    are equal — or the two openings exhibit a collision of the hash function. -/
theorem commit_binding (H : Bytes → Bytes) (ctx : List Item) (hctx : ∀ i ∈ ctx, i.WF) (c d d' : Bytes)
    (vals vals' : List TVal) (hv : ∀ v ∈ vals, v.WF) (hv' : ∀ v ∈ vals', v.WF)
    (h : decommitWith H ctx c d vals = true) (h' : decommitWith H ctx c d' vals' = true) :
    (encodeList vals = encodeList vals' ∧ d = d') ∨ (∃ x y : Bytes, x ≠ y ∧ H x = H y) := by
  have v1 := decommit_validates H ctx c d vals h
  have v2 := decommit_validates H ctx c d' vals' h'
  unfold decommitWith at h h'
  split at h; · simp at h
  split at h; · simp at h
  split at h'; · simp at h'
  split at h'; · simp at h'
  split at h
  · simp at h
  · next is e1 =>
    split at h'
    · simp at h'
    · next is' e2 =>
      have hd : digestWith H (ctx ++ is ++ [decomItem d]) = digestWith H (ctx ++ is' ++ [decomItem d']) := by
        rw [beq_iff_eq] at h h'; rw [h, h']
      have wf1 : ∀ i ∈ ctx ++ is ++ [decomItem d], i.WF := by
        intro i hi
        simp only [List.mem_append, List.mem_singleton] at hi
        rcases hi with (hi | hi) | hi
        · exact hctx i hi
        · exact encodeList_wf vals hv is e1 i hi
        · subst hi; simp [decomItem, Item.WF, s11, v1.2.2.1]
      have wf2 : ∀ i ∈ ctx ++ is' ++ [decomItem d'], i.WF := by
        intro i hi
        simp only [List.mem_append, List.mem_singleton] at hi
        rcases hi with (hi | hi) | hi
        · exact hctx i hi
        · exact encodeList_wf vals' hv' is' e2 i hi
        · subst hi; simp [decomItem, Item.WF, s11, v2.2.2.1]
      rcases digest_eq_imp H _ _ wf1 wf2 hd with heq | ⟨hne, hcol⟩
      · left
        rw [List.append_assoc, List.append_assoc] at heq
        have h2 := List.append_cancel_left heq
        have h3 := List.append_inj' h2 (by simp)
        refine ⟨by rw [e1, e2, h3.1], ?_⟩
        have := h3.2
        simp only [decomItem, List.cons.injEq, Item.mk.injEq, true_and, and_true] at this
        exact this
      · right; exact ⟨_, _, hne, hcol⟩

/-- … hence, for fixed-domain values, the commitment opens only to the exact tuple, in order. -/
theorem commit_binding_values (H : Bytes → Bytes) (ctx : List Item) (hctx : ∀ i ∈ ctx, i.WF) (c d d' : Bytes)
    (vals vals' : List TVal) (hv : ∀ v ∈ vals, v.WF ∧ v.fixed = true) (hv' : ∀ v ∈ vals', v.WF ∧ v.fixed = true)
    (h : decommitWith H ctx c d vals = true) (h' : decommitWith H ctx c d' vals' = true) :
    (vals = vals' ∧ d = d') ∨ (∃ x y : Bytes, x ≠ y ∧ H x = H y) := by
  rcases commit_binding H ctx hctx c d d' vals vals' (fun v h => (hv v h).1) (fun v h => (hv' v h).1) h h' with
    ⟨he, hd⟩ | hcol
  · left
    refine ⟨?_, hd⟩
    cases e1 : encodeList vals with
    | none =>
      unfold decommitWith at h
      simp [e1] at h
    | some is => exact encodeList_injective vals vals' hv hv' is e1 (he ▸ e1)
  · right; exact hcol

/-- An honest commitment opens with its own decommitment (completeness of `Commit`/`Decommit`). -/
theorem commit_then_decommit (H : Bytes → Bytes) (ctx : List Item) (vals : List TVal) (nonce c d : Bytes)
    (hn : validLen nonce 32 = true) (h : commitWith H ctx vals nonce = some (c, d)) (hc : validLen c 64 = true) :
    decommitWith H ctx c d vals = true := by
  unfold commitWith at h
  split at h
  · simp at h
  · next is e =>
    simp only [Option.some.injEq, Prod.mk.injEq] at h
    obtain ⟨h1, h2⟩ := h
    subst h1 h2
    rw [List.append_assoc] at hc
    simp [decommitWith, hn, hc, e]

set_option maxRecDepth 16384

/-! ### 4. Obligations over the tables regenerated from the source (the translator tie) -/

/-- `WriteAny` frames every item as "(" ‖ be64 |domain| ‖ domain ‖ be64 |data| ‖ data ‖ ")" —
    the layout `frame` models and `transcript_injective` is proved for. -/
theorem gen_framing : MpsGen.Hash.writeAnyFraming =
    [ "hash.h.WriteString(\"(\")",
      "binary.BigEndian.PutUint64(sizeBuf[:], uint64(len(toBeWritten.TheDomain)))",
      "hash.h.Write(sizeBuf[:])",
      "hash.h.WriteString(toBeWritten.TheDomain)",
      "binary.BigEndian.PutUint64(sizeBuf[:], uint64(len(toBeWritten.Bytes)))",
      "hash.h.Write(sizeBuf[:])",
      "hash.h.Write(toBeWritten.Bytes)",
      "hash.h.WriteString(\")\")" ] := by decide

theorem gen_prefix : MpsGen.Hash.newPrefix = ["hash.h.WriteString(\"CMP-BLAKE\")"] := by decide

theorem gen_cases : MpsGen.Hash.writeAnyCases =
    ["[]byte", "*big.Int", "WriterToWithDomain", "encoding.BinaryMarshaler", "default"] := by decide

theorem gen_case_domains : MpsGen.Hash.writeAnyDomains =
    [ "BytesWithDomain{\"[]byte\", t}", "BytesWithDomain{\"big.Int\", bytes}",
      "BytesWithDomain{t.Domain(), buf.Bytes()}",
      "BytesWithDomain{ TheDomain: name.String(), Bytes: bytes, }" ] := by decide

/-- every `Domain()` method of the repository, with the literal it returns: the table `encode`
    was written against. A new, renamed or colliding domain breaks this obligation. -/
theorem gen_domains : MpsGen.Hash.domains =
    [ "internal/elgamal|Ciphertext|ElGamal Ciphertext",
      "internal/round|Number|Round Number",
      "internal/types|RID|RID",
      "internal/types|SigningMessage|Empty Message|Signature Message",
      "internal/types|ThresholdWrapper|Threshold",
      "pkg/hash|BytesWithDomain|b.TheDomain",
      "pkg/hash|Commitment|Commitment",
      "pkg/hash|Decommitment|Decommitment",
      "pkg/math/polynomial|Exponent|Exponent",
      "pkg/paillier|Ciphertext|Paillier Ciphertext",
      "pkg/paillier|PublicKey|Paillier PublicKey",
      "pkg/party|IDSlice|IDSlice",
      "pkg/party|ID|ID",
      "pkg/pedersen|Parameters|Pedersen Parameters",
      "pkg/zk/sch|Commitment|Schnorr Commitment",
      "protocols/cmp/config|Config|CMP Config",
      "protocols/cmp/config|Public|Public Data",
      "protocols/frost/sign|messageHash|messageHash" ] := by decide

/-- the literals of that table are pairwise different (no two Go types share a domain tag) -/
theorem gen_domain_literals_nodup :
    (["ElGamal Ciphertext", "Round Number", "RID", "Empty Message", "Signature Message", "Threshold",
      "Commitment", "Decommitment", "Exponent", "Paillier Ciphertext", "Paillier PublicKey", "IDSlice", "ID",
      "Pedersen Parameters", "Schnorr Commitment", "CMP Config", "Public Data", "messageHash",
      "[]byte", "big.Int", "*curve.Secp256k1Point", "*curve.Secp256k1Scalar"] : List String).Nodup := by decide

theorem gen_commit : MpsGen.Hash.commitWrites =
    ["rand.Read(decommitment)", "hash.Clone()", "h.WriteAny(item)", "h.WriteAny(decommitment)", "h.Sum()"] := by decide

theorem gen_decommit : MpsGen.Hash.decommitWrites =
    ["c.Validate()", "d.Validate()", "hash.Clone()", "h.WriteAny(item)", "h.WriteAny(d)", "h.Sum()",
     "bytes.Equal(computedCommitment, c)"] := by decide

theorem gen_validate :
    MpsGen.Hash.commitmentValidate =
      ["l := len(c); l != DigestLengthBytes => fmt.Errorf(\"commitment: incorrect length (got %d, expected %d)\", l, DigestLengthBytes)",
       "b != 0 => nil"] ∧
    MpsGen.Hash.decommitmentValidate =
      ["l := len(d); l != params.SecBytes => fmt.Errorf(\"decommitment: incorrect length (got %d, expected %d)\", l, params.SecBytes)",
       "b != 0 => nil"] ∧
    MpsGen.Hash.sumLength = ["DigestLengthBytes = params.SecBytes * 2"] := by decide

/-- the per-type `WriteTo` bodies `encode` transcribes -/
theorem gen_writers :
    MpsGen.Hash.idWrite = ["id == \"\" => 0, io.ErrUnexpectedEOF", "w.Write([]byte(id))"] ∧
    MpsGen.Hash.idSliceWrite =
      ["partyIDs == nil => 0, io.ErrUnexpectedEOF", "err != nil => 0, err", "err != nil => nAll, err",
       "err != nil => nAll, err",
       "binary.Write(w, binary.BigEndian, uint64(len(partyIDs)))",
       "binary.Write(w, binary.BigEndian, uint64(len(id)))", "w.Write([]byte(id))"] ∧
    MpsGen.Hash.ridWrite = ["rid == nil => 0, io.ErrUnexpectedEOF", "w.Write(rid[:])"] ∧
    MpsGen.Hash.thresholdWrite =
      ["make([]byte, 4)", "binary.BigEndian.PutUint32(intBuffer, uint32(t))", "w.Write(intBuffer)"] ∧
    MpsGen.Hash.roundNumberWrite = ["binary.Write(w, binary.BigEndian, uint64(i))"] ∧
    MpsGen.Hash.signingMessageWrite = ["w.Write(t)", "t == nil => \"Empty Message\""] ∧
    MpsGen.Hash.ciphertextWrite = ["make([]byte, params.BytesCiphertext)", "ct.c.FillBytes(buf)", "w.Write(buf)"] ∧
    MpsGen.Hash.publicKeyWrite = ["pk.n.Bytes()", "w.Write(buf)"] ∧
    MpsGen.Hash.pedersenWrite = ["make([]byte, params.BytesIntModN)", "i.FillBytes(buf)", "w.Write(buf)"] := by decide

/-! ### 5. Non-vacuity: concrete instances meeting the hypotheses -/

example : (⟨str "ID", str "alice"⟩ : Item).WF := by constructor <;> decide
example : (TVal.ids [str "ab", str "c"]).WF ∧ (TVal.ids [str "ab", str "c"]).fixed = true := by
  refine ⟨⟨by decide, ?_, by decide⟩, rfl⟩
  intro i hi; simp at hi; rcases hi with rfl | rfl <;> decide
/-- the pair that collided before the fix now gets different data -/
example : idsData [str "ab", str "c"] ≠ idsData [str "a", str "bc"] := by decide
example : idsDataOld [str "ab", str "c"] = idsDataOld [str "a", str "bc"] := idsDataOld_collision.1
example : transcript [⟨str "ab", str "c"⟩] ≠ transcript [⟨str "a", str "bc"⟩] := by decide

end Mps.C19
