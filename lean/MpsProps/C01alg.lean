import MpsProofs.AlgebraSign
/-
  C01 (algebra layer) — signatures assembled by the protocols satisfy the verification equations,
  for every signer list; two completions with the same nonce point give the same signature.
  Also the Lagrange / Horner theorems every other property rests on.
-/
set_option linter.unusedSectionVars false
namespace Mps.C01alg
open Mps.Alg Polynomial

variable {F G : Type} [Field F] [AddCommGroup G] [Module F G] (g : G) {ι : Type} [DecidableEq ι]

/-! ## Lagrange at 0 and Horner, for the code's own formulas -/

/-- **lagrange_at_zero**: the coefficients `polynomial.lagrange` computes — numerator ∏ over ALL nodes,
    denominator xⱼ·∏_{i≠j}(xᵢ − xⱼ) — for ANY duplicate-free id list with distinct non-zero scalar images
    (not only prefixes, any order) and any polynomial of degree < |l|:  Σⱼ λⱼ·f(xⱼ) = f(0). -/
theorem lagrange_at_zero (l : List ι) (x : ι → F) (hN : Nodes l x) (f : F[X]) (hdeg : f.degree < l.length) :
    sumF (lawful g : Ops F G) (l.map fun j =>
      (lawful g : Ops F G).mul (lagrangeCoeff (lawful g : Ops F G) l x j) (f.eval (x j))) = f.eval 0 :=
  reconstruct_poly' g hN f hdeg

/-- the same on a finite set (statement sketch of DESIGN Appendix C) -/
theorem lagrange_at_zero_finset (s : Finset ι) (x : ι → F) (hinj : Set.InjOn x s) (hnz : ∀ i ∈ s, x i ≠ 0)
    (f : F[X]) (hdeg : f.degree < s.card) : ∑ j ∈ s, lagCoeff s x j * f.eval (x j) = f.eval 0 :=
  lagCoeff_at_zero s x hinj hnz f hdeg

/-- the transcription agrees with the closed formula -/
theorem lagrange_formula (l : List ι) (hl : l.Nodup) (x : ι → F) (j : ι) (hj : j ∈ l) :
    lagrangeCoeff (lawful g : Ops F G) l x j =
      (∏ i ∈ l.toFinset, x i) / (x j * ∏ i ∈ l.toFinset.erase j, (x i - x j)) :=
  lagrangeCoeff_lawful g l hl x j hj

/-- **lagrange_sum_one** -/
theorem lagrange_sum_one (l : List ι) (x : ι → F) (hN : Nodes l x) (hne : l ≠ []) :
    sumF (lawful g : Ops F G) (l.map fun j => lagrangeCoeff (lawful g : Ops F G) l x j) = 1 := by
  have h := reconstruct_const g hN hne (1 : F)
  unfold reconstruct at h
  simpa using h

/-- **lagrange_exponent**: the same for polynomials with coefficients in `G` ("in the exponent"), in
    both representations of `polynomial.Exponent`. -/
theorem lagrange_exponent (l : List ι) (x : ι → F) (hN : Nodes l x) (e : Exponent G)
    (hdeg : expDegree e < (l.length : Int)) :
    reconstructG (lawful g : Ops F G) l x (fun j => evalExp (lawful g : Ops F G) e (x j)) =
      expConstant (lawful g : Ops F G) e :=
  reconstructG_exp g hN e hdeg

/-- coefficient-list form (what `NewPolynomial` holds) -/
theorem lagrange_coeff_list (l : List ι) (x : ι → F) (hN : Nodes l x) (cs : List F) (hlen : cs.length ≤ l.length) :
    reconstruct (lawful g : Ops F G) l x (fun j => evalPoly (lawful g : Ops F G) cs (x j)) = cs.headD 0 :=
  reconstruct_poly g hN cs hlen

/-- **horner_eq_eval** -/
theorem horner_eq_eval (cs : List F) (x : F) :
    evalPoly (lawful g : Ops F G) cs x = (polyOf cs).eval x ∧ (polyOf cs).degree < cs.length ∧
      ∀ k, (polyOf cs).coeff k = cs.getD k 0 :=
  ⟨Alg.horner_eq_eval g cs x, polyOf_degree_lt cs, polyOf_coeff cs⟩

/-- **evalExp_isConstant** -/
theorem evalExp_isConstant (cs : List G) (x : F) :
    evalExp (lawful g : Ops F G) ⟨true, cs⟩ x = evalExp (lawful g : Ops F G) ⟨false, 0 :: cs⟩ x :=
  Alg.evalExp_isConstant g cs x

/-- `NewPolynomialExponent` then `Evaluate` = `Polynomial.Evaluate` then `ActOnBase` -/
theorem evalExp_commit [DecidableEq F] (cs : List F) (x : F) :
    evalExp (lawful g : Ops F G) (expOfPoly (lawful g : Ops F G) cs) x =
      actBase (lawful g : Ops F G) (evalPoly (lawful g : Ops F G) cs x) :=
  evalExp_expOfPoly g cs x

/-! ## FROST -/

/-- the group commitment of round 2 for nonces (dᵢ, eᵢ) and binding values ρᵢ -/
theorem frostR_eq (S : List ι) (d e ρ : ι → F) :
    frostR (lawful g : Ops F G) (S.map fun i =>
        frostRShare (lawful g : Ops F G) (actBase (lawful g : Ops F G) (d i)) (actBase (lawful g : Ops F G) (e i)) (ρ i)) =
      (S.map fun i => d i + ρ i * e i).sum • g := by
  unfold frostR frostRShare
  rw [sumG_lawful, List.sum_smul, List.map_map]
  refine congrArg List.sum (List.map_congr_left fun i _ => ?_)
  simp only [Function.comp, lawful_gadd, lawful_smul, actBase_lawful, add_smul, mul_smul, add_comm]

/-- **frost_sign_correct**: ANY signer list S whose shares interpolate (with the code's coefficients) to sk
    — in particular every S with |S| ≥ t+1 after a keygen / any refresh history (`C02alg`, `C08alg`) —,
    any nonces, any binding values, any challenge c: the assembled (R, z) satisfies z·g = R + c·Y. -/
theorem frost_sign_correct (S : List ι) (x : ι → F) (sh d e ρ : ι → F) (c sk : F)
    (hsk : reconstruct (lawful g : Ops F G) S x sh = sk) :
    schnorrVerify (lawful g : Ops F G) (actBase (lawful g : Ops F G) sk)
      (frostR (lawful g : Ops F G) (S.map fun i =>
        frostRShare (lawful g : Ops F G) (actBase (lawful g : Ops F G) (d i)) (actBase (lawful g : Ops F G) (e i)) (ρ i)))
      (frostAssemble (lawful g : Ops F G) (S.map fun i =>
        frostResponse (lawful g : Ops F G) (d i) (e i) (ρ i) (lagrangeCoeff (lawful g : Ops F G) S x i) (sh i) c))
      c := by
  unfold schnorrVerify
  rw [frostR_eq, lawful_gadd, lawful_smul, actBase_lawful, actBase_lawful, ← mul_smul, ← add_smul]
  congr 1
  unfold frostAssemble frostResponse
  rw [sumF_lawful, ← hsk]
  unfold reconstruct
  rw [sumF_lawful, ← List.sum_map_mul_left, ← List.sum_map_add]
  refine congrArg List.sum (List.map_congr_left fun i _ => ?_)
  simp only [lawful_add, lawful_mul]
  ring

/-- with shares that are values of a polynomial with ≤ |S| coefficients: the key is its constant -/
theorem frost_sign_correct_poly (S : List ι) (x : ι → F) (hN : Nodes S x) (cs : List F) (hlen : cs.length ≤ S.length)
    (d e ρ : ι → F) (c : F) :
    schnorrVerify (lawful g : Ops F G) (actBase (lawful g : Ops F G) (cs.headD 0))
      (frostR (lawful g : Ops F G) (S.map fun i =>
        frostRShare (lawful g : Ops F G) (actBase (lawful g : Ops F G) (d i)) (actBase (lawful g : Ops F G) (e i)) (ρ i)))
      (frostAssemble (lawful g : Ops F G) (S.map fun i =>
        frostResponse (lawful g : Ops F G) (d i) (e i) (ρ i) (lagrangeCoeff (lawful g : Ops F G) S x i)
          (evalPoly (lawful g : Ops F G) cs (x i)) c))
      c :=
  frost_sign_correct g S x _ d e ρ c _ (reconstruct_poly g hN cs hlen)

/-- **frost_share_check_complete**: an honestly computed response passes the check of round 3 -/
theorem frost_share_check_complete (d e ρ lam s c : F) :
    frostShareCheck (lawful g : Ops F G) (frostResponse (lawful g : Ops F G) d e ρ lam s c) c lam
      (actBase (lawful g : Ops F G) s)
      (frostRShare (lawful g : Ops F G) (actBase (lawful g : Ops F G) d) (actBase (lawful g : Ops F G) e) ρ) := by
  simp only [frostShareCheck, frostResponse, frostRShare, actBase_lawful, lawful_add, lawful_mul, lawful_gadd,
    lawful_smul, ← mul_smul, ← add_smul]
  congr 1; ring

/-- **frost_share_check_sound**: if EVERY response passes the check against the verification shares Yᵢ
    and the Yᵢ interpolate to the group key Y, the assembled signature verifies — whatever the zᵢ are. -/
theorem frost_share_check_sound (S : List ι) (x : ι → F) (z : ι → F) (Ysh Rsh : ι → G) (Y : G) (c : F)
    (hY : reconstructG (lawful g : Ops F G) S x Ysh = Y)
    (hchk : ∀ i ∈ S, frostShareCheck (lawful g : Ops F G) (z i) c (lagrangeCoeff (lawful g : Ops F G) S x i) (Ysh i) (Rsh i)) :
    schnorrVerify (lawful g : Ops F G) Y (frostR (lawful g : Ops F G) (S.map Rsh))
      (frostAssemble (lawful g : Ops F G) (S.map z)) c := by
  unfold schnorrVerify frostR frostAssemble
  rw [sumG_lawful, sumF_lawful, actBase_lawful, List.sum_smul, List.map_map, ← hY]
  unfold reconstructG
  rw [sumG_lawful, lawful_gadd, lawful_smul, List.smul_sum, List.map_map, ← List.sum_map_add]
  refine (congrArg List.sum (List.map_congr_left fun i hi => ?_)).symm
  have := hchk i hi
  simp only [frostShareCheck, actBase_lawful, lawful_gadd, lawful_smul] at this
  simp only [Function.comp, lawful_smul]
  exact this

/-- **schnorr_z_unique**: the nonce point (and challenge) determine the response -/
theorem schnorr_z_unique (hg : g ≠ 0) (Y R : G) (c z z' : F)
    (h : schnorrVerify (lawful g : Ops F G) Y R z c) (h' : schnorrVerify (lawful g : Ops F G) Y R z' c) : z = z' := by
  unfold schnorrVerify at h h'
  exact smul_left_injective_field hg (h.symm.trans h')

/-! ## CMP -/

theorem cmp_sign_core (S : List ι) (hS : S.Nodup) (k γ xs : ι → F) (αd βd αc βc : ι → ι → F)
    (hmtaδ : ∀ i ∈ S, ∀ j ∈ S, i ≠ j → αd i j + βd j i = γ j * k i)
    (hmtaχ : ∀ i ∈ S, ∀ j ∈ S, i ≠ j → αc i j + βc j i = xs j * k i) (m r : F)
    (δ : F) (Γ R X : G) (s : F)
    (dδ : δ = sumF (lawful g : Ops F G) (S.map fun i => cmpShareOf (lawful g : Ops F G) S γ k αd βd i))
    (dΓ : Γ = cmpGamma (lawful g : Ops F G) (S.map fun i => actBase (lawful g : Ops F G) (γ i)))
    (dR : R = cmpR (lawful g : Ops F G) δ Γ)
    (dX : X = cmpSignPublicKey (lawful g : Ops F G) (S.map fun i => actBase (lawful g : Ops F G) (xs i)))
    (ds : s = ecdsaAssemble (lawful g : Ops F G) (S.map fun i =>
      cmpSigmaShare (lawful g : Ops F G) r (cmpShareOf (lawful g : Ops F G) S xs k αc βc i) m (k i))) :
    δ = (S.map k).sum * (S.map γ).sum ∧
    sumF (lawful g : Ops F G) (S.map fun i => cmpShareOf (lawful g : Ops F G) S xs k αc βc i) =
      (S.map k).sum * (S.map xs).sum ∧
    s = (S.map k).sum * (m + r * (S.map xs).sum) ∧
    cmpDeltaCheck (lawful g : Ops F G) δ (S.map fun i => cmpBigDeltaShare (lawful g : Ops F G) (k i) Γ) ∧
    X = (S.map xs).sum • g ∧
    (δ ≠ 0 → s ≠ 0 → R = ((S.map k).sum)⁻¹ • g ∧ ecdsaEq (lawful g : Ops F G) X R m r s) := by
  have hδ : δ = (S.map k).sum * (S.map γ).sum := by
    rw [dδ, sumF_lawful]; exact cmp_shares_sum g S hS γ k αd βd hmtaδ
  have hχ' : (S.map fun i => cmpShareOf (lawful g : Ops F G) S xs k αc βc i).sum = (S.map k).sum * (S.map xs).sum :=
    cmp_shares_sum g S hS xs k αc βc hmtaχ
  have hΓ : Γ = (S.map γ).sum • g := by
    rw [dΓ]; unfold cmpGamma; rw [sumG_lawful, List.sum_smul, List.map_map]; rfl
  have hX : X = (S.map xs).sum • g := by
    rw [dX]; unfold cmpSignPublicKey; rw [sumG_lawful, List.sum_smul, List.map_map]; rfl
  have hs : s = (S.map k).sum * (m + r * (S.map xs).sum) := by
    rw [ds]
    unfold ecdsaAssemble cmpSigmaShare
    rw [sumF_lawful]
    simp only [lawful_add, lawful_mul]
    rw [List.sum_map_add, List.sum_map_mul_left, List.sum_map_mul_left, hχ']; ring
  refine ⟨hδ, by rw [sumF_lawful]; exact hχ', hs, ?_, hX, ?_⟩
  · unfold cmpDeltaCheck
    rw [sumG_lawful, actBase_lawful, hδ, hΓ]
    simp only [cmpBigDeltaShare, lawful_smul]
    rw [mul_smul, List.sum_smul, List.map_map]; rfl
  · intro hδ0 hs0
    have hR : R = ((S.map k).sum)⁻¹ • g := by
      rw [dR]; unfold cmpR
      rw [lawful_smul, lawful_inv, hΓ, ← mul_smul, hδ]
      have hk : (S.map k).sum ≠ 0 := by
        intro h; rw [hδ, h, zero_mul] at hδ0; exact hδ0 rfl
      have hγ : (S.map γ).sum ≠ 0 := by
        intro h; rw [hδ, h, mul_zero] at hδ0; exact hδ0 rfl
      congr 1; field_simp
    refine ⟨hR, ?_⟩
    unfold ecdsaEq
    rw [lawful_smul, lawful_inv, lawful_gadd, lawful_smul, actBase_lawful, hR, hX]
    exact ecdsa_core g _ m r _ s hs hs0

/-- **cmp_sign_correct**. Signers S (any duplicate-free list), nonce shares k, mask shares γ, (already
    Lagrange-scaled) key shares xs, and an ABSTRACT MtA: the outputs satisfy
    `α i j + β j i = a j · k i` for every ordered pair of different signers (a = γ for δ, a = xs for χ).
    Then: Σδᵢ = k·γ, Σχᵢ = k·x, the Δ-consistency check of round 4 passes, s = Σσᵢ = k·(m + r·x), and —
    on the branch the code continues on (δ ≠ 0; `Verify` refuses s = 0) — R = δ⁻¹·Γ = k⁻¹·g and the ECDSA
    equation s⁻¹·(m·g + r·X) = R holds, for ANY value r (the code takes r = R.XScalar()). -/
theorem cmp_sign_correct (S : List ι) (hS : S.Nodup) (k γ xs : ι → F) (αd βd αc βc : ι → ι → F)
    (hmtaδ : ∀ i ∈ S, ∀ j ∈ S, i ≠ j → αd i j + βd j i = γ j * k i)
    (hmtaχ : ∀ i ∈ S, ∀ j ∈ S, i ≠ j → αc i j + βc j i = xs j * k i) (m r : F) :
    let O : Ops F G := lawful g
    let δ := sumF O (S.map fun i => cmpShareOf O S γ k αd βd i)
    let Γ := cmpGamma O (S.map fun i => actBase O (γ i))
    let R := cmpR O δ Γ
    let X := cmpSignPublicKey O (S.map fun i => actBase O (xs i))
    let s := ecdsaAssemble O (S.map fun i => cmpSigmaShare O r (cmpShareOf O S xs k αc βc i) m (k i))
    δ = (S.map k).sum * (S.map γ).sum ∧
    sumF O (S.map fun i => cmpShareOf O S xs k αc βc i) = (S.map k).sum * (S.map xs).sum ∧
    s = (S.map k).sum * (m + r * (S.map xs).sum) ∧
    cmpDeltaCheck O δ (S.map fun i => cmpBigDeltaShare O (k i) Γ) ∧
    X = (S.map xs).sum • g ∧
    (δ ≠ 0 → s ≠ 0 → R = ((S.map k).sum)⁻¹ • g ∧ ecdsaEq O X R m r s) := by
  intro O δ Γ R X s
  exact cmp_sign_core g S hS k γ xs αd βd αc βc hmtaδ hmtaχ m r δ Γ R X s rfl rfl rfl rfl rfl

/-- the share scaling of `StartSign` / `StartPresign`: the scaled secrets add up to the interpolated
    secret and the scaled public shares to the interpolated key — for ANY signer list with a consistent
    table; with a sharing of degree ≤ t and |S| ≥ t+1 that is (sk, sk·g) (`C02alg.reconstruct_any_subset`). -/
theorem cmp_scaling (S : List ι) (x : ι → F) (sh : ι → F) (pub : ι → G)
    (hpub : ∀ i ∈ S, actBase (lawful g : Ops F G) (sh i) = pub i) :
    (S.map fun i => cmpScaleSecret (lawful g : Ops F G) (lagrangeCoeff (lawful g : Ops F G) S x i) (sh i)).sum =
        reconstruct (lawful g : Ops F G) S x sh ∧
    cmpSignPublicKey (lawful g : Ops F G)
        (S.map fun i => cmpScalePublic (lawful g : Ops F G) (lagrangeCoeff (lawful g : Ops F G) S x i) (pub i)) =
      reconstruct (lawful g : Ops F G) S x sh • g ∧
    (∀ i ∈ S, cmpScalePublic (lawful g : Ops F G) (lagrangeCoeff (lawful g : Ops F G) S x i) (pub i) =
      actBase (lawful g : Ops F G) (cmpScaleSecret (lawful g : Ops F G) (lagrangeCoeff (lawful g : Ops F G) S x i) (sh i))) := by
  refine ⟨?_, ?_, ?_⟩
  · unfold reconstruct cmpScaleSecret; rw [sumF_lawful]
  · unfold cmpSignPublicKey cmpScalePublic reconstruct
    rw [sumG_lawful, sumF_lawful, List.sum_smul, List.map_map]
    refine congrArg List.sum (List.map_congr_left fun i hi => ?_)
    simp only [Function.comp, lawful_smul, lawful_mul, mul_smul]
    rw [← hpub i hi, actBase_lawful]
  · intro i hi
    simp only [cmpScalePublic, cmpScaleSecret, lawful_smul, lawful_mul, actBase_lawful, mul_smul]
    rw [← hpub i hi, actBase_lawful]

theorem cmp_presign_online_core (S : List ι) (k χ : ι → F) (xsec m r : F)
    (hχ : (S.map χ).sum = (S.map k).sum * xsec) (hk : (S.map k).sum ≠ 0) (R X : G) (s : F)
    (dR : R = ((S.map k).sum)⁻¹ • g) (dX : X = xsec • g)
    (ds : s = ecdsaAssemble (lawful g : Ops F G) (S.map fun i => presigSigmaShare (lawful g : Ops F G) m (k i) r (χ i))) :
    s = (S.map k).sum * (m + r * xsec) ∧
    (s ≠ 0 → ecdsaEq (lawful g : Ops F G) X R m r s) ∧
    presignKeyCheck (lawful g : Ops F G) X (S.map fun i => presignS (lawful g : Ops F G) (χ i) R) ∧
    (∀ i, presigShareCheck (lawful g : Ops F G) (presigSigmaShare (lawful g : Ops F G) m (k i) r (χ i)) m r R
      (k i • R) (presignS (lawful g : Ops F G) (χ i) R)) := by
  have hs : s = (S.map k).sum * (m + r * xsec) := by
    rw [ds]
    unfold ecdsaAssemble presigSigmaShare
    rw [sumF_lawful]
    simp only [lawful_add, lawful_mul]
    rw [List.sum_map_add, List.sum_map_mul_left, List.sum_map_mul_left, hχ]; ring
  refine ⟨hs, ?_, ?_, ?_⟩
  · intro hs0
    unfold ecdsaEq
    rw [lawful_smul, lawful_inv, lawful_gadd, lawful_smul, actBase_lawful, dR, dX]
    exact ecdsa_core g _ m r xsec s hs hs0
  · unfold presignKeyCheck
    rw [sumG_lawful]
    have : (S.map fun i => presignS (lawful g : Ops F G) (χ i) R) = (S.map χ).map (fun c => c • R) := by
      rw [List.map_map]; rfl
    rw [this, ← List.sum_smul, hχ, dR, dX, ← mul_smul]
    congr 1; field_simp
  · intro i
    simp only [presigShareCheck, presigSigmaShare, presignS, lawful_add, lawful_mul, lawful_smul, lawful_gadd,
      add_smul, mul_smul]

/-- **cmp_presign_online_correct**: a presignature (R, kᵢ, χᵢ) with Σχᵢ = k·x and R = k⁻¹·g (what
    `cmp_sign_correct` shows the seven presign rounds produce, same δ/χ formulas) and the online shares
    σᵢ = kᵢ·m + r·χᵢ of `PreSignature.SignatureShare`: s = Σσᵢ = k(m + r·x) and, when s ≠ 0, the ECDSA
    equation holds. Also: Σ Sⱼ = X (the check of presign7) and every honest share passes
    `VerifySignatureShares` (with R̄ᵢ = kᵢ·R, Sᵢ = χᵢ·R). -/
theorem cmp_presign_online_correct (S : List ι) (k χ : ι → F) (xsec m r : F)
    (hχ : (S.map χ).sum = (S.map k).sum * xsec) (hk : (S.map k).sum ≠ 0) :
    let O : Ops F G := lawful g
    let R : G := ((S.map k).sum)⁻¹ • g
    let X : G := xsec • g
    let s := ecdsaAssemble O (S.map fun i => presigSigmaShare O m (k i) r (χ i))
    s = (S.map k).sum * (m + r * xsec) ∧
    (s ≠ 0 → ecdsaEq O X R m r s) ∧
    presignKeyCheck O X (S.map fun i => presignS O (χ i) R) ∧
    (∀ i, presigShareCheck O (presigSigmaShare O m (k i) r (χ i)) m r R (k i • R) (presignS O (χ i) R)) := by
  intro O R X s
  exact cmp_presign_online_core g S k χ xsec m r hχ hk R X s rfl rfl rfl

/-- `RBar[j] = δ⁻¹·Δⱼ` of presign6 is kⱼ·R -/
theorem presign_rbar (delta kj : F) (Gamma : G) :
    presignRBar (lawful g : Ops F G) delta (cmpBigDeltaShare (lawful g : Ops F G) kj Gamma) =
      kj • cmpR (lawful g : Ops F G) delta Gamma := by
  simp only [presignRBar, cmpBigDeltaShare, cmpR, lawful_smul, lawful_inv]
  rw [smul_comm]

/-- **ecdsa_s_unique**: two signatures with the same nonce point R (≠ identity, as `Verify` requires
    r = R.XScalar() ≠ 0) that satisfy the verification equation for the same key and digest have the same s. -/
theorem ecdsa_s_unique (X R : G) (hR : R ≠ 0) (m r s s' : F)
    (h : ecdsaEq (lawful g : Ops F G) X R m r s) (h' : ecdsaEq (lawful g : Ops F G) X R m r s') : s = s' := by
  unfold ecdsaEq at h h'
  simp only [lawful_smul, lawful_inv, lawful_gadd, actBase_lawful] at h h'
  have hP : m • g + r • X ≠ 0 := by
    intro e; rw [e, smul_zero] at h; exact hR h.symm
  have := smul_left_injective_field hP (h.trans h'.symm)
  exact inv_injective this

/-! ## Doerner (2-party ECDSA from OT multiplication) -/

/-- **doerner_sign_correct**. A = sender with share skA, nonce kA, mask φ; B = receiver with share skB,
    nonce kB. ABSTRACT multiplication outputs: `tA1 + tB1 = α₀·kB⁻¹`, `tA21 + tB21 = α₁·kB⁻¹`,
    `tA22 + tB22 = α₂·β` with the inputs the code feeds (α₀ = kA⁻¹+φ, α₁ = skA·kA⁻¹, α₂ = kA⁻¹, β = skB·kB⁻¹).
    Then: both sides compute the same Γ₁ (so the same hash h₁, and B recovers φ), the same Γ₂ (same h₂),
    B's `sigAB` is sigA + sigB = (m + r·sk)/(kA·kB), and with R = kA·kB·g the ECDSA equation holds. -/
theorem doerner_sign_correct (skA skB kA kB φ tA1 tB1 tA21 tB21 tA22 tB22 m r h1 h2 : F)
    (hkA : kA ≠ 0) (hkB : kB ≠ 0) :
    let O : Ops F G := lawful g
    let kBInv := doeKBInv O kB
    let D := doeD O kB
    let R := doeR O kA D
    let X : G := (skA + skB) • g
    let tA2 := doeTA2 O tA21 tA22
    let tB2 := O.add tB21 tB22
    let θ := doeTheta O (doePhiB O h1 (doeMuPhi O h1 φ)) kBInv tB1
    let sigA := doeSigA O m tA1 r tA2
    let sigB := doeSigB O m θ r tB2
    let sigAB := doeSigAB O sigB (doeMuSig O h2 sigA) h2
    tA1 + tB1 = doeAlpha0 O kA φ * kBInv →
    tA21 + tB21 = doeAlpha1 O skA kA * kBInv →
    tA22 + tB22 = doeAlpha2 O kA * doeBeta O skB kBInv →
    doeGamma1A O φ kA tA1 R = doeGamma1B O tB1 R ∧
    doePhiB O h1 (doeMuPhi O h1 φ) = φ ∧
    doeGamma2A O tA1 tA2 X = doeGamma2B O tB2 θ X ∧
    sigAB = sigA + sigB ∧
    sigAB = (kA * kB)⁻¹ * (m + r * (skA + skB)) ∧
    R = (kA * kB) • g ∧
    (sigAB ≠ 0 → ecdsaEq O X R m r sigAB) := by
  intro O kBInv D R X tA2 tB2 θ sigA sigB sigAB
  simp only [O, kBInv, D, R, X, tA2, tB2, θ, sigA, sigB, sigAB, doeKBInv, doeD, doeR, doeTA2, doeTheta, doePhiB,
    doeMuPhi, doeSigA, doeSigB, doeSigAB, doeMuSig, doeAlpha0, doeAlpha1, doeAlpha2, doeBeta, doeGamma1A, doeGamma1B,
    doeGamma2A, doeGamma2B, ecdsaEq, lawful_add, lawful_sub, lawful_mul, lawful_neg, lawful_inv, lawful_gadd,
    lawful_smul, lawful_base, actBase_lawful, gsub_lawful]
  intro e1 e2 e3
  have hφ : -h1 + (h1 + φ) = φ := by ring
  have ht1 : tB1 = (kA⁻¹ + φ) * kB⁻¹ - tA1 := by rw [← e1]; ring
  have ht2 : tB21 + tB22 = (skA + skB) * (kA * kB)⁻¹ - (tA21 + tA22) := by
    have : tB21 + tB22 = (tA21 + tB21) + (tA22 + tB22) - (tA21 + tA22) := by ring
    rw [this, e2, e3]; field_simp
  have hsig : m * (-((-h1 + (h1 + φ)) * kB⁻¹) + tB1) + r * (tB21 + tB22) + (h2 + (m * tA1 + r * (tA21 + tA22))) - h2 =
      (kA * kB)⁻¹ * (m + r * (skA + skB)) := by
    rw [hφ, ht1, ht2]; field_simp; ring
  refine ⟨?_, hφ, ?_, by ring, hsig, by rw [mul_smul], ?_⟩
  · rw [hφ] at *
    rw [ht1]
    simp only [← mul_smul]
    rw [show g + (φ * kA) • g = (1 + φ * kA) • g by rw [add_smul, one_smul], ← sub_smul]
    congr 1; field_simp
  · rw [hφ, ht1, ht2]
    simp only [← mul_smul, ← sub_smul]
    congr 1; field_simp; ring
  · intro hs0
    rw [hsig] at hs0 ⊢
    have hkk : kA * kB ≠ 0 := mul_ne_zero hkA hkB
    have hm : m + r * (skA + skB) ≠ 0 := by
      intro h; rw [h, mul_zero] at hs0; exact hs0 rfl
    simp only [← mul_smul, ← add_smul]
    congr 1; field_simp

/-! ### non-vacuity -/
example : Nodes (F := ℚ) [2, 0] (fun i : ℕ => (i : ℚ) + 1) := by
  refine ⟨by decide, ?_, ?_⟩
  · intro i hi j hj e; simpa using e
  · intro i _; positivity
/-- an MtA satisfying the hypothesis exists for every input: α i j := a j · k i, β := 0 -/
example (a k : ℕ → ℚ) : ∀ i ∈ [0, 1, 2], ∀ j ∈ [0, 1, 2], i ≠ j →
    (fun i j => a j * k i) i j + (fun _ _ => (0 : ℚ)) j i = a j * k i := by
  intro i _ j _ _; simp

end Mps.C01alg
