import MpsProps.Anchors.C16
import MpsProofs.Sig
import MpsProofs.SigBytes
import MpsGen.Sig
import Mps.SigVariant
import Mathlib.Tactic.Linarith
import Mathlib.Tactic.NormNum
import Mathlib.Algebra.Order.Field.Rat
import Mathlib.Algebra.Order.AbsoluteValue.Basic
/-
  C16 — Stand-alone signature primitives conform to their standards.
  Property theorems only (lemmas: MpsProofs/Sig.lean — algebra over a lawful record of
  operations —, MpsProofs/SigBytes.lean — byte level).

  Where the code that exists does NOT conform, the full-strength statement is false; it is then
  stated in a comment, the provable part is named `…_partial`, and the NEGATION is proved with a
  kernel-decided witness (`…_not_strict`, `…_unchecked`, `…_highx`). Those witnesses are the
  findings of this property; the correspondence suite `sig` reproduces each on the real code.
-/
namespace Mps.C16
open Mps Mps.Secp Mps.Sig

/-! ### 1. ECDSA (algebra: any field `F` of scalars, any `F`-module `G` of points) -/

section algebra
variable {F G : Type} [DecidableEq F] [DecidableEq G]

/-- The model of `ecdsa.Signature.Verify` accepts exactly when r ≠ 0, s ≠ 0 and
    s⁻¹·(m·G + r·X) = R with r = x(R) — for ANY record of operations (no law is needed: the code
    computes the standard equation literally). -/
theorem ecdsa_verify_iff (O : Ops F G) (X : G) (m : F) (R : G) (s : F) :
    verifyGoO O X m R s = true ↔
      (O.xs R ≠ O.fzero ∧ s ≠ O.fzero ∧
        O.smul (O.finv s) (O.gadd (O.smul m O.gen) (O.smul (O.xs R) X)) = R) := by
  rw [verifyGoO_eq_spec]
  simp [ecdsaVerifySpecO, and_assoc]

variable [Field F] [AddCommGroup G] [Module F G] (gen : G) (xs : G → F) (evenY : G → Bool)

/-- A signature produced by the textbook signing equation verifies (k ≠ 0, r ≠ 0, s ≠ 0: the
    cases in which signing restarts). -/
theorem ecdsa_sign_verify (x k m : F) (hk : k ≠ 0)
    (hr : xs (k • gen) ≠ 0) (hs : k⁻¹ * (m + xs (k • gen) * x) ≠ 0) :
    verifyGoO (lawful gen xs evenY) (x • gen) m (ecdsaSignO (lawful gen xs evenY) x k m).1
      (ecdsaSignO (lawful gen xs evenY) x k m).2 = true := by
  rw [verifyGoO_eq_spec]; exact sign_verify gen xs evenY x k m hk hr hs

/-- (R, s) accepted ⇒ the textbook verifier accepts (r, s) with r = x(R) … -/
theorem ecdsa_rs_of_valid (hx0 : xs 0 = 0) (X : G) (m : F) (R : G) (s : F)
    (h : verifyGoO (lawful gen xs evenY) X m R s = true) :
    ecdsaVerifyRSO (lawful gen xs evenY) X m (xs R) s = true := by
  rw [verifyGoO_eq_spec] at h; exact rs_of_valid gen xs evenY hx0 X m R s h

/-- … and every textbook-valid (r, s) is accepted in the (R, s) format for the recomputed R. -/
theorem ecdsa_valid_of_rs (X : G) (m r s : F) (h : ecdsaVerifyRSO (lawful gen xs evenY) X m r s = true) :
    ∃ R, xs R = r ∧ verifyGoO (lawful gen xs evenY) X m R s = true := by
  obtain ⟨R, h1, h2⟩ := valid_of_rs gen xs evenY X m r s h
  exact ⟨R, h1, by rw [verifyGoO_eq_spec]; exact h2⟩

/-- (−R, −s) is valid iff (R, s) is: what `SigEthereum` does to the CALLER's signature keeps it valid. -/
theorem neg_pair_valid_iff (hx : ∀ P, xs (-P) = xs P) (X : G) (m : F) (R : G) (s : F) :
    verifyGoO (lawful gen xs evenY) X m (-R) (-s) = verifyGoO (lawful gen xs evenY) X m R s := by
  rw [verifyGoO_eq_spec, verifyGoO_eq_spec]; exact neg_pair gen xs evenY hx X m R s

/-- low-s normalisation (for any notion of "high") keeps validity -/
theorem eth_low_s (hx : ∀ P, xs (-P) = xs P) (high : F → Bool) (X : G) (m : F) (R : G) (s : F) :
    verifyGoO (lawful gen xs evenY) X m (ethNormalizeO (lawful gen xs evenY) high R s).1
      (ethNormalizeO (lawful gen xs evenY) high R s).2 = verifyGoO (lawful gen xs evenY) X m R s := by
  unfold ethNormalizeO
  split
  · exact neg_pair_valid_iff gen xs evenY hx X m R s
  · rfl

/-- standard recovery Q = r⁻¹(s·R − m·G) returns the signing key of every valid signature … -/
theorem eth_recover (X : G) (m : F) (R : G) (s : F) (h : verifyGoO (lawful gen xs evenY) X m R s = true) :
    recoverO (lawful gen xs evenY) m R s = X := by
  rw [verifyGoO_eq_spec] at h; exact recover_of_valid gen xs evenY X m R s h

/-- … and only of valid ones: (R, s) with r, s ≠ 0 is valid for X iff recovery returns X. -/
theorem eth_recover_iff (X : G) (m : F) (R : G) (s : F) (hr : xs R ≠ 0) (hs : s ≠ 0) :
    verifyGoO (lawful gen xs evenY) X m R s = true ↔ recoverO (lawful gen xs evenY) m R s = X :=
  ⟨eth_recover gen xs evenY X m R s, fun h => by
    rw [verifyGoO_eq_spec]; exact valid_of_recover gen xs evenY X m R s hr hs h⟩

/-! ### 2. BIP-340 (abstract group with a parity predicate) -/

/-- Signatures made by BIP-340 default signing verify under the x-only public key, in every
    group with a parity predicate `evenY` flipping under negation, an even-`lift` and a
    negation-invariant x coordinate; any challenge function. -/
theorem bip340_sign_verify {X M : Type} [DecidableEq X] (xc : G → X) (lift : X → Option G)
    (chal : X → X → M → F) (hgen : gen ≠ 0)
    (hpar : ∀ P : G, P ≠ 0 → evenY (-P) = !evenY P) (hxc : ∀ P : G, xc (-P) = xc P)
    (hlift : ∀ P : G, P ≠ 0 → evenY P = true → lift (xc P) = some P)
    (d' k' : F) (hd : d' ≠ 0) (hk : k' ≠ 0) (m : M) :
    schnorrVerifyO (lawful gen xs evenY) xc lift chal (xc (d' • gen)) m
      (schnorrSignO (lawful gen xs evenY) xc chal d' k' m).1
      (schnorrSignO (lawful gen xs evenY) xc chal d' k' m).2 = true :=
  schnorr_sign_verify gen xs evenY xc lift chal hgen hpar hxc hlift d' k' hd hk m

end algebra

/-! ### 3. secp256k1 instances and byte level -/

/-- `curve.FromHash` (truncate to 32 bytes, shift, reduce) is the SEC 1 / OpenSSL bits2int
    conversion for hashes of ANY length. -/
theorem from_hash_conforms (h : Bytes) : fromHashGo h = fromHash h := fromHashGo_eq h

/-- on secp256k1: the model of `Signature.Verify` on a hash of any length is the standard
    equation on the SEC 1 message scalar -/
theorem ecdsa_verify_iff_secp (X : Pt) (h : Bytes) (R : Pt) (s : Nat) (hs : s < n) :
    verifyGo X h R s = ecdsaVerifySpec X (fromHash h) R s := by
  unfold verifyGo ecdsaVerifySpec
  rw [verifyGoO_eq_spec, fromHashGo_eq]
  simp [hs]

/-!  FULL STATEMENT (false for the code as it is):
       point_decode_strict : decodeGo bs = decodeStrict bs        (accepted = {02,03} ‖ x on the curve)
     What holds: -/

/-- every strictly valid encoding is accepted with the same result, and everything accepted is
    a 33-byte string that the strict decoder accepts once the prefix is replaced by 03 (if it was
    03) or by 02 (ANY other byte) -/
theorem point_decode_strict_partial (bs : Bytes) (P : Pt) :
    (decodeStrict bs = some P → decodeGo bs = some P) ∧
    (decodeGo bs = some P → ∃ pre rest, bs = pre :: rest ∧ rest.length = 32 ∧
        decodeStrict ((if pre = 3 then 3 else 2) :: rest) = some P) :=
  ⟨decodeStrict_imp_decodeGo bs P, decodeGo_char bs P⟩

/-- the defect, for all inputs: the prefix byte is only compared with 3 -/
theorem point_decode_prefix_ignored (pre : UInt8) (rest : Bytes) (h : pre ≠ 3) :
    decodeGo (pre :: rest) = decodeGo (2 :: rest) := decodeGo_prefix_ignored pre rest h

/-- NEGATION of `point_decode_strict`, kernel-decided witness: 07 ‖ x(G) decodes to G -/
theorem point_decode_not_strict :
    decodeGo (0x07 :: xBytes G) = some G ∧ decodeStrict (0x07 :: xBytes G) = none ∧
    decodeGo (0x00 :: xBytes G) = some G ∧ decodeGo (0x04 :: xBytes G) = some G := by decide +kernel

/-- the decoder after the proposed patch IS the strict decoder (`point_decode_strict` for the fix) -/
theorem point_decode_strict_fixed (bs : Bytes) : decodeFixed bs = decodeStrict bs := decodeFixed_eq_strict bs

/-!  FULL STATEMENT (false for the shipped code): bip340_verify_iff_spec : verifyGo pk m sig = verify pk m sig
     for ALL byte strings pk. What holds: -/

/-- for public keys of the right length (32 bytes) the model of `PublicKey.Verify` IS the BIP-340
    verification algorithm: wrong signature lengths, r ≥ p, s ≥ n, x(P) ≥ p or not on the curve,
    infinite R, odd-Y R and x(R) ≠ r are all rejected, everything else accepted -/
theorem bip340_verify_iff_spec_partial (pk m sig : Bytes) (hpk : pk.length = 32) :
    Bip340.verifyGo pk m sig = Bip340.verify pk m sig := bip340_verifyGo_eq_verify pk m sig hpk

set_option maxRecDepth 1000000 in
/-- NEGATION of `bip340_verify_iff_spec` (model of `PublicKey.Verify` ⇔ BIP-340 verification),
    kernel-decided witness: a 33-byte "public key" is accepted (its first 32 bytes are used as x,
    all 33 are hashed into the challenge); BIP-340 public keys are 32 bytes. -/
theorem bip340_verify_pklen_unchecked :
    let pk := Bip340.hexB "14020d4f9ff162d3bde73602d895e832837062fcbe28d15f0edf9bdc066e871580"
    let m := Bip340.hexB "c9ee948e28828eaf3b3c87d3bfd495477b403da54f1418a15ace0d4d0df68f6a8f"
    let sig := Bip340.hexB "676ade7854a4aca9d8980209e7bb94e63ccb91a179c84b2c368a65b71f9c915c0938fd07340c1318ca64b34e4ebf8732678c163f09b2403232d9d262a1334e9f"
    pk.length = 33 ∧ Bip340.verifyGo pk m sig = true ∧ Bip340.verify pk m sig = false := by
  decide +kernel

/-- NEGATION of "the Ethereum export of every valid signature recovers the signing key",
    kernel-decided witness: a valid signature whose nonce point has x ≥ n. `SigEthereum` writes
    x(R) itself (≥ n) where the standard has r = x(R) mod n and recovery-id bit 1 set; standard
    recovery refuses r ≥ n. (Reachable only with a crafted key or with probability ≈ 2⁻¹²⁸.) -/
theorem eth_export_highx :
    let X := (decodeStrict (Bip340.hexB "02bcf1a01181f4ec9d4eabe215596f2514035de3c79c411fea6f9aab2cce21e726")).getD .inf
    let R := (decodeStrict (Bip340.hexB "03fffffffffffffffffffffffffffffffebaaedce6af48a03bbfd25e8cd03642ff")).getD .inf
    let s := 0xa14ad6c30b56247eab28197fe617e5f88afa5cbe003c63d423647ad3042626fa
    let h : Bytes := List.replicate 32 0
    verifyGo X h R s = true ∧ ecdsaVerifySpec X (fromHash h) R s = true ∧
    ((sigEthereumGo R s).1.map fun e => ecrecover (fromHash h) e == none) = some true ∧
    ((ethExportSpec R s).map fun e => ethLowS e && ecrecover (fromHash h) e == some X) = some true := by
  decide +kernel

/-! ### 3b. The working tree: statements that become unconditional once the patches are in
  (`Variant.*` is read off the regenerated tables; on the shipped tree the hypotheses are false) -/

/-- `point_decode_strict` for the decoder the driver runs against the working tree -/
theorem point_decode_strict (h : Variant.strictPrefix = true) (bs : Bytes) :
    Variant.decodeCur bs = decodeStrict bs := by
  unfold Variant.decodeCur; rw [h]; exact decodeFixed_eq_strict bs

/-- `bip340_verify_iff_spec` for the working tree: with the length check in `LiftX`, the model of
    `PublicKey.Verify` is BIP-340 verification on ALL inputs -/
theorem bip340_verify_iff_spec (h : Variant.liftXLen = true) (pk m sig : Bytes) :
    Variant.bipVerifyCur pk m sig = Bip340.verify pk m sig := by
  unfold Variant.bipVerifyCur Bip340.verifyFixed; rw [h]
  by_cases hl : pk.length = 32
  · simp [hl, bip340_verifyGo_eq_verify pk m sig hl]
  · simp [hl, Bip340.verify]

/-- the patched `SigEthereum` (any point decoder) writes exactly the standard export r ‖ s ‖ v with
    r = x(R) mod n, low s and the full recovery id -/
theorem eth_export_fixed_conforms (dec : Bytes → Option Pt) (x y s : Nat) (hx : x < 256 ^ 32) (hs0 : 0 < s)
    (hsn : s < n) (e : Bytes) (h : (sigEthereumFixed dec (.aff x y) s).1 = some e) :
    ethExportSpec (.aff x y) s = some e := ethFixed_conforms dec x y s hx hs0 hsn e h

/-! ### 4. Obligations over the tables regenerated from the source -/

set_option maxRecDepth 16384

/-- `Secp256k1Point.UnmarshalBinary` is one of the two shapes the driver has a model for: the
    shipped one (`decodeGo`: length 33; x ≥ p refused; `DecompressY(x, data[0] == 3)`) or the one after
    hooks/secp256k1-strict-prefix.diff (`decodeFixed`: additionally data[0] ∈ {2, 3}). The driver
    selects the model by the same comparison (`Variant.strictPrefix`). -/
theorem gen_point_unmarshal :
    MpsGen.Sig.pointUnmarshal = Variant.pointUnmarshalShipped ∨
    MpsGen.Sig.pointUnmarshal = Variant.pointUnmarshalFixed := by decide

theorem gen_point_marshal : MpsGen.Sig.pointMarshal =
    ["make([]byte, 33)", "v.ToAffine()", "v.Y.IsOddBit()", "v.X.Bytes()", "copy(out[1:], data[:])"] := by decide

theorem gen_scalar_unmarshal : MpsGen.Sig.scalarUnmarshal =
    [ "len(data) != 32 => fmt.Errorf(\"invalid length for secp256k1 scalar: %d\", len(data))",
      "s.value.SetBytes(&exactData) != 0 => errors.New(\"invalid bytes for secp256k1 scalar\")",
      "s.value.SetBytes(&exactData)" ] := by decide

/-- `LiftX`: shipped (the slice goes to `SetByteSlice` unchecked; model `pk.take 32`) or after
    hooks/secp256k1-liftx-length.diff (32 bytes required; model `Bip340.verifyFixed`) -/
theorem gen_liftx :
    MpsGen.Sig.liftX = Variant.liftXShipped ∨ MpsGen.Sig.liftX = Variant.liftXFixed := by decide

theorem gen_point_queries :
    MpsGen.Sig.xScalar = ["p.value.ToAffine()", "out.value.SetBytes(p.value.X.Bytes())", "p.value.X.Bytes()"] ∧
    MpsGen.Sig.hasEvenY = ["p.value.ToAffine()", "p.value.Y.IsOdd()", "!p.value.Y.IsOdd()"] ∧
    MpsGen.Sig.isIdentity = ["p == nil || (p.value.X.IsZero() && p.value.Y.IsZero()) || p.value.Z.IsZero()"] := by decide

theorem gen_from_hash : MpsGen.Sig.fromHash =
    [ "group.Order()", "order.BitLen()", "len(h)", "new(saferith.Nat).SetBytes(h)", "len(h)",
      "if excess > 0: s.Rsh(s, uint(excess), -1)", "group.NewScalar().SetNat(s)" ] := by decide

/-- `Signature.Verify`, the statements `verifyGoO` transcribes -/
theorem gen_ecdsa_verify : MpsGen.Sig.ecdsaVerify =
    [ "r.IsZero() || sig.S.IsZero() => false",
      "sig.R.XScalar()", "curve.FromHash(group, hash)", "group.NewScalar().Set(sig.S).Invert()",
      "m.ActOnBase()", "r.Act(X)", "mG.Add(rX)", "sInv.Act(R2)", "R2.Equal(sig.R)",
      "false", "R2.Equal(sig.R)" ] := by decide

/-- `Signature.SigEthereum`: the statements `sigEthereumGoWith` transcribes (shipped) or those of
    `sigEthereumFixed` (after hooks/ecdsa-sigethereum-reduce-r.diff); in both the receiver is a struct
    value over interface fields (the caller's signature is mutated) -/
theorem gen_sig_ethereum :
    ((MpsGen.Sig.sigEthereum, MpsGen.Sig.sigEthereumAssigns) = Variant.sigEthereumShipped ∨
     (MpsGen.Sig.sigEthereum, MpsGen.Sig.sigEthereumAssigns) = Variant.sigEthereumFixedTable) ∧
    MpsGen.Sig.sigEthereumReceiver = ["recv Signature", "R curve.Point", "S curve.Scalar"] := by decide

theorem gen_tagged_hash : MpsGen.Sig.taggedHash =
    [ "sha256.Sum256([]byte(tag))", "sha256.New()", "h.Write(tagSum[:])", "h.Write(tagSum[:])",
      "h.Write(data)", "h.Sum(nil)" ] := by decide

/-- `PublicKey.Verify`: only the signature length is checked; `pk` goes to `LiftX` and, as given,
    into the challenge hash -/
theorem gen_taproot_verify :
    MpsGen.Sig.taprootVerify =
      [ "len(sig) != SignatureLen => false", "err != nil => false",
        "err := s.UnmarshalBinary(sig[32:]); err != nil => false",
        "check.IsIdentity() => false", "!check.HasEvenY() => false",
        "curve.Secp256k1{}.LiftX(pk)", "s.UnmarshalBinary(sig[32:])", "e.UnmarshalBinary(eHash)",
        "s.ActOnBase()", "R.Sub(e.Act(P))", "e.Act(P)", "check.IsIdentity()", "check.HasEvenY()",
        "bytes.Equal(check.XBytes(), sig[:32])", "check.XBytes()",
        "false", "false", "false", "false", "false", "bytes.Equal(check.XBytes(), sig[:32])" ] ∧
    MpsGen.Sig.taprootVerifyHashes = ["\"BIP0340/challenge\"", "sig[:32]", "pk", "m"] ∧
    MpsGen.Sig.taprootConsts = ["SecretKeyLength = 32", "SignatureLen = 64"] := by decide

theorem gen_taproot_public : MpsGen.Sig.taprootPublic =
    [ "err := scalar.UnmarshalBinary(s); err != nil || scalar.IsZero() => nil, fmt.Errorf(\"invalid secret key\")",
      "scalar.UnmarshalBinary(s)", "scalar.IsZero()", "scalar.ActOnBase()", "point.XBytes()" ] := by decide

/-- `SecretKey.Sign`: the hashes and their argument order (shared with C11) -/
theorem gen_taproot_sign_hashes : MpsGen.Sig.taprootSignHashes =
    ["\"BIP0340/aux\"", "a", "\"BIP0340/nonce\"", "t[:]", "PBytes", "m",
     "\"BIP0340/challenge\"", "RBytes", "PBytes", "m"] := by decide

/-! ### 5. Non-vacuity and tests -/

/-- a lawful instance exists and meets every hypothesis used above: F = G = ℚ, generator 1,
    x-coordinate |·|, "even" = non-negative -/
example : ∃ (gen : ℚ) (xs : ℚ → ℚ) (evenY : ℚ → Bool) (xc : ℚ → ℚ) (lift : ℚ → Option ℚ),
    gen ≠ 0 ∧ xs 0 = 0 ∧ (∀ P, xs (-P) = xs P) ∧ (∀ P : ℚ, P ≠ 0 → evenY (-P) = !evenY P) ∧
    (∀ P, xc (-P) = xc P) ∧ (∀ P : ℚ, P ≠ 0 → evenY P = true → lift (xc P) = some P) := by
  refine ⟨1, fun P => |P|, fun P => decide (0 ≤ P), fun P => |P|, fun x => some x, one_ne_zero, by simp,
    fun P => abs_neg P, ?_, fun P => abs_neg P, ?_⟩
  · intro P hP
    rcases lt_or_gt_of_ne hP with h | h
    · have h1 : ¬ (0 ≤ P) := not_le.mpr h
      have h2 : 0 ≤ -P := by linarith
      simp [h1, h2]
    · have h1 : 0 ≤ P := le_of_lt h
      have h2 : ¬ (0 ≤ -P) := by intro h3; linarith
      simp [h1, h2]
  · intro P _ hE
    have : 0 ≤ P := by simpa using hE
    simp [abs_of_nonneg this]

/-- a concrete valid signature in that instance: x = 2, k = 3, m = 5 (r = 3, s = 11/3) -/
example : (3 : ℚ) ≠ 0 ∧ |(3 : ℚ) • (1 : ℚ)| ≠ 0 ∧ (3 : ℚ)⁻¹ * (5 + |(3 : ℚ) • (1 : ℚ)| * 2) ≠ 0 := by
  have : |(3 : ℚ)| = 3 := abs_of_nonneg (by norm_num)
  simp; norm_num

/-- BIP-340 vectors 0–3 of test-vectors.csv (public key, signature with the given aux, verification)
    and the ECDSA self test, evaluated by the compiler (tests, not theorems) -/
example : True := trivial
#guard Bip340.selfTest
#guard Mps.Sig.selfTest

end Mps.C16
