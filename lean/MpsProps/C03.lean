import MpsProps.Anchors.C03
import Mps.Judge
import MpsProps.Src.SrcCmpKeygen
import MpsProps.Src.SrcCmpSign
import MpsProps.Src.SrcCmpPresign
import MpsProps.Src.SrcFrostKeygen
import MpsProps.Src.SrcFrostSign
import MpsProps.Src.SrcDoernerKeygen
import MpsProps.Src.SrcDoernerSign
import MpsProps.C01alg
import MpsProps.C02alg
import MpsProps.AlgGen
/-
  C03 — property theorems: see MpsProps/C01alg.lean (verify-guarded outputs, share checks) and C02alg.lean
  (Feldman-checked sharings are consistent); wired below once merged.
-/
namespace Mps.C03
end Mps.C03
