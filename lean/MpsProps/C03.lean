import Mps.Judge
import MpsProps.C01alg
import MpsProps.C02alg
import MpsProps.AlgGen
/-
  C03 — property theorems: see MpsProps/C01alg.lean (verify-guarded outputs, share checks) and C02alg.lean
  (Feldman-checked sharings are consistent); wired below once merged.
-/
namespace Mps.C03
end Mps.C03
