import MpsGen.HandlerSrc
import Mps.HandlerPins
/-
  The tie of the handler models to the handler SOURCE: every function of pkg/protocol/handler.go, twoparty.go and
  message.go that Mps.Handler / Mps.TwoParty transcribe is, line by line, the text the transcription was validated
  against (Mps/HandlerPins.lean, written by bin/mkhandlerpins). Any edit breaks an obligation below.
-/
namespace Mps.HandlerSrc
set_option maxRecDepth 65536

theorem gen_handler_source_0 :
    MpsGen.HandlerSrc.mhAbort = Mps.HandlerPins.mhAbort ∧
    MpsGen.HandlerSrc.mhAbortVerification = Mps.HandlerPins.mhAbortVerification ∧
    MpsGen.HandlerSrc.mhAccept = Mps.HandlerPins.mhAccept ∧
    MpsGen.HandlerSrc.mhCanAccept = Mps.HandlerPins.mhCanAccept ∧
    MpsGen.HandlerSrc.mhCanAcceptInner = Mps.HandlerPins.mhCanAcceptInner ∧
    MpsGen.HandlerSrc.mhCheckBroadcastHash = Mps.HandlerPins.mhCheckBroadcastHash := by
  decide

theorem gen_handler_source_1 :
    MpsGen.HandlerSrc.mhDuplicate = Mps.HandlerPins.mhDuplicate ∧
    MpsGen.HandlerSrc.mhExpectsNormalMessage = Mps.HandlerPins.mhExpectsNormalMessage ∧
    MpsGen.HandlerSrc.mhFinalize = Mps.HandlerPins.mhFinalize ∧
    MpsGen.HandlerSrc.mhGetRoundMessage = Mps.HandlerPins.mhGetRoundMessage ∧
    MpsGen.HandlerSrc.mhListen = Mps.HandlerPins.mhListen ∧
    MpsGen.HandlerSrc.mhNew = Mps.HandlerPins.mhNew := by
  decide

theorem gen_handler_source_2 :
    MpsGen.HandlerSrc.mhNewQueue = Mps.HandlerPins.mhNewQueue ∧
    MpsGen.HandlerSrc.mhReceivedAll = Mps.HandlerPins.mhReceivedAll ∧
    MpsGen.HandlerSrc.mhResult = Mps.HandlerPins.mhResult ∧
    MpsGen.HandlerSrc.mhSameBroadcastView = Mps.HandlerPins.mhSameBroadcastView ∧
    MpsGen.HandlerSrc.mhStop = Mps.HandlerPins.mhStop ∧
    MpsGen.HandlerSrc.mhStore = Mps.HandlerPins.mhStore := by
  decide

theorem gen_handler_source_3 :
    MpsGen.HandlerSrc.mhVerifyBroadcastMessage = Mps.HandlerPins.mhVerifyBroadcastMessage ∧
    MpsGen.HandlerSrc.mhVerifyMessage = Mps.HandlerPins.mhVerifyMessage ∧
    MpsGen.HandlerSrc.msgHash = Mps.HandlerPins.msgHash ∧
    MpsGen.HandlerSrc.msgIsFor = Mps.HandlerPins.msgIsFor ∧
    MpsGen.HandlerSrc.tpAbort = Mps.HandlerPins.tpAbort ∧
    MpsGen.HandlerSrc.tpAccept = Mps.HandlerPins.tpAccept := by
  decide

theorem gen_handler_source_4 :
    MpsGen.HandlerSrc.tpAdvance = Mps.HandlerPins.tpAdvance ∧
    MpsGen.HandlerSrc.tpCanAccept = Mps.HandlerPins.tpCanAccept ∧
    MpsGen.HandlerSrc.tpCanAcceptInner = Mps.HandlerPins.tpCanAcceptInner ∧
    MpsGen.HandlerSrc.tpCanAdvance = Mps.HandlerPins.tpCanAdvance ∧
    MpsGen.HandlerSrc.tpExtractRoundMessage = Mps.HandlerPins.tpExtractRoundMessage ∧
    MpsGen.HandlerSrc.tpListen = Mps.HandlerPins.tpListen := by
  decide

theorem gen_handler_source_5 :
    MpsGen.HandlerSrc.tpNew = Mps.HandlerPins.tpNew ∧
    MpsGen.HandlerSrc.tpResult = Mps.HandlerPins.tpResult ∧
    MpsGen.HandlerSrc.tpStop = Mps.HandlerPins.tpStop ∧
    MpsGen.HandlerSrc.tpVerifyMessage = Mps.HandlerPins.tpVerifyMessage := by
  decide

end Mps.HandlerSrc
