import MpsProps.Anchors.C01
import Mps.Judge
import MpsProps.Src.SrcCmpSign
import MpsProps.Src.SrcCmpPresign
import MpsProps.Src.SrcFrostSign
import MpsProps.Src.SrcDoernerSign
import MpsProps.Src.SrcCmpConfig
import MpsProps.C01alg
import MpsProps.C01tap
import MpsProps.AlgGen
/-
  C01 — property theorems: the algebra layer (MpsProps/C01alg.lean) is imported here once merged.
-/
namespace Mps.C01
end Mps.C01
