import MpsProps.Anchors.C17
import MpsProofs.Handler
import MpsProps.HandlerSrc
import MpsProofs.TwoParty
import MpsProofs.ReplayOrder
import MpsGen.Session
/-
  C17 — Handler lifecycle is well-defined (all call sequences) and lock-protected.
  Model: Mps.Handler (transcription of pkg/protocol/handler.go, `MultiHandler`).
-/
namespace Mps.C17
open Mps Mps.Handler

theorem apply_good (H : Bytes → Bytes) (s : State) (c : Call) (g : Good s) : Good (apply H s c) := by
  cases c <;> simp only [Handler.apply]
  · exact accept_good H s _ g
  · exact g
  · exact g
  · exact g
  · exact stop_good s g

/-- Lifecycle invariant, for EVERY protocol script and EVERY sequence of calls: the handler is
    either running (channel open, no result, no error) or ended (channel closed exactly once and
    exactly one of result / error set). -/
theorem lifecycle (H : Bytes → Bytes) (sc : Script) (calls : List Call) : Good (run H sc calls) := by
  unfold run
  have h0 := init_good H sc
  generalize init H sc = s at h0
  induction calls generalizing s with
  | nil => exact h0
  | cons c cs ih => exact ih _ (apply_good H s c h0)

/-- the outgoing channel is never closed twice -/
theorem close_at_most_once (H : Bytes → Bytes) (sc : Script) (calls : List Call) : (run H sc calls).closes ≤ 1 := by
  rcases lifecycle H sc calls with l | d
  · rw [l.1]; exact Nat.zero_le _
  · rw [d.1]; exact Nat.le_refl _

/-- it is closed exactly when the session has ended -/
theorem closed_iff_ended (H : Bytes → Bytes) (sc : Script) (calls : List Call) :
    (run H sc calls).closes = 1 ↔ terminal (run H sc calls) = true := by
  rcases lifecycle H sc calls with l | d
  · simp [l.1, not_terminal_of_live l]
  · simp [d.1, terminal_of_done d]

/-- Result is a value or an error, never both -/
theorem result_xor_error (H : Bytes → Bytes) (sc : Script) (calls : List Call) :
    ¬ ((run H sc calls).err.isSome = true ∧ (run H sc calls).result.isSome = true) := by
  rcases lifecycle H sc calls with l | d
  · simp [l.2.1]
  · rcases d.2 with ⟨_, h⟩ | ⟨h, _⟩ <;> simp [h]

/-- once ended, no later call sequence changes anything (in particular Result stays fixed and
    messages arriving after the end are ignored) -/
theorem ended_is_final (H : Bytes → Bytes) (sc : Script) (calls more : List Call)
    (h : terminal (run H sc calls) = true) : run H sc (calls ++ more) = run H sc calls := by
  unfold run at *
  rw [List.foldl_append]
  generalize List.foldl (apply H) (init H sc) calls = s at h
  induction more with
  | nil => rfl
  | cons c cs ih =>
    rw [List.foldl_cons]
    have : apply H s c = s := by
      cases c <;> simp only [Handler.apply]
      · exact accept_terminal H s _ h
      · exact stop_terminal s h
    rw [this]; exact ih

/-- Stop ends a running session with an error naming the local party … -/
theorem stop_running_errors (H : Bytes → Bytes) (sc : Script) (calls : List Call)
    (h : terminal (run H sc calls) = false) :
    let s := Handler.stop (run H sc calls)
    s.err = some .stopped ∧ s.result = none ∧ s.closes = 1 := by
  rcases lifecycle H sc calls with l | d
  · simp [Handler.stop, h, abort, l.1, l.2.2]
  · rw [terminal_of_done d] at h; cases h

/-- … and is harmless on a finished one -/
theorem stop_finished_noop (H : Bytes → Bytes) (sc : Script) (calls : List Call)
    (h : terminal (run H sc calls) = true) : Handler.stop (run H sc calls) = run H sc calls :=
  stop_terminal _ h

/-- a message that CanAccept refuses changes nothing when delivered anyway -/
theorem not_canAccept_noop (H : Bytes → Bytes) (s : State) (m : Msg) (h : canAccept s m = false) :
    Handler.accept H s m = s := by simp [Handler.accept, h]

/-- a duplicate (same round, sender and kind already stored) changes nothing -/
theorem duplicate_noop (H : Bytes → Bytes) (s : State) (m : Msg) (h : duplicate s m = true) :
    Handler.accept H s m = s := by simp [Handler.accept, h]

/-! ### The same for `TwoPartyHandler` (model: Mps.TwoParty) -/

section twoparty
open Mps.TwoParty

/-- lifecycle invariant of the two-party handler, for every script and every sequence of calls -/
theorem twoparty_lifecycle (sc : Script2) (calls : List Call2) : Good2 (run2 sc calls) := run2_good sc calls

theorem twoparty_close_at_most_once (sc : Script2) (calls : List Call2) : (run2 sc calls).closes ≤ 1 := by
  rcases run2_good sc calls with l | d
  · rw [l.1]; exact Nat.zero_le _
  · rw [d.1]; exact Nat.le_refl _

theorem twoparty_closed_iff_ended (sc : Script2) (calls : List Call2) :
    (run2 sc calls).closes = 1 ↔ terminal2 (run2 sc calls) = true := by
  rcases run2_good sc calls with l | d
  · simp [l.1, not_terminal2_of_live l]
  · simp [d.1, terminal2_of_done d]

theorem twoparty_ended_is_final (sc : Script2) (calls more : List Call2) (h : terminal2 (run2 sc calls) = true) :
    run2 sc (calls ++ more) = run2 sc calls := by
  unfold run2 at *
  rw [List.foldl_append]
  generalize List.foldl apply2 (init2 sc) calls = s at h
  induction more with
  | nil => rfl
  | cons c cs ih =>
    rw [List.foldl_cons]
    have : apply2 s c = s := by
      cases c <;> simp only [apply2]
      · exact accept2_terminal s _ h
      · exact stop2_terminal s h
    rw [this]; exact ih

theorem twoparty_stop_running_errors (sc : Script2) (calls : List Call2) (h : terminal2 (run2 sc calls) = false) :
    (stop2 (run2 sc calls)).err = some .stopped ∧ (stop2 (run2 sc calls)).closes = 1 := by
  rcases run2_good sc calls with l | d
  · simp [stop2, h, abort2, l.1]
  · rw [terminal2_of_done d] at h; cases h
end twoparty

/-! ### Lock discipline (regenerated from the source) -/

set_option maxRecDepth 8192

/-- every exported method of both handlers takes the handler mutex for its whole body
    (first statement `Lock`, second `defer Unlock`) — so concurrent calls are serialised and
    every concurrent history is one of the sequential histories quantified over above -/
theorem gen_lock_discipline :
    MpsGen.Session.multiHandlerLocks =
      ["Result: h.mtx.Lock(); defer h.mtx.Unlock()", "Listen: h.mtx.Lock(); defer h.mtx.Unlock()",
       "CanAccept: h.mtx.Lock(); defer h.mtx.Unlock()", "Accept: h.mtx.Lock(); defer h.mtx.Unlock()",
       "Stop: h.mtx.Lock(); defer h.mtx.Unlock()"] ∧
    MpsGen.Session.twoPartyHandlerLocks =
      ["Result: h.mtx.Lock(); defer h.mtx.Unlock()", "Listen: h.mtx.Lock(); defer h.mtx.Unlock()",
       "Stop: h.mtx.Lock(); defer h.mtx.Unlock()", "CanAccept: h.mtx.Lock(); defer h.mtx.Unlock()",
       "Accept: h.mtx.Lock(); defer h.mtx.Unlock()"] := by decide

/-- the out channels hold every message of a session (at most N per round plus the abort notice): the
    constructor and Accept never block on a consumer that is not reading yet -/
theorem gen_out_capacity : MpsGen.Session.outCapacity =
    [ "make(chan *Message, (int(r.FinalRoundNumber())+1)*(r.N()+1))", "make(chan *Message, int(r.FinalRoundNumber())+2)" ] := by
  decide

/-- `Stop` as modelled: returns at once when the session has ended, aborts otherwise -/
theorem gen_stop :
    MpsGen.Session.multiHandlerStop = ["h.err != nil || h.result != nil => ", "h.abort(errors.New(\"aborted by user\"), h.currentRound.SelfID())"] ∧
    MpsGen.Session.twoPartyHandlerStop = ["h.err != nil || h.result != nil => ", "h.abort(errors.New(\"aborted by user\"))"] := by
  decide

/-! ### Non-vacuity -/

def demoScript : Script :=
  { ids := [str "a", str "b"], self := str "a", final := 2,
    rounds := [⟨1, false, false⟩, ⟨2, false, true⟩], proto := str "demo", ssid := [1], sess := [], finErrAt := 0 }

def demoMsg : Msg :=
  { ssid := some [1], frm := str "b", to := str "a", proto := str "demo", rnd := 2, data := some [0], bcast := false,
    bv := none, dec := some ⟨7, 0⟩ }

/-- a running handler exists, it ends with a result after the peer's message, and Stop ends a running one -/
example : terminal (run (fun b => b) demoScript []) = false := by decide
/-- The correspondence driver admits an observed verdict when SOME order of replaying the queued messages of a newly
    entered round produces it (Go ranges over a map there; `Mps.Drv.Handler.acceptO`). The alternatives differ from the
    model proved about here only in that order: with the id order they ARE the model's `accept`. -/
theorem replay_order_alternatives_are_the_model (H : Bytes → Bytes) (s : State) (m : Msg) :
    Mps.Drv.Handler.acceptO H s.sc.ids s m = accept H s m := Mps.Drv.Handler.acceptO_ids H s m

example : (run (fun b => b) demoScript [.accept demoMsg]).result = some 7 := by decide
example : (run (fun b => b) demoScript [.stop]).err = some .stopped := by decide
example : (run (fun b => b) demoScript [.accept demoMsg, .stop, .accept demoMsg]).closes = 1 := by decide

end Mps.C17
