import MpsProps.Anchors.C14
import Mps.Judge
import MpsProps.Src.SrcCmpKeygen
import MpsProps.Src.SrcFrostKeygen
import MpsProps.Src.SrcDoernerKeygen
import MpsProps.Src.SrcCmpConfig
import MpsProps.C14alg
import MpsProps.C14tap
import MpsProps.AlgGen
/-
  C14 — property theorems: the algebra layer (MpsProps/C14alg.lean) is imported here once merged.
-/
namespace Mps.C14
end Mps.C14
