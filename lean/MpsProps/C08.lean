import MpsProps.Anchors.C08
import Mps.Judge
import MpsProps.Src.SrcCmpKeygen
import MpsProps.Src.SrcFrostKeygen
import MpsProps.Src.SrcDoernerKeygen
import MpsProps.C08alg
import MpsProps.AlgGen
/-
  C08 — property theorems: the algebra layer (MpsProps/C08alg.lean) is imported here once merged.
-/
namespace Mps.C08
end Mps.C08
