import MpsGen.SrcLProtocolsCmp
import Mps.SrcPins.SrcLProtocolsCmp
/-
  The source of this protocol directory is, file by file and line by line, the text the judged real sessions were last
  validated against (Mps/SrcPins/SrcLProtocolsCmp.lean, written by bin/mkroundpins). Any edit breaks the obligation below.
-/
namespace Mps.Src.SrcLProtocolsCmp
set_option maxRecDepth 65536

theorem gen_f_cmp : MpsGen.SrcLProtocolsCmp.f_cmp = Mps.SrcPins.SrcLProtocolsCmp.f_cmp := by decide
theorem gen_files : MpsGen.SrcLProtocolsCmp.files = Mps.SrcPins.SrcLProtocolsCmp.files := by decide

theorem gen_source :
    MpsGen.SrcLProtocolsCmp.f_cmp = Mps.SrcPins.SrcLProtocolsCmp.f_cmp ∧
    MpsGen.SrcLProtocolsCmp.files = Mps.SrcPins.SrcLProtocolsCmp.files :=
  ⟨gen_f_cmp, gen_files⟩

end Mps.Src.SrcLProtocolsCmp
