import MpsGen.SrcFrostSign
import Mps.SrcPins.SrcFrostSign
/-
  The source of this protocol directory is, file by file and line by line, the text the judged real sessions were last
  validated against (Mps/SrcPins/SrcFrostSign.lean, written by bin/mkroundpins). Any edit breaks the obligation below.
-/
namespace Mps.Src.SrcFrostSign
set_option maxRecDepth 65536

theorem gen_source :
    MpsGen.SrcFrostSign.f_round1 = Mps.SrcPins.SrcFrostSign.f_round1 ∧
    MpsGen.SrcFrostSign.f_round2 = Mps.SrcPins.SrcFrostSign.f_round2 ∧
    MpsGen.SrcFrostSign.f_round3 = Mps.SrcPins.SrcFrostSign.f_round3 ∧
    MpsGen.SrcFrostSign.f_sign = Mps.SrcPins.SrcFrostSign.f_sign ∧
    MpsGen.SrcFrostSign.f_types = Mps.SrcPins.SrcFrostSign.f_types ∧
    MpsGen.SrcFrostSign.files = Mps.SrcPins.SrcFrostSign.files := by
  refine ⟨by decide, by decide, by decide, by decide, by decide, by decide⟩

end Mps.Src.SrcFrostSign
