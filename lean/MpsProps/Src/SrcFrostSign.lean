import MpsGen.SrcFrostSign
import Mps.SrcPins.SrcFrostSign
/-
  The source of this protocol directory is, file by file and line by line, the text the judged real sessions were last
  validated against (Mps/SrcPins/SrcFrostSign.lean, written by bin/mkroundpins). Any edit breaks the obligation below.
-/
namespace Mps.Src.SrcFrostSign
set_option maxRecDepth 65536

theorem gen_f_round1 : MpsGen.SrcFrostSign.f_round1 = Mps.SrcPins.SrcFrostSign.f_round1 := by decide
theorem gen_f_round2 : MpsGen.SrcFrostSign.f_round2 = Mps.SrcPins.SrcFrostSign.f_round2 := by decide
theorem gen_f_round3 : MpsGen.SrcFrostSign.f_round3 = Mps.SrcPins.SrcFrostSign.f_round3 := by decide
theorem gen_f_sign : MpsGen.SrcFrostSign.f_sign = Mps.SrcPins.SrcFrostSign.f_sign := by decide
theorem gen_f_types : MpsGen.SrcFrostSign.f_types = Mps.SrcPins.SrcFrostSign.f_types := by decide
theorem gen_files : MpsGen.SrcFrostSign.files = Mps.SrcPins.SrcFrostSign.files := by decide

theorem gen_source :
    MpsGen.SrcFrostSign.f_round1 = Mps.SrcPins.SrcFrostSign.f_round1 ∧
    MpsGen.SrcFrostSign.f_round2 = Mps.SrcPins.SrcFrostSign.f_round2 ∧
    MpsGen.SrcFrostSign.f_round3 = Mps.SrcPins.SrcFrostSign.f_round3 ∧
    MpsGen.SrcFrostSign.f_sign = Mps.SrcPins.SrcFrostSign.f_sign ∧
    MpsGen.SrcFrostSign.f_types = Mps.SrcPins.SrcFrostSign.f_types ∧
    MpsGen.SrcFrostSign.files = Mps.SrcPins.SrcFrostSign.files :=
  ⟨gen_f_round1, gen_f_round2, gen_f_round3, gen_f_sign, gen_f_types, gen_files⟩

end Mps.Src.SrcFrostSign
