import MpsGen.SrcDoernerSign
import Mps.SrcPins.SrcDoernerSign
/-
  The source of this protocol directory is, file by file and line by line, the text the judged real sessions were last
  validated against (Mps/SrcPins/SrcDoernerSign.lean, written by bin/mkroundpins). Any edit breaks the obligation below.
-/
namespace Mps.Src.SrcDoernerSign
set_option maxRecDepth 65536

theorem gen_f_round1R : MpsGen.SrcDoernerSign.f_round1R = Mps.SrcPins.SrcDoernerSign.f_round1R := by decide
theorem gen_f_round1S : MpsGen.SrcDoernerSign.f_round1S = Mps.SrcPins.SrcDoernerSign.f_round1S := by decide
theorem gen_f_round2R : MpsGen.SrcDoernerSign.f_round2R = Mps.SrcPins.SrcDoernerSign.f_round2R := by decide
theorem gen_f_round2S : MpsGen.SrcDoernerSign.f_round2S = Mps.SrcPins.SrcDoernerSign.f_round2S := by decide
theorem gen_f_sign : MpsGen.SrcDoernerSign.f_sign = Mps.SrcPins.SrcDoernerSign.f_sign := by decide
theorem gen_files : MpsGen.SrcDoernerSign.files = Mps.SrcPins.SrcDoernerSign.files := by decide

theorem gen_source :
    MpsGen.SrcDoernerSign.f_round1R = Mps.SrcPins.SrcDoernerSign.f_round1R ∧
    MpsGen.SrcDoernerSign.f_round1S = Mps.SrcPins.SrcDoernerSign.f_round1S ∧
    MpsGen.SrcDoernerSign.f_round2R = Mps.SrcPins.SrcDoernerSign.f_round2R ∧
    MpsGen.SrcDoernerSign.f_round2S = Mps.SrcPins.SrcDoernerSign.f_round2S ∧
    MpsGen.SrcDoernerSign.f_sign = Mps.SrcPins.SrcDoernerSign.f_sign ∧
    MpsGen.SrcDoernerSign.files = Mps.SrcPins.SrcDoernerSign.files :=
  ⟨gen_f_round1R, gen_f_round1S, gen_f_round2R, gen_f_round2S, gen_f_sign, gen_files⟩

end Mps.Src.SrcDoernerSign
