import MpsGen.SrcLPkgHash
import Mps.SrcPins.SrcLPkgHash
/-
  The source of this protocol directory is, file by file and line by line, the text the judged real sessions were last
  validated against (Mps/SrcPins/SrcLPkgHash.lean, written by bin/mkroundpins). Any edit breaks the obligation below.
-/
namespace Mps.Src.SrcLPkgHash
set_option maxRecDepth 65536

theorem gen_f_commit : MpsGen.SrcLPkgHash.f_commit = Mps.SrcPins.SrcLPkgHash.f_commit := by decide
theorem gen_f_hash : MpsGen.SrcLPkgHash.f_hash = Mps.SrcPins.SrcLPkgHash.f_hash := by decide
theorem gen_f_writerto : MpsGen.SrcLPkgHash.f_writerto = Mps.SrcPins.SrcLPkgHash.f_writerto := by decide
theorem gen_files : MpsGen.SrcLPkgHash.files = Mps.SrcPins.SrcLPkgHash.files := by decide

theorem gen_source :
    MpsGen.SrcLPkgHash.f_commit = Mps.SrcPins.SrcLPkgHash.f_commit ∧
    MpsGen.SrcLPkgHash.f_hash = Mps.SrcPins.SrcLPkgHash.f_hash ∧
    MpsGen.SrcLPkgHash.f_writerto = Mps.SrcPins.SrcLPkgHash.f_writerto ∧
    MpsGen.SrcLPkgHash.files = Mps.SrcPins.SrcLPkgHash.files :=
  ⟨gen_f_commit, gen_f_hash, gen_f_writerto, gen_files⟩

end Mps.Src.SrcLPkgHash
