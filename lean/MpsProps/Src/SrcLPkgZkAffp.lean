import MpsGen.SrcLPkgZkAffp
import Mps.SrcPins.SrcLPkgZkAffp
/-
  The source of this protocol directory is, file by file and line by line, the text the judged real sessions were last
  validated against (Mps/SrcPins/SrcLPkgZkAffp.lean, written by bin/mkroundpins). Any edit breaks the obligation below.
-/
namespace Mps.Src.SrcLPkgZkAffp
set_option maxRecDepth 65536

theorem gen_f_affp : MpsGen.SrcLPkgZkAffp.f_affp = Mps.SrcPins.SrcLPkgZkAffp.f_affp := by decide
theorem gen_files : MpsGen.SrcLPkgZkAffp.files = Mps.SrcPins.SrcLPkgZkAffp.files := by decide

theorem gen_source :
    MpsGen.SrcLPkgZkAffp.f_affp = Mps.SrcPins.SrcLPkgZkAffp.f_affp ∧
    MpsGen.SrcLPkgZkAffp.files = Mps.SrcPins.SrcLPkgZkAffp.files :=
  ⟨gen_f_affp, gen_files⟩

end Mps.Src.SrcLPkgZkAffp
