import MpsGen.SrcLPkgZkFac
import Mps.SrcPins.SrcLPkgZkFac
/-
  The source of this protocol directory is, file by file and line by line, the text the judged real sessions were last
  validated against (Mps/SrcPins/SrcLPkgZkFac.lean, written by bin/mkroundpins). Any edit breaks the obligation below.
-/
namespace Mps.Src.SrcLPkgZkFac
set_option maxRecDepth 65536

theorem gen_f_fac : MpsGen.SrcLPkgZkFac.f_fac = Mps.SrcPins.SrcLPkgZkFac.f_fac := by decide
theorem gen_files : MpsGen.SrcLPkgZkFac.files = Mps.SrcPins.SrcLPkgZkFac.files := by decide

theorem gen_source :
    MpsGen.SrcLPkgZkFac.f_fac = Mps.SrcPins.SrcLPkgZkFac.f_fac ∧
    MpsGen.SrcLPkgZkFac.files = Mps.SrcPins.SrcLPkgZkFac.files :=
  ⟨gen_f_fac, gen_files⟩

end Mps.Src.SrcLPkgZkFac
