import MpsGen.SrcLPkgZkNth
import Mps.SrcPins.SrcLPkgZkNth
/-
  The source of this protocol directory is, file by file and line by line, the text the judged real sessions were last
  validated against (Mps/SrcPins/SrcLPkgZkNth.lean, written by bin/mkroundpins). Any edit breaks the obligation below.
-/
namespace Mps.Src.SrcLPkgZkNth
set_option maxRecDepth 65536

theorem gen_f_nth : MpsGen.SrcLPkgZkNth.f_nth = Mps.SrcPins.SrcLPkgZkNth.f_nth := by decide
theorem gen_files : MpsGen.SrcLPkgZkNth.files = Mps.SrcPins.SrcLPkgZkNth.files := by decide

theorem gen_source :
    MpsGen.SrcLPkgZkNth.f_nth = Mps.SrcPins.SrcLPkgZkNth.f_nth ∧
    MpsGen.SrcLPkgZkNth.files = Mps.SrcPins.SrcLPkgZkNth.files :=
  ⟨gen_f_nth, gen_files⟩

end Mps.Src.SrcLPkgZkNth
