import MpsGen.SrcLPkgMathPolynomial
import Mps.SrcPins.SrcLPkgMathPolynomial
/-
  The source of this protocol directory is, file by file and line by line, the text the judged real sessions were last
  validated against (Mps/SrcPins/SrcLPkgMathPolynomial.lean, written by bin/mkroundpins). Any edit breaks the obligation below.
-/
namespace Mps.Src.SrcLPkgMathPolynomial
set_option maxRecDepth 65536

theorem gen_f_exponent : MpsGen.SrcLPkgMathPolynomial.f_exponent = Mps.SrcPins.SrcLPkgMathPolynomial.f_exponent := by decide
theorem gen_f_lagrange : MpsGen.SrcLPkgMathPolynomial.f_lagrange = Mps.SrcPins.SrcLPkgMathPolynomial.f_lagrange := by decide
theorem gen_f_polynomial : MpsGen.SrcLPkgMathPolynomial.f_polynomial = Mps.SrcPins.SrcLPkgMathPolynomial.f_polynomial := by decide
theorem gen_files : MpsGen.SrcLPkgMathPolynomial.files = Mps.SrcPins.SrcLPkgMathPolynomial.files := by decide

theorem gen_source :
    MpsGen.SrcLPkgMathPolynomial.f_exponent = Mps.SrcPins.SrcLPkgMathPolynomial.f_exponent ∧
    MpsGen.SrcLPkgMathPolynomial.f_lagrange = Mps.SrcPins.SrcLPkgMathPolynomial.f_lagrange ∧
    MpsGen.SrcLPkgMathPolynomial.f_polynomial = Mps.SrcPins.SrcLPkgMathPolynomial.f_polynomial ∧
    MpsGen.SrcLPkgMathPolynomial.files = Mps.SrcPins.SrcLPkgMathPolynomial.files :=
  ⟨gen_f_exponent, gen_f_lagrange, gen_f_polynomial, gen_files⟩

end Mps.Src.SrcLPkgMathPolynomial
