import MpsGen.SrcLPkgZk
import Mps.SrcPins.SrcLPkgZk
/-
  The source of this protocol directory is, file by file and line by line, the text the judged real sessions were last
  validated against (Mps/SrcPins/SrcLPkgZk.lean, written by bin/mkroundpins). Any edit breaks the obligation below.
-/
namespace Mps.Src.SrcLPkgZk
set_option maxRecDepth 65536

theorem gen_f_default : MpsGen.SrcLPkgZk.f_default = Mps.SrcPins.SrcLPkgZk.f_default := by decide
theorem gen_files : MpsGen.SrcLPkgZk.files = Mps.SrcPins.SrcLPkgZk.files := by decide

theorem gen_source :
    MpsGen.SrcLPkgZk.f_default = Mps.SrcPins.SrcLPkgZk.f_default ∧
    MpsGen.SrcLPkgZk.files = Mps.SrcPins.SrcLPkgZk.files :=
  ⟨gen_f_default, gen_files⟩

end Mps.Src.SrcLPkgZk
