import MpsGen.SrcLInternalTypes
import Mps.SrcPins.SrcLInternalTypes
/-
  The source of this protocol directory is, file by file and line by line, the text the judged real sessions were last
  validated against (Mps/SrcPins/SrcLInternalTypes.lean, written by bin/mkroundpins). Any edit breaks the obligation below.
-/
namespace Mps.Src.SrcLInternalTypes
set_option maxRecDepth 65536

theorem gen_f_message : MpsGen.SrcLInternalTypes.f_message = Mps.SrcPins.SrcLInternalTypes.f_message := by decide
theorem gen_f_rid : MpsGen.SrcLInternalTypes.f_rid = Mps.SrcPins.SrcLInternalTypes.f_rid := by decide
theorem gen_f_threshold : MpsGen.SrcLInternalTypes.f_threshold = Mps.SrcPins.SrcLInternalTypes.f_threshold := by decide
theorem gen_files : MpsGen.SrcLInternalTypes.files = Mps.SrcPins.SrcLInternalTypes.files := by decide

theorem gen_source :
    MpsGen.SrcLInternalTypes.f_message = Mps.SrcPins.SrcLInternalTypes.f_message ∧
    MpsGen.SrcLInternalTypes.f_rid = Mps.SrcPins.SrcLInternalTypes.f_rid ∧
    MpsGen.SrcLInternalTypes.f_threshold = Mps.SrcPins.SrcLInternalTypes.f_threshold ∧
    MpsGen.SrcLInternalTypes.files = Mps.SrcPins.SrcLInternalTypes.files :=
  ⟨gen_f_message, gen_f_rid, gen_f_threshold, gen_files⟩

end Mps.Src.SrcLInternalTypes
