import MpsGen.SrcLPkgZkMul
import Mps.SrcPins.SrcLPkgZkMul
/-
  The source of this protocol directory is, file by file and line by line, the text the judged real sessions were last
  validated against (Mps/SrcPins/SrcLPkgZkMul.lean, written by bin/mkroundpins). Any edit breaks the obligation below.
-/
namespace Mps.Src.SrcLPkgZkMul
set_option maxRecDepth 65536

theorem gen_f_mul : MpsGen.SrcLPkgZkMul.f_mul = Mps.SrcPins.SrcLPkgZkMul.f_mul := by decide
theorem gen_files : MpsGen.SrcLPkgZkMul.files = Mps.SrcPins.SrcLPkgZkMul.files := by decide

theorem gen_source :
    MpsGen.SrcLPkgZkMul.f_mul = Mps.SrcPins.SrcLPkgZkMul.f_mul ∧
    MpsGen.SrcLPkgZkMul.files = Mps.SrcPins.SrcLPkgZkMul.files :=
  ⟨gen_f_mul, gen_files⟩

end Mps.Src.SrcLPkgZkMul
