import MpsGen.SrcCmpKeygen
import Mps.SrcPins.SrcCmpKeygen
/-
  The source of this protocol directory is, file by file and line by line, the text the judged real sessions were last
  validated against (Mps/SrcPins/SrcCmpKeygen.lean, written by bin/mkroundpins). Any edit breaks the obligation below.
-/
namespace Mps.Src.SrcCmpKeygen
set_option maxRecDepth 65536

theorem gen_f_keygen : MpsGen.SrcCmpKeygen.f_keygen = Mps.SrcPins.SrcCmpKeygen.f_keygen := by decide
theorem gen_f_round1 : MpsGen.SrcCmpKeygen.f_round1 = Mps.SrcPins.SrcCmpKeygen.f_round1 := by decide
theorem gen_f_round2 : MpsGen.SrcCmpKeygen.f_round2 = Mps.SrcPins.SrcCmpKeygen.f_round2 := by decide
theorem gen_f_round3 : MpsGen.SrcCmpKeygen.f_round3 = Mps.SrcPins.SrcCmpKeygen.f_round3 := by decide
theorem gen_f_round4 : MpsGen.SrcCmpKeygen.f_round4 = Mps.SrcPins.SrcCmpKeygen.f_round4 := by decide
theorem gen_f_round5 : MpsGen.SrcCmpKeygen.f_round5 = Mps.SrcPins.SrcCmpKeygen.f_round5 := by decide
theorem gen_files : MpsGen.SrcCmpKeygen.files = Mps.SrcPins.SrcCmpKeygen.files := by decide

theorem gen_source :
    MpsGen.SrcCmpKeygen.f_keygen = Mps.SrcPins.SrcCmpKeygen.f_keygen ∧
    MpsGen.SrcCmpKeygen.f_round1 = Mps.SrcPins.SrcCmpKeygen.f_round1 ∧
    MpsGen.SrcCmpKeygen.f_round2 = Mps.SrcPins.SrcCmpKeygen.f_round2 ∧
    MpsGen.SrcCmpKeygen.f_round3 = Mps.SrcPins.SrcCmpKeygen.f_round3 ∧
    MpsGen.SrcCmpKeygen.f_round4 = Mps.SrcPins.SrcCmpKeygen.f_round4 ∧
    MpsGen.SrcCmpKeygen.f_round5 = Mps.SrcPins.SrcCmpKeygen.f_round5 ∧
    MpsGen.SrcCmpKeygen.files = Mps.SrcPins.SrcCmpKeygen.files :=
  ⟨gen_f_keygen, gen_f_round1, gen_f_round2, gen_f_round3, gen_f_round4, gen_f_round5, gen_files⟩

end Mps.Src.SrcCmpKeygen
