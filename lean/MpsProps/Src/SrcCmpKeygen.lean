import MpsGen.SrcCmpKeygen
import Mps.SrcPins.SrcCmpKeygen
/-
  The source of this protocol directory is, file by file and line by line, the text the judged real sessions were last
  validated against (Mps/SrcPins/SrcCmpKeygen.lean, written by bin/mkroundpins). Any edit breaks the obligation below.
-/
namespace Mps.Src.SrcCmpKeygen
set_option maxRecDepth 65536

theorem gen_source :
    MpsGen.SrcCmpKeygen.f_keygen = Mps.SrcPins.SrcCmpKeygen.f_keygen ∧
    MpsGen.SrcCmpKeygen.f_round1 = Mps.SrcPins.SrcCmpKeygen.f_round1 ∧
    MpsGen.SrcCmpKeygen.f_round2 = Mps.SrcPins.SrcCmpKeygen.f_round2 ∧
    MpsGen.SrcCmpKeygen.f_round3 = Mps.SrcPins.SrcCmpKeygen.f_round3 ∧
    MpsGen.SrcCmpKeygen.f_round4 = Mps.SrcPins.SrcCmpKeygen.f_round4 ∧
    MpsGen.SrcCmpKeygen.f_round5 = Mps.SrcPins.SrcCmpKeygen.f_round5 ∧
    MpsGen.SrcCmpKeygen.files = Mps.SrcPins.SrcCmpKeygen.files := by
  refine ⟨by decide, by decide, by decide, by decide, by decide, by decide, by decide⟩

end Mps.Src.SrcCmpKeygen
