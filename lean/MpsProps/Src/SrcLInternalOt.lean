import MpsGen.SrcLInternalOt
import Mps.SrcPins.SrcLInternalOt
/-
  The source of this protocol directory is, file by file and line by line, the text the judged real sessions were last
  validated against (Mps/SrcPins/SrcLInternalOt.lean, written by bin/mkroundpins). Any edit breaks the obligation below.
-/
namespace Mps.Src.SrcLInternalOt
set_option maxRecDepth 65536

theorem gen_f_additive : MpsGen.SrcLInternalOt.f_additive = Mps.SrcPins.SrcLInternalOt.f_additive := by decide
theorem gen_f_bits : MpsGen.SrcLInternalOt.f_bits = Mps.SrcPins.SrcLInternalOt.f_bits := by decide
theorem gen_f_correlated : MpsGen.SrcLInternalOt.f_correlated = Mps.SrcPins.SrcLInternalOt.f_correlated := by decide
theorem gen_f_extended : MpsGen.SrcLInternalOt.f_extended = Mps.SrcPins.SrcLInternalOt.f_extended := by decide
theorem gen_f_multiply : MpsGen.SrcLInternalOt.f_multiply = Mps.SrcPins.SrcLInternalOt.f_multiply := by decide
theorem gen_f_random : MpsGen.SrcLInternalOt.f_random = Mps.SrcPins.SrcLInternalOt.f_random := by decide
theorem gen_files : MpsGen.SrcLInternalOt.files = Mps.SrcPins.SrcLInternalOt.files := by decide

theorem gen_source :
    MpsGen.SrcLInternalOt.f_additive = Mps.SrcPins.SrcLInternalOt.f_additive ∧
    MpsGen.SrcLInternalOt.f_bits = Mps.SrcPins.SrcLInternalOt.f_bits ∧
    MpsGen.SrcLInternalOt.f_correlated = Mps.SrcPins.SrcLInternalOt.f_correlated ∧
    MpsGen.SrcLInternalOt.f_extended = Mps.SrcPins.SrcLInternalOt.f_extended ∧
    MpsGen.SrcLInternalOt.f_multiply = Mps.SrcPins.SrcLInternalOt.f_multiply ∧
    MpsGen.SrcLInternalOt.f_random = Mps.SrcPins.SrcLInternalOt.f_random ∧
    MpsGen.SrcLInternalOt.files = Mps.SrcPins.SrcLInternalOt.files :=
  ⟨gen_f_additive, gen_f_bits, gen_f_correlated, gen_f_extended, gen_f_multiply, gen_f_random, gen_files⟩

end Mps.Src.SrcLInternalOt
