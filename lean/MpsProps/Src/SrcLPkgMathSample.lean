import MpsGen.SrcLPkgMathSample
import Mps.SrcPins.SrcLPkgMathSample
/-
  The source of this protocol directory is, file by file and line by line, the text the judged real sessions were last
  validated against (Mps/SrcPins/SrcLPkgMathSample.lean, written by bin/mkroundpins). Any edit breaks the obligation below.
-/
namespace Mps.Src.SrcLPkgMathSample
set_option maxRecDepth 65536

theorem gen_f_hook_noverif : MpsGen.SrcLPkgMathSample.f_hook_noverif = Mps.SrcPins.SrcLPkgMathSample.f_hook_noverif := by decide
theorem gen_f_hook_verif : MpsGen.SrcLPkgMathSample.f_hook_verif = Mps.SrcPins.SrcLPkgMathSample.f_hook_verif := by decide
theorem gen_f_plus_minus : MpsGen.SrcLPkgMathSample.f_plus_minus = Mps.SrcPins.SrcLPkgMathSample.f_plus_minus := by decide
theorem gen_f_prime : MpsGen.SrcLPkgMathSample.f_prime = Mps.SrcPins.SrcLPkgMathSample.f_prime := by decide
theorem gen_f_sample : MpsGen.SrcLPkgMathSample.f_sample = Mps.SrcPins.SrcLPkgMathSample.f_sample := by decide
theorem gen_files : MpsGen.SrcLPkgMathSample.files = Mps.SrcPins.SrcLPkgMathSample.files := by decide

theorem gen_source :
    MpsGen.SrcLPkgMathSample.f_hook_noverif = Mps.SrcPins.SrcLPkgMathSample.f_hook_noverif ∧
    MpsGen.SrcLPkgMathSample.f_hook_verif = Mps.SrcPins.SrcLPkgMathSample.f_hook_verif ∧
    MpsGen.SrcLPkgMathSample.f_plus_minus = Mps.SrcPins.SrcLPkgMathSample.f_plus_minus ∧
    MpsGen.SrcLPkgMathSample.f_prime = Mps.SrcPins.SrcLPkgMathSample.f_prime ∧
    MpsGen.SrcLPkgMathSample.f_sample = Mps.SrcPins.SrcLPkgMathSample.f_sample ∧
    MpsGen.SrcLPkgMathSample.files = Mps.SrcPins.SrcLPkgMathSample.files :=
  ⟨gen_f_hook_noverif, gen_f_hook_verif, gen_f_plus_minus, gen_f_prime, gen_f_sample, gen_files⟩

end Mps.Src.SrcLPkgMathSample
