import MpsGen.SrcLPkgMathCurve
import Mps.SrcPins.SrcLPkgMathCurve
/-
  The source of this protocol directory is, file by file and line by line, the text the judged real sessions were last
  validated against (Mps/SrcPins/SrcLPkgMathCurve.lean, written by bin/mkroundpins). Any edit breaks the obligation below.
-/
namespace Mps.Src.SrcLPkgMathCurve
set_option maxRecDepth 65536

theorem gen_f_curve : MpsGen.SrcLPkgMathCurve.f_curve = Mps.SrcPins.SrcLPkgMathCurve.f_curve := by decide
theorem gen_f_secp256k1 : MpsGen.SrcLPkgMathCurve.f_secp256k1 = Mps.SrcPins.SrcLPkgMathCurve.f_secp256k1 := by decide
theorem gen_files : MpsGen.SrcLPkgMathCurve.files = Mps.SrcPins.SrcLPkgMathCurve.files := by decide

theorem gen_source :
    MpsGen.SrcLPkgMathCurve.f_curve = Mps.SrcPins.SrcLPkgMathCurve.f_curve ∧
    MpsGen.SrcLPkgMathCurve.f_secp256k1 = Mps.SrcPins.SrcLPkgMathCurve.f_secp256k1 ∧
    MpsGen.SrcLPkgMathCurve.files = Mps.SrcPins.SrcLPkgMathCurve.files :=
  ⟨gen_f_curve, gen_f_secp256k1, gen_files⟩

end Mps.Src.SrcLPkgMathCurve
