import MpsGen.SrcLPkgProtocol
import Mps.SrcPins.SrcLPkgProtocol
/-
  The source of this protocol directory is, file by file and line by line, the text the judged real sessions were last
  validated against (Mps/SrcPins/SrcLPkgProtocol.lean, written by bin/mkroundpins). Any edit breaks the obligation below.
-/
namespace Mps.Src.SrcLPkgProtocol
set_option maxRecDepth 65536

theorem gen_f_error : MpsGen.SrcLPkgProtocol.f_error = Mps.SrcPins.SrcLPkgProtocol.f_error := by decide
theorem gen_f_handler : MpsGen.SrcLPkgProtocol.f_handler = Mps.SrcPins.SrcLPkgProtocol.f_handler := by decide
theorem gen_f_message : MpsGen.SrcLPkgProtocol.f_message = Mps.SrcPins.SrcLPkgProtocol.f_message := by decide
theorem gen_f_twoparty : MpsGen.SrcLPkgProtocol.f_twoparty = Mps.SrcPins.SrcLPkgProtocol.f_twoparty := by decide
theorem gen_files : MpsGen.SrcLPkgProtocol.files = Mps.SrcPins.SrcLPkgProtocol.files := by decide

theorem gen_source :
    MpsGen.SrcLPkgProtocol.f_error = Mps.SrcPins.SrcLPkgProtocol.f_error ∧
    MpsGen.SrcLPkgProtocol.f_handler = Mps.SrcPins.SrcLPkgProtocol.f_handler ∧
    MpsGen.SrcLPkgProtocol.f_message = Mps.SrcPins.SrcLPkgProtocol.f_message ∧
    MpsGen.SrcLPkgProtocol.f_twoparty = Mps.SrcPins.SrcLPkgProtocol.f_twoparty ∧
    MpsGen.SrcLPkgProtocol.files = Mps.SrcPins.SrcLPkgProtocol.files :=
  ⟨gen_f_error, gen_f_handler, gen_f_message, gen_f_twoparty, gen_files⟩

end Mps.Src.SrcLPkgProtocol
