import MpsGen.SrcLInternalParams
import Mps.SrcPins.SrcLInternalParams
/-
  The source of this protocol directory is, file by file and line by line, the text the judged real sessions were last
  validated against (Mps/SrcPins/SrcLInternalParams.lean, written by bin/mkroundpins). Any edit breaks the obligation below.
-/
namespace Mps.Src.SrcLInternalParams
set_option maxRecDepth 65536

theorem gen_f_params : MpsGen.SrcLInternalParams.f_params = Mps.SrcPins.SrcLInternalParams.f_params := by decide
theorem gen_files : MpsGen.SrcLInternalParams.files = Mps.SrcPins.SrcLInternalParams.files := by decide

theorem gen_source :
    MpsGen.SrcLInternalParams.f_params = Mps.SrcPins.SrcLInternalParams.f_params ∧
    MpsGen.SrcLInternalParams.files = Mps.SrcPins.SrcLInternalParams.files :=
  ⟨gen_f_params, gen_files⟩

end Mps.Src.SrcLInternalParams
