import MpsGen.SrcFrostKeygen
import Mps.SrcPins.SrcFrostKeygen
/-
  The source of this protocol directory is, file by file and line by line, the text the judged real sessions were last
  validated against (Mps/SrcPins/SrcFrostKeygen.lean, written by bin/mkroundpins). Any edit breaks the obligation below.
-/
namespace Mps.Src.SrcFrostKeygen
set_option maxRecDepth 65536

theorem gen_f_config : MpsGen.SrcFrostKeygen.f_config = Mps.SrcPins.SrcFrostKeygen.f_config := by decide
theorem gen_f_keygen : MpsGen.SrcFrostKeygen.f_keygen = Mps.SrcPins.SrcFrostKeygen.f_keygen := by decide
theorem gen_f_round1 : MpsGen.SrcFrostKeygen.f_round1 = Mps.SrcPins.SrcFrostKeygen.f_round1 := by decide
theorem gen_f_round2 : MpsGen.SrcFrostKeygen.f_round2 = Mps.SrcPins.SrcFrostKeygen.f_round2 := by decide
theorem gen_f_round3 : MpsGen.SrcFrostKeygen.f_round3 = Mps.SrcPins.SrcFrostKeygen.f_round3 := by decide
theorem gen_files : MpsGen.SrcFrostKeygen.files = Mps.SrcPins.SrcFrostKeygen.files := by decide

theorem gen_source :
    MpsGen.SrcFrostKeygen.f_config = Mps.SrcPins.SrcFrostKeygen.f_config ∧
    MpsGen.SrcFrostKeygen.f_keygen = Mps.SrcPins.SrcFrostKeygen.f_keygen ∧
    MpsGen.SrcFrostKeygen.f_round1 = Mps.SrcPins.SrcFrostKeygen.f_round1 ∧
    MpsGen.SrcFrostKeygen.f_round2 = Mps.SrcPins.SrcFrostKeygen.f_round2 ∧
    MpsGen.SrcFrostKeygen.f_round3 = Mps.SrcPins.SrcFrostKeygen.f_round3 ∧
    MpsGen.SrcFrostKeygen.files = Mps.SrcPins.SrcFrostKeygen.files :=
  ⟨gen_f_config, gen_f_keygen, gen_f_round1, gen_f_round2, gen_f_round3, gen_files⟩

end Mps.Src.SrcFrostKeygen
