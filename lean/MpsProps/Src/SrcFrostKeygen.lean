import MpsGen.SrcFrostKeygen
import Mps.SrcPins.SrcFrostKeygen
/-
  The source of this protocol directory is, file by file and line by line, the text the judged real sessions were last
  validated against (Mps/SrcPins/SrcFrostKeygen.lean, written by bin/mkroundpins). Any edit breaks the obligation below.
-/
namespace Mps.Src.SrcFrostKeygen
set_option maxRecDepth 65536

theorem gen_source :
    MpsGen.SrcFrostKeygen.f_config = Mps.SrcPins.SrcFrostKeygen.f_config ∧
    MpsGen.SrcFrostKeygen.f_keygen = Mps.SrcPins.SrcFrostKeygen.f_keygen ∧
    MpsGen.SrcFrostKeygen.f_round1 = Mps.SrcPins.SrcFrostKeygen.f_round1 ∧
    MpsGen.SrcFrostKeygen.f_round2 = Mps.SrcPins.SrcFrostKeygen.f_round2 ∧
    MpsGen.SrcFrostKeygen.f_round3 = Mps.SrcPins.SrcFrostKeygen.f_round3 ∧
    MpsGen.SrcFrostKeygen.files = Mps.SrcPins.SrcFrostKeygen.files := by
  refine ⟨by decide, by decide, by decide, by decide, by decide, by decide⟩

end Mps.Src.SrcFrostKeygen
