import MpsGen.SrcLPkgEcdsa
import Mps.SrcPins.SrcLPkgEcdsa
/-
  The source of this protocol directory is, file by file and line by line, the text the judged real sessions were last
  validated against (Mps/SrcPins/SrcLPkgEcdsa.lean, written by bin/mkroundpins). Any edit breaks the obligation below.
-/
namespace Mps.Src.SrcLPkgEcdsa
set_option maxRecDepth 65536

theorem gen_f_presignature : MpsGen.SrcLPkgEcdsa.f_presignature = Mps.SrcPins.SrcLPkgEcdsa.f_presignature := by decide
theorem gen_f_signature : MpsGen.SrcLPkgEcdsa.f_signature = Mps.SrcPins.SrcLPkgEcdsa.f_signature := by decide
theorem gen_files : MpsGen.SrcLPkgEcdsa.files = Mps.SrcPins.SrcLPkgEcdsa.files := by decide

theorem gen_source :
    MpsGen.SrcLPkgEcdsa.f_presignature = Mps.SrcPins.SrcLPkgEcdsa.f_presignature ∧
    MpsGen.SrcLPkgEcdsa.f_signature = Mps.SrcPins.SrcLPkgEcdsa.f_signature ∧
    MpsGen.SrcLPkgEcdsa.files = Mps.SrcPins.SrcLPkgEcdsa.files :=
  ⟨gen_f_presignature, gen_f_signature, gen_files⟩

end Mps.Src.SrcLPkgEcdsa
