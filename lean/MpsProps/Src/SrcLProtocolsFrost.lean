import MpsGen.SrcLProtocolsFrost
import Mps.SrcPins.SrcLProtocolsFrost
/-
  The source of this protocol directory is, file by file and line by line, the text the judged real sessions were last
  validated against (Mps/SrcPins/SrcLProtocolsFrost.lean, written by bin/mkroundpins). Any edit breaks the obligation below.
-/
namespace Mps.Src.SrcLProtocolsFrost
set_option maxRecDepth 65536

theorem gen_f_frost : MpsGen.SrcLProtocolsFrost.f_frost = Mps.SrcPins.SrcLProtocolsFrost.f_frost := by decide
theorem gen_files : MpsGen.SrcLProtocolsFrost.files = Mps.SrcPins.SrcLProtocolsFrost.files := by decide

theorem gen_source :
    MpsGen.SrcLProtocolsFrost.f_frost = Mps.SrcPins.SrcLProtocolsFrost.f_frost ∧
    MpsGen.SrcLProtocolsFrost.files = Mps.SrcPins.SrcLProtocolsFrost.files :=
  ⟨gen_f_frost, gen_files⟩

end Mps.Src.SrcLProtocolsFrost
