import MpsGen.SrcCmpConfig
import Mps.SrcPins.SrcCmpConfig
/-
  The source of this protocol directory is, file by file and line by line, the text the judged real sessions were last
  validated against (Mps/SrcPins/SrcCmpConfig.lean, written by bin/mkroundpins). Any edit breaks the obligation below.
-/
namespace Mps.Src.SrcCmpConfig
set_option maxRecDepth 65536

theorem gen_f_config : MpsGen.SrcCmpConfig.f_config = Mps.SrcPins.SrcCmpConfig.f_config := by decide
theorem gen_f_marshal : MpsGen.SrcCmpConfig.f_marshal = Mps.SrcPins.SrcCmpConfig.f_marshal := by decide
theorem gen_files : MpsGen.SrcCmpConfig.files = Mps.SrcPins.SrcCmpConfig.files := by decide

theorem gen_source :
    MpsGen.SrcCmpConfig.f_config = Mps.SrcPins.SrcCmpConfig.f_config ∧
    MpsGen.SrcCmpConfig.f_marshal = Mps.SrcPins.SrcCmpConfig.f_marshal ∧
    MpsGen.SrcCmpConfig.files = Mps.SrcPins.SrcCmpConfig.files :=
  ⟨gen_f_config, gen_f_marshal, gen_files⟩

end Mps.Src.SrcCmpConfig
