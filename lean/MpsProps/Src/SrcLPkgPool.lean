import MpsGen.SrcLPkgPool
import Mps.SrcPins.SrcLPkgPool
/-
  The source of this protocol directory is, file by file and line by line, the text the judged real sessions were last
  validated against (Mps/SrcPins/SrcLPkgPool.lean, written by bin/mkroundpins). Any edit breaks the obligation below.
-/
namespace Mps.Src.SrcLPkgPool
set_option maxRecDepth 65536

theorem gen_f_hook_noverif : MpsGen.SrcLPkgPool.f_hook_noverif = Mps.SrcPins.SrcLPkgPool.f_hook_noverif := by decide
theorem gen_f_hook_verif : MpsGen.SrcLPkgPool.f_hook_verif = Mps.SrcPins.SrcLPkgPool.f_hook_verif := by decide
theorem gen_f_pool : MpsGen.SrcLPkgPool.f_pool = Mps.SrcPins.SrcLPkgPool.f_pool := by decide
theorem gen_files : MpsGen.SrcLPkgPool.files = Mps.SrcPins.SrcLPkgPool.files := by decide

theorem gen_source :
    MpsGen.SrcLPkgPool.f_hook_noverif = Mps.SrcPins.SrcLPkgPool.f_hook_noverif ∧
    MpsGen.SrcLPkgPool.f_hook_verif = Mps.SrcPins.SrcLPkgPool.f_hook_verif ∧
    MpsGen.SrcLPkgPool.f_pool = Mps.SrcPins.SrcLPkgPool.f_pool ∧
    MpsGen.SrcLPkgPool.files = Mps.SrcPins.SrcLPkgPool.files :=
  ⟨gen_f_hook_noverif, gen_f_hook_verif, gen_f_pool, gen_files⟩

end Mps.Src.SrcLPkgPool
