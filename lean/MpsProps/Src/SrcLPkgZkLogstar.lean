import MpsGen.SrcLPkgZkLogstar
import Mps.SrcPins.SrcLPkgZkLogstar
/-
  The source of this protocol directory is, file by file and line by line, the text the judged real sessions were last
  validated against (Mps/SrcPins/SrcLPkgZkLogstar.lean, written by bin/mkroundpins). Any edit breaks the obligation below.
-/
namespace Mps.Src.SrcLPkgZkLogstar
set_option maxRecDepth 65536

theorem gen_f_logstar : MpsGen.SrcLPkgZkLogstar.f_logstar = Mps.SrcPins.SrcLPkgZkLogstar.f_logstar := by decide
theorem gen_files : MpsGen.SrcLPkgZkLogstar.files = Mps.SrcPins.SrcLPkgZkLogstar.files := by decide

theorem gen_source :
    MpsGen.SrcLPkgZkLogstar.f_logstar = Mps.SrcPins.SrcLPkgZkLogstar.f_logstar ∧
    MpsGen.SrcLPkgZkLogstar.files = Mps.SrcPins.SrcLPkgZkLogstar.files :=
  ⟨gen_f_logstar, gen_files⟩

end Mps.Src.SrcLPkgZkLogstar
