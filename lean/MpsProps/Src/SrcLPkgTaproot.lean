import MpsGen.SrcLPkgTaproot
import Mps.SrcPins.SrcLPkgTaproot
/-
  The source of this protocol directory is, file by file and line by line, the text the judged real sessions were last
  validated against (Mps/SrcPins/SrcLPkgTaproot.lean, written by bin/mkroundpins). Any edit breaks the obligation below.
-/
namespace Mps.Src.SrcLPkgTaproot
set_option maxRecDepth 65536

theorem gen_f_signature : MpsGen.SrcLPkgTaproot.f_signature = Mps.SrcPins.SrcLPkgTaproot.f_signature := by decide
theorem gen_files : MpsGen.SrcLPkgTaproot.files = Mps.SrcPins.SrcLPkgTaproot.files := by decide

theorem gen_source :
    MpsGen.SrcLPkgTaproot.f_signature = Mps.SrcPins.SrcLPkgTaproot.f_signature ∧
    MpsGen.SrcLPkgTaproot.files = Mps.SrcPins.SrcLPkgTaproot.files :=
  ⟨gen_f_signature, gen_files⟩

end Mps.Src.SrcLPkgTaproot
