import MpsGen.SrcCmpSign
import Mps.SrcPins.SrcCmpSign
/-
  The source of this protocol directory is, file by file and line by line, the text the judged real sessions were last
  validated against (Mps/SrcPins/SrcCmpSign.lean, written by bin/mkroundpins). Any edit breaks the obligation below.
-/
namespace Mps.Src.SrcCmpSign
set_option maxRecDepth 65536

theorem gen_f_round1 : MpsGen.SrcCmpSign.f_round1 = Mps.SrcPins.SrcCmpSign.f_round1 := by decide
theorem gen_f_round2 : MpsGen.SrcCmpSign.f_round2 = Mps.SrcPins.SrcCmpSign.f_round2 := by decide
theorem gen_f_round3 : MpsGen.SrcCmpSign.f_round3 = Mps.SrcPins.SrcCmpSign.f_round3 := by decide
theorem gen_f_round4 : MpsGen.SrcCmpSign.f_round4 = Mps.SrcPins.SrcCmpSign.f_round4 := by decide
theorem gen_f_round5 : MpsGen.SrcCmpSign.f_round5 = Mps.SrcPins.SrcCmpSign.f_round5 := by decide
theorem gen_f_sign : MpsGen.SrcCmpSign.f_sign = Mps.SrcPins.SrcCmpSign.f_sign := by decide
theorem gen_files : MpsGen.SrcCmpSign.files = Mps.SrcPins.SrcCmpSign.files := by decide

theorem gen_source :
    MpsGen.SrcCmpSign.f_round1 = Mps.SrcPins.SrcCmpSign.f_round1 ∧
    MpsGen.SrcCmpSign.f_round2 = Mps.SrcPins.SrcCmpSign.f_round2 ∧
    MpsGen.SrcCmpSign.f_round3 = Mps.SrcPins.SrcCmpSign.f_round3 ∧
    MpsGen.SrcCmpSign.f_round4 = Mps.SrcPins.SrcCmpSign.f_round4 ∧
    MpsGen.SrcCmpSign.f_round5 = Mps.SrcPins.SrcCmpSign.f_round5 ∧
    MpsGen.SrcCmpSign.f_sign = Mps.SrcPins.SrcCmpSign.f_sign ∧
    MpsGen.SrcCmpSign.files = Mps.SrcPins.SrcCmpSign.files :=
  ⟨gen_f_round1, gen_f_round2, gen_f_round3, gen_f_round4, gen_f_round5, gen_f_sign, gen_files⟩

end Mps.Src.SrcCmpSign
