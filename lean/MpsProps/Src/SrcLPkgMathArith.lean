import MpsGen.SrcLPkgMathArith
import Mps.SrcPins.SrcLPkgMathArith
/-
  The source of this protocol directory is, file by file and line by line, the text the judged real sessions were last
  validated against (Mps/SrcPins/SrcLPkgMathArith.lean, written by bin/mkroundpins). Any edit breaks the obligation below.
-/
namespace Mps.Src.SrcLPkgMathArith
set_option maxRecDepth 65536

theorem gen_f_int : MpsGen.SrcLPkgMathArith.f_int = Mps.SrcPins.SrcLPkgMathArith.f_int := by decide
theorem gen_f_modulus : MpsGen.SrcLPkgMathArith.f_modulus = Mps.SrcPins.SrcLPkgMathArith.f_modulus := by decide
theorem gen_files : MpsGen.SrcLPkgMathArith.files = Mps.SrcPins.SrcLPkgMathArith.files := by decide

theorem gen_source :
    MpsGen.SrcLPkgMathArith.f_int = Mps.SrcPins.SrcLPkgMathArith.f_int ∧
    MpsGen.SrcLPkgMathArith.f_modulus = Mps.SrcPins.SrcLPkgMathArith.f_modulus ∧
    MpsGen.SrcLPkgMathArith.files = Mps.SrcPins.SrcLPkgMathArith.files :=
  ⟨gen_f_int, gen_f_modulus, gen_files⟩

end Mps.Src.SrcLPkgMathArith
