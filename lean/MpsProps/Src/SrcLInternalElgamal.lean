import MpsGen.SrcLInternalElgamal
import Mps.SrcPins.SrcLInternalElgamal
/-
  The source of this protocol directory is, file by file and line by line, the text the judged real sessions were last
  validated against (Mps/SrcPins/SrcLInternalElgamal.lean, written by bin/mkroundpins). Any edit breaks the obligation below.
-/
namespace Mps.Src.SrcLInternalElgamal
set_option maxRecDepth 65536

theorem gen_f_elgamal : MpsGen.SrcLInternalElgamal.f_elgamal = Mps.SrcPins.SrcLInternalElgamal.f_elgamal := by decide
theorem gen_files : MpsGen.SrcLInternalElgamal.files = Mps.SrcPins.SrcLInternalElgamal.files := by decide

theorem gen_source :
    MpsGen.SrcLInternalElgamal.f_elgamal = Mps.SrcPins.SrcLInternalElgamal.f_elgamal ∧
    MpsGen.SrcLInternalElgamal.files = Mps.SrcPins.SrcLInternalElgamal.files :=
  ⟨gen_f_elgamal, gen_files⟩

end Mps.Src.SrcLInternalElgamal
