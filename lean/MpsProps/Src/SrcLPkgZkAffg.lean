import MpsGen.SrcLPkgZkAffg
import Mps.SrcPins.SrcLPkgZkAffg
/-
  The source of this protocol directory is, file by file and line by line, the text the judged real sessions were last
  validated against (Mps/SrcPins/SrcLPkgZkAffg.lean, written by bin/mkroundpins). Any edit breaks the obligation below.
-/
namespace Mps.Src.SrcLPkgZkAffg
set_option maxRecDepth 65536

theorem gen_f_affg : MpsGen.SrcLPkgZkAffg.f_affg = Mps.SrcPins.SrcLPkgZkAffg.f_affg := by decide
theorem gen_files : MpsGen.SrcLPkgZkAffg.files = Mps.SrcPins.SrcLPkgZkAffg.files := by decide

theorem gen_source :
    MpsGen.SrcLPkgZkAffg.f_affg = Mps.SrcPins.SrcLPkgZkAffg.f_affg ∧
    MpsGen.SrcLPkgZkAffg.files = Mps.SrcPins.SrcLPkgZkAffg.files :=
  ⟨gen_f_affg, gen_files⟩

end Mps.Src.SrcLPkgZkAffg
