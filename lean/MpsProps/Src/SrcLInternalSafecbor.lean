import MpsGen.SrcLInternalSafecbor
import Mps.SrcPins.SrcLInternalSafecbor
/-
  The source of this protocol directory is, file by file and line by line, the text the judged real sessions were last
  validated against (Mps/SrcPins/SrcLInternalSafecbor.lean, written by bin/mkroundpins). Any edit breaks the obligation below.
-/
namespace Mps.Src.SrcLInternalSafecbor
set_option maxRecDepth 65536

theorem gen_f_safecbor : MpsGen.SrcLInternalSafecbor.f_safecbor = Mps.SrcPins.SrcLInternalSafecbor.f_safecbor := by decide
theorem gen_files : MpsGen.SrcLInternalSafecbor.files = Mps.SrcPins.SrcLInternalSafecbor.files := by decide

theorem gen_source :
    MpsGen.SrcLInternalSafecbor.f_safecbor = Mps.SrcPins.SrcLInternalSafecbor.f_safecbor ∧
    MpsGen.SrcLInternalSafecbor.files = Mps.SrcPins.SrcLInternalSafecbor.files :=
  ⟨gen_f_safecbor, gen_files⟩

end Mps.Src.SrcLInternalSafecbor
