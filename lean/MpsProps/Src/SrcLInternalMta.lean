import MpsGen.SrcLInternalMta
import Mps.SrcPins.SrcLInternalMta
/-
  The source of this protocol directory is, file by file and line by line, the text the judged real sessions were last
  validated against (Mps/SrcPins/SrcLInternalMta.lean, written by bin/mkroundpins). Any edit breaks the obligation below.
-/
namespace Mps.Src.SrcLInternalMta
set_option maxRecDepth 65536

theorem gen_f_mta : MpsGen.SrcLInternalMta.f_mta = Mps.SrcPins.SrcLInternalMta.f_mta := by decide
theorem gen_files : MpsGen.SrcLInternalMta.files = Mps.SrcPins.SrcLInternalMta.files := by decide

theorem gen_source :
    MpsGen.SrcLInternalMta.f_mta = Mps.SrcPins.SrcLInternalMta.f_mta ∧
    MpsGen.SrcLInternalMta.files = Mps.SrcPins.SrcLInternalMta.files :=
  ⟨gen_f_mta, gen_files⟩

end Mps.Src.SrcLInternalMta
