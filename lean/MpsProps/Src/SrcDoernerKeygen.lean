import MpsGen.SrcDoernerKeygen
import Mps.SrcPins.SrcDoernerKeygen
/-
  The source of this protocol directory is, file by file and line by line, the text the judged real sessions were last
  validated against (Mps/SrcPins/SrcDoernerKeygen.lean, written by bin/mkroundpins). Any edit breaks the obligation below.
-/
namespace Mps.Src.SrcDoernerKeygen
set_option maxRecDepth 65536

theorem gen_f_keygen : MpsGen.SrcDoernerKeygen.f_keygen = Mps.SrcPins.SrcDoernerKeygen.f_keygen := by decide
theorem gen_f_round1R : MpsGen.SrcDoernerKeygen.f_round1R = Mps.SrcPins.SrcDoernerKeygen.f_round1R := by decide
theorem gen_f_round1S : MpsGen.SrcDoernerKeygen.f_round1S = Mps.SrcPins.SrcDoernerKeygen.f_round1S := by decide
theorem gen_f_round2R : MpsGen.SrcDoernerKeygen.f_round2R = Mps.SrcPins.SrcDoernerKeygen.f_round2R := by decide
theorem gen_f_round2S : MpsGen.SrcDoernerKeygen.f_round2S = Mps.SrcPins.SrcDoernerKeygen.f_round2S := by decide
theorem gen_f_round3R : MpsGen.SrcDoernerKeygen.f_round3R = Mps.SrcPins.SrcDoernerKeygen.f_round3R := by decide
theorem gen_f_round3S : MpsGen.SrcDoernerKeygen.f_round3S = Mps.SrcPins.SrcDoernerKeygen.f_round3S := by decide
theorem gen_files : MpsGen.SrcDoernerKeygen.files = Mps.SrcPins.SrcDoernerKeygen.files := by decide

theorem gen_source :
    MpsGen.SrcDoernerKeygen.f_keygen = Mps.SrcPins.SrcDoernerKeygen.f_keygen ∧
    MpsGen.SrcDoernerKeygen.f_round1R = Mps.SrcPins.SrcDoernerKeygen.f_round1R ∧
    MpsGen.SrcDoernerKeygen.f_round1S = Mps.SrcPins.SrcDoernerKeygen.f_round1S ∧
    MpsGen.SrcDoernerKeygen.f_round2R = Mps.SrcPins.SrcDoernerKeygen.f_round2R ∧
    MpsGen.SrcDoernerKeygen.f_round2S = Mps.SrcPins.SrcDoernerKeygen.f_round2S ∧
    MpsGen.SrcDoernerKeygen.f_round3R = Mps.SrcPins.SrcDoernerKeygen.f_round3R ∧
    MpsGen.SrcDoernerKeygen.f_round3S = Mps.SrcPins.SrcDoernerKeygen.f_round3S ∧
    MpsGen.SrcDoernerKeygen.files = Mps.SrcPins.SrcDoernerKeygen.files :=
  ⟨gen_f_keygen, gen_f_round1R, gen_f_round1S, gen_f_round2R, gen_f_round2S, gen_f_round3R, gen_f_round3S, gen_files⟩

end Mps.Src.SrcDoernerKeygen
