import MpsGen.SrcLPkgZkMod
import Mps.SrcPins.SrcLPkgZkMod
/-
  The source of this protocol directory is, file by file and line by line, the text the judged real sessions were last
  validated against (Mps/SrcPins/SrcLPkgZkMod.lean, written by bin/mkroundpins). Any edit breaks the obligation below.
-/
namespace Mps.Src.SrcLPkgZkMod
set_option maxRecDepth 65536

theorem gen_f_mod : MpsGen.SrcLPkgZkMod.f_mod = Mps.SrcPins.SrcLPkgZkMod.f_mod := by decide
theorem gen_files : MpsGen.SrcLPkgZkMod.files = Mps.SrcPins.SrcLPkgZkMod.files := by decide

theorem gen_source :
    MpsGen.SrcLPkgZkMod.f_mod = Mps.SrcPins.SrcLPkgZkMod.f_mod ∧
    MpsGen.SrcLPkgZkMod.files = Mps.SrcPins.SrcLPkgZkMod.files :=
  ⟨gen_f_mod, gen_files⟩

end Mps.Src.SrcLPkgZkMod
