import MpsGen.SrcCmpPresign
import Mps.SrcPins.SrcCmpPresign
/-
  The source of this protocol directory is, file by file and line by line, the text the judged real sessions were last
  validated against (Mps/SrcPins/SrcCmpPresign.lean, written by bin/mkroundpins). Any edit breaks the obligation below.
-/
namespace Mps.Src.SrcCmpPresign
set_option maxRecDepth 65536

theorem gen_f_abort1 : MpsGen.SrcCmpPresign.f_abort1 = Mps.SrcPins.SrcCmpPresign.f_abort1 := by decide
theorem gen_f_abort2 : MpsGen.SrcCmpPresign.f_abort2 = Mps.SrcPins.SrcCmpPresign.f_abort2 := by decide
theorem gen_f_presign1 : MpsGen.SrcCmpPresign.f_presign1 = Mps.SrcPins.SrcCmpPresign.f_presign1 := by decide
theorem gen_f_presign2 : MpsGen.SrcCmpPresign.f_presign2 = Mps.SrcPins.SrcCmpPresign.f_presign2 := by decide
theorem gen_f_presign3 : MpsGen.SrcCmpPresign.f_presign3 = Mps.SrcPins.SrcCmpPresign.f_presign3 := by decide
theorem gen_f_presign4 : MpsGen.SrcCmpPresign.f_presign4 = Mps.SrcPins.SrcCmpPresign.f_presign4 := by decide
theorem gen_f_presign5 : MpsGen.SrcCmpPresign.f_presign5 = Mps.SrcPins.SrcCmpPresign.f_presign5 := by decide
theorem gen_f_presign6 : MpsGen.SrcCmpPresign.f_presign6 = Mps.SrcPins.SrcCmpPresign.f_presign6 := by decide
theorem gen_f_presign7 : MpsGen.SrcCmpPresign.f_presign7 = Mps.SrcPins.SrcCmpPresign.f_presign7 := by decide
theorem gen_f_sign : MpsGen.SrcCmpPresign.f_sign = Mps.SrcPins.SrcCmpPresign.f_sign := by decide
theorem gen_f_sign1 : MpsGen.SrcCmpPresign.f_sign1 = Mps.SrcPins.SrcCmpPresign.f_sign1 := by decide
theorem gen_f_sign2 : MpsGen.SrcCmpPresign.f_sign2 = Mps.SrcPins.SrcCmpPresign.f_sign2 := by decide
theorem gen_files : MpsGen.SrcCmpPresign.files = Mps.SrcPins.SrcCmpPresign.files := by decide

theorem gen_source :
    MpsGen.SrcCmpPresign.f_abort1 = Mps.SrcPins.SrcCmpPresign.f_abort1 ∧
    MpsGen.SrcCmpPresign.f_abort2 = Mps.SrcPins.SrcCmpPresign.f_abort2 ∧
    MpsGen.SrcCmpPresign.f_presign1 = Mps.SrcPins.SrcCmpPresign.f_presign1 ∧
    MpsGen.SrcCmpPresign.f_presign2 = Mps.SrcPins.SrcCmpPresign.f_presign2 ∧
    MpsGen.SrcCmpPresign.f_presign3 = Mps.SrcPins.SrcCmpPresign.f_presign3 ∧
    MpsGen.SrcCmpPresign.f_presign4 = Mps.SrcPins.SrcCmpPresign.f_presign4 ∧
    MpsGen.SrcCmpPresign.f_presign5 = Mps.SrcPins.SrcCmpPresign.f_presign5 ∧
    MpsGen.SrcCmpPresign.f_presign6 = Mps.SrcPins.SrcCmpPresign.f_presign6 ∧
    MpsGen.SrcCmpPresign.f_presign7 = Mps.SrcPins.SrcCmpPresign.f_presign7 ∧
    MpsGen.SrcCmpPresign.f_sign = Mps.SrcPins.SrcCmpPresign.f_sign ∧
    MpsGen.SrcCmpPresign.f_sign1 = Mps.SrcPins.SrcCmpPresign.f_sign1 ∧
    MpsGen.SrcCmpPresign.f_sign2 = Mps.SrcPins.SrcCmpPresign.f_sign2 ∧
    MpsGen.SrcCmpPresign.files = Mps.SrcPins.SrcCmpPresign.files :=
  ⟨gen_f_abort1, gen_f_abort2, gen_f_presign1, gen_f_presign2, gen_f_presign3, gen_f_presign4, gen_f_presign5, gen_f_presign6, gen_f_presign7, gen_f_sign, gen_f_sign1, gen_f_sign2, gen_files⟩

end Mps.Src.SrcCmpPresign
