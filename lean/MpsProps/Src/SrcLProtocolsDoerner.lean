import MpsGen.SrcLProtocolsDoerner
import Mps.SrcPins.SrcLProtocolsDoerner
/-
  The source of this protocol directory is, file by file and line by line, the text the judged real sessions were last
  validated against (Mps/SrcPins/SrcLProtocolsDoerner.lean, written by bin/mkroundpins). Any edit breaks the obligation below.
-/
namespace Mps.Src.SrcLProtocolsDoerner
set_option maxRecDepth 65536

theorem gen_f_doerner : MpsGen.SrcLProtocolsDoerner.f_doerner = Mps.SrcPins.SrcLProtocolsDoerner.f_doerner := by decide
theorem gen_files : MpsGen.SrcLProtocolsDoerner.files = Mps.SrcPins.SrcLProtocolsDoerner.files := by decide

theorem gen_source :
    MpsGen.SrcLProtocolsDoerner.f_doerner = Mps.SrcPins.SrcLProtocolsDoerner.f_doerner ∧
    MpsGen.SrcLProtocolsDoerner.files = Mps.SrcPins.SrcLProtocolsDoerner.files :=
  ⟨gen_f_doerner, gen_files⟩

end Mps.Src.SrcLProtocolsDoerner
