import MpsGen.SrcLPkgZkPrm
import Mps.SrcPins.SrcLPkgZkPrm
/-
  The source of this protocol directory is, file by file and line by line, the text the judged real sessions were last
  validated against (Mps/SrcPins/SrcLPkgZkPrm.lean, written by bin/mkroundpins). Any edit breaks the obligation below.
-/
namespace Mps.Src.SrcLPkgZkPrm
set_option maxRecDepth 65536

theorem gen_f_prm : MpsGen.SrcLPkgZkPrm.f_prm = Mps.SrcPins.SrcLPkgZkPrm.f_prm := by decide
theorem gen_files : MpsGen.SrcLPkgZkPrm.files = Mps.SrcPins.SrcLPkgZkPrm.files := by decide

theorem gen_source :
    MpsGen.SrcLPkgZkPrm.f_prm = Mps.SrcPins.SrcLPkgZkPrm.f_prm ∧
    MpsGen.SrcLPkgZkPrm.files = Mps.SrcPins.SrcLPkgZkPrm.files :=
  ⟨gen_f_prm, gen_files⟩

end Mps.Src.SrcLPkgZkPrm
