import MpsGen.SrcLPkgZkDec
import Mps.SrcPins.SrcLPkgZkDec
/-
  The source of this protocol directory is, file by file and line by line, the text the judged real sessions were last
  validated against (Mps/SrcPins/SrcLPkgZkDec.lean, written by bin/mkroundpins). Any edit breaks the obligation below.
-/
namespace Mps.Src.SrcLPkgZkDec
set_option maxRecDepth 65536

theorem gen_f_dec : MpsGen.SrcLPkgZkDec.f_dec = Mps.SrcPins.SrcLPkgZkDec.f_dec := by decide
theorem gen_files : MpsGen.SrcLPkgZkDec.files = Mps.SrcPins.SrcLPkgZkDec.files := by decide

theorem gen_source :
    MpsGen.SrcLPkgZkDec.f_dec = Mps.SrcPins.SrcLPkgZkDec.f_dec ∧
    MpsGen.SrcLPkgZkDec.files = Mps.SrcPins.SrcLPkgZkDec.files :=
  ⟨gen_f_dec, gen_files⟩

end Mps.Src.SrcLPkgZkDec
