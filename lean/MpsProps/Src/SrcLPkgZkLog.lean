import MpsGen.SrcLPkgZkLog
import Mps.SrcPins.SrcLPkgZkLog
/-
  The source of this protocol directory is, file by file and line by line, the text the judged real sessions were last
  validated against (Mps/SrcPins/SrcLPkgZkLog.lean, written by bin/mkroundpins). Any edit breaks the obligation below.
-/
namespace Mps.Src.SrcLPkgZkLog
set_option maxRecDepth 65536

theorem gen_f_log : MpsGen.SrcLPkgZkLog.f_log = Mps.SrcPins.SrcLPkgZkLog.f_log := by decide
theorem gen_files : MpsGen.SrcLPkgZkLog.files = Mps.SrcPins.SrcLPkgZkLog.files := by decide

theorem gen_source :
    MpsGen.SrcLPkgZkLog.f_log = Mps.SrcPins.SrcLPkgZkLog.f_log ∧
    MpsGen.SrcLPkgZkLog.files = Mps.SrcPins.SrcLPkgZkLog.files :=
  ⟨gen_f_log, gen_files⟩

end Mps.Src.SrcLPkgZkLog
