import MpsGen.SrcLPkgPedersen
import Mps.SrcPins.SrcLPkgPedersen
/-
  The source of this protocol directory is, file by file and line by line, the text the judged real sessions were last
  validated against (Mps/SrcPins/SrcLPkgPedersen.lean, written by bin/mkroundpins). Any edit breaks the obligation below.
-/
namespace Mps.Src.SrcLPkgPedersen
set_option maxRecDepth 65536

theorem gen_f_pedersen : MpsGen.SrcLPkgPedersen.f_pedersen = Mps.SrcPins.SrcLPkgPedersen.f_pedersen := by decide
theorem gen_files : MpsGen.SrcLPkgPedersen.files = Mps.SrcPins.SrcLPkgPedersen.files := by decide

theorem gen_source :
    MpsGen.SrcLPkgPedersen.f_pedersen = Mps.SrcPins.SrcLPkgPedersen.f_pedersen ∧
    MpsGen.SrcLPkgPedersen.files = Mps.SrcPins.SrcLPkgPedersen.files :=
  ⟨gen_f_pedersen, gen_files⟩

end Mps.Src.SrcLPkgPedersen
