import MpsGen.SrcLInternalRound
import Mps.SrcPins.SrcLInternalRound
/-
  The source of this protocol directory is, file by file and line by line, the text the judged real sessions were last
  validated against (Mps/SrcPins/SrcLInternalRound.lean, written by bin/mkroundpins). Any edit breaks the obligation below.
-/
namespace Mps.Src.SrcLInternalRound
set_option maxRecDepth 65536

theorem gen_f_abort : MpsGen.SrcLInternalRound.f_abort = Mps.SrcPins.SrcLInternalRound.f_abort := by decide
theorem gen_f_error : MpsGen.SrcLInternalRound.f_error = Mps.SrcPins.SrcLInternalRound.f_error := by decide
theorem gen_f_helper : MpsGen.SrcLInternalRound.f_helper = Mps.SrcPins.SrcLInternalRound.f_helper := by decide
theorem gen_f_message : MpsGen.SrcLInternalRound.f_message = Mps.SrcPins.SrcLInternalRound.f_message := by decide
theorem gen_f_number : MpsGen.SrcLInternalRound.f_number = Mps.SrcPins.SrcLInternalRound.f_number := by decide
theorem gen_f_output : MpsGen.SrcLInternalRound.f_output = Mps.SrcPins.SrcLInternalRound.f_output := by decide
theorem gen_f_round : MpsGen.SrcLInternalRound.f_round = Mps.SrcPins.SrcLInternalRound.f_round := by decide
theorem gen_f_session : MpsGen.SrcLInternalRound.f_session = Mps.SrcPins.SrcLInternalRound.f_session := by decide
theorem gen_files : MpsGen.SrcLInternalRound.files = Mps.SrcPins.SrcLInternalRound.files := by decide

theorem gen_source :
    MpsGen.SrcLInternalRound.f_abort = Mps.SrcPins.SrcLInternalRound.f_abort ∧
    MpsGen.SrcLInternalRound.f_error = Mps.SrcPins.SrcLInternalRound.f_error ∧
    MpsGen.SrcLInternalRound.f_helper = Mps.SrcPins.SrcLInternalRound.f_helper ∧
    MpsGen.SrcLInternalRound.f_message = Mps.SrcPins.SrcLInternalRound.f_message ∧
    MpsGen.SrcLInternalRound.f_number = Mps.SrcPins.SrcLInternalRound.f_number ∧
    MpsGen.SrcLInternalRound.f_output = Mps.SrcPins.SrcLInternalRound.f_output ∧
    MpsGen.SrcLInternalRound.f_round = Mps.SrcPins.SrcLInternalRound.f_round ∧
    MpsGen.SrcLInternalRound.f_session = Mps.SrcPins.SrcLInternalRound.f_session ∧
    MpsGen.SrcLInternalRound.files = Mps.SrcPins.SrcLInternalRound.files :=
  ⟨gen_f_abort, gen_f_error, gen_f_helper, gen_f_message, gen_f_number, gen_f_output, gen_f_round, gen_f_session, gen_files⟩

end Mps.Src.SrcLInternalRound
