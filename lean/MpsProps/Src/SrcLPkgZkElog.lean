import MpsGen.SrcLPkgZkElog
import Mps.SrcPins.SrcLPkgZkElog
/-
  The source of this protocol directory is, file by file and line by line, the text the judged real sessions were last
  validated against (Mps/SrcPins/SrcLPkgZkElog.lean, written by bin/mkroundpins). Any edit breaks the obligation below.
-/
namespace Mps.Src.SrcLPkgZkElog
set_option maxRecDepth 65536

theorem gen_f_elog : MpsGen.SrcLPkgZkElog.f_elog = Mps.SrcPins.SrcLPkgZkElog.f_elog := by decide
theorem gen_files : MpsGen.SrcLPkgZkElog.files = Mps.SrcPins.SrcLPkgZkElog.files := by decide

theorem gen_source :
    MpsGen.SrcLPkgZkElog.f_elog = Mps.SrcPins.SrcLPkgZkElog.f_elog ∧
    MpsGen.SrcLPkgZkElog.files = Mps.SrcPins.SrcLPkgZkElog.files :=
  ⟨gen_f_elog, gen_files⟩

end Mps.Src.SrcLPkgZkElog
