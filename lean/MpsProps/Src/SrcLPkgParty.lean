import MpsGen.SrcLPkgParty
import Mps.SrcPins.SrcLPkgParty
/-
  The source of this protocol directory is, file by file and line by line, the text the judged real sessions were last
  validated against (Mps/SrcPins/SrcLPkgParty.lean, written by bin/mkroundpins). Any edit breaks the obligation below.
-/
namespace Mps.Src.SrcLPkgParty
set_option maxRecDepth 65536

theorem gen_f_id : MpsGen.SrcLPkgParty.f_id = Mps.SrcPins.SrcLPkgParty.f_id := by decide
theorem gen_f_idslice : MpsGen.SrcLPkgParty.f_idslice = Mps.SrcPins.SrcLPkgParty.f_idslice := by decide
theorem gen_files : MpsGen.SrcLPkgParty.files = Mps.SrcPins.SrcLPkgParty.files := by decide

theorem gen_source :
    MpsGen.SrcLPkgParty.f_id = Mps.SrcPins.SrcLPkgParty.f_id ∧
    MpsGen.SrcLPkgParty.f_idslice = Mps.SrcPins.SrcLPkgParty.f_idslice ∧
    MpsGen.SrcLPkgParty.files = Mps.SrcPins.SrcLPkgParty.files :=
  ⟨gen_f_id, gen_f_idslice, gen_files⟩

end Mps.Src.SrcLPkgParty
