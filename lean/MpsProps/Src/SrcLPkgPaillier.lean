import MpsGen.SrcLPkgPaillier
import Mps.SrcPins.SrcLPkgPaillier
/-
  The source of this protocol directory is, file by file and line by line, the text the judged real sessions were last
  validated against (Mps/SrcPins/SrcLPkgPaillier.lean, written by bin/mkroundpins). Any edit breaks the obligation below.
-/
namespace Mps.Src.SrcLPkgPaillier
set_option maxRecDepth 65536

theorem gen_f_ciphertext : MpsGen.SrcLPkgPaillier.f_ciphertext = Mps.SrcPins.SrcLPkgPaillier.f_ciphertext := by decide
theorem gen_f_public : MpsGen.SrcLPkgPaillier.f_public = Mps.SrcPins.SrcLPkgPaillier.f_public := by decide
theorem gen_f_secret : MpsGen.SrcLPkgPaillier.f_secret = Mps.SrcPins.SrcLPkgPaillier.f_secret := by decide
theorem gen_files : MpsGen.SrcLPkgPaillier.files = Mps.SrcPins.SrcLPkgPaillier.files := by decide

theorem gen_source :
    MpsGen.SrcLPkgPaillier.f_ciphertext = Mps.SrcPins.SrcLPkgPaillier.f_ciphertext ∧
    MpsGen.SrcLPkgPaillier.f_public = Mps.SrcPins.SrcLPkgPaillier.f_public ∧
    MpsGen.SrcLPkgPaillier.f_secret = Mps.SrcPins.SrcLPkgPaillier.f_secret ∧
    MpsGen.SrcLPkgPaillier.files = Mps.SrcPins.SrcLPkgPaillier.files :=
  ⟨gen_f_ciphertext, gen_f_public, gen_f_secret, gen_files⟩

end Mps.Src.SrcLPkgPaillier
