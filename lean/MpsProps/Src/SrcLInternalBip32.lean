import MpsGen.SrcLInternalBip32
import Mps.SrcPins.SrcLInternalBip32
/-
  The source of this protocol directory is, file by file and line by line, the text the judged real sessions were last
  validated against (Mps/SrcPins/SrcLInternalBip32.lean, written by bin/mkroundpins). Any edit breaks the obligation below.
-/
namespace Mps.Src.SrcLInternalBip32
set_option maxRecDepth 65536

theorem gen_f_bip32 : MpsGen.SrcLInternalBip32.f_bip32 = Mps.SrcPins.SrcLInternalBip32.f_bip32 := by decide
theorem gen_files : MpsGen.SrcLInternalBip32.files = Mps.SrcPins.SrcLInternalBip32.files := by decide

theorem gen_source :
    MpsGen.SrcLInternalBip32.f_bip32 = Mps.SrcPins.SrcLInternalBip32.f_bip32 ∧
    MpsGen.SrcLInternalBip32.files = Mps.SrcPins.SrcLInternalBip32.files :=
  ⟨gen_f_bip32, gen_files⟩

end Mps.Src.SrcLInternalBip32
