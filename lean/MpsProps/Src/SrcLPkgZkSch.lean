import MpsGen.SrcLPkgZkSch
import Mps.SrcPins.SrcLPkgZkSch
/-
  The source of this protocol directory is, file by file and line by line, the text the judged real sessions were last
  validated against (Mps/SrcPins/SrcLPkgZkSch.lean, written by bin/mkroundpins). Any edit breaks the obligation below.
-/
namespace Mps.Src.SrcLPkgZkSch
set_option maxRecDepth 65536

theorem gen_f_sch : MpsGen.SrcLPkgZkSch.f_sch = Mps.SrcPins.SrcLPkgZkSch.f_sch := by decide
theorem gen_files : MpsGen.SrcLPkgZkSch.files = Mps.SrcPins.SrcLPkgZkSch.files := by decide

theorem gen_source :
    MpsGen.SrcLPkgZkSch.f_sch = Mps.SrcPins.SrcLPkgZkSch.f_sch ∧
    MpsGen.SrcLPkgZkSch.files = Mps.SrcPins.SrcLPkgZkSch.files :=
  ⟨gen_f_sch, gen_files⟩

end Mps.Src.SrcLPkgZkSch
