import MpsGen.SrcLPkgZkEncelg
import Mps.SrcPins.SrcLPkgZkEncelg
/-
  The source of this protocol directory is, file by file and line by line, the text the judged real sessions were last
  validated against (Mps/SrcPins/SrcLPkgZkEncelg.lean, written by bin/mkroundpins). Any edit breaks the obligation below.
-/
namespace Mps.Src.SrcLPkgZkEncelg
set_option maxRecDepth 65536

theorem gen_f_encelg : MpsGen.SrcLPkgZkEncelg.f_encelg = Mps.SrcPins.SrcLPkgZkEncelg.f_encelg := by decide
theorem gen_files : MpsGen.SrcLPkgZkEncelg.files = Mps.SrcPins.SrcLPkgZkEncelg.files := by decide

theorem gen_source :
    MpsGen.SrcLPkgZkEncelg.f_encelg = Mps.SrcPins.SrcLPkgZkEncelg.f_encelg ∧
    MpsGen.SrcLPkgZkEncelg.files = Mps.SrcPins.SrcLPkgZkEncelg.files :=
  ⟨gen_f_encelg, gen_files⟩

end Mps.Src.SrcLPkgZkEncelg
