import MpsGen.SrcLPkgZkEnc
import Mps.SrcPins.SrcLPkgZkEnc
/-
  The source of this protocol directory is, file by file and line by line, the text the judged real sessions were last
  validated against (Mps/SrcPins/SrcLPkgZkEnc.lean, written by bin/mkroundpins). Any edit breaks the obligation below.
-/
namespace Mps.Src.SrcLPkgZkEnc
set_option maxRecDepth 65536

theorem gen_f_enc : MpsGen.SrcLPkgZkEnc.f_enc = Mps.SrcPins.SrcLPkgZkEnc.f_enc := by decide
theorem gen_files : MpsGen.SrcLPkgZkEnc.files = Mps.SrcPins.SrcLPkgZkEnc.files := by decide

theorem gen_source :
    MpsGen.SrcLPkgZkEnc.f_enc = Mps.SrcPins.SrcLPkgZkEnc.f_enc ∧
    MpsGen.SrcLPkgZkEnc.files = Mps.SrcPins.SrcLPkgZkEnc.files :=
  ⟨gen_f_enc, gen_files⟩

end Mps.Src.SrcLPkgZkEnc
