import MpsGen.SrcLPkgZkMulstar
import Mps.SrcPins.SrcLPkgZkMulstar
/-
  The source of this protocol directory is, file by file and line by line, the text the judged real sessions were last
  validated against (Mps/SrcPins/SrcLPkgZkMulstar.lean, written by bin/mkroundpins). Any edit breaks the obligation below.
-/
namespace Mps.Src.SrcLPkgZkMulstar
set_option maxRecDepth 65536

theorem gen_f_mulstar : MpsGen.SrcLPkgZkMulstar.f_mulstar = Mps.SrcPins.SrcLPkgZkMulstar.f_mulstar := by decide
theorem gen_files : MpsGen.SrcLPkgZkMulstar.files = Mps.SrcPins.SrcLPkgZkMulstar.files := by decide

theorem gen_source :
    MpsGen.SrcLPkgZkMulstar.f_mulstar = Mps.SrcPins.SrcLPkgZkMulstar.f_mulstar ∧
    MpsGen.SrcLPkgZkMulstar.files = Mps.SrcPins.SrcLPkgZkMulstar.files :=
  ⟨gen_f_mulstar, gen_files⟩

end Mps.Src.SrcLPkgZkMulstar
