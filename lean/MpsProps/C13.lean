import MpsProps.Anchors.C13
import MpsProofs.OTBits
import MpsProofs.OTRandom
import MpsProofs.OTClmul
import MpsProofs.OTExtend
import MpsProofs.OTAlgebra
import MpsProofs.OTMaskLoop
import Mps.OT.Concrete
import MpsGen.OT
import Mathlib.Data.ZMod.Basic
import Mathlib.Algebra.Field.ZMod
/-
  C13 — OT-based multiplication is correct for all inputs.
  Property theorems only (lemmas live in MpsProofs/OT*.lean).

  The model (lean/Mps/OT) is written once over records of operations (`FieldOps`, `GroupOps`) and
  abstract hash / PRG functions (`OTHash`, the keyed hash `H` of a random OT). It is EXECUTED with
  scalars mod the secp256k1 order, the secp256k1 model and BLAKE3 in the correspondence run
  (suite `ot`: every layer of internal/ot recomputed bit-exactly) and PROVED about here with a
  lawful commutative ring / module and arbitrary functions in place of the hashes.
-/
namespace Mps.C13
open Mps Mps.OT

/-! ### 1. bits, transposition, carry-less multiplication -/

/-- bits.go `bitAt` (byte-level transcription) is `testBit` of the little-endian value: the
    representation of bit vectors by natural numbers used throughout the model is faithful. -/
theorem bitat_spec (i : Nat) (data : Bytes) :
    bitAtBytes i data = if (leNat data).testBit i then 1 else 0 := bitAtBytes_eq i data

/-- `transposeBits`: bit `j` of row `i` is bit `i` of column `j`, for every row of the batch. -/
theorem transpose_spec (l : Nat) (M : List Nat) (i j : Nat) (hi : i < l) (hj : j < otParam) :
    bitAt j ((transposeBits l M).getD i 0) = bitAt i (M.getD j 0) := Mps.OT.transpose_spec l M i j hi hj

/-- `accumulate`: the coded two-lane shift-and-xor loop over four 64-bit words (with its 256-bit
    truncating shift) computes the product in GF(2)[X] of its 128-bit arguments. -/
theorem accumulate_is_gf2_product (f a b : Nat) (ha : a < 2 ^ 128) (hb : b < 2 ^ 128) :
    toPoly (accumulate f a b) = toPoly f + toPoly a * toPoly b := toPoly_accumulate f a b ha hb

/-- … hence it is XOR-linear in each argument and symmetric. -/
theorem clmul_bilinear (a a' b b' : Nat) (ha : a < 2 ^ 128) (ha' : a' < 2 ^ 128) (hb : b < 2 ^ 128)
    (hb' : b' < 2 ^ 128) :
    clmulCoded (a ^^^ a') b = clmulCoded a b ^^^ clmulCoded a' b ∧
    clmulCoded a (b ^^^ b') = clmulCoded a b ^^^ clmulCoded a b' ∧
    clmulCoded a b = clmulCoded b a := Mps.OT.clmul_bilinear a a' b b' ha ha' hb hb'

/-! ### 2. random OT (any group satisfying the module laws, any hash) -/

section group
variable {F G : Type} [CommRing F] [AddCommGroup G] [Module F G]
variable (base : G) (enc : G → Bytes) (dec : Bytes → Option G)

/-- The receiver's pad is the sender's pad for the chosen bit. -/
theorem random_ot_pad_agree (hdec : ∀ P, dec (enc P) = some P) (H : Bytes → Nat) (b a : F) (choice : Bool) :
    let Gp : GroupOps F G := lawfulGroup base enc dec
    let s := rotSetupSend Gp b
    let r1 := rotRecvRound1 Gp H s.B choice a
    ∃ ch st, rotSendRound1 Gp H s r1.1 = some (ch, st) ∧
      r1.2 = (if choice then st.rand1 else st.rand0) := by
  obtain ⟨ch, st, h1, h2, _⟩ := Mps.OT.random_ot_pad_agree base enc dec hdec H b a choice
  exact ⟨ch, st, h1, h2⟩

/-- An honest instance passes the sender's response check and both of the receiver's
    decommitment checks, and ends with agreeing pads. -/
theorem random_ot_response_complete (hdec : ∀ P, dec (enc P) = some P) (H : Bytes → Nat) (b a : F)
    (choice : Bool) :
    let Gp : GroupOps F G := lawfulGroup base enc dec
    ∃ t, rotRun Gp H (rotSetupSend Gp b) choice a = some t ∧
      t.randChoice = (if choice then t.rand1 else t.rand0) :=
  Mps.OT.random_ot_response_complete base enc dec hdec H b a choice

/-- The correlated-OT setup (OTParam random OTs with the bits of Δ as choices, any per-instance
    hashes) completes and leaves the sender with K_Δ[i] = K_{Δ_i}[i] for every column. -/
theorem corre_setup_rel (hdec : ∀ P, dec (enc P) = some P) (Hn : Nat → Bytes → Nat) (zero b : F)
    (delta : Nat) (hd : delta < 2 ^ otParam) (as : List F) :
    ∃ ss rs, correSetup (lawfulGroup base enc dec) Hn zero b delta as = some (ss, rs) ∧ SetupRel ss rs :=
  Mps.OT.corre_setup_rel base enc dec hdec Hn zero b delta hd as
end group

/-! ### 3. correlated and extended OT (any PRG / hash outputs, every row of the batch) -/

section layers
variable {F : Type}

theorem corre_relation (h : OTHash F) (ss : CorreSendSetup) (rs : CorreRecvSetup) (hrel : SetupRel ss rs)
    (l x j : Nat) (hj : j < l) :
    (correSend h ss l (correReceive h rs l x).1).getD j 0
      = (correReceive h rs l x).2.getD j 0 ^^^ maskBit (x.testBit j) ss.delta :=
  Mps.OT.corre_relation h ss rs hrel l x j hj

theorem kos_check_complete (h : OTHash F) (hchi : ChiOK h) (ss : CorreSendSetup) (rs : CorreRecvSetup)
    (hrel : SetupRel ss rs) (l choices extra : Nat) :
    extSend h ss l (extReceive h rs l choices extra).1
      = some (senderPads h ss l (extReceive h rs l choices extra).1.U) :=
  Mps.OT.kos_check_complete h hchi ss rs hrel l choices extra

theorem ext_ot_choice (h : OTHash F) (ss : CorreSendSetup) (rs : CorreRecvSetup) (hrel : SetupRel ss rs)
    (l choices extra i : Nat) (hi : i < l) :
    (extReceive h rs l choices extra).2.getD i 0 =
      if choices.testBit i then (senderPads h ss l (extReceive h rs l choices extra).1.U).2.getD i 0
      else (senderPads h ss l (extReceive h rs l choices extra).1.U).1.getD i 0 :=
  Mps.OT.ext_ot_choice h ss rs hrel l choices extra i hi
end layers

/-! ### 4. the algebraic chain over any commutative ring -/

section ring
variable {F : Type} [CommRing F] [DecidableEq F] (repr : F → Nat)

/-- recvᵢ + sendᵢ = cᵢ·α (both components) -/
theorem additive_sum (h : OTHash F) (V0 V1 VC : List Nat) (l : Nat) (choices : Nat) (alpha : F × F)
    (hvc : ∀ i, i < l → VC.getD i 0 = if choices.testBit i then V1.getD i 0 else V0.getD i 0)
    (i : Nat) (hi : i < l) :
    let sr := additiveSend (lawful F repr) h V0 V1 l alpha
    let recv := additiveRecv (lawful F repr) h VC l choices sr.1
    (recv.getD i (0, 0)).1 + (sr.2.getD i (0, 0)).1 = (if choices.testBit i then alpha.1 else 0) ∧
    (recv.getD i (0, 0)).2 + (sr.2.getD i (0, 0)).2 = (if choices.testBit i then alpha.2 else 0) :=
  Mps.OT.additive_sum repr h V0 V1 VC l choices alpha hvc i hi

/-- Σᵢ cᵢ·gᵢ = β for the choice bits `encode` produces, in the code's bit order, for every γ -/
theorem gadget_encode_sum (hr : ReprOK repr) (h : OTHash F) (hn : (h.noise noiseLen).length = noiseLen)
    (beta : F) (gamma : Nat) :
    let gadget := makeGadget (lawful F repr) h
    let choices := encode (lawful F repr) beta (gadget.drop scalarBits) gamma
    (∑ i ∈ Finset.range gadgetLen, (if choices.testBit i then (1 : F) else 0) * gadget.getD i 0) = beta :=
  Mps.OT.gadget_encode_sum repr hr h hn beta gamma

/-- **Headline (on any correct setup).** For all α, β, all encoding bits γ, all extra choice bits,
    any second pad scalar α₁ and ANY hash / PRG outputs: the honest multiplication aborts nowhere
    and share_S + share_R = α·β. -/
theorem multiply_correct_of_setup (hr : ReprOK repr) (h : OTHash F) (hchi : ChiOK h)
    (hn : (h.noise noiseLen).length = noiseLen) (ss : CorreSendSetup) (rs : CorreRecvSetup)
    (hrel : SetupRel ss rs) (alpha alpha1 beta : F) (gamma extra : Nat) :
    ∃ shareS shareR, multiplyRun (lawful F repr) h ss rs alpha alpha1 beta gamma extra = some (shareS, shareR) ∧
      shareS + shareR = alpha * beta :=
  Mps.OT.multiply_correct_of_setup repr hr h hchi hn ss rs hrel alpha alpha1 beta gamma extra

/-- **Headline (whole stack).** Random-OT setup in any lawful group with any hashes, then the
    multiplication with any hash / PRG outputs: for all inputs and all sampled values the setup
    completes, the multiplication completes and the two outputs add up to the product. -/
theorem multiply_correct {G : Type} [AddCommGroup G] [Module F G] (base : G) (enc : G → Bytes)
    (dec : Bytes → Option G) (hdec : ∀ P, dec (enc P) = some P) (Hn : Nat → Bytes → Nat)
    (hr : ReprOK repr) (h : OTHash F) (hchi : ChiOK h) (hn : (h.noise noiseLen).length = noiseLen)
    (b : F) (delta : Nat) (hd : delta < 2 ^ otParam) (as : List F)
    (alpha alpha1 beta : F) (gamma extra : Nat) :
    ∃ ss rs shareS shareR,
      correSetup (lawfulGroup base enc dec) Hn 0 b delta as = some (ss, rs) ∧
      multiplyRun (lawful F repr) h ss rs alpha alpha1 beta gamma extra = some (shareS, shareR) ∧
      shareS + shareR = alpha * beta := by
  obtain ⟨ss, rs, h1, hrel⟩ := Mps.OT.corre_setup_rel base enc dec hdec Hn 0 b delta hd as
  obtain ⟨sS, sR, h2, h3⟩ :=
    Mps.OT.multiply_correct_of_setup repr hr h hchi hn ss rs hrel alpha alpha1 beta gamma extra
  exact ⟨ss, rs, sS, sR, h1, h2, h3⟩
end ring

/-- **The masking loops of `AdditiveOTReceiver.Round2` are in range for every batch.** The loop as
    it now stands takes its bound from pad `i` itself: for any number of pads, any pad lengths and
    every pad index of the batch it ends normally after masking exactly the bytes of pad `i`
    (`none` would be a Go index-out-of-range panic). So `additive_sum` — which is about the
    scalar-level function the loops compute when in range — applies to every batch size. -/
theorem additive_mask_loop_in_range (lens : List Nat) (i : Nat) (hi : i < lens.length) (fuel : Nat)
    (hf : lens[i] ≤ fuel) :
    maskLoopCoded lens i fuel 0 = some lens[i] :=
  Mps.OT.additive_mask_loop_in_range lens i hi fuel hf

/-- Witness of the defect repaired by /repo commit eab5a8f: the loop as it stood before (bound taken
    from pad number `j`, the byte counter) stayed in range on an honest message iff the batch had at
    least 33 pads; every smaller honest batch panicked. -/
theorem additive_mask_loop_range_old (n i : Nat) (hi : i < n) :
    maskLoopCodedOld (List.replicate n 32) i 64 0 = if 33 ≤ n then some 32 else none :=
  Mps.OT.additive_mask_loop_range_old n i hi

/-! ### 5. a message altered in one field -/

section domain
variable {F : Type} [CommRing F] [IsDomain F] [DecidableEq F] (repr : F → Nat)

/-- The honest sender's message reaches the receiver with ONE field changed: the value of one
    component of one combined pad, of one entry of RCheck, or of UCheck (any new value), or the
    LENGTH of CombinedPads or of RCheck (truncated, extended, any other vector). Then the receiver's
    second round ends in an error ("malformed message" / "incorrect batch size" / "integrity check
    failed") or returns exactly the share of the unaltered run — so the two outputs still add up to
    α·β. Needs only χ₀ ≠ 0. -/
theorem multiply_single_alteration (h : OTHash F) (hchi : ChiOK h) (ss : CorreSendSetup)
    (rs : CorreRecvSetup) (hrel : SetupRel ss rs) (alpha alpha1 beta : F) (gamma extra : Nat)
    (hchi0 : (h.mchi (mulReceiverRound1 (lawful F repr) h rs beta gamma extra).2.1.U).1 ≠ 0) :
    let r1 := mulReceiverRound1 (lawful F repr) h rs beta gamma extra
    ∃ m shareS, mulSenderRound1 (lawful F repr) h ss (alpha, alpha1) r1.2.1 = some (m, shareS) ∧
      ∀ m', SingleAlt m m' →
        mulReceiverRound2 (lawful F repr) h r1.1 r1.2.1.U r1.2.2 m' = none ∨
        mulReceiverRound2 (lawful F repr) h r1.1 r1.2.1.U r1.2.2 m'
          = mulReceiverRound2 (lawful F repr) h r1.1 r1.2.1.U r1.2.2 m :=
  Mps.OT.multiply_single_alteration_run repr h hchi ss rs hrel alpha alpha1 beta gamma extra hchi0
end domain

/-! ### 6. Obligations over the tables regenerated from the source (the translator tie) -/

set_option maxRecDepth 65536

/-- the constants the model fixes are the ones of internal/params -/
theorem gen_params :
    "OTParam = 128" ∈ MpsGen.OT.params ∧ "OTBytes = OTParam / 8" ∈ MpsGen.OT.params ∧
    "StatParam = 80" ∈ MpsGen.OT.params ∧
    otParam = 128 ∧ otBytes = otParam / 8 ∧ statParam = 80 ∧ gadgetLen = 672 ∧ inflate gadgetLen = 880 := by
  decide

-- BEGIN statement tables (bin/c13-bless rewrites this block after a REVIEWED source change)
/-- `fieldElement` is 2·OTBytes/8 = 4 words: the 256-bit scratch of `accumulate` -/
theorem gen_extConsts : MpsGen.OT.extConsts = [
    "fieldElementLen = 2 * params.OTBytes / 8" ] := by decide

/-- `bitAt` as transcribed by `bitAtBytes` -/
theorem gen_bitAt : MpsGen.OT.bitAt = [
    "return (data[i>>3] >> (i & 0b111)) & 1" ] := by decide

/-- `transposeBits` as transcribed by `transposeRow` / `transposeBits` -/
theorem gen_transposeBits : MpsGen.OT.transposeBits = [
    "MT := make([][params.OTBytes]byte, l)",
    "for i := 0; i < l; i++ {",
    "for j := 0; j < params.OTParam; j++ {",
    "MT[i][j>>3] |= bitAt(i, M[j]) << (j & 0b111)",
    "}",
    "}",
    "return MT" ] := by decide

/-- `shl1`: a 4-word left shift by one (`Mps.OT.shl1`) -/
theorem gen_shl1 : MpsGen.OT.shl1 = [
    "for i := fieldElementLen - 1; i > 0; i-- {",
    "f[i] = (f[i] << 1) | (f[i-1] >> 63)",
    "}",
    "f[0] <<= 1" ] := by decide

/-- `accumulate`: the loop transcribed by `accStep` / `accLoop` / `accumulate` -/
theorem gen_accumulate : MpsGen.OT.accumulate = [
    "var b64 [params.OTBytes / 8]uint64",
    "for i := 0; i < len(b64); i++ {",
    "b64[i] = binary.LittleEndian.Uint64(b[8*i : 8*(i+1)])",
    "}",
    "var a64 [params.OTBytes / 8]uint64",
    "for i := 0; i < len(a64); i++ {",
    "a64[i] = binary.LittleEndian.Uint64(a[8*i : 8*(i+1)])",
    "}",
    "var scratch fieldElement",
    "for i := 0; i < fieldElementLen; i++ {",
    "scratch[i] = 0",
    "}",
    "for i := 63; i >= 0; i-- {",
    "for j := 0; j < len(b64); j++ {",
    "mask := -((a64[j] >> i) & 1)",
    "for k := 0; k < len(b64); k++ {",
    "scratch[j+k] ^= mask & b64[k]",
    "}",
    "}",
    "if i != 0 {",
    "scratch.shl1()",
    "}",
    "}",
    "for i := 0; i < fieldElementLen; i++ {",
    "f[i] ^= scratch[i]",
    "}" ] := by decide

/-- the statements of the Go function the model transcribes -/
theorem gen_rotSetupSend : MpsGen.OT.rotSetupSend = [
    "b := sample.Scalar(rand.Reader, group)",
    "B := b.ActOnBase()",
    "BProof := zksch.NewProof(hash, B, b, nil)",
    "return &RandomOTSetupSendMessage{B: B, BProof: BProof}, &RandomOTSendSetup{_B: B, b: b, _bB: b.Act(B)}" ] := by decide

/-- the statements of the Go function the model transcribes -/
theorem gen_rotRecvRound1 : MpsGen.OT.rotRecvRound1 = [
    "a := sample.Scalar(rand.Reader, r.group)",
    "A := a.ActOnBase()",
    "outMsg.ABytes, err = A.MarshalBinary()",
    "if err != nil {",
    "return",
    "}",
    "A = A.Add(r._B)",
    "_APlusBBytes, err := A.MarshalBinary()",
    "if err != nil {",
    "return outMsg, err",
    "}",
    "mask := -byte(r.choice)",
    "for i := 0; i < len(outMsg.ABytes) && i < len(_APlusBBytes); i++ {",
    "outMsg.ABytes[i] ^= (mask & (outMsg.ABytes[i] ^ _APlusBBytes[i]))",
    "}",
    "abBytes, err := a.Act(r._B).MarshalBinary()",
    "if err != nil {",
    "return outMsg, err",
    "}",
    "_, _ = r.hash.Write(abBytes)",
    "_, _ = r.hash.Digest().Read(r.randChoice[:])",
    "return" ] := by decide

/-- the statements of the Go function the model transcribes -/
theorem gen_rotRecvRound2 : MpsGen.OT.rotRecvRound2 = [
    "r.receivedChallenge = msg.Challenge",
    "r.hash.Reset()",
    "_, _ = r.hash.Write(r.randChoice[:])",
    "_, _ = r.hash.Digest().Read(outMsg.Response[:])",
    "r.hash.Reset()",
    "_, _ = r.hash.Write(outMsg.Response[:])",
    "_, _ = r.hash.Digest().Read(outMsg.Response[:])",
    "copy(r.hh_randChoice[:], outMsg.Response[:])",
    "mask := -byte(r.choice)",
    "for i := 0; i < len(msg.Challenge); i++ {",
    "outMsg.Response[i] ^= mask & msg.Challenge[i]",
    "}",
    "return" ] := by decide

/-- the statements of the Go function the model transcribes -/
theorem gen_rotRecvRound3 : MpsGen.OT.rotRecvRound3 = [
    "var actualChallenge, h_decommit0, h_decommit1 [params.OTBytes]byte",
    "r.hash.Reset()",
    "_, _ = r.hash.Write(msg.Decommit0[:])",
    "_, _ = r.hash.Digest().Read(h_decommit0[:])",
    "r.hash.Reset()",
    "_, _ = r.hash.Write(msg.Decommit1[:])",
    "_, _ = r.hash.Digest().Read(h_decommit1[:])",
    "for i := 0; i < params.OTBytes; i++ {",
    "actualChallenge[i] = h_decommit0[i] ^ h_decommit1[i]",
    "}",
    "if subtle.ConstantTimeCompare(r.receivedChallenge[:], actualChallenge[:]) != 1 {",
    "return r.randChoice, fmt.Errorf(\"RandomOTReceive Round 3: incorrect decommitment\")",
    "}",
    "h_decommitChoice := h_decommit0",
    "mask := -byte(r.choice)",
    "for i := 0; i < params.OTBytes; i++ {",
    "h_decommitChoice[i] ^= mask & (h_decommitChoice[i] ^ h_decommit1[i])",
    "}",
    "if subtle.ConstantTimeCompare(h_decommitChoice[:], r.hh_randChoice[:]) != 1 {",
    "return r.randChoice, fmt.Errorf(\"RandomOTReceive Round 3: incorrect decommitment\")",
    "}",
    "return r.randChoice, nil" ] := by decide

/-- the statements of the Go function the model transcribes -/
theorem gen_rotSendRound1 : MpsGen.OT.rotSendRound1 = [
    "_A := r.group.NewPoint()",
    "if err = _A.UnmarshalBinary(msg.ABytes); err != nil {",
    "return",
    "}",
    "bA := r.b.Act(_A)",
    "r.hash.Reset()",
    "bABytes, err := bA.MarshalBinary()",
    "if err != nil {",
    "return outMsg, err",
    "}",
    "_, _ = r.hash.Write(bABytes)",
    "_, _ = r.hash.Digest().Read(r.rand0[:])",
    "r.hash.Reset()",
    "bAMinusBBytes, err := bA.Sub(r._bB).MarshalBinary()",
    "if err != nil {",
    "return outMsg, err",
    "}",
    "_, _ = r.hash.Write(bAMinusBBytes)",
    "_, _ = r.hash.Digest().Read(r.rand1[:])",
    "r.hash.Reset()",
    "_, _ = r.hash.Write(r.rand0[:])",
    "_, _ = r.hash.Digest().Read(r.decommit0[:])",
    "r.hash.Reset()",
    "_, _ = r.hash.Write(r.rand1[:])",
    "_, _ = r.hash.Digest().Read(r.decommit1[:])",
    "r.hash.Reset()",
    "_, _ = r.hash.Write(r.decommit0[:])",
    "_, _ = r.hash.Digest().Read(r.h_decommit0[:])",
    "r.hash.Reset()",
    "_, _ = r.hash.Write(r.decommit1[:])",
    "_, _ = r.hash.Digest().Read(outMsg.Challenge[:])",
    "for i := 0; i < params.OTBytes; i++ {",
    "outMsg.Challenge[i] ^= r.h_decommit0[i]",
    "}",
    "return" ] := by decide

/-- the statements of the Go function the model transcribes -/
theorem gen_rotSendRound2 : MpsGen.OT.rotSendRound2 = [
    "if subtle.ConstantTimeCompare(msg.Response[:], r.h_decommit0[:]) != 1 {",
    "return outMsg, res, fmt.Errorf(\"RandomOTSender Round2: invalid response\")",
    "}",
    "outMsg.Decommit0 = r.decommit0",
    "outMsg.Decommit1 = r.decommit1",
    "res.Rand0 = r.rand0",
    "res.Rand1 = r.rand1",
    "return" ] := by decide

/-- the statements of the Go function the model transcribes -/
theorem gen_correSetupSenderRound1 : MpsGen.OT.correSetupSenderRound1 = [
    "var err error",
    "r.setup, err = RandomOTSetupReceive(r.hash, &msg.Msg)",
    "if err != nil {",
    "return nil, err",
    "}",
    "_, _ = rand.Read(r._Delta[:])",
    "randomOTNonces := r.hash.Fork(&hash.BytesWithDomain{ TheDomain: \"CorreOT Random OT Nonces\", Bytes: nil, }).Digest()",
    "for i := 0; i < params.OTParam; i++ {",
    "choice := saferith.Choice(bitAt(i, r._Delta[:]))",
    "nonce := make([]byte, 32)",
    "_, _ = randomOTNonces.Read(nonce)",
    "r.randomOTReceivers[i] = NewRandomOTReceiver(nonce, r.setup, choice)",
    "}",
    "outMsg := new(CorreOTSetupSendRound1Message)",
    "errors := r.pl.Parallelize(params.OTParam, func(i int) interface{} { var err error outMsg.Msgs[i], err = r.randomOTReceivers[i].Round1() return err })",
    "for _, err := range errors {",
    "if err != nil {",
    "return outMsg, err.(error)",
    "}",
    "}",
    "return outMsg, nil" ] := by decide

/-- the statements of the Go function the model transcribes -/
theorem gen_correSetupSenderRound3 : MpsGen.OT.correSetupSenderRound3 = [
    "setup := new(CorreOTSendSetup)",
    "setup._Delta = r._Delta",
    "var err error",
    "for i := 0; i < params.OTParam; i++ {",
    "setup._K_Delta[i], err = r.randomOTReceivers[i].Round3(&msg.Msgs[i])",
    "if err != nil {",
    "return nil, err",
    "}",
    "}",
    "return setup, nil" ] := by decide

/-- the statements of the Go function the model transcribes -/
theorem gen_correSetupReceiverRound3 : MpsGen.OT.correSetupReceiverRound3 = [
    "outMsg := new(CorreOTSetupReceiveRound3Message)",
    "setup := new(CorreOTReceiveSetup)",
    "for i := 0; i < params.OTParam; i++ {",
    "msgsi, resultsi, err := r.randomOTSenders[i].Round2(&msg.Msgs[i])",
    "if err != nil {",
    "return nil, nil, err",
    "}",
    "outMsg.Msgs[i] = msgsi",
    "setup._K_0[i] = resultsi.Rand0",
    "setup._K_1[i] = resultsi.Rand1",
    "}",
    "return outMsg, setup, nil" ] := by decide

/-- the statements of the Go function the model transcribes -/
theorem gen_correSend : MpsGen.OT.correSend = [
    "batchSizeBytes := batchSize >> 3",
    "if msg == nil {",
    "return nil, errors.New(\"CorreOTSend: missing message\")",
    "}",
    "prgKey := make([]byte, 32)",
    "_, _ = ctxHash.Fork(&hash.BytesWithDomain{TheDomain: \"CorreOT PRG Key\", Bytes: nil}).Digest().Read(prgKey)",
    "prg, _ := blake3.NewKeyed(prgKey)",
    "var Q [params.OTParam][]byte",
    "for i := 0; i < params.OTParam; i++ {",
    "if len(msg.U[i]) != batchSizeBytes {",
    "return nil, errors.New(\"CorreOTSend: incorrect batch size in message\")",
    "}",
    "prg.Reset()",
    "_, _ = prg.Write(setup._K_Delta[i][:])",
    "Q[i] = make([]byte, batchSizeBytes)",
    "_, _ = prg.Digest().Read(Q[i])",
    "mask := -bitAt(i, setup._Delta[:])",
    "for j := 0; j < batchSizeBytes; j++ {",
    "Q[i][j] ^= mask & msg.U[i][j]",
    "}",
    "}",
    "return &CorreOTSendResult{_U: msg.U, _Q: transposeBits(batchSize, &Q)}, nil" ] := by decide

/-- the statements of the Go function the model transcribes -/
theorem gen_correReceive : MpsGen.OT.correReceive = [
    "batchSizeBytes := len(choices)",
    "prgKey := make([]byte, 32)",
    "_, _ = ctxHash.Fork(&hash.BytesWithDomain{TheDomain: \"CorreOT PRG Key\", Bytes: nil}).Digest().Read(prgKey)",
    "prg, _ := blake3.NewKeyed(prgKey)",
    "outMsg := new(CorreOTReceiveMessage)",
    "var T0, T1 [params.OTParam][]byte",
    "for i := 0; i < params.OTParam; i++ {",
    "prg.Reset()",
    "_, _ = prg.Write(setup._K_0[i][:])",
    "T0[i] = make([]byte, batchSizeBytes)",
    "_, _ = prg.Digest().Read(T0[i])",
    "prg.Reset()",
    "_, _ = prg.Write(setup._K_1[i][:])",
    "T1[i] = make([]byte, batchSizeBytes)",
    "_, _ = prg.Digest().Read(T1[i])",
    "outMsg.U[i] = make([]byte, batchSizeBytes)",
    "for j := 0; j < batchSizeBytes; j++ {",
    "outMsg.U[i][j] = T0[i][j] ^ T1[i][j] ^ choices[j]",
    "}",
    "}",
    "return outMsg, &CorreOTReceiveResult{_T: transposeBits(8*batchSizeBytes, &T0)}" ] := by decide

/-- the statements of the Go function the model transcribes -/
theorem gen_extSend : MpsGen.OT.extSend = [
    "inflatedBatchSize := batchSize + params.OTParam + params.StatParam",
    "if msg == nil || msg.CorreMsg == nil {",
    "return nil, fmt.Errorf(\"ExtendedOTSend: nil message\")",
    "}",
    "correResult, err := CorreOTSend(ctxHash, setup, inflatedBatchSize, msg.CorreMsg)",
    "if err != nil {",
    "return nil, err",
    "}",
    "for i := 0; i < params.OTParam; i++ {",
    "ctxHash.WriteAny(correResult._U[i])",
    "}",
    "chi := make([][params.OTBytes]byte, inflatedBatchSize)",
    "digest := ctxHash.Digest()",
    "for i := 0; i < len(chi); i++ {",
    "_, _ = digest.Read(chi[i][:])",
    "}",
    "var q fieldElement",
    "for i := 0; i < len(chi); i++ {",
    "q.accumulate(&correResult._Q[i], &chi[i])",
    "}",
    "q.accumulate(&msg.X, &setup._Delta)",
    "if !q.eq(&msg.T) {",
    "return nil, fmt.Errorf(\"ExtendedOTSend: monochrome check failed\")",
    "}",
    "V0 := make([][params.OTBytes]byte, batchSize)",
    "V1 := make([][params.OTBytes]byte, batchSize)",
    "hasher := blake3.New()",
    "ctr := make([]byte, 4)",
    "for i := 0; i < batchSize; i++ {",
    "binary.BigEndian.PutUint32(ctr, uint32(i))",
    "hasher.Reset()",
    "hasher.Write(ctr)",
    "hasher.Write(correResult._Q[i][:])",
    "hasher.Digest().Read(V0[i][:])",
    "for j := 0; j < params.OTBytes; j++ {",
    "correResult._Q[i][j] ^= setup._Delta[j]",
    "}",
    "hasher.Reset()",
    "hasher.Write(ctr)",
    "hasher.Write(correResult._Q[i][:])",
    "hasher.Digest().Read(V1[i][:])",
    "}",
    "return &ExtendedOTSendResult{_V0: V0, _V1: V1}, nil" ] := by decide

/-- the statements of the Go function the model transcribes -/
theorem gen_extReceive : MpsGen.OT.extReceive = [
    "inflatedBatchSize := 8*len(choices) + params.OTParam + params.StatParam",
    "extraChoices := make([]byte, inflatedBatchSize/8)",
    "copy(extraChoices, choices)",
    "_, _ = rand.Read(extraChoices[len(choices):])",
    "correMsg, correResult := CorreOTReceive(ctxHash, setup, extraChoices)",
    "for i := 0; i < params.OTParam; i++ {",
    "ctxHash.WriteAny(correMsg.U[i])",
    "}",
    "outMsg := new(ExtendedOTReceiveMessage)",
    "outMsg.CorreMsg = correMsg",
    "chi := make([][params.OTBytes]byte, inflatedBatchSize)",
    "digest := ctxHash.Digest()",
    "for i := 0; i < len(chi); i++ {",
    "_, _ = digest.Read(chi[i][:])",
    "}",
    "for i := 0; i < len(chi); i++ {",
    "mask := -bitAt(i, extraChoices)",
    "for j := 0; j < params.OTBytes; j++ {",
    "outMsg.X[j] ^= mask & chi[i][j]",
    "}",
    "}",
    "for i := 0; i < len(chi) && i < len(correResult._T); i++ {",
    "outMsg.T.accumulate(&correResult._T[i], &chi[i])",
    "}",
    "VChoices := make([][params.OTBytes]byte, 8*len(choices))",
    "hasher := blake3.New()",
    "ctr := make([]byte, 4)",
    "for i := 0; i < len(VChoices); i++ {",
    "hasher.Reset()",
    "binary.BigEndian.PutUint32(ctr, uint32(i))",
    "_, _ = hasher.Write(ctr)",
    "_, _ = hasher.Write(correResult._T[i][:])",
    "_, _ = hasher.Digest().Read(VChoices[i][:])",
    "}",
    "return outMsg, &ExtendedOTReceiveResult{_VChoices: VChoices}" ] := by decide

/-- the statements of the Go function the model transcribes -/
theorem gen_additiveSend : MpsGen.OT.additiveSend = [
    "if msg == nil || msg.Msg == nil {",
    "return nil, nil, errors.New(\"AdditiveOTSender Round1: nil message\")",
    "}",
    "extendedResult, err := ExtendedOTSend(r.ctxHash, r.setup, r.batchSize, msg.Msg)",
    "if err != nil {",
    "return nil, nil, err",
    "}",
    "prg := blake3.New()",
    "outMsg := new(AdditiveOTSendRound1Message)",
    "outMsg.CombinedPads = make([][2][]byte, r.batchSize)",
    "result := make([][2]curve.Scalar, r.batchSize)",
    "var combinedPads [2]curve.Scalar",
    "for i := 0; i < r.batchSize; i++ {",
    "prg.Reset()",
    "_, _ = prg.Write(extendedResult._V0[i][:])",
    "digest := prg.Digest()",
    "result[i][0] = sample.Scalar(digest, r.group)",
    "result[i][1] = sample.Scalar(digest, r.group)",
    "prg.Reset()",
    "_, _ = prg.Write(extendedResult._V1[i][:])",
    "digest = prg.Digest()",
    "combinedPads[0] = sample.Scalar(digest, r.group)",
    "combinedPads[1] = sample.Scalar(digest, r.group)",
    "combinedPads[0].Sub(result[i][0]).Add(r.alpha[0])",
    "combinedPads[1].Sub(result[i][1]).Add(r.alpha[1])",
    "var err error",
    "outMsg.CombinedPads[i][0], err = combinedPads[0].MarshalBinary()",
    "if err != nil {",
    "return nil, nil, err",
    "}",
    "outMsg.CombinedPads[i][1], err = combinedPads[1].MarshalBinary()",
    "if err != nil {",
    "return nil, nil, err",
    "}",
    "}",
    "return outMsg, result, nil" ] := by decide

/-- the statements of the Go function the model transcribes -/
theorem gen_additiveRecv : MpsGen.OT.additiveRecv = [
    "batchSize := 8 * len(r.choices)",
    "if msg == nil || len(msg.CombinedPads) != batchSize {",
    "return nil, errors.New(\"AdditiveOTReceiver Round2: incorrect batch size in message\")",
    "}",
    "result := make([][2]curve.Scalar, batchSize)",
    "prg := blake3.New()",
    "for i := 0; i < batchSize; i++ {",
    "mask := -bitAt(i, r.choices)",
    "prg.Reset()",
    "_, _ = prg.Write(r.result._VChoices[i][:])",
    "digest := prg.Digest()",
    "result[i][0] = sample.Scalar(digest, r.group).Negate()",
    "result[i][1] = sample.Scalar(digest, r.group).Negate()",
    "for j := 0; j < len(msg.CombinedPads[i][0]); j++ {",
    "msg.CombinedPads[i][0][j] &= mask",
    "}",
    "for j := 0; j < len(msg.CombinedPads[i][1]); j++ {",
    "msg.CombinedPads[i][1][j] &= mask",
    "}",
    "combinedPad0 := r.group.NewScalar()",
    "if err := combinedPad0.UnmarshalBinary(msg.CombinedPads[i][0]); err != nil {",
    "return nil, err",
    "}",
    "combinedPad1 := r.group.NewScalar()",
    "if err := combinedPad1.UnmarshalBinary(msg.CombinedPads[i][1]); err != nil {",
    "return nil, err",
    "}",
    "result[i][0].Add(combinedPad0)",
    "result[i][1].Add(combinedPad1)",
    "}",
    "return result, nil" ] := by decide

/-- the statements of the Go function the model transcribes -/
theorem gen_scalarBytes : MpsGen.OT.scalarBytes = [
    "return (group.ScalarBits() + 7) & ^0b111" ] := by decide

/-- the statements of the Go function the model transcribes -/
theorem gen_encode : MpsGen.OT.encode = [
    "group := beta.Curve()",
    "gamma := make([]byte, len(noise)/8)",
    "_, _ = rand.Read(gamma)",
    "acc := group.NewScalar().Set(beta)",
    "mulNat := new(saferith.Nat)",
    "mul := group.NewScalar()",
    "for i := 0; i < len(noise); i++ {",
    "mulNat.SetUint64(uint64((gamma[i>>3] >> (i & 0b111)) & 1))",
    "acc.Sub(mul.SetNat(mulNat).Mul(noise[i]))",
    "}",
    "data, err := acc.MarshalBinary()",
    "if err != nil {",
    "return nil, err",
    "}",
    "data = append(data, gamma...)",
    "return data, nil" ] := by decide

/-- the statements of the Go function the model transcribes -/
theorem gen_makeGadget : MpsGen.OT.makeGadget = [
    "scalarEnd := scalarBytes(group)",
    "out := make([]curve.Scalar, 8*((group.ScalarBits()+7)/8+(group.ScalarBits()+2*params.StatParam+7)/8))",
    "acc := group.NewScalar().SetNat(new(saferith.Nat).SetUint64(1))",
    "for i := (scalarEnd >> 3) - 1; i >= 0; i-- {",
    "for j := 0; j < 8; j++ {",
    "out[(i<<3)|j] = group.NewScalar().Set(acc)",
    "acc.Add(acc)",
    "}",
    "}",
    "digest := ctxHash.Fork(&hash.BytesWithDomain{TheDomain: \"Multiply Gadget Sampling\", Bytes: nil}).Digest()",
    "for i := scalarEnd; i < len(out); i++ {",
    "out[i] = sample.Scalar(digest, group)",
    "}",
    "return out" ] := by decide

/-- the statements of the Go function the model transcribes -/
theorem gen_newMultiplySender : MpsGen.OT.newMultiplySender = [
    "group := alpha.Curve()",
    "gadget := makeGadget(ctxHash, group)",
    "var doubleAlpha [2]curve.Scalar",
    "doubleAlpha[0] = alpha",
    "doubleAlpha[1] = sample.Scalar(rand.Reader, group)",
    "return &MultiplySender{ ctxHash: ctxHash, group: group, setup: setup, gadget: gadget, doubleAlpha: doubleAlpha, sender: NewAdditiveOTSender(ctxHash, setup, len(gadget), doubleAlpha), }" ] := by decide

/-- the statements of the Go function the model transcribes -/
theorem gen_newMultiplyReceiver : MpsGen.OT.newMultiplyReceiver = [
    "group := beta.Curve()",
    "gadget := makeGadget(ctxHash, group)",
    "choices, err := encode(beta, gadget[scalarBytes(group):])",
    "if err != nil {",
    "return nil, err",
    "}",
    "return &MultiplyReceiver{ ctxHash: ctxHash, group: group, setup: setup, beta: beta, gadget: gadget, choices: choices, receiver: NewAdditiveOTReceiver(ctxHash, setup, group, choices), }, nil" ] := by decide

/-- the statements of the Go function the model transcribes -/
theorem gen_mulSendRound1 : MpsGen.OT.mulSendRound1 = [
    "if msg == nil || msg.Msg == nil {",
    "return nil, nil, errors.New(\"multiply send round 1: nil message\")",
    "}",
    "additiveMsg, result, err := r.sender.Round1(msg.Msg)",
    "if err != nil {",
    "return nil, nil, err",
    "}",
    "digest := r.ctxHash.Fork(&hash.BytesWithDomain{TheDomain: \"Multiply Chi Sampling\", Bytes: nil}).Digest()",
    "chi0 := sample.Scalar(digest, r.group)",
    "chi1 := sample.Scalar(digest, r.group)",
    "mul := r.group.NewScalar()",
    "uCheck := r.group.NewScalar()",
    "uCheck.Add(mul.Set(r.doubleAlpha[0]).Mul(chi0))",
    "uCheck.Add(mul.Set(r.doubleAlpha[1]).Mul(chi1))",
    "rCheck := make([]curve.Scalar, len(result))",
    "for i := 0; i < len(rCheck); i++ {",
    "rCheck[i] = r.group.NewScalar()",
    "rCheck[i].Add(mul.Set(result[i][0]).Mul(chi0))",
    "rCheck[i].Add(mul.Set(result[i][1]).Mul(chi1))",
    "}",
    "share := r.group.NewScalar()",
    "for i := 0; i < len(result); i++ {",
    "share.Add(mul.Set(result[i][0]).Mul(r.gadget[i]))",
    "}",
    "return &MultiplySendRound1Message{ Msg: additiveMsg, RCheck: rCheck, UCheck: uCheck, }, share, nil" ] := by decide

/-- the statements of the Go function the model transcribes -/
theorem gen_mulRecvRound2 : MpsGen.OT.mulRecvRound2 = [
    "if msg == nil || msg.Msg == nil || msg.UCheck == nil || len(msg.RCheck) != len(r.gadget) {",
    "return nil, errors.New(\"multiply receive round 2: malformed message\")",
    "}",
    "for _, rc := range msg.RCheck {",
    "if rc == nil {",
    "return nil, errors.New(\"multiply receive round 2: malformed message\")",
    "}",
    "}",
    "result, err := r.receiver.Round2(msg.Msg)",
    "if err != nil {",
    "return nil, err",
    "}",
    "digest := r.ctxHash.Fork(&hash.BytesWithDomain{TheDomain: \"Multiply Chi Sampling\", Bytes: nil}).Digest()",
    "chi0 := sample.Scalar(digest, r.group)",
    "chi1 := sample.Scalar(digest, r.group)",
    "mul := r.group.NewScalar()",
    "checkLeft := r.group.NewScalar()",
    "checkRight := r.group.NewScalar()",
    "choiceNat := new(saferith.Nat)",
    "for i := 0; i < len(result); i++ {",
    "checkLeft.Set(result[i][0]).Mul(chi0)",
    "checkLeft.Add(mul.Set(result[i][1]).Mul(chi1))",
    "checkRight.SetNat(choiceNat.SetUint64(uint64((r.choices[i>>3] >> (i & 0b111)) & 1)))",
    "checkRight.Mul(msg.UCheck)",
    "checkRight.Sub(msg.RCheck[i])",
    "if !checkLeft.Equal(checkRight) {",
    "return nil, errors.New(\"multiply receive round 2: integrity check failed\")",
    "}",
    "}",
    "share := r.group.NewScalar()",
    "for i := 0; i < len(result); i++ {",
    "share.Add(mul.Set(result[i][0]).Mul(r.gadget[i]))",
    "}",
    "return share, nil" ] := by decide

/-- every fork of the context hash in package ot passes `Bytes: nil` (see `gen_bwdWriteTo`, `gen_fork`) -/
theorem gen_forkDomains : MpsGen.OT.forkDomains = [
    "hash.BytesWithDomain{ TheDomain: \"CorreOT Random OT Nonces\", Bytes: nil, }",
    "hash.BytesWithDomain{ TheDomain: \"CorreOT Random OT Nonces\", Bytes: nil, }",
    "hash.BytesWithDomain{TheDomain: \"CorreOT PRG Key\", Bytes: nil}",
    "hash.BytesWithDomain{TheDomain: \"CorreOT PRG Key\", Bytes: nil}",
    "hash.BytesWithDomain{TheDomain: \"Multiply Gadget Sampling\", Bytes: nil}",
    "hash.BytesWithDomain{TheDomain: \"Multiply Chi Sampling\", Bytes: nil}",
    "hash.BytesWithDomain{TheDomain: \"Multiply Chi Sampling\", Bytes: nil}" ] := by decide

/-- `BytesWithDomain.WriteTo` refuses nil bytes … -/
theorem gen_bwdWriteTo : MpsGen.OT.bwdWriteTo = [
    "if b.Bytes == nil {",
    "return 0, io.ErrUnexpectedEOF",
    "}",
    "n, err := w.Write(b.Bytes)",
    "return int64(n), err" ] := by decide

/-- … and `Fork` drops the error: the forks of package ot write nothing (`forkNilBytes` is the identity) -/
theorem gen_fork : MpsGen.OT.fork = [
    "newHash := hash.Clone()",
    "_ = newHash.WriteAny(data...)",
    "return newHash" ] := by decide

/-- the statements of the Go function the model transcribes -/
theorem gen_sampleScalar : MpsGen.OT.sampleScalar = [
    "buffer := make([]byte, group.SafeScalarBytes())",
    "mustReadBits(rand, buffer)",
    "n := new(saferith.Nat).SetBytes(buffer)",
    "return group.NewScalar().SetNat(n)" ] := by decide

/-- the statements of the Go function the model transcribes -/
theorem gen_schChallenge : MpsGen.OT.schChallenge = [
    "err = hash.WriteAny(commitment.C, public, gen)",
    "e = sample.Scalar(hash.Digest(), group)",
    "return" ] := by decide
-- END statement tables

/-! ### 7. Non-vacuity: concrete instances meeting the hypotheses -/

/-- the marshalling representative of a prime field -/
example : ReprOK (fun x : ZMod 3 => x.val) :=
  ⟨fun x => ZMod.natCast_zmod_val x, fun x => Nat.lt_of_lt_of_le (ZMod.val_lt x) (by decide)⟩

/-- a (constant) family of hash functions meeting `ChiOK` and the noise-length requirement -/
def trivialHash : OTHash (ZMod 3) :=
  { prg := fun _ _ => 0, chis := fun _ n => List.replicate n 1, pad := fun _ _ => 0,
    sc2 := fun _ => (1, 2), noise := fun n => List.replicate n 1, mchi := fun _ => (1, 1) }

example : ChiOK trivialHash := by
  intro U n i
  show (List.replicate n 1).getD i 0 < 2 ^ otParam
  rw [List.getD_eq_getElem?_getD]
  by_cases h : i < n
  · simp [h, otParam]
  · simp [h, otParam]

example : (trivialHash.noise noiseLen).length = noiseLen := by simp [trivialHash]

/-- a setup satisfying the setup relation -/
example : SetupRel { delta := 0, kDelta := [] } { k0 := [], k1 := [] } :=
  ⟨Nat.two_pow_pos _, fun i _ => by simp⟩

/-- a lawful group with an invertible encoding: the field as a module over itself -/
example : ∀ P : ZMod 3, (fun bs : Bytes => some ((bs.headD 0).toNat : ZMod 3)) ((fun x : ZMod 3 => [UInt8.ofNat x.val]) P) = some P := by
  decide

/-- the hypothesis χ₀ ≠ 0 of the alteration theorem is satisfiable -/
example : (trivialHash.mchi []).1 ≠ 0 := by decide

/-- the pad relation assumed by `additive_sum` is what `ext_ot_choice` establishes; directly: -/
example : ∀ i, i < 2 → ([5, 6] : List Nat).getD i 0 = if (2 : Nat).testBit i then ([7, 6] : List Nat).getD i 0 else ([5, 9] : List Nat).getD i 0 := by
  decide

/-- a single-field alteration -/
example : SingleAlt (F := ZMod 3) ⟨[(1, 2)], [1], 1⟩ ⟨[(1, 2)], [1], 2⟩ := SingleAlt.field (FieldAlt.ucheck 2 rfl)
example : SingleAlt (F := ZMod 3) ⟨[(1, 2)], [1], 1⟩ ⟨[(1, 2)], [], 1⟩ := SingleAlt.rcLen [] (by decide) rfl
example : (3 : Nat) < ([32, 31, 0, 40] : List Nat).length := by decide

/-- 128-bit vectors exist -/
example : (2 ^ 127 + 1 : Nat) < 2 ^ 128 := by decide

end Mps.C13
