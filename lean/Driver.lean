import Mps.Json
import Mps.Drv.Frame
import Mps.Drv.Handler
import Mps.Drv.Session
import Mps.Drv.TwoParty
import Mps.Drv.Sessions
import Mps.Drv.Alg
import Mps.Drv.Pool
import Mps.Drv.Paillier
import Mps.Drv.Sig
import Mps.Drv.Nonce
import Mps.Drv.OT
import Mps.Drv.ZK
import Mps.Drv.Start
import Mps.Drv.Malform
import Mps.Drv.Codec
/-
  mpsdriver: reads the harness' JSON lines on stdin, answers one line per operation with what
  the MODEL says: {"id":N,"model":{...}}. Core-only (no Mathlib below this file).
-/
open Lean Mps

structure DState where
  handler : Mps.Drv.Handler.Store := []
  twoparty : Mps.Drv.TwoParty.Store2 := []

def dispatch (st : DState) (suite op : String) (inp : Json) : DState × Json :=
  match suite with
  | "frame" => (st, Mps.Drv.Frame.handle op inp)
  | "twoparty" | "twopartyconc" => let (h, j) := Mps.Drv.TwoParty.handle st.twoparty op inp; ({ st with twoparty := h }, j)
  | "sess-deviate" | "sess-impersonate" | "sess-equivocate" | "sess-keygen" | "sess-sign" | "sess-refresh" | "sess-derive" | "sess-tamper" | "sess-presign-abort" => (st, Mps.Drv.Sessions.handle op inp)
  | "alg" | "algfind" => (st, Mps.Drv.Alg.handle op inp)
  | "pool" => (st, Mps.Drv.Pool.handle op inp)
  | "paillier" => (st, Mps.Drv.Paillier.handle op inp)
  | "sig" => (st, Mps.Drv.Sig.handle op inp)
  | "nonce" => (st, Mps.Drv.Nonce.handle op inp)
  | "ot" => (st, Mps.Drv.OT.handle op inp)
  | "zk" => (st, Mps.Drv.ZK.handle op inp)
  | "start" => (st, Mps.Drv.Start.handle op inp)
  | "malform" => (st, Mps.Drv.Malform.handle op inp)
  | "codec" | "cmptree" => (st, Mps.Drv.Codec.handle op inp)
  | "session" => (st, Mps.Drv.Session.handle op inp)
  | "handler" | "handlerconc" => let (h, j) := Mps.Drv.Handler.handle st.handler op inp; ({ st with handler := h }, j)
  | _ => (st, jobj [("error", "unknown suite")])

def statelessSuites : List String :=
  ["zk", "frame", "session", "sig", "nonce", "alg", "algfind", "paillier", "ot", "pool",
   "start", "malform", "codec", "cmptree",
   "sess-deviate", "sess-impersonate", "sess-equivocate", "sess-keygen", "sess-sign", "sess-refresh", "sess-derive", "sess-tamper", "sess-presign-abort"]

def flush (hout : IO.FS.Stream) (pending : Array (Task String)) : IO Unit := do
  for t in pending do
    hout.putStrLn t.get

partial def loop (hin : IO.FS.Stream) (hout : IO.FS.Stream) (st : DState) (pending : Array (Task String)) : IO Unit := do
  let line ← hin.getLine
  if line.isEmpty then
    flush hout pending
    return ()
  match Json.parse line with
  | .error e =>
    flush hout pending
    hout.putStrLn (jobj [("id", (0 : Nat)), ("error", e)]).compress
    loop hin hout st #[]
  | .ok j =>
    let id := jget j "id"
    let suite := jstr j "suite"
    if statelessSuites.contains suite then
      let t := Task.spawn fun _ =>
        (Json.mkObj [("id", id), ("model", (dispatch {} suite (jstr j "op") (jget j "in")).2)]).compress
      let pending := pending.push t
      if pending.size ≥ 512 then
        flush hout pending
        loop hin hout st #[]
      else
        loop hin hout st pending
    else
      flush hout pending
      let (st', out) := dispatch st suite (jstr j "op") (jget j "in")
      hout.putStrLn (Json.mkObj [("id", id), ("model", out)]).compress
      loop hin hout st' #[]

def main : IO Unit := do
  let hin ← IO.getStdin
  let hout ← IO.getStdout
  loop hin hout {} #[]
