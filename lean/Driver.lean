import Mps.Json
import Mps.Drv.Frame
/-
  mpsdriver: reads the harness' JSON lines on stdin, answers one line per operation with what
  the MODEL says: {"id":N,"model":{...}}. Core-only (no Mathlib below this file).
-/
open Lean Mps

def dispatch (suite op : String) (inp : Json) : Json :=
  match suite with
  | "frame" => Mps.Drv.Frame.handle op inp
  | _ => jobj [("error", "unknown suite")]

partial def loop (hin : IO.FS.Stream) (hout : IO.FS.Stream) : IO Unit := do
  let line ← hin.getLine
  if line.isEmpty then return ()
  match Json.parse line with
  | .error e => hout.putStrLn (jobj [("id", (0 : Nat)), ("error", e)]).compress
  | .ok j =>
    let id := jget j "id"
    let out := dispatch (jstr j "suite") (jstr j "op") (jget j "in")
    hout.putStrLn (Json.mkObj [("id", id), ("model", out)]).compress
  loop hin hout

def main : IO Unit := do
  let hin ← IO.getStdin
  let hout ← IO.getStdout
  loop hin hout
