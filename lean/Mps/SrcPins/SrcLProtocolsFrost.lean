-- written by bin/mkroundpins from /repo at commit 472862f
namespace Mps.SrcPins.SrcLProtocolsFrost
def f_frost : List String := [
  "decl:Config,TaprootConfig,Signature 2bdbfabaec0c9ccfcea1b144",
  "EmptyConfig fdfda0fed6fe67923efe4b9b",
  "Keygen 6da6a5ea2ba699299366207c",
  "KeygenTaproot 1b252dcc8709ed4dd6bb7d7c",
  "Refresh 9eaad839af63a4d734348c6f",
  "RefreshTaproot ee60044cb5c62d5edbdb7623",
  "Sign 9b43145ff68e45c279020a0e",
  "SignTaproot 280372eb482426e48e44fc0f"
]
def files : List String := [
  "f_frost"
]
end Mps.SrcPins.SrcLProtocolsFrost
