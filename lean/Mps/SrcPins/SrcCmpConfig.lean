-- written by bin/mkroundpins from /repo at commit 472862f
namespace Mps.SrcPins.SrcCmpConfig
def f_config : List String := [
  "decl:Config 4f08f0ce72c11bef7bbb45b0",
  "decl:Public 7fe6167e0137ebbd83269513",
  "Config.PublicPoint e7d7d366b2a1a2f3e7b3b9d8",
  "Config.PartyIDs f0c701ced4e851196611d5ad",
  "Config.WriteTo c2c85331c4daeac114a6f689",
  "Config.Domain 0d16d5afe371904232433059",
  "Public.Domain bc8ff991ce196b18e4798fb8",
  "Public.WriteTo 82ef8572ec904634cb420d9f",
  "Config.CanSign c0050a26868e86275f5464dc",
  "Config.Validate 731797aa89d00a94729dfc30",
  "ValidThreshold 6cdf5bcf97f622bc4b7f6e3f",
  "Config.Derive 44a17e0c6e5a0103deafc2a8",
  "Config.DeriveBIP32 1038dd576df162ac9191ad91"
]
def f_marshal : List String := [
  "EmptyConfig 06413cf3d0ddeccc18f435ec",
  "decl:configMarshal 6305859b4846f5447fd2fecc",
  "decl:publicMarshal 754ae23ae1cd430a70a2656a",
  "Config.MarshalBinary 26c583509bf8874b8877c224",
  "Config.UnmarshalCBOR 19acd9476d9548ee1415358e",
  "Config.UnmarshalBinary 7b06723f8bb4f6e7a9102477"
]
def files : List String := [
  "f_config",
  "f_marshal"
]
end Mps.SrcPins.SrcCmpConfig
