-- written by bin/mkroundpins from /repo at commit 472862f
namespace Mps.SrcPins.SrcLPkgZkAffp
def f_affp : List String := [
  "decl:Public 157dea4b9a9879c424dc25f1",
  "decl:Private ccb8cab4900b6f79d82a2d10",
  "decl:Commitment 5f3d37ec5c5e7a47fea0255e",
  "decl:Proof f60b209db938d6f93659eee2",
  "Proof.IsValid ba201396de5460da8c1adbfe",
  "NewProof be65b5ec060dff57b89dedc8",
  "Proof.Verify f5d65c6fa170f4c7264420c5",
  "challenge 1e198db75b5d4efd2e89ae4f"
]
def files : List String := [
  "f_affp"
]
end Mps.SrcPins.SrcLPkgZkAffp
