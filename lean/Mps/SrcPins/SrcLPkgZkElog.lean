-- written by bin/mkroundpins from /repo at commit 472862f
namespace Mps.SrcPins.SrcLPkgZkElog
def f_elog : List String := [
  "decl:Public 10e6100cb1a6198c10c6cd7f",
  "decl:Private c4f59d98bd69e8ac2b574a3f",
  "decl:Commitment c2a5bdea357913b747409c94",
  "decl:Proof 5af4cb1c801b64b58694d96a",
  "Proof.IsValid 503e5f71353d33fc84ee2ff5",
  "NewProof 6aeebc7a2c15daa9c955b873",
  "Proof.Verify faa4622377a109aea1774e3e",
  "challenge a2085d4b5a655b315fa6a7dd",
  "Empty 695a1cca6fa9d59344b53f83"
]
def files : List String := [
  "f_elog"
]
end Mps.SrcPins.SrcLPkgZkElog
