-- written by bin/mkroundpins from /repo at commit 472862f
namespace Mps.SrcPins.SrcLPkgZkDec
def f_dec : List String := [
  "decl:Public 886f34b8ca7bba527e60d4a2",
  "decl:Private 835e6d7c8f2f8c6ffc6d0e82",
  "decl:Commitment 5b92dd9bc447d945424de60f",
  "decl:Proof b46540be5cf8ec7244202e6e",
  "Proof.IsValid 7489a09869fbb0fff8a1e46d",
  "NewProof 13eff399f771a0207f79132b",
  "Proof.Verify c016630d6fa3ec8cab16db0e",
  "challenge 3c61b8a2d97fc5c32dfd41cb",
  "Empty 2e2fde9139eb803ad78951dd"
]
def files : List String := [
  "f_dec"
]
end Mps.SrcPins.SrcLPkgZkDec
