-- written by bin/mkroundpins from /repo at commit 472862f
namespace Mps.SrcPins.SrcLPkgPaillier
def f_ciphertext : List String := [
  "decl:Ciphertext 5a140a90323d17933134927f",
  "Ciphertext.Add 1ca1973ed641d62a7da8f64a",
  "Ciphertext.Mul 052d80137a84af853b5be552",
  "Ciphertext.Equal 6058e89fcab1391281f6688c",
  "Ciphertext.Clone e522b826c558c6dffdb76e7d",
  "Ciphertext.Randomize 42a2cd9ea8a0972a986e30f2",
  "Ciphertext.WriteTo 2892bee528b63e38bdc1dda5",
  "Ciphertext.Domain 4cb106253748f1962f692a4a",
  "Ciphertext.MarshalBinary 89321f8dc7eeeb9a973da2b6",
  "Ciphertext.UnmarshalBinary df37b7f8a7eb2563b8af07a9",
  "Ciphertext.Nat 3535f5662d1b11183ad70191"
]
def f_public : List String := [
  "decl:ErrPaillierLength,ErrPaillierEven,ErrPaillierNil abd8fbff8bc16145d80ac121",
  "decl:PublicKey e649838888a7d9332490ea60",
  "PublicKey.N 077bf50903827ff860821afe",
  "NewPublicKey ec66c07ffe93514219793aca",
  "ValidateN 1911874e1857bc150e01e431",
  "PublicKey.Enc 85faae94ab4cdccf4ff46f1b",
  "PublicKey.EncWithNonce a6a6633faf312910539ee056",
  "PublicKey.Equal 8e576e85e553c79cbaac57c2",
  "PublicKey.ValidateCiphertexts 78f7333fb973a31325ca24df",
  "PublicKey.WriteTo 50296502aed8451b47d63a8e",
  "PublicKey.Domain 1ae330c4e78b6a36035c7c06",
  "PublicKey.Modulus c1fb25276817b94524410c09",
  "PublicKey.ModulusSquared 94760472b64637bccd0b56ad"
]
def f_secret : List String := [
  "decl:ErrPrimeBadLength,ErrNotBlum,ErrNotSafePrime,ErrPrimeNil 13352074cd287280a03cbb2f",
  "decl:SecretKey c5ef143cf95b9c5c8a14442e",
  "SecretKey.P 92c6b80234ecbc29abe5569a",
  "SecretKey.Q a5ef122674956db37bc63b94",
  "SecretKey.Phi 82784ea60d57fd522b9b0fda",
  "KeyGen c564b98675da685dedc375b6",
  "NewSecretKey be35118312e4ac4170ef872b",
  "NewSecretKeyFromPrimes a5a5dd2bae6c6f5bc394f4b3",
  "SecretKey.Dec e7183290b5e7ff4d5760f749",
  "SecretKey.DecWithRandomness 1d1e536d51d38a9747a868f5",
  "SecretKey.GeneratePedersen ab716d5eae5e184d5995fd72",
  "ValidatePrime e833e756e5b9c21039102b34"
]
def files : List String := [
  "f_ciphertext",
  "f_public",
  "f_secret"
]
end Mps.SrcPins.SrcLPkgPaillier
