-- written by bin/mkroundpins from /repo at commit 472862f
namespace Mps.SrcPins.SrcLInternalOt
def f_additive : List String := [
  "decl:AdditiveOTSendRound1Message 9356a6c519b246c96a353f5d",
  "decl:AdditiveOTSendResult 9ea9b5709dcb5e235fdeb6ba",
  "decl:AdditiveOTSender eaec42ab3b6941d9bb221145",
  "NewAdditiveOTSender dd0f2c243f01e86e760f4d08",
  "AdditiveOTSender.Round1 fcaf16d5527c92ebd445a3b1",
  "decl:AdditiveOTReceiver 4bb33512f52b61248207a4b9",
  "NewAdditiveOTReceiver fab1faf4d111c5210c336f30",
  "decl:AdditiveOTReceiveRound1Message e18398bc4ee1520f8696908c",
  "AdditiveOTReceiver.Round1 8f37598a4f6324cc3139b50a",
  "decl:AdditiveOTReceiveResult 5d36e9db81cc0f862f6655c8",
  "AdditiveOTReceiver.Round2 063db4e9434d086f86321080"
]
def f_bits : List String := [
  "bitAt f271716c13956bc39945529d"
]
def f_correlated : List String := [
  "decl:CorreOTSendSetup be0fb5567428def7fd19966f",
  "CorreOTSendSetup.MarshalBinary 474e2f814a7949673e8dca9a",
  "CorreOTSendSetup.UnmarshalBinary 3b48b3bc0ef3bae3c2504927",
  "decl:CorreOTSetupSender aac859534aa67ce4d45b05eb",
  "NewCorreOTSetupSender 838f71ab0f69d478c3f33957",
  "decl:CorreOTSetupSendRound1Message 03b6f98fbca7926bdf54191f",
  "CorreOTSetupSender.Round1 dcaf846ca87e524f5b941485",
  "decl:CorreOTSetupSendRound2Message c89d25562d3a9fd9fe19a916",
  "CorreOTSetupSender.Round2 2b1ca8fa4bb119d0c7b6665d",
  "CorreOTSetupSender.Round3 edae35ac40c430bf517943ca",
  "decl:CorreOTReceiveSetup d12a8d08e9f0a98ef8bca1bf",
  "CorreOTReceiveSetup.MarshalBinary fb4c3a7cea84957064c09268",
  "CorreOTReceiveSetup.UnmarshalBinary 5bbb0f058499206df925fc3d",
  "decl:CorreOTSetupReceiver 608c6681060f1eefb178b9be",
  "NewCorreOTSetupReceiver b20f9e6245c9a4f573318c2c",
  "decl:CorreOTSetupReceiveRound1Message cd1d8b0e1cf58870ff67cb84",
  "EmptyCorreOTSetupReceiveRound1Message c7f236defee4aa020d68894f",
  "CorreOTSetupReceiver.Round1 a8cf5296e3dc44e1630b6407",
  "decl:CorreOTSetupReceiveRound2Message 5d15e4575bf24b0f13ed05ca",
  "CorreOTSetupReceiver.Round2 9527bf434760646beb6cfd4f",
  "decl:CorreOTSetupReceiveRound3Message b9f4873f5a40200d22c10ef6",
  "CorreOTSetupReceiver.Round3 7808c0f073d80d1603215f45",
  "transposeBits 8864c1356040eb264ece6c2c",
  "decl:CorreOTSendResult b2f0f14693edc92d6a104557",
  "CorreOTSend 1dc0b94b0f1c7abf7527a746",
  "decl:CorreOTReceiveMessage 193f31689fd490b51eaa014e",
  "decl:CorreOTReceiveResult 2447e2c9968557328037da0b",
  "CorreOTReceive 1c2263491a8803c8b27afa5d"
]
def f_extended : List String := [
  "decl:fieldElementLen 98eb02494bfd42fc26280fb6",
  "decl:fieldElement 85a9b317335448406163ead5",
  "fieldElement.eq 7c04406b53676f05e74aa99b",
  "fieldElement.shl1 4f7a7d7dea26787b65b687bd",
  "fieldElement.accumulate 38ebcb8223cfcbc487b2f093",
  "decl:ExtendedOTSendResult 87fe76d95a1b6375a4d1b88a",
  "ExtendedOTSend f2e4cffc7601f45a2bd5d303",
  "decl:ExtendedOTReceiveResult 7bad7d18e6551e0a7acf26f5",
  "decl:ExtendedOTReceiveMessage aac93c3cdfc0c7f410e539cd",
  "ExtendedOTReceive 7ad76a1a5cf5c3e91f0766ca"
]
def f_multiply : List String := [
  "scalarBytes da5537932c39c5ac43216580",
  "encode 0d0df75006ab428a26727b52",
  "makeGadget 965dd1c2b403dc4a0b6ecd73",
  "decl:MultiplySender 83a82f83ab4c904d8a817bdc",
  "NewMultiplySender 97a15bce38e90a567377b515",
  "decl:MultiplySendRound1Message 1f14550f3355c81fc95f50ca",
  "MultiplyReceiver.EmptyMultiplySendRound1Message 58c4a3494c745076efaf01e0",
  "MultiplySender.Round1 1e3188d10b4dd9c3df2a2c58",
  "decl:MultiplyReceiver 4ade778bd24137b42d46473f",
  "NewMultiplyReceiver 235c55c44db3e2abf2565344",
  "decl:MultiplyReceiveRound1Message 9e7ecc7ed3fb85d763e37cc7",
  "MultiplyReceiver.Round1 aafcec8d43939fd826933b11",
  "MultiplyReceiver.Round2 30340124098a081530e8ef5f"
]
def f_random : List String := [
  "decl:RandomOTSetupSendMessage b3fdd2563f9fa66c451f7f25",
  "EmptyRandomOTSetupSendMessage c472053d3cfadb5994d2a0ff",
  "decl:RandomOTSendSetup f889db903dc25dea34ddcf97",
  "RandomOTSetupSend 05bb829fd480724835d230ab",
  "decl:RandomOTReceiveSetup 4ea1f3c832e44f90331612ab",
  "RandomOTSetupReceive b2d22b0126f9b3d60123a091",
  "decl:RandomOTReceiever 3402abd13e4010df2e49c4e4",
  "NewRandomOTReceiver a90766eab28e435e9db09a62",
  "decl:RandomOTReceiveRound1Message f954ef10634193c691743862",
  "RandomOTReceiever.Round1 ca10f7443c5725abe5fc5a7d",
  "decl:RandomOTReceiveRound2Message 6e5dc68cb2a89e91fe75bba9",
  "RandomOTReceiever.Round2 f516e8386948b062eabbee54",
  "RandomOTReceiever.Round3 af5ae4908982a0c28f008056",
  "decl:RandomOTSender 5fc1d3916383ae57690948d0",
  "NewRandomOTSender ed230077a9258fddfaa21696",
  "decl:RandomOTSendRound1Message d295dbc7a9cee565ceb16724",
  "RandomOTSender.Round1 f5514972b3df2ba210da09d8",
  "decl:RandomOTSendRound2Message 41fc7e639ca574796835021c",
  "decl:RandomOTSendResult 7d3cdcea2723ad92b2319de6",
  "RandomOTSender.Round2 4c9baf5aabe68327947af7f6"
]
def files : List String := [
  "f_additive",
  "f_bits",
  "f_correlated",
  "f_extended",
  "f_multiply",
  "f_random"
]
end Mps.SrcPins.SrcLInternalOt
