-- written by bin/mkroundpins from /repo at commit 472862f
namespace Mps.SrcPins.SrcLPkgZkAffg
def f_affg : List String := [
  "decl:Public 45b41bc3244d008e18764cf5",
  "decl:Private f3fc504774ce7bd59aa9b226",
  "decl:Commitment fc7cd5612c12c5cf853c7a97",
  "decl:Proof 2e0eb23462f2b74bb554a5d2",
  "Proof.IsValid 6155ac018ba5896170e9ef5e",
  "NewProof 323120fa8d76cd52056a99ae",
  "Proof.Verify 63b0122617e6ca8cf8706de0",
  "challenge 1e198db75b5d4efd2e89ae4f",
  "Empty d8a6c2a9335b99e566b154e4"
]
def files : List String := [
  "f_affg"
]
end Mps.SrcPins.SrcLPkgZkAffg
