-- written by bin/mkroundpins from /repo at commit 472862f
namespace Mps.SrcPins.SrcLPkgZk
def f_default : List String := [
  "decl:ProverPaillierPublic,ProverPaillierSecret,VerifierPaillierPublic,VerifierPaillierSecret,Pedersen 1457a990ef9d44d66c0fd6ea",
  "generate 5f16dc92adfaad096b1dcf82",
  "init 11969f9b02b67be957984c89"
]
def files : List String := [
  "f_default"
]
end Mps.SrcPins.SrcLPkgZk
