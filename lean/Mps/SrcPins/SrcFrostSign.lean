-- written by bin/mkroundpins from /repo at commit 472862f
namespace Mps.SrcPins.SrcFrostSign
def f_round1 : List String := [
  "decl:round1 09b93f9306ea6fb1e0d1ea58",
  "round1.VerifyMessage 802d63134a23acda92d7513c",
  "round1.StoreMessage 802d63134a23acda92d7513c",
  "decl:deriveHashKeyContext a2785d1c8221b9358da43f12",
  "round1.Finalize 966ed0679a96b7c0f1fc17e0",
  "round1.MessageContent f5267592076e4dbeca0c29aa",
  "round1.Number b4fc1b1a37769dc302afcc74"
]
def f_round2 : List String := [
  "decl:round2 152d41431256e37d3d57c4ae",
  "decl:broadcast2 54988646e70e35b2f0643910",
  "round2.StoreBroadcastMessage 5492ae52978ac12527d21bf6",
  "round2.VerifyMessage 802d63134a23acda92d7513c",
  "round2.StoreMessage 802d63134a23acda92d7513c",
  "round2.Finalize bd55ed7e6cfec451f8e03da1",
  "round2.MessageContent f5267592076e4dbeca0c29aa",
  "broadcast2.RoundNumber afbf3b2d17fee1f6ce5e2421",
  "round2.BroadcastContent a9e8f75aac9058588ce8cb3b",
  "round2.Number afbf3b2d17fee1f6ce5e2421"
]
def f_round3 : List String := [
  "decl:round3 0813779a14d889db87e47363",
  "decl:broadcast3 392c4901731148eb8a8fd0f1",
  "round3.StoreBroadcastMessage 79f7dc8f62b98c27a92490b1",
  "round3.VerifyMessage 802d63134a23acda92d7513c",
  "round3.StoreMessage 802d63134a23acda92d7513c",
  "round3.Finalize 1d21955e67a553849f0ae55d",
  "round3.MessageContent f5267592076e4dbeca0c29aa",
  "broadcast3.RoundNumber 79c98029d401cf189a9ed9a5",
  "round3.BroadcastContent d5cf41427c19464e2ed44284",
  "round3.Number 79c98029d401cf189a9ed9a5"
]
def f_sign : List String := [
  "decl:protocolID,protocolIDTaproot,protocolRounds 5f4ad6fa675d7915e0531221",
  "StartSignCommon b9b4bac38db042dab864641a"
]
def f_types : List String := [
  "decl:messageHash 0599e45f8791e1bb4ec13be7",
  "messageHash.WriteTo 00147217c1af194a20131f25",
  "messageHash.Domain 7732b80843de9ae38f9c45f2",
  "decl:Signature a5ad2c0c796c2789e40d8ed4",
  "Signature.Verify 99723aa42af93fc7819255ab"
]
def files : List String := [
  "f_round1",
  "f_round2",
  "f_round3",
  "f_sign",
  "f_types"
]
end Mps.SrcPins.SrcFrostSign
