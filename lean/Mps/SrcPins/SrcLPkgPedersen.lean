-- written by bin/mkroundpins from /repo at commit 472862f
namespace Mps.SrcPins.SrcLPkgPedersen
def f_pedersen : List String := [
  "decl:Error 5a37ff0dbbaeea9c3016c44e",
  "decl:ErrNilFields,ErrSEqualT,ErrNotValidModN a544838e2bc7739e286b959e",
  "Error.Error ab4d15ce28cab84dea8ce380",
  "decl:Parameters 24ea4154b26ac757a03fe3c7",
  "New 2a1828f579091697fb67458b",
  "ValidateParameters 3d185d34c7003e3052e963a7",
  "Parameters.N 827e7c66b75650bd160a3424",
  "Parameters.NArith 15f636a40fd60977a9462e78",
  "Parameters.S d757f5b0502e0edd247abcbd",
  "Parameters.T 666c2d551fd21ec83765cb17",
  "Parameters.Commit cd28d4637e7221f842ca6cf4",
  "Parameters.Verify a655597e02c176e2b7727f25",
  "Parameters.WriteTo c15ba6ff6ecce0c2b216c9ca",
  "Parameters.Domain 6f0e0c4908c71d9cfbc2bc4c"
]
def files : List String := [
  "f_pedersen"
]
end Mps.SrcPins.SrcLPkgPedersen
