-- written by bin/mkroundpins from /repo at commit 472862f
namespace Mps.SrcPins.SrcDoernerSign
def f_round1R : List String := [
  "decl:message1R 7d7c748296cb31b176b558bc",
  "message1R.RoundNumber b4fc1b1a37769dc302afcc74",
  "decl:round1R d90ddbbadc67a1387dbf3d36",
  "round1R.VerifyMessage 802d63134a23acda92d7513c",
  "round1R.StoreMessage 802d63134a23acda92d7513c",
  "round1R.Finalize 5c47dd05886617a5bb3a4399",
  "round1R.MessageContent f5267592076e4dbeca0c29aa",
  "round1R.Number b4fc1b1a37769dc302afcc74"
]
def f_round1S : List String := [
  "decl:message1S 31adf58cf5ec91847b548377",
  "message1S.RoundNumber afbf3b2d17fee1f6ce5e2421",
  "decl:round1S 07de5c16e8fdfdbcb5425a03",
  "round1S.VerifyMessage aa01d88f1dbf33bc95323d24",
  "round1S.StoreMessage 7d3cb33b0754ebbd6bc5602e",
  "round1S.Finalize 3f81b8f8630c4f6fcc44e1a5",
  "round1S.MessageContent d595c580bc65ab691cde2d9e",
  "round1S.Number b4fc1b1a37769dc302afcc74"
]
def f_round2R : List String := [
  "decl:message2R e85cc5f500c2a54854c5f250",
  "message2R.RoundNumber afbf3b2d17fee1f6ce5e2421",
  "decl:round2R c30e00b41cf9c8c353fae071",
  "round2R.VerifyMessage 55089a70bde07593d61f9988",
  "round2R.StoreMessage 10aa680dd197eca2608e054d",
  "round2R.Finalize 0034ae85b316941028549555",
  "round2R.MessageContent fbcfbb723465100329f990bb",
  "round2R.Number afbf3b2d17fee1f6ce5e2421"
]
def f_round2S : List String := [
  "decl:round2S 78a69eb7e463859190e34bd1",
  "round2S.VerifyMessage 4c5879eb1f4d2b0273a65973",
  "round2S.StoreMessage 8adc86b1a09b3575e261421d",
  "round2S.Finalize ca251e9de4a06570edf520c6",
  "round2S.MessageContent e5743205ae65c82d316d6f67",
  "round2S.Number afbf3b2d17fee1f6ce5e2421"
]
def f_sign : List String := [
  "StartSignReceiver 69160b35def0f186b9a81f78",
  "StartSignSender 0fef78a5ae43a20599c30fe6"
]
def files : List String := [
  "f_round1R",
  "f_round1S",
  "f_round2R",
  "f_round2S",
  "f_sign"
]
end Mps.SrcPins.SrcDoernerSign
