-- written by bin/mkroundpins from /repo at commit 472862f
namespace Mps.SrcPins.SrcLInternalBip32
def f_bip32 : List String := [
  "DeriveScalar 91f7d68cf8dd23bf6be3a443"
]
def files : List String := [
  "f_bip32"
]
end Mps.SrcPins.SrcLInternalBip32
