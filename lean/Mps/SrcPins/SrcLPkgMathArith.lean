-- written by bin/mkroundpins from /repo at commit 472862f
namespace Mps.SrcPins.SrcLPkgMathArith
def f_int : List String := [
  "IsValidNatModN b19d7da6d0d636a6547a87cb",
  "IsValidBigModN 43a5460c3c2ac7978b5e5d41",
  "IsInIntervalLEps b8ada0b7fa7c3aabcfbee619",
  "IsInIntervalLPrimeEps 766ce4e0f14a632b3694ffc6",
  "IsInIntervalLEpsPlus1RootN e4670521bc8dba07b2f611e3"
]
def f_modulus : List String := [
  "decl:Modulus 3445a6e21c4389115a402b49",
  "ModulusFromN 2c9393bd8b3344d0e8f4beb3",
  "ModulusFromFactors a19b843ba221881f2ad725c7",
  "Modulus.Exp 117326b0755103d55f502a21",
  "Modulus.ExpI 2ea2f168bc56f6636c111df2",
  "Modulus.hasFactorization 1cf0ec67c38e56664f5fe9c2"
]
def files : List String := [
  "f_int",
  "f_modulus"
]
end Mps.SrcPins.SrcLPkgMathArith
