-- written by bin/mkroundpins from /repo at commit 472862f
namespace Mps.SrcPins.SrcLPkgHash
def f_commit : List String := [
  "decl:Commitment,Decommitment 6dc8979d255c26706ffea4da",
  "Commitment.WriteTo cfffb4440ddabdaeb0ec9ae8",
  "Commitment.Domain 45f1dcf093aac226333abab8",
  "Commitment.Validate b59a980e8d0a2fbe85467ede",
  "Decommitment.WriteTo 8f5324bb6fbbd4e3acf5ada3",
  "Decommitment.Domain aec029c822b8254b67337e03",
  "Decommitment.Validate 787a2759cbb7f69235bd17d3",
  "Hash.Commit 86f0c9d48a840826936818ae",
  "Hash.Decommit 79234cbff49751ed56a148d2"
]
def f_hash : List String := [
  "decl:DigestLengthBytes c312f064daec0001ce8db3c5",
  "decl:Hash c3b3cb66fe7024e24e0ce0e0",
  "New 620725f2335d0b78c44cdcb5",
  "Hash.Digest d54d9d2b6e4e3bb2734acd80",
  "Hash.Sum 62b39002d1fcdcba4a6496b1",
  "Hash.WriteAny 189c2ed9eb1d372875090424",
  "Hash.Clone f664f8d1439b079a5e284ded",
  "Hash.Fork 7a299d20f738f21805dc0593"
]
def f_writerto : List String := [
  "decl:WriterToWithDomain 76594fe35237b1eb723509f4",
  "decl:BytesWithDomain 2744cc094fb66854d4799375",
  "BytesWithDomain.WriteTo 2920cd52049e1a93f9ed96d0",
  "BytesWithDomain.Domain 3bdfd4e0ebcef630c35914f9"
]
def files : List String := [
  "f_commit",
  "f_hash",
  "f_writerto"
]
end Mps.SrcPins.SrcLPkgHash
