-- written by bin/mkroundpins from /repo at commit 472862f
namespace Mps.SrcPins.SrcLInternalRound
def f_abort : List String := [
  "decl:Abort d6755596f1515feb0fe3b4df",
  "Abort.VerifyMessage 5ea9377090f2ae13b5473bf6",
  "Abort.StoreMessage 5ea9377090f2ae13b5473bf6",
  "Abort.Finalize 81dd6def23cdb17990588f52",
  "Abort.MessageContent f5f5ed7c968e7c06f7ccf5f6",
  "Abort.Number bc6d5a86012dd56acbc916d4"
]
def f_error : List String := [
  "decl:ErrNilFields,ErrInvalidContent,ErrOutChanFull 7085f675c72ca2c6b4279fb3"
]
def f_helper : List String := [
  "decl:Helper 6a17f9716f57237a353c4215",
  "NewSession 5310b2ca12f62db7858d9f6b",
  "validateIDs 2b76b0bcd295d00e70858e93",
  "Helper.HashForID 814805d1854e008e626b725a",
  "Helper.UpdateHashState c7781d84d8c4406f98fc0e00",
  "Helper.BroadcastMessage 9b1332779c17aa6291ec115e",
  "Helper.SendMessage f3543c76bf2a4b96a5b850ef",
  "Helper.Hash 8e7013b05e0438f614277e16",
  "Helper.ResultRound 82f49932f42171b7bbae2917",
  "Helper.AbortRound 24382310173137e0166ef75e",
  "Helper.ProtocolID 87481d211a9cba3a672f5692",
  "Helper.FinalRoundNumber 34c240b8a7950eafce0f08c8",
  "Helper.SSID 087a714750c095161744a4ac",
  "Helper.SelfID 95e09add3b0dd3df73b4797e",
  "Helper.PartyIDs fd3d933b5535d73998e63709",
  "Helper.OtherPartyIDs 9adcdc3e76cd1c7d20b1faef",
  "Helper.Threshold 35345b9f98677a1752deb0b1",
  "Helper.N 39e6023539875a627db530c4",
  "Helper.Group bb3371acd644df7a387920a7"
]
def f_message : List String := [
  "decl:Content c7504a1d33187a658d5bc57a",
  "decl:BroadcastContent b7de2518739e08fe776f6dfd",
  "decl:ReliableBroadcastContent,NormalBroadcastContent ba50830b8cf0a97884afee4d",
  "ReliableBroadcastContent.Reliable 6ce2a65de473681ed51bca8b",
  "NormalBroadcastContent.Reliable 352a87328b921ef1f6567d2a",
  "decl:Message 064b42998d7c3d5ea5a681ba"
]
def f_number : List String := [
  "decl:Number 706984cee2588d0e283551fc",
  "Number.WriteTo f42989b9769b63f09cb9e480",
  "Number.Domain 56b803ffa7aadfe8d866e384"
]
def f_output : List String := [
  "decl:Output f65e4dab52ef2e6202d62d99",
  "Output.VerifyMessage 5ea9377090f2ae13b5473bf6",
  "Output.StoreMessage 5ea9377090f2ae13b5473bf6",
  "Output.Finalize 81dd6def23cdb17990588f52",
  "Output.MessageContent f5f5ed7c968e7c06f7ccf5f6",
  "Output.Number bc6d5a86012dd56acbc916d4"
]
def f_round : List String := [
  "decl:Round ea81690f7605f909b03168cd",
  "decl:BroadcastRound dcdc3a77b908b381d1045e63"
]
def f_session : List String := [
  "decl:Info 60a314ca838b9247a2e6a0ff",
  "decl:Session f5f4179c00e94545e07b298f"
]
def files : List String := [
  "f_abort",
  "f_error",
  "f_helper",
  "f_message",
  "f_number",
  "f_output",
  "f_round",
  "f_session"
]
end Mps.SrcPins.SrcLInternalRound
