-- written by bin/mkroundpins from /repo at commit 472862f
namespace Mps.SrcPins.SrcLPkgEcdsa
def f_presignature : List String := [
  "decl:PreSignature c5b4e01bd5d02af91ad35112",
  "PreSignature.Group 9419d218cc4b8e88338a881f",
  "EmptyPreSignature e6e0540a725809062ed272a3",
  "decl:SignatureShare fcb51282759d0affa7cbc463",
  "PreSignature.SignatureShare 433711eb5a1874577eb49528",
  "PreSignature.Signature 5e62cc14d6613f01619771a5",
  "PreSignature.VerifySignatureShares e2baa6e769ac2ef213d8a608",
  "PreSignature.Validate 778502e14ca6fe80fe9ad6ac",
  "PreSignature.UnmarshalCBOR 5d6d922046c025cfacebf659",
  "PreSignature.SignerIDs fa116e60b0560e03b7ca66f4"
]
def f_signature : List String := [
  "decl:Signature df4356ea38d96e2a1108e03f",
  "EmptySignature 9593bde209c4404dbbaa1605",
  "Signature.UnmarshalCBOR d1b217d6d23eefe5a99bb7b8",
  "Signature.Verify faf0806392a8798c755a9ec9",
  "Signature.SigEthereum f8a13d29c53d420d951c7470"
]
def files : List String := [
  "f_presignature",
  "f_signature"
]
end Mps.SrcPins.SrcLPkgEcdsa
