-- written by bin/mkroundpins from /repo at commit 472862f
namespace Mps.SrcPins.SrcLPkgProtocol
def f_error : List String := [
  "decl:Error be81649eb3c014e118f5f5dd",
  "Error.Error f70501844384092c2b90e268",
  "Error.Unwrap 16a0a8c559e28207d00af431"
]
def f_handler : List String := [
  "decl:errBroadcastVerification 2b96746fdbf05e28f51cf472",
  "decl:StartFunc 0211a455adc3db0c176eaead",
  "decl:Handler 1563842dd8e5df2bb9c4f257",
  "decl:MultiHandler 920d0bdbfec18e5273e2dbfd",
  "NewMultiHandler eb6cc0c445ced01114184257",
  "MultiHandler.Result 2a0cf992bf0dcf107ec1f0ee",
  "MultiHandler.Listen ffd3d9754a2e7c0dc4d61bfc",
  "MultiHandler.CanAccept c6aca1123ebaae1fa4541aa7",
  "MultiHandler.canAccept 49d1b3beeee3db0c4032f16a",
  "MultiHandler.Accept 3afddbd3b6459f569551e544",
  "MultiHandler.abortVerification 56d4154351728401080fe1b7",
  "MultiHandler.sameBroadcastView f3d1d16544c6a2c4442d0ba1",
  "MultiHandler.verifyBroadcastMessage 2052a1001b30b34472133301",
  "MultiHandler.verifyMessage c6035529652f5a508d133ba5",
  "MultiHandler.finalize 0d9af682fa1b62791e013d1a",
  "MultiHandler.abort 68e4ed055674f0fd3ba1ef72",
  "MultiHandler.Stop 0ee934aa8d06159cf9cefbc0",
  "expectsNormalMessage 08cef36f911c8ecca79301fa",
  "MultiHandler.receivedAll 4e0db5c115acdea358501765",
  "MultiHandler.duplicate b0a7f152cab3100d23b9477c",
  "MultiHandler.store 617bc609e4343680893bda00",
  "getRoundMessage 86193856d66d0d73202ed072",
  "MultiHandler.checkBroadcastHash be71b8f195657df7f2a88a95",
  "newQueue f41cde993019564f75447900",
  "MultiHandler.String 78fba8b79e5cd0faf5c81760"
]
def f_message : List String := [
  "decl:Message 05572144db283febded0a12e",
  "Message.String dc3498b3619b3da587b8dfa4",
  "Message.IsFor a2b1cdf819d3963dca9c8611",
  "Message.Hash 453e60dc01228e1318b5d29d",
  "decl:marshallableMessage 1c8234e04968cae12d60810f",
  "Message.toMarshallable 716d230a32304312fe1551cf",
  "Message.MarshalBinary fb4ba87ab841dfaea6728a76",
  "Message.UnmarshalBinary d8e7aaaae390ff9496c89cbc"
]
def f_twoparty : List String := [
  "decl:TwoPartyHandler 0a658c0de06372d0ab82682d",
  "NewTwoPartyHandler 8e0dab89905b4b62d1e7cd4a",
  "TwoPartyHandler.Result 861f200d5a858e2b5d885cf3",
  "TwoPartyHandler.Listen ffd3d9754a2e7c0dc4d61bfc",
  "TwoPartyHandler.Stop 1f9e0058479556d2f82456c5",
  "TwoPartyHandler.String 6129a24ac06f9c052f9b3ce4",
  "TwoPartyHandler.abort b103d186c02de5ee8ec30558",
  "TwoPartyHandler.canAdvance 84b31e6e76745879f20207e0",
  "extractRoundMessage 280f75aae03504568b3f4d5a",
  "TwoPartyHandler.verifyMessage 20799f11629bdb495486a999",
  "TwoPartyHandler.advance fc35b597a5e3dacd3f01ceb8",
  "TwoPartyHandler.CanAccept c6aca1123ebaae1fa4541aa7",
  "TwoPartyHandler.canAccept ce98ad0edf5cdff36e932869",
  "TwoPartyHandler.Accept 66c8baccb0ca6604b9f4057e"
]
def files : List String := [
  "f_error",
  "f_handler",
  "f_message",
  "f_twoparty"
]
end Mps.SrcPins.SrcLPkgProtocol
