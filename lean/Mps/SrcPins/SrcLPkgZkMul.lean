-- written by bin/mkroundpins from /repo at commit 472862f
namespace Mps.SrcPins.SrcLPkgZkMul
def f_mul : List String := [
  "decl:Public 978732c5b79164692d01efc4",
  "decl:Private 4a62e1d222029ccf7f9e1db2",
  "decl:Commitment f43fd7986d580ea35b772647",
  "decl:Proof e5db8f4665a0b2a66d2956a7",
  "Proof.IsValid 200c95ec750cc5d3c3fca8b8",
  "NewProof 5cd99df0d4fb1f4426e06f28",
  "Proof.Verify 65399124b955ba760e1ea147",
  "challenge ce31d627b4a043feba5aada5"
]
def files : List String := [
  "f_mul"
]
end Mps.SrcPins.SrcLPkgZkMul
