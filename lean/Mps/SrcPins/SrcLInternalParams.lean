-- written by bin/mkroundpins from /repo at commit 472862f
namespace Mps.SrcPins.SrcLInternalParams
def f_params : List String := [
  "decl:SecParam,SecBytes,OTParam,OTBytes,StatParam,ZKModIterations,L,LPrime,Epsilon,LPlusEpsilon,LPrimePlusEpsilon,BitsIntModN,BytesIntModN,BitsBlumPrime,BitsPaillier,BytesPaillier,BytesCiphertext e4c4f2b93691994d6777a536"
]
def files : List String := [
  "f_params"
]
end Mps.SrcPins.SrcLInternalParams
