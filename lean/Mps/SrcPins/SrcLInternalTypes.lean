-- written by bin/mkroundpins from /repo at commit 472862f
namespace Mps.SrcPins.SrcLInternalTypes
def f_message : List String := [
  "decl:SigningMessage f0b3fcce4265a907b422b5d2",
  "SigningMessage.WriteTo fe60751bab1e00a7118ac00d",
  "SigningMessage.Domain 41e8a60da65338a4afd84c53"
]
def f_rid : List String := [
  "decl:RID c9836cbdaf2bcf43b541eb7e",
  "EmptyRID 627d862cb7aef7e7639cbc43",
  "NewRID 8fe5db9efe4a03ad3a226fad",
  "RID.XOR b042381dd5459bc24f4c87a3",
  "RID.WriteTo 909a212f688dbffc74542024",
  "RID.Domain ac04174a789425eba4c83637",
  "RID.Validate 3887e03b16c7aa8ee4cc6258",
  "RID.Copy ce3075289d7dd4bbca2f08c0"
]
def f_threshold : List String := [
  "decl:ThresholdWrapper b61a9c1253f128d29776c080",
  "ThresholdWrapper.WriteTo 50ce3056749e844b64ee8ca1",
  "ThresholdWrapper.Domain 0e15b5a86ee879a73f289e1f"
]
def files : List String := [
  "f_message",
  "f_rid",
  "f_threshold"
]
end Mps.SrcPins.SrcLInternalTypes
