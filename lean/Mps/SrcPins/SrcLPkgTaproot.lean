-- written by bin/mkroundpins from /repo at commit 472862f
namespace Mps.SrcPins.SrcLPkgTaproot
def f_signature : List String := [
  "TaggedHash 5fe3350572d0bd23e0771a3f",
  "decl:SecretKeyLength 597adea776196d3ecaba8960",
  "decl:SecretKey 70119cd36544134efc369161",
  "decl:PublicKey 1ac30beca3dd6386f7da432e",
  "SecretKey.Public 5639c8ff269b7c3b793f9032",
  "GenKey 05d89c2f262570c23ac29dd0",
  "decl:SignatureLen d14f2ebe19f35bfdb77cdca4",
  "decl:Signature ec78c28c6c264f38ef384907",
  "decl:signatureCounter 261c9de6387d8a3cb511c4f9",
  "SecretKey.Sign 91a9ab0055a5ea4b7ff039b5",
  "PublicKey.Verify bd58137d664e9fb8b757fc40"
]
def files : List String := [
  "f_signature"
]
end Mps.SrcPins.SrcLPkgTaproot
