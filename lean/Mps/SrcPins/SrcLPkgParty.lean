-- written by bin/mkroundpins from /repo at commit 472862f
namespace Mps.SrcPins.SrcLPkgParty
def f_id : List String := [
  "decl:ID c18cafc9e174d1523a836480",
  "ID.Scalar c3fea9bdd9b47bcc6e34fa7a",
  "ID.WriteTo 896c9921bef8946a0eb117a4",
  "ID.Domain 0765a131e0a93abd87b84bb0",
  "decl:PointMap 0b3dc7b3a5103a6f2d776580",
  "NewPointMap 89b8e5aacf5f0e769e64835d",
  "EmptyPointMap c1b3e5774042daa945d92b7b",
  "PointMap.MarshalBinary ff2919f17d5576ff4c2fa3d3",
  "PointMap.UnmarshalBinary f24106371a0cf64cac20cb4f"
]
def f_idslice : List String := [
  "decl:IDSlice 297a473a9214ab5ba7abdd2f",
  "NewIDSlice 66fadde774bd219c5b8bfb8a",
  "IDSlice.Contains 86f2c6ebd4b218293f071698",
  "IDSlice.Valid 625b2072be72768398846e79",
  "IDSlice.Copy 68a7ee72698370066fbfd72b",
  "IDSlice.Remove 34e87561a7e3108b74de2a76",
  "IDSlice.Len f7c0074d5bca7e0374e9f300",
  "IDSlice.Less 3ec99d3742bdbddf719b2df6",
  "IDSlice.Swap 9df39411588c523620b84d30",
  "IDSlice.sort 07ca004dfa16f478be5865fc",
  "IDSlice.search 92e7f61420e81cbf733589ea",
  "IDSlice.WriteTo ba3ef8d75cc06aab66affd71",
  "IDSlice.Domain 66a3297ce97e4dc5d10faf31",
  "IDSlice.String fef9c586a7324ee47dad3ecf"
]
def files : List String := [
  "f_id",
  "f_idslice"
]
end Mps.SrcPins.SrcLPkgParty
