-- written by bin/mkroundpins from /repo at commit 472862f
namespace Mps.SrcPins.SrcLInternalElgamal
def f_elgamal : List String := [
  "decl:PublicKey,Nonce 5f849fedac402d7ae21d6d14",
  "decl:Ciphertext 17bc670b0dd60e62a3b6ca0d",
  "Encrypt 3bb667ca4eca770a171e4324",
  "Ciphertext.Valid f3df761029932a2fbe876166",
  "Empty 63f8a2219756fca4e3434883",
  "Ciphertext.WriteTo 36e9add05c3df5e096cd1b75",
  "Ciphertext.Domain fafa969f36f1170b2e8857e1"
]
def files : List String := [
  "f_elgamal"
]
end Mps.SrcPins.SrcLInternalElgamal
