-- written by bin/mkroundpins from /repo at commit 472862f
namespace Mps.SrcPins.SrcDoernerKeygen
def f_keygen : List String := [
  "decl:ConfigReceiver b8afe7ccb6e44f637c0ba5fd",
  "ConfigReceiver.Validate 1791a61998587cbee6ba9e6e",
  "ConfigReceiver.UnmarshalCBOR 964675139483837b71704611",
  "ConfigReceiver.Group 9c2eaacd6a91fe93cc9ad321",
  "ConfigReceiver.Derive ccf60e9f2e34bc39e7536f33",
  "ConfigReceiver.DeriveBIP32 8a9019eb76e0b8db3ddc1a70",
  "decl:ConfigSender b210d93070403929c3aa5cf3",
  "ConfigSender.Validate 1791a61998587cbee6ba9e6e",
  "ConfigSender.UnmarshalCBOR eb1ff21df4b223fe23b4f5aa",
  "ConfigSender.Group 9c2eaacd6a91fe93cc9ad321",
  "StartKeygen c1faa3096e665b931f0fbea5",
  "ConfigSender.Derive d589023b6be8f62a3989f104",
  "ConfigSender.DeriveBIP32 612f3311e66758b7466cc426"
]
def f_round1R : List String := [
  "decl:message1R 9f6e2db41af79334aa9b7203",
  "message1R.RoundNumber b4fc1b1a37769dc302afcc74",
  "decl:round1R e5c6e1b923d767cc8ee3e8cb",
  "round1R.VerifyMessage 802d63134a23acda92d7513c",
  "round1R.StoreMessage 802d63134a23acda92d7513c",
  "round1R.Finalize 5ec5aeb29379a2cdaf3c87f6",
  "round1R.MessageContent f5267592076e4dbeca0c29aa",
  "round1R.Number b4fc1b1a37769dc302afcc74"
]
def f_round1S : List String := [
  "decl:message1S ebeaa84a4efba41294b34f51",
  "message1S.RoundNumber afbf3b2d17fee1f6ce5e2421",
  "decl:round1S d62e097e95d6274c1e8ca979",
  "round1S.VerifyMessage 4fc0db85376165cfdb706118",
  "round1S.StoreMessage eb1decda7b1f81df96a0859d",
  "round1S.Finalize f71fb46ab535e0c1e8b1f28a",
  "round1S.MessageContent 4d33b43e81f2c37687386f4b",
  "round1S.Number b4fc1b1a37769dc302afcc74"
]
def f_round2R : List String := [
  "decl:message2R d99b990521f1074767c16671",
  "message2R.RoundNumber afbf3b2d17fee1f6ce5e2421",
  "decl:round2R d1c72c7ee322361bd6ce345e",
  "round2R.VerifyMessage 17add833f40bf68a3c7f4daa",
  "round2R.StoreMessage c257d7b8ac268b6e0a52c3d2",
  "round2R.Finalize 4d98b55447dbc3322267dd8b",
  "round2R.MessageContent 7d354f4d5fe7ac8a2ace0eee",
  "round2R.Number afbf3b2d17fee1f6ce5e2421"
]
def f_round2S : List String := [
  "decl:message2S 400c9ff277fd6b0ae8c6c2a3",
  "message2S.RoundNumber 79c98029d401cf189a9ed9a5",
  "decl:round2S cb1ae5e6d7054aca10ea6f9c",
  "round2S.VerifyMessage bc532dd7f497d303339bad53",
  "round2S.StoreMessage d55bcad1bc83ce6789a22f80",
  "round2S.Finalize 4577197e6a9d44d6eb665043",
  "round2S.MessageContent e8a40da4bb74a2d4aadecc67",
  "round2S.Number afbf3b2d17fee1f6ce5e2421"
]
def f_round3R : List String := [
  "decl:message3R 765cf14435e577cc8289fecb",
  "message3R.RoundNumber 79c98029d401cf189a9ed9a5",
  "decl:round3R a1b5ec6ff795558826a05d8f",
  "round3R.VerifyMessage b7c63fb395b090fe3fab57b4",
  "round3R.StoreMessage f941916515fe6a76bd1ee090",
  "round3R.Finalize 4044f790af16873d36c69d71",
  "round3R.MessageContent 45ef585058ac468e63500540",
  "round3R.Number 79c98029d401cf189a9ed9a5"
]
def f_round3S : List String := [
  "decl:round3S 85a43b8dff1ef0c6ec384ec9",
  "round3S.VerifyMessage 97bb650cdd407d8dd631b9c2",
  "round3S.StoreMessage f1654111d2aa4c8146f41a75",
  "round3S.Finalize b945bf4ae3d3e914de6ecfa8",
  "round3S.MessageContent b935246da9d3e372fe8d6ac7",
  "round3S.Number 79c98029d401cf189a9ed9a5"
]
def files : List String := [
  "f_keygen",
  "f_round1R",
  "f_round1S",
  "f_round2R",
  "f_round2S",
  "f_round3R",
  "f_round3S"
]
end Mps.SrcPins.SrcDoernerKeygen
