-- written by bin/mkroundpins from /repo at commit 472862f
namespace Mps.SrcPins.SrcLPkgZkEncelg
def f_encelg : List String := [
  "decl:Public 184d9b7c99e72e8da4546fc5",
  "decl:Private 2409750f620f2f74f9e2baff",
  "decl:Commitment 582f2a8c548f8b0f0274ab5b",
  "decl:Proof ab87da0ffba27c47fe459763",
  "Proof.IsValid 79becca8e91f39f1ebfb46c5",
  "NewProof e03445e2bb91572a6f428d77",
  "Proof.Verify bb6dc20a0e95ebb564b4d73a",
  "challenge ecc70866b370aaf8c23bd3b3",
  "Empty 41944707fed6806fcdedad30"
]
def files : List String := [
  "f_encelg"
]
end Mps.SrcPins.SrcLPkgZkEncelg
