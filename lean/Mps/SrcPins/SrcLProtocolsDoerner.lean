-- written by bin/mkroundpins from /repo at commit 472862f
namespace Mps.SrcPins.SrcLProtocolsDoerner
def f_doerner : List String := [
  "decl:ConfigReceiver,ConfigSender 68f3102eb0040fe4d834f5bc",
  "EmptyConfigReceiver 098e0151d02e418625f973ea",
  "EmptyConfigSender 28c4a22a04fdba9de54cb8e2",
  "Keygen 788f0fb77953f65416ce3da2",
  "RefreshReceiver a4e31fa0b4aadc380023786f",
  "RefreshSender 2bf888caaf964bdbc4532466",
  "SignReceiver fe97f0ac131ad2d830e1a4c4",
  "SignSender 235e081689aaec2ead242a67"
]
def files : List String := [
  "f_doerner"
]
end Mps.SrcPins.SrcLProtocolsDoerner
