-- written by bin/mkroundpins from /repo at commit 472862f
namespace Mps.SrcPins.SrcCmpKeygen
def f_keygen : List String := [
  "decl:Rounds 5b2adf09f1060828c4946de7",
  "Start 85f9cf479ecb67eca3fdfdeb"
]
def f_round1 : List String := [
  "decl:_ a94b7286b68a45d300dc2cba",
  "decl:round1 d0d68bd28c32174c66757f18",
  "round1.VerifyMessage 802d63134a23acda92d7513c",
  "round1.StoreMessage 802d63134a23acda92d7513c",
  "round1.Finalize 01b2795c26c43cd7ea1578db",
  "round1.PreviousRound 35f87d9a8346c867bb59e372",
  "round1.MessageContent f5267592076e4dbeca0c29aa",
  "round1.Number b4fc1b1a37769dc302afcc74"
]
def f_round2 : List String := [
  "decl:_ b47c42aab0281c87ec3f25de",
  "decl:round2 b0dab5dc3c3cd86b26ba6001",
  "decl:broadcast2 e1dd5e5fa095e471e663e44a",
  "round2.StoreBroadcastMessage 88efda3f6bb94d9cb4ce31df",
  "round2.VerifyMessage 802d63134a23acda92d7513c",
  "round2.StoreMessage 802d63134a23acda92d7513c",
  "round2.Finalize f72541a76828162754f91a84",
  "round2.PreviousRound 932de002a24c61c1ab527ee0",
  "round2.MessageContent f5267592076e4dbeca0c29aa",
  "broadcast2.RoundNumber afbf3b2d17fee1f6ce5e2421",
  "round2.BroadcastContent fbe50796b67950fb0f703027",
  "round2.Number afbf3b2d17fee1f6ce5e2421"
]
def f_round3 : List String := [
  "decl:_ b7100955b7674e785d6d5977",
  "decl:round3 fb76f3807e227c7b94165bf7",
  "decl:broadcast3 5401b9b71221d5996cf1d0ca",
  "round3.StoreBroadcastMessage a471c4e77191dde46e5102ee",
  "round3.VerifyMessage 802d63134a23acda92d7513c",
  "round3.StoreMessage 802d63134a23acda92d7513c",
  "round3.Finalize acde3ea657e85678b88361f0",
  "round3.MessageContent f5267592076e4dbeca0c29aa",
  "broadcast3.RoundNumber 79c98029d401cf189a9ed9a5",
  "round3.BroadcastContent 02bf2e20b361e85bc96c165e",
  "round3.Number 79c98029d401cf189a9ed9a5"
]
def f_round4 : List String := [
  "decl:_ f4b9c235445f4b034681722d",
  "decl:round4 5df67568fd927be229cdc746",
  "decl:message4 49205e478a7775b126e05569",
  "decl:broadcast4 770e993373ff0b8ec6193ab6",
  "round4.StoreBroadcastMessage 3c039176168daa6edc1a2649",
  "round4.VerifyMessage 867cdb7df045404ef0b87ab4",
  "round4.StoreMessage 2f462fb1e9b0c723b4ad4941",
  "round4.Finalize ebb881cfc4c280006e1a9bc2",
  "message4.RoundNumber 2f0406b57b2a5ab93a363714",
  "round4.MessageContent d6eceb673426b8515dfa39e5",
  "broadcast4.RoundNumber 2f0406b57b2a5ab93a363714",
  "round4.BroadcastContent a7295d51d1d50733613cd14e",
  "round4.Number 2f0406b57b2a5ab93a363714"
]
def f_round5 : List String := [
  "decl:_ 4b6cd88f4aacdde33ff2c574",
  "decl:round5 277613d7016dac545daf51d5",
  "decl:broadcast5 ae8c35e25184dcac2ff84370",
  "round5.StoreBroadcastMessage 6169fb78ab6ab5e4b818c9ee",
  "round5.VerifyMessage 802d63134a23acda92d7513c",
  "round5.StoreMessage 802d63134a23acda92d7513c",
  "round5.Finalize ba2bdfc465347f5e383bc095",
  "round5.MessageContent f5267592076e4dbeca0c29aa",
  "broadcast5.RoundNumber 3f92817c9481a77279e340a8",
  "round5.BroadcastContent e149cf888b5b7f14273636fd",
  "round5.Number 3f92817c9481a77279e340a8"
]
def files : List String := [
  "f_keygen",
  "f_round1",
  "f_round2",
  "f_round3",
  "f_round4",
  "f_round5"
]
end Mps.SrcPins.SrcCmpKeygen
