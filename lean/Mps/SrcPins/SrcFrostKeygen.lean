-- written by bin/mkroundpins from /repo at commit 472862f
namespace Mps.SrcPins.SrcFrostKeygen
def f_config : List String := [
  "decl:Config e30cbfbf8a095ffdbebe818a",
  "EmptyConfig 6db6bc3ebe4f09a405447a2a",
  "Config.Validate 010add0b1c2194179ff616e2",
  "Config.UnmarshalCBOR bd614e5b91845a302897040c",
  "validateShares 03096312616ccbdc25e9def4",
  "Config.Curve c13eeed57807701212945039",
  "Config.Derive 51401ef5680ebf4a0b04dfd3",
  "Config.DeriveChild e146604ec6f9edf6761db05b",
  "decl:TaprootConfig 8880c82b316382647cac3150",
  "TaprootConfig.Validate abb636f11cee5841bba425f8",
  "TaprootConfig.UnmarshalCBOR 2f53c76f7b6fc26471a93fbc",
  "TaprootConfig.Clone cb75ad2590334cc24ae4d48b",
  "TaprootConfig.Derive fc1c575485670044517396ab",
  "TaprootConfig.DeriveChild c938fb502881ca0adbcc003e"
]
def f_keygen : List String := [
  "decl:protocolID,protocolIDTaproot,protocolRounds 9742a06eb6f62a9bd7a442ec",
  "decl:_,_,_ bb95a3d8c6716ca31814115d",
  "StartKeygenCommon b3fc0a33b07121a0d4727fca"
]
def f_round1 : List String := [
  "decl:round1 ead0255caee6332069dbe575",
  "round1.VerifyMessage 802d63134a23acda92d7513c",
  "round1.StoreMessage 802d63134a23acda92d7513c",
  "round1.Finalize 01f7471d045383692e9fa0ac",
  "round1.MessageContent f5267592076e4dbeca0c29aa",
  "round1.Number b4fc1b1a37769dc302afcc74"
]
def f_round2 : List String := [
  "decl:round2 3d6087e15c13ba30447f2cb0",
  "decl:broadcast2 58e4dd5d2b6d2aed716eaa5b",
  "round2.StoreBroadcastMessage 009b0f57a124ba9f4047b613",
  "round2.VerifyMessage 802d63134a23acda92d7513c",
  "round2.StoreMessage 802d63134a23acda92d7513c",
  "round2.Finalize f13284f75fb9b32a7754bb34",
  "round2.MessageContent f5267592076e4dbeca0c29aa",
  "broadcast2.RoundNumber afbf3b2d17fee1f6ce5e2421",
  "round2.BroadcastContent 3851d0b68c3787f4142697e3",
  "round2.Number afbf3b2d17fee1f6ce5e2421"
]
def f_round3 : List String := [
  "decl:round3 9a90430fdccb6c876ddece46",
  "decl:message3 e716be6c52158dde9f968ff4",
  "decl:broadcast3 c826e5283931f382fb91419f",
  "round3.StoreBroadcastMessage ef3d302703473d59bf00a255",
  "round3.VerifyMessage 4f12ac94ffeaf0577d2a33ae",
  "round3.StoreMessage 482d3ccae3ffa2c685605d5f",
  "round3.Finalize af125d7479f5898d39885754",
  "message3.RoundNumber 79c98029d401cf189a9ed9a5",
  "round3.MessageContent cce1b208abcb4da491b3609a",
  "broadcast3.RoundNumber 79c98029d401cf189a9ed9a5",
  "round3.BroadcastContent 7793c87500ce7c9da1257691",
  "round3.Number 79c98029d401cf189a9ed9a5"
]
def files : List String := [
  "f_config",
  "f_keygen",
  "f_round1",
  "f_round2",
  "f_round3"
]
end Mps.SrcPins.SrcFrostKeygen
