-- written by bin/mkroundpins from /repo at commit 472862f
namespace Mps.SrcPins.SrcLPkgMathPolynomial
def f_exponent : List String := [
  "decl:rawExponentData 849d8b4ca43217bd686eed2b",
  "decl:Exponent 165472b45c476d025fe4eb01",
  "NewPolynomialExponent e180b5196c8fbfa2ad967271",
  "Exponent.Evaluate 202589c3e9e070c87053e291",
  "Exponent.evaluateClassic 3153f9df0e511c7d6bc60c33",
  "Exponent.Degree f1109cb81cdff04de9b4de13",
  "Exponent.add 33100c487aabdc3f1e9b014d",
  "Sum 394e144dacd53025fdc3a647",
  "Exponent.copy 5629ab63a1c1db28a787ed5c",
  "Exponent.Equal be042109f8646403bacea992",
  "Exponent.Constant cb531f451a25f366fdeb5107",
  "Exponent.WriteTo 9f7aefa04148d5828f190893",
  "Exponent.Domain da61ca8e2c5462762132764c",
  "EmptyExponent f8f19805a845ddfffb1ca8ca",
  "Exponent.UnmarshalBinary baafbef47ff1349edaa76153",
  "Exponent.MarshalBinary b9bc634113d7b3590dc27d24"
]
def f_lagrange : List String := [
  "Lagrange c20def6f4b1eb4a671c3b1f2",
  "LagrangeFor cdca74005f71c4e945458c3e",
  "LagrangeSingle b4cffd0549c7ccac8e22c120",
  "getScalarsAndNumerator 1c01974277552ecaeb0673a6",
  "lagrange e005578e416ca6e5cacffb36"
]
def f_polynomial : List String := [
  "decl:Polynomial 101309591bafaff8ec1f3a96",
  "NewPolynomial 829c74bcdfca58d1d37b86bd",
  "Polynomial.Evaluate 2eddb76fc77c52a9041742e0",
  "Polynomial.Constant 53158a20d9a86f7c9bf36e1c",
  "Polynomial.Degree a34fbf61bdee934f29ebe38f"
]
def files : List String := [
  "f_exponent",
  "f_lagrange",
  "f_polynomial"
]
end Mps.SrcPins.SrcLPkgMathPolynomial
