-- written by bin/mkroundpins from /repo at commit 472862f
namespace Mps.SrcPins.SrcLPkgPool
def f_hook_noverif : List String := [
  "yield be9a683c17ae4f9a818810db"
]
def f_hook_verif : List String := [
  "decl:YieldHook 66fb0dacda375203fe5ac7c4",
  "decl:yieldBox 56a4c4dc91d1142c9481269a",
  "decl:yieldHook 10419c631c1388ca53b57b83",
  "SetYieldHook d27f32a611816daa699280c6",
  "yield 6ead5b25725eb160b2b5cc2e"
]
def f_pool : List String := [
  "searchAlone 1a89fd6eb7c32e071fd4469e",
  "parallelizeAlone f7de1d5b5d3b6d0a302534b6",
  "decl:command 8d39eb418ad89c0c1935cfaf",
  "workerSearch 67e5edad81b12a91f32fffb5",
  "worker c642a3c995dee210c35438e3",
  "decl:Pool a6c02d17f199c548e3b9bd25",
  "NewPool ec20f422f3d99bf80ac46b38",
  "Pool.TearDown 2ad7be5a02a8e236b8374ed1",
  "Pool.Search fbc020629a1806cfaf62996b",
  "Pool.Parallelize 0ac1b1a2dc87ea3c5ec3507f",
  "decl:LockedReader a72dfb1be67fcfa502b8f615",
  "NewLockedReader 124f6443571018a6737e3717",
  "LockedReader.Read 23c605c0f70113d1730f74f6"
]
def files : List String := [
  "f_hook_noverif",
  "f_hook_verif",
  "f_pool"
]
end Mps.SrcPins.SrcLPkgPool
