-- written by bin/mkroundpins from /repo at commit 472862f
namespace Mps.SrcPins.SrcLPkgZkFac
def f_fac : List String := [
  "decl:Public c5867ec58abfe9f466679d25",
  "decl:Private 6a30b796cec6a0c2f7941a5b",
  "decl:Commitment d8087c77c7bc1e51bd5ce8be",
  "decl:Proof b042897f965b4e722b04bf70",
  "NewProof 909d12bad3e4918e795e6de5",
  "Proof.Verify 9ca7d5fef8ad4911b1f77307",
  "challenge 22d1fa4a3f8341832375cd58"
]
def files : List String := [
  "f_fac"
]
end Mps.SrcPins.SrcLPkgZkFac
