-- written by bin/mkroundpins from /repo at commit 472862f
namespace Mps.SrcPins.SrcCmpPresign
def f_abort1 : List String := [
  "decl:_ 79a7ceeb05fd011b068fcb62",
  "decl:abort1 28a1178db5ef6b48ce9bc963",
  "decl:broadcastAbort1 30f7e64be98c669e18fbe9a3",
  "abort1.StoreBroadcastMessage 6aeda8ef89b1e6d911feab79",
  "abort1.VerifyMessage 802d63134a23acda92d7513c",
  "abort1.StoreMessage 802d63134a23acda92d7513c",
  "abort1.Finalize 2e3703bf12fb92a11ad4ad63",
  "abort1.MessageContent f5267592076e4dbeca0c29aa",
  "broadcastAbort1.RoundNumber f45525cb9ef102cfdafb5e67",
  "abort1.BroadcastContent eedd1aff3ebbc002de8c264b",
  "abort1.Number f45525cb9ef102cfdafb5e67",
  "decl:abortNth e18a3eff4200ecf94502e6bd",
  "proveNth 2766b6f3fa75b18115591898",
  "abortNth.Verify 182d2764cb558b7c21cea6cd"
]
def f_abort2 : List String := [
  "decl:_ 900415305e8c0b030cb21181",
  "decl:abort2 701bb483f3d335764d54afd7",
  "decl:broadcastAbort2 0ce87ba2d2b4e1fdfb676d2a",
  "abort2.StoreBroadcastMessage 2566ad741cf7828134dca1d5",
  "abort2.VerifyMessage 802d63134a23acda92d7513c",
  "abort2.StoreMessage 802d63134a23acda92d7513c",
  "abort2.Finalize 9598fae1d9e9545409b77cec",
  "abort2.MessageContent f5267592076e4dbeca0c29aa",
  "broadcastAbort2.RoundNumber 5012924adb9ffb93a07ca1b1",
  "abort2.BroadcastContent db183d9c5aad45ca3fd2ec13",
  "abort2.Number 5012924adb9ffb93a07ca1b1"
]
def f_presign1 : List String := [
  "decl:_ b207b5cfbe3f3fa5e390adf2",
  "decl:presign1 5d8c3ce3a29dc98485652163",
  "presign1.VerifyMessage 802d63134a23acda92d7513c",
  "presign1.StoreMessage 802d63134a23acda92d7513c",
  "presign1.Finalize 7881b1cf2b8108dcd4495b3c",
  "presign1.MessageContent f5267592076e4dbeca0c29aa",
  "presign1.Number b4fc1b1a37769dc302afcc74"
]
def f_presign2 : List String := [
  "decl:_ f03f0fe09a4aff6ef7957b09",
  "decl:presign2 cb2ea0cf8dc56912e649609c",
  "decl:broadcast2 3088c9429f6c438f1d3e2b8c",
  "decl:message2 c59cf16cc846e6f35f3530af",
  "presign2.StoreBroadcastMessage e1d7295c3ab0de8079f478b5",
  "presign2.VerifyMessage 09093536e08bde1fb16adb50",
  "presign2.StoreMessage 802d63134a23acda92d7513c",
  "presign2.Finalize 208cd27d3df65287b21db3d7",
  "message2.RoundNumber afbf3b2d17fee1f6ce5e2421",
  "presign2.MessageContent c075bf999450100a992e0940",
  "broadcast2.RoundNumber afbf3b2d17fee1f6ce5e2421",
  "presign2.BroadcastContent 2d940e0fb64daa0211f21932",
  "presign2.Number afbf3b2d17fee1f6ce5e2421"
]
def f_presign3 : List String := [
  "decl:_ 6d3ba316ea219f232bc0b47d",
  "decl:presign3 97ca7132ba9dd6bbb389f321",
  "decl:broadcast3 cc16358de644c25b824a876a",
  "decl:message3 3dedf2f49989d297c2029215",
  "presign3.StoreBroadcastMessage e1cc990cdf75877ea564415f",
  "presign3.VerifyMessage f9c8c2e910e3a1bb91dd31ac",
  "presign3.StoreMessage 802d63134a23acda92d7513c",
  "presign3.Finalize b437928622237437c2328b1a",
  "message3.RoundNumber 79c98029d401cf189a9ed9a5",
  "presign3.MessageContent e3927ac54f8f190fe4e85399",
  "broadcast3.RoundNumber 79c98029d401cf189a9ed9a5",
  "presign3.BroadcastContent 7793c87500ce7c9da1257691",
  "presign3.Number 79c98029d401cf189a9ed9a5",
  "broadcast3.BroadcastData 2d725652d4092b001d86da81"
]
def f_presign4 : List String := [
  "decl:_ cb82e567d999383d4097b0e0",
  "decl:presign4 a5cf2bdc17428c1cd4f22f8c",
  "decl:broadcast4 5a59e5604831cdfb3cd5f69a",
  "presign4.StoreBroadcastMessage a77bc79027225c1dfe5c4530",
  "presign4.VerifyMessage 802d63134a23acda92d7513c",
  "presign4.StoreMessage 802d63134a23acda92d7513c",
  "presign4.Finalize c856910996fc3f26d3764b2e",
  "presign4.MessageContent f5267592076e4dbeca0c29aa",
  "broadcast4.RoundNumber 2f0406b57b2a5ab93a363714",
  "presign4.BroadcastContent c6dcff790e0639b7296f4cd7",
  "presign4.Number 2f0406b57b2a5ab93a363714"
]
def f_presign5 : List String := [
  "decl:_ c4b09beed5e989a63162f0e2",
  "decl:presign5 a7b55e5f4656c07b839f9262",
  "decl:message5 96189745e608d7b4f901ad27",
  "decl:broadcast5 b52358409487843fe43f4124",
  "presign5.StoreBroadcastMessage e3f100fb165c63dff14d97f6",
  "presign5.VerifyMessage e4d0c30b43bdd0c08497ab5c",
  "presign5.StoreMessage 802d63134a23acda92d7513c",
  "presign5.Finalize 22066dcab8a722c0076d6090",
  "message5.RoundNumber 3f92817c9481a77279e340a8",
  "presign5.MessageContent 30be10510407014fb191536d",
  "broadcast5.RoundNumber 3f92817c9481a77279e340a8",
  "presign5.BroadcastContent ab8cbe902dbb8f49014d5dbe",
  "presign5.Number 3f92817c9481a77279e340a8"
]
def f_presign6 : List String := [
  "decl:_ 024943679889eead463d19bf",
  "decl:presign6 d18b1fe9250549d0ff7dbae0",
  "decl:broadcast6 ceb71bb865899b8c937fa37d",
  "presign6.StoreBroadcastMessage aa074f65f26562e4725b6b79",
  "presign6.VerifyMessage 802d63134a23acda92d7513c",
  "presign6.StoreMessage d460581a3dffa53d53b326e6",
  "presign6.Finalize 61f2f04d284976040c81112a",
  "presign6.MessageContent f5267592076e4dbeca0c29aa",
  "broadcast6.RoundNumber 7d2e45f088d8cc2b199a46bb",
  "presign6.BroadcastContent 5ad90ce0d737729ab84d859f",
  "presign6.Number 7d2e45f088d8cc2b199a46bb"
]
def f_presign7 : List String := [
  "decl:_ a0cffe7439de8f4b27a26f7e",
  "decl:presign7 4c6c881180c80052d2ab7951",
  "decl:broadcast7 9a2ff1fee70560943fc6f308",
  "presign7.StoreBroadcastMessage f22860dcebfa238d1dfb4d20",
  "presign7.VerifyMessage 802d63134a23acda92d7513c",
  "presign7.StoreMessage 802d63134a23acda92d7513c",
  "presign7.Finalize c063188a100e619fc01e302c",
  "presign7.MessageContent f5267592076e4dbeca0c29aa",
  "broadcast7.RoundNumber f45525cb9ef102cfdafb5e67",
  "presign7.BroadcastContent 6c75d0ccf3d055073ed0eef3",
  "presign7.Number f45525cb9ef102cfdafb5e67"
]
def f_sign : List String := [
  "decl:protocolOfflineID,protocolOnlineID,protocolFullID,protocolOfflineRounds,protocolFullRounds 61e5eb0377f8db8b7635deb9",
  "StartPresign 27ea0736c18b8a3e93dd528b",
  "StartPresignOnline 414390687d2f18054ccbf348"
]
def f_sign1 : List String := [
  "decl:_ 5aa44eeedd972bd0d20cbd5c",
  "decl:sign1 95eebfd58842d13346247a01",
  "sign1.VerifyMessage 802d63134a23acda92d7513c",
  "sign1.StoreMessage 802d63134a23acda92d7513c",
  "sign1.Finalize 02d13a5e6a4c49ac2ec1ae7c",
  "sign1.MessageContent f5267592076e4dbeca0c29aa",
  "sign1.Number b4fc1b1a37769dc302afcc74"
]
def f_sign2 : List String := [
  "decl:_ 552dc8a706790b3a3a148894",
  "decl:sign2 e7375fdd07292d14f80b265a",
  "decl:broadcastSign2 65973e9a026dcc65f5555453",
  "sign2.StoreBroadcastMessage f9ee63f464a5c67df8031359",
  "sign2.VerifyMessage 802d63134a23acda92d7513c",
  "sign2.StoreMessage 802d63134a23acda92d7513c",
  "sign2.Finalize 7b10da15cf9a07ce55583434",
  "sign2.MessageContent f5267592076e4dbeca0c29aa",
  "broadcastSign2.RoundNumber 5012924adb9ffb93a07ca1b1",
  "sign2.BroadcastContent 55faafc2e0aaa8f0f3b70d75",
  "sign2.Number 5012924adb9ffb93a07ca1b1"
]
def files : List String := [
  "f_abort1",
  "f_abort2",
  "f_presign1",
  "f_presign2",
  "f_presign3",
  "f_presign4",
  "f_presign5",
  "f_presign6",
  "f_presign7",
  "f_sign",
  "f_sign1",
  "f_sign2"
]
end Mps.SrcPins.SrcCmpPresign
