-- written by bin/mkroundpins from /repo at commit 472862f
namespace Mps.SrcPins.SrcCmpPresign
def f_abort1 : List String := [
  "abort1.StoreBroadcastMessage 6aeda8ef89b1e6d911feab79",
  "abort1.VerifyMessage 802d63134a23acda92d7513c",
  "abort1.StoreMessage 802d63134a23acda92d7513c",
  "abort1.Finalize 2e3703bf12fb92a11ad4ad63",
  "abort1.MessageContent f5267592076e4dbeca0c29aa",
  "broadcastAbort1.RoundNumber f45525cb9ef102cfdafb5e67",
  "abort1.BroadcastContent eedd1aff3ebbc002de8c264b",
  "abort1.Number f45525cb9ef102cfdafb5e67",
  "proveNth 2766b6f3fa75b18115591898",
  "abortNth.Verify 182d2764cb558b7c21cea6cd"
]
def f_abort2 : List String := [
  "abort2.StoreBroadcastMessage 2566ad741cf7828134dca1d5",
  "abort2.VerifyMessage 802d63134a23acda92d7513c",
  "abort2.StoreMessage 802d63134a23acda92d7513c",
  "abort2.Finalize 9598fae1d9e9545409b77cec",
  "abort2.MessageContent f5267592076e4dbeca0c29aa",
  "broadcastAbort2.RoundNumber 5012924adb9ffb93a07ca1b1",
  "abort2.BroadcastContent db183d9c5aad45ca3fd2ec13",
  "abort2.Number 5012924adb9ffb93a07ca1b1"
]
def f_presign1 : List String := [
  "presign1.VerifyMessage 802d63134a23acda92d7513c",
  "presign1.StoreMessage 802d63134a23acda92d7513c",
  "presign1.Finalize 7881b1cf2b8108dcd4495b3c",
  "presign1.MessageContent f5267592076e4dbeca0c29aa",
  "presign1.Number b4fc1b1a37769dc302afcc74"
]
def f_presign2 : List String := [
  "presign2.StoreBroadcastMessage e1d7295c3ab0de8079f478b5",
  "presign2.VerifyMessage 09093536e08bde1fb16adb50",
  "presign2.StoreMessage 802d63134a23acda92d7513c",
  "presign2.Finalize 208cd27d3df65287b21db3d7",
  "message2.RoundNumber afbf3b2d17fee1f6ce5e2421",
  "presign2.MessageContent c075bf999450100a992e0940",
  "broadcast2.RoundNumber afbf3b2d17fee1f6ce5e2421",
  "presign2.BroadcastContent 2d940e0fb64daa0211f21932",
  "presign2.Number afbf3b2d17fee1f6ce5e2421"
]
def f_presign3 : List String := [
  "presign3.StoreBroadcastMessage e1cc990cdf75877ea564415f",
  "presign3.VerifyMessage f9c8c2e910e3a1bb91dd31ac",
  "presign3.StoreMessage 802d63134a23acda92d7513c",
  "presign3.Finalize b437928622237437c2328b1a",
  "message3.RoundNumber 79c98029d401cf189a9ed9a5",
  "presign3.MessageContent e3927ac54f8f190fe4e85399",
  "broadcast3.RoundNumber 79c98029d401cf189a9ed9a5",
  "presign3.BroadcastContent 7793c87500ce7c9da1257691",
  "presign3.Number 79c98029d401cf189a9ed9a5",
  "broadcast3.BroadcastData 2d725652d4092b001d86da81"
]
def f_presign4 : List String := [
  "presign4.StoreBroadcastMessage a77bc79027225c1dfe5c4530",
  "presign4.VerifyMessage 802d63134a23acda92d7513c",
  "presign4.StoreMessage 802d63134a23acda92d7513c",
  "presign4.Finalize c856910996fc3f26d3764b2e",
  "presign4.MessageContent f5267592076e4dbeca0c29aa",
  "broadcast4.RoundNumber 2f0406b57b2a5ab93a363714",
  "presign4.BroadcastContent c6dcff790e0639b7296f4cd7",
  "presign4.Number 2f0406b57b2a5ab93a363714"
]
def f_presign5 : List String := [
  "presign5.StoreBroadcastMessage e3f100fb165c63dff14d97f6",
  "presign5.VerifyMessage e4d0c30b43bdd0c08497ab5c",
  "presign5.StoreMessage 802d63134a23acda92d7513c",
  "presign5.Finalize 22066dcab8a722c0076d6090",
  "message5.RoundNumber 3f92817c9481a77279e340a8",
  "presign5.MessageContent 30be10510407014fb191536d",
  "broadcast5.RoundNumber 3f92817c9481a77279e340a8",
  "presign5.BroadcastContent ab8cbe902dbb8f49014d5dbe",
  "presign5.Number 3f92817c9481a77279e340a8"
]
def f_presign6 : List String := [
  "presign6.StoreBroadcastMessage aa074f65f26562e4725b6b79",
  "presign6.VerifyMessage 802d63134a23acda92d7513c",
  "presign6.StoreMessage d460581a3dffa53d53b326e6",
  "presign6.Finalize 61f2f04d284976040c81112a",
  "presign6.MessageContent f5267592076e4dbeca0c29aa",
  "broadcast6.RoundNumber 7d2e45f088d8cc2b199a46bb",
  "presign6.BroadcastContent 5ad90ce0d737729ab84d859f",
  "presign6.Number 7d2e45f088d8cc2b199a46bb"
]
def f_presign7 : List String := [
  "presign7.StoreBroadcastMessage f22860dcebfa238d1dfb4d20",
  "presign7.VerifyMessage 802d63134a23acda92d7513c",
  "presign7.StoreMessage 802d63134a23acda92d7513c",
  "presign7.Finalize c063188a100e619fc01e302c",
  "presign7.MessageContent f5267592076e4dbeca0c29aa",
  "broadcast7.RoundNumber f45525cb9ef102cfdafb5e67",
  "presign7.BroadcastContent 6c75d0ccf3d055073ed0eef3",
  "presign7.Number f45525cb9ef102cfdafb5e67"
]
def f_sign : List String := [
  "StartPresign 27ea0736c18b8a3e93dd528b",
  "StartPresignOnline 414390687d2f18054ccbf348"
]
def f_sign1 : List String := [
  "sign1.VerifyMessage 802d63134a23acda92d7513c",
  "sign1.StoreMessage 802d63134a23acda92d7513c",
  "sign1.Finalize 02d13a5e6a4c49ac2ec1ae7c",
  "sign1.MessageContent f5267592076e4dbeca0c29aa",
  "sign1.Number b4fc1b1a37769dc302afcc74"
]
def f_sign2 : List String := [
  "sign2.StoreBroadcastMessage f9ee63f464a5c67df8031359",
  "sign2.VerifyMessage 802d63134a23acda92d7513c",
  "sign2.StoreMessage 802d63134a23acda92d7513c",
  "sign2.Finalize 7b10da15cf9a07ce55583434",
  "sign2.MessageContent f5267592076e4dbeca0c29aa",
  "broadcastSign2.RoundNumber 5012924adb9ffb93a07ca1b1",
  "sign2.BroadcastContent 55faafc2e0aaa8f0f3b70d75",
  "sign2.Number 5012924adb9ffb93a07ca1b1"
]
def files : List String := [
  "f_abort1",
  "f_abort2",
  "f_presign1",
  "f_presign2",
  "f_presign3",
  "f_presign4",
  "f_presign5",
  "f_presign6",
  "f_presign7",
  "f_sign",
  "f_sign1",
  "f_sign2"
]
end Mps.SrcPins.SrcCmpPresign
