-- written by bin/mkroundpins from /repo at commit 472862f
namespace Mps.SrcPins.SrcLPkgZkSch
def f_sch : List String := [
  "decl:Randomness 513e99cc243aa66a7425c9fa",
  "decl:Commitment c4ae855e206b9bc15e9b3c95",
  "decl:Response c21822ea5cc4bbe76abf4251",
  "decl:Proof ebe7355b1d9d3e09bf4d21e6",
  "NewProof 93d2d351908d102db2426299",
  "NewRandomness a59cbdc3d15bda67279ec700",
  "challenge b59f341cee6f94321a2d184e",
  "Randomness.Prove 3ca22745885428901ed82a7e",
  "Randomness.Commitment 125d9dc4f8941988669c9473",
  "Response.Verify a079fa72c4e302a0be1153e7",
  "Proof.Verify 50950af02473b451fe2ad507",
  "Commitment.WriteTo 306144794aa8a4934ac13e27",
  "Commitment.Domain b453ac3e0d1b65c39fb2869d",
  "Commitment.IsValid 6c6ad93ec331d28b3b98aa81",
  "Response.IsValid 85fb4ae4e4ed97de973b3025",
  "Proof.IsValid fdb659a69ff59020cc7acf28",
  "EmptyProof 3fdf77d9f01634bc81735390",
  "EmptyResponse 632a66fdfe0639384adcb1b4",
  "EmptyCommitment 04fc12bb6429bbf9b6412e87"
]
def files : List String := [
  "f_sch"
]
end Mps.SrcPins.SrcLPkgZkSch
