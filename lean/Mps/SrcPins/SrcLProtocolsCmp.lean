-- written by bin/mkroundpins from /repo at commit 472862f
namespace Mps.SrcPins.SrcLProtocolsCmp
def f_cmp : List String := [
  "decl:Config 4b82b3f0d2b862128de8a2a0",
  "EmptyConfig 06413cf3d0ddeccc18f435ec",
  "Keygen 130da6fd91a781a236135811",
  "Refresh 45089bca3c595e7ad6b85347",
  "Sign e6e3b5d6551d4ea4903e35db",
  "Presign 3a8cd29c6d0fbebcd2227571",
  "PresignOnline bb08b07e975267cb223d6f11"
]
def files : List String := [
  "f_cmp"
]
end Mps.SrcPins.SrcLProtocolsCmp
