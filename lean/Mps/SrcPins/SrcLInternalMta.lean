-- written by bin/mkroundpins from /repo at commit 472862f
namespace Mps.SrcPins.SrcLInternalMta
def f_mta : List String := [
  "ProveAffG 60a4bdc2c46ab3dc9f10447a",
  "ProveAffP 588043ab8cc22f4c8593647c",
  "newMta e130ca4cb240dcc0e39457d6"
]
def files : List String := [
  "f_mta"
]
end Mps.SrcPins.SrcLInternalMta
