-- written by bin/mkroundpins from /repo at commit 472862f
namespace Mps.SrcPins.SrcLPkgMathSample
def f_hook_noverif : List String := [
  "paillierPrimeHook 35fea02043ec6899d928e2a4"
]
def f_hook_verif : List String := [
  "decl:PaillierPrimeHook be1af06deb6f3aca554487d5",
  "paillierPrimeHook 6d7d0d8b0a433a66759842ff"
]
def f_plus_minus : List String := [
  "sampleNeg 38262b3bfc0b2a9e8b4f346d",
  "IntervalL 36a597adae2f63267f949290",
  "IntervalLPrime 22a6a7ec27505de17c0b3c9f",
  "IntervalEps b2ca731036e6c9765fd6f4c4",
  "IntervalLEps 309545b0d38c68c137b3938a",
  "IntervalLPrimeEps cb0b81b5c80f3d377183cc24",
  "IntervalLN 46811da0188240f02a163b16",
  "IntervalLN2 4e57e0e4768e36eb8e478e47",
  "IntervalLEpsN 241bccf61ed3803f6d4db3ed",
  "IntervalLEpsN2 761e9f12b090d89f0527d7e6",
  "IntervalLEpsRootN db822ddf1cbdc454563025a0",
  "IntervalScalar f91a22ec1bb0a100dff48c46"
]
def f_prime : List String := [
  "primes 00c783b298413d00c3a39d90",
  "decl:sieveSize 635d0abc11d7fd79c78eb3da",
  "decl:primeBound 5da51131f41264ccb38097dc",
  "decl:blumPrimalityIterations 871037d67522428c3efacd3e",
  "decl:thePrimes fa74ce20fc30739c04f02cd7",
  "decl:initPrimes 13a2d828782151bdb2723e87",
  "decl:sievePool 5b857651562a830d56c69c78",
  "tryBlumPrime 90bf0396d020aaa346ac7621",
  "Paillier 4d6d2f0a9bc6c3ed2e19edbf"
]
def f_sample : List String := [
  "decl:maxIterations ea9a32de6a189604571428e9",
  "decl:ErrMaxIterations d51d1d3d1c0c6eaed05b4c50",
  "mustReadBits 245e8c350e3edf445f3f9a15",
  "ModN 755475524c7d35a18e71c514",
  "UnitModN d5596e9955224f955d6eed70",
  "QNR c9e93d4919facde94784cf85",
  "Pedersen f5221cfb2b4e37b935ca452f",
  "Scalar 8003a27e43e844822207a035",
  "ScalarUnit aa7a2b6169767cfa083ee863",
  "ScalarPointPair 3e1481f51723dfaec7c75672"
]
def files : List String := [
  "f_hook_noverif",
  "f_hook_verif",
  "f_plus_minus",
  "f_prime",
  "f_sample"
]
end Mps.SrcPins.SrcLPkgMathSample
