-- written by bin/mkroundpins from /repo at commit 472862f
namespace Mps.SrcPins.SrcLInternalSafecbor
def f_safecbor : List String := [
  "Unmarshal 7d36c00e745cce8febb5bffa"
]
def files : List String := [
  "f_safecbor"
]
end Mps.SrcPins.SrcLInternalSafecbor
