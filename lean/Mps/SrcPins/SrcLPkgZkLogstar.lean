-- written by bin/mkroundpins from /repo at commit 472862f
namespace Mps.SrcPins.SrcLPkgZkLogstar
def f_logstar : List String := [
  "decl:Public 54f1b23268ef0f3e73c190cf",
  "decl:Private a2c548a560225e86f0eb9b99",
  "decl:Commitment 0613da150d744d228c122ed1",
  "decl:Proof 37173edf184eb33f02a4be18",
  "Proof.IsValid 8a3a4e5072c75cc66baf6029",
  "NewProof 87a0c6883710a3cad1c8c020",
  "Proof.Verify b818a464d9fa26fe7cb77a21",
  "challenge 5b0dc74ef4d19ee2dbb79161",
  "Empty 420acd1b858c973d91f12bf7"
]
def files : List String := [
  "f_logstar"
]
end Mps.SrcPins.SrcLPkgZkLogstar
