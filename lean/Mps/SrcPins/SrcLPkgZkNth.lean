-- written by bin/mkroundpins from /repo at commit 472862f
namespace Mps.SrcPins.SrcLPkgZkNth
def f_nth : List String := [
  "decl:Public 4cd8eb308e8fffeb7eb13216",
  "decl:Private d0d86fbae54626bafae64f8f",
  "decl:Commitment ff4cbd299d809105b5703d10",
  "decl:Proof 747c78e3ba4a286a0b4c7e88",
  "Proof.IsValid 73406c0c98c86575d5667754",
  "NewProof a4d5003a343a8758d6ae68fd",
  "Proof.Verify 7b4c29249b105a54642b9d1f",
  "challenge 02717438cb1de71ec3c28d43"
]
def files : List String := [
  "f_nth"
]
end Mps.SrcPins.SrcLPkgZkNth
