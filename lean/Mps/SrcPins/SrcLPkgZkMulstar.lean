-- written by bin/mkroundpins from /repo at commit 472862f
namespace Mps.SrcPins.SrcLPkgZkMulstar
def f_mulstar : List String := [
  "decl:Public 8a83834e47e80588b67ac600",
  "decl:Private a2c548a560225e86f0eb9b99",
  "decl:Commitment 5e02777c7db7abf24750cfe5",
  "decl:Proof b46540be5cf8ec7244202e6e",
  "Proof.IsValid 8b5918ea546fc4606dfae941",
  "NewProof 905c57de3331c20961893501",
  "Proof.Verify 619e16e47a297c6b139a7d3b",
  "challenge 3c3e890eeb04f5a8b560defd",
  "Empty d8a6c2a9335b99e566b154e4"
]
def files : List String := [
  "f_mulstar"
]
end Mps.SrcPins.SrcLPkgZkMulstar
