-- written by bin/mkroundpins from /repo at commit 472862f
namespace Mps.SrcPins.SrcLPkgZkEnc
def f_enc : List String := [
  "decl:Public e6a62ae09a7b3c9b7e05f310",
  "decl:Private 964c8c08dbf38ae16570c320",
  "decl:Commitment 763deba089a2477ce004b974",
  "decl:Proof 113b7a1ad996383c3fdbfb14",
  "Proof.IsValid f5acc6a4614c7aa5e1772523",
  "NewProof e4b45d464595af98082cd1d8",
  "Proof.Verify d723986876bc494f9123cbd8",
  "challenge 80dcfb3add334881470d78c6"
]
def files : List String := [
  "f_enc"
]
end Mps.SrcPins.SrcLPkgZkEnc
