-- written by bin/mkroundpins from /repo at commit 472862f
namespace Mps.SrcPins.SrcLPkgZkPrm
def f_prm : List String := [
  "decl:Public 3963a591f2fab6267c06dff3",
  "decl:Private cadb028cd2e416f35f99c2e8",
  "decl:Proof a212223d3a3c824128511ec8",
  "Proof.IsValid e0a0f9156ad7dd3b2be9cfe0",
  "NewProof ac7db0648771892bdd15b292",
  "Proof.Verify 77d7bbdba6063130db167601",
  "challenge 96059166fbb1bb6e669e1b2f"
]
def files : List String := [
  "f_prm"
]
end Mps.SrcPins.SrcLPkgZkPrm
