-- written by bin/mkroundpins from /repo at commit 472862f
namespace Mps.SrcPins.SrcLPkgZkLog
def f_log : List String := [
  "decl:Public 837762825ab6200685f346ec",
  "decl:Private f64aeae7377cd7fd2252f5c8",
  "decl:Commitment 0b4b81364e53c6e50ba21818",
  "decl:Proof 8de7b86458b4cdd93f06bd74",
  "Proof.IsValid 8138e8489accb1823c2118ff",
  "NewProof 7ec44249e44b3e031dfa8a14",
  "Proof.Verify f08908f34e6454d3bb6076bc",
  "challenge 6feb5392591b5c4a4b806bcc",
  "Empty 734562251c8c50f79dbf5f9c"
]
def files : List String := [
  "f_log"
]
end Mps.SrcPins.SrcLPkgZkLog
