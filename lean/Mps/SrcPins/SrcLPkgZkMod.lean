-- written by bin/mkroundpins from /repo at commit 472862f
namespace Mps.SrcPins.SrcLPkgZkMod
def f_mod : List String := [
  "decl:Public c8881eca90388135bd176973",
  "decl:Private f7a6eaef25b244d9346317fb",
  "decl:Response 6de9eb9892ac99eb4eb93f32",
  "decl:Proof 9ef6974a66dc6eae4bf0f422",
  "isQRmodPQ 743d9984b6d635034ad637ce",
  "fourthRootExponent 3c995acc9c6c7c25ca9eb9c6",
  "makeQuadraticResidue 837d34262fe74308602070c0",
  "Proof.IsValid 044a2f9cdf4b63c4a394b9c7",
  "NewProof c6cec23bfa8e534c61ecaf1a",
  "Response.Verify 6fb9feae4748bb161f795010",
  "Proof.Verify d18740f94acb3a98fba21fa0",
  "challenge 9f702abd8babef0a858d82ef"
]
def files : List String := [
  "f_mod"
]
end Mps.SrcPins.SrcLPkgZkMod
