-- written by bin/mkroundpins from /repo at commit 472862f
namespace Mps.SrcPins.SrcCmpSign
def f_round1 : List String := [
  "decl:_ a94b7286b68a45d300dc2cba",
  "decl:round1 3ecfaaf8f03a10e937177e47",
  "round1.VerifyMessage 802d63134a23acda92d7513c",
  "round1.StoreMessage 802d63134a23acda92d7513c",
  "round1.Finalize a3da5d710ee9f87a5bc2b469",
  "round1.MessageContent f5267592076e4dbeca0c29aa",
  "round1.Number b4fc1b1a37769dc302afcc74"
]
def f_round2 : List String := [
  "decl:_ b47c42aab0281c87ec3f25de",
  "decl:round2 28030a1caea157c6e0771c06",
  "decl:broadcast2 7e3e8f57d540ba0c246b1bad",
  "decl:message2 0a812470359f3e3512235c27",
  "round2.StoreBroadcastMessage 4c2c83288e9865487c9a20b0",
  "round2.VerifyMessage 72bf735c7c07c8ccd6484149",
  "round2.StoreMessage 802d63134a23acda92d7513c",
  "round2.Finalize 8d83f9ecb35d40404c27f07e",
  "message2.RoundNumber afbf3b2d17fee1f6ce5e2421",
  "round2.MessageContent db6a3102558e6dd40e54571e",
  "broadcast2.RoundNumber afbf3b2d17fee1f6ce5e2421",
  "round2.BroadcastContent fbe50796b67950fb0f703027",
  "round2.Number afbf3b2d17fee1f6ce5e2421"
]
def f_round3 : List String := [
  "decl:_ b7100955b7674e785d6d5977",
  "decl:round3 0deec25686fb296d9535f20a",
  "decl:message3 514af7f1c19f0989a53f95cc",
  "decl:broadcast3 f631118464425b4601298361",
  "round3.StoreBroadcastMessage af131a7cce22cc690c06c889",
  "round3.VerifyMessage 3214851312f115c425db1767",
  "round3.StoreMessage 8f7365ce6cc4cd901fb92838",
  "round3.Finalize 4ad9484cfc706f8bdd280341",
  "message3.RoundNumber 79c98029d401cf189a9ed9a5",
  "round3.MessageContent 39352ed71680741daf417f21",
  "broadcast3.RoundNumber 79c98029d401cf189a9ed9a5",
  "round3.BroadcastContent e0e0e544ce1a050e4743be12",
  "round3.Number 79c98029d401cf189a9ed9a5"
]
def f_round4 : List String := [
  "decl:_ f4b9c235445f4b034681722d",
  "decl:round4 de90f1ae814b3bca1436a732",
  "decl:message4 1cd858953adeb53018422204",
  "decl:broadcast4 2b7863e68506a3e7bf957934",
  "round4.StoreBroadcastMessage 7db7708ddee5f121a247aed7",
  "round4.VerifyMessage 2773fb9097401f7d96b540e9",
  "round4.StoreMessage 802d63134a23acda92d7513c",
  "round4.Finalize 0020bcae15f106334b3d382b",
  "message4.RoundNumber 2f0406b57b2a5ab93a363714",
  "round4.MessageContent b9ee80a330c469876b7f8981",
  "broadcast4.RoundNumber 2f0406b57b2a5ab93a363714",
  "round4.BroadcastContent 6a6ac1a72868737cafc245c3",
  "round4.Number 2f0406b57b2a5ab93a363714"
]
def f_round5 : List String := [
  "decl:_ 4b6cd88f4aacdde33ff2c574",
  "decl:round5 d4a451f33bc3428eff237c05",
  "decl:broadcast5 178b8b8b0da6fd110b3cd1e6",
  "round5.StoreBroadcastMessage 8f4584b7a1f306192a569bbe",
  "round5.VerifyMessage 802d63134a23acda92d7513c",
  "round5.StoreMessage 802d63134a23acda92d7513c",
  "round5.Finalize bf2a6df87b026a042bec7d1d",
  "round5.MessageContent f5267592076e4dbeca0c29aa",
  "broadcast5.RoundNumber 3f92817c9481a77279e340a8",
  "round5.BroadcastContent a7a683adf5a8bffdaeca0da7",
  "round5.Number 3f92817c9481a77279e340a8"
]
def f_sign : List String := [
  "decl:protocolSignID,protocolSignRounds 435d802d5e3b25961e84c219",
  "StartSign de5a629fe41f71c7150ea967"
]
def files : List String := [
  "f_round1",
  "f_round2",
  "f_round3",
  "f_round4",
  "f_round5",
  "f_sign"
]
end Mps.SrcPins.SrcCmpSign
