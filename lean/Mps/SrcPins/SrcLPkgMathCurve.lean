-- written by bin/mkroundpins from /repo at commit 472862f
namespace Mps.SrcPins.SrcLPkgMathCurve
def f_curve : List String := [
  "decl:Curve 400050ee03a36efa10b7fd7b",
  "decl:Scalar fe2d5e90e109bcc35a675825",
  "decl:Point 2be4099010d7d96c32f4a617",
  "MakeInt 2cad7a442bbd650768e2edcb",
  "FromHash 4380d79adcca5a8a07ca7385"
]
def f_secp256k1 : List String := [
  "decl:secp256k1BaseX,secp256k1BaseY c3d77fbe99c7cf7bd9998869",
  "init 032f0321d358f4d5b5741a40",
  "decl:Secp256k1 ab80dff7a02d94fb03ad4971",
  "Secp256k1.NewPoint 90324dbfbea98b5397fa3216",
  "Secp256k1.NewBasePoint b7a005064d2b820d3a1963c4",
  "Secp256k1.NewScalar d23cf95d4f4732c79cd71c1e",
  "Secp256k1.ScalarBits f64b088d3bdde15c9bc28771",
  "Secp256k1.SafeScalarBytes 4ae10b938b43eca1f10d323b",
  "decl:secp256k1OrderNat,_ fcbc52a49b9ec39e41634329",
  "decl:secp256k1Order 090b2d3b930f6d01e6c6d26a",
  "Secp256k1.Order 1cde5c8317609c35346a4c30",
  "Secp256k1.LiftX 779d8f681f0085582c7f1f5f",
  "Secp256k1.Name a0f4bd2dc898bff075d27ad9",
  "decl:Secp256k1Scalar e1b36922ad3ae373517904f2",
  "secp256k1CastScalar b386578b894287f12ad50b3a",
  "Secp256k1Scalar.Curve c2c2f2941dc066ca73ad824c",
  "Secp256k1Scalar.MarshalBinary 81455827d2ccb5cc436eb86d",
  "Secp256k1Scalar.UnmarshalBinary 92c204af09350f5ae2d0c148",
  "Secp256k1Scalar.Add cb1174685bc7704350f834d0",
  "Secp256k1Scalar.Sub e46b0c74a8d9be213bc3a322",
  "Secp256k1Scalar.Mul c388ab55fd615ef2becce63a",
  "Secp256k1Scalar.Invert 697e0893f72228dfd1eb2aaa",
  "Secp256k1Scalar.Negate e8490a5425b58cc9f774dcb3",
  "Secp256k1Scalar.IsOverHalfOrder ad73b1939098c8d7c6b12533",
  "Secp256k1Scalar.Equal 01cd5414401336d0ff4701a3",
  "Secp256k1Scalar.IsZero f86927d9e167a9d5b5f29567",
  "Secp256k1Scalar.Set 26947eb03acfa5172eefe186",
  "Secp256k1Scalar.SetNat 154ea163f2e547198bc9cb40",
  "Secp256k1Scalar.Act 9f1fff30627e12f28416edc3",
  "Secp256k1Scalar.ActOnBase 5d4216904602381ed6163efc",
  "decl:Secp256k1Point 9b404c3328fb6243544679be",
  "secp256k1CastPoint 0c1796b5f0bbf67b5fe2fbda",
  "Secp256k1Point.Curve c2c2f2941dc066ca73ad824c",
  "Secp256k1Point.XBytes a233710e83d99532211d56f1",
  "Secp256k1Point.MarshalBinary 715585bf9885cd12856e583b",
  "Secp256k1Point.UnmarshalBinary 1aaeb330d0aa747320605432",
  "Secp256k1Point.Add d9c6292c26760314e25db046",
  "Secp256k1Point.Sub ba29137af6dbfb35c7c9f106",
  "Secp256k1Point.Set ed7af02402acac866aca882d",
  "Secp256k1Point.Negate 243d9b793f0ecf05c964405c",
  "Secp256k1Point.Equal 0797a6bf479493b383f7959b",
  "Secp256k1Point.IsIdentity 7bd0ab0cd39877c6351cf0ef",
  "Secp256k1Point.HasEvenY 95f2932efc67ef394e03c4bc",
  "Secp256k1Point.XScalar a0711414054eb9a2534fa3fc"
]
def files : List String := [
  "f_curve",
  "f_secp256k1"
]
end Mps.SrcPins.SrcLPkgMathCurve
