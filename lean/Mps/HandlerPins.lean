-- written by bin/mkhandlerpins from /repo at commit 472862f: the handler source the models were validated against
namespace Mps.HandlerPins
def mhAbort : List String := [
  "if err != nil {",
  "h.err = &Error{ Culprits: culprits, Err: err, }",
  "select { case h.out <- &Message{ SSID: h.currentRound.SSID(), From: h.currentRound.SelfID(), Protocol: h.currentRound.ProtocolID(), Data: []byte(h.err.Error()), }: default: }",
  "}",
  "close(h.out)"
]
def mhAbortVerification : List String := [
  "if errors.Is(err, errBroadcastVerification) {",
  "h.abort(err)",
  "return",
  "}",
  "h.abort(err, from)"
]
def mhAccept : List String := [
  "h.mtx.Lock()",
  "defer h.mtx.Unlock()",
  "if !h.canAccept(msg) || h.err != nil || h.result != nil || h.duplicate(msg) {",
  "return",
  "}",
  "if msg.RoundNumber == 0 {",
  "h.abort(fmt.Errorf(\"aborted by other party with error: \\\"%s\\\"\", msg.Data), msg.From)",
  "return",
  "}",
  "h.store(msg)",
  "if h.currentRound.Number() != msg.RoundNumber {",
  "return",
  "}",
  "if msg.Broadcast {",
  "if err := h.verifyBroadcastMessage(msg); err != nil {",
  "h.abortVerification(err, msg.From)",
  "return",
  "}",
  "} else {",
  "if err := h.verifyMessage(msg); err != nil {",
  "h.abortVerification(err, msg.From)",
  "return",
  "}",
  "}",
  "h.finalize()"
]
def mhCanAccept : List String := [
  "h.mtx.Lock()",
  "defer h.mtx.Unlock()",
  "return h.canAccept(msg)"
]
def mhCanAcceptInner : List String := [
  "r := h.currentRound",
  "if msg == nil {",
  "return false",
  "}",
  "if !msg.IsFor(r.SelfID()) {",
  "return false",
  "}",
  "if msg.Protocol != r.ProtocolID() {",
  "return false",
  "}",
  "if !bytes.Equal(msg.SSID, r.SSID()) {",
  "return false",
  "}",
  "if !r.PartyIDs().Contains(msg.From) {",
  "return false",
  "}",
  "if msg.Data == nil {",
  "return false",
  "}",
  "if msg.RoundNumber > r.FinalRoundNumber() {",
  "return false",
  "}",
  "if msg.RoundNumber < r.Number() && msg.RoundNumber > 0 {",
  "return false",
  "}",
  "return true"
]
def mhCheckBroadcastHash : List String := [
  "number := h.currentRound.Number()",
  "previousHash := h.broadcastHashes[number-1]",
  "if previousHash == nil {",
  "return true",
  "}",
  "for _, msg := range h.messages[number] {",
  "if msg != nil && !bytes.Equal(previousHash, msg.BroadcastVerification) {",
  "return false",
  "}",
  "}",
  "for _, msg := range h.broadcast[number] {",
  "if msg != nil && !bytes.Equal(previousHash, msg.BroadcastVerification) {",
  "return false",
  "}",
  "}",
  "return true"
]
def mhDuplicate : List String := [
  "if msg.RoundNumber == 0 {",
  "return false",
  "}",
  "var q map[party.ID]*Message",
  "if msg.Broadcast {",
  "q = h.broadcast[msg.RoundNumber]",
  "} else {",
  "q = h.messages[msg.RoundNumber]",
  "}",
  "if q == nil {",
  "return true",
  "}",
  "return q[msg.From] != nil"
]
def mhExpectsNormalMessage : List String := [
  "return r.MessageContent() != nil"
]
def mhFinalize : List String := [
  "if !h.receivedAll() {",
  "return",
  "}",
  "if !h.checkBroadcastHash() {",
  "h.abort(errBroadcastVerification)",
  "return",
  "}",
  "out := make(chan *round.Message, h.currentRound.N()+1)",
  "r, err := h.currentRound.Finalize(out)",
  "close(out)",
  "if err != nil || r == nil {",
  "h.abort(err, h.currentRound.SelfID())",
  "return",
  "}",
  "for roundMsg, _ := range out {",
  "data, err := cbor.Marshal(roundMsg.Content)",
  "if err != nil {",
  "panic(fmt.Errorf(\"failed to marshal round message: %w\", err))",
  "}",
  "msg := &Message{ SSID: r.SSID(), From: r.SelfID(), To: roundMsg.To, Protocol: r.ProtocolID(), RoundNumber: roundMsg.Content.RoundNumber(), Data: data, Broadcast: roundMsg.Broadcast, BroadcastVerification: h.broadcastHashes[r.Number()-1], }",
  "if msg.Broadcast {",
  "h.store(msg)",
  "}",
  "h.out <- msg",
  "}",
  "roundNumber := r.Number()",
  "if _, ok := h.rounds[roundNumber]; ok {",
  "return",
  "}",
  "h.rounds[roundNumber] = r",
  "h.currentRound = r",
  "switch R := r.(type) { case *round.Abort: h.abort(R.Err, R.Culprits...) return case *round.Output: h.result = R.Result h.abort(nil) return default: }",
  "if _, ok := r.(round.BroadcastRound); ok {",
  "for id, m := range h.broadcast[roundNumber] {",
  "if m == nil || id == r.SelfID() {",
  "continue",
  "}",
  "if err = h.verifyBroadcastMessage(m); err != nil {",
  "h.abortVerification(err, m.From)",
  "return",
  "}",
  "}",
  "} else {",
  "for _, m := range h.messages[roundNumber] {",
  "if m == nil {",
  "continue",
  "}",
  "if err = h.verifyMessage(m); err != nil {",
  "h.abortVerification(err, m.From)",
  "return",
  "}",
  "}",
  "}",
  "h.finalize()"
]
def mhGetRoundMessage : List String := [
  "var content round.Content",
  "if msg.Broadcast {",
  "b, ok := r.(round.BroadcastRound)",
  "if !ok {",
  "return round.Message{}, errors.New(\"got broadcast message when none was expected\")",
  "}",
  "content = b.BroadcastContent()",
  "} else {",
  "content = r.MessageContent()",
  "}",
  "if err := safecbor.Unmarshal(msg.Data, content); err != nil {",
  "return round.Message{}, fmt.Errorf(\"failed to unmarshal: %w\", err)",
  "}",
  "to := msg.To",
  "if to == \"\" && !msg.Broadcast {",
  "to = r.SelfID()",
  "}",
  "roundMsg := round.Message{ From: msg.From, To: to, Content: content, Broadcast: msg.Broadcast, }",
  "return roundMsg, nil"
]
def mhListen : List String := [
  "h.mtx.Lock()",
  "defer h.mtx.Unlock()",
  "return h.out"
]
def mhNew : List String := [
  "r, err := create(sessionID)",
  "if err != nil {",
  "return nil, fmt.Errorf(\"protocol: failed to create round: %w\", err)",
  "}",
  "h := &MultiHandler{ currentRound: r, rounds: map[round.Number]round.Session{r.Number(): r}, messages: newQueue(r.OtherPartyIDs(), r.FinalRoundNumber()), broadcast: newQueue(r.OtherPartyIDs(), r.FinalRoundNumber()), broadcastHashes: map[round.Number][]byte{}, out: make(chan *Message, (int(r.FinalRoundNumber())+1)*(r.N()+1)), }",
  "h.finalize()",
  "return h, nil"
]
def mhNewQueue : List String := [
  "n := len(senders)",
  "q := make(map[round.Number]map[party.ID]*Message, rounds)",
  "for i := round.Number(2); i <= rounds; i++ {",
  "q[i] = make(map[party.ID]*Message, n)",
  "for _, id := range senders {",
  "q[i][id] = nil",
  "}",
  "}",
  "return q"
]
def mhReceivedAll : List String := [
  "r := h.currentRound",
  "number := r.Number()",
  "if _, ok := r.(round.BroadcastRound); ok {",
  "if h.broadcast[number] == nil {",
  "return true",
  "}",
  "for _, id := range r.PartyIDs() {",
  "msg := h.broadcast[number][id]",
  "if msg == nil {",
  "return false",
  "}",
  "}",
  "if h.broadcastHashes[number] == nil {",
  "hashState := r.Hash()",
  "for _, id := range r.PartyIDs() {",
  "msg := h.broadcast[number][id]",
  "_ = hashState.WriteAny(&hash.BytesWithDomain{ TheDomain: \"Message\", Bytes: msg.Hash(), })",
  "}",
  "h.broadcastHashes[number] = hashState.Sum()",
  "}",
  "}",
  "if expectsNormalMessage(r) {",
  "if h.messages[number] == nil {",
  "return true",
  "}",
  "for _, id := range r.OtherPartyIDs() {",
  "if h.messages[number][id] == nil {",
  "return false",
  "}",
  "}",
  "}",
  "return true"
]
def mhResult : List String := [
  "h.mtx.Lock()",
  "defer h.mtx.Unlock()",
  "if h.result != nil {",
  "return h.result, nil",
  "}",
  "if h.err != nil {",
  "return nil, *h.err",
  "}",
  "return nil, errors.New(\"protocol: not finished\")"
]
def mhSameBroadcastView : List String := [
  "previousHash := h.broadcastHashes[msg.RoundNumber-1]",
  "return previousHash == nil || bytes.Equal(previousHash, msg.BroadcastVerification)"
]
def mhStop : List String := [
  "h.mtx.Lock()",
  "defer h.mtx.Unlock()",
  "if h.err != nil || h.result != nil {",
  "return",
  "}",
  "h.abort(errors.New(\"aborted by user\"), h.currentRound.SelfID())"
]
def mhStore : List String := [
  "var q map[party.ID]*Message",
  "if msg.Broadcast {",
  "q = h.broadcast[msg.RoundNumber]",
  "} else {",
  "q = h.messages[msg.RoundNumber]",
  "}",
  "if q == nil || q[msg.From] != nil {",
  "return",
  "}",
  "q[msg.From] = msg"
]
def mhVerifyBroadcastMessage : List String := [
  "r, ok := h.rounds[msg.RoundNumber]",
  "if !ok {",
  "return nil",
  "}",
  "if !h.sameBroadcastView(msg) {",
  "return errBroadcastVerification",
  "}",
  "roundMsg, err := getRoundMessage(msg, r)",
  "if err != nil {",
  "return err",
  "}",
  "if err = r.(round.BroadcastRound).StoreBroadcastMessage(roundMsg); err != nil {",
  "return fmt.Errorf(\"round %d: %w\", r.Number(), err)",
  "}",
  "if !expectsNormalMessage(r) {",
  "return nil",
  "}",
  "msg = h.messages[msg.RoundNumber][msg.From]",
  "if msg == nil {",
  "return nil",
  "}",
  "return h.verifyMessage(msg)"
]
def mhVerifyMessage : List String := [
  "r, ok := h.rounds[msg.RoundNumber]",
  "if !ok {",
  "return nil",
  "}",
  "if _, ok = r.(round.BroadcastRound); ok {",
  "q := h.broadcast[msg.RoundNumber]",
  "if q == nil || q[msg.From] == nil {",
  "return nil",
  "}",
  "}",
  "if !h.sameBroadcastView(msg) {",
  "return errBroadcastVerification",
  "}",
  "roundMsg, err := getRoundMessage(msg, r)",
  "if err != nil {",
  "return err",
  "}",
  "if err = r.VerifyMessage(roundMsg); err != nil {",
  "return fmt.Errorf(\"round %d: %w\", r.Number(), err)",
  "}",
  "if err = r.StoreMessage(roundMsg); err != nil {",
  "return fmt.Errorf(\"round %d: %w\", r.Number(), err)",
  "}",
  "return nil"
]
def msgHash : List String := [
  "var broadcast byte",
  "if m.Broadcast {",
  "broadcast = 1",
  "}",
  "h := hash.New( hash.BytesWithDomain{TheDomain: \"SSID\", Bytes: m.SSID}, m.From, m.To, hash.BytesWithDomain{TheDomain: \"Protocol\", Bytes: []byte(m.Protocol)}, m.RoundNumber, hash.BytesWithDomain{TheDomain: \"Content\", Bytes: m.Data}, hash.BytesWithDomain{TheDomain: \"Broadcast\", Bytes: []byte{broadcast}}, hash.BytesWithDomain{TheDomain: \"BroadcastVerification\", Bytes: m.BroadcastVerification}, )",
  "return h.Sum()"
]
def msgIsFor : List String := [
  "if m.From == id {",
  "return false",
  "}",
  "return m.To == \"\" || m.To == id"
]
def tpAbort : List String := [
  "if err != nil {",
  "h.err = err",
  "select { case h.out <- &Message{ SSID: h.round.SSID(), From: h.round.SelfID(), Protocol: h.round.ProtocolID(), Data: []byte(h.err.Error()), }: default: }",
  "}",
  "close(h.out)"
]
def tpAccept : List String := [
  "h.mtx.Lock()",
  "defer h.mtx.Unlock()",
  "if !h.canAccept(msg) || h.err != nil || h.result != nil {",
  "return",
  "}",
  "if msg.RoundNumber == 0 {",
  "h.abort(fmt.Errorf(\"aborted by other party with error: \\\"%s\\\"\", msg.Data))",
  "return",
  "}",
  "h.messages[msg.RoundNumber] = msg",
  "h.advance()"
]
def tpAdvance : List String := [
  "for ; h.canAdvance();  {",
  "msg := h.messages[h.round.Number()]",
  "if err := h.verifyMessage(msg); err != nil {",
  "h.abort(err)",
  "return",
  "}",
  "out := make(chan *round.Message, 1)",
  "newRound, err := h.round.Finalize(out)",
  "if err != nil || newRound == nil {",
  "h.abort(err)",
  "return",
  "}",
  "close(out)",
  "for roundMsg, _ := range out {",
  "data, err := cbor.Marshal(roundMsg.Content)",
  "if err != nil {",
  "panic(fmt.Errorf(\"failed to marshal round message: %w\", err))",
  "}",
  "msg := &Message{ SSID: newRound.SSID(), From: newRound.SelfID(), To: roundMsg.To, Protocol: newRound.ProtocolID(), RoundNumber: roundMsg.Content.RoundNumber(), Data: data, Broadcast: roundMsg.Broadcast, BroadcastVerification: nil, }",
  "h.out <- msg",
  "}",
  "h.round = newRound",
  "switch R := newRound.(type) { case *round.Abort: h.abort(R.Err) return case *round.Output: h.result = R.Result h.abort(nil) return default: }",
  "}"
]
def tpCanAccept : List String := [
  "h.mtx.Lock()",
  "defer h.mtx.Unlock()",
  "return h.canAccept(msg)"
]
def tpCanAcceptInner : List String := [
  "r := h.round",
  "if msg == nil {",
  "return false",
  "}",
  "if !msg.IsFor(r.SelfID()) {",
  "return false",
  "}",
  "if msg.Protocol != r.ProtocolID() {",
  "return false",
  "}",
  "if !bytes.Equal(msg.SSID, r.SSID()) {",
  "return false",
  "}",
  "if !r.PartyIDs().Contains(msg.From) {",
  "return false",
  "}",
  "if msg.Data == nil {",
  "return false",
  "}",
  "if msg.RoundNumber > r.FinalRoundNumber() {",
  "return false",
  "}",
  "return true"
]
def tpCanAdvance : List String := [
  "if h.round.MessageContent() == nil {",
  "return true",
  "}",
  "if h.messages[h.round.Number()] != nil {",
  "return true",
  "}",
  "return false"
]
def tpExtractRoundMessage : List String := [
  "content := r.MessageContent()",
  "if err := safecbor.Unmarshal(msg.Data, content); err != nil {",
  "return round.Message{}, fmt.Errorf(\"failed to unmarshal message: %w\", err)",
  "}",
  "roundMsg := round.Message{ From: msg.From, To: msg.To, Content: content, Broadcast: msg.Broadcast, }",
  "return roundMsg, nil"
]
def tpListen : List String := [
  "h.mtx.Lock()",
  "defer h.mtx.Unlock()",
  "return h.out"
]
def tpNew : List String := [
  "r, err := create(sessionID)",
  "if err != nil {",
  "return nil, fmt.Errorf(\"protocol: failed to create round: %w\", err)",
  "}",
  "handler := &TwoPartyHandler{ round: r, leader: leader, err: nil, result: nil, messages: map[round.Number]*Message{}, out: make(chan *Message, int(r.FinalRoundNumber())+2), mtx: sync.Mutex{}, }",
  "if leader {",
  "handler.advance()",
  "}",
  "return handler, nil"
]
def tpResult : List String := [
  "h.mtx.Lock()",
  "defer h.mtx.Unlock()",
  "if h.result != nil {",
  "return h.result, nil",
  "}",
  "if h.err != nil {",
  "return nil, h.err",
  "}",
  "return nil, errors.New(\"protocol: not finished\")"
]
def tpStop : List String := [
  "h.mtx.Lock()",
  "defer h.mtx.Unlock()",
  "if h.err != nil || h.result != nil {",
  "return",
  "}",
  "h.abort(errors.New(\"aborted by user\"))"
]
def tpVerifyMessage : List String := [
  "if msg == nil {",
  "return nil",
  "}",
  "r := h.round",
  "roundMsg, err := extractRoundMessage(r, msg)",
  "if err != nil {",
  "return err",
  "}",
  "if err = r.VerifyMessage(roundMsg); err != nil {",
  "return fmt.Errorf(\"round %d: %w\", r.Number(), err)",
  "}",
  "if err = r.StoreMessage(roundMsg); err != nil {",
  "return fmt.Errorf(\"round %d: %w\", r.Number(), err)",
  "}",
  "return nil"
]
end Mps.HandlerPins
