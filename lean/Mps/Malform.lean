import Mps.Handler
/-
  C05: what a handler can be observed to do with ANY incoming message. An observation (`Snap`) is what
  the harness can see of a handler from outside: ended?, channel closed?, Result = error / value, number of
  messages emitted. `snapOf` extracts it from a state of the handler model (Mps.Handler); `obsOk` is the
  judgement the driver applies to the observations made on the real handlers.
-/
namespace Mps.Malform
open Mps Mps.Handler

structure Snap where
  ended   : Bool
  closed  : Bool
  err     : Bool
  res     : Bool
  emitted : Nat
  deriving DecidableEq, Repr, Inhabited

/-- running (open, no result, no error) or ended cleanly (closed, exactly one of error / result) -/
def snapGood (s : Snap) : Bool :=
  (s.ended == s.closed) && (s.ended == (s.err != s.res)) && (s.ended || (!s.err && !s.res))

def snapOf (s : State) : Snap :=
  { ended := terminal s, closed := s.closes == 1, err := s.err.isSome, res := s.result.isSome, emitted := s.out.length }

/-- the three things a party may do with a message: ignore it, carry on, end the session cleanly -/
inductive Outcome where
  | ignored | continued | endedCleanly
  deriving DecidableEq, Repr, Inhabited

/-- classification of one delivery from the observations before and after it -/
def classify (can : Bool) (before after : Snap) : Option Outcome :=
  if !snapGood before || !snapGood after then none
  else if before.ended then (if after == before then some .ignored else none)
  else if !can then (if after == before then some .ignored else none)
  else if after.ended then some .endedCleanly
  else some .continued

/-- the judgement on one case of the malformation stream: state before (s0), after the malformed message
    (s1), after the honest remainder (s2) -/
def obsOk (can : Bool) (s0 s1 s2 : Snap) : Bool :=
  (classify can s0 s1).isSome && snapGood s2 && (!s1.ended || s2 == s1)

end Mps.Malform
