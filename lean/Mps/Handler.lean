import Mps.Commit
/-
  M5: `protocol.MultiHandler` (pkg/protocol/handler.go) as a state machine over an abstract,
  scripted protocol. The state mirrors the Go struct field by field; every function below is a
  transcription of the method of the same name. The out channel is modelled as the list of
  messages emitted so far plus a close counter.

  The protocol run by the handler is a *script*: a list of rounds (number, expects-broadcast,
  expects-p2p). Message contents carry a value and flag bits; a round's verification fails iff
  the corresponding flag is set, stored values are summed (a commutative fold — the only thing
  the model assumes about rounds) and the last round outputs the sum. The same script is
  implemented against the real `round.Session` interface in the harness (suite `handler`).
-/
namespace Mps.Handler
open Mps

/-- decoded message content of the scripted protocol -/
structure Content where
  v : Nat
  f : Nat          -- flag bits, see below
  deriving DecidableEq, Repr, Inhabited

def fFailVerify : Nat := 1   -- VerifyMessage returns an error
def fFailStore  : Nat := 2   -- StoreMessage returns an error
def fFailStoreB : Nat := 4   -- StoreBroadcastMessage returns an error
def fAccuse     : Nat := 8   -- the round's Finalize returns AbortRound naming the sender

def hasFlag (f bit : Nat) : Bool := (f / bit) % 2 == 1

structure Msg where
  ssid  : Option Bytes
  frm   : Bytes
  to    : Bytes
  proto : Bytes
  rnd   : Nat
  data  : Option Bytes          -- nil Data is refused by CanAccept
  bcast : Bool
  bv    : Option Bytes          -- BroadcastVerification
  dec   : Option Content        -- what cbor.Unmarshal(data) into the round's content type gives
  deriving DecidableEq, Repr, Inhabited

structure RoundSpec where
  num   : Nat
  recvB : Bool     -- is a BroadcastRound
  recvP : Bool     -- MessageContent() ≠ nil
  deriving DecidableEq, Repr, Inhabited

structure Script where
  ids       : List Bytes        -- sorted party ids
  self      : Bytes
  final     : Nat               -- FinalRoundNumber
  rounds    : List RoundSpec    -- in execution order; the first one has recvB = recvP = false
  proto     : Bytes
  ssid      : Bytes
  sess      : List Item         -- the items in the session hash (`Helper.hash`)
  finErrAt  : Nat               -- own Finalize returns an error in the round with this number (0: never)
  deriving Repr, Inhabited

inductive ErrKind where
  | msgFail (frm : Bytes)          -- decode / verify / store failure of a message from `frm`
  | peerAbort (frm : Bytes)        -- a round-0 message: abort notice from `frm`
  | echoMismatch                   -- broadcast verification failed (no culprit)
  | finalizeErr                    -- own Finalize failed (culprit: self)
  | protoAbort (culprits : List Bytes)  -- the protocol's abort round
  | stopped                        -- Stop() by the user (culprit: self)
  deriving DecidableEq, Repr, Inhabited

structure State where
  sc      : Script
  idx     : Nat                         -- index of currentRound in sc.rounds (valid while cur ≠ 0)
  cur     : Nat                         -- currentRound.Number(); 0 once in Output / Abort
  reached : List Nat                    -- keys of h.rounds
  msgs    : List (Nat × Bytes × Msg)    -- h.messages: stored (round, from, msg)
  bc      : List (Nat × Bytes × Msg)    -- h.broadcast
  bh      : List (Nat × Bytes)          -- h.broadcastHashes
  err     : Option ErrKind
  result  : Option Nat
  out     : List Msg                    -- everything sent on h.out so far, in order
  closes  : Nat                         -- number of close(h.out) executed
  acc     : Nat                         -- protocol state: sum of stored values
  accused : List Bytes                  -- protocol state: senders whose stored content had fAccuse
  deriving Repr, Inhabited

def others (sc : Script) : List Bytes := sc.ids.filter (· != sc.self)

def lookup (q : List (Nat × Bytes × Msg)) (r : Nat) (frm : Bytes) : Option Msg :=
  (q.find? fun e => e.1 == r && e.2.1 == frm).map (·.2.2)

def bhLookup (bh : List (Nat × Bytes)) (r : Nat) : Option Bytes :=
  (bh.find? fun e => e.1 == r).map (·.2)

/-- `newQueue`: slots exist for rounds 2 … final and the given senders -/
def hasSlot (sc : Script) (r : Nat) : Bool := 2 ≤ r && r ≤ sc.final

def curSpec (s : State) : RoundSpec := s.sc.rounds.getD s.idx default

/-- `Message.IsFor` -/
def isFor (m : Msg) (id : Bytes) : Bool := if m.frm == id then false else (m.to == [] || m.to == id)

/-- `MultiHandler.CanAccept` -/
def canAccept (s : State) (m : Msg) : Bool :=
  isFor m s.sc.self
  && m.proto == s.sc.proto
  && (m.ssid.getD [] == s.sc.ssid)
  && s.sc.ids.contains m.frm
  && m.data.isSome
  && !(m.rnd > s.sc.final)
  && !(m.rnd < s.cur && m.rnd > 0)

/-- `duplicate` -/
def duplicate (s : State) (m : Msg) : Bool :=
  if m.rnd == 0 then false
  else if !hasSlot s.sc m.rnd then true
  else if m.bcast then (lookup s.bc m.rnd m.frm).isSome else (lookup s.msgs m.rnd m.frm).isSome

/-- `store`: first message wins; only into existing queues -/
def store (s : State) (m : Msg) : State :=
  if !hasSlot s.sc m.rnd then s
  else if m.bcast then
    (if (lookup s.bc m.rnd m.frm).isSome then s else { s with bc := s.bc ++ [(m.rnd, m.frm, m)] })
  else
    (if (lookup s.msgs m.rnd m.frm).isSome then s else { s with msgs := s.msgs ++ [(m.rnd, m.frm, m)] })

/-- `abort(err, culprits…)`; `none` is the `abort(nil)` after a result -/
def abort (s : State) (e : Option ErrKind) : State :=
  match e with
  | some k =>
    let notice : Msg := { ssid := some s.sc.ssid, frm := s.sc.self, to := [], proto := s.sc.proto, rnd := 0,
                          data := some [], bcast := false, bv := none, dec := none }
    { s with err := some k, out := s.out ++ [notice], closes := s.closes + 1 }
  | none => { s with closes := s.closes + 1 }

/-- the protocol's `VerifyMessage` + `StoreMessage` for a p2p message -/
def roundStoreP2P (s : State) (m : Msg) : Option State :=
  match m.dec with
  | none => none
  | some c =>
    if hasFlag c.f fFailVerify || hasFlag c.f fFailStore then none
    else some { s with acc := s.acc + c.v, accused := if hasFlag c.f fAccuse then s.accused ++ [m.frm] else s.accused }

/-- the protocol's `StoreBroadcastMessage` -/
def roundStoreBcast (s : State) (m : Msg) : Option State :=
  match m.dec with
  | none => none
  | some c =>
    if hasFlag c.f fFailStoreB then none
    else some { s with acc := s.acc + c.v, accused := if hasFlag c.f fAccuse then s.accused ++ [m.frm] else s.accused }

/-- outcome of verifying one message -/
inductive VRes where
  | ok (s : State)      -- stored (or nothing to do yet)
  | bad                 -- decoding / verification / storing failed: the sender is blamed
  | echo                -- the sender holds another view of the previous round's broadcasts: nobody is blamed

/-- `sameBroadcastView`: the hash of the previous round's broadcasts attached to `m` equals ours -/
def sameView (s : State) (m : Msg) : Bool :=
  match bhLookup s.bh (m.rnd - 1) with
  | none => true
  | some prev => m.bv.getD [] == prev

/-- `verifyMessage` for a message of the current round -/
def verifyMessage (s : State) (m : Msg) : VRes :=
  if !s.reached.contains m.rnd then .ok s
  else if (curSpec s).recvB && (lookup s.bc m.rnd m.frm).isNone then .ok s
  else if !sameView s m then .echo
  else if !(curSpec s).recvP then .bad      -- getRoundMessage: MessageContent() is nil ⇒ unmarshal error
  else match roundStoreP2P s m with
    | none => .bad
    | some s' => .ok s'

/-- `verifyBroadcastMessage` -/
def verifyBroadcastMessage (s : State) (m : Msg) : VRes :=
  if !s.reached.contains m.rnd then .ok s
  else if !sameView s m then .echo
  else if !(curSpec s).recvB then .bad      -- "got broadcast message when none was expected"
  else match roundStoreBcast s m with
    | none => .bad
    | some s1 =>
      if !(curSpec s1).recvP then .ok s1
      else match lookup s1.msgs m.rnd m.frm with
        | none => .ok s1
        | some p => verifyMessage s1 p

/-- honest content value of the scripted protocol: a fixed function of (sender, recipient, round) -/
def honestV (sc : Script) (frm to : Bytes) (r : Nat) : Nat :=
  (sc.ids.idxOf frm + 1) * 1000 + (if to == [] then 0 else (sc.ids.idxOf to + 1) * 10) + r

/-- minimal CBOR of the content struct `{V uint64; F uint8}` with `toarray`: 0x82, uint, uint -/
def cborUint (n : Nat) : Bytes :=
  if n < 24 then [UInt8.ofNat n]
  else if n < 256 then [24, UInt8.ofNat n]
  else if n < 65536 then 25 :: beN 2 n
  else if n < 4294967296 then 26 :: beN 4 n
  else 27 :: beN 8 n

def cborContent (c : Content) : Bytes := 0x82 :: (cborUint c.v ++ cborUint c.f)

/-- `Message.Hash` as an item list (To = "" and nil byte strings are refused by WriteAny and skipped) -/
def msgHashItems (m : Msg) : List Item :=
  let opt (dom : String) (b : Option Bytes) : List Item := match b with | none => [] | some x => [⟨str dom, x⟩]
  opt "SSID" m.ssid
  ++ (if m.frm = [] then [] else [⟨str "ID", m.frm⟩])
  ++ (if m.to = [] then [] else [⟨str "ID", m.to⟩])
  ++ [⟨str "Protocol", m.proto⟩, ⟨str "Round Number", be64 m.rnd⟩]
  ++ opt "Content" m.data
  ++ [⟨str "Broadcast", [if m.bcast then 1 else 0]⟩]
  ++ opt "BroadcastVerification" m.bv

def msgHash (H : Bytes → Bytes) (m : Msg) : Bytes := digestWith H (msgHashItems m)

/-- the echo hash of a broadcast round: session hash state, then every party's message hash in id order -/
def echoHash (H : Bytes → Bytes) (sc : Script) (bc : List (Nat × Bytes × Msg)) (r : Nat) : Option Bytes :=
  let ms := sc.ids.map fun id => lookup bc r id
  if ms.all Option.isSome then
    some (digestWith H (sc.sess ++ ms.filterMap (fun o => o.map fun m => ⟨str "Message", msgHash H m⟩)))
  else none

/-- the part of `receivedAll` that fills `broadcastHashes[number]` once every broadcast is there -/
def fillBh (H : Bytes → Bytes) (s : State) : State :=
  if (curSpec s).recvB && hasSlot s.sc s.cur then
    match echoHash H s.sc s.bc s.cur with
    | some h => if (bhLookup s.bh s.cur).isNone then { s with bh := s.bh ++ [(s.cur, h)] } else s
    | none => s
  else s

def p2pAll (s : State) : Bool :=
  if (curSpec s).recvP then
    (if !hasSlot s.sc s.cur then true else (others s.sc).all fun id => (lookup s.msgs s.cur id).isSome)
  else true

/-- the boolean answer of `receivedAll` -/
def receivedAllB (H : Bytes → Bytes) (s : State) : Bool :=
  if (curSpec s).recvB then
    (if !hasSlot s.sc s.cur then true      -- h.broadcast[number] == nil ⇒ "return true"
     else if (echoHash H s.sc s.bc s.cur).isNone then false
     else p2pAll s)
  else p2pAll s

/-- `receivedAll` (also fills broadcastHashes) -/
def receivedAll (H : Bytes → Bytes) (s : State) : Bool × State := (receivedAllB H s, fillBh H s)

/-- `checkBroadcastHash` -/
def checkBroadcastHash (s : State) : Bool :=
  match bhLookup s.bh (s.cur - 1) with
  | none => true
  | some prev =>
    (s.msgs.all fun e => e.1 != s.cur || e.2.2.bv.getD [] == prev)
    && (s.bc.all fun e => e.1 != s.cur || e.2.2.bv.getD [] == prev)

/-- what the scripted `Finalize` of the current round sends for the next round `nx` -/
def emitFor (s : State) (nx : RoundSpec) : List Msg :=
  let bvv := bhLookup s.bh (nx.num - 1)     -- h.broadcastHashes[r.Number()-1], r the NEW round
  let mk (to : Bytes) (b : Bool) : Msg :=
    let c : Content := ⟨honestV s.sc s.sc.self to nx.num, 0⟩
    { ssid := some s.sc.ssid, frm := s.sc.self, to := to, proto := s.sc.proto, rnd := nx.num,
      data := some (cborContent c), bcast := b, bv := bvv, dec := some c }
  (if nx.recvB then [mk [] true] else []) ++ (if nx.recvP then (others s.sc).map fun id => mk id false else [])

inductive Next where
  | round (idx : Nat) (spec : RoundSpec)
  | output (v : Nat)
  | abortRound (culprits : List Bytes)
  | error
  deriving Repr

/-- the scripted protocol's `Finalize` of the current round -/
def protoFinalize (s : State) : Next :=
  if s.sc.finErrAt != 0 && s.sc.finErrAt == s.cur then .error
  else if s.accused != [] then .abortRound s.accused
  else match s.sc.rounds[s.idx + 1]? with
    | some nx => .round (s.idx + 1) nx
    | none => .output s.acc

/-- why the replay of the queued messages stopped -/
inductive Fail where
  | culprit (c : Bytes)
  | echo
  deriving DecidableEq, Repr

def failOf (r : VRes) (frm : Bytes) (st : State) : State × Option Fail :=
  match r with
  | .ok st' => (st', none)
  | .bad => (st, some (.culprit frm))
  | .echo => (st, some .echo)

/-- one iteration of the loops over the queued messages in `finalize` -/
def replayStep (sp : RoundSpec) (n : Nat) (acc : State × Option Fail) (id : Bytes) : State × Option Fail :=
  match acc with
  | (st, some c) => (st, some c)
  | (st, none) =>
    if sp.recvB then
      if id == st.sc.self then (st, none) else
      match lookup st.bc n id with
      | none => (st, none)
      | some m => failOf (verifyBroadcastMessage st m) m.frm st
    else
      match lookup st.msgs n id with
      | none => (st, none)
      | some m => failOf (verifyMessage st m) m.frm st

/-- replay of the queued messages on entering a round (Go iterates a map; the model uses id order —
    with a single deviating party the outcome does not depend on it) -/
def replayQueued (s : State) : State × Option Fail :=
  s.sc.ids.foldl (replayStep (curSpec s) s.cur) (s, none)

/-- `abortVerification` -/
def errOf : Fail → ErrKind
  | .culprit c => .msgFail c
  | .echo => .echoMismatch

/-- the Output / Abort round has number 0 -/
def enter0 (s : State) : State := { s with reached := s.reached ++ [0], cur := 0 }

/-- own broadcast messages are stored; everything is sent -/
def sendAll (s : State) (ems : List Msg) : State :=
  let s2 := ems.foldl (fun st m => if m.bcast then store st m else st) s
  { s2 with out := s2.out ++ ems }

def enter (s : State) (i : Nat) (nx : RoundSpec) : State :=
  { s with reached := s.reached ++ [nx.num], cur := nx.num, idx := i }

inductive Step where
  | halt (s : State)      -- `finalize` returns
  | more (s : State)      -- `finalize` calls itself (a new round was entered and its queue replayed)

/-- one pass through the body of `finalize` -/
def finalizeStep (H : Bytes → Bytes) (s : State) : Step :=
  let s1 := fillBh H s
  if !receivedAllB H s then .halt s1
  else if !checkBroadcastHash s1 then .halt (abort s1 (some .echoMismatch))
  else match protoFinalize s1 with
    | .error => .halt (abort s1 (some .finalizeErr))
    | .abortRound cs =>
      if s1.reached.contains 0 then .halt s1 else .halt (abort (enter0 s1) (some (.protoAbort cs)))
    | .output v =>
      if s1.reached.contains 0 then .halt s1 else .halt (abort { enter0 s1 with result := some v } none)
    | .round i nx =>
      let s3 := sendAll s1 (emitFor s1 nx)
      if s3.reached.contains nx.num then .halt s3
      else match replayQueued (enter s3 i nx) with
        | (s5, some f) => .halt (abort s5 (some (errOf f)))
        | (s5, none) => .more s5

/-- `finalize`, with its tail recursion bounded by fuel (one unit per round entered) -/
def finalize (H : Bytes → Bytes) : Nat → State → State
  | 0, s => s
  | fuel + 1, s =>
    match finalizeStep H s with
    | .halt s' => s'
    | .more s' => finalize H fuel s'

/-- the handler struct as `NewMultiHandler` fills it in, before its first `finalize()` -/
def state0 (sc : Script) : State :=
  let r1 := sc.rounds.getD 0 default
  { sc := sc, idx := 0, cur := r1.num, reached := [r1.num], msgs := [], bc := [], bh := [],
    err := none, result := none, out := [], closes := 0, acc := 0, accused := [] }

/-- `NewMultiHandler` -/
def init (H : Bytes → Bytes) (sc : Script) : State := finalize H (sc.rounds.length + 1) (state0 sc)

def terminal (s : State) : Bool := s.err.isSome || s.result.isSome

/-- the part of `Accept` after the message was stored -/
def acceptStored (H : Bytes → Bytes) (s1 : State) (m : Msg) : State :=
  if s1.cur != m.rnd then s1
  else match (if m.bcast then verifyBroadcastMessage s1 m else verifyMessage s1 m) with
    | .bad => abort s1 (some (.msgFail m.frm))
    | .echo => abort s1 (some .echoMismatch)
    | .ok s2 => finalize H (s2.sc.rounds.length + 1) s2

/-- `Accept` -/
def accept (H : Bytes → Bytes) (s : State) (m : Msg) : State :=
  if !canAccept s m || terminal s || duplicate s m then s
  else if m.rnd == 0 then abort s (some (.peerAbort m.frm))
  else acceptStored H (store s m) m

/-- `Stop` (after the repair of the inverted guard): ends a running session, no-op otherwise -/
def stop (s : State) : State := if terminal s then s else abort s (some .stopped)

/-- culprit list reported by `Result()` for an error -/
def culpritsOf (sc : Script) : ErrKind → List Bytes
  | .msgFail f => [f]
  | .peerAbort f => [f]
  | .echoMismatch => []
  | .finalizeErr => [sc.self]
  | .protoAbort cs => cs
  | .stopped => [sc.self]

/-- the API of a handler -/
inductive Call where
  | accept (m : Msg)
  | canAccept (m : Msg)
  | listen
  | result
  | stop
  deriving Repr

/-- effect of a call on the handler state (CanAccept / Listen / Result only read) -/
def apply (H : Bytes → Bytes) (s : State) : Call → State
  | .accept m => accept H s m
  | .stop => stop s
  | _ => s

/-- any sequence of API calls on a freshly created handler -/
def run (H : Bytes → Bytes) (sc : Script) (calls : List Call) : State := calls.foldl (apply H) (init H sc)

end Mps.Handler
