import Mps.Session
import Mps.Secp256k1
/-
  M7 / C20: the decision logic of every start function, transcribed as total functions from an
  abstract description of the parameters to {ok, err, crash}.

  `startAsCoded c fn p` follows the Go code AS IT IS, guard by guard, in source order; a path on
  which the code dereferences an absent (nil) value before any check has the outcome `crash`.
  The record `Code` says, per group of guards, whether the tree contains them; it is computed from
  the regenerated guard tables (MpsGen.Start, see MpsProps/C20.lean `currentCode`), so the same
  transcription follows the tree when a guard is added. `startSpec` is what the property demands.

  Construction of a handler runs the first round's `Finalize` (NewMultiHandler; NewTwoPartyHandler
  for the leader), so absent values that are first used there belong to the start decision.

  Sources: protocols/cmp/cmp.go, cmp/keygen/keygen.go `Start`, cmp/sign/sign.go `StartSign`,
  cmp/presign/sign.go `StartPresign`/`StartPresignOnline`, cmp/config/config.go `CanSign`,
  `ValidThreshold`, `WriteTo`; protocols/frost/frost.go, frost/keygen/keygen.go
  `StartKeygenCommon`, frost/sign/sign.go `StartSignCommon`; protocols/doerner/doerner.go,
  doerner/keygen/keygen.go `StartKeygen`, doerner/sign/sign.go; internal/round/helper.go
  `NewSession`; pkg/ecdsa/presignature.go `Validate`.
-/
namespace Mps.Start
open Mps

inductive Out where
  | ok | err | crash
  deriving DecidableEq, Repr, Inhabited

/-- a value that may be absent (nil), present but degenerate (zero scalar / identity point /
    half-filled record), or good -/
inductive Tri where
  | absent | bad | good
  deriving DecidableEq, Repr, Inhabited

/-- key material as the start functions see it -/
structure Cfg where
  group  : Bool                          -- the curve can be obtained (cmp: Group; frost: PublicKey; taproot: LiftX succeeds; doerner: Public)
  id     : Bytes
  thr    : Int
  secret : Tri                           -- cmp ECDSA, frost PrivateShare, doerner SecretShare
  aux    : Bool                          -- cmp Paillier+ElGamal secrets, doerner OT setup
  shares : Option (List (Bytes × Tri))   -- cmp Public / frost VerificationShares, by party (none: nil map)
  deriving DecidableEq, Repr, Inhabited

structure Presig where
  r     : Tri
  k     : Tri
  chi   : Tri
  idLen : Nat
  rbar  : Option (List (Bytes × Tri))
  s     : Option (List (Bytes × Tri))
  deriving DecidableEq, Repr, Inhabited

structure Params where
  group  : Bool
  self   : Bytes
  other  : Bytes
  ids    : List Bytes          -- participants / signers as given (a nil slice is the empty list)
  thr    : Int
  msgLen : Nat
  cfg    : Option Cfg
  presig : Option Presig
  deriving DecidableEq, Repr, Inhabited

inductive Fn where
  | cmpKeygen | cmpRefresh | cmpSign | cmpPresign | cmpPresignOnline
  | frostKeygen | frostKeygenTaproot | frostRefresh | frostRefreshTaproot | frostSign | frostSignTaproot
  | doernerKeygen | doernerRefreshReceiver | doernerRefreshSender | doernerSignReceiver | doernerSignSender
  deriving DecidableEq, Repr, Inhabited

/-- which groups of guards the tree contains -/
structure Code where
  groupGuard      : Bool   -- keygen start functions refuse a nil group
  idGuard         : Bool   -- NewSession refuses empty ids and ids whose scalars are zero or collide
  cmpValidate     : Bool   -- cmp start functions validate the config before using it
  frostValidate   : Bool   -- frost start functions validate config, message and signer set
  doernerValidate : Bool   -- doerner start functions validate config and message
  presigNilSafe   : Bool   -- PreSignature.Validate refuses absent fields instead of dereferencing them
  deriving DecidableEq, Repr, Inhabited

def Code.head : Code := ⟨false, false, false, false, false, false⟩
def Code.fixed : Code := ⟨true, true, true, true, true, true⟩

/-- continue with `k` when the step `o` went through; its error or crash otherwise -/
def andThen (o : Out) (k : Out) : Out :=
  match o with
  | .ok => k
  | .err => .err
  | .crash => .crash

/-! ### identifiers -/

def insertId (x : Bytes) : List Bytes → List Bytes
  | [] => [x]
  | y :: ys => if bytesLt y x then y :: insertId x ys else x :: y :: ys

/-- `party.NewIDSlice`: a sorted copy -/
def sortIds (l : List Bytes) : List Bytes := l.foldr insertId []

/-- `party.ID.Scalar`: the bytes as a big-endian number reduced modulo the group order -/
def idScalar (id : Bytes) : Nat := unbe id % Secp.n

def distinctNat : List Nat → Bool
  | [] => true
  | x :: xs => !xs.contains x && distinctNat xs

/-- the guard proposed for NewSession: no empty id, no zero scalar, no two ids with one scalar -/
def scalarsOk (ids : List Bytes) : Bool :=
  ids.all (fun i => i != [] && idScalar i != 0) && distinctNat (ids.map idScalar)

/-- `round.NewSession` on (PartyIDs, SelfID, Threshold) -/
def newSession (c : Code) (ids : List Bytes) (self : Bytes) (thr : Int) : Bool :=
  newSessionOk (sortIds ids) self thr && (!c.idGuard || scalarsOk (sortIds ids))

def keys (l : Option (List (Bytes × Tri))) : List Bytes := (l.getD []).map (·.1)

/-! ### key material -/

/-- `config.ValidThreshold` -/
def validThreshold (t : Int) (n : Nat) : Bool := 0 ≤ t && t ≤ 4294967295 && 0 < n && t ≤ (n : Int) - 1

/-- `Config.CanSign(signers)` on a SORTED signer list -/
def canSign (cf : Cfg) (signers : List Bytes) : Bool :=
  validThreshold cf.thr signers.length && idsValid signers && signers.contains cf.id &&
    signers.all (fun j => (keys cf.shares).contains j)

/-- cmp `Config.WriteTo` inside NewSession: the public records are written in id order; a nil record
    is an error, a record without its ECDSA point is dereferenced -/
def cfgWrite (cf : Cfg) : Out :=
  match (cf.shares.getD []).find? (fun e => e.2 != Tri.good) with
  | none => .ok
  | some (_, .absent) => .err
  | some (_, _) => .crash

/-- the validation proposed for every config-taking start function (cmp `Config.Validate`,
    frost `Config.Validate`) -/
def cfgValidB (cf : Cfg) : Bool :=
  cf.group && cf.secret == Tri.good && cf.aux && cf.shares.isSome &&
    (cf.shares.getD []).all (fun e => e.2 == Tri.good) &&
    (keys cf.shares).contains cf.id && cf.id != [] && validThreshold cf.thr (keys cf.shares).length

def dcfgValidB (cf : Cfg) : Bool := cf.group && cf.secret == Tri.good && cf.aux

/-! ### PreSignature.Validate -/

def lookup (l : List (Bytes × Tri)) (id : Bytes) : Option Tri := (l.find? (fun e => e.1 == id)).map (·.2)

/-- the loop over RBar: S[id] present and not the identity, RBar[id] not the identity. A Go map is
    walked in unspecified order; the transcription walks the list (the outcomes agree whenever at most
    one entry is defective, which is all the lattice produces). -/
def presigLoop (nilSafe : Bool) (s : List (Bytes × Tri)) : List (Bytes × Tri) → Out
  | [] => .ok
  | (id, r) :: rest =>
    match lookup s id with
    | none => .err
    | some .absent => if nilSafe then .err else .crash
    | some .bad => .err
    | some .good =>
      match r with
      | .absent => if nilSafe then .err else .crash
      | .bad => .err
      | .good => presigLoop nilSafe s rest

def triCheck (nilSafe : Bool) (t : Tri) (k : Out) : Out :=
  match t with
  | .absent => if nilSafe then .err else .crash
  | .bad => .err
  | .good => k

def presigValidate (nilSafe : Bool) (ps : Presig) : Out :=
  match ps.rbar, ps.s with
  | some rb, some s =>
    if rb.length != s.length then .err else
    andThen (presigLoop nilSafe s rb) <|
      triCheck nilSafe ps.r <|
        if ps.idLen != 32 then .err else
        triCheck nilSafe ps.chi <| triCheck nilSafe ps.k .ok
  | _, _ => if nilSafe then .err else .crash

/-! ### the start functions as coded -/


def cmpLike (c : Code) (cf : Cfg) (signers : List Bytes) : Out :=
  if !newSession c signers cf.id cf.thr then .err else
  andThen (cfgWrite cf) <|
    if !canSign cf (sortIds signers) then .err else
    if !cf.group then .crash else
    if cf.secret == Tri.absent then .crash else .ok

def keygenLike (c : Code) (p : Params) (fixedGroup : Bool) (evalSelfAtStart : Bool) : Out :=
  if c.groupGuard && !fixedGroup && !p.group then .err else
  if !newSession c p.ids p.self p.thr then .err else
  if !fixedGroup && !p.group then .crash else
  -- cmp keygen round 1 (run during construction) evaluates the own polynomial at the own id's scalar:
  -- polynomial.Evaluate panics on the zero scalar ("attempt to leak secret")
  if evalSelfAtStart && idScalar p.self == 0 then .crash else .ok

def startAsCoded (c : Code) (fn : Fn) (p : Params) : Out :=
  match fn with
  | .cmpKeygen => keygenLike c p false true
  | .frostKeygen => keygenLike c p false false
  | .frostKeygenTaproot => keygenLike c p true false
  | .cmpRefresh =>
    match p.cfg with
    | none => if c.cmpValidate then .err else .crash
    | some cf =>
      if c.cmpValidate && !cfgValidB cf then .err else
      if !newSession c (keys cf.shares) cf.id cf.thr then .err else
      andThen (cfgWrite cf) <|
        if !cf.group then .crash else if idScalar cf.id == 0 then .crash else .ok
  | .cmpSign =>
    match p.cfg with
    | none => if c.cmpValidate then .err else .crash
    | some cf =>
      if c.cmpValidate && !cfgValidB cf then .err else
      if p.msgLen == 0 then .err else cmpLike c cf p.ids
  | .cmpPresign =>
    match p.cfg with
    | none => .err
    | some cf =>
      if c.cmpValidate && !cfgValidB cf then .err else cmpLike c cf p.ids
  | .cmpPresignOnline =>
    match p.cfg, p.presig with
    | some cf, some ps =>
      if c.cmpValidate && !cfgValidB cf then .err else
      if p.msgLen == 0 then .err else
      andThen (presigValidate c.presigNilSafe ps) <|
        if !canSign cf (sortIds (keys ps.rbar)) then .err else
        if !newSession c (sortIds (keys ps.rbar)) cf.id cf.thr then .err else
        andThen (cfgWrite cf) <| if !cf.group then .crash else .ok
    | _, _ => .err
  | .frostRefresh =>
    match p.cfg with
    | none => if c.frostValidate then .err else .crash
    | some cf =>
      if c.frostValidate && !(cfgValidB cf && p.ids.all (fun j => (keys cf.shares).contains j)) then .err else
      if !cf.group then .crash else
      if cf.shares.isNone then .crash else
      if !newSession c p.ids cf.id cf.thr then .err else .ok
  | .frostRefreshTaproot =>
    match p.cfg with
    | none => if c.frostValidate then .err else .crash
    | some cf =>
      if c.frostValidate && !(cfgValidB cf && p.ids.all (fun j => (keys cf.shares).contains j)) then .err else
      if !cf.group then .err else
      if !newSession c p.ids cf.id cf.thr then .err else
      if cf.secret == Tri.absent then .crash else .ok
  | .frostSign =>
    match p.cfg with
    | none => if c.frostValidate then .err else .crash
    | some cf =>
      if c.frostValidate && !(cfgValidB cf && p.msgLen != 0 && p.ids.all (fun j => (keys cf.shares).contains j)) then .err else
      if !cf.group then .crash else
      if !newSession c p.ids cf.id cf.thr then .err else
      if cf.shares.isNone then .crash else
      if cf.secret == Tri.absent then .crash else .ok
  | .frostSignTaproot =>
    match p.cfg with
    | none => if c.frostValidate then .err else .crash
    | some cf =>
      if c.frostValidate && !(cfgValidB cf && p.msgLen != 0 && p.ids.all (fun j => (keys cf.shares).contains j)) then .err else
      if !cf.group then .err else
      if !newSession c p.ids cf.id cf.thr then .err else
      if cf.secret == Tri.absent then .crash else .ok
  | .doernerKeygen =>
    if c.groupGuard && !p.group then .err else
    if !p.group then .crash else
    if !newSession c [p.self, p.other] p.self 1 then .err else .ok
  | .doernerRefreshReceiver =>
    match p.cfg with
    | none => if c.doernerValidate then .err else .crash
    | some cf =>
      if c.doernerValidate && !dcfgValidB cf then .err else
      if !cf.group then .crash else
      if !newSession c [p.self, p.other] p.self 1 then .err else
      -- secretShare.ActOnBase(); the receiver leads: round 1 proves knowledge of the share (zero share: nil proof)
      if cf.secret != Tri.good then .crash else .ok
  | .doernerRefreshSender =>
    match p.cfg with
    | none => if c.doernerValidate then .err else .crash
    | some cf =>
      if c.doernerValidate && !dcfgValidB cf then .err else
      if !cf.group then .crash else
      if !newSession c [p.self, p.other] p.self 1 then .err else
      if cf.secret == Tri.absent then .crash else .ok
  | .doernerSignReceiver =>
    match p.cfg with
    | none => if c.doernerValidate then .err else .crash
    | some cf =>
      if c.doernerValidate && !(dcfgValidB cf && p.msgLen != 0) then .err else
      if !cf.group then .crash else
      if !newSession c [p.self, p.other] p.self 1 then .err else
      -- the receiver's first round runs during construction and uses the share and the OT setup
      if cf.secret == Tri.absent || !cf.aux then .crash else .ok
  | .doernerSignSender =>
    match p.cfg with
    | none => if c.doernerValidate then .err else .crash
    | some cf =>
      if c.doernerValidate && !(dcfgValidB cf && p.msgLen != 0) then .err else
      if !cf.group then .crash else
      if !newSession c [p.self, p.other] p.self 1 then .err else .ok

/-! ### what the property demands -/

/-- identifiers of a session: pairwise different, none empty, scalar images non-zero and pairwise different -/
def IdsOk (ids : List Bytes) (self : Bytes) : Prop :=
  ids.Nodup ∧ self ∈ ids ∧ (∀ i ∈ ids, i ≠ [] ∧ idScalar i ≠ 0) ∧ (ids.map idScalar).Nodup

def CfgValid (cf : Cfg) : Prop :=
  cf.group = true ∧ cf.secret = Tri.good ∧ cf.aux = true ∧ cf.shares.isSome = true ∧
    (∀ e ∈ cf.shares.getD [], e.2 = Tri.good) ∧ cf.id ∈ keys cf.shares ∧ cf.id ≠ [] ∧
    0 ≤ cf.thr ∧ cf.thr ≤ 4294967295 ∧ cf.thr < (keys cf.shares).length

def DCfgValid (cf : Cfg) : Prop := cf.group = true ∧ cf.secret = Tri.good ∧ cf.aux = true

def PresigValid (ps : Presig) : Prop :=
  ps.r = Tri.good ∧ ps.k = Tri.good ∧ ps.chi = Tri.good ∧ ps.idLen = 32 ∧
    ∃ rb s, ps.rbar = some rb ∧ ps.s = some s ∧ rb.length = s.length ∧
      ∀ e ∈ rb, e.2 = Tri.good ∧ lookup s e.1 = some Tri.good

/-- a signer set for key material `cf` -/
def SignersOk (cf : Cfg) (signers : List Bytes) : Prop :=
  IdsOk signers cf.id ∧ (∀ j ∈ signers, j ∈ keys cf.shares) ∧ cf.thr < signers.length

def Valid (fn : Fn) (p : Params) : Prop :=
  match fn with
  | .cmpKeygen | .frostKeygen => p.group = true ∧ IdsOk p.ids p.self ∧ 0 ≤ p.thr ∧ p.thr ≤ 4294967295 ∧ p.thr < p.ids.length
  | .frostKeygenTaproot => IdsOk p.ids p.self ∧ 0 ≤ p.thr ∧ p.thr ≤ 4294967295 ∧ p.thr < p.ids.length
  | .cmpRefresh => ∃ cf, p.cfg = some cf ∧ CfgValid cf ∧ IdsOk (keys cf.shares) cf.id
  | .cmpSign | .frostSign | .frostSignTaproot =>
    ∃ cf, p.cfg = some cf ∧ CfgValid cf ∧ SignersOk cf p.ids ∧ 0 < p.msgLen
  | .cmpPresign | .frostRefresh | .frostRefreshTaproot =>
    ∃ cf, p.cfg = some cf ∧ CfgValid cf ∧ SignersOk cf p.ids
  | .cmpPresignOnline =>
    ∃ cf ps, p.cfg = some cf ∧ p.presig = some ps ∧ CfgValid cf ∧ PresigValid ps ∧
      SignersOk cf (keys ps.rbar) ∧ 0 < p.msgLen
  | .doernerKeygen => p.group = true ∧ IdsOk [p.self, p.other] p.self
  | .doernerRefreshReceiver | .doernerRefreshSender =>
    ∃ cf, p.cfg = some cf ∧ DCfgValid cf ∧ IdsOk [p.self, p.other] p.self
  | .doernerSignReceiver | .doernerSignSender =>
    ∃ cf, p.cfg = some cf ∧ DCfgValid cf ∧ IdsOk [p.self, p.other] p.self ∧ 0 < p.msgLen

/-- what an accepted start guarantees on EVERY tree (with or without the proposed guards) -/
def Core (fn : Fn) (p : Params) : Prop :=
  match fn with
  | .cmpKeygen | .frostKeygen | .frostKeygenTaproot =>
    p.ids.Nodup ∧ p.self ∈ p.ids ∧ 0 ≤ p.thr ∧ p.thr ≤ 4294967295 ∧ p.thr < p.ids.length
  | .cmpRefresh =>
    ∃ cf, p.cfg = some cf ∧ (keys cf.shares).Nodup ∧ cf.id ∈ keys cf.shares ∧ 0 ≤ cf.thr ∧ cf.thr < (keys cf.shares).length
  | .cmpSign =>
    ∃ cf, p.cfg = some cf ∧ p.ids.Nodup ∧ cf.id ∈ p.ids ∧ 0 ≤ cf.thr ∧ cf.thr < p.ids.length ∧
      (∀ j ∈ p.ids, j ∈ keys cf.shares) ∧ 0 < p.msgLen
  | .cmpPresign =>
    ∃ cf, p.cfg = some cf ∧ p.ids.Nodup ∧ cf.id ∈ p.ids ∧ 0 ≤ cf.thr ∧ cf.thr < p.ids.length ∧
      (∀ j ∈ p.ids, j ∈ keys cf.shares)
  | .cmpPresignOnline =>
    ∃ cf ps, p.cfg = some cf ∧ p.presig = some ps ∧ cf.id ∈ keys ps.rbar ∧ 0 ≤ cf.thr ∧ cf.thr < (keys ps.rbar).length ∧
      (∀ j ∈ keys ps.rbar, j ∈ keys cf.shares) ∧ 0 < p.msgLen
  | .frostRefresh | .frostRefreshTaproot | .frostSign | .frostSignTaproot =>
    ∃ cf, p.cfg = some cf ∧ p.ids.Nodup ∧ cf.id ∈ p.ids ∧ 0 ≤ cf.thr ∧ cf.thr < p.ids.length
  | .doernerKeygen => p.self ≠ p.other
  | .doernerRefreshReceiver | .doernerRefreshSender | .doernerSignReceiver | .doernerSignSender =>
    ∃ cf, p.cfg = some cf ∧ p.self ≠ p.other

/-- executable form of `Valid` (proved equivalent in MpsProofs/Start.lean) -/
def idsOkB (ids : List Bytes) (self : Bytes) : Bool :=
  distinctNat (ids.map idScalar) && ids.contains self && ids.all (fun i => i != [] && idScalar i != 0)

def signersOkB (cf : Cfg) (signers : List Bytes) : Bool :=
  idsOkB signers cf.id && signers.all (fun j => (keys cf.shares).contains j) && cf.thr < (signers.length : Int)

def presigValidB (ps : Presig) : Bool :=
  ps.r == Tri.good && ps.k == Tri.good && ps.chi == Tri.good && ps.idLen == 32 &&
    match ps.rbar, ps.s with
    | some rb, some s => rb.length == s.length && rb.all (fun e => e.2 == Tri.good && lookup s e.1 == some Tri.good)
    | _, _ => false

def validB (fn : Fn) (p : Params) : Bool :=
  match fn with
  | .cmpKeygen | .frostKeygen => p.group && idsOkB p.ids p.self && validThreshold p.thr p.ids.length
  | .frostKeygenTaproot => idsOkB p.ids p.self && validThreshold p.thr p.ids.length
  | .cmpRefresh => match p.cfg with
    | some cf => cfgValidB cf && idsOkB (keys cf.shares) cf.id
    | none => false
  | .cmpSign | .frostSign | .frostSignTaproot => match p.cfg with
    | some cf => cfgValidB cf && signersOkB cf p.ids && 0 < p.msgLen
    | none => false
  | .cmpPresign | .frostRefresh | .frostRefreshTaproot => match p.cfg with
    | some cf => cfgValidB cf && signersOkB cf p.ids
    | none => false
  | .cmpPresignOnline => match p.cfg, p.presig with
    | some cf, some ps => cfgValidB cf && presigValidB ps && signersOkB cf (keys ps.rbar) && 0 < p.msgLen
    | _, _ => false
  | .doernerKeygen => p.group && idsOkB [p.self, p.other] p.self
  | .doernerRefreshReceiver | .doernerRefreshSender => match p.cfg with
    | some cf => dcfgValidB cf && idsOkB [p.self, p.other] p.self
    | none => false
  | .doernerSignReceiver | .doernerSignSender => match p.cfg with
    | some cf => dcfgValidB cf && idsOkB [p.self, p.other] p.self && 0 < p.msgLen
    | none => false

/-- the decision the property demands: an error for every parameter set that is not valid -/
def startSpec (fn : Fn) (p : Params) : Out := if validB fn p then .ok else .err

end Mps.Start
