/-
  M6 — worker pool (pkg/pool/pool.go) as transition systems. Core-only, executable.

  One caller goroutine and W worker goroutines; a state records, for every goroutine, the
  program counter at its next synchronisation point (send/receive on the unbuffered channels
  `commands` and `ctrChanged`, atomic counter operations, result write), plus the shared
  memory (`ctr`, `results`). A step is one such operation; a rendezvous on an unbuffered
  channel is ONE step that moves both parties. The scheduler is the label sequence: every
  interleaving of the real program at these points is a label sequence accepted by `step`.

  Four systems:
    `Pool.Par`, `Pool.Search`              — pool.go AS IT STANDS in /repo (loses workers; see
                                             MpsProps/C18: lost_worker_witness, search_nil_result_witness)
    `Pool.Fixed.Par`, `Pool.Fixed.Search`  — the minimally repaired handshake (hooks/pool_fix.diff):
                                             one notification per command, sent after the worker's
                                             last write; the caller counts notifications instead of
                                             polling the counter.
  `f` is abstract: for Parallelize a function of the index, for Search an oracle whose answer
  (possibly nil = `none`) is part of the label.
-/
namespace Mps.Pool

/-- results are opaque values; Go's `nil` is `none` -/
abbrev Val := Nat

/-- run a label sequence (a schedule); `none` = some step was not enabled -/
def run {σ L : Type} (step : σ → L → Option σ) : σ → List L → Option σ
  | s, [] => some s
  | s, l :: ls => match step s l with
    | none => none
    | some s' => run step s' ls

/-- weighted count over the worker list (counting abstraction) -/
def wsum {α : Type} (g : α → Nat) : List α → Nat
  | [] => 0
  | a :: l => g a + wsum g l

/-! ## `parallelizeAlone`, `searchAlone` (nil pool: the calling goroutine does the work) -/

/-- `for i := 0; i < len(results); i++ { results[i] = f(i) }` on `results = make(.., count)` -/
def parallelizeAloneLoop (f : Nat → Val) : Nat → Nat → List (Option Val) → List (Option Val)
  | 0, _, res => res
  | k + 1, i, res => parallelizeAloneLoop f k (i + 1) (res.set i (some (f i)))

def parallelizeAlone (f : Nat → Val) (count : Nat) : List (Option Val) :=
  parallelizeAloneLoop f count 0 (List.replicate count none)

/-- `searchAlone`: slot after slot, query the oracle until it answers non-nil. The oracle is
    the stream of its answers; returns `none` when the stream ends before `count` successes
    (the Go loop would keep calling f). -/
def searchAloneLoop : List (Option Val) → Nat → List (Option Val) → Option (List (Option Val))
  | _, 0, acc => some acc.reverse
  | [], _ + 1, _ => none
  | none :: rest, k + 1, acc => searchAloneLoop rest (k + 1) acc
  | some v :: rest, k + 1, acc => searchAloneLoop rest k (some v :: acc)

def searchAlone (answers : List (Option Val)) (count : Nat) : Option (List (Option Val)) :=
  searchAloneLoop answers count []

/-! ## Parallelize — as it stands in /repo

```
worker:   for c := range commands {            -- idle:   receive on `commands`
            c.results[c.i] = c.f(c.i)           -- got i:  evaluate and write the result
            atomic.AddInt64(c.ctr, -1)          -- wrote:  decrement
            c.ctrChanged <- struct{}{} }        -- notify: send (blocks until the caller receives)
caller:   for cmdI < count { select { case p.commands <- cmd: cmdI++ ; case <-ctrChanged: } }   -- top, cmdI < count
          for atomic.LoadInt64(&ctr) > 0 {      -- top, cmdI = count: load
            <-ctrChanged }                      -- recv
          return results                        -- ret
```
-/
namespace Par

inductive W where
  | idle
  | got (i : Nat)
  | wrote
  | notify
  /-- blocked for ever on the `ctrChanged` of a call that has already returned -/
  | stuck
  deriving DecidableEq, Repr

inductive PC where
  | top | recv | ret
  deriving DecidableEq, Repr

structure State where
  cmdI : Nat
  pc : PC
  ctr : Int
  ws : List W
  res : List (Option Val)
  deriving DecidableEq, Repr

inductive Label where
  | cmd (w : Nat)      -- rendezvous on `commands`: caller → worker w
  | write (w : Nat)    -- worker w: results[i] = f(i)
  | dec (w : Nat)      -- worker w: atomic.AddInt64(ctr, -1)
  | notify (w : Nat)   -- rendezvous on `ctrChanged`: worker w → caller
  | load               -- caller: atomic.LoadInt64(&ctr) > 0 ?
  deriving DecidableEq, Repr

/-- a call on a pool whose workers are in states `ws` -/
def init (ws : List W) (n : Nat) : State :=
  { cmdI := 0, pc := .top, ctr := n, ws := ws, res := List.replicate n none }

def step (n : Nat) (f : Nat → Val) (s : State) : Label → Option State
  | .cmd w =>
    if s.pc = .top ∧ s.cmdI < n ∧ s.ws[w]? = some .idle then
      some { s with cmdI := s.cmdI + 1, ws := s.ws.set w (.got s.cmdI) }
    else none
  | .write w =>
    match s.ws[w]? with
    | some (.got i) => some { s with res := s.res.set i (some (f i)), ws := s.ws.set w .wrote }
    | _ => none
  | .dec w =>
    if s.ws[w]? = some .wrote then some { s with ctr := s.ctr - 1, ws := s.ws.set w .notify } else none
  | .notify w =>
    -- the caller receives only inside the select (cmdI < n) or in the wait loop after a positive load
    if s.ws[w]? = some .notify ∧ ((s.pc = .top ∧ s.cmdI < n) ∨ s.pc = .recv) then
      some { s with pc := .top, ws := s.ws.set w .idle }
    else none
  | .load =>
    if s.pc = .top ∧ ¬ s.cmdI < n then
      some { s with pc := if s.ctr > 0 then .recv else .ret }
    else none

/-- what the pool looks like to the NEXT call: a worker still inside the previous call's
    notification send can never be served (the channel belongs to the finished call) -/
def carry (ws : List W) : List W := ws.map fun w => if w = .idle then .idle else .stuck

end Par

/-! ## Search — as it stands in /repo

```
workerSearch: for atomic.LoadInt64(ctr) > 0 {   -- load
                res := f(0)                      -- eval (oracle answer in the label)
                if res == nil { continue }
                i := atomic.AddInt64(ctr, -1)    -- dec v
                if i >= 0 { results[i] = res }   -- write i v
                ctrChanged <- struct{}{} }       -- notify
caller:       for cmdI < p.workerCount { select { case p.commands <- cmd: cmdI++ ; case <-ctrChanged: } }
              for atomic.LoadInt64(&ctr) > 0 { <-ctrChanged }
```
-/
namespace Search

inductive W where
  | idle
  | load
  | eval
  | dec (v : Val)
  | write (i : Int) (v : Val)
  | notify
  deriving DecidableEq, Repr

structure State where
  cmdI : Nat
  pc : Par.PC
  ctr : Int
  ws : List W
  res : List (Option Val)
  deriving DecidableEq, Repr

inductive Label where
  | cmd (w : Nat)
  | load (w : Nat)                    -- worker: atomic.LoadInt64(ctr) > 0 ?
  | eval (w : Nat) (r : Option Val)   -- worker: res := f(0), the oracle answers r
  | dec (w : Nat)
  | write (w : Nat)
  | notify (w : Nat)
  | cload                             -- caller: atomic.LoadInt64(&ctr) > 0 ?
  deriving DecidableEq, Repr

def init (ws : List W) (n : Nat) : State :=
  { cmdI := 0, pc := .top, ctr := n, ws := ws, res := List.replicate n none }

def step (s : State) : Label → Option State
  | .cmd w =>
    if s.pc = .top ∧ s.cmdI < s.ws.length ∧ s.ws[w]? = some .idle then
      some { s with cmdI := s.cmdI + 1, ws := s.ws.set w .load }
    else none
  | .load w =>
    if s.ws[w]? = some .load then some { s with ws := s.ws.set w (if s.ctr > 0 then .eval else .idle) } else none
  | .eval w r =>
    if s.ws[w]? = some .eval then
      some { s with ws := s.ws.set w (match r with | none => .load | some v => .dec v) }
    else none
  | .dec w =>
    match s.ws[w]? with
    | some (.dec v) => some { s with ctr := s.ctr - 1, ws := s.ws.set w (.write (s.ctr - 1) v) }
    | _ => none
  | .write w =>
    match s.ws[w]? with
    | some (.write i v) =>
      some { s with res := if 0 ≤ i then s.res.set i.toNat (some v) else s.res, ws := s.ws.set w .notify }
    | _ => none
  | .notify w =>
    if s.ws[w]? = some .notify ∧ ((s.pc = .top ∧ s.cmdI < s.ws.length) ∨ s.pc = .recv) then
      some { s with pc := .top, ws := s.ws.set w .load }
    else none
  | .cload =>
    if s.pc = .top ∧ ¬ s.cmdI < s.ws.length then
      some { s with pc := if s.ctr > 0 then .recv else .ret }
    else none

end Search

/-! ## The repaired handshake (hooks/pool_fix.diff)

```
worker:   for c := range commands {
            if c.search { workerSearch(c.results, c.f, c.ctr) } else { c.results[c.i] = c.f(c.i) }
            c.ctrChanged <- struct{}{} }         -- exactly one notification per command
Parallelize: cmdI, done := 0, 0
          for cmdI < count { select { case p.commands <- cmd: cmdI++ ; case <-ctrChanged: done++ } }
          for done < count { <-ctrChanged; done++ }
Search:   the same with p.workerCount commands; workerSearch no longer notifies inside its loop.
```
-/
namespace Fixed

namespace Par

inductive W where
  | idle
  | got (i : Nat)
  | notify
  deriving DecidableEq, Repr

structure State where
  cmdI : Nat
  recvd : Nat
  ret : Bool
  ws : List W
  res : List (Option Val)
  deriving DecidableEq, Repr

inductive Label where
  | cmd (w : Nat)
  | write (w : Nat)
  | notify (w : Nat)
  | ret
  deriving DecidableEq, Repr

def init (ws : List W) (n : Nat) : State :=
  { cmdI := 0, recvd := 0, ret := false, ws := ws, res := List.replicate n none }

def step (n : Nat) (f : Nat → Val) (s : State) : Label → Option State
  | .cmd w =>
    if s.ret = false ∧ s.cmdI < n ∧ s.ws[w]? = some .idle then
      some { s with cmdI := s.cmdI + 1, ws := s.ws.set w (.got s.cmdI) }
    else none
  | .write w =>
    match s.ws[w]? with
    | some (.got i) => some { s with res := s.res.set i (some (f i)), ws := s.ws.set w .notify }
    | _ => none
  | .notify w =>
    -- the caller receives inside the select (cmdI < n) or in the wait loop (done < n)
    if s.ret = false ∧ s.ws[w]? = some .notify ∧ (s.cmdI < n ∨ s.recvd < n) then
      some { s with recvd := s.recvd + 1, ws := s.ws.set w .idle }
    else none
  | .ret =>
    if s.ret = false ∧ ¬ s.cmdI < n ∧ ¬ s.recvd < n then some { s with ret := true } else none

/-- steps still to come, per worker state -/
def togo : W → Nat
  | .idle => 0
  | .got _ => 2
  | .notify => 1

def busy : W → Nat
  | .idle => 0
  | _ => 1

/-- ranking function: decreases by exactly one with every step -/
def rank (n : Nat) (s : State) : Nat :=
  (if s.ret then 0 else 1) + 3 * (n - s.cmdI) + wsum togo s.ws

end Par

namespace Search

inductive W where
  | idle
  | load
  | eval
  | dec (v : Val)
  | write (i : Int) (v : Val)
  | done                       -- left the search loop, about to notify
  deriving DecidableEq, Repr

structure State where
  cmdI : Nat
  recvd : Nat
  ret : Bool
  ctr : Int
  ws : List W
  res : List (Option Val)
  deriving DecidableEq, Repr

inductive Label where
  | cmd (w : Nat)
  | load (w : Nat)
  | eval (w : Nat) (r : Option Val)
  | dec (w : Nat)
  | write (w : Nat)
  | notify (w : Nat)
  | ret
  deriving DecidableEq, Repr

def init (ws : List W) (n : Nat) : State :=
  { cmdI := 0, recvd := 0, ret := false, ctr := n, ws := ws, res := List.replicate n none }

def step (s : State) : Label → Option State
  | .cmd w =>
    if s.ret = false ∧ s.cmdI < s.ws.length ∧ s.ws[w]? = some .idle then
      some { s with cmdI := s.cmdI + 1, ws := s.ws.set w .load }
    else none
  | .load w =>
    if s.ws[w]? = some .load then some { s with ws := s.ws.set w (if s.ctr > 0 then .eval else .done) } else none
  | .eval w r =>
    if s.ws[w]? = some .eval then
      some { s with ws := s.ws.set w (match r with | none => .load | some v => .dec v) }
    else none
  | .dec w =>
    match s.ws[w]? with
    | some (.dec v) => some { s with ctr := s.ctr - 1, ws := s.ws.set w (.write (s.ctr - 1) v) }
    | _ => none
  | .write w =>
    match s.ws[w]? with
    | some (.write i v) =>
      some { s with res := if 0 ≤ i then s.res.set i.toNat (some v) else s.res, ws := s.ws.set w .load }
    | _ => none
  | .notify w =>
    if s.ret = false ∧ s.ws[w]? = some .done ∧ (s.cmdI < s.ws.length ∨ s.recvd < s.ws.length) then
      some { s with recvd := s.recvd + 1, ws := s.ws.set w .idle }
    else none
  | .ret =>
    if s.ret = false ∧ ¬ s.cmdI < s.ws.length ∧ ¬ s.recvd < s.ws.length then some { s with ret := true } else none

def busy : W → Nat
  | .idle => 0
  | _ => 1

/-- potential of one worker (depends on the counter: a worker at the loop head still costs a
    whole round only while the counter is positive) -/
def pot (ctr : Int) : W → Nat
  | .idle => 0
  | .done => 1
  | .load => if ctr > 0 then 6 else 2
  | .eval => 5
  | .dec _ => 4
  | .write i _ => if 0 ≤ i then 7 else 3

/-- potential: every step lowers it by at least one, except an oracle answer `nil`, which
    raises it by at most one -/
def rank (s : State) : Nat :=
  (if s.ret then 0 else 1) + 4 * s.ctr.toNat + 7 * (s.ws.length - s.cmdI) + wsum (pot s.ctr) s.ws

/-- number of nil answers of the oracle in a schedule -/
def nils : List Label → Nat
  | [] => 0
  | .eval _ none :: ls => nils ls + 1
  | _ :: ls => nils ls

end Search

end Fixed

end Mps.Pool
