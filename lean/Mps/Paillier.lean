/-
  M3 (integer side): Paillier encryption of `pkg/paillier`, the CRT exponentiation of
  `pkg/math/arith.Modulus`, and the share computation of `internal/mta` — an independent
  big-integer implementation over `Nat`/`Int` (core-only: this file is linked into `mpsdriver`).

  What is modelled is what the Go code computes (call sequences are tied by the regenerated
  tables `MpsGen.Paillier`, values by the bit-exact differential of suite `paillier`):

    arith.Modulus.Exp       CRT with (p, q, p⁻¹ mod q) when the factorisation is known, else x^e mod n
    arith.Modulus.ExpI      y := Exp(x, |e|);  e < 0 ⇒ ModInverse(y, n)          (both branches)
    PublicKey.EncWithNonce  refuses (panic) iff |m| > N >> 1;  (N+1)^m · nonce^N mod N²
    ValidateCiphertexts     c < N²  and  IsUnit(c, N²)
    SecretKey.Dec           validate; ((c^φ mod N²) − 1) / N · φ⁻¹ mod N; SetModSymmetric
    DecWithRandomness       x = (N+1)^(−m)·c mod N;  r = x^(N⁻¹ mod φ) mod N
    Ciphertext.Add / Mul    c·c₂ mod N² / ExpI(c, k) mod N²
    mta.newMta              β′; F = encᵢ(β′; r); D = encⱼ(β′; s) ⊕ (a ⊙ B); β = −β′
-/
namespace Mps.Paillier

/-! ## modular primitives -/

/-- `x^e mod m` by square-and-multiply (recursion on the binary expansion of `e`). -/
def powMod (b e m : Nat) : Nat :=
  if _h : e = 0 then 1 % m
  else
    let r := powMod b (e / 2) m
    let s := r * r % m
    if e % 2 = 1 then s * (b % m) % m else s
termination_by e
decreasing_by omega

/-- extended Euclid: `egcd a b = (g, x, y)` with `a*x + b*y = g = gcd a b`. -/
def egcd (a b : Nat) : Nat × Int × Int :=
  if _h : a = 0 then (b, 0, 1)
  else
    let r := egcd (b % a) a
    (r.1, r.2.2 - ((b / a : Nat) : Int) * r.2.1, r.2.1)
termination_by a
decreasing_by exact Nat.mod_lt _ (by omega)

/-- `saferith.Nat.ModInverse`: the inverse of `a` modulo `m` in `[0, m)` when `gcd(a, m) = 1`.
    (On a non-unit saferith's result is unspecified; this function then returns some `x` with
    `a·x ≡ gcd(a, m)`; the theorems never use that value and the differential only judges it.) -/
def modInv (a m : Nat) : Nat := ((egcd (a % m) m).2.1 % (m : Int)).toNat

def modAdd (x y m : Nat) : Nat := (x % m + y % m) % m
/-- `saferith.Nat.ModSub`: both operands are reduced first, `m` is added back on underflow -/
def modSub (x y m : Nat) : Nat := (x % m + (m - y % m)) % m
def modMul (x y m : Nat) : Nat := (x % m) * (y % m) % m

/-- `saferith.Int.SetModSymmetric`: `(sign, abs)`. The smaller of `x mod n` and `−x mod n` is kept;
    on a tie (only `x ≡ 0` for odd `n`) the negated value wins, i.e. zero comes out as `−0`. -/
def symmSA (x n : Nat) : Bool × Nat :=
  let a := x % n
  let ng := (n - a) % n
  if ng ≤ a then (true, ng) else (false, a)

def saToInt (s : Bool × Nat) : Int := if s.1 then -(s.2 : Int) else (s.2 : Int)

/-- the representative of `x mod n` in `[-(n-1)/2, (n-1)/2]` (odd `n`) -/
def symm (x n : Nat) : Int := saToInt (symmSA x n)

/-! ## arith.Modulus -/

/-- `arith.Modulus`: `n`, and — when `crt` — the factors `p`, `q` and `pInv = p⁻¹ mod q`. -/
structure Modulus where
  n : Nat
  p : Nat := 0
  q : Nat := 0
  pInv : Nat := 0
  crt : Bool := false
deriving Repr, DecidableEq

/-- `arith.ModulusFromN` -/
def Modulus.ofN (n : Nat) : Modulus := { n := n }

/-- `arith.ModulusFromFactors` -/
def Modulus.ofFactors (p q : Nat) : Modulus :=
  { n := p * q, p := p, q := q, pInv := modInv p q, crt := true }

/-- `arith.Modulus.Exp` -/
def Modulus.exp (M : Modulus) (x e : Nat) : Nat :=
  if M.crt then
    let xp := powMod x e M.p
    let xq := powMod x e M.q
    let r := modSub xq xp M.n
    let r := modMul r M.pInv M.n
    let r := modMul r M.p M.n
    modAdd r xp M.n
  else powMod x e M.n

/-- `arith.Modulus.ExpI` (both branches compute `ModInverse(Exp(x, |e|))` for negative `e`) -/
def Modulus.expI (M : Modulus) (x : Nat) (e : Int) : Nat :=
  let y := M.exp x e.natAbs
  if e < 0 then modInv y M.n else y

/-! ## keys -/

structure PublicKey where
  n : Modulus
  n2 : Modulus
deriving Repr, DecidableEq

def PublicKey.N (pk : PublicKey) : Nat := pk.n.n
def PublicKey.N2 (pk : PublicKey) : Nat := pk.n2.n

/-- `paillier.NewPublicKey` -/
def PublicKey.ofN (N : Nat) : PublicKey := ⟨.ofN N, .ofN (N * N)⟩

structure SecretKey where
  pk : PublicKey
  p : Nat
  q : Nat
  phi : Nat
  phiInv : Nat
deriving Repr

/-- `paillier.NewSecretKeyFromPrimes` -/
def SecretKey.ofPrimes (p q : Nat) : SecretKey :=
  { pk := ⟨.ofFactors p q, .ofFactors (p * p) (q * q)⟩
    p := p, q := q
    phi := (p - 1) * (q - 1)
    phiInv := modInv ((p - 1) * (q - 1)) (p * q) }

/-! ## public-key operations -/

/-- `PublicKey.EncWithNonce`: `none` = the code refuses (it panics). -/
def PublicKey.enc (pk : PublicKey) (m : Int) (nonce : Nat) : Option Nat :=
  if m.natAbs > pk.N / 2 then none
  else
    let c := pk.n2.expI (pk.N + 1) m
    let rhoN := pk.n2.exp nonce pk.N
    some (modMul c rhoN pk.N2)

/-- encryption under a bare modulus (a `PublicKey` built by `NewPublicKey`) -/
def enc (N : Nat) (m : Int) (nonce : Nat) : Option Nat := (PublicKey.ofN N).enc m nonce

/-- `PublicKey.ValidateCiphertexts` for one ciphertext -/
def PublicKey.validate (pk : PublicKey) (c : Nat) : Bool :=
  decide (c < pk.N2) && (Nat.gcd c pk.N2 == 1)

def validateCiphertext (N : Nat) (c : Nat) : Bool := (PublicKey.ofN N).validate c

/-- `paillier.ValidateN` for a non-nil modulus: 0 = ok, 1 = wrong bit length, 2 = even -/
def validateN (bitsPaillier : Nat) (N : Nat) : Nat :=
  if N = 0 ∨ N.log2 + 1 ≠ bitsPaillier then 1 else if N % 2 ≠ 1 then 2 else 0

/-- `Ciphertext.Add` -/
def PublicKey.add (pk : PublicKey) (c1 c2 : Nat) : Nat := modMul c1 c2 pk.N2

/-- `Ciphertext.Mul` -/
def PublicKey.mul (pk : PublicKey) (c : Nat) (k : Int) : Nat := pk.n2.expI c k

/-! ## secret-key operations -/

/-- `SecretKey.Dec` with the sign and absolute value of the resulting `saferith.Int` -/
def SecretKey.decSA (sk : SecretKey) (c : Nat) : Option (Bool × Nat) :=
  if !sk.pk.validate c then none
  else
    let u := sk.pk.n2.exp c sk.phi
    let l := (u - 1) / sk.pk.N
    let x := modMul l sk.phiInv sk.pk.N
    some (symmSA x sk.pk.N)

def SecretKey.dec (sk : SecretKey) (c : Nat) : Option Int := (sk.decSA c).map saToInt

/-- `SecretKey.DecWithRandomness` -/
def SecretKey.decWithRandomness (sk : SecretKey) (c : Nat) : Option (Int × Nat) :=
  match sk.dec c with
  | none => none
  | some m =>
    let x := sk.pk.n.expI (sk.pk.N + 1) (-m)
    let x := modMul x c sk.pk.N
    let nInv := modInv sk.pk.N sk.phi
    some (m, sk.pk.n.exp x nInv)

/-! ## MtA (internal/mta.newMta and the receiver's decryption) -/

/-- `sample.sampleNeg(bits)` on the bytes it reads: sign = low bit of the first byte, magnitude =
    the remaining `bits/8` bytes big-endian (sign and magnitude as in `saferith.Int`) -/
def sampleNegSA (buf : List UInt8) : Bool × Nat :=
  match buf with
  | [] => (false, 0)
  | b :: rest => (b.toNat % 2 == 1, rest.foldl (fun acc x => acc * 256 + x.toNat) 0)

def sampleNeg (buf : List UInt8) : Int := saToInt (sampleNegSA buf)

structure MtaOut where
  beta : Int
  d : Nat
  f : Nat
deriving Repr

/-- `newMta` followed by `Beta = BetaNeg.Neg(1)`: sender share `a`, receiver's encrypted share `B`,
    the sampled `β′ = BetaNeg`, nonces `s` (for D, receiver key) and `r` (for F, sender key). -/
def mta (sender receiver : PublicKey) (a : Int) (B : Nat) (betaNeg : Int) (s r : Nat) : Option MtaOut :=
  match sender.enc betaNeg r, receiver.enc betaNeg s with
  | some f, some d0 =>
    let tmp := receiver.mul B a
    some { beta := -betaNeg, d := receiver.add d0 tmp, f := f }
  | _, _ => none

/-- the receiver's share: α = Dec(D) -/
def mtaAlpha (receiver : SecretKey) (d : Nat) : Option Int := receiver.dec d

/-! ## constants of internal/params used by the range argument (tied by `gen_params`) -/
def secParam : Nat := 256
def paramL : Nat := 256
def paramLPrime : Nat := 1280
def paramEpsilon : Nat := 512
def bitsPaillier : Nat := 2048
def bitsBlumPrime : Nat := 1024

end Mps.Paillier
